(* C01_Iso.v — algebra of the isoparametric map at one evaluation point, as the code composes
   it:  F = dN_pg @ coord_e  (Get_F_e_pg),  dN_e_pg = invF @ dN_pg  (Get_dN_e_pg),
   B rows in Kelvin-Mandel layout (Get_B_e_pg, transcribed; layout checked by correspondence).
   Linear fields: interpolation and physical gradient are exact, strain of a linear displacement
   is the constant symmetric gradient; rigid motions have zero strain.
   Patch equilibrium in an abstract assembly.  Independent of /repo (pure algebra over R). *)
From Coq Require Import Reals List Lia Lra Psatz Bool Arith.
From EFLib Require Import C02_QuadForm.
Import ListNotations.
Open Scope R_scope.

Definition delta (k n : nat) : R := if Nat.eqb k n then 1 else 0.

Lemma sumn_delta_l n k (g : nat -> R) : (k < n)%nat -> sumn n (fun i => g i * delta k i) = g k.
Proof.
  intro Hk. unfold delta.
  rewrite (sumn_ext n _ (fun i => if Nat.eqb k i then g i else 0)).
  - now apply sumn_delta.
  - intros i _. destruct (Nat.eqb k i); ring.
Qed.

Section Point.
  Variables (nPe dim : nat).
  Variable dNr : nat -> nat -> R.     (* dNr d i = dN_i/dxi_d at the point (reference) *)
  Variable Nv : nat -> R.             (* Nv i = N_i at the point *)
  Variable X : nat -> nat -> R.       (* X i n = n-th coordinate of node i *)
  Variable invF : nat -> nat -> R.

  Definition Fm (d n : nat) : R := sumn nPe (fun i => dNr d i * X i n).
  Definition gphys (k i : nat) : R := sumn dim (fun d => invF k d * dNr d i).
  Definition xphys (n : nat) : R := sumn nPe (fun i => Nv i * X i n).
  (* nodal values of the linear field a.x + b *)
  Definition linfield (a : nat -> R) (b : R) (i : nat) : R := sumn dim (fun n => a n * X i n) + b.

  Hypothesis Hpou : sumn nPe Nv = 1.
  Hypothesis Hsum0 : forall d, (d < dim)%nat -> sumn nPe (dNr d) = 0.
  Hypothesis Hinv : forall k n, (k < dim)%nat -> (n < dim)%nat ->
      sumn dim (fun d => invF k d * Fm d n) = delta k n.

  (* sum_i N_i (a.x_i + b) = a.x(xi) + b *)
  Theorem interp_linear a b :
    sumn nPe (fun i => Nv i * linfield a b i) = sumn dim (fun n => a n * xphys n) + b.
  Proof.
    unfold linfield, xphys.
    rewrite (sumn_ext nPe _ (fun i => sumn dim (fun n => a n * (Nv i * X i n)) + b * Nv i)).
    2:{ intros i _. rewrite Rmult_plus_distr_l, <- sumn_scal. f_equal; [|ring].
        apply sumn_ext. intros; ring. }
    rewrite sumn_plus, sumn_scal, Hpou, sumn_swap. f_equal; [|ring].
    apply sumn_ext. intros n _. now rewrite sumn_scal.
  Qed.

  (* reference gradient:  sum_i dN_i/dxi_d (a.x_i + b) = (F a)_d *)
  Theorem refgrad_linear a b d : (d < dim)%nat ->
    sumn nPe (fun i => dNr d i * linfield a b i) = sumn dim (fun n => Fm d n * a n).
  Proof.
    intro Hd. unfold linfield, Fm.
    rewrite (sumn_ext nPe _ (fun i => sumn dim (fun n => a n * (dNr d i * X i n)) + b * dNr d i)).
    2:{ intros i _. rewrite Rmult_plus_distr_l, <- sumn_scal. f_equal; [|ring].
        apply sumn_ext. intros; ring. }
    rewrite sumn_plus, sumn_scal, (Hsum0 d Hd), sumn_swap, Rmult_0_r, Rplus_0_r.
    apply sumn_ext. intros n _. rewrite sumn_scal. ring.
  Qed.

  Lemma gphys_const k c : (k < dim)%nat -> sumn nPe (fun i => gphys k i * c) = 0.
  Proof.
    intro Hk. rewrite sumn_scal_r. unfold gphys. rewrite sumn_swap.
    rewrite sumn_zero_ext; [ring|]. intros d Hd. rewrite sumn_scal, (Hsum0 d Hd). ring.
  Qed.

  Lemma gphys_coord k n : (k < dim)%nat -> (n < dim)%nat ->
    sumn nPe (fun i => gphys k i * X i n) = delta k n.
  Proof.
    intros Hk Hn. rewrite <- (Hinv k n Hk Hn). unfold gphys, Fm.
    rewrite (sumn_ext nPe _ (fun i => sumn dim (fun d => invF k d * (dNr d i * X i n)))).
    2:{ intros i _. rewrite <- sumn_scal_r. apply sumn_ext. intros; ring. }
    rewrite sumn_swap. apply sumn_ext. intros d _. now rewrite sumn_scal.
  Qed.

  (* physical gradient of a linear field is its gradient, at every point where invF is the
     inverse of F *)
  Theorem grad_linear a b k : (k < dim)%nat ->
    sumn nPe (fun i => gphys k i * linfield a b i) = a k.
  Proof.
    intro Hk. unfold linfield.
    rewrite (sumn_ext nPe _ (fun i => sumn dim (fun n => a n * (gphys k i * X i n)) + gphys k i * b)).
    2:{ intros i _. rewrite Rmult_plus_distr_l, <- sumn_scal. f_equal. apply sumn_ext. intros; ring. }
    rewrite sumn_plus, (gphys_const k b Hk), sumn_swap, Rplus_0_r.
    rewrite (sumn_ext dim _ (fun n => a n * delta k n)).
    - now apply sumn_delta_l.
    - intros n Hn. rewrite sumn_scal, gphys_coord; auto.
  Qed.

  (* ---- displacement fields: U i m = sum_n A m n X i n + c m ---- *)
  Definition lindisp (A : nat -> nat -> R) (c : nat -> R) (i m : nat) : R := linfield (A m) (c m) i.

  Lemma grad_lindisp A c k m : (k < dim)%nat ->
    sumn nPe (fun i => gphys k i * lindisp A c i m) = A m k.
  Proof. intro Hk. unfold lindisp. now apply grad_linear. Qed.
End Point.

(* ---------- Kelvin-Mandel B operator (layout of _GroupElem.Get_B_e_pg) ---------- *)
Section Bop.
  Variable cM : R.                    (* 1 / sqrt 2 in the code *)
  Variable nPe : nat.
  Variable g : nat -> nat -> R.       (* g k i = dN_i/dx_k (physical) *)

  (* 2D: rows (xx, yy, xy); column i*2+m is component m of node i *)
  Definition B2 (a col : nat) : R :=
    let i := (col / 2)%nat in
    match a, (col mod 2)%nat with
    | 0%nat, 0%nat => g 0 i
    | 1%nat, 1%nat => g 1 i
    | 2%nat, 0%nat => g 1 i * cM
    | 2%nat, 1%nat => g 0 i * cM
    | _, _ => 0
    end.
  (* 3D: rows (xx, yy, zz, yz, xz, xy) *)
  Definition B3 (a col : nat) : R :=
    let i := (col / 3)%nat in
    match a, (col mod 3)%nat with
    | 0%nat, 0%nat => g 0 i
    | 1%nat, 1%nat => g 1 i
    | 2%nat, 2%nat => g 2 i
    | 3%nat, 1%nat => g 2 i * cM
    | 3%nat, 2%nat => g 1 i * cM
    | 4%nat, 0%nat => g 2 i * cM
    | 4%nat, 2%nat => g 0 i * cM
    | 5%nat, 0%nat => g 1 i * cM
    | 5%nat, 1%nat => g 0 i * cM
    | _, _ => 0
    end.

  (* dof vector of a nodal vector field *)
  Definition dofs (dim : nat) (U : nat -> nat -> R) (col : nat) : R := U (col / dim)%nat (col mod dim)%nat.

  Lemma sumn_blocks2 n f : sumn (n * 2) f = sumn n (fun i => f (i * 2)%nat + f (i * 2 + 1)%nat).
  Proof.
    induction n as [|n IH]; [reflexivity|]. replace (S n * 2)%nat with (S (S (n * 2))) by lia.
    simpl sumn. rewrite IH. replace (n * 2 + 1)%nat with (S (n * 2)) by lia. ring.
  Qed.
  Lemma sumn_blocks3 n f :
    sumn (n * 3) f = sumn n (fun i => f (i * 3)%nat + f (i * 3 + 1)%nat + f (i * 3 + 2)%nat).
  Proof.
    induction n as [|n IH]; [reflexivity|]. replace (S n * 3)%nat with (S (S (S (n * 3)))) by lia.
    simpl sumn. rewrite IH. replace (n * 3 + 1)%nat with (S (n * 3)) by lia.
    replace (n * 3 + 2)%nat with (S (S (n * 3))) by lia. ring.
  Qed.

  Lemma dm2_0 i : ((i * 2) / 2 = i /\ (i * 2) mod 2 = 0)%nat.
  Proof. split; [apply Nat.div_mul; lia | apply Nat.mod_mul; lia]. Qed.
  Lemma dm2_1 i : ((i * 2 + 1) / 2 = i /\ (i * 2 + 1) mod 2 = 1)%nat.
  Proof.
    split.
    - rewrite Nat.add_comm, Nat.div_add by lia. simpl. lia.
    - rewrite Nat.add_comm, Nat.mod_add by lia. reflexivity.
  Qed.
  Lemma dm3_0 i : ((i * 3) / 3 = i /\ (i * 3) mod 3 = 0)%nat.
  Proof. split; [apply Nat.div_mul; lia | apply Nat.mod_mul; lia]. Qed.
  Lemma dm3_1 i : ((i * 3 + 1) / 3 = i /\ (i * 3 + 1) mod 3 = 1)%nat.
  Proof.
    split.
    - rewrite Nat.add_comm, Nat.div_add by lia. simpl. lia.
    - rewrite Nat.add_comm, Nat.mod_add by lia. reflexivity.
  Qed.
  Lemma dm3_2 i : ((i * 3 + 2) / 3 = i /\ (i * 3 + 2) mod 3 = 2)%nat.
  Proof.
    split.
    - rewrite Nat.add_comm, Nat.div_add by lia. simpl. lia.
    - rewrite Nat.add_comm, Nat.mod_add by lia. reflexivity.
  Qed.

  (* B u in terms of the gradient sums G k m = sum_i g k i * U i m *)
  Definition G (U : nat -> nat -> R) (k m : nat) : R := sumn nPe (fun i => g k i * U i m).

  Ltac blocks2 :=
    rewrite sumn_blocks2; unfold B2, dofs;
    match goal with |- sumn _ ?f = _ => idtac end.

  Lemma B2_apply U a : (a < 3)%nat ->
    sumn (nPe * 2) (fun col => B2 a col * dofs 2 U col) =
    match a with
    | 0%nat => G U 0 0
    | 1%nat => G U 1 1
    | _ => cM * (G U 1 0 + G U 0 1)
    end.
  Proof.
    intro Ha. rewrite sumn_blocks2. unfold B2, dofs, G.
    destruct a as [|[|[|a]]]; try lia.
    - apply sumn_ext. intros i _. destruct (dm2_0 i) as [-> ->], (dm2_1 i) as [-> ->]. ring.
    - apply sumn_ext. intros i _. destruct (dm2_0 i) as [-> ->], (dm2_1 i) as [-> ->]. ring.
    - rewrite <- sumn_plus, <- sumn_scal. apply sumn_ext. intros i _.
      destruct (dm2_0 i) as [-> ->], (dm2_1 i) as [-> ->]. ring.
  Qed.

  Lemma B3_apply U a : (a < 6)%nat ->
    sumn (nPe * 3) (fun col => B3 a col * dofs 3 U col) =
    match a with
    | 0%nat => G U 0 0
    | 1%nat => G U 1 1
    | 2%nat => G U 2 2
    | 3%nat => cM * (G U 2 1 + G U 1 2)
    | 4%nat => cM * (G U 2 0 + G U 0 2)
    | _ => cM * (G U 1 0 + G U 0 1)
    end.
  Proof.
    intro Ha. rewrite sumn_blocks3. unfold B3, dofs, G.
    destruct a as [|[|[|[|[|[|a]]]]]]; try lia.
    - apply sumn_ext. intros i _. destruct (dm3_0 i) as [-> ->], (dm3_1 i) as [-> ->], (dm3_2 i) as [-> ->]. ring.
    - apply sumn_ext. intros i _. destruct (dm3_0 i) as [-> ->], (dm3_1 i) as [-> ->], (dm3_2 i) as [-> ->]. ring.
    - apply sumn_ext. intros i _. destruct (dm3_0 i) as [-> ->], (dm3_1 i) as [-> ->], (dm3_2 i) as [-> ->]. ring.
    - rewrite <- sumn_plus, <- sumn_scal. apply sumn_ext. intros i _.
      destruct (dm3_0 i) as [-> ->], (dm3_1 i) as [-> ->], (dm3_2 i) as [-> ->]. ring.
    - rewrite <- sumn_plus, <- sumn_scal. apply sumn_ext. intros i _.
      destruct (dm3_0 i) as [-> ->], (dm3_1 i) as [-> ->], (dm3_2 i) as [-> ->]. ring.
    - rewrite <- sumn_plus, <- sumn_scal. apply sumn_ext. intros i _.
      destruct (dm3_0 i) as [-> ->], (dm3_1 i) as [-> ->], (dm3_2 i) as [-> ->]. ring.
  Qed.
End Bop.

(* Kelvin-Mandel vector of the symmetric part of a displacement gradient A (A m k = du_m/dx_k) *)
Definition KM2 (cM : R) (A : nat -> nat -> R) (a : nat) : R :=
  match a with 0%nat => A 0%nat 0%nat | 1%nat => A 1%nat 1%nat | _ => cM * (A 0%nat 1%nat + A 1%nat 0%nat) end.
Definition KM3 (cM : R) (A : nat -> nat -> R) (a : nat) : R :=
  match a with
  | 0%nat => A 0%nat 0%nat | 1%nat => A 1%nat 1%nat | 2%nat => A 2%nat 2%nat
  | 3%nat => cM * (A 1%nat 2%nat + A 2%nat 1%nat)
  | 4%nat => cM * (A 0%nat 2%nat + A 2%nat 0%nat)
  | _ => cM * (A 0%nat 1%nat + A 1%nat 0%nat)
  end.

(* with cM = 1/sqrt 2:  cM (A01 + A10) = sqrt 2 * eps_01,  eps = (A + A')/2 *)
Lemma KM_shear_is_sqrt2_eps s : / sqrt 2 * s = sqrt 2 * (s / 2).
Proof.
  assert (H : sqrt 2 * sqrt 2 = 2) by (apply sqrt_sqrt; lra).
  assert (H0 : sqrt 2 <> 0) by (intro E; rewrite E in H; lra).
  field_simplify_eq; [|assumption]. rewrite <- H at 1. ring.
Qed.

Section Strain.
  Variables (nPe : nat) (cM : R).
  Variable dNr : nat -> nat -> R.
  Variable X : nat -> nat -> R.
  Variable invF : nat -> nat -> R.

  (* strain of a linear displacement field, 2D *)
  Theorem strain_linear_2D A c :
    (forall d, (d < 2)%nat -> sumn nPe (dNr d) = 0) ->
    (forall k n, (k < 2)%nat -> (n < 2)%nat -> sumn 2 (fun d => invF k d * Fm nPe dNr X d n) = delta k n) ->
    forall a, (a < 3)%nat ->
    sumn (nPe * 2) (fun col => B2 cM (gphys 2 dNr invF) a col * dofs 2 (lindisp 2 X A c) col) = KM2 cM A a.
  Proof.
    intros H0 Hi a Ha. rewrite B2_apply by assumption. unfold G.
    destruct a as [|[|[|a]]]; try lia; unfold KM2;
      rewrite ?(grad_lindisp nPe 2 dNr X invF H0 Hi) by lia; reflexivity.
  Qed.

  Theorem strain_linear_3D A c :
    (forall d, (d < 3)%nat -> sumn nPe (dNr d) = 0) ->
    (forall k n, (k < 3)%nat -> (n < 3)%nat -> sumn 3 (fun d => invF k d * Fm nPe dNr X d n) = delta k n) ->
    forall a, (a < 6)%nat ->
    sumn (nPe * 3) (fun col => B3 cM (gphys 3 dNr invF) a col * dofs 3 (lindisp 3 X A c) col) = KM3 cM A a.
  Proof.
    intros H0 Hi a Ha. rewrite B3_apply by assumption. unfold G.
    destruct a as [|[|[|[|[|[|a]]]]]]; try lia; unfold KM3;
      rewrite ?(grad_lindisp nPe 3 dNr X invF H0 Hi) by lia; reflexivity.
  Qed.
End Strain.

(* rigid motions: A skew-symmetric => Kelvin-Mandel strain vector is zero *)
Lemma KM2_skew cM A : (forall m n, A m n = - A n m) -> forall a, KM2 cM A a = 0.
Proof.
  intros H a. pose proof (H 0%nat 0%nat). pose proof (H 1%nat 1%nat). pose proof (H 0%nat 1%nat).
  destruct a as [|[|a]]; unfold KM2; nra.
Qed.
Lemma KM3_skew cM A : (forall m n, A m n = - A n m) -> forall a, KM3 cM A a = 0.
Proof.
  intros H a. pose proof (H 0%nat 0%nat). pose proof (H 1%nat 1%nat). pose proof (H 2%nat 2%nat).
  pose proof (H 0%nat 1%nat). pose proof (H 0%nat 2%nat). pose proof (H 1%nat 2%nat).
  destruct a as [|[|[|[|[|a]]]]]; unfold KM3; nra.
Qed.

(* ---------- patch equilibrium in an abstract assembly ---------- *)
Lemma sumL_map {A B} (h : A -> B) (l : list A) (f : B -> R) : sumL (map h l) f = sumL l (fun a => f (h a)).
Proof. induction l as [|a l IH]; simpl; [reflexivity|]. now rewrite IH. Qed.

Lemma mv_scat N e x I : (forall i, (i < e_nd e)%nat -> (e_P e i < N)%nat) ->
  mv N (scat e) x I =
  sumn (e_nd e) (fun i => if Nat.eqb (e_P e i) I then mv (e_nd e) (e_K e) (gather e x) i else 0).
Proof.
  intro HP. unfold mv, scat, gather. set (n := e_nd e).
  rewrite (sumn_ext N _ (fun J => sumn n (fun i => sumn n (fun j =>
       (if Nat.eqb (e_P e i) I then e_K e i j else 0) * (if Nat.eqb (e_P e j) J then x J else 0))))).
  2:{ intros J _. rewrite <- sumn_scal_r. apply sumn_ext. intros i _. rewrite <- sumn_scal_r.
      apply sumn_ext. intros j _. destruct (Nat.eqb (e_P e i) I), (Nat.eqb (e_P e j) J); simpl; ring. }
  rewrite sumn_swap. apply sumn_ext. intros i Hi. rewrite sumn_swap.
  destruct (Nat.eqb (e_P e i) I).
  - apply sumn_ext. intros j Hj. rewrite sumn_scal, sumn_delta by (apply HP; assumption). reflexivity.
  - apply sumn_zero_ext. intros j _. apply sumn_zero_ext. intros; ring.
Qed.

Lemma mv_assemble N els x I :
  (forall e, In e els -> forall i, (i < e_nd e)%nat -> (e_P e i < N)%nat) ->
  mv N (assemble els) x I =
  sumL els (fun e => sumn (e_nd e) (fun i =>
     if Nat.eqb (e_P e i) I then mv (e_nd e) (e_K e) (gather e x) i else 0)).
Proof.
  induction els as [|e els IH]; intro H; unfold assemble; simpl.
  - unfold mv. apply sumn_zero_ext. intros; ring.
  - assert (IH' := IH (fun e' He' => H e' (or_intror He'))). rewrite <- IH'.
    rewrite <- (mv_scat N) by (apply H; left; reflexivity).
    unfold mv, assemble. rewrite <- sumn_plus. apply sumn_ext. intros; ring.
Qed.

Section Patch.
  Variables (ns N : nat) (C : nat -> nat -> R).
  (* an element: dofs per element, gather map, quadrature points *)
  Record pel := { p_nd : nat; p_P : nat -> nat; p_pts : list gp }.
  Definition to_el (e : pel) : el := {| e_nd := p_nd e; e_P := p_P e; e_K := Ke ns C (p_pts e) |}.
  Variable els : list pel.
  Hypothesis HP : forall e, In e els -> forall i, (i < p_nd e)%nat -> (p_P e i < N)%nat.
  Definition Kglob := assemble (map to_el els).

  (* integrated B column of global dof I:  D I a = sum_e sum_{i : P_e i = I} sum_p w_p B_p(a, i)
     (for elasticity/thermal this is the assembled  int dN_I/dx  — the discrete divergence) *)
  Definition Dint (I a : nat) : R :=
    sumL els (fun e => sumn (p_nd e) (fun i =>
      if Nat.eqb (p_P e i) I then sumL (p_pts e) (fun p => gw p * gB p a i) else 0)).

  Lemma mv_Ke_const_strain nd pts x s i :
    (forall p, In p pts -> forall a, (a < ns)%nat -> strain nd p x a = s a) ->
    mv nd (Ke ns C pts) x i =
    sumn ns (fun a => mv ns C s a * sumL pts (fun p => gw p * gB p a i)).
  Proof.
    intro Hs. unfold mv at 1, Ke.
    rewrite (sumn_ext nd _ (fun j => sumL pts (fun p => Kpt ns C p i j * x j))).
    2:{ intros j _. rewrite Rmult_comm, <- sumL_scal. apply sumL_ext. intros; ring. }
    rewrite sumn_sumL.
    rewrite (sumL_ext pts _ (fun p => sumn ns (fun a => mv ns C s a * (gw p * gB p a i)))).
    - rewrite <- sumn_sumL. apply sumn_ext. intros a _. now rewrite sumL_scal.
    - intros p Hp. unfold Kpt.
      rewrite (sumn_ext nd _ (fun j => sumn ns (fun a => sumn ns (fun b =>
                 gw p * gB p a i * C a b * (gB p b j * x j))))).
      2:{ intros j _. rewrite Rmult_assoc, <- sumn_scal_r, <- sumn_scal.
          apply sumn_ext. intros a _. rewrite <- sumn_scal_r, <- sumn_scal. apply sumn_ext. intros; ring. }
      rewrite sumn_swap. apply sumn_ext. intros a Ha.
      rewrite sumn_swap. unfold mv. rewrite <- sumn_scal_r. apply sumn_ext. intros b Hb.
      rewrite sumn_scal. fold (strain nd p x b). rewrite (Hs p Hp b Hb). ring.
  Qed.

  (* residual identity: if the strain samples of u are the same vector s at every point of
     every element, then (K u)_I = sum_a (C s)_a * Dint I a *)
  Theorem patch_residual u s I :
    (forall e, In e els -> forall p, In p (p_pts e) -> forall a, (a < ns)%nat ->
        strain (p_nd e) p (gather (to_el e) u) a = s a) ->
    mv N Kglob u I = sumn ns (fun a => mv ns C s a * Dint I a).
  Proof.
    intro Hs. unfold Kglob. rewrite mv_assemble.
    2:{ intros e He. apply in_map_iff in He as [e0 [<- He0]]. simpl. now apply HP. }
    rewrite sumL_map.
    rewrite (sumn_ext ns _ (fun a => sumL els (fun e => mv ns C s a * sumn (p_nd e) (fun i =>
      if Nat.eqb (p_P e i) I then sumL (p_pts e) (fun p => gw p * gB p a i) else 0)))).
    2:{ intros a _. unfold Dint. now rewrite sumL_scal. }
    rewrite sumn_sumL. apply sumL_ext. intros e He. simpl.
    rewrite (sumn_ext (p_nd e) _ (fun i => sumn ns (fun a => mv ns C s a *
      (if Nat.eqb (p_P e i) I then sumL (p_pts e) (fun p => gw p * gB p a i) else 0)))).
    - rewrite sumn_swap. apply sumn_ext. intros a _. now rewrite sumn_scal.
    - intros i Hi. destruct (Nat.eqb (p_P e i) I).
      + apply mv_Ke_const_strain. intros p Hp a Ha. apply (Hs e He p Hp a Ha).
      + symmetry. apply sumn_zero_ext. intros; ring.
  Qed.

  (* patch_equilibrium_partial.  FULL STATEMENT WANTED (not proved here): on every conforming mesh
     of a polygonal/polyhedral domain the assembled residual of a linear field vanishes at every
     interior node.  PROVED: it vanishes at every dof I whose integrated B column Dint I a is zero
     for all strain components a.  That  Dint I a = 0  at interior dofs ("discrete divergence
     theorem": sum over the elements around I of  int_e dN_I/dx  = 0, valid when the quadrature
     integrates dN exactly and the mesh is conforming) is a fact about the mesh that this
     development does NOT formalise; the correspondence run evaluates it on every generated mesh. *)
  Theorem patch_equilibrium_partial u s I :
    (forall e, In e els -> forall p, In p (p_pts e) -> forall a, (a < ns)%nat ->
        strain (p_nd e) p (gather (to_el e) u) a = s a) ->
    (forall a, (a < ns)%nat -> Dint I a = 0) ->        (* discrete-divergence hypothesis at dof I *)
    mv N Kglob u I = 0.
  Proof.
    intros Hs HD. rewrite (patch_residual u s I Hs). apply sumn_zero_ext.
    intros a Ha. rewrite (HD a Ha). ring.
  Qed.

  (* consequence for the eliminated solve: if the reduced operator on the free dofs is injective
     (C02: K restricted to the free dofs is positive definite once the rigid modes are
     restrained), any x that agrees with u on the constrained dofs and has zero residual on the
     free dofs IS u. *)
  Theorem patch_solution_unique (free : nat -> bool) u x :
    (forall z, (forall I, (I < N)%nat -> free I = false -> z I = 0) ->
               (forall I, (I < N)%nat -> free I = true -> mv N Kglob z I = 0) ->
               forall I, (I < N)%nat -> z I = 0) ->
    (forall I, (I < N)%nat -> free I = false -> x I = u I) ->
    (forall I, (I < N)%nat -> free I = true -> mv N Kglob u I = 0) ->
    (forall I, (I < N)%nat -> free I = true -> mv N Kglob x I = 0) ->
    forall I, (I < N)%nat -> x I = u I.
  Proof.
    intros Hinj Hc Hu Hx I HI.
    assert (H : (fun J => x J + -1 * u J) I = 0).
    { apply (Hinj (fun J => x J + -1 * u J)); auto.
      - intros J HJ Hf. rewrite (Hc J HJ Hf). ring.
      - intros J HJ Hf. unfold mv.
        rewrite (sumn_ext N _ (fun K => Kglob J K * x K + -1 * (Kglob J K * u K))) by (intros; ring).
        rewrite sumn_plus, sumn_scal. fold (mv N Kglob x J) (mv N Kglob u J).
        rewrite (Hu J HJ Hf), (Hx J HJ Hf). ring. }
    simpl in H. lra.
  Qed.
End Patch.

(* ---------- non-vacuity: the hypotheses of Section Point hold for the 2-node segment on [-1,1]
   evaluated at its midpoint, and the discrete-divergence hypothesis of
   patch_equilibrium_partial holds at the middle node of two such bars ---------- *)
Definition ex_dNr (d i : nat) : R := match i with 0%nat => -(1/2) | _ => 1/2 end.
Definition ex_Nv (i : nat) : R := 1/2.
Definition ex_X (i n : nat) : R := match i with 0%nat => -1 | _ => 1 end.
Definition ex_invF (k d : nat) : R := 1.
Example ex_point_hyps :
  sumn 2 ex_Nv = 1 /\ (forall d, (d < 1)%nat -> sumn 2 (ex_dNr d) = 0) /\
  (forall k n, (k < 1)%nat -> (n < 1)%nat -> sumn 1 (fun d => ex_invF k d * Fm 2 ex_dNr ex_X d n) = delta k n).
Proof.
  split; [unfold ex_Nv; simpl; lra|]. split.
  - intros d _. unfold ex_dNr. simpl. lra.
  - intros k n Hk Hn. assert (k = 0%nat) by lia. assert (n = 0%nat) by lia. subst.
    unfold Fm, ex_invF, ex_dNr, ex_X, delta. simpl. lra.
Qed.
Definition ex_bar_pt : gp := {| gw := 2; gB := fun a i => match i with 0%nat => -(1/2) | _ => 1/2 end |}.
Definition ex_bars : list pel :=
  [ {| p_nd := 2; p_P := fun i => i; p_pts := [ex_bar_pt] |};
    {| p_nd := 2; p_P := fun i => S i; p_pts := [ex_bar_pt] |} ].
Example ex_divergence_hyp : forall a, (a < 1)%nat -> Dint ex_bars 1 a = 0.
Proof. intros a _. unfold Dint, ex_bars, ex_bar_pt. simpl. lra. Qed.
