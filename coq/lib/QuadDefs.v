(* QuadDefs.v — quadrature rules as exact rational tables: shape membership, reference
   integrals of monomials (closed forms = specification), exactness checkers and the
   linear lift from monomials to arbitrary polynomials.  Independent of /repo. *)
From Coq Require Import QArith Qabs List String Lia Bool Arith ZArith.
Import ListNotations.

Inductive shape := Seg | Tri | Quad | Tet | Hex | Prism.

Record rule := {
  rshape : shape; rnpg : nat;
  rdoc : list nat;          (* documented order(s): [o], prism [oX; oYZ] *)
  rpts : list (list Q); rw : list Q }.

Definition qsum (l : list Q) : Q := fold_right Qplus 0 l.

(* --- points inside the closed reference element --- *)
Definition inside (s : shape) (p : list Q) : bool :=
  match s, p with
  | Seg, [x] => Qle_bool (-(1)) x && Qle_bool x 1
  | Tri, [x; y] => Qle_bool 0 x && Qle_bool 0 y && Qle_bool (x + y) 1
  | Quad, [x; y] => Qle_bool (-(1)) x && Qle_bool x 1 && Qle_bool (-(1)) y && Qle_bool y 1
  | Tet, [x; y; z] => Qle_bool 0 x && Qle_bool 0 y && Qle_bool 0 z && Qle_bool (x + y + z) 1
  | Hex, [x; y; z] => Qle_bool (-(1)) x && Qle_bool x 1 && Qle_bool (-(1)) y && Qle_bool y 1 &&
                      Qle_bool (-(1)) z && Qle_bool z 1
  | Prism, [x; y; z] => Qle_bool 0 x && Qle_bool 0 y && Qle_bool (x + y) 1 &&
                        Qle_bool (-(1)) z && Qle_bool z 1
  | _, _ => false
  end.

Definition measure (s : shape) : Q :=
  match s with Seg => 2 | Tri => 1#2 | Quad => 4 | Tet => 1#6 | Hex => 8 | Prism => 1 end.

(* --- reference integrals of monomials x^a y^b z^c (closed forms: the specification) --- *)
Fixpoint fact (n : nat) : Z := match n with O => 1%Z | S k => (Z.of_nat n * fact k)%Z end.
Definition qfact (n : nat) : Q := inject_Z (fact n).
(* int_{-1}^{1} x^a dx *)
Definition iseg (a : nat) : Q := if Nat.even a then 2 # (Pos.of_nat (S a)) else 0.
(* int over the unit triangle of x^a y^b = a! b! / (a+b+2)! *)
Definition itri (a b : nat) : Q := qfact a * qfact b / qfact (a + b + 2).
Definition itet (a b c : nat) : Q := qfact a * qfact b * qfact c / qfact (a + b + c + 3).

Definition iref (s : shape) (e : list nat) : Q :=
  match s, e with
  | Seg, [a] => iseg a
  | Tri, [a; b] => itri a b
  | Quad, [a; b] => iseg a * iseg b
  | Tet, [a; b; c] => itet a b c
  | Hex, [a; b; c] => iseg a * iseg b * iseg c
  | Prism, [a; b; c] => itri a b * iseg c
  | _, _ => 0
  end.

Definition qpow (x : Q) (n : nat) : Q := match n with O => 1 | S k => Qpower_positive x (Pos.of_nat n) end.
Fixpoint mono_val (p : list Q) (e : list nat) : Q :=
  match p, e with
  | x :: ps, a :: es => qpow x a * mono_val ps es
  | _, _ => 1
  end.

(* Q(m) = sum_p w_p m(x_p) *)
Fixpoint apply_rule_mono (pts : list (list Q)) (ws : list Q) (e : list nat) : Q :=
  match pts, ws with
  | p :: ps, w :: wr => Qred (w * mono_val p e + apply_rule_mono ps wr e)
  | _, _ => 0
  end.

Definition close (a b tol : Q) : bool := Qle_bool (a - b) tol && Qle_bool (b - a) tol.

Lemma close_spec a b tol : close a b tol = true -> Qabs (a - b) <= tol.
Proof.
  unfold close. intro H. apply andb_true_iff in H as [H1 H2].
  apply Qle_bool_iff in H1. apply Qle_bool_iff in H2.
  apply Qabs_Qle_condition. split; [|exact H1].
  setoid_replace (a - b) with (-(b - a)) by ring. now apply Qopp_le_compat.
Qed.

(* --- exponent sets --- *)
(* total degree <= n, dim variables (same enumeration as ElemDefs.exps, duplicated to keep
   this file free of the Reals library) *)
Fixpoint exps (dim n : nat) : list (list nat) :=
  match dim with
  | O => [[]]
  | S d => flat_map (fun a => map (cons a) (exps d (n - a))) (seq 0 (S n))
  end.

Lemma exps_complete : forall dim n (v : list nat), List.length v = dim ->
  (fold_right Nat.add 0%nat v <= n)%nat -> In v (exps dim n).
Proof.
  induction dim as [|d IH]; intros n v Hl Hs.
  - destruct v; [left; reflexivity | discriminate].
  - destruct v as [|a v]; [discriminate|]. simpl in Hl, Hs. cbn [exps]. apply in_flat_map. exists a. split.
    + apply in_seq. lia.
    + apply in_map. apply IH; lia.
Qed.

Definition dim_of (s : shape) : nat := match s with Seg => 1 | Tri | Quad => 2 | _ => 3 end.

(* exponent vectors the documentation promises: total degree <= o; for the prism
   total degree <= oYZ in the triangle variables (x, y) and degree <= oX along the axis z *)
Definition doc_exps (s : shape) (doc : list nat) : list (list nat) :=
  match s, doc with
  | Prism, [ox; oyz] => flat_map (fun ab => map (fun c => ab ++ [c]) (seq 0 (S ox))) (exps 2 oyz)
  | _, [o] => exps (dim_of s) o
  | _, _ => []
  end.

Definition tolQ : Q := 1 # 100000000000000.   (* 1e-14, absolute; reference measures are <= 8 *)

Definition chk_inside (r : rule) : bool :=
  Nat.eqb (List.length (rpts r)) (rnpg r) && Nat.eqb (List.length (rw r)) (rnpg r) &&
  forallb (inside (rshape r)) (rpts r).
Definition chk_total (r : rule) : bool := close (qsum (rw r)) (measure (rshape r)) tolQ.
Definition chk_exact_on (r : rule) (es : list (list nat)) : bool :=
  forallb (fun e => close (apply_rule_mono (rpts r) (rw r) e) (iref (rshape r) e) tolQ) es.
Definition chk_doc_exact (r : rule) : bool :=
  negb (Nat.eqb (List.length (doc_exps (rshape r) (rdoc r))) 0) && chk_exact_on r (doc_exps (rshape r) (rdoc r)).
Definition chk_rule (r : rule) : bool := chk_inside r && chk_total r && chk_doc_exact r.

(* measured exactness: largest total degree d <= dmax with all monomials of degree <= d exact *)
Fixpoint measured_degree (r : rule) (dmax : nat) : nat :=
  match dmax with
  | O => 0
  | S k => if chk_exact_on r (exps (dim_of (rshape r)) dmax) then dmax else measured_degree r k
  end.

(* --- linear lift: polynomials as lists of (coefficient, exponent vector) --- *)
Definition poly := list (Q * list nat).
Definition apply_rule_poly (r : rule) (p : poly) : Q :=
  qsum (map (fun ce => fst ce * apply_rule_mono (rpts r) (rw r) (snd ce)) p).
Definition iref_poly (s : shape) (p : poly) : Q := qsum (map (fun ce => fst ce * iref s (snd ce)) p).
Definition norm1 (p : poly) : Q := qsum (map (fun ce => Qabs (fst ce)) p).

Lemma qsum_cons x l : qsum (x :: l) = x + qsum l.
Proof. reflexivity. Qed.

Theorem exact_lift (r : rule) (es : list (list nat)) : chk_exact_on r es = true ->
  forall p : poly, (forall ce, In ce p -> In (snd ce) es) ->
  Qabs (apply_rule_poly r p - iref_poly (rshape r) p) <= tolQ * norm1 p.
Proof.
  intros H p. unfold apply_rule_poly, iref_poly, norm1.
  induction p as [|[c e] p IH]; intros Hin.
  - compute. intro Hc. discriminate Hc.
  - rewrite !map_cons, !qsum_cons. cbn [fst snd].
    assert (He : In e es) by (apply (Hin (c, e)); left; reflexivity).
    unfold chk_exact_on in H. rewrite forallb_forall in H. pose proof (H e He) as Hc.
    apply close_spec in Hc.
    set (A := apply_rule_mono (rpts r) (rw r) e) in *. set (B := iref (rshape r) e) in *.
    set (S1 := qsum (map (fun ce => fst ce * apply_rule_mono (rpts r) (rw r) (snd ce)) p)) in *.
    set (S2 := qsum (map (fun ce => fst ce * iref (rshape r) (snd ce)) p)) in *.
    set (S3 := qsum (map (fun ce => Qabs (fst ce)) p)) in *.
    setoid_replace (c * A + S1 - (c * B + S2)) with (c * (A - B) + (S1 - S2)) by ring.
    eapply Qle_trans; [apply Qabs_triangle|].
    setoid_replace (tolQ * (Qabs c + S3)) with (tolQ * Qabs c + tolQ * S3) by ring.
    apply Qplus_le_compat.
    + rewrite Qabs_Qmult. rewrite (Qmult_comm (Qabs c)). apply Qmult_le_compat_r; [exact Hc | apply Qabs_nonneg].
    + apply IH. intros ce Hce. apply Hin. right. exact Hce.
Qed.
