(* C02_QuadForm.v — finite sums over index ranges and lists, element matrices
   K_e = sum_p w_p B_p^T C B_p as functions nat -> nat -> R, symmetry, energy identity,
   positive semi-definiteness, zero-energy characterisation, kernel of a symmetric PSD form,
   scatter/assembly energy lemma.  Independent of /repo (pure algebra over R). *)
From Coq Require Import Reals List Lia Lra Psatz Bool Arith.
Import ListNotations.
Open Scope R_scope.

(* ---------- sums over 0..n-1 ---------- *)
Fixpoint sumn (n : nat) (f : nat -> R) : R :=
  match n with O => 0 | S k => sumn k f + f k end.

Lemma sumn_ext n f g : (forall i, (i < n)%nat -> f i = g i) -> sumn n f = sumn n g.
Proof.
  induction n as [|n IH]; intro H; simpl; [reflexivity|].
  rewrite IH, H; auto.
Qed.

Lemma sumn_plus n f g : sumn n (fun i => f i + g i) = sumn n f + sumn n g.
Proof. induction n as [|n IH]; simpl; [lra|]. rewrite IH. lra. Qed.

Lemma sumn_scal n c f : sumn n (fun i => c * f i) = c * sumn n f.
Proof. induction n as [|n IH]; simpl; [lra|]. rewrite IH. lra. Qed.

Lemma sumn_scal_r n c f : sumn n (fun i => f i * c) = sumn n f * c.
Proof. induction n as [|n IH]; simpl; [lra|]. rewrite IH. lra. Qed.

Lemma sumn_zero n : sumn n (fun _ => 0) = 0.
Proof. induction n as [|n IH]; simpl; [lra|]. rewrite IH. lra. Qed.

Lemma sumn_zero_ext n f : (forall i, (i < n)%nat -> f i = 0) -> sumn n f = 0.
Proof. intro H. rewrite (sumn_ext n f (fun _ => 0) H). apply sumn_zero. Qed.

Lemma sumn_swap n m (f : nat -> nat -> R) :
  sumn n (fun i => sumn m (fun j => f i j)) = sumn m (fun j => sumn n (fun i => f i j)).
Proof.
  induction n as [|n IH]; simpl.
  - symmetry. apply sumn_zero.
  - rewrite IH. rewrite <- sumn_plus. reflexivity.
Qed.

Lemma sumn_nonneg n f : (forall i, (i < n)%nat -> 0 <= f i) -> 0 <= sumn n f.
Proof.
  induction n as [|n IH]; intro H; simpl; [lra|].
  assert (0 <= sumn n f) by (apply IH; auto). assert (0 <= f n) by (apply H; lia). lra.
Qed.

Lemma sumn_nonneg_zero n f : (forall i, (i < n)%nat -> 0 <= f i) -> sumn n f = 0 ->
  forall i, (i < n)%nat -> f i = 0.
Proof.
  induction n as [|n IH]; intros H H0 i Hi; [lia|]. simpl in H0.
  assert (0 <= sumn n f) by (apply sumn_nonneg; auto). assert (0 <= f n) by (apply H; lia).
  destruct (Nat.eq_dec i n) as [->|Hne]; [lra|]. apply IH; auto; try lia. lra.
Qed.

Lemma sumn_delta n k (g : nat -> R) : (k < n)%nat ->
  sumn n (fun i => if Nat.eqb k i then g i else 0) = g k.
Proof.
  induction n as [|n IH]; intro Hk; [lia|]. simpl.
  destruct (Nat.eq_dec k n) as [->|Hne].
  - rewrite Nat.eqb_refl. rewrite sumn_zero_ext; [lra|].
    intros i Hi. destruct (Nat.eqb n i) eqn:E; [apply Nat.eqb_eq in E; lia|reflexivity].
  - rewrite IH by lia. destruct (Nat.eqb k n) eqn:E; [apply Nat.eqb_eq in E; lia|lra].
Qed.

Lemma sumn_mul_sumn n m f g :
  sumn n f * sumn m g = sumn n (fun i => sumn m (fun j => f i * g j)).
Proof.
  rewrite <- sumn_scal_r. apply sumn_ext. intros i _. now rewrite sumn_scal.
Qed.

(* ---------- sums over lists ---------- *)
Fixpoint sumL {A} (l : list A) (f : A -> R) : R :=
  match l with [] => 0 | a :: r => f a + sumL r f end.

Lemma sumL_ext {A} (l : list A) f g : (forall a, In a l -> f a = g a) -> sumL l f = sumL l g.
Proof.
  induction l as [|a l IH]; intro H; simpl; [reflexivity|].
  rewrite IH, H; auto; [left; reflexivity | intros; apply H; right; assumption].
Qed.

Lemma sumL_nonneg {A} (l : list A) f : (forall a, In a l -> 0 <= f a) -> 0 <= sumL l f.
Proof.
  induction l as [|a l IH]; intro H; simpl; [lra|].
  assert (0 <= f a) by (apply H; left; reflexivity).
  assert (0 <= sumL l f) by (apply IH; intros; apply H; right; assumption). lra.
Qed.

Lemma sumL_nonneg_zero {A} (l : list A) f : (forall a, In a l -> 0 <= f a) -> sumL l f = 0 ->
  forall a, In a l -> f a = 0.
Proof.
  induction l as [|b l IH]; intros H H0 a Ha; [destruct Ha|]. simpl in H0.
  assert (0 <= f b) by (apply H; left; reflexivity).
  assert (0 <= sumL l f) by (apply sumL_nonneg; intros; apply H; right; assumption).
  destruct Ha as [->|Ha]; [lra|]. apply IH; auto; [intros; apply H; right; assumption | lra].
Qed.

Lemma sumL_scal {A} (l : list A) c f : sumL l (fun a => c * f a) = c * sumL l f.
Proof. induction l as [|a l IH]; simpl; [lra|]. rewrite IH. lra. Qed.

Lemma sumL_plus {A} (l : list A) f g : sumL l (fun a => f a + g a) = sumL l f + sumL l g.
Proof. induction l as [|a l IH]; simpl; [lra|]. rewrite IH. lra. Qed.

Lemma sumn_sumL {A} n (l : list A) (f : A -> nat -> R) :
  sumn n (fun i => sumL l (fun a => f a i)) = sumL l (fun a => sumn n (f a)).
Proof.
  induction l as [|a l IH]; simpl; [apply sumn_zero|].
  rewrite sumn_plus, IH. reflexivity.
Qed.

(* ---------- quadratic / bilinear forms of matrices given as functions ---------- *)
Definition bil (n : nat) (K : nat -> nat -> R) (x y : nat -> R) : R :=
  sumn n (fun i => sumn n (fun j => x i * K i j * y j)).

Lemma bil_ext n K K' x x' y y' :
  (forall i j, (i < n)%nat -> (j < n)%nat -> K i j = K' i j) ->
  (forall i, (i < n)%nat -> x i = x' i) -> (forall i, (i < n)%nat -> y i = y' i) ->
  bil n K x y = bil n K' x' y'.
Proof.
  intros HK Hx Hy. unfold bil. apply sumn_ext. intros i Hi. apply sumn_ext. intros j Hj.
  rewrite HK, Hx, Hy; auto.
Qed.

Lemma bil_add_l n K x x' y : bil n K (fun i => x i + x' i) y = bil n K x y + bil n K x' y.
Proof.
  unfold bil. rewrite <- sumn_plus. apply sumn_ext. intros i _.
  rewrite <- sumn_plus. apply sumn_ext. intros j _. ring.
Qed.
Lemma bil_add_r n K x y y' : bil n K x (fun i => y i + y' i) = bil n K x y + bil n K x y'.
Proof.
  unfold bil. rewrite <- sumn_plus. apply sumn_ext. intros i _.
  rewrite <- sumn_plus. apply sumn_ext. intros j _. ring.
Qed.
Lemma bil_scal_l n K c x y : bil n K (fun i => c * x i) y = c * bil n K x y.
Proof.
  unfold bil. rewrite <- sumn_scal. apply sumn_ext. intros i _.
  rewrite <- sumn_scal. apply sumn_ext. intros j _. ring.
Qed.
Lemma bil_scal_r n K c x y : bil n K x (fun i => c * y i) = c * bil n K x y.
Proof.
  unfold bil. rewrite <- sumn_scal. apply sumn_ext. intros i _.
  rewrite <- sumn_scal. apply sumn_ext. intros j _. ring.
Qed.
Lemma bil_sym n K x y : (forall i j, (i < n)%nat -> (j < n)%nat -> K i j = K j i) ->
  bil n K x y = bil n K y x.
Proof.
  intro HK. unfold bil. rewrite sumn_swap. apply sumn_ext. intros i Hi. apply sumn_ext.
  intros j Hj. rewrite (HK j i); auto. ring.
Qed.
Lemma bil_K_plus n K K' x y :
  bil n (fun i j => K i j + K' i j) x y = bil n K x y + bil n K' x y.
Proof.
  unfold bil. rewrite <- sumn_plus. apply sumn_ext. intros i _.
  rewrite <- sumn_plus. apply sumn_ext. intros j _. ring.
Qed.
Lemma bil_K_zero n x y : bil n (fun _ _ => 0) x y = 0.
Proof. unfold bil. apply sumn_zero_ext. intros i _. apply sumn_zero_ext. intros j _. ring. Qed.

(* row i of K applied to x *)
Definition mv (n : nat) (K : nat -> nat -> R) (x : nat -> R) (i : nat) : R :=
  sumn n (fun j => K i j * x j).
Definition unitv (k : nat) (i : nat) : R := if Nat.eqb k i then 1 else 0.

Lemma bil_unit_l n K k y : (k < n)%nat -> bil n K (unitv k) y = mv n K y k.
Proof.
  intro Hk. unfold bil, mv, unitv.
  rewrite (sumn_ext n _ (fun i => if Nat.eqb k i then sumn n (fun j => K i j * y j) else 0)).
  - now rewrite sumn_delta.
  - intros i _. destruct (Nat.eqb k i).
    + apply sumn_ext. intros; ring.
    + apply sumn_zero_ext. intros; ring.
Qed.

(* A symmetric positive semi-definite form vanishes on x  iff  K x = 0:
   the zero-energy modes are exactly the kernel. *)
Theorem psd_zero_energy_kernel n K x :
  (forall i j, (i < n)%nat -> (j < n)%nat -> K i j = K j i) ->
  (forall z, 0 <= bil n K z z) ->
  bil n K x x = 0 -> forall i, (i < n)%nat -> mv n K x i = 0.
Proof.
  intros Hs Hp H0 i Hi. rewrite <- bil_unit_l by assumption.
  set (b := bil n K (unitv i) x). set (c := bil n K (unitv i) (unitv i)).
  assert (Hc : 0 <= c) by apply Hp.
  assert (Hq : forall t, 0 <= 2 * t * b + t * t * c).
  { intro t. pose proof (Hp (fun k => x k + t * unitv i k)) as H.
    rewrite bil_add_l, !bil_add_r, bil_scal_l, !bil_scal_r, bil_scal_l in H.
    rewrite (bil_sym n K x (unitv i) Hs) in H. fold b c in H. rewrite H0 in H. lra. }
  pose proof (Hq (- b / (c + 1))) as H1.
  assert (Hc1 : c + 1 <> 0) by lra.
  replace (2 * (- b / (c + 1)) * b + - b / (c + 1) * (- b / (c + 1)) * c)
    with (- (b * b) * ((c + 2) / ((c + 1) * (c + 1)))) in H1 by (field; assumption).
  assert (Hpos : 0 < (c + 2) / ((c + 1) * (c + 1))).
  { apply Rdiv_lt_0_compat; [lra|]. apply Rmult_lt_0_compat; lra. }
  assert (Hbb : 0 <= b * b) by nra.
  assert (b * b = 0) by nra. nra.
Qed.

Theorem kernel_zero_energy n K x :
  (forall i, (i < n)%nat -> mv n K x i = 0) -> bil n K x x = 0.
Proof.
  intro H. unfold bil. apply sumn_zero_ext. intros i Hi.
  rewrite (sumn_ext n _ (fun j => x i * (K i j * x j))) by (intros; ring).
  rewrite sumn_scal. fold (mv n K x i). rewrite H by assumption. ring.
Qed.

(* ---------- element matrix K_e = sum_p w_p B_p^T C B_p ---------- *)
Section Element.
  Variables (ns nd : nat) (C : nat -> nat -> R).
  (* one quadrature point: w = weight * |det J|, B a i = entry (a, i) of the operator *)
  Record gp := { gw : R; gB : nat -> nat -> R }.

  Definition Kpt (p : gp) (i j : nat) : R :=
    gw p * sumn ns (fun a => sumn ns (fun b => gB p a i * C a b * gB p b j)).
  Definition Ke (pts : list gp) (i j : nat) : R := sumL pts (fun p => Kpt p i j).

  Definition strain (p : gp) (x : nat -> R) (a : nat) : R := sumn nd (fun i => gB p a i * x i).
  Definition bilC (e f : nat -> R) : R := bil ns C e f.

  Theorem Ke_symmetric pts :
    (forall a b, (a < ns)%nat -> (b < ns)%nat -> C a b = C b a) ->
    forall i j, Ke pts i j = Ke pts j i.
  Proof.
    intros HC i j. unfold Ke. apply sumL_ext. intros p _. unfold Kpt. f_equal.
    rewrite sumn_swap. apply sumn_ext. intros a Ha. apply sumn_ext. intros b Hb.
    rewrite (HC b a); auto. ring.
  Qed.

  Lemma Kpt_bil p x y : bil nd (Kpt p) x y = gw p * bilC (strain p x) (strain p y).
  Proof.
    unfold bilC, bil, Kpt, strain.
    (* right-hand side: expand the two strain sums *)
    transitivity (sumn ns (fun a => sumn ns (fun b => sumn nd (fun i => sumn nd (fun j =>
                    x i * (gw p * (gB p a i * C a b * gB p b j)) * y j))))).
    - (* left-hand side -> 4-fold sum with (i, j) outermost, then swap *)
      transitivity (sumn nd (fun i => sumn nd (fun j => sumn ns (fun a => sumn ns (fun b =>
                    x i * (gw p * (gB p a i * C a b * gB p b j)) * y j))))).
      + apply sumn_ext. intros i _. apply sumn_ext. intros j _.
        rewrite <- sumn_scal. rewrite Rmult_comm. rewrite <- sumn_scal, <- sumn_scal.
        apply sumn_ext. intros a _. rewrite <- !sumn_scal. apply sumn_ext. intros b _. ring.
      + (* i j a b -> a b i j *)
        rewrite (sumn_ext nd _ (fun i => sumn ns (fun a => sumn nd (fun j => sumn ns (fun b =>
                    x i * (gw p * (gB p a i * C a b * gB p b j)) * y j))))).
        2:{ intros i _. apply sumn_swap. }
        rewrite sumn_swap. apply sumn_ext. intros a _.
        rewrite (sumn_ext nd _ (fun i => sumn ns (fun b => sumn nd (fun j =>
                    x i * (gw p * (gB p a i * C a b * gB p b j)) * y j)))).
        2:{ intros i _. apply sumn_swap. }
        apply sumn_swap.
    - rewrite <- sumn_scal. apply sumn_ext. intros a _. rewrite <- sumn_scal. apply sumn_ext. intros b _.
      rewrite (Rmult_comm (sumn nd (fun i => gB p a i * x i)) (C a b)).
      rewrite Rmult_assoc, sumn_mul_sumn, <- !sumn_scal. apply sumn_ext. intros i _.
      rewrite <- !sumn_scal. apply sumn_ext. intros j _. ring.
  Qed.

  (* x' K_e y = sum_p w_p (B_p x)' C (B_p y) *)
  Theorem Ke_energy pts x y :
    bil nd (Ke pts) x y = sumL pts (fun p => gw p * bilC (strain p x) (strain p y)).
  Proof.
    induction pts as [|p pts IH]; simpl.
    - unfold Ke; simpl. apply bil_K_zero.
    - unfold Ke in *. simpl. rewrite bil_K_plus, IH, Kpt_bil. reflexivity.
  Qed.

  Theorem Ke_psd pts :
    (forall e, 0 <= bilC e e) -> (forall p, In p pts -> 0 <= gw p) ->
    forall x, 0 <= bil nd (Ke pts) x x.
  Proof.
    intros HC Hw x. rewrite Ke_energy. apply sumL_nonneg. intros p Hp.
    apply Rmult_le_pos; [apply Hw; assumption | apply HC].
  Qed.

  (* zero energy <-> every strain sample vanishes (C positive definite, weights > 0) *)
  Theorem Ke_zero_energy_iff pts x :
    (forall e, 0 <= bilC e e) ->
    (forall e, bilC e e = 0 -> forall a, (a < ns)%nat -> e a = 0) ->
    (forall p, In p pts -> 0 < gw p) ->
    (bil nd (Ke pts) x x = 0 <-> forall p, In p pts -> forall a, (a < ns)%nat -> strain p x a = 0).
  Proof.
    intros HC HPD Hw. rewrite Ke_energy. split.
    - intros H p Hp a Ha.
      assert (H1 : gw p * bilC (strain p x) (strain p x) = 0).
      { apply (sumL_nonneg_zero pts (fun p => gw p * bilC (strain p x) (strain p x))); auto.
        intros q Hq. apply Rmult_le_pos; [left; apply Hw; assumption | apply HC]. }
      apply HPD; auto. pose proof (Hw p Hp). nra.
    - intros H. rewrite (sumL_ext pts _ (fun _ => 0)).
      + clear. induction pts; simpl; lra.
      + intros p Hp. unfold bilC, bil. rewrite sumn_zero_ext; [ring|].
        intros a Ha. rewrite sumn_zero_ext; [reflexivity|]. intros b Hb. rewrite (H p Hp a Ha). ring.
  Qed.

  (* if every strain sample equals the same vector s, the energy is (sum of weights) * s'Cs *)
  Theorem Ke_energy_const_strain pts x s :
    (forall p, In p pts -> forall a, (a < ns)%nat -> strain p x a = s a) ->
    bil nd (Ke pts) x x = sumL pts gw * bilC s s.
  Proof.
    intro H. rewrite Ke_energy.
    rewrite (sumL_ext pts _ (fun p => bilC s s * gw p)).
    - rewrite sumL_scal. ring.
    - intros p Hp. rewrite Rmult_comm. f_equal. unfold bilC. apply bil_ext; auto; intros; apply H; auto.
  Qed.
End Element.

(* ---------- assembly: K = sum_e P_e' K_e P_e ---------- *)
Record el := { e_nd : nat; e_P : nat -> nat; e_K : nat -> nat -> R }.

Definition scat (e : el) (I J : nat) : R :=
  sumn (e_nd e) (fun i => sumn (e_nd e) (fun j =>
     if Nat.eqb (e_P e i) I && Nat.eqb (e_P e j) J then e_K e i j else 0)).
Definition assemble (els : list el) (I J : nat) : R := sumL els (fun e => scat e I J).
Definition gather (e : el) (x : nat -> R) (i : nat) : R := x (e_P e i).

Lemma scat_energy N e x y : (forall i, (i < e_nd e)%nat -> (e_P e i < N)%nat) ->
  bil N (scat e) x y = bil (e_nd e) (e_K e) (gather e x) (gather e y).
Proof.
  intro HP. unfold bil, scat, gather. set (n := e_nd e).
  transitivity (sumn n (fun i => sumn n (fun j => sumn N (fun I => sumn N (fun J =>
     (if Nat.eqb (e_P e i) I then x I else 0) * e_K e i j * (if Nat.eqb (e_P e j) J then y J else 0)))))).
  - transitivity (sumn N (fun I => sumn N (fun J => sumn n (fun i => sumn n (fun j =>
     (if Nat.eqb (e_P e i) I then x I else 0) * e_K e i j * (if Nat.eqb (e_P e j) J then y J else 0)))))).
    + apply sumn_ext. intros I _. apply sumn_ext. intros J _.
      rewrite <- sumn_scal, Rmult_comm, <- sumn_scal. apply sumn_ext. intros i _.
      rewrite <- !sumn_scal. apply sumn_ext. intros j _.
      destruct (Nat.eqb (e_P e i) I), (Nat.eqb (e_P e j) J); simpl; ring.
    + rewrite (sumn_ext N _ (fun I => sumn n (fun i => sumn N (fun J => sumn n (fun j =>
        (if Nat.eqb (e_P e i) I then x I else 0) * e_K e i j * (if Nat.eqb (e_P e j) J then y J else 0)))))).
      2:{ intros I _. apply sumn_swap. }
      rewrite sumn_swap. apply sumn_ext. intros i _.
      rewrite (sumn_ext N _ (fun I => sumn n (fun j => sumn N (fun J =>
        (if Nat.eqb (e_P e i) I then x I else 0) * e_K e i j * (if Nat.eqb (e_P e j) J then y J else 0))))).
      2:{ intros I _. apply sumn_swap. }
      apply sumn_swap.
  - apply sumn_ext. intros i Hi. apply sumn_ext. intros j Hj.
    rewrite (sumn_ext N _ (fun I => (if Nat.eqb (e_P e i) I then x I else 0) *
               (e_K e i j * sumn N (fun J => if Nat.eqb (e_P e j) J then y J else 0)))).
    2:{ intros I _. rewrite <- sumn_scal, <- sumn_scal. apply sumn_ext. intros; ring. }
    rewrite sumn_scal_r, !sumn_delta by (apply HP; assumption). ring.
Qed.

(* x' (sum_e P_e' K_e P_e) y = sum_e (P_e x)' K_e (P_e y) *)
Theorem assemble_energy N els x y :
  (forall e, In e els -> forall i, (i < e_nd e)%nat -> (e_P e i < N)%nat) ->
  bil N (assemble els) x y = sumL els (fun e => bil (e_nd e) (e_K e) (gather e x) (gather e y)).
Proof.
  induction els as [|e els IH]; intro H; unfold assemble; simpl.
  - apply bil_K_zero.
  - rewrite bil_K_plus. fold (assemble els). rewrite IH, scat_energy.
    + reflexivity.
    + apply H. left; reflexivity.
    + intros e' He'. apply H. right; assumption.
Qed.

Theorem assemble_symmetric els :
  (forall e, In e els -> forall i j, (i < e_nd e)%nat -> (j < e_nd e)%nat -> e_K e i j = e_K e j i) ->
  forall I J, assemble els I J = assemble els J I.
Proof.
  intros H I J. unfold assemble. apply sumL_ext. intros e He. unfold scat.
  rewrite sumn_swap. apply sumn_ext. intros i Hi. apply sumn_ext. intros j Hj.
  rewrite (H e He j i Hj Hi). rewrite andb_comm. reflexivity.
Qed.

Theorem assemble_psd N els :
  (forall e, In e els -> forall i, (i < e_nd e)%nat -> (e_P e i < N)%nat) ->
  (forall e, In e els -> forall z, 0 <= bil (e_nd e) (e_K e) z z) ->
  forall x, 0 <= bil N (assemble els) x x.
Proof.
  intros HP Hpsd x. rewrite assemble_energy by assumption. apply sumL_nonneg.
  intros e He. apply Hpsd. assumption.
Qed.

(* kernel of a sum of PSD forms = intersection of the element kernels *)
Theorem assemble_zero_energy_iff N els x :
  (forall e, In e els -> forall i, (i < e_nd e)%nat -> (e_P e i < N)%nat) ->
  (forall e, In e els -> forall z, 0 <= bil (e_nd e) (e_K e) z z) ->
  (bil N (assemble els) x x = 0 <->
   forall e, In e els -> bil (e_nd e) (e_K e) (gather e x) (gather e x) = 0).
Proof.
  intros HP Hpsd. rewrite assemble_energy by assumption. split.
  - intros H e He.
    apply (sumL_nonneg_zero els (fun e => bil (e_nd e) (e_K e) (gather e x) (gather e x))); auto.
  - intro H. rewrite (sumL_ext els _ (fun _ => 0)) by assumption. clear. induction els; simpl; lra.
Qed.

(* ---------- non-vacuity: one 2-dof bar element with one point, assembled twice ---------- *)
Definition ex_pt : gp := {| gw := 2; gB := fun a i => match a, i with 0%nat, 0%nat => -1 | 0%nat, 1%nat => 1 | _, _ => 0 end |}.
Definition ex_C (a b : nat) : R := 3.
Example ex_Ke_entries : Ke 1 ex_C [ex_pt] 0 0 = 6 /\ Ke 1 ex_C [ex_pt] 0 1 = -6.
Proof. unfold Ke, Kpt, ex_C; simpl. split; ring. Qed.
Example ex_hyp_C_psd : forall e, 0 <= bilC 1 ex_C e e.
Proof. intro e. unfold bilC, bil, ex_C; simpl. nra. Qed.
Example ex_hyp_C_pd : forall e, bilC 1 ex_C e e = 0 -> forall a, (a < 1)%nat -> e a = 0.
Proof. intros e H a Ha. assert (a = 0%nat) by lia. subst. unfold bilC, bil, ex_C in H; simpl in H. nra. Qed.
Definition ex_el1 : el := {| e_nd := 2; e_P := fun i => i; e_K := Ke 1 ex_C [ex_pt] |}.
Definition ex_el2 : el := {| e_nd := 2; e_P := fun i => S i; e_K := Ke 1 ex_C [ex_pt] |}.
Example ex_assembled : assemble [ex_el1; ex_el2] 1 1 = 12.
Proof. cbv [assemble scat sumL sumn Ke Kpt ex_C ex_el1 ex_el2 e_nd e_P e_K ex_pt gw gB Nat.eqb andb]. ring. Qed.
Example ex_hyp_range : forall e, In e [ex_el1; ex_el2] -> forall i, (i < e_nd e)%nat -> (e_P e i < 3)%nat.
Proof. intros e [<-|[<-|[]]] i Hi; simpl in *; lia. Qed.
