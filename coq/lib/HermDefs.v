(* HermDefs.v — Hermite (Euler-Bernoulli) tables: record, checkers, soundness over R. *)
From Coq Require Import QArith Qreals Reals Ring_polynom List String Lia Lra Bool Arith.
From EFLib Require Import PolyQ ElemDefs.
Import ListNotations.

Record herm := {
  hname : string; hnodes : list Q;
  hN : list (PExpr Q); hdN : list (PExpr Q); hddN : list (PExpr Q); hdddN : list (PExpr Q) }.

(* value of e at the rational point pt lies within tol of target; checked exactly in Q and
   through the normaliser so that the statement transfers to R *)
Definition chk_close (pt : list Q) (e : PExpr Q) (target tol : Q) : bool :=
  let v := Qeval pt e in
  pe_eqb (pe_subst (pt_sub pt) e) (PEc v) && Qle_bool (target - tol) v && Qle_bool v (target + tol).

Lemma chk_close_sound pt e target tol : chk_close pt e target tol = true ->
  (Q2R target - Q2R tol <= Reval (map Q2R pt) e <= Q2R target + Q2R tol)%R.
Proof.
  unfold chk_close. intro H. apply andb_true_iff in H as [H H3]. apply andb_true_iff in H as [H1 H2].
  apply Reval_at_Qpoint in H1. rewrite H1.
  apply Qle_bool_iff in H2. apply Qle_bool_iff in H3.
  apply Qle_Rle in H2. apply Qle_Rle in H3.
  rewrite Q2R_minus in H2. rewrite Q2R_plus in H3. lra.
Qed.

(* function k = 2 i + kind : kind 0 = phi_i (value dof), kind 1 = psi_i (slope dof).
   targets: phi_i(x_j) = delta_ij, phi_i'(x_j) = 0, psi_i(x_j) = 0, psi_i'(x_j) = delta_ij / 2
   (reference slope 1/2: Get_Hermitian_N_e_pg scales psi by the element length, dr/dx = 2/L). *)
Definition val_target (k j : nat) : Q := if Nat.eqb k (2 * j) then 1 else 0.
Definition slope_target (k j : nat) : Q := if Nat.eqb k (2 * j + 1) then (1#2) else 0.

Definition chk_herm_interp (tol : Q) (h : herm) : bool :=
  Nat.eqb (List.length (hN h)) (2 * List.length (hnodes h)) &&
  forallb_i (fun k Nk =>
    forallb_i (fun j x =>
       chk_close [x] Nk (val_target k j) tol && chk_close [x] (pd 1 Nk) (slope_target k j) tol)
      0 (hnodes h)) 0 (hN h).

Theorem herm_interp_sound tol h : chk_herm_interp tol h = true ->
  forall k j Nk x, nth_error (hN h) k = Some Nk -> nth_error (hnodes h) j = Some x ->
   (Q2R (val_target k j) - Q2R tol <= Reval [Q2R x] Nk <= Q2R (val_target k j) + Q2R tol)%R /\
   (Q2R (slope_target k j) - Q2R tol <= Reval [Q2R x] (pd 1 Nk) <= Q2R (slope_target k j) + Q2R tol)%R.
Proof.
  intros H k j Nk x Hk Hj. unfold chk_herm_interp in H. apply andb_true_iff in H as [_ H].
  pose proof (forallb_i_nth _ _ _ H _ _ Hk) as H1. simpl in H1.
  pose proof (forallb_i_nth _ _ _ H1 _ _ Hj) as H2. simpl in H2.
  apply andb_true_iff in H2 as [Ha Hb].
  split; [exact (chk_close_sound [x] _ _ _ Ha) | exact (chk_close_sound [x] _ _ _ Hb)].
Qed.

(* derivative tables: exact identities *)
Definition chk_list_deriv (prev next : list (PExpr Q)) : bool :=
  Nat.eqb (List.length prev) (List.length next) &&
  forallb_i (fun i en => pe_eqb en (pd 1 (nth i prev PEO))) 0 next.

Lemma list_deriv_sound prev next : chk_list_deriv prev next = true ->
  forall i en, nth_error next i = Some en -> forall l : list R,
  Reval l en = Reval l (pd 1 (nth i prev PEO)).
Proof.
  intros H i en Hi l. unfold chk_list_deriv in H. apply andb_true_iff in H as [_ H].
  pose proof (forallb_i_nth _ _ _ H _ _ Hi) as H1. simpl in H1. now apply Qnorm_sound.
Qed.

Definition chk_herm_deriv (h : herm) : bool :=
  chk_list_deriv (hN h) (hdN h) && chk_list_deriv (hdN h) (hddN h) && chk_list_deriv (hddN h) (hdddN h).

Definition herm_deriv_spec (h : herm) : Prop :=
  forall (l : list R) i en,
   (nth_error (hdN h) i = Some en -> Reval l en = Reval l (pd 1 (nth i (hN h) PEO))) /\
   (nth_error (hddN h) i = Some en -> Reval l en = Reval l (pd 1 (nth i (hdN h) PEO))) /\
   (nth_error (hdddN h) i = Some en -> Reval l en = Reval l (pd 1 (nth i (hddN h) PEO))).

Theorem herm_deriv_sound h : chk_herm_deriv h = true -> herm_deriv_spec h.
Proof.
  unfold chk_herm_deriv, herm_deriv_spec. intro H.
  apply andb_true_iff in H as [H H3]. apply andb_true_iff in H as [H1 H2].
  intros l i en. repeat split; intro Hn.
  - exact (list_deriv_sound _ _ H1 i en Hn l).
  - exact (list_deriv_sound _ _ H2 i en Hn l).
  - exact (list_deriv_sound _ _ H3 i en Hn l).
Qed.

Definition herm_tol : Q := 1 # 1000000000000.   (* 1e-12 *)
Definition chk_herm (h : herm) : bool := chk_herm_interp herm_tol h && chk_herm_deriv h.
Definition hdiag (h : herm) := (hname h, [("interp", chk_herm_interp herm_tol h); ("deriv", chk_herm_deriv h)]%string).
