(* C11/C10 — small dense linear algebra over R on lists, used by the generated law files.
   Matrices are lists of rows.  Everything is computable by [cbv] with the delta list in
   [mat_cbv], leaving arithmetic on R untouched. *)
From Coq Require Import Reals List Lra Lia Psatz.
Import ListNotations.
Open Scope R_scope.

Definition vec := list R.
Definition mat := list (list R).

Fixpoint dot (a b : vec) : R :=
  match a, b with
  | x :: a', y :: b' => x * y + dot a' b'
  | _, _ => 0
  end.

Fixpoint lmap {A B} (f : A -> B) (l : list A) : list B :=
  match l with [] => [] | x :: t => f x :: lmap f t end.

Fixpoint lnth (k : nat) (l : vec) : R :=
  match l, k with
  | [], _ => 0
  | x :: _, O => x
  | _ :: t, S k' => lnth k' t
  end.

Fixpoint lrow (k : nat) (M : mat) : vec :=
  match M, k with
  | [], _ => []
  | r :: _, O => r
  | _ :: t, S k' => lrow k' t
  end.

Fixpoint lseq (s n : nat) : list nat :=
  match n with O => [] | S n' => s :: lseq (S s) n' end.

Definition colk (M : mat) (k : nat) : vec := lmap (lnth k) M.
Definition mtrans (n : nat) (M : mat) : mat := lmap (colk M) (lseq 0 n).
Definition mv (M : mat) (x : vec) : vec := lmap (fun r => dot r x) M.
Definition mmul (n : nat) (A B : mat) : mat :=
  lmap (fun r => lmap (fun k => dot r (colk B k)) (lseq 0 n)) A.
Definition entry (M : mat) (i j : nat) : R := lnth j (lrow i M).
Definition ident (n : nat) : mat :=
  lmap (fun i => lmap (fun j => if Nat.eqb i j then 1 else 0) (lseq 0 n)) (lseq 0 n).
Definition submat (idx : list nat) (M : mat) : mat :=
  lmap (fun i => lmap (fun j => entry M i j) idx) idx.
Fixpoint vzip (f : R -> R -> R) (a b : vec) : vec :=
  match a, b with x :: a', y :: b' => f x y :: vzip f a' b' | _, _ => [] end.
Fixpoint hadamard (A B : mat) : mat :=
  match A, B with r :: A', s :: B' => vzip Rmult r s :: hadamard A' B' | _, _ => [] end.
Definition diagm (d : vec) : mat :=
  lmap (fun i => lmap (fun j => if Nat.eqb i j then lnth i d else 0) (lseq 0 (length d))) (lseq 0 (length d)).
Definition qf (M : mat) (x : vec) : R := dot x (mv M x).
Definition msym (n : nat) (M : mat) : Prop := mtrans n M = M.
(* embed a small matrix at rows/cols idx of an n x n zero matrix *)
Fixpoint findidx (l : list nat) (I k : nat) : option nat :=
  match l with [] => None | h :: t => if Nat.eqb h I then Some k else findidx t I (S k) end.
Definition embed (n : nat) (idx : list nat) (M : mat) : mat :=
  lmap (fun I => lmap (fun J =>
     match findidx idx I 0, findidx idx J 0 with Some i, Some j => entry M i j | _, _ => 0 end)
     (lseq 0 n)) (lseq 0 n).

Ltac mat_cbv :=
  cbv [mmul mtrans mv colk lmap lnth lrow lseq dot entry ident submat vzip hadamard diagm qf msym
       embed findidx Nat.eqb length].

(* list equality of R-matrices, entries discharged by [tac] *)
Ltac list_eq tac :=
  repeat lazymatch goal with
  | |- @cons _ _ _ = @cons _ _ _ => apply f_equal2
  | |- @nil _ = @nil _ => reflexivity
  | |- @eq R _ _ => solve [tac]
  end.

(* ---------------------------------------------------------------- positive definiteness *)
Definition posdef (M : mat) (n : nat) : Prop :=
  forall x : vec, length x = n -> (exists k, lnth k x <> 0) -> 0 < qf M x.

Lemma sq_sum_zero2 a b : 0 <= a -> 0 <= b -> a + b <= 0 -> a = 0 /\ b = 0.
Proof. intros; split; lra. Qed.

Lemma sq_nn t : 0 <= t * t.
Proof. nra. Qed.
Lemma sq_pos t : t <> 0 -> 0 < t * t.
Proof. intro. nra. Qed.

(* completing the square, 2x2 *)
Lemma pd2_form a b c x y : 0 < a -> 0 < a * c - b * b -> (x <> 0 \/ y <> 0) ->
  0 < a * x * x + 2 * b * x * y + c * y * y.
Proof.
  intros Ha Hd Hxy.
  set (u := x + b / a * y).
  assert (E : a * x * x + 2 * b * x * y + c * y * y
              = a * (u * u) + (a * c - b * b) / a * (y * y)) by (unfold u; field; lra).
  rewrite E.
  assert (Hq : 0 < (a * c - b * b) / a) by (apply Rdiv_lt_0_compat; lra).
  pose proof (sq_nn u) as Hu. pose proof (sq_nn y) as Hy2.
  assert (0 <= a * (u * u)) by (apply Rmult_le_pos; lra).
  assert (0 <= (a * c - b * b) / a * (y * y)) by (apply Rmult_le_pos; lra).
  destruct (Req_dec y 0) as [Hy|Hy].
  - assert (Hx : x <> 0) by tauto.
    assert (u = x) by (unfold u; rewrite Hy; field; lra).
    pose proof (sq_pos x Hx). rewrite H1 in *.
    assert (0 < a * (x * x)) by (apply Rmult_lt_0_compat; lra). lra.
  - pose proof (sq_pos y Hy).
    assert (0 < (a * c - b * b) / a * (y * y)) by (apply Rmult_lt_0_compat; lra).
    lra.
Qed.

(* completing the square, symmetric 3x3 with leading minors m1 m2 m3 *)
Definition det3 (a b c d e f : R) : R :=   (* [[a b c];[b d e];[c e f]] *)
  a * (d * f - e * e) - b * (b * f - e * c) + c * (b * e - d * c).

Lemma pd3_form a b c d e f x y z :
  0 < a -> 0 < a * d - b * b -> 0 < det3 a b c d e f -> (x <> 0 \/ y <> 0 \/ z <> 0) ->
  0 < a * x * x + d * y * y + f * z * z + 2 * b * x * y + 2 * c * x * z + 2 * e * y * z.
Proof.
  intros Ha Hm2 Hm3 Hx. unfold det3 in Hm3.
  set (m2 := a * d - b * b) in *.
  set (m3 := a * (d * f - e * e) - b * (b * f - e * c) + c * (b * e - d * c)) in *.
  set (u := x + b / a * y + c / a * z).
  set (w := y + (a * e - b * c) / m2 * z).
  assert (E : a * x * x + d * y * y + f * z * z + 2 * b * x * y + 2 * c * x * z + 2 * e * y * z
              = a * (u * u) + m2 / a * (w * w) + m3 / m2 * (z * z)).
  { unfold u, w, m3, m2. field. unfold m2 in Hm2. lra. }
  rewrite E.
  assert (H1 : 0 < m2 / a) by (apply Rdiv_lt_0_compat; lra).
  assert (H2 : 0 < m3 / m2) by (apply Rdiv_lt_0_compat; lra).
  pose proof (sq_nn u). pose proof (sq_nn w). pose proof (sq_nn z).
  assert (0 <= a * (u * u)) by (apply Rmult_le_pos; lra).
  assert (0 <= m2 / a * (w * w)) by (apply Rmult_le_pos; lra).
  assert (0 <= m3 / m2 * (z * z)) by (apply Rmult_le_pos; lra).
  destruct (Req_dec z 0) as [Hz|Hz].
  - destruct (Req_dec w 0) as [Hw|Hw].
    + destruct (Req_dec u 0) as [Hu|Hu].
      * exfalso. unfold w in Hw. unfold u in Hu. rewrite Hz in *.
        assert (y = 0) by lra. subst y. assert (x = 0) by lra. tauto.
      * pose proof (sq_pos u Hu). assert (0 < a * (u * u)) by (apply Rmult_lt_0_compat; lra). lra.
    + pose proof (sq_pos w Hw). assert (0 < m2 / a * (w * w)) by (apply Rmult_lt_0_compat; lra). lra.
  - pose proof (sq_pos z Hz). assert (0 < m3 / m2 * (z * z)) by (apply Rmult_lt_0_compat; lra). lra.
Qed.

Lemma len6 (x : vec) : length x = 6%nat -> exists a b c d e f, x = [a; b; c; d; e; f].
Proof.
  do 6 (destruct x as [|? x]; [discriminate|]). destruct x; [|discriminate].
  intros _. repeat eexists.
Qed.

Lemma len3 (x : vec) : length x = 3%nat -> exists a b c, x = [a; b; c].
Proof.
  do 3 (destruct x as [|? x]; [discriminate|]). destruct x; [|discriminate].
  intros _. repeat eexists.
Qed.

(* Sylvester-type criterion for the block shape every material-frame law has:
   a symmetric 3x3 block and a positive diagonal shear block. *)
Definition blk33 (a b c d e f g4 g5 g6 : R) : mat :=
  [[a; b; c; 0; 0; 0]; [b; d; e; 0; 0; 0]; [c; e; f; 0; 0; 0];
   [0; 0; 0; g4; 0; 0]; [0; 0; 0; 0; g5; 0]; [0; 0; 0; 0; 0; g6]].
Definition blk22 (a b d g : R) : mat := [[a; b; 0]; [b; d; 0]; [0; 0; g]].

Theorem posdef_block33_diag a b c d e f g4 g5 g6 :
  0 < a -> 0 < a * d - b * b -> 0 < det3 a b c d e f -> 0 < g4 -> 0 < g5 -> 0 < g6 ->
  posdef (blk33 a b c d e f g4 g5 g6) 6.
Proof.
  unfold blk33. intros Ha Hm2 Hm3 H4 H5 H6 x Hl [k Hk].
  destruct (len6 x Hl) as (x1 & x2 & x3 & x4 & x5 & x6 & ->).
  mat_cbv.
  assert (Hq : forall t, 0 <= t * t) by (intro; nra).
  destruct (Req_dec x1 0) as [E1|E1]; [destruct (Req_dec x2 0) as [E2|E2]; [destruct (Req_dec x3 0) as [E3|E3]|]|].
  - (* the 3-block part vanishes; some shear component is non-zero *)
    subst x1 x2 x3.
    assert (x4 <> 0 \/ x5 <> 0 \/ x6 <> 0).
    { do 6 (destruct k as [|k]; [cbn in Hk; tauto|]). destruct k; cbn in Hk; lra. }
    assert (0 < g4 * (x4 * x4) + g5 * (x5 * x5) + g6 * (x6 * x6)).
    { destruct H as [H|[H|H]].
      - assert (0 < x4 * x4) by nra. pose proof (Hq x5). pose proof (Hq x6). nra.
      - assert (0 < x5 * x5) by nra. pose proof (Hq x4). pose proof (Hq x6). nra.
      - assert (0 < x6 * x6) by nra. pose proof (Hq x4). pose proof (Hq x5). nra. }
    nra.
  - pose proof (pd3_form a b c d e f x1 x2 x3 Ha Hm2 Hm3 (or_intror (or_intror E3))).
    pose proof (Hq x4). pose proof (Hq x5). pose proof (Hq x6). nra.
  - pose proof (pd3_form a b c d e f x1 x2 x3 Ha Hm2 Hm3 (or_intror (or_introl E2))).
    pose proof (Hq x4). pose proof (Hq x5). pose proof (Hq x6). nra.
  - pose proof (pd3_form a b c d e f x1 x2 x3 Ha Hm2 Hm3 (or_introl E1)).
    pose proof (Hq x4). pose proof (Hq x5). pose proof (Hq x6). nra.
Qed.

Theorem posdef_block22_diag a b d g :
  0 < a -> 0 < a * d - b * b -> 0 < g ->
  posdef (blk22 a b d g) 3.
Proof.
  unfold blk22. intros Ha Hm2 Hg x Hl [k Hk].
  destruct (len3 x Hl) as (x1 & x2 & x3 & ->).
  mat_cbv.
  assert (Hq : forall t, 0 <= t * t) by (intro; nra).
  destruct (Req_dec x1 0) as [E1|E1]; [destruct (Req_dec x2 0) as [E2|E2]|].
  - subst x1 x2. assert (x3 <> 0).
    { do 3 (destruct k as [|k]; [cbn in Hk; tauto|]). destruct k; cbn in Hk; lra. }
    assert (0 < x3 * x3) by nra. nra.
  - pose proof (pd2_form a b d x1 x2 Ha Hm2 (or_intror E2)). pose proof (Hq x3). nra.
  - pose proof (pd2_form a b d x1 x2 Ha Hm2 (or_introl E1)). pose proof (Hq x3). nra.
Qed.


(* converse parts used to state the conditional results sharply: the diagonal entries of a
   positive definite block matrix are positive *)
Lemma posdef_blk33_diag_pos a b c d e f g4 g5 g6 :
  posdef (blk33 a b c d e f g4 g5 g6) 6 -> 0 < a /\ 0 < d /\ 0 < f /\ 0 < g4 /\ 0 < g5 /\ 0 < g6.
Proof.
  intro H. unfold posdef, blk33 in H.
  pose proof (H [1;0;0;0;0;0] eq_refl (ex_intro _ 0%nat R1_neq_R0)) as H1.
  pose proof (H [0;1;0;0;0;0] eq_refl (ex_intro _ 1%nat R1_neq_R0)) as H2.
  pose proof (H [0;0;1;0;0;0] eq_refl (ex_intro _ 2%nat R1_neq_R0)) as H3.
  pose proof (H [0;0;0;1;0;0] eq_refl (ex_intro _ 3%nat R1_neq_R0)) as H4.
  pose proof (H [0;0;0;0;1;0] eq_refl (ex_intro _ 4%nat R1_neq_R0)) as H5.
  pose proof (H [0;0;0;0;0;1] eq_refl (ex_intro _ 5%nat R1_neq_R0)) as H6.
  revert H1 H2 H3 H4 H5 H6. mat_cbv. intros. repeat split; lra.
Qed.
