(* C06 — Hermite tables: each tabulated derivative is the derivative (Coquelicot is_derive)
   of the previous table's entry, at every point of the reference segment. *)
From Coq Require Import QArith Qreals Reals Ring_polynom List String Lia.
From Coquelicot Require Import Coquelicot.
From EFLib Require Import PolyQ ElemDefs HermDefs Deriv.
From EFP Require Import Gen_Hermite C06_hermite.
Import ListNotations.

Theorem C06_hermite_tables_are_derivatives : forall h, In h all_herm ->
  forall i (r : R),
   (forall ep en, nth_error (hN h) i = Some ep -> nth_error (hdN h) i = Some en ->
      is_derive (fun x => Reval [x] ep) r (Reval [r] en)) /\
   (forall ep en, nth_error (hdN h) i = Some ep -> nth_error (hddN h) i = Some en ->
      is_derive (fun x => Reval [x] ep) r (Reval [r] en)) /\
   (forall ep en, nth_error (hddN h) i = Some ep -> nth_error (hdddN h) i = Some en ->
      is_derive (fun x => Reval [x] ep) r (Reval [r] en)).
Proof.
  intros h Hh i r. pose proof (C06_hermite_derivative_tables h Hh) as S. unfold herm_deriv_spec in S.
  split; [|split]; intros ep en Hep Hen.
  - destruct (S [r] i en) as (Ha & _ & _). rewrite (Ha Hen), (nth_error_nth (hN h) i PEO Hep). apply pd_is_derive_1.
  - destruct (S [r] i en) as (_ & Hb & _). rewrite (Hb Hen), (nth_error_nth (hdN h) i PEO Hep). apply pd_is_derive_1.
  - destruct (S [r] i en) as (_ & _ & Hc). rewrite (Hc Hen), (nth_error_nth (hddN h) i PEO Hep). apply pd_is_derive_1.
Qed.

Print Assumptions C06_hermite_tables_are_derivatives.
