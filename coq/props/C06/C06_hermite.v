(* C06 — Hermite part, about the tables regenerated from /repo (EFP.Gen_Hermite). *)
From Coq Require Import QArith Qreals Reals Ring_polynom List String Lia.
From EFLib Require Import PolyQ ElemDefs HermDefs.
From EFP Require Import Gen_Hermite.
Import ListNotations.

Lemma all_herm_checked : forallb chk_herm all_herm = true.
Proof. vm_compute. reflexivity. Qed.

Lemma herm_ok h : In h all_herm -> chk_herm h = true.
Proof. apply forallb_In. exact all_herm_checked. Qed.

Example four_families : List.length all_herm = 4%nat.
Proof. reflexivity. Qed.

(* value/slope interpolation: each function has unit value (phi) or reference slope 1/2 (psi)
   at its own node and zero value and slope at every other node, within 1e-12 (the EB4/EB5
   tables carry decimal-rationalised coefficients, so equality is not claimed). *)
Theorem C06_hermite_value_slope : forall h, In h all_herm ->
  forall k j Nk x, nth_error (hN h) k = Some Nk -> nth_error (hnodes h) j = Some x ->
   (Q2R (val_target k j) - Q2R herm_tol <= Reval [Q2R x] Nk <= Q2R (val_target k j) + Q2R herm_tol)%R /\
   (Q2R (slope_target k j) - Q2R herm_tol <= Reval [Q2R x] (pd 1 Nk) <= Q2R (slope_target k j) + Q2R herm_tol)%R.
Proof.
  intros h Hh. pose proof (herm_ok h Hh) as H. unfold chk_herm in H.
  apply Bool.andb_true_iff in H as [H _]. now apply herm_interp_sound.
Qed.

Theorem C06_hermite_derivative_tables : forall h, In h all_herm -> herm_deriv_spec h.
Proof.
  intros h Hh. pose proof (herm_ok h Hh) as H. unfold chk_herm in H.
  apply Bool.andb_true_iff in H as [_ H]. now apply herm_deriv_sound.
Qed.

Print Assumptions C06_hermite_value_slope.
Print Assumptions C06_hermite_derivative_tables.
