(* C06 — the tabulated first derivatives are derivatives in the analytic sense
   (Coquelicot is_derive), for every element, every entry, every point (r, s, t). *)
From Coq Require Import QArith Qreals Reals Ring_polynom List String Lia.
From Coquelicot Require Import Coquelicot.
From EFLib Require Import PolyQ ElemDefs Deriv.
From EFP Require Import Gen_Elems C06_lagrange.
Import ListNotations.

Theorem C06_dN_is_derive : forall e, In e all_elems ->
  forall d1, edN e = Some d1 ->
  forall i Ni row, nth_error (eN e) i = Some Ni -> nth_error d1 i = Some row ->
  forall r s t : R,
   (forall en, nth_error row 0 = Some en -> is_derive (fun x => Reval [x; s; t] Ni) r (Reval [r; s; t] en)) /\
   (forall en, nth_error row 1 = Some en -> is_derive (fun x => Reval [r; x; t] Ni) s (Reval [r; s; t] en)) /\
   (forall en, nth_error row 2 = Some en -> is_derive (fun x => Reval [r; s; x] Ni) t (Reval [r; s; t] en)).
Proof.
  intros e He d1 Hd1 i Ni row HNi Hrow r s t.
  destruct (C06_derivative_tables e He) as (d1' & d2 & d3 & d4 & E1 & _ & _ & _ & Htab).
  rewrite Hd1 in E1. inversion E1 as [E1']; subst d1'. clear E1.
  assert (Hcol : col 0 (nth i (Ncols e) []) PEO = Ni).
  { unfold Ncols, col. rewrite (nth_error_nth (map (fun n => [n]) (eN e)) i [] (x:=[Ni])); [reflexivity|].
    rewrite nth_error_map, HNi. reflexivity. }
  split; [|split]; intros en0 Hen.
  - destruct (Htab [r; s; t] i 0%nat) as (Ha & _). rewrite (Ha row en0 Hrow Hen), Hcol. apply pd_is_derive_1.
  - destruct (Htab [r; s; t] i 1%nat) as (Ha & _). rewrite (Ha row en0 Hrow Hen), Hcol. apply pd_is_derive_2.
  - destruct (Htab [r; s; t] i 2%nat) as (Ha & _). rewrite (Ha row en0 Hrow Hen), Hcol. apply pd_is_derive_3.
Qed.

Print Assumptions C06_dN_is_derive.
