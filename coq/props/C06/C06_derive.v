(* C06 — the tabulated first derivatives are derivatives in the analytic sense
   (Coquelicot is_derive), for every element, every entry, every point (r, s, t). *)
From Coq Require Import QArith Qreals Reals Ring_polynom List String Lia.
From Coquelicot Require Import Coquelicot.
From EFLib Require Import PolyQ ElemDefs Deriv.
From EFP Require Import Gen_Elems C06_lagrange.
Import ListNotations.

Theorem C06_dN_is_derive : forall e, In e all_elems ->
  forall d1, edN e = Some d1 ->
  forall i Ni row, nth_error (eN e) i = Some Ni -> nth_error d1 i = Some row ->
  forall r s t : R,
   (forall en, nth_error row 0 = Some en -> is_derive (fun x => Reval [x; s; t] Ni) r (Reval [r; s; t] en)) /\
   (forall en, nth_error row 1 = Some en -> is_derive (fun x => Reval [r; x; t] Ni) s (Reval [r; s; t] en)) /\
   (forall en, nth_error row 2 = Some en -> is_derive (fun x => Reval [r; s; x] Ni) t (Reval [r; s; t] en)).
Proof.
  intros e He d1 Hd1 i Ni row HNi Hrow r s t.
  destruct (C06_derivative_tables e He) as (d1' & d2 & d3 & d4 & E1 & _ & _ & _ & Htab).
  rewrite Hd1 in E1. inversion E1 as [E1']; subst d1'. clear E1.
  assert (Hcol : col 0 (nth i (Ncols e) []) PEO = Ni).
  { unfold Ncols, col. rewrite (nth_error_nth (map (fun n => [n]) (eN e)) i [] (x:=[Ni])); [reflexivity|].
    rewrite nth_error_map, HNi. reflexivity. }
  split; [|split]; intros en0 Hen.
  - destruct (Htab [r; s; t] i 0%nat) as (Ha & _). rewrite (Ha row en0 Hrow Hen), Hcol. apply pd_is_derive_1.
  - destruct (Htab [r; s; t] i 1%nat) as (Ha & _). rewrite (Ha row en0 Hrow Hen), Hcol. apply pd_is_derive_2.
  - destruct (Htab [r; s; t] i 2%nat) as (Ha & _). rewrite (Ha row en0 Hrow Hen), Hcol. apply pd_is_derive_3.
Qed.

Print Assumptions C06_dN_is_derive.

(* second derivative tables: entry (i, d) of _ddN is the derivative of entry (i, d) of _dN
   with respect to variable d+1; same for _dddN / _ddN and _ddddN / _dddN *)
Lemma higher_is_derive (prev next : list (list (PExpr Q))) :
  (forall (l : list R) i d row en, nth_error next i = Some row -> nth_error row d = Some en ->
     Reval l en = Reval l (pd (Pos.of_nat (S d)) (col d (nth i prev []) PEO))) ->
  forall i rowp rown, nth_error prev i = Some rowp -> nth_error next i = Some rown ->
  forall r s t : R,
   (forall ep en, nth_error rowp 0 = Some ep -> nth_error rown 0 = Some en ->
      is_derive (fun x => Reval [x; s; t] ep) r (Reval [r; s; t] en)) /\
   (forall ep en, nth_error rowp 1 = Some ep -> nth_error rown 1 = Some en ->
      is_derive (fun x => Reval [r; x; t] ep) s (Reval [r; s; t] en)) /\
   (forall ep en, nth_error rowp 2 = Some ep -> nth_error rown 2 = Some en ->
      is_derive (fun x => Reval [r; s; x] ep) t (Reval [r; s; t] en)).
Proof.
  intros H i rowp rown Hp Hn r s t.
  assert (Hnth : nth i prev [] = rowp) by (apply nth_error_nth; exact Hp).
  split; [|split]; intros ep en Hep Hen.
  - rewrite (H [r; s; t] i 0%nat rown en Hn Hen), Hnth. unfold col.
    rewrite (nth_error_nth rowp 0 PEO Hep). apply pd_is_derive_1.
  - rewrite (H [r; s; t] i 1%nat rown en Hn Hen), Hnth. unfold col.
    rewrite (nth_error_nth rowp 1 PEO Hep). apply pd_is_derive_2.
  - rewrite (H [r; s; t] i 2%nat rown en Hn Hen), Hnth. unfold col.
    rewrite (nth_error_nth rowp 2 PEO Hep). apply pd_is_derive_3.
Qed.

Theorem C06_higher_tables_are_derivatives : forall e, In e all_elems ->
  exists d1 d2 d3 d4, edN e = Some d1 /\ eddN e = Some d2 /\ edddN e = Some d3 /\ eddddN e = Some d4 /\
  forall prev next, (prev, next) = (d1, d2) \/ (prev, next) = (d2, d3) \/ (prev, next) = (d3, d4) ->
  forall i rowp rown, nth_error prev i = Some rowp -> nth_error next i = Some rown ->
  forall r s t : R,
   (forall ep en, nth_error rowp 0 = Some ep -> nth_error rown 0 = Some en ->
      is_derive (fun x => Reval [x; s; t] ep) r (Reval [r; s; t] en)) /\
   (forall ep en, nth_error rowp 1 = Some ep -> nth_error rown 1 = Some en ->
      is_derive (fun x => Reval [r; x; t] ep) s (Reval [r; s; t] en)) /\
   (forall ep en, nth_error rowp 2 = Some ep -> nth_error rown 2 = Some en ->
      is_derive (fun x => Reval [r; s; x] ep) t (Reval [r; s; t] en)).
Proof.
  intros e He.
  destruct (C06_derivative_tables e He) as (d1 & d2 & d3 & d4 & E1 & E2 & E3 & E4 & Htab).
  exists d1, d2, d3, d4. repeat (split; [assumption|]).
  intros prev next Hpn. apply higher_is_derive.
  intros l i d row en Hr Hen. destruct (Htab l i d) as (_ & H2 & H3 & H4).
  destruct Hpn as [E|[E|E]]; inversion E; subst; eauto.
Qed.

Print Assumptions C06_higher_tables_are_derivatives.
