(* C06 — Lagrange part.  Only statements closed by the checker-soundness lemmas of
   EFLib.ElemDefs, about the tables regenerated from /repo (EFP.Gen_Elems). *)
From Coq Require Import QArith Qreals Reals Ring_polynom List String Lia.
From EFLib Require Import PolyQ ElemDefs.
From EFP Require Import Gen_Elems.
Import ListNotations.

(* the decision, re-run on the regenerated tables *)
Lemma all_elems_checked : forallb chk_elem all_elems = true.
Proof. vm_compute. reflexivity. Qed.

Lemma elem_ok e : In e all_elems -> chk_elem e = true.
Proof. apply forallb_In. exact all_elems_checked. Qed.

Ltac split_chk H :=
  unfold chk_elem in H; repeat (apply Bool.andb_true_iff in H; destruct H as [H ?]).

(* all 19 Lagrange element types of DICT_GMSH_DATA are present (non-vacuity) *)
Example nineteen_elements : List.length all_elems = 19%nat.
Proof. reflexivity. Qed.

Theorem C06_kronecker : forall e, In e all_elems ->
  forall i j Ni node, nth_error (eN e) i = Some Ni -> nth_error (enodes e) j = Some node ->
  Reval (map Q2R node) Ni = (if Nat.eqb i j then 1 else 0)%R.
Proof. intros e He. pose proof (elem_ok e He) as H. split_chk H. now apply kronecker_sound. Qed.

Theorem C06_partition_of_unity : forall e, In e all_elems ->
  forall l : list R, Rsum (map (Reval l) (eN e)) = 1%R.
Proof. intros e He. pose proof (elem_ok e He) as H. split_chk H. now apply pou_sound. Qed.

Theorem C06_reproduces_order : forall e, In e all_elems ->
  forall v, List.length v = edim e -> (fold_right Nat.add 0%nat v <= eorder e)%nat ->
  forall l : list R,
    Rinterp (map (fun node => Reval (map Q2R node) (mono v)) (enodes e)) (map (Reval l) (eN e))
    = Reval l (mono v).
Proof. intros e He. pose proof (elem_ok e He) as H. split_chk H. now apply reproduce_sound. Qed.

(* every derivative table exists (no TypeError from _Init_Functions) and table k+1 is the
   formal partial derivative of table k, column by column, at every point *)
Theorem C06_derivative_tables : forall e, In e all_elems -> deriv_tables_spec e.
Proof. intros e He. pose proof (elem_ok e He) as H. split_chk H. now apply deriv_tables_sound. Qed.

(* non-vacuity: a concrete instance of the statements *)
Example tri6_instance : In el_TRI6 all_elems /\ List.length (eN el_TRI6) = 6%nat /\ eorder el_TRI6 = 2%nat.
Proof. repeat split; simpl; tauto. Qed.

Print Assumptions C06_kronecker.
Print Assumptions C06_partition_of_unity.
Print Assumptions C06_reproduces_order.
Print Assumptions C06_derivative_tables.
