(* C07 — the factory's choices and richness of the rule selected for stiffness integrals. *)
From Coq Require Import QArith Qabs List String Lia Bool Ring_polynom.
From EFLib Require Import PolyQ ElemDefs QuadDefs ModRank.
From EFP Require Import Gen_Elems Gen_Gauss.
Import ListNotations.
Open Scope string_scope.

Definition find_elem (n : string) : option elem := find (fun e => String.eqb (ename e) n) all_elems.
Definition shape_of_dimname (e : elem) (r : rule) : bool := Nat.eqb (dim_of (rshape r)) (edim e).

(* every element type has a rule for rigi and mass (segments: also beam, beam_shear), taken
   from the tabulated rules, of the element's dimension *)
Definition wanted (e : elem) : list string :=
  if Nat.eqb (edim e) 1 then ["rigi"; "mass"; "beam"; "beam_shear"] else ["rigi"; "mass"].
Definition lookup (en mt : string) : option rule :=
  match find (fun t => String.eqb (fst (fst t)) en && String.eqb (snd (fst t)) mt) factory with
  | Some t => Some (snd t) | None => None end.
Definition rule_eqb_name (a b : rule) : bool :=
  Nat.eqb (rnpg a) (rnpg b) && Nat.eqb (dim_of (rshape a)) (dim_of (rshape b)).
Definition chk_factory_total : bool :=
  forallb (fun e => forallb (fun mt =>
     match lookup (ename e) mt with
     | Some r => shape_of_dimname e r && existsb (fun r' => rule_eqb_name r r') all_rules
     | None => false end) (wanted e)) all_elems.

Theorem C07_factory_total : forall e, In e all_elems -> forall mt, In mt (wanted e) ->
  exists r, lookup (ename e) mt = Some r /\ dim_of (rshape r) = edim e.
Proof.
  assert (H : chk_factory_total = true) by (vm_compute; reflexivity).
  intros e He mt Hmt. unfold chk_factory_total in H. rewrite forallb_forall in H.
  pose proof (H e He) as H1. rewrite forallb_forall in H1. pose proof (H1 mt Hmt) as H2.
  destruct (lookup (ename e) mt) as [r|]; [|discriminate]. exists r. split; [reflexivity|].
  apply andb_true_iff in H2 as [H2 _]. now apply Nat.eqb_eq in H2.
Qed.

(* gradient matrix of the reference element at the points of a rule, reduced modulo
   p = 2^31 - 1: one row per (point, direction), one column per node *)
Definition grad_rows (e : elem) (r : rule) : option (list (list Uint63.int)) :=
  match edN e with
  | Some dn =>
      all_some (flat_map (fun p =>
         match all_some (map of_Qp p) with
         | Some pm => map (fun d => all_some (map (fun row => eval_mod pm (nth d row PEO)) dn)) (seq 0 (edim e))
         | None => [None]
         end) (rpts r))
  | None => None
  end.
Definition grad_rank (e : elem) (r : rule) : nat :=
  match grad_rows e r with Some m => rank_mod m | None => 0 end.
Definition weights_pos (r : rule) : bool := forallb (fun w => negb (Qle_bool w 0)) (rw r).

(* rigi: all weights > 0 (so x'Kx = sum_p w_p |grad u(x_p)|^2 vanishes only if every gradient
   sample does) and the gradient samples have rank nPe - 1 modulo p.  The rank over Q is at
   least the rank modulo p and at most nPe - 1 (constants are in the kernel: C06 partition of
   unity), so only constants have zero conduction energy. *)
Definition chk_rigi_rich (e : elem) : bool :=
  match lookup (ename e) "rigi" with
  | Some r => weights_pos r && Nat.eqb (grad_rank e r) (enPe e - 1)
  | None => false end.
Definition rigi_diag := map (fun e => (ename e, match lookup (ename e) "rigi" with
     | Some r => (rnpg r, weights_pos r, grad_rank e r, (enPe e - 1)%nat) | None => (0%nat, false, 0%nat, 0%nat) end)) all_elems.

Lemma all_rigi_rich : forallb chk_rigi_rich all_elems = true.
Proof. vm_compute. reflexivity. Qed.

Theorem C07_rigi_rule_rich_enough : forall e, In e all_elems ->
  exists r, lookup (ename e) "rigi" = Some r /\ weights_pos r = true /\
            grad_rank e r = (enPe e - 1)%nat.
Proof.
  intros e He. pose proof all_rigi_rich as H. rewrite forallb_forall in H. pose proof (H e He) as H1.
  unfold chk_rigi_rich in H1. destruct (lookup (ename e) "rigi") as [r|]; [|discriminate].
  exists r. apply andb_true_iff in H1 as [H1 H2]. apply Nat.eqb_eq in H2. auto.
Qed.

Print Assumptions C07_factory_total.
Print Assumptions C07_rigi_rule_rich_enough.
