(* C07 — "lengths, areas, volumes and centres of straight-sided (affine) elements are computed
   exactly": corollaries of C07_weights_total / C07_exact_to_documented_order for EVERY tabulated
   rule.  For an affine element x = b + sum_d a_d xi_d with constant |det J| = j, Integrate_e of a
   function f is j * sum_p w_p f(x(xi_p)); for f = 1 and f = x_k these are j * (rule applied to the
   polynomials 1 and b_k + sum_d a_dk xi_d in the reference coordinates).  The theorems bound the
   distance of those rule sums to the exact reference integrals by 1e-14 * (sum of |coefficients|):
   measure = j * meas(ref), first moment = j * (b_k meas(ref) + sum_d a_dk * int xi_d), i.e. the
   centre is the affine image of the reference centroid.  That the implementation's Integrate_e /
   length / area / volume / center ARE these rule sums is the correspondence (props/C07.py,
   impl_integration and impl_mesh_measure, compared with exact rationals). *)
From Coq Require Import QArith Qabs List String Lia Bool.
From EFLib Require Import QuadDefs.
From EFP Require Import Gen_Gauss C07_rules.
Import ListNotations.

Definition zeros (n : nat) : list nat := repeat 0%nat n.
Definition unit (n d : nat) : list nat := map (fun i => if Nat.eqb i d then 1%nat else 0%nat) (seq 0 n).
(* the coordinate polynomial b + sum_d a_d xi_d *)
Definition affine_poly (n : nat) (b : Q) (a : list Q) : poly :=
  (b, zeros n) :: map (fun da => (snd da, unit n (fst da))) (combine (seq 0 n) a).

(* every rule documents exactness at least for all monomials of degree <= 1 *)
Definition chk_deg1 (r : rule) : bool :=
  let n := dim_of (rshape r) in
  forallb (fun e => existsb (fun e' => if list_eq_dec Nat.eq_dec e e' then true else false) (doc_exps (rshape r) (rdoc r)))
          (zeros n :: map (unit n) (seq 0 n)).
Lemma all_deg1 : forallb chk_deg1 all_rules = true.
Proof. vm_compute. reflexivity. Qed.

Lemma deg1_in r : In r all_rules -> forall e, In e (zeros (dim_of (rshape r)) :: map (unit (dim_of (rshape r))) (seq 0 (dim_of (rshape r)))) ->
  In e (doc_exps (rshape r) (rdoc r)).
Proof.
  intros Hr e He. pose proof all_deg1 as A. rewrite forallb_forall in A. pose proof (A r Hr) as B.
  unfold chk_deg1 in B. rewrite forallb_forall in B. pose proof (B e He) as C.
  apply existsb_exists in C as [e' [Hin Heq]]. destruct (list_eq_dec Nat.eq_dec e e'); [subst; exact Hin | discriminate].
Qed.

Lemma affine_poly_monos r b a : In r all_rules -> List.length a = dim_of (rshape r) ->
  forall ce, In ce (affine_poly (dim_of (rshape r)) b a) -> In (snd ce) (doc_exps (rshape r) (rdoc r)).
Proof.
  intros Hr Hl ce Hce. apply (deg1_in r Hr). unfold affine_poly in Hce. destruct Hce as [<-|Hce]; [left; reflexivity|].
  right. apply in_map_iff in Hce as [[d x] [<- Hin]]. cbn [fst snd]. apply in_map. apply in_combine_l in Hin. exact Hin.
Qed.

(* measure: j * (sum of the weights) is j * meas(ref) within 1e-14 * j *)
Theorem C07_affine_measure_exact : forall r, In r all_rules -> forall j : Q, 0 <= j ->
  Qabs (j * qsum (rw r) - j * measure (rshape r)) <= tolQ * j.
Proof.
  intros r Hr j Hj. pose proof (C07_weights_total r Hr) as H.
  setoid_replace (j * qsum (rw r) - j * measure (rshape r)) with (j * (qsum (rw r) - measure (rshape r))) by ring.
  rewrite Qabs_Qmult, (Qabs_pos j Hj), Qmult_comm. apply Qmult_le_compat_r; assumption.
Qed.

(* first moment of a coordinate: the rule applied to b + sum a_d xi_d is its exact reference integral
   within 1e-14 * (|b| + sum |a_d|)  (times j on both sides for the element) *)
Theorem C07_affine_first_moment_exact : forall r, In r all_rules -> forall (b : Q) (a : list Q),
  List.length a = dim_of (rshape r) ->
  Qabs (apply_rule_poly r (affine_poly (dim_of (rshape r)) b a) - iref_poly (rshape r) (affine_poly (dim_of (rshape r)) b a))
    <= tolQ * norm1 (affine_poly (dim_of (rshape r)) b a).
Proof.
  intros r Hr b a Hl. destruct (C07_exact_to_documented_order r Hr) as [_ H]. apply H. now apply affine_poly_monos.
Qed.

(* the exact side: int_ref (b + sum a_d xi_d) = b * meas(ref) + sum_d a_d * int_ref xi_d, with the
   reference first moments int xi_d = meas(ref) * (reference centroid)_d tabulated here *)
Definition ref_centroid (s : shape) : list Q :=
  match s with
  | Seg => [0] | Quad => [0; 0] | Hex => [0; 0; 0]
  | Tri => [1 # 3; 1 # 3] | Tet => [1 # 4; 1 # 4; 1 # 4] | Prism => [1 # 3; 1 # 3; 0]
  end.
Definition chk_centroid (s : shape) : bool :=
  Qeq_bool (iref s (zeros (dim_of s))) (measure s) &&
  forallb (fun d => Qeq_bool (iref s (unit (dim_of s) d)) (measure s * nth d (ref_centroid s) 0)) (seq 0 (dim_of s)).
Lemma reference_first_moments : forall s, chk_centroid s = true.
Proof. destruct s; vm_compute; reflexivity. Qed.

(* non-vacuity: the premises hold for concrete rules of every dimension and a concrete affine map *)
Example rules_of_every_dimension :
  forallb (fun n => existsb (fun r => Nat.eqb (dim_of (rshape r)) n) all_rules) [1; 2; 3]%nat = true.
Proof. vm_compute. reflexivity. Qed.
Example affine_instance_2d : forall r, In r all_rules -> dim_of (rshape r) = 2%nat ->
  Qabs (apply_rule_poly r (affine_poly 2 (5 # 4) [3 # 2; -1 # 4]) - iref_poly (rshape r) (affine_poly 2 (5 # 4) [3 # 2; -1 # 4]))
    <= tolQ * 3.
Proof.
  intros r Hr Hd. pose proof (C07_affine_first_moment_exact r Hr (5 # 4) [3 # 2; -1 # 4]) as H. rewrite Hd in H.
  specialize (H eq_refl). eapply Qle_trans; [exact H|]. apply Qmult_le_l; [reflexivity|]. vm_compute. discriminate.
Qed.

Print Assumptions C07_affine_measure_exact.
Print Assumptions C07_affine_first_moment_exact.
