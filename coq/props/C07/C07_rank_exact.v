(* C07 — "the stiffness rule is rich enough", exactly over Q (no "modulo p" caveat).
   For every element type, with the rule the factory selects for stiffness integrals ("rigi"):
   the samples of the reference gradient at the rule's points, evaluated EXACTLY over Q on the
   regenerated derivative tables and the dumped (dyadic) points, have a kernel of dimension at most
   one over Q: a rational nodal vector whose gradient vanishes at every point of the rule and whose
   value at ONE node (the pinned one the certificate names) is zero, is zero.  Together with the
   positivity of the weights (C07_rigi_rule_rich_enough) the reference conduction energy
   sum_p w_p |grad u(x_p)|^2 vanishes only for constants.  Certificate check:
   EFLib.C02_RankCert.full_check (untrusted modular Gauss-Jordan, trusted left-inverse check),
   soundness EFLib.C02_RankQ.pinned_kernel_trivial. *)
From Coq Require Import QArith List String Lia Bool Ring_polynom.
From EFLib Require Import PolyQ ElemDefs QuadDefs ModRank C02_RankQ C02_RankCert.
From EFP Require Import Gen_Elems Gen_Gauss C07_factory.
Import ListNotations.
Open Scope string_scope.

(* one row per (point, direction), one column per node *)
Definition grad_rowsQ (e : elem) (r : rule) : option (list (list Q)) :=
  option_map (@List.concat (list Q)) (all_some (map (dn_atQ e) (rpts r))).

Definition chk_rigi_exact (e : elem) : bool :=
  match lookup (ename e) "rigi" with
  | Some r => match grad_rowsQ e r with
              | Some G => full_check (enPe e) 1 G
              | None => false end
  | None => false end.

Lemma all_rigi_exact : forallb chk_rigi_exact all_elems = true.
Proof. vm_cast_no_check (eq_refl true). Qed.

Theorem C07_rigi_gradient_kernel_is_constants_exact : forall e, In e all_elems ->
  exists r G, lookup (ename e) "rigi" = Some r /\ grad_rowsQ e r = Some G /\
    List.length (pinned_of (enPe e) G) = 1%nat /\
    forall x : list Q, List.length x = enPe e ->
      (forall row, In row G -> (dotQ row x == 0)%Q) ->
      (forall s, In s (pinned_of (enPe e) G) -> (nth s x 0 == 0)%Q) ->
      Forall (fun xk => (xk == 0)%Q) x.
Proof.
  intros e He. pose proof all_rigi_exact as H. rewrite forallb_forall in H. pose proof (H e He) as H1.
  unfold chk_rigi_exact in H1. destruct (lookup (ename e) "rigi") as [r|]; [|discriminate].
  destruct (grad_rowsQ e r) as [G|] eqn:EG; [|discriminate H1].
  exists r, G. split; [reflexivity|]. split; [exact EG|].
  exact (full_check_sound _ _ G H1).
Qed.

(* non-vacuity: the rows are not empty and the constant vector IS in the kernel of the samples
   (so the bound "dimension at most one" is attained: the kernel is exactly the constants) *)
Definition ones (n : nat) : list Q := repeat 1%Q n.
Definition chk_constants_in_kernel (e : elem) : bool :=
  match lookup (ename e) "rigi" with
  | Some r => match grad_rowsQ e r with
              | Some G => negb (Nat.eqb (List.length G) 0) && forallb (fun row => Qeq_bool (dotQ row (ones (enPe e))) 0) G
              | None => false end
  | None => false end.
Lemma constants_in_kernel : forallb chk_constants_in_kernel all_elems = true.
Proof. vm_cast_no_check (eq_refl true). Qed.

Print Assumptions C07_rigi_gradient_kernel_is_constants_exact.
