(* C07 — quadrature tables (exact rationals of the implementation's doubles, EFP.Gen_Gauss). *)
From Coq Require Import QArith Qabs List String Lia Bool.
From EFLib Require Import QuadDefs.
From EFP Require Import Gen_Gauss.
Import ListNotations.

Lemma all_rules_checked : forallb chk_rule all_rules = true.
Proof. vm_compute. reflexivity. Qed.

Lemma rule_ok r : In r all_rules -> chk_rule r = true.
Proof. intro H. pose proof all_rules_checked as A. rewrite forallb_forall in A. auto. Qed.

Example rules_present : (24 <= List.length all_rules)%nat.
Proof. vm_compute. repeat constructor. Qed.

(* every point of every rule lies in the closed reference element; as many points/weights as announced *)
Theorem C07_points_inside : forall r, In r all_rules ->
  List.length (rpts r) = rnpg r /\ List.length (rw r) = rnpg r /\
  forall p, In p (rpts r) -> inside (rshape r) p = true.
Proof.
  intros r Hr. pose proof (rule_ok r Hr) as H. unfold chk_rule, chk_inside in H.
  repeat (apply andb_true_iff in H; destruct H as [H ?]).
  apply Nat.eqb_eq in H. match goal with A : Nat.eqb _ _ = true |- _ => apply Nat.eqb_eq in A end.
  repeat split; try assumption. match goal with A : forallb _ _ = true |- _ => rewrite forallb_forall in A; exact A end.
Qed.

(* weights sum to the reference measure within 1e-14 (what double precision allows) *)
Theorem C07_weights_total : forall r, In r all_rules ->
  Qabs (qsum (rw r) - measure (rshape r)) <= tolQ.
Proof.
  intros r Hr. pose proof (rule_ok r Hr) as H. unfold chk_rule in H.
  repeat (apply andb_true_iff in H; destruct H as [H ?]).
  match goal with A : chk_total r = true |- _ => unfold chk_total in A; now apply close_spec end.
Qed.

(* every polynomial (finite list of coefficient * monomial) whose monomials are within the
   documented order is integrated exactly, within 1e-14 * (sum of |coefficients|) *)
Theorem C07_exact_to_documented_order : forall r, In r all_rules ->
  doc_exps (rshape r) (rdoc r) <> [] /\
  forall p : poly, (forall ce, In ce p -> In (snd ce) (doc_exps (rshape r) (rdoc r))) ->
  Qabs (apply_rule_poly r p - iref_poly (rshape r) p) <= tolQ * norm1 p.
Proof.
  intros r Hr. pose proof (rule_ok r Hr) as H. unfold chk_rule in H.
  repeat (apply andb_true_iff in H; destruct H as [H ?]).
  match goal with A : chk_doc_exact r = true |- _ => unfold chk_doc_exact in A;
    apply andb_true_iff in A; destruct A as [A1 A2] end.
  split.
  - intro E. rewrite E in A1. discriminate.
  - now apply exact_lift.
Qed.

(* the documented exponent set contains every monomial of total degree <= documented order *)
Theorem C07_doc_exps_complete : forall s o (v : list nat), s <> Prism -> List.length v = dim_of s ->
  (fold_right Nat.add 0%nat v <= o)%nat -> In v (doc_exps s [o]).
Proof. intros s o v Hs Hl Hd. destruct s; try congruence; unfold doc_exps; apply exps_complete; assumption. Qed.

Print Assumptions C07_points_inside.
Print Assumptions C07_weights_total.
Print Assumptions C07_exact_to_documented_order.
