(* C17 - 2-D assembly of the spectral projector projP (4th-order, Kelvin-Mandel 3x3) from the
   eigenvalues and eigenprojectors, as written in __Spectral_Decomposition (regenerated definitions p2_..., km2_...).
   Proved for EVERY real symmetric 2x2 tensor A = [[a b][b d]] (generic and degenerate branch of the
   eigen routine, any signs of the eigenvalues, zero included):
     projP @ vec(A) = vec( <l0>+ M1 + <l1>+ M2 )      (the positive part of A, Kelvin-Mandel form)
     projP + projM = I,   projM @ vec(A) = vec( <l0>- M1 + <l1>- M2 )
     projP(s A) = projP(A) for s > 0  (entrywise; hence Sigma+ / psi+ of the strain-, stress- and
     He-based 2-D splits are positively homogeneous). *)
From Coq Require Import Reals Lra Lia Psatz Nsatz.
From EFP Require Import Gen_Splits C17_proj C17_scale.
Local Open Scope R_scope.

Definition kmv (m11 m22 m12 r : R) (k : nat) : R :=
  match k with O => km2_0 m11 m22 m12 r | Datatypes.S O => km2_1 m11 m22 m12 r | _ => km2_2 m11 m22 m12 r end.
Definition dlt (j k : nat) : R := if Nat.eqb j k then 1 else 0.

(* heaviside(l, 1/2) * l is the positive part *)
Lemma hvs_valp : forall l, p2_dvalp l * l = p2_valp l.
Proof.
  intro l. unfold p2_dvalp, p2_valp, hvs, Rabs.
  destruct (Rlt_dec l 0); destruct (Rlt_dec 0 l); destruct (Rcase_abs l); lra.
Qed.

(* trace of the first eigenprojector returned by the routine is 1 (rank one), both branches *)
Lemma M1_trace : forall a b d, M1_11 a b d + M1_22 a b d = 1.
Proof.
  intros a b d. unfold M1_11, M1_22, M1entry.
  destruct (Req_EM_T (eig0 a b d) (eig1 a b d)) as [He | Hn]; [lra |].
  destruct (eig2d_roots a b d) as [_ [Hsum _]]. unfold tr2 in Hsum.
  unfold e2_m1tot, e2_v1mv2. field_simplify_eq; [lra | intro H; apply Hn; lra].
Qed.

(* core algebra: any resolution (p, q) of A with trace p = 1, any beta *)
Lemma assembly_core : forall a b d l0 l1 p11 p12 p22 q11 q12 q22 r beta d0 d1 : R,
  resolution2 a b d l0 l1 p11 p12 p22 q11 q12 q22 -> p11 + p22 = 1 -> r * r = 2 ->
  forall j : nat, (j < 3)%nat ->
  let m1 := kmv p11 p22 p12 r in let m2 := kmv q11 q22 q12 r in let vA := kmv a d b r in
  let P := fun j k => p2_projP beta (p2_gammap d0 beta) (p2_gammap d1 beta) (dlt j k) (m1 j) (m1 k) (m2 j) (m2 k) in
  P j 0%nat * vA 0%nat + P j 1%nat * vA 1%nat + P j 2%nat * vA 2%nat = d0 * l0 * m1 j + d1 * l1 * m2 j.
Proof.
  intros a b d l0 l1 p11 p12 p22 q11 q12 q22 r beta d0 d1 Hres Htr Hr j Hj.
  destruct Hres as [I1 [I2 [I3 [J1 [J2 [J3 [S1 [S2 [S3 [A1 [A2 A3]]]]]]]]]]].
  assert (Q11 : q11 = 1 - p11) by lra. assert (Q12 : q12 = - p12) by lra. assert (Q22 : q22 = 1 - p22) by lra.
  subst q11 q12 q22.
  (* m1 . vA = l0 and m2 . vA = l1 *)
  assert (E1 : p11 * p11 + p22 * p22 + 2 * (p12 * p12) = 1) by lra.
  assert (E2 : p11 * (1 - p11) + p22 * (1 - p22) - 2 * (p12 * p12) = 0) by lra.
  assert (D1 : p11 * a + p22 * d + (p12 * r) * (b * r) = l0).
  { replace (p12 * r * (b * r)) with (2 * (p12 * b)) by (rewrite <- Hr; ring). rewrite A1, A2, A3.
    transitivity (l0 * (p11 * p11 + p22 * p22 + 2 * (p12 * p12)) + l1 * (p11 * (1 - p11) + p22 * (1 - p22) - 2 * (p12 * p12))); [ring |].
    rewrite E1, E2. ring. }
  assert (D2 : (1 - p11) * a + (1 - p22) * d + (- p12 * r) * (b * r) = l1).
  { replace (- p12 * r * (b * r)) with (- (2 * (p12 * b))) by (rewrite <- Hr; ring). rewrite A1, A2, A3.
    transitivity (l0 * (p11 * (1 - p11) + p22 * (1 - p22) - 2 * (p12 * p12))
                  + l1 * (2 - 2 * (p11 + p22) + (p11 * p11 + p22 * p22 + 2 * (p12 * p12)))); [ring |].
    rewrite E1, E2, Htr. ring. }
  intros m1 m2 vA P. unfold P, p2_projP, p2_gammap.
  destruct j as [| [| [| j]]]; [| | | exfalso; lia]; unfold m1, m2, vA, kmv, dlt, km2_0, km2_1, km2_2 in *; simpl.
  - transitivity (beta * a + (d0 - beta) * p11 * (p11 * a + p22 * d + p12 * r * (b * r))
                  + (d1 - beta) * (1 - p11) * ((1 - p11) * a + (1 - p22) * d + - p12 * r * (b * r))); [ring |].
    rewrite D1, D2. rewrite A1 at 1. ring.
  - transitivity (beta * d + (d0 - beta) * p22 * (p11 * a + p22 * d + p12 * r * (b * r))
                  + (d1 - beta) * (1 - p22) * ((1 - p11) * a + (1 - p22) * d + - p12 * r * (b * r))); [ring |].
    rewrite D1, D2. rewrite A3 at 1. ring.
  - transitivity (beta * (b * r) + (d0 - beta) * (p12 * r) * (p11 * a + p22 * d + p12 * r * (b * r))
                  + (d1 - beta) * (- p12 * r) * ((1 - p11) * a + (1 - p22) * d + - p12 * r * (b * r))); [ring |].
    rewrite D1, D2. rewrite A2 at 1. ring.
Qed.

(* ---- what __Spectral_Decomposition computes in 2-D, on the output of the eigen routine ---- *)
Definition asm_beta (a b d : R) : R :=
  p2_BetaP (p2_valp (eig0 a b d)) (p2_valp (eig1 a b d)) (p2_dv (eig0 a b d) (eig1 a b d)).
Definition asm_m1 (a b d : R) (k : nat) : R := kmv (M1_11 a b d) (M1_22 a b d) (M1_12 a b d) (sqrt 2) k.
Definition asm_m2 (a b d : R) (k : nat) : R := kmv (M2_11 a b d) (M2_22 a b d) (M2_12 a b d) (sqrt 2) k.
Definition asm_projP (a b d : R) (j k : nat) : R :=
  p2_projP (asm_beta a b d) (p2_gammap (p2_dvalp (eig0 a b d)) (asm_beta a b d))
           (p2_gammap (p2_dvalp (eig1 a b d)) (asm_beta a b d)) (dlt j k)
           (asm_m1 a b d j) (asm_m1 a b d k) (asm_m2 a b d j) (asm_m2 a b d k).
Definition asm_projM (a b d : R) (j k : nat) : R := p2_projM (dlt j k) (asm_projP a b d j k).
(* the vector the routine receives: Kelvin-Mandel packing of A *)
Definition vecA (a b d : R) (k : nat) : R := kmv a d b (sqrt 2) k.
Definition valm (l : R) : R := (l - Rabs l) / 2.
Definition pos_part_vec (a b d : R) (k : nat) : R :=
  kmv (p2_valp (eig0 a b d) * M1_11 a b d + p2_valp (eig1 a b d) * M2_11 a b d)
      (p2_valp (eig0 a b d) * M1_22 a b d + p2_valp (eig1 a b d) * M2_22 a b d)
      (p2_valp (eig0 a b d) * M1_12 a b d + p2_valp (eig1 a b d) * M2_12 a b d) (sqrt 2) k.
Definition neg_part_vec (a b d : R) (k : nat) : R :=
  kmv (valm (eig0 a b d) * M1_11 a b d + valm (eig1 a b d) * M2_11 a b d)
      (valm (eig0 a b d) * M1_22 a b d + valm (eig1 a b d) * M2_22 a b d)
      (valm (eig0 a b d) * M1_12 a b d + valm (eig1 a b d) * M2_12 a b d) (sqrt 2) k.
Definition matvec (P : nat -> nat -> R) (v : nat -> R) (j : nat) : R :=
  P j 0%nat * v 0%nat + P j 1%nat * v 1%nat + P j 2%nat * v 2%nat.

Lemma kmv_linear : forall x y p11 p22 p12 q11 q22 q12 r k,
  kmv (x * p11 + y * q11) (x * p22 + y * q22) (x * p12 + y * q12) r k = x * kmv p11 p22 p12 r k + y * kmv q11 q22 q12 r k.
Proof. intros. destruct k as [| [| k]]; unfold kmv, km2_0, km2_1, km2_2; ring. Qed.

Lemma sqrt2_sq : sqrt 2 * sqrt 2 = 2.
Proof. apply sqrt_sqrt. lra. Qed.

Theorem projP2d_positive_part : forall (a b d : R) (j : nat), (j < 3)%nat ->
  matvec (asm_projP a b d) (vecA a b d) j = pos_part_vec a b d j.
Proof.
  intros a b d j Hj. unfold matvec, asm_projP, vecA, asm_m1, asm_m2, pos_part_vec.
  rewrite (assembly_core a b d (eig0 a b d) (eig1 a b d) _ _ _ _ _ _ (sqrt 2) (asm_beta a b d)
             (p2_dvalp (eig0 a b d)) (p2_dvalp (eig1 a b d)) (proj2d a b d) (M1_trace a b d) sqrt2_sq j Hj).
  rewrite !hvs_valp, kmv_linear. reflexivity.
Qed.
Print Assumptions projP2d_positive_part.

Theorem projP2d_projM2d_partition : forall a b d j k, asm_projP a b d j k + asm_projM a b d j k = dlt j k.
Proof. intros. unfold asm_projM, p2_projM. ring. Qed.
Print Assumptions projP2d_projM2d_partition.

Lemma vecA_decomposition : forall a b d k,
  vecA a b d k = eig0 a b d * asm_m1 a b d k + eig1 a b d * asm_m2 a b d k.
Proof.
  intros a b d k. unfold vecA, asm_m1, asm_m2. rewrite <- kmv_linear.
  destruct (proj2d a b d) as [_ [_ [_ [_ [_ [_ [_ [_ [_ [A1 [A2 A3]]]]]]]]]]].
  rewrite <- A1, <- A2, <- A3. reflexivity.
Qed.

Theorem projM2d_negative_part : forall (a b d : R) (j : nat), (j < 3)%nat ->
  matvec (asm_projM a b d) (vecA a b d) j = neg_part_vec a b d j.
Proof.
  intros a b d j Hj.
  assert (H : matvec (asm_projM a b d) (vecA a b d) j = vecA a b d j - matvec (asm_projP a b d) (vecA a b d) j).
  { unfold matvec, asm_projM, p2_projM, dlt. destruct j as [| [| [| j]]]; [| | | exfalso; lia]; simpl; ring. }
  rewrite H, (projP2d_positive_part a b d j Hj), vecA_decomposition.
  unfold pos_part_vec, neg_part_vec, asm_m1, asm_m2. rewrite !kmv_linear. unfold p2_valp, valm. field.
Qed.
Print Assumptions projM2d_negative_part.

(* ---- positive homogeneity of the assembled projector ---- *)
Lemma valp_scale : forall s l, 0 < s -> p2_valp (s * l) = s * p2_valp l.
Proof. intros s l Hs. unfold p2_valp. rewrite Rabs_mult, (Rabs_right s) by lra. field. Qed.

Lemma dvalp_scale : forall s l, 0 < s -> p2_dvalp (s * l) = p2_dvalp l.
Proof.
  intros s l Hs. unfold p2_dvalp, hvs.
  destruct (Rlt_dec (s * l) 0); destruct (Rlt_dec 0 (s * l)); destruct (Rlt_dec l 0); destruct (Rlt_dec 0 l);
    try reflexivity; exfalso; nra.
Qed.

Lemma BetaP_scale : forall s l0 l1, 0 < s ->
  p2_BetaP (p2_valp (s * l0)) (p2_valp (s * l1)) (p2_dv (s * l0) (s * l1)) = p2_BetaP (p2_valp l0) (p2_valp l1) (p2_dv l0 l1).
Proof.
  intros s l0 l1 Hs. rewrite !valp_scale by exact Hs. unfold p2_BetaP, p2_dv.
  destruct (Req_EM_T (s * l0 - s * l1) 0) as [E | N]; destruct (Req_EM_T (l0 - l1) 0) as [E' | N'].
  - assert (l0 = l1) by lra. subst. field.
  - exfalso. apply N'. apply (Rmult_eq_reg_l s); lra.
  - exfalso. apply N. rewrite <- Rmult_minus_distr_l, E'. ring.
  - field. split; [exact N' | lra].
Qed.

Theorem projP2d_scale_invariant : forall (s a b d : R) (j k : nat), 0 < s ->
  asm_projP (s * a) (s * b) (s * d) j k = asm_projP a b d j k /\
  asm_projM (s * a) (s * b) (s * d) j k = asm_projM a b d j k.
Proof.
  intros s a b d j k Hs.
  assert (HP : asm_projP (s * a) (s * b) (s * d) j k = asm_projP a b d j k).
  { unfold asm_projP, asm_beta, asm_m1, asm_m2.
    destruct (eig2d_homogeneous s a b d Hs) as [E0 E1].
    destruct (proj2d_scale_invariant s a b d Hs) as [H1 [H2 [H3 [H4 [H5 H6]]]]].
    rewrite E0, E1, H1, H2, H3, H4, H5, H6, (BetaP_scale s _ _ Hs), !dvalp_scale by exact Hs. reflexivity. }
  split; [exact HP | unfold asm_projM; rewrite HP; reflexivity].
Qed.
Print Assumptions projP2d_scale_invariant.

(* consequently Sigma+ (any matrix cP built from projP, Rp - see C17_scale.stress_energy_homogeneous) is
   positively homogeneous in 2-D; and projP(s A) (s vec A) = s * positive part *)
Corollary projP2d_positive_part_homogeneous : forall (s a b d : R) (j : nat), 0 < s -> (j < 3)%nat ->
  matvec (asm_projP (s * a) (s * b) (s * d)) (vecA (s * a) (s * b) (s * d)) j = s * pos_part_vec a b d j.
Proof.
  intros s a b d j Hs Hj.
  assert (Hv : forall k, vecA (s * a) (s * b) (s * d) k = s * vecA a b d k).
  { intro k. unfold vecA. destruct k as [| [| k]]; unfold kmv, km2_0, km2_1, km2_2; ring. }
  unfold matvec. rewrite !Hv.
  rewrite (proj1 (projP2d_scale_invariant s a b d j 0%nat Hs)), (proj1 (projP2d_scale_invariant s a b d j 1%nat Hs)),
          (proj1 (projP2d_scale_invariant s a b d j 2%nat Hs)).
  rewrite <- (projP2d_positive_part a b d j Hj). unfold matvec. ring.
Qed.
Print Assumptions projP2d_positive_part_homogeneous.

(* instance: A = diag(3, -2): eigenvalues -2, 3; the positive part is diag(3, 0) *)
Example projP2d_example_hypotheses : (0 < 3)%nat /\ (1 < 3)%nat /\ (2 < 3)%nat /\ 0 < 2.
Proof. repeat split; try lia; lra. Qed.
