(* C17 - positive homogeneity / scale invariance.  Every split must satisfy
     Sigma+(s eps) = s Sigma+(eps),  psi+(s eps) = s^2 psi+(eps)      for s > 0,
   i.e. the operands the split formulas receive (sign factors, spectral projectors, case selection)
   may depend on the DIRECTION of the decomposed tensor only.  Proved here on the formulas
   regenerated from the source:
     - Rp / Rm are invariant under t |-> s t;
     - 2-D: eigenvalues are homogeneous of degree 1 and every returned projector entry (generic and
       degenerate branch, branch test included) is invariant under A |-> s A;
     - 3-D: the inputs of the case selection are invariant: the test g_neq_0(g, Trace(A@A)) and the
       Lode argument argnum / g^(3/2)  (the translator checks that theta and the case masks depend
       on nothing else), and the Sylvester projector formulas are invariant;
     - given invariant operands, Sigma+ and psi+ are homogeneous (any linear action / bilinear form).
   NOT proved: invariance of the assembled projP (2-D beta/gamma and 3-D theta/G formulas) - it is
   checked by the correspondence runs over 14 decades of magnitude. *)
From Coq Require Import Reals Lra Psatz.
From EFLib Require Import C17_MatAlg C17_Mat3.
From EFP Require Import Gen_Splits C17_proj.
Local Open Scope R_scope.

(* ---- sign factors ---- *)
Lemma sgn_scale : forall s t, 0 < s -> sgn (s * t) = sgn t.
Proof.
  intros s t Hs. unfold sgn.
  destruct (Rlt_dec 0 (s * t)); destruct (Rlt_dec (s * t) 0); destruct (Rlt_dec 0 t); destruct (Rlt_dec t 0);
    try reflexivity; exfalso; nra.
Qed.

Theorem Rp_Rm_scale_invariant : forall s t, 0 < s -> src_Rp (s * t) = src_Rp t /\ src_Rm (s * t) = src_Rm t.
Proof.
  intros s t Hs. unfold src_Rp, src_Rm. rewrite sgn_scale by exact Hs.
  replace (- (s * t)) with (s * - t) by ring. rewrite sgn_scale by exact Hs. split; reflexivity.
Qed.
Print Assumptions Rp_Rm_scale_invariant.

(* ---- 2-D ---- *)
Lemma delta2_scale : forall s a b d, delta2 (s * a) (s * b) (s * d) = s * s * delta2 a b d.
Proof. intros. rewrite !delta2_sum_of_squares. ring. Qed.

Lemma sqrt_delta2_scale : forall s a b d, 0 < s -> sqrt (delta2 (s * a) (s * b) (s * d)) = s * sqrt (delta2 a b d).
Proof.
  intros s a b d Hs. rewrite delta2_scale, sqrt_mult; [| nra | apply delta2_nonneg].
  rewrite sqrt_square by lra. reflexivity.
Qed.

Theorem eig2d_homogeneous : forall s a b d, 0 < s ->
  eig0 (s * a) (s * b) (s * d) = s * eig0 a b d /\ eig1 (s * a) (s * b) (s * d) = s * eig1 a b d.
Proof.
  intros s a b d Hs. unfold eig0, eig1. rewrite sqrt_delta2_scale by exact Hs.
  unfold e2_eig0, e2_eig1, tr2. split; field.
Qed.
Print Assumptions eig2d_homogeneous.

Lemma M1entry_scale : forall s a b d x i dg, 0 < s ->
  M1entry (s * a) (s * b) (s * d) (s * x) i dg = M1entry a b d x i dg.
Proof.
  intros s a b d x i dg Hs. unfold M1entry.
  destruct (eig2d_homogeneous s a b d Hs) as [H0 H1]. rewrite H0, H1.
  destruct (Req_EM_T (s * eig0 a b d) (s * eig1 a b d)) as [He | Hn];
    destruct (Req_EM_T (eig0 a b d) (eig1 a b d)) as [He' | Hn'].
  - reflexivity.
  - exfalso. apply Hn'. apply (Rmult_eq_reg_l s); [exact He | lra].
  - exfalso. apply Hn. rewrite He'. reflexivity.
  - unfold e2_m1tot, e2_v1mv2. field. split; [| lra]. intro H. apply Hn'. lra.
Qed.

Theorem proj2d_scale_invariant : forall s a b d, 0 < s ->
  M1_11 (s * a) (s * b) (s * d) = M1_11 a b d /\ M1_12 (s * a) (s * b) (s * d) = M1_12 a b d /\
  M1_22 (s * a) (s * b) (s * d) = M1_22 a b d /\ M2_11 (s * a) (s * b) (s * d) = M2_11 a b d /\
  M2_12 (s * a) (s * b) (s * d) = M2_12 a b d /\ M2_22 (s * a) (s * b) (s * d) = M2_22 a b d.
Proof.
  intros s a b d Hs. unfold M2_11, M2_12, M2_22, M1_11, M1_12, M1_22.
  rewrite !M1entry_scale by exact Hs. repeat split; reflexivity.
Qed.
Print Assumptions proj2d_scale_invariant.

(* ---- 3-D: inputs of the case selection ---- *)
Lemma invariants3_homogeneous : forall s a b c f g h,
  tr3 (s * a) (s * b) (s * c) = s * tr3 a b c /\
  I2_3 (s * a) (s * b) (s * c) (s * f) (s * g) (s * h) = s * s * I2_3 a b c f g h /\
  det3 (s * a) (s * b) (s * c) (s * f) (s * g) (s * h) = s * s * s * det3 a b c f g h.
Proof. intros. unfold tr3, I2_3, det3. repeat split; ring. Qed.

Lemma e3_g_homogeneous : forall s I1 I2, e3_g (s * I1) (s * s * I2) = s * s * e3_g I1 I2.
Proof. intros. unfold e3_g. ring. Qed.

Lemma e3_argnum_homogeneous : forall s I1 I2 I3,
  e3_argnum (s * I1) (s * s * I2) (s * s * s * I3) = s * s * s * e3_argnum I1 I2 I3.
Proof. intros. unfold e3_argnum. ring. Qed.

(* the test "g is not zero" must not depend on the magnitude: g and n = Trace(A@A) both scale by s^2 *)
Theorem g_neq_0_scale_invariant : forall s g n, 0 < s -> (e3_g_neq_0 (s * s * g) (s * s * n) <-> e3_g_neq_0 g n).
Proof.
  intros s g n Hs. assert (Hss : 0 < s * s) by nra. unfold e3_g_neq_0.
  split; intro H.
  - first [ (* g > c * n *)
            apply Rlt_gt; apply (Rmult_lt_reg_l (s * s)); [exact Hss |]; apply Rgt_lt in H;
            match goal with |- ?a < _ => match type of H with ?a' < _ => replace a with a' by ring end end; exact H
          | (* g <> 0 *)
            intro H'; apply H; rewrite H'; ring ].
  - first [ apply Rlt_gt; apply Rgt_lt in H; pose proof (Rmult_lt_compat_l (s * s) _ _ Hss H) as H2;
            match goal with |- ?a < _ => match type of H2 with ?a' < _ => replace a with a' by ring end end; exact H2
          | intro H'; apply H; apply (Rmult_eq_reg_l (s * s)); [rewrite H'; ring | lra] ].
Qed.
Print Assumptions g_neq_0_scale_invariant.

(* the Lode argument arg = argnum / g^(3/2) *)
Theorem lode_argument_scale_invariant : forall s I1 I2 I3, 0 < s -> 0 < e3_g I1 I2 ->
  e3_argnum (s * I1) (s * s * I2) (s * s * s * I3) / (sqrt (e3_g (s * I1) (s * s * I2))) ^ 3
  = e3_argnum I1 I2 I3 / (sqrt (e3_g I1 I2)) ^ 3.
Proof.
  intros s I1 I2 I3 Hs Hg. rewrite e3_argnum_homogeneous, e3_g_homogeneous.
  rewrite sqrt_mult by nra. rewrite sqrt_square by lra.
  assert (Hq : sqrt (e3_g I1 I2) <> 0). { intro H0. apply sqrt_eq_0 in H0; lra. }
  field. split; [exact Hq | lra].
Qed.
Print Assumptions lode_argument_scale_invariant.

(* Sylvester projectors: invariant under X |-> s X, v_i |-> s v_i *)
Local Open Scope mat_scope.
Theorem sylvester_scale_invariant : forall (s : R) (X : Mat3) (v1 v2 v3 : R), s <> 0%R ->
  v1 <> v2 -> v1 <> v3 -> v2 <> v3 ->
  e3_M1 Mat3 (sc s * X) (s * v1) (s * v2) (s * v3) = e3_M1 Mat3 X v1 v2 v3 /\
  e3_M3 Mat3 (sc s * X) (s * v1) (s * v2) (s * v3) = e3_M3 Mat3 X v1 v2 v3.
Proof.
  intros s X v1 v2 v3 Hs D12 D13 D23. unfold e3_M1, e3_M3.
  assert (nz : forall x y : R, x <> y -> (s * x - s * y)%R <> 0%R).
  { intros x y Hxy H. apply Hxy. apply (Rmult_eq_reg_l s); [lra | exact Hs]. }
  split; apply mat3_eq; simpl; field; repeat split; try exact Hs; try (apply nz; assumption);
    try (apply nz; apply not_eq_sym; assumption);
    intro H; first [apply D12; lra | apply D13; lra | apply D23; lra].
Qed.
Print Assumptions sylvester_scale_invariant.

(* ---- from invariant operands to homogeneous stress and energy ---- *)
Section Homogeneity.
Variable A : MatAlg.
Variable V : Type.
Variable vscal : R -> V -> V.
Variable app : A -> V -> V.
Variable ip : V -> V -> R.
Hypothesis app_scal : forall x s u, app x (vscal s u) = vscal s (app x u).
Hypothesis ip_scal : forall s u w, ip (vscal s u) (vscal s w) = (s * s * ip u w)%R.

(* cPs / cP: the positive stiffness the split returns at s eps / at eps; they coincide as soon as the
   operands (projectors, sign factors) do, because cP_<split> is a function of the environment only *)
Theorem stress_energy_homogeneous : forall (cP cPs : A) (eps : V) (s : R), cPs = cP ->
  app cPs (vscal s eps) = vscal s (app cP eps) /\
  (1 / 2 * ip (vscal s eps) (app cPs (vscal s eps)) = s * s * (1 / 2 * ip eps (app cP eps)))%R.
Proof.
  intros cP cPs eps s ->. split; [apply app_scal |]. rewrite app_scal, ip_scal. ring.
Qed.
End Homogeneity.
Print Assumptions stress_energy_homogeneous.

Example homogeneity_hypotheses_satisfiable :
  (forall x s u : R, x * (s * u) = s * (x * u))%R /\ (forall s u w : R, (s * u) * (s * w) = s * s * (u * w))%R.
Proof. split; intros; ring. Qed.
