(* C17 - 3-D generic branch, from the matrix to projP, over the reals: for every real symmetric 3x3 X with
   g > 0 and Lode argument strictly inside (-1, 1), the values the source computes with the arccos formula
   (e3c1_val1..3) are distinct roots of the characteristic polynomial (C17_trig3d), so its Sylvester projectors are a
   spectral resolution and the assembled projP / projM map vec(X) to the vectors of the positive / negative part and
   are positively homogeneous (C17_generic3d, C17_assembly3d).  Also: the Frobenius normalisation applied to M1, M3
   divides by 1 for such projectors. *)
From Coq Require Import Reals Lra Lia List.
From EFLib Require Import C17_MatAlg C17_Mat3.
From EFP Require Import Gen_Splits C17_proj C17_assembly3d C17_generic3d C17_trig3d.
Local Open Scope R_scope.

Theorem generic3d_trig_end_to_end : forall a b c f g h : R,
  let I1 := tr3 a b c in let I2 := I2_3 a b c f g h in let I3 := det3 a b c f g h in
  0 < e3_g I1 I2 ->
  let sg := sqrt (e3_g I1 I2) in
  -1 < e3_argnum I1 I2 I3 / (sg ^ 3) < 1 ->
  let th := e3_theta (e3_clip (e3_argnum I1 I2 I3 / (sg ^ 3))) in
  let v1 := e3c1_val1 I1 sg th in let v2 := e3c1_val2 I1 sg th in let v3 := e3c1_val3 I1 sg th in
  let X : Mat3 := sym3 a b c f g h in
  let P1 := e3_M1 Mat3 X v1 v2 v3 in let P3 := e3_M3 Mat3 X v1 v2 v3 in let P2 := e3_M2 Mat3 P1 P3 in
  v1 < v2 < v3 /\
  forall I : nat, (I < 6)%nat ->
  sum6 (fun J => projP3 v1 v2 v3 P1 P2 P3 (sqrt 2) I J * km3 (fm_of X) (sqrt 2) J)%R
    = km3 (fm_of (comb3 (p2_valp v1) (p2_valp v2) (p2_valp v3) P1 P2 P3)) (sqrt 2) I /\
  sum6 (fun J => projM3 v1 v2 v3 P1 P2 P3 (sqrt 2) I J * km3 (fm_of X) (sqrt 2) J)%R
    = km3 (fm_of (comb3 (valm3 v1) (valm3 v2) (valm3 v3) P1 P2 P3)) (sqrt 2) I /\
  (forall s J, 0 < s -> projP3 (s * v1) (s * v2) (s * v3) P1 P2 P3 (sqrt 2) I J = projP3 v1 v2 v3 P1 P2 P3 (sqrt 2) I J).
Proof.
  intros a b c f g h I1 I2 I3 Hg sg Harg th v1 v2 v3 X P1 P3 P2.
  assert (Hle : -1 <= e3_argnum I1 I2 I3 / (sg ^ 3) <= 1) by (destruct Harg as [Ha1 Ha2]; split; apply Rlt_le; assumption).
  destruct (trig_values_are_roots I1 I2 I3 Hg Hle) as [V1 [V2 V3]].
  destruct (trig_values_ordered I1 I2 I3 Hg Harg) as [O12 O23].
  fold sg in V1, V2, V3, O12, O23. fold th in V1, V2, V3, O12, O23. fold v1 in V1, V2, V3, O12, O23.
  fold v2 in V1, V2, V3, O12, O23. fold v3 in V1, V2, V3, O12, O23.
  split; [split; assumption |].
  intros I HI.
  apply (generic3d_end_to_end a b c f g h v1 v2 v3 V1 V2 V3); try lra. exact HI.
Qed.
Print Assumptions generic3d_trig_end_to_end.

(* Frobenius normalisation M / Norm(M): for a symmetric idempotent matrix of trace one the squared norm is 1 *)
Definition frob2 (M : mat3) : R :=
  x11 M * x11 M + x12 M * x12 M + x13 M * x13 M + x21 M * x21 M + x22 M * x22 M + x23 M * x23 M
  + x31 M * x31 M + x32 M * x32 M + x33 M * x33 M.
Theorem normalisation_is_identity : forall M : Mat3, tp M = M -> (M * M = M)%M -> tr_3 M = 1 -> frob2 M = 1 /\ sqrt (frob2 M) = 1.
Proof.
  intros M S Id T.
  assert (H : frob2 M = tr_3 (M * tp M)%M) by (destruct M; unfold frob2, tr_3; simpl; ring).
  rewrite S, Id, T in H. split; [exact H | rewrite H; apply sqrt_1].
Qed.
Print Assumptions normalisation_is_identity.

Example trig_end_to_end_instance : (* diag(1,2,3) *)
  0 < e3_g (tr3 1 2 3) (I2_3 1 2 3 0 0 0) /\ e3_argnum (tr3 1 2 3) (I2_3 1 2 3 0 0 0) (det3 1 2 3 0 0 0) = 0.
Proof. unfold e3_g, e3_argnum, tr3, I2_3, det3. split; [lra | ring]. Qed.

(* on the generic branch the normalisation leaves M1 and M3 unchanged (their Frobenius norm is 1) *)
Theorem generic3d_normalisation_trivial : forall a b c f g h v1 v2 v3 : R,
  (v1 + v2 + v3 = tr3 a b c)%R -> (v1 * v2 + v1 * v3 + v2 * v3 = I2_3 a b c f g h)%R ->
  (v1 * v2 * v3 = det3 a b c f g h)%R -> v1 <> v2 -> v1 <> v3 -> v2 <> v3 ->
  let X : Mat3 := sym3 a b c f g h in
  sqrt (frob2 (e3_M1 Mat3 X v1 v2 v3)) = 1 /\ sqrt (frob2 (e3_M3 Mat3 X v1 v2 v3)) = 1.
Proof.
  intros a b c f g h v1 v2 v3 V1 V2 V3 D12 D13 D23 X.
  destruct (proj3d_distinct_partial a b c f g h v1 v2 v3 V1 V2 V3 D12 D13 D23) as [_ [I1 [_ [I3 _]]]].
  split.
  - apply normalisation_is_identity.
    + unfold e3_M1, X. apply tp_quadratic.
    + exact I1.
    + unfold e3_M1, X. rewrite tr_sc, tr_quadratic, <- V1, <- V2. field. split; intro; [apply D13 | apply D12]; lra.
  - apply normalisation_is_identity.
    + unfold e3_M3, X. apply tp_quadratic.
    + exact I3.
    + unfold e3_M3, X. rewrite tr_sc, tr_quadratic, <- V1, <- V2. field. split; intro; [apply D23 | apply D13]; lra.
Qed.
Print Assumptions generic3d_normalisation_trivial.
