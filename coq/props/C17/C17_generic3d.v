(* C17 - 3-D, generic branch, end to end: if the three values the eigen routine uses are distinct roots of
   the characteristic polynomial (Vieta) - however they were computed -, its Sylvester projectors
   (e3_M1, e3_M3, e3_M2 regenerated from the source) satisfy every hypothesis of C17_assembly3d, hence the
   projP assembled by __Spectral_Decomposition maps vec(X) to the vector of the positive part of X,
   projM to the negative part, and both are positively homogeneous. *)
From Coq Require Import Reals Lra Lia List.
From EFLib Require Import C17_MatAlg C17_Mat3.
From EFP Require Import Gen_Splits C17_proj C17_assembly3d.
Local Open Scope R_scope.
Local Open Scope mat_scope.

Lemma tr_sc : forall (k : R) (N : Mat3), tr_3 (sc k * N) = Rmult k (tr_3 N).
Proof. intros k []. unfold tr_3; simpl. ring. Qed.
Lemma tr_M2 : forall P Q : Mat3, tr_3 (e3_M2 Mat3 P Q) = Rminus (Rminus 3 (tr_3 P)) (tr_3 Q).
Proof. intros [] []. unfold e3_M2, tr_3; simpl. ring. Qed.
Lemma tp_M2 : forall P Q : Mat3, tp P = P -> tp Q = Q -> tp (e3_M2 Mat3 P Q) = e3_M2 Mat3 P Q.
Proof.
  intros [] [] HP HQ. unfold tp in HP, HQ; simpl in HP, HQ. unfold tp3 in HP, HQ; simpl in HP, HQ.
  injection HP as ??????. injection HQ as ??????. subst. unfold e3_M2. apply mat3_eq; simpl; ring.
Qed.
Lemma tr_quadratic : forall a b c f g h p q : R,
  tr_3 (((sym3 a b c f g h : Mat3) - sc p * 1) * ((sym3 a b c f g h : Mat3) - sc q * 1))
  = ((tr3 a b c) * (tr3 a b c) - 2 * I2_3 a b c f g h - (p + q) * tr3 a b c + 3 * (p * q))%R.
Proof. intros. unfold tr_3, sym3, tr3, I2_3; simpl. ring. Qed.
Lemma tp_quadratic : forall (a b c f g h p q k : R),
  tp (sc k * (((sym3 a b c f g h : Mat3) - sc p * 1) * ((sym3 a b c f g h : Mat3) - sc q * 1)))
  = sc k * (((sym3 a b c f g h : Mat3) - sc p * 1) * ((sym3 a b c f g h : Mat3) - sc q * 1)).
Proof. intros. unfold sym3. apply mat3_eq; simpl; ring. Qed.

Theorem generic3d_end_to_end : forall a b c f g h v1 v2 v3 : R,
  (v1 + v2 + v3 = tr3 a b c)%R -> (v1 * v2 + v1 * v3 + v2 * v3 = I2_3 a b c f g h)%R ->
  (v1 * v2 * v3 = det3 a b c f g h)%R -> v1 <> v2 -> v1 <> v3 -> v2 <> v3 ->
  let X : Mat3 := sym3 a b c f g h in
  let P1 := e3_M1 Mat3 X v1 v2 v3 in let P3 := e3_M3 Mat3 X v1 v2 v3 in let P2 := e3_M2 Mat3 P1 P3 in
  forall I : nat, (I < 6)%nat ->
  sum6 (fun J => projP3 v1 v2 v3 P1 P2 P3 (sqrt 2) I J * km3 (fm_of X) (sqrt 2) J)%R
    = km3 (fm_of (comb3 (p2_valp v1) (p2_valp v2) (p2_valp v3) P1 P2 P3)) (sqrt 2) I /\
  sum6 (fun J => projM3 v1 v2 v3 P1 P2 P3 (sqrt 2) I J * km3 (fm_of X) (sqrt 2) J)%R
    = km3 (fm_of (comb3 (valm3 v1) (valm3 v2) (valm3 v3) P1 P2 P3)) (sqrt 2) I /\
  (forall s J, 0 < s -> projP3 (s * v1) (s * v2) (s * v3) P1 P2 P3 (sqrt 2) I J = projP3 v1 v2 v3 P1 P2 P3 (sqrt 2) I J).
Proof.
  intros a b c f g h v1 v2 v3 V1 V2 V3 D12 D13 D23 X P1 P3 P2 I HI.
  destruct (proj3d_distinct_partial a b c f g h v1 v2 v3 V1 V2 V3 D12 D13 D23)
    as [_ [I1 [I2 [I3 [O13 [O31 [O12 [O21 [O32 [O23 Hdec]]]]]]]]]].
  fold X in I1, I2, I3, O13, O31, O12, O21, O32, O23, Hdec.
  fold P1 in I1, I2, I3, O13, O31, O12, O21, O32, O23, Hdec. fold P3 in I1, I2, I3, O13, O31, O12, O21, O32, O23, Hdec.
  fold P2 in I1, I2, I3, O13, O31, O12, O21, O32, O23, Hdec.
  assert (Hr : (sqrt 2 * sqrt 2 = 2)%R) by (apply sqrt_sqrt; lra).
  assert (S1 : tp P1 = P1) by (unfold P1, e3_M1, X; apply tp_quadratic).
  assert (S3 : tp P3 = P3) by (unfold P3, e3_M3, X; apply tp_quadratic).
  assert (S2 : tp P2 = P2) by (unfold P2; apply tp_M2; assumption).
  assert (T1 : tr_3 P1 = 1%R).
  { unfold P1, e3_M1, X. rewrite tr_sc, tr_quadratic, <- V1, <- V2. field. split; intro; [apply D13 | apply D12]; lra. }
  assert (T3 : tr_3 P3 = 1%R).
  { unfold P3, e3_M3, X. rewrite tr_sc, tr_quadratic, <- V1, <- V2. field. split; intro; [apply D23 | apply D13]; lra. }
  assert (T2 : tr_3 P2 = 1%R) by (unfold P2; rewrite tr_M2, T1, T3; lra).
  pose proof (projP3d_positive_part P1 P2 P3 v1 v2 v3 (sqrt 2) Hr S1 S2 S3 I1 I2 I3 O12 O21 O13 O31 O23 O32 T1 T2 T3 I HI) as HP.
  pose proof (projM3d_negative_part P1 P2 P3 v1 v2 v3 (sqrt 2) Hr S1 S2 S3 I1 I2 I3 O12 O21 O13 O31 O23 O32 T1 T2 T3 I HI) as HM.
  unfold comb3 in HM. rewrite <- Hdec in HP, HM.
  repeat split.
  - exact HP.
  - exact HM.
  - intros s J Hs. apply (projP3d_scale_invariant s v1 v2 v3 (sqrt 2) P1 P2 P3 I J Hs).
Qed.
Print Assumptions generic3d_end_to_end.

Example generic3d_hypotheses_satisfiable :
  (1 + 2 + 3 = tr3 1 2 3)%R /\ (1 * 2 + 1 * 3 + 2 * 3 = I2_3 1 2 3 0 0 0)%R /\ (1 * 2 * 3 = det3 1 2 3 0 0 0)%R /\ (4 < 6)%nat.
Proof. unfold tr3, I2_3, det3. repeat split; try lra. lia. Qed.
