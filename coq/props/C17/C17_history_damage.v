(* C17 - HistoryDamage solver: the SAVED damage is src_hd_update d_old d_solver.  The translator emits
   Rmax only if Solve() writes the maximum back into the simulation (what Save_Iter stores and what
   the next step reads as old_damage); otherwise it emits "new" and these theorems do not hold. *)
From Coq Require Import Reals Lra List.
From EFP Require Import Gen_Splits.
Local Open Scope R_scope.

Section Fields.
Variable I : Type.
Definition field := I -> R.

(* ---- HistoryDamage: d <- max(d_old, d_new) for an arbitrary sequence of solver outputs ---- *)
Definition hd_step (d dnew : field) : field := fun i => src_hd_update (d i) (dnew i).
Fixpoint hd_run (d : field) (outs : list field) : field :=
  match outs with nil => d | o :: r => hd_run (hd_step d o) r end.

Theorem damage_monotone_HistoryDamage : forall (outs : list field) (d : field) (i : I), d i <= hd_run d outs i.
Proof.
  induction outs as [| o r IH]; intros d i; simpl.
  - lra.
  - eapply Rle_trans; [| apply IH]. unfold hd_step, src_hd_update. apply Rmax_l.
Qed.

Lemma hd_run_app : forall l1 l2 d, hd_run d (l1 ++ l2) = hd_run (hd_run d l1) l2.
Proof. induction l1; intros; simpl; [reflexivity | apply IHl1]. Qed.

Theorem damage_monotone_HistoryDamage_between_saved_steps : forall (l1 l2 : list field) (d : field) (i : I),
  hd_run d l1 i <= hd_run d (l1 ++ l2) i.
Proof. intros. rewrite hd_run_app. apply damage_monotone_HistoryDamage. Qed.

End Fields.

Print Assumptions damage_monotone_HistoryDamage.
Print Assumptions damage_monotone_HistoryDamage_between_saved_steps.
