(* C17 - the degenerate branches of the 3-D eigen routine, as algebra (no trigonometry):
     case 4  g = 0          : A = (I1/3) I and the default projectors diag e_i resolve it;
     case 2  l1 < l2 = l3   : M1 = (l2 I - A)/sqrt g , M3 = (I - M1)/2 , M2 = I - (M1 + M3)
     case 3  l1 = l2 < l3   : M3 = (A - l1 I)/sqrt g , M1 = (I - M3)/2 , M2 = I - (M1 + M3)
   given that the characteristic polynomial has the double root (Vieta with a repeated value).
   For a real symmetric matrix a double root forces the minimal polynomial (A - u)(A - w) = 0:
   N = (A-u)(A-w) is symmetric and N N = charpoly(A) (A-u) = 0, so every entry of N vanishes
   (sum of squares).  Formulas e3c2_*, e3c3_*, e3c4_* are regenerated from the source.
   NOT covered: which branch is taken (theta = arccos(...) compared with 0 / pi/3 up to tol_theta),
   the Frobenius normalisation applied afterwards to M1 and M3, and the fact - visible in the theorems -
   that in cases 2 and 3 the routine splits the rank-two eigenprojector E into two halves E/2, which are
   not projectors (origin of the listed finding proj:3d:two_eq). *)
From Coq Require Import Reals Lra Lia Psatz.
From EFLib Require Import C17_MatAlg C17_Mat3.
From EFP Require Import Gen_Splits C17_proj.
Local Open Scope R_scope.

(* ---- g >= 0, and g = 0 only for multiples of the identity ---- *)
Theorem g3_sum_of_squares : forall a b c f g h,
  e3_g (tr3 a b c) (I2_3 a b c f g h)
  = ((a - b) * (a - b) + (b - c) * (b - c) + (a - c) * (a - c)) / 2 + 3 * (f * f + g * g + h * h).
Proof. intros. unfold e3_g, tr3, I2_3. field. Qed.

Theorem g3_nonneg : forall a b c f g h, 0 <= e3_g (tr3 a b c) (I2_3 a b c f g h).
Proof.
  intros. rewrite g3_sum_of_squares.
  pose proof (Rle_0_sqr (a - b)). pose proof (Rle_0_sqr (b - c)). pose proof (Rle_0_sqr (a - c)).
  pose proof (Rle_0_sqr f). pose proof (Rle_0_sqr g). pose proof (Rle_0_sqr h). unfold Rsqr in *. lra.
Qed.
Print Assumptions g3_nonneg.

Theorem g3_zero_iff_spherical : forall a b c f g h,
  e3_g (tr3 a b c) (I2_3 a b c f g h) = 0 <-> (a = b /\ b = c /\ f = 0 /\ g = 0 /\ h = 0).
Proof.
  intros. rewrite g3_sum_of_squares. split.
  - intro H.
    pose proof (Rle_0_sqr (a - b)). pose proof (Rle_0_sqr (b - c)). pose proof (Rle_0_sqr (a - c)).
    pose proof (Rle_0_sqr f). pose proof (Rle_0_sqr g). pose proof (Rle_0_sqr h). unfold Rsqr in *.
    assert ((a - b) * (a - b) = 0) by lra. assert ((b - c) * (b - c) = 0) by lra.
    assert (f * f = 0) by lra. assert (g * g = 0) by lra. assert (h * h = 0) by lra.
    repeat split; nra.
  - intros [-> [-> [-> [-> ->]]]]. field.
Qed.
Print Assumptions g3_zero_iff_spherical.

Definition unit_diag (i : nat) : mat3 :=
  mk3 (if Nat.eqb i 0 then 1 else 0) 0 0 0 (if Nat.eqb i 1 then 1 else 0) 0 0 0 (if Nat.eqb i 2 then 1 else 0).

Local Open Scope mat_scope.
Ltac m3 := intros; apply mat3_eq; simpl; ring.

(* case 4: the routine returns val_k = I1/3 and M1 = unit_diag 0, M3 = unit_diag 2, M2 = I - (M1 + M3) *)
Theorem proj3d_case4 : forall a b c f g h sg : R,
  e3_g (tr3 a b c) (I2_3 a b c f g h) = 0%R ->
  let X : Mat3 := sym3 a b c f g h in
  let P1 : Mat3 := unit_diag e3c4_M1_index in let P3 : Mat3 := unit_diag e3c4_M3_index in
  let P2 : Mat3 := e3_M2 Mat3 P1 P3 in
  P1 + P2 + P3 = 1 /\ P1 * P1 = P1 /\ P2 * P2 = P2 /\ P3 * P3 = P3 /\
  P1 * P2 = 0 /\ P2 * P1 = 0 /\ P1 * P3 = 0 /\ P3 * P1 = 0 /\ P2 * P3 = 0 /\ P3 * P2 = 0 /\
  X = sc (e3c4_val1 (tr3 a b c) sg) * P1 + sc (e3c4_val2 (tr3 a b c) sg) * P2 + sc (e3c4_val3 (tr3 a b c) sg) * P3.
Proof.
  intros a b c f g h sg Hg. apply g3_zero_iff_spherical in Hg. destruct Hg as [-> [-> [-> [-> ->]]]].
  unfold e3_M2, e3c4_M1_index, e3c4_M3_index, e3c4_val1, e3c4_val2, e3c4_val3, unit_diag, sym3, tr3. simpl.
  repeat split; apply mat3_eq; simpl; field.
Qed.
Print Assumptions proj3d_case4.

(* ---- a symmetric matrix whose square vanishes is zero ---- *)
Lemma sym_sq_zero : forall N : mat3,
  x12 N = x21 N -> x13 N = x31 N -> x23 N = x32 N -> mul3 N N = sc3 0 -> N = sc3 0.
Proof.
  intros [n11 n12 n13 n21 n22 n23 n31 n32 n33]; simpl. intros -> -> -> H.
  unfold mul3, sc3 in H; simpl in H. injection H as H11 _ _ _ H22 _ _ _ H33.
  assert (n11 = 0%R) by nra. assert (n21 = 0%R) by nra. assert (n31 = 0%R) by nra.
  assert (n22 = 0%R) by nra. assert (n32 = 0%R) by nra. assert (n33 = 0%R) by nra.
  subst. reflexivity.
Qed.

Lemma double_root_factor : forall (X : Mat3) (u w : R),
  ((X - sc u * 1) * (X - sc w * 1)) * ((X - sc u * 1) * (X - sc w * 1))
  = ((X - sc u * 1) * (X - sc w * 1) * (X - sc w * 1)) * (X - sc u * 1).
Proof. m3. Qed.

(* minimal polynomial of a symmetric matrix with a double root *)
Theorem double_root_minimal_polynomial : forall a b c f g h u w : R,
  (u + w + w = tr3 a b c)%R -> (u * w + u * w + w * w = I2_3 a b c f g h)%R -> (u * w * w = det3 a b c f g h)%R ->
  let X : Mat3 := sym3 a b c f g h in (X - sc u * 1) * (X - sc w * 1) = 0.
Proof.
  intros a b c f g h u w V1 V2 V3 X.
  apply sym_sq_zero.
  - unfold X, sym3. simpl. ring.
  - unfold X, sym3. simpl. ring.
  - unfold X, sym3. simpl. ring.
  - change (((X - sc u * 1) * (X - sc w * 1)) * ((X - sc u * 1) * (X - sc w * 1)) = 0).
    rewrite double_root_factor. unfold X.
    rewrite (charpoly_vanishes a b c f g h u w w V1 V2 V3). m3.
Qed.
Print Assumptions double_root_minimal_polynomial.

(* ---- algebra of the two spectral projectors Pu = k (w - X), Pw = k (X - u), k = 1/(w - u) ---- *)
Lemma dbl_sum : forall (X : Mat3) (u w k : R),
  sc k * (sc w * 1 - X) + sc k * (X - sc u * 1) = sc (k * (w - u))%R * 1.
Proof. m3. Qed.
Lemma dbl_idem_u : forall (X : Mat3) (u w k : R),
  (sc k * (sc w * 1 - X)) * (sc k * (sc w * 1 - X)) - sc k * (sc w * 1 - X)
  = sc (k * k)%R * ((X - sc u * 1) * (X - sc w * 1)) + sc (k * (k * (w - u) - 1))%R * (sc w * 1 - X).
Proof. m3. Qed.
Lemma dbl_idem_w : forall (X : Mat3) (u w k : R),
  (sc k * (X - sc u * 1)) * (sc k * (X - sc u * 1)) - sc k * (X - sc u * 1)
  = sc (k * k)%R * ((X - sc u * 1) * (X - sc w * 1)) + sc (k * (k * (w - u) - 1))%R * (X - sc u * 1).
Proof. m3. Qed.
Lemma dbl_orth_uw : forall (X : Mat3) (u w k : R),
  (sc k * (sc w * 1 - X)) * (sc k * (X - sc u * 1)) = sc (- (k * k))%R * ((X - sc u * 1) * (X - sc w * 1)).
Proof. m3. Qed.
Lemma dbl_orth_wu : forall (X : Mat3) (u w k : R),
  (sc k * (X - sc u * 1)) * (sc k * (sc w * 1 - X)) = sc (- (k * k))%R * ((X - sc u * 1) * (X - sc w * 1)).
Proof. m3. Qed.
Lemma dbl_decomp : forall (X : Mat3) (u w k : R),
  sc u * (sc k * (sc w * 1 - X)) + sc w * (sc k * (X - sc u * 1)) = sc (k * (w - u))%R * X.
Proof. m3. Qed.
Lemma sc0_mul : forall N : Mat3, sc 0%R * N = 0.  Proof. m3. Qed.
Lemma sc_mul0 : forall k : R, sc k * (0 : Mat3) = 0.  Proof. m3. Qed.
Lemma sc1_mul : forall N : Mat3, sc 1%R * N = N.  Proof. m3. Qed.
Lemma add0 : forall N : Mat3, 0 + N = N.  Proof. m3. Qed.
Lemma comm_add3 : forall P Q : Mat3, P + Q = Q + P.  Proof. intros [] []. m3. Qed.
Lemma diff0 : forall l r : Mat3, l - r = 0 -> l = r.
Proof.
  intros [] [] H. unfold msub in H; simpl in H. unfold sub3 in H; simpl in H. injection H as ?????????.
  apply mat3_eq; simpl; lra.
Qed.

Section DoubleRoot.
Variables a b c f g h u w : R.
Hypothesis V1 : (u + w + w = tr3 a b c)%R.
Hypothesis V2 : (u * w + u * w + w * w = I2_3 a b c f g h)%R.
Hypothesis V3 : (u * w * w = det3 a b c f g h)%R.
Hypothesis Huw : u <> w.
Let X : Mat3 := sym3 a b c f g h.
Let k : R := / (w - u).
Let Pu : Mat3 := sc k * (sc w * 1 - X).      (* projector on the eigenspace of the simple value u *)
Let Pw : Mat3 := sc k * (X - sc u * 1).      (* projector on the (two-dimensional) eigenspace of w *)

Lemma Hk : (k * (w - u) = 1)%R.
Proof. unfold k. field. intro H. apply Huw. lra. Qed.

Lemma Hmin : (X - sc u * 1) * (X - sc w * 1) = 0.
Proof. exact (double_root_minimal_polynomial a b c f g h u w V1 V2 V3). Qed.

Theorem double_root_resolution :
  Pu + Pw = 1 /\ Pu * Pu = Pu /\ Pw * Pw = Pw /\ Pu * Pw = 0 /\ Pw * Pu = 0 /\ X = sc u * Pu + sc w * Pw.
Proof.
  unfold Pu, Pw. repeat split.
  - rewrite dbl_sum, Hk. m3.
  - apply diff0. rewrite (dbl_idem_u X u w k), Hmin, Hk. replace (k * (1 - 1))%R with 0%R by ring.
    rewrite sc_mul0, sc0_mul. m3.
  - apply diff0. rewrite (dbl_idem_w X u w k), Hmin, Hk. replace (k * (1 - 1))%R with 0%R by ring.
    rewrite sc_mul0, sc0_mul. m3.
  - rewrite dbl_orth_uw, Hmin. apply sc_mul0.
  - rewrite dbl_orth_wu, Hmin. apply sc_mul0.
  - rewrite dbl_decomp, Hk. symmetry. apply sc1_mul.
Qed.
End DoubleRoot.

(* small generic facts on 3x3 matrices *)
Ltac m3f := intros; apply mat3_eq; simpl; field.
Lemma one_minus : forall p q : Mat3, p + q = 1 -> 1 - p = q.
Proof.
  intros [] [] H. unfold madd in H; simpl in H. unfold add3, sc3 in H; simpl in H. injection H as ?????????.
  apply mat3_eq; simpl; lra.
Qed.
Lemma distr3 : forall (P Q T : Mat3) (x y : R), sc x * P + sc y * (Q + T) = sc x * P + sc y * Q + sc y * T.
Proof. intros [] [] []. m3. Qed.
Lemma distr3' : forall (P Q T : Mat3) (x y : R), sc x * (P + Q) + sc y * T = sc x * P + sc x * Q + sc y * T.
Proof. intros [] [] []. m3. Qed.
(* the two halves the routine makes of the complement of the first projector *)
Lemma c2_halves : forall P : Mat3,
  e3_M2 Mat3 P (e3c2_M3 Mat3 P) = e3c2_M3 Mat3 P /\ e3_M2 Mat3 P (e3c2_M3 Mat3 P) + e3c2_M3 Mat3 P = 1 - P.
Proof. intros []. unfold e3_M2, e3c2_M3. split; m3f. Qed.
Lemma c3_halves : forall P : Mat3,
  e3_M2 Mat3 (e3c3_M1 Mat3 P) P = e3c3_M1 Mat3 P /\ e3c3_M1 Mat3 P + e3_M2 Mat3 (e3c3_M1 Mat3 P) P = 1 - P.
Proof. intros []. unfold e3_M2, e3c3_M1. split; m3f. Qed.

(* ---- case 2: l1 = u < l2 = l3 = w ---- *)
Theorem proj3d_case2 : forall a b c f g h u w : R,
  (u + w + w = tr3 a b c)%R -> (u * w + u * w + w * w = I2_3 a b c f g h)%R -> (u * w * w = det3 a b c f g h)%R ->
  u < w ->
  let I1 := tr3 a b c in let sg := sqrt (e3_g (tr3 a b c) (I2_3 a b c f g h)) in
  let X : Mat3 := sym3 a b c f g h in
  let P1 := e3c2_M1 Mat3 X I1 sg in let P3 := e3c2_M3 Mat3 P1 in let P2 := e3_M2 Mat3 P1 P3 in
  sg = (w - u)%R /\
  e3c2_val1 I1 sg = u /\ e3c2_val2 I1 sg = w /\ e3c2_val3 I1 sg = w /\
  P1 + P2 + P3 = 1 /\ P1 * P1 = P1 /\ (P2 + P3) * (P2 + P3) = P2 + P3 /\
  P1 * (P2 + P3) = 0 /\ (P2 + P3) * P1 = 0 /\
  X = sc (e3c2_val1 I1 sg) * P1 + sc (e3c2_val2 I1 sg) * P2 + sc (e3c2_val3 I1 sg) * P3 /\
  P2 = P3.
Proof.
  intros a b c f g h u w V1 V2 V3 Hlt I1 sg X P1 P3 P2.
  assert (Hsg : sg = (w - u)%R).
  { unfold sg. rewrite <- V1, <- V2. unfold e3_g.
    replace ((u + w + w) ^ 2 - 3 * (u * w + u * w + w * w))%R with ((w - u) * (w - u))%R by ring.
    apply sqrt_square. lra. }
  assert (Huw : u <> w) by lra.
  destruct (double_root_resolution a b c f g h u w V1 V2 V3 Huw) as [S [Iu [Iw [Ouw [Owu D]]]]].
  set (Pu := sc (/ (w - u)) * (sc w * (1 : Mat3) - (sym3 a b c f g h : Mat3))) in *.
  set (Pw := sc (/ (w - u)) * ((sym3 a b c f g h : Mat3) - sc u * (1 : Mat3))) in *.
  assert (Hv1 : e3c2_val1 I1 sg = u) by (unfold e3c2_val1, I1; rewrite Hsg, <- V1; field).
  assert (Hv2 : e3c2_val2 I1 sg = w) by (unfold e3c2_val2, I1; rewrite Hsg, <- V1; field).
  assert (Hv3 : e3c2_val3 I1 sg = w) by (unfold e3c2_val3, I1; rewrite Hsg, <- V1; field).
  assert (E1 : P1 = Pu).
  { unfold P1, Pu, e3c2_M1, I1, X. rewrite Hsg, <- V1. apply mat3_eq; simpl; field; lra. }
  destruct (c2_halves P1) as [E2 E23']. fold P3 in E2, E23'. fold P2 in E2, E23'.
  assert (E23 : P2 + P3 = Pw) by (rewrite E23', E1; apply one_minus; exact S).
  repeat split; try assumption.
  - apply sum_gen.
  - rewrite E1. exact Iu.
  - rewrite E23. exact Iw.
  - rewrite E23, E1. exact Ouw.
  - rewrite E23, E1. exact Owu.
  - rewrite Hv1, Hv2, Hv3, <- distr3, E23, E1. exact D.
Qed.
Print Assumptions proj3d_case2.

(* ---- case 3: l1 = l2 = u < l3 = w ---- *)
Theorem proj3d_case3 : forall a b c f g h u w : R,
  (w + u + u = tr3 a b c)%R -> (w * u + w * u + u * u = I2_3 a b c f g h)%R -> (w * u * u = det3 a b c f g h)%R ->
  u < w ->
  let I1 := tr3 a b c in let sg := sqrt (e3_g (tr3 a b c) (I2_3 a b c f g h)) in
  let X : Mat3 := sym3 a b c f g h in
  let P3 := e3c3_M3 Mat3 X I1 sg in let P1 := e3c3_M1 Mat3 P3 in let P2 := e3_M2 Mat3 P1 P3 in
  sg = (w - u)%R /\
  e3c3_val1 I1 sg = u /\ e3c3_val2 I1 sg = u /\ e3c3_val3 I1 sg = w /\
  P1 + P2 + P3 = 1 /\ P3 * P3 = P3 /\ (P1 + P2) * (P1 + P2) = P1 + P2 /\
  P3 * (P1 + P2) = 0 /\ (P1 + P2) * P3 = 0 /\
  X = sc (e3c3_val1 I1 sg) * P1 + sc (e3c3_val2 I1 sg) * P2 + sc (e3c3_val3 I1 sg) * P3 /\
  P2 = P1.
Proof.
  intros a b c f g h u w V1 V2 V3 Hlt I1 sg X P3 P1 P2.
  assert (Hsg : sg = (w - u)%R).
  { unfold sg. rewrite <- V1, <- V2. unfold e3_g.
    replace ((w + u + u) ^ 2 - 3 * (w * u + w * u + u * u))%R with ((w - u) * (w - u))%R by ring.
    apply sqrt_square. lra. }
  assert (Hwu : w <> u) by lra.
  (* the simple root is w, the double root u *)
  destruct (double_root_resolution a b c f g h w u V1 V2 V3 Hwu) as [S [Iu [Iw [Ouw [Owu D]]]]].
  set (Ps := sc (/ (u - w)) * (sc u * (1 : Mat3) - (sym3 a b c f g h : Mat3))) in *.     (* projector of the simple root w *)
  set (Pd := sc (/ (u - w)) * ((sym3 a b c f g h : Mat3) - sc w * (1 : Mat3))) in *.     (* projector of the double root u *)
  assert (Hv1 : e3c3_val1 I1 sg = u) by (unfold e3c3_val1, I1; rewrite Hsg, <- V1; field).
  assert (Hv2 : e3c3_val2 I1 sg = u) by (unfold e3c3_val2, I1; rewrite Hsg, <- V1; field).
  assert (Hv3 : e3c3_val3 I1 sg = w) by (unfold e3c3_val3, I1; rewrite Hsg, <- V1; field).
  assert (E3 : P3 = Ps).
  { unfold P3, Ps, e3c3_M3, I1, X. rewrite Hsg, <- V1. apply mat3_eq; simpl; field; lra. }
  destruct (c3_halves P3) as [E2 E12']. fold P1 in E2, E12'. fold P2 in E2, E12'.
  assert (E12 : P1 + P2 = Pd) by (rewrite E12', E3; apply one_minus; exact S).
  repeat split; try assumption.
  - apply sum_gen.
  - rewrite E3. exact Iu.
  - rewrite E12. exact Iw.
  - rewrite E12, E3. exact Ouw.
  - rewrite E12, E3. exact Owu.
  - rewrite Hv1, Hv2, Hv3, <- distr3', E12, E3. transitivity (sc w * Ps + sc u * Pd); [exact D | apply comm_add3].
Qed.
Print Assumptions proj3d_case3.

(* non-vacuity: diag(1,2,2) (case 2, u = 1, w = 2), diag(1,1,2) (case 3), 5 I (case 4) *)
Example degenerate_hypotheses_satisfiable :
  ((1 + 2 + 2 = tr3 1 2 2)%R /\ (1 * 2 + 1 * 2 + 2 * 2 = I2_3 1 2 2 0 0 0)%R /\ (1 * 2 * 2 = det3 1 2 2 0 0 0)%R /\ 1 < 2) /\
  ((2 + 1 + 1 = tr3 1 1 2)%R /\ (2 * 1 + 2 * 1 + 1 * 1 = I2_3 1 1 2 0 0 0)%R /\ (2 * 1 * 1 = det3 1 1 2 0 0 0)%R) /\
  e3_g (tr3 5 5 5) (I2_3 5 5 5 0 0 0) = 0%R.
Proof. unfold tr3, I2_3, det3, e3_g. repeat split; lra. Qed.
