(* C17 - closed-form eigenvalues / eigenprojectors.
   2-D: complete (generic and degenerate branch, every real symmetric 2x2 matrix).
   3-D: only the "three distinct eigenvalues" Sylvester formulas, given that the three values are
   the roots of the characteristic polynomial (Vieta).  The trigonometric root formula
   (arccos of the Lode argument) and its degenerate branches (g = 0, theta = 0, theta = pi/3) are
   NOT proved: that is exactly where floating point decides the branch.  => C17 is partial. *)
From Coq Require Import Reals Lra Psatz Nsatz.
From EFLib Require Import C17_MatAlg C17_Mat3.
From EFP Require Import Gen_Splits.
Local Open Scope R_scope.

(* ------------------------------------------------------------------------------------ *)
(* 2-D.  A = [[a b][b d]];  Trace A = a + d, Det A = a d - b b  (FEM/_linalg.py; modelled)   *)
(* ------------------------------------------------------------------------------------ *)
Definition tr2 (a d : R) : R := a + d.
Definition det2 (a b d : R) : R := a * d - b * b.
(* e2_delta_post is the identity, or the clamp "delta[delta < 0] = 0" when the source has it *)
Definition delta2 (a b d : R) : R := e2_delta_post (e2_delta (tr2 a d) (det2 a b d)).

Lemma delta_post_id : forall x, 0 <= x -> e2_delta_post x = x.
Proof. intros x H. unfold e2_delta_post; destruct (Rlt_dec x 0); try lra; reflexivity. Qed.

Theorem delta2_sum_of_squares : forall a b d, delta2 a b d = (a - d) ^ 2 + 4 * b ^ 2.
Proof.
  intros. unfold delta2.
  assert (H : e2_delta (tr2 a d) (det2 a b d) = (a - d) ^ 2 + 4 * b ^ 2) by (unfold e2_delta, tr2, det2; ring).
  rewrite H. apply delta_post_id. pose proof (pow2_ge_0 (a - d)). pose proof (pow2_ge_0 b). lra.
Qed.
Print Assumptions delta2_sum_of_squares.

Theorem delta2_nonneg : forall a b d, 0 <= delta2 a b d.
Proof.
  intros. rewrite delta2_sum_of_squares.
  pose proof (pow2_ge_0 (a - d)). pose proof (pow2_ge_0 b). lra.
Qed.
Print Assumptions delta2_nonneg.

(* what the routine returns, entry by entry (x = entry of A, i = entry of I, dg = entry of the
   degenerate initialisation M1 = [[1 0][0 0]]) *)
Definition eig0 (a b d : R) : R := e2_eig0 (tr2 a d) (sqrt (delta2 a b d)).
Definition eig1 (a b d : R) : R := e2_eig1 (tr2 a d) (sqrt (delta2 a b d)).
Definition M1entry (a b d x i dg : R) : R :=
  if Req_EM_T (eig0 a b d) (eig1 a b d) then dg
  else e2_m1tot x i (eig0 a b d) (eig1 a b d) (e2_v1mv2 (eig0 a b d) (eig1 a b d)).
Definition M1_11 a b d := M1entry a b d a 1 1.
Definition M1_12 a b d := M1entry a b d b 0 0.
Definition M1_22 a b d := M1entry a b d d 1 0.
Definition M2_11 a b d := e2_M2 1 (M1_11 a b d).
Definition M2_12 a b d := e2_M2 0 (M1_12 a b d).
Definition M2_22 a b d := e2_M2 1 (M1_22 a b d).

(* the three properties of a spectral resolution, for symmetric 2x2 matrices given by entries *)
Definition resolution2 (a b d l0 l1 p11 p12 p22 q11 q12 q22 : R) : Prop :=
  (* M1 idempotent *)
  p11 * p11 + p12 * p12 = p11 /\ p11 * p12 + p12 * p22 = p12 /\ p12 * p12 + p22 * p22 = p22 /\
  (* M2 idempotent *)
  q11 * q11 + q12 * q12 = q11 /\ q11 * q12 + q12 * q22 = q12 /\ q12 * q12 + q22 * q22 = q22 /\
  (* M1 + M2 = I *)
  p11 + q11 = 1 /\ p12 + q12 = 0 /\ p22 + q22 = 1 /\
  (* A = l0 M1 + l1 M2 *)
  a = l0 * p11 + l1 * q11 /\ b = l0 * p12 + l1 * q12 /\ d = l0 * p22 + l1 * q22.

Lemma sqrt_delta_sq : forall a b d, sqrt (delta2 a b d) * sqrt (delta2 a b d) = (a - d) ^ 2 + 4 * b ^ 2.
Proof. intros. rewrite sqrt_sqrt by apply delta2_nonneg. apply delta2_sum_of_squares. Qed.

Lemma sumsq0 : forall x y, x ^ 2 + 4 * y ^ 2 = 0 -> x = 0 /\ y = 0.
Proof. intros x y H. simpl in H. split; nra. Qed.

Lemma eig_equal_iff : forall a b d, eig0 a b d = eig1 a b d <-> delta2 a b d = 0.
Proof.
  intros. unfold eig0, eig1, e2_eig0, e2_eig1. split; intro H.
  - assert (Hs : sqrt (delta2 a b d) = 0) by lra.
    apply sqrt_eq_0 in Hs; [exact Hs | apply delta2_nonneg].
  - rewrite H, sqrt_0. lra.
Qed.

(* generic formula with s standing for the square root *)
Lemma generic2 : forall a b d s, s * s = (a - d) ^ 2 + 4 * b ^ 2 -> s <> 0 ->
  let l0 := e2_eig0 (tr2 a d) s in let l1 := e2_eig1 (tr2 a d) s in
  let dv := e2_v1mv2 l0 l1 in
  resolution2 a b d l0 l1 (e2_m1tot a 1 l0 l1 dv) (e2_m1tot b 0 l0 l1 dv) (e2_m1tot d 1 l0 l1 dv)
    (e2_M2 1 (e2_m1tot a 1 l0 l1 dv)) (e2_M2 0 (e2_m1tot b 0 l0 l1 dv)) (e2_M2 1 (e2_m1tot d 1 l0 l1 dv)).
Proof.
  intros a b d s Hs Hn. unfold resolution2, e2_eig0, e2_eig1, e2_v1mv2, e2_m1tot, e2_M2, tr2.
  assert (Hd : a + d - s - (a + d + s) <> 0) by (intro; apply Hn; lra).
  repeat split; field_simplify_eq; try exact Hd; try exact Hn; nra.
Qed.

Theorem proj2d : forall a b d : R,
  resolution2 a b d (eig0 a b d) (eig1 a b d)
    (M1_11 a b d) (M1_12 a b d) (M1_22 a b d) (M2_11 a b d) (M2_12 a b d) (M2_22 a b d).
Proof.
  intros a b d.
  unfold M2_11, M2_12, M2_22, M1_11, M1_12, M1_22, M1entry.
  destruct (Req_EM_T (eig0 a b d) (eig1 a b d)) as [Heq | Hne].
  - (* degenerate branch: delta = 0, hence a = d and b = 0, A = a I *)
    pose proof (proj1 (eig_equal_iff a b d) Heq) as Hd.
    pose proof Hd as H0. rewrite delta2_sum_of_squares in H0.
    destruct (sumsq0 _ _ H0) as [Ha' Hb]. assert (Ha : a = d) by lra.
    clear Heq. unfold eig0, eig1. rewrite Hd, sqrt_0.
    unfold e2_eig0, e2_eig1, e2_M2, tr2, resolution2. clear Hd H0 Ha'. subst b. subst a. repeat split; lra.
  - (* generic branch *)
    assert (Hs : sqrt (delta2 a b d) <> 0).
    { intro Hz. apply Hne. apply eig_equal_iff. apply sqrt_eq_0 in Hz; [exact Hz | apply delta2_nonneg]. }
    exact (generic2 a b d (sqrt (delta2 a b d)) (sqrt_delta_sq a b d) Hs).
Qed.
Print Assumptions proj2d.

(* the branch test of the source (eig0 != eig1) is, over the reals, delta != 0, and delta = 0 only
   for multiples of the identity *)
Theorem proj2d_branch : forall a b d, (eig0 a b d = eig1 a b d) <-> (a = d /\ b = 0).
Proof.
  intros. rewrite eig_equal_iff, delta2_sum_of_squares. split; [intro H; destruct (sumsq0 _ _ H); split; lra | intros [-> ->]; ring].
Qed.
Print Assumptions proj2d_branch.

(* eigenvalues are ordered and are the roots of the characteristic polynomial *)
Theorem eig2d_roots : forall a b d,
  eig0 a b d <= eig1 a b d /\ eig0 a b d + eig1 a b d = tr2 a d /\ eig0 a b d * eig1 a b d = det2 a b d.
Proof.
  intros. pose proof (sqrt_delta_sq a b d) as H. pose proof (sqrt_pos (delta2 a b d)) as Hp.
  simpl in H. unfold eig0, eig1, e2_eig0, e2_eig1, tr2, det2 in *.
  set (s := sqrt (delta2 a b d)) in *. repeat split; try lra.
Qed.
Print Assumptions eig2d_roots.

Example proj2d_instances :
  (* zero matrix (degenerate) and a generic one (3,4,-3 -> eigenvalues -5, 5) *)
  M1_11 0 0 0 = 1 /\ M1_22 0 0 0 = 0 /\ M2_22 0 0 0 = 1 /\ delta2 3 4 (-3) = 100.
Proof.
  unfold M2_22; unfold M1_11, M1_22, M1entry.
  destruct (Req_EM_T (eig0 0 0 0) (eig1 0 0 0)) as [_ | Hne].
  - unfold e2_M2. repeat split; try lra. rewrite delta2_sum_of_squares. ring.
  - exfalso. apply Hne. apply proj2d_branch. split; reflexivity.
Qed.

(* ------------------------------------------------------------------------------------ *)
(* 3-D, Sylvester formulas for three distinct roots                                        *)
(* ------------------------------------------------------------------------------------ *)
Local Open Scope mat_scope.
Ltac m3 := intros; apply mat3_eq; simpl; ring.

(* Cayley-Hamilton for a symmetric 3x3 matrix, with ITS OWN invariants *)
Lemma cayley_hamilton_sym3 : forall a b c f g h : R,
  let X : Mat3 := sym3 a b c f g h in
  X * X * X - sc (tr3 a b c) * (X * X) + sc (I2_3 a b c f g h) * X - sc (det3 a b c f g h) = 0.
Proof. intros. unfold X, sym3, tr3, I2_3, det3. m3. Qed.

Lemma charpoly_expand : forall (X : Mat3) (v1 v2 v3 : R),
  (X - sc v1 * 1) * (X - sc v2 * 1) * (X - sc v3 * 1)
  = X * X * X - sc (v1 + v2 + v3)%R * (X * X) + sc (v1 * v2 + v1 * v3 + v2 * v3)%R * X - sc (v1 * v2 * v3)%R.
Proof. m3. Qed.

Lemma idem_factor : forall (X : Mat3) (v1 v2 v3 : R),
  let N := (X - sc v2 * 1) * (X - sc v3 * 1) in
  N * N - sc ((v1 - v2) * (v1 - v3))%R * N
  = (X - sc v1 * 1) * (X - sc v2 * 1) * (X - sc v3 * 1) * (X + sc (v1 - v2 - v3)%R).
Proof. m3. Qed.

Lemma orth_factor : forall (X : Mat3) (v1 v2 v3 : R),
  ((X - sc v2 * 1) * (X - sc v3 * 1)) * ((X - sc v1 * 1) * (X - sc v2 * 1))
  = (X - sc v1 * 1) * (X - sc v2 * 1) * (X - sc v3 * 1) * (X - sc v2 * 1).
Proof. m3. Qed.

Lemma orth_factor' : forall (X : Mat3) (v1 v2 v3 : R),
  ((X - sc v1 * 1) * (X - sc v2 * 1)) * ((X - sc v2 * 1) * (X - sc v3 * 1))
  = (X - sc v1 * 1) * (X - sc v2 * 1) * (X - sc v3 * 1) * (X - sc v2 * 1).
Proof. m3. Qed.

Lemma scale_sq : forall (k : R) (N : Mat3), (sc k * N) * (sc k * N) = sc (k * k)%R * (N * N).
Proof. m3. Qed.
Lemma scale_2 : forall (k l : R) (N N' : Mat3), (sc k * N) * (sc l * N') = sc (k * l)%R * (N * N').
Proof. m3. Qed.
Lemma scale_back : forall (k D : R) (N : Mat3), (k * D = 1)%R -> sc (k * k)%R * (sc D * N) = sc k * N.
Proof.
  intros k D N H. replace (sc (k * k)%R * (sc D * N)) with (sc (k * (k * D))%R * N) by m3.
  rewrite H, Rmult_1_r. reflexivity.
Qed.
Lemma mul_0_l3 : forall N : Mat3, 0 * N = 0.  Proof. m3. Qed.
Lemma sc_mul_0 : forall k : R, sc k * (0 : Mat3) = 0.  Proof. m3. Qed.

(* generic algebra (any MatAlg): consequences of idempotence/orthogonality for M2 = I - (M1 + M3) *)
Section GenericM2.
Variable A : MatAlg.
Variables p1 p3 : A.
Lemma sum_gen : p1 + e3_M2 A p1 p3 + p3 = 1.
Proof. unfold e3_M2. mat_ring. Qed.
Lemma diff0_eq : forall l r : A, l - r = 0 -> l = r.
Proof. intros l r H. replace l with ((l - r) + r) by mat_ring. rewrite H. mat_ring. Qed.
Hypothesis i1 : p1 * p1 = p1.
Hypothesis i3 : p3 * p3 = p3.
Hypothesis o13 : p1 * p3 = 0.
Hypothesis o31 : p3 * p1 = 0.
Lemma m2_gen : let p2 := e3_M2 A p1 p3 in
  p2 * p2 = p2 /\ p1 * p2 = 0 /\ p2 * p1 = 0 /\ p3 * p2 = 0 /\ p2 * p3 = 0.
Proof.
  unfold e3_M2. repeat split.
  - replace ((1 - (p1 + p3)) * (1 - (p1 + p3))) with (1 - p1 - p1 - p3 - p3 + p1 * p1 + p3 * p3 + p1 * p3 + p3 * p1) by mat_ring.
    rewrite i1, i3, o13, o31. mat_ring.
  - replace (p1 * (1 - (p1 + p3))) with (p1 - p1 * p1 - p1 * p3) by mat_ring. rewrite i1, o13. mat_ring.
  - replace ((1 - (p1 + p3)) * p1) with (p1 - p1 * p1 - p3 * p1) by mat_ring. rewrite i1, o31. mat_ring.
  - replace (p3 * (1 - (p1 + p3))) with (p3 - p3 * p3 - p3 * p1) by mat_ring. rewrite i3, o31. mat_ring.
  - replace ((1 - (p1 + p3)) * p3) with (p3 - p3 * p3 - p1 * p3) by mat_ring. rewrite i3, o13. mat_ring.
Qed.
End GenericM2.

Section Sylvester.
Variables a b c f g h : R.       (* X = [[a h g][h b f][g f c]] *)
Variables v1 v2 v3 : R.
Hypothesis vieta1 : (v1 + v2 + v3 = tr3 a b c)%R.
Hypothesis vieta2 : (v1 * v2 + v1 * v3 + v2 * v3 = I2_3 a b c f g h)%R.
Hypothesis vieta3 : (v1 * v2 * v3 = det3 a b c f g h)%R.
Hypothesis d12 : v1 <> v2.
Hypothesis d13 : v1 <> v3.
Hypothesis d23 : v2 <> v3.

Let X : Mat3 := sym3 a b c f g h.
Let P1 : Mat3 := e3_M1 Mat3 X v1 v2 v3.
Let P3 : Mat3 := e3_M3 Mat3 X v1 v2 v3.
Let P2 : Mat3 := e3_M2 Mat3 P1 P3.

Lemma charpoly_vanishes : (X - sc v1 * 1) * (X - sc v2 * 1) * (X - sc v3 * 1) = 0.
Proof.
  rewrite charpoly_expand, vieta1, vieta2, vieta3. apply cayley_hamilton_sym3.
Qed.

Theorem proj3d_distinct_sum : P1 + P2 + P3 = 1.
Proof. apply sum_gen. Qed.

Theorem proj3d_distinct_idem1 : P1 * P1 = P1.
Proof.
  unfold P1, e3_M1. rewrite scale_sq.
  pose proof (idem_factor X v1 v2 v3) as H. cbv zeta in H.
  rewrite charpoly_vanishes, mul_0_l3 in H.
  assert (H' : (X - sc v2 * 1) * (X - sc v3 * 1) * ((X - sc v2 * 1) * (X - sc v3 * 1))
               = sc ((v1 - v2) * (v1 - v3))%R * ((X - sc v2 * 1) * (X - sc v3 * 1))).
  { apply diff0_eq. exact H. }
  rewrite H'. apply scale_back. field. split; intro; [apply d13 | apply d12]; lra.
Qed.

Theorem proj3d_distinct_idem3 : P3 * P3 = P3.
Proof.
  unfold P3, e3_M3. rewrite scale_sq.
  pose proof (idem_factor X v3 v1 v2) as H. cbv zeta in H.
  assert (Hc : (X - sc v3 * 1) * (X - sc v1 * 1) * (X - sc v2 * 1) = 0).
  { rewrite <- charpoly_vanishes. m3. }
  rewrite Hc, mul_0_l3 in H.
  assert (H' : (X - sc v1 * 1) * (X - sc v2 * 1) * ((X - sc v1 * 1) * (X - sc v2 * 1))
               = sc ((v3 - v1) * (v3 - v2))%R * ((X - sc v1 * 1) * (X - sc v2 * 1))).
  { apply diff0_eq. exact H. }
  rewrite H'. apply scale_back. field. split; intro; [apply d23 | apply d13]; lra.
Qed.

Theorem proj3d_distinct_orth13 : P1 * P3 = 0.
Proof.
  unfold P1, P3, e3_M1, e3_M3. rewrite scale_2, orth_factor, charpoly_vanishes, mul_0_l3. apply sc_mul_0.
Qed.

Theorem proj3d_distinct_orth31 : P3 * P1 = 0.
Proof.
  unfold P1, P3, e3_M1, e3_M3. rewrite scale_2, orth_factor', charpoly_vanishes, mul_0_l3. apply sc_mul_0.
Qed.

Theorem proj3d_distinct_M2 : P2 * P2 = P2 /\ P1 * P2 = 0 /\ P2 * P1 = 0 /\ P3 * P2 = 0 /\ P2 * P3 = 0.
Proof.
  apply (m2_gen Mat3 P1 P3 proj3d_distinct_idem1 proj3d_distinct_idem3 proj3d_distinct_orth13 proj3d_distinct_orth31).
Qed.

(* spectral decomposition X = v1 P1 + v2 P2 + v3 P3 *)
Theorem proj3d_distinct_decomposition : X = sc v1 * P1 + sc v2 * P2 + sc v3 * P3.
Proof.
  unfold P2, P1, P3, e3_M1, e3_M2, e3_M3, X, sym3.
  apply mat3_eq; simpl; field; repeat split; intro; try (apply d12; lra); try (apply d13; lra); try (apply d23; lra).
Qed.
End Sylvester.

(* the full statement [proj3d]: "for every real symmetric 3x3 matrix the routine (Lode-angle
   root formula, cases g = 0, theta = 0, theta = pi/3, generic) returns a spectral resolution"
   is NOT proved; only the generic-case projector formulas, given roots of the characteristic
   polynomial. *)
Theorem proj3d_distinct_partial : forall a b c f g h v1 v2 v3 : R,
  (v1 + v2 + v3 = tr3 a b c)%R -> (v1 * v2 + v1 * v3 + v2 * v3 = I2_3 a b c f g h)%R ->
  (v1 * v2 * v3 = det3 a b c f g h)%R -> v1 <> v2 -> v1 <> v3 -> v2 <> v3 ->
  let X : Mat3 := sym3 a b c f g h in
  let P1 := e3_M1 Mat3 X v1 v2 v3 in let P3 := e3_M3 Mat3 X v1 v2 v3 in let P2 := e3_M2 Mat3 P1 P3 in
  P1 + P2 + P3 = 1 /\ P1 * P1 = P1 /\ P2 * P2 = P2 /\ P3 * P3 = P3 /\
  P1 * P3 = 0 /\ P3 * P1 = 0 /\ P1 * P2 = 0 /\ P2 * P1 = 0 /\ P3 * P2 = 0 /\ P2 * P3 = 0 /\
  X = sc v1 * P1 + sc v2 * P2 + sc v3 * P3.
Proof.
  intros a b c f g h v1 v2 v3 H1 H2 H3 D12 D13 D23 X P1 P3 P2.
  pose proof (proj3d_distinct_M2 a b c f g h v1 v2 v3 H1 H2 H3 D12 D13 D23) as [H22 [Ha [Hb [Hc Hd]]]].
  repeat split.
  - apply sum_gen.
  - apply proj3d_distinct_idem1; assumption.
  - exact H22.
  - apply proj3d_distinct_idem3; assumption.
  - apply proj3d_distinct_orth13; assumption.
  - apply proj3d_distinct_orth31; assumption.
  - exact Ha.
  - exact Hb.
  - exact Hc.
  - exact Hd.
  - apply proj3d_distinct_decomposition; assumption.
Qed.
Print Assumptions proj3d_distinct_partial.

(* non-vacuity: diag(1,2,3) with roots 1,2,3 *)
Example proj3d_hypotheses_satisfiable :
  (1 + 2 + 3 = tr3 1 2 3)%R /\ (1 * 2 + 1 * 3 + 2 * 3 = I2_3 1 2 3 0 0 0)%R /\ (1 * 2 * 3 = det3 1 2 3 0 0 0)%R /\
  (1 <> 2)%R /\ (1 <> 3)%R /\ (2 <> 3)%R.
Proof. unfold tr3, I2_3, det3. repeat split; lra. Qed.
