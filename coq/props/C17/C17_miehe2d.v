(* C17 - end to end in 2-D for the Miehe split: the split formula regenerated from the source
   (cP_Miehe / cM_Miehe of Gen_Splits.v, instantiated in the algebra of 3x3 Kelvin-Mandel matrices) applied
   to the strain, with the sign factors of __Rp_Rm and the projectors assembled by
   __Spectral_Decomposition from the output of the 2-D eigen routine, is the textbook formula
       Sigma+ = lamb <tr eps>+ I + 2 mu eps+ ,   Sigma- = lamb <tr eps>- I + 2 mu eps-
   for EVERY real symmetric 2x2 strain (zero, hydrostatic, uniaxial, equal principal values included). *)
From Coq Require Import Reals Lra Lia.
From EFLib Require Import C17_MatAlg C17_Mat3.
From EFP Require Import Gen_Splits C17_proj C17_scale C17_assembly C17_splits.
Local Open Scope R_scope.

(* 3x3 matrix from an entry function, and its action on a vector nat -> R *)
Definition mat_of (P : nat -> nat -> R) : Mat3 :=
  mk3 (P 0%nat 0%nat) (P 0%nat 1%nat) (P 0%nat 2%nat) (P 1%nat 0%nat) (P 1%nat 1%nat) (P 1%nat 2%nat)
      (P 2%nat 0%nat) (P 2%nat 1%nat) (P 2%nat 2%nat).
Definition row (M : mat3) (j : nat) : R * R * R :=
  match j with O => (x11 M, x12 M, x13 M) | Datatypes.S O => (x21 M, x22 M, x23 M) | _ => (x31 M, x32 M, x33 M) end.
Definition mv3 (M : Mat3) (v : nat -> R) (j : nat) : R :=
  let '(p, q, r) := row M j in p * v 0%nat + q * v 1%nat + r * v 2%nat.
(* Kelvin-Mandel identity (x) identity in 2-D: [1 1 0]^T [1 1 0] *)
Definition IxI2 : Mat3 := mk3 1 1 0 1 1 0 0 0 0.
Definition ivec (j : nat) : R := match j with O => 1 | Datatypes.S O => 1 | _ => 0 end.

Lemma mv3_add : forall (X Y : Mat3) v j, mv3 (X + Y)%M v j = mv3 X v j + mv3 Y v j.
Proof. intros [] [] v j. destruct j as [| [| j]]; unfold mv3; simpl; ring. Qed.
Lemma mv3_sc : forall (s : R) (X : Mat3) v j, mv3 (sc s * X)%M v j = s * mv3 X v j.
Proof. intros s [] v j. destruct j as [| [| j]]; unfold mv3; simpl; ring. Qed.
Lemma mv3_mat_of : forall P v j, (j < 3)%nat -> mv3 (mat_of P) v j = matvec P v j.
Proof. intros P v j Hj. destruct j as [| [| [| j]]]; [| | | exfalso; lia]; unfold mv3, matvec, mat_of; simpl; reflexivity. Qed.
Lemma mv3_IxI2 : forall a b d j, mv3 IxI2 (vecA a b d) j = (a + d) * ivec j.
Proof.
  intros a b d j. destruct j as [| [| j]]; unfold mv3, IxI2, vecA, kmv, km2_0, km2_1, km2_2, ivec; simpl; ring.
Qed.

Section Miehe2D.
Variables a b d lamb_ mu_ : R.
Variables C0 S0 Q0 Q1 Pt0 Pt1 : Mat3.       (* fields the Miehe branch does not read *)
Variables bulk0 E0 v0 dim0 : R.
Let t : R := src_trace2 (vecA a b d 0%nat) (vecA a b d 1%nat).      (* what __Rp_Rm computes *)
Let e : env Mat3 :=
  mkEnv Mat3 C0 S0 Q0 Q1 IxI2 (mat_of (asm_projP a b d)) (mat_of (asm_projM a b d)) Pt0 Pt1
        lamb_ mu_ bulk0 E0 v0 (src_Rp t) (src_Rm t) dim0.

Lemma trace_is : t = a + d.
Proof. unfold t, src_trace2, vecA, kmv, km2_0, km2_1. reflexivity. Qed.

Theorem miehe2d_sigma_plus : forall j, (j < 3)%nat ->
  mv3 (cP_Miehe Mat3 e) (vecA a b d) j
  = lamb_ * ((a + d + Rabs (a + d)) / 2) * ivec j + 2 * mu_ * pos_part_vec a b d j.
Proof.
  intros j Hj. unfold cP_Miehe, e; simpl.
  rewrite !mv3_add, !mv3_sc, mv3_IxI2, (mv3_mat_of _ _ _ Hj), (projP2d_positive_part a b d j Hj).
  destruct (Rp_positive_part (a + d)) as [Hp _]. rewrite trace_is.
  transitivity (lamb_ * (src_Rp (a + d) * (a + d)) * ivec j + 2 * mu_ * pos_part_vec a b d j); [ring |].
  rewrite Hp. reflexivity.
Qed.

Theorem miehe2d_sigma_minus : forall j, (j < 3)%nat ->
  mv3 (cM_Miehe Mat3 e) (vecA a b d) j
  = lamb_ * ((a + d - Rabs (a + d)) / 2) * ivec j + 2 * mu_ * neg_part_vec a b d j.
Proof.
  intros j Hj. unfold cM_Miehe, e; simpl.
  rewrite !mv3_add, !mv3_sc, mv3_IxI2, (mv3_mat_of _ _ _ Hj), (projM2d_negative_part a b d j Hj).
  destruct (Rp_positive_part (a + d)) as [_ Hm]. rewrite trace_is.
  transitivity (lamb_ * (src_Rm (a + d) * (a + d)) * ivec j + 2 * mu_ * neg_part_vec a b d j); [ring |].
  rewrite Hm. reflexivity.
Qed.
End Miehe2D.
Print Assumptions miehe2d_sigma_plus.
Print Assumptions miehe2d_sigma_minus.

Example miehe2d_index_range : (0 < 3)%nat /\ (2 < 3)%nat.
Proof. split; lia. Qed.
