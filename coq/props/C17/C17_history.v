(* C17 - irreversibility: the history field and the damage never decrease, for EVERY sequence of
   load/unload steps (induction over the list of steps, no bound); no loading => no damage.
   src_hist_update / src_hd_update / src_bc_lb / src_f_* / src_r_* / src_g come from Gen_Splits.v
   (regenerated from Simulations/_phasefield.py and Models/_phasefield.py on every run). *)
From Coq Require Import Reals Lra Psatz List.
From EFP Require Import Gen_Splits.
Local Open Scope R_scope.

Lemma hist_update_is_max : forall old psi, src_hist_update old psi = Rmax old psi.
Proof.
  intros. unfold src_hist_update, Rmax. destruct (Rlt_dec (psi - old) 0); destruct (Rle_dec old psi); lra.
Qed.

Lemma last_default_irrelevant : forall (T : Type) (l : list T) (a x y : T), last (a :: l) x = last (a :: l) y.
Proof. induction l as [| b l IH]; intros; [reflexivity |]. change (last (b :: l) x = last (b :: l) y). apply IH. Qed.
Lemma last_cons_default : forall (T : Type) (l : list T) (a d : T), last (a :: l) d = last l a.
Proof.
  induction l as [| b l IH]; intros; [reflexivity |].
  change (last (b :: l) d = last (b :: l) a). apply last_default_irrelevant.
Qed.

Section Fields.
Variable I : Type.                     (* Gauss points (history) or nodes (damage) *)
Definition field := I -> R.

(* ---- History solver: H <- (psi+ where it grew, old H elsewhere), committed by Save_Iter ---- *)
Definition hist_step (H psi : field) : field := fun i => src_hist_update (H i) (psi i).
Fixpoint hist_run (H : field) (psis : list field) : field :=
  match psis with nil => H | p :: r => hist_run (hist_step H p) r end.

Lemma hist_step_ge : forall H psi i, H i <= hist_step H psi i /\ psi i <= hist_step H psi i.
Proof. intros. unfold hist_step. rewrite hist_update_is_max. split; [apply Rmax_l | apply Rmax_r]. Qed.

Theorem history_monotone : forall (psis : list field) (H : field) (i : I), H i <= hist_run H psis i.
Proof.
  induction psis as [| p r IH]; intros H i; simpl.
  - lra.
  - eapply Rle_trans; [apply (proj1 (hist_step_ge H p i)) | apply IH].
Qed.

Lemma hist_run_app : forall l1 l2 H, hist_run H (l1 ++ l2) = hist_run (hist_run H l1) l2.
Proof. induction l1; intros; simpl; [reflexivity | apply IHl1]. Qed.

(* between ANY two saved steps (after the prefix l1 and after l1 ++ l2) *)
Theorem history_monotone_between_saved_steps : forall (l1 l2 : list field) (H : field) (i : I),
  hist_run H l1 i <= hist_run H (l1 ++ l2) i.
Proof. intros. rewrite hist_run_app. apply history_monotone. Qed.

(* the stored field dominates every positive energy seen so far *)
Theorem history_dominates_driving_energy : forall (l1 l2 : list field) (p : field) (H : field) (i : I),
  p i <= hist_run H (l1 ++ p :: l2) i.
Proof.
  intros. rewrite hist_run_app. simpl.
  eapply Rle_trans; [apply (proj2 (hist_step_ge (hist_run H l1) p i)) | apply history_monotone].
Qed.

(* ---- BoundConstrain: the new damage is ANY vector within [lb, 1], lb = previous damage
        (entries >= 1 are lowered to 1 - eps by Get_lb_ub) ---- *)
Variable eps : R.
Definition bc_admissible (d d' : field) : Prop := forall i, src_bc_lb eps (d i) <= d' i.
Inductive bc_chain : field -> list field -> Prop :=
| bc_nil : forall d, bc_chain d nil
| bc_cons : forall d d' r, bc_admissible d d' -> bc_chain d' r -> bc_chain d (d' :: r).

Lemma bc_lb_ge : forall x, Rmin x (1 - eps) <= src_bc_lb eps x.
Proof.
  intro x. unfold src_bc_lb. destruct (Rle_dec 1 x).
  - apply Rmin_r.
  - apply Rmin_l.
Qed.

(* exact statement: damage below 1 never decreases *)
Theorem damage_monotone_BoundConstrain_step : forall d d' i, bc_admissible d d' -> d i < 1 -> d i <= d' i.
Proof.
  intros d d' i H Hlt. specialize (H i). unfold src_bc_lb in H. destruct (Rle_dec 1 (d i)); lra.
Qed.

(* along every chain min(d, 1 - eps) never decreases (the only possible decrease is from >= 1 to 1 - eps) *)
Theorem damage_monotone_BoundConstrain : forall (r : list field) (d : field), bc_chain d r ->
  forall i, Rmin (d i) (1 - eps) <= Rmin (last r d i) (1 - eps).
Proof.
  induction r as [| d' r IH]; intros d Hc i.
  - simpl. lra.
  - inversion Hc as [| ? ? ? Hadm Hrest]; subst.
    assert (Hstep : Rmin (d i) (1 - eps) <= Rmin (d' i) (1 - eps)).
    { apply Rmin_glb; [| apply Rmin_r]. eapply Rle_trans; [apply bc_lb_ge | apply Hadm]. }
    eapply Rle_trans; [exact Hstep |].
    replace (last (d' :: r) d) with (last r d').
    + apply IH. exact Hrest.
    + symmetry. apply last_cons_default.
Qed.
End Fields.

(* ---- change of units: energies (psi, H, Gc/l0) are multiplied by s > 0; the update rule and the source /
        reaction terms are positively homogeneous, so the damage problem K d = F is multiplied by s as a
        whole and its solution (the damage) does not change ---- *)
Theorem hist_update_homogeneous : forall s old psi, 0 < s -> src_hist_update (s * old) (s * psi) = s * src_hist_update old psi.
Proof.
  intros s old psi Hs. unfold src_hist_update.
  destruct (Rlt_dec (s * psi - s * old) 0); destruct (Rlt_dec (psi - old) 0); try reflexivity; exfalso; nra.
Qed.

Theorem source_reaction_homogeneous : forall s psi Gc l0 : R, 0 < s ->
  src_f_AT1 (s * psi) (s * Gc) l0 = s * src_f_AT1 psi Gc l0 /\ src_f_AT2 (s * psi) (s * Gc) l0 = s * src_f_AT2 psi Gc l0 /\
  src_r_AT1 (s * psi) (s * Gc) l0 = s * src_r_AT1 psi Gc l0 /\ src_r_AT2 (s * psi) (s * Gc) l0 = s * src_r_AT2 psi Gc l0.
Proof.
  intros s psi Gc l0 Hs. unfold src_f_AT1, src_f_AT2, src_r_AT1, src_r_AT2. repeat split; try (unfold Rdiv; ring).
  replace (2 * (s * psi) - 3 * (s * Gc) / (8 * l0)) with (s * (2 * psi - 3 * Gc / (8 * l0))) by (unfold Rdiv; ring).
  rewrite Rabs_mult, (Rabs_right s) by lra. unfold Rdiv. ring.
Qed.

(* ---- no loading => no damage ---- *)
Theorem source_vanishes_without_energy : forall Gc l0 : R, 0 < Gc -> 0 < l0 ->
  src_f_AT1 0 Gc l0 = 0 /\ src_f_AT2 0 Gc l0 = 0.
Proof.
  intros Gc l0 HG Hl. unfold src_f_AT1, src_f_AT2. split; [| lra].
  assert (Hq : 0 < 3 * Gc / (8 * l0)).
  { apply Rdiv_lt_0_compat; lra. }
  rewrite Rabs_left by lra. lra.
Qed.

Theorem source_nonnegative : forall psi Gc l0 : R, 0 <= psi -> 0 <= src_f_AT1 psi Gc l0 /\ 0 <= src_f_AT2 psi Gc l0.
Proof.
  intros. unfold src_f_AT1, src_f_AT2. split; [| lra].
  pose proof (Rle_abs (- (2 * psi - 3 * Gc / (8 * l0)))) as Ha. rewrite Rabs_Ropp in Ha. lra.
Qed.

Theorem reaction_and_degradation_positive : forall psi Gc l0 d k : R, 0 <= psi -> 0 < Gc -> 0 < l0 -> 0 < k ->
  0 <= src_r_AT1 psi Gc l0 /\ 0 < src_r_AT2 psi Gc l0 /\ 0 < src_g d k.
Proof.
  intros. unfold src_r_AT1, src_r_AT2, src_g. repeat split; try lra.
  - assert (0 < Gc / l0) by (apply Rdiv_lt_0_compat; lra). lra.
  - pose proof (pow2_ge_0 (1 - d)). lra.
Qed.

Section NoLoad.
Variable I V : Type.
Variable vzero : V.
Variable K : V -> V.                              (* assembled damage operator (reaction + diffusion) *)
Variable assemble : (I -> R) -> V.                (* assembled source vector: linear in the density *)
Hypothesis assemble_ext : forall f g, (forall i, f i = g i) -> assemble f = assemble g.
Hypothesis assemble_zero : assemble (fun _ => 0) = vzero.
Hypothesis K_zero : K vzero = vzero.               (* K linear *)
Hypothesis K_injective : forall x y, K x = K y -> x = y.   (* K symmetric positive definite *)

Theorem no_load_no_damage : forall (Gc l0 : R) (psi : I -> R), 0 < Gc -> 0 < l0 -> (forall i, psi i = 0) ->
  forall d : V,
    (K d = assemble (fun i => src_f_AT1 (psi i) Gc l0) -> d = vzero) /\
    (K d = assemble (fun i => src_f_AT2 (psi i) Gc l0) -> d = vzero).
Proof.
  intros Gc l0 psi HG Hl Hpsi d.
  destruct (source_vanishes_without_energy Gc l0 HG Hl) as [H1 H2].
  split; intro Hd; apply K_injective; rewrite K_zero, Hd, <- assemble_zero; apply assemble_ext; intro i;
    rewrite Hpsi; assumption.
Qed.
End NoLoad.

(* non-vacuity of the NoLoad hypotheses: one point, K = multiplication by 2 *)
Example no_load_hypotheses_satisfiable :
  let assemble := fun f : unit -> R => f tt in
  (forall f g, (forall i, f i = g i) -> assemble f = assemble g) /\ assemble (fun _ => 0) = 0 /\
  2 * 0 = 0 /\ (forall x y : R, 2 * x = 2 * y -> x = y).
Proof. simpl. repeat split; intros; try lra. apply H. Qed.

Example bc_chain_example : bc_chain unit (1 / 1024) (fun _ => 0) ((fun _ => 1 / 2) :: (fun _ => 1) :: (fun _ => 1023 / 1024) :: nil).
Proof.
  assert (adm : forall x y : R, (if Rle_dec 1 x then 1 - 1 / 1024 else x) <= y -> bc_admissible unit (1 / 1024) (fun _ => x) (fun _ => y)).
  { intros x y H i. exact H. }
  apply bc_cons; [apply adm; destruct (Rle_dec 1 0); lra |].
  apply bc_cons; [apply adm; destruct (Rle_dec 1 (1 / 2)); lra |].
  apply bc_cons; [apply adm; destruct (Rle_dec 1 1); lra | apply bc_nil].
Qed.

Print Assumptions history_monotone.
Print Assumptions history_monotone_between_saved_steps.
Print Assumptions history_dominates_driving_energy.
Print Assumptions damage_monotone_BoundConstrain.
Print Assumptions damage_monotone_BoundConstrain_step.
Print Assumptions no_load_no_damage.
Print Assumptions hist_update_homogeneous.
Print Assumptions source_reaction_homogeneous.
Print Assumptions source_nonnegative.
Print Assumptions reaction_and_degradation_positive.
