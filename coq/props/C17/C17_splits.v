(* C17 - every split partitions the stiffness, hence the stress and the energy.
   The definitions cP_<split>/cM_<split> come from Gen_Splits.v, regenerated from
   EasyFEA/Models/_phasefield.py on every run.  Statements hold in EVERY real matrix algebra
   with central scalars and a transpose (EFLib.C17_MatAlg) - in particular for the 3x3 and 6x6
   Kelvin-Mandel matrices at any Gauss point, whatever the strain state: the only facts used about
   the spectral projectors and the sign factors are projP + projM = I and Rp + Rm = 1, and the
   latter is proved below for every real trace (zero included). *)
From Coq Require Import Reals Lra.
From EFLib Require Import C17_MatAlg.
From EFP Require Import Gen_Splits.
Local Open Scope R_scope.

(* ------------------------------------------------------------------------------------ *)
(* Rp / Rm from the sign definition                                                      *)
(* ------------------------------------------------------------------------------------ *)
Theorem Rp_Rm_partition : forall t : R, src_Rp t + src_Rm t = 1.
Proof.
  intro t. unfold src_Rp, src_Rm, sgn.
  destruct (Rlt_dec 0 t); destruct (Rlt_dec t 0); destruct (Rlt_dec 0 (- t)); destruct (Rlt_dec (- t) 0); lra.
Qed.
Print Assumptions Rp_Rm_partition.

Theorem Rp_values : forall t : R,
  (0 < t -> src_Rp t = 1 /\ src_Rm t = 0) /\ (t < 0 -> src_Rp t = 0 /\ src_Rm t = 1) /\
  (t = 0 -> src_Rp t = 1 / 2 /\ src_Rm t = 1 / 2).
Proof.
  intro t. unfold src_Rp, src_Rm, sgn.
  destruct (Rlt_dec 0 t); destruct (Rlt_dec t 0); destruct (Rlt_dec 0 (- t)); destruct (Rlt_dec (- t) 0);
    repeat split; intros; lra.
Qed.
Print Assumptions Rp_values.

(* Rp t * t is the positive part of the trace, Rm t * t its negative part *)
Theorem Rp_positive_part : forall t : R, src_Rp t * t = (t + Rabs t) / 2 /\ src_Rm t * t = (t - Rabs t) / 2.
Proof.
  intro t. unfold src_Rp, src_Rm, sgn, Rabs.
  destruct (Rlt_dec 0 t); destruct (Rlt_dec t 0); destruct (Rlt_dec 0 (- t)); destruct (Rlt_dec (- t) 0);
    destruct (Rcase_abs t); split; lra.
Qed.
Print Assumptions Rp_positive_part.

Example Rp_Rm_at_zero : src_Rp (src_trace3 0 0 0) + src_Rm (src_trace3 0 0 0) = 1 /\ src_Rp (src_trace2 0 0) = 1 / 2.
Proof. split. apply Rp_Rm_partition. unfold src_trace2. replace (0 + 0) with 0 by lra. apply (Rp_values 0). reflexivity. Qed.

(* ------------------------------------------------------------------------------------ *)
(* partition of the stiffness                                                            *)
(* ------------------------------------------------------------------------------------ *)
Section Partition.
Variable A : MatAlg.
Variable e : env A.
Local Open Scope mat_scope.

(* hypotheses, all about the operands the split receives *)
Definition proj_partition := projP e + projM e = 1.            (* spectral projectors *)
Definition projt_partition := projPt e + projMt e = 1.         (* idem, transformed strain (He) *)
Definition R_partition := (Rp e + Rm e = 1)%R.                 (* sign factors *)
Definition iso_law := C e = sc (lamb e) * IxI e + sc 2 * (sc (mu e) * 1).   (* C = lamb IxI + 2 mu I *)
Definition bulk_law := bulk e = src_bulk (lamb e) (mu e) (dim e).
Definition sqrt_law := inv_sqrtC e * sqrtC e = 1.
Definition sym_inverse_law := tp (C e) * S e * C e = C e.     (* C symmetric, S = C^-1 *)
(* isotropic compliance written with the coefficients a, b the Stress split uses *)
Definition iso_compliance (a b : R) := tp (C e) * (sc a * 1 - sc b * IxI e) * C e = C e.

Lemma scR : R_partition -> sc (Rm e) = (1 - sc (Rp e) : A).
Proof.
  unfold R_partition. intro H. replace (Rm e) with (1 - Rp e)%R by lra.
  rewrite sc_sub, sc_1. reflexivity.
Qed.
Lemma prM : proj_partition -> projM e = 1 - projP e.
Proof. apply elim_r. Qed.
Lemma prMt : projt_partition -> projMt e = 1 - projPt e.
Proof. apply elim_r. Qed.

Ltac start := unfold proj_partition, projt_partition, R_partition; intros.

Theorem split_partitions_C_Bourdin : cP_Bourdin A e + cM_Bourdin A e = C e.
Proof. unfold cP_Bourdin, cM_Bourdin. mat_ring. Qed.

Theorem split_partitions_C_Amor : R_partition -> iso_law -> bulk_law -> (dim e <> 0)%R ->
  cP_Amor A e + cM_Amor A e = C e.
Proof.
  intros HR HC HB Hd. unfold cP_Amor, cM_Amor. rewrite HC, (scR HR).
  unfold bulk_law, src_bulk in HB. rewrite HB.
  replace (lamb e + 2 * mu e / dim e)%R with (lamb e + 2 * (mu e * (1 / dim e)))%R by (field; exact Hd).
  rewrite sc_add, !sc_mul. mat_ring.
Qed.

Theorem split_partitions_C_Miehe : proj_partition -> R_partition -> iso_law ->
  cP_Miehe A e + cM_Miehe A e = C e.
Proof.
  intros HP HR HC. unfold cP_Miehe, cM_Miehe. rewrite HC, (scR HR), (prM HP). mat_ring.
Qed.

Theorem split_partitions_C_He : projt_partition -> sqrt_law -> cP_He A e + cM_He A e = C e.
Proof.
  intros HP HS. unfold cP_He, cM_He. rewrite (prMt HP).
  transitivity (C e * (inv_sqrtC e * sqrtC e)); [mat_ring | rewrite HS; mat_ring].
Qed.

Lemma stress_shape (a b : R) : proj_partition -> R_partition -> iso_compliance a b ->
  tp (C e) * (sc a * projP e - sc b * (sc (Rp e) * IxI e)) * C e
  + tp (C e) * (sc a * projM e - sc b * (sc (Rm e) * IxI e)) * C e = C e.
Proof.
  intros HP HR HS. rewrite (scR HR), (prM HP).
  transitivity (tp (C e) * (sc a * 1 - sc b * IxI e) * C e); [mat_ring | exact HS].
Qed.

Theorem split_partitions_C_Stress_d2ps : proj_partition -> R_partition ->
  iso_compliance ((1 + v e) / E e) (v e / E e) -> cP_Stress_d2ps A e + cM_Stress_d2ps A e = C e.
Proof. intros. unfold cP_Stress_d2ps, cM_Stress_d2ps. apply stress_shape; assumption. Qed.

Theorem split_partitions_C_Stress_d2 : proj_partition -> R_partition ->
  iso_compliance ((1 + v e) / E e) (v e * (1 + v e) / E e) -> cP_Stress_d2 A e + cM_Stress_d2 A e = C e.
Proof. intros. unfold cP_Stress_d2, cM_Stress_d2. apply stress_shape; assumption. Qed.

Theorem split_partitions_C_Stress_d3 : proj_partition -> R_partition ->
  iso_compliance (1 / (2 * mu e)) (v e / E e) -> cP_Stress_d3 A e + cM_Stress_d3 A e = C e.
Proof. intros. unfold cP_Stress_d3, cM_Stress_d3. apply stress_shape; assumption. Qed.

Theorem split_partitions_C_Zhang : proj_partition -> cP_Zhang A e + cM_Zhang A e = C e.
Proof. intros HP. unfold cP_Zhang, cM_Zhang. rewrite (prM HP). mat_ring. Qed.

Ltac strain_tac HP :=
  rewrite (prM HP); rewrite ?tp_sub, ?tp_1; mat_ring.

Theorem split_partitions_C_AnisotStrain : proj_partition -> cP_AnisotStrain A e + cM_AnisotStrain A e = C e.
Proof. intros HP. unfold cP_AnisotStrain, cM_AnisotStrain. strain_tac HP. Qed.
Theorem split_partitions_C_AnisotStrain_PM : proj_partition -> cP_AnisotStrain_PM A e + cM_AnisotStrain_PM A e = C e.
Proof. intros HP. unfold cP_AnisotStrain_PM, cM_AnisotStrain_PM. strain_tac HP. Qed.
Theorem split_partitions_C_AnisotStrain_MP : proj_partition -> cP_AnisotStrain_MP A e + cM_AnisotStrain_MP A e = C e.
Proof. intros HP. unfold cP_AnisotStrain_MP, cM_AnisotStrain_MP. strain_tac HP. Qed.
Theorem split_partitions_C_AnisotStrain_NoCross : proj_partition -> cP_AnisotStrain_NoCross A e + cM_AnisotStrain_NoCross A e = C e.
Proof. intros HP. unfold cP_AnisotStrain_NoCross, cM_AnisotStrain_NoCross. strain_tac HP. Qed.

Theorem split_partitions_C_AnisotStress : proj_partition -> sym_inverse_law -> cP_AnisotStress A e + cM_AnisotStress A e = C e.
Proof.
  intros HP HS. unfold cP_AnisotStress, cM_AnisotStress. rewrite (prM HP). rewrite ?tp_mul, ?tp_sub, ?tp_1.
  transitivity (tp (C e) * S e * C e); [mat_ring | exact HS].
Qed.
Theorem split_partitions_C_AnisotStress_PM : proj_partition -> sym_inverse_law -> cP_AnisotStress_PM A e + cM_AnisotStress_PM A e = C e.
Proof.
  intros HP HS. unfold cP_AnisotStress_PM, cM_AnisotStress_PM. rewrite (prM HP). rewrite ?tp_mul, ?tp_sub, ?tp_1.
  transitivity (tp (C e) * S e * C e); [mat_ring | exact HS].
Qed.
Theorem split_partitions_C_AnisotStress_MP : proj_partition -> sym_inverse_law -> cP_AnisotStress_MP A e + cM_AnisotStress_MP A e = C e.
Proof.
  intros HP HS. unfold cP_AnisotStress_MP, cM_AnisotStress_MP. rewrite (prM HP). rewrite ?tp_mul, ?tp_sub, ?tp_1.
  transitivity (tp (C e) * S e * C e); [mat_ring | exact HS].
Qed.
Theorem split_partitions_C_AnisotStress_NoCross : proj_partition -> sym_inverse_law -> cP_AnisotStress_NoCross A e + cM_AnisotStress_NoCross A e = C e.
Proof.
  intros HP HS. unfold cP_AnisotStress_NoCross, cM_AnisotStress_NoCross. rewrite (prM HP). rewrite ?tp_mul, ?tp_sub, ?tp_1.
  transitivity (tp (C e) * S e * C e); [mat_ring | exact HS].
Qed.

(* ---- stress and energy: any additive action of the algebra on vectors, any inner product
        additive in its second argument ---- *)
Variable V : Type.
Variable vadd : V -> V -> V.
Variable app : A -> V -> V.                 (* matrix @ vector *)
Variable ip : V -> V -> R.                  (* np.sum(u * v, -1) *)
Hypothesis app_add : forall x y u, app (x + y) u = vadd (app x u) (app y u).
Hypothesis ip_add_r : forall u a b, ip u (vadd a b) = (ip u a + ip u b)%R.

Theorem partition_gives_stress_and_energy : forall (cP cM : A) (eps : V),
  cP + cM = C e ->
  vadd (app cP eps) (app cM eps) = app (C e) eps /\
  (1 / 2 * ip eps (app cP eps) + 1 / 2 * ip eps (app cM eps) = 1 / 2 * ip eps (app (C e) eps))%R.
Proof.
  intros cP cM eps H. split.
  - rewrite <- app_add, H. reflexivity.
  - rewrite <- H, app_add, ip_add_r. lra.
Qed.
End Partition.

(* ---- non-vacuity: one environment over the 1x1 matrices satisfying every hypothesis used above
        (E = 1, v = 0: lamb = 0, mu = 1/2, C = S = 1; projP = 1, projM = 0; Rp = 1, Rm = 0) ---- *)
Definition ex_env : env RAlg :=
  mkEnv RAlg 1 1 1 1 1 1 0 1 0 0 (1 / 2) (1 / 2) 1 0 1 0 2.
Example hypotheses_satisfiable :
  proj_partition RAlg ex_env /\ projt_partition RAlg ex_env /\ R_partition RAlg ex_env /\ iso_law RAlg ex_env /\
  bulk_law RAlg ex_env /\ sqrt_law RAlg ex_env /\ sym_inverse_law RAlg ex_env /\ (dim ex_env <> 0) /\
  iso_compliance RAlg ex_env ((1 + v ex_env) / E ex_env) (v ex_env / E ex_env) /\
  iso_compliance RAlg ex_env ((1 + v ex_env) / E ex_env) (v ex_env * (1 + v ex_env) / E ex_env) /\
  iso_compliance RAlg ex_env (1 / (2 * mu ex_env)) (v ex_env / E ex_env).
Proof.
  unfold proj_partition, projt_partition, R_partition, iso_law, bulk_law, sqrt_law, sym_inverse_law,
    iso_compliance, src_bulk; simpl.
  repeat split; try lra; try (field; lra).
Qed.

Print Assumptions split_partitions_C_Bourdin.
Print Assumptions split_partitions_C_Amor.
Print Assumptions split_partitions_C_Miehe.
Print Assumptions split_partitions_C_He.
Print Assumptions split_partitions_C_Stress_d2ps.
Print Assumptions split_partitions_C_Stress_d2.
Print Assumptions split_partitions_C_Stress_d3.
Print Assumptions split_partitions_C_Zhang.
Print Assumptions split_partitions_C_AnisotStrain.
Print Assumptions split_partitions_C_AnisotStrain_PM.
Print Assumptions split_partitions_C_AnisotStrain_MP.
Print Assumptions split_partitions_C_AnisotStrain_NoCross.
Print Assumptions split_partitions_C_AnisotStress.
Print Assumptions split_partitions_C_AnisotStress_PM.
Print Assumptions split_partitions_C_AnisotStress_MP.
Print Assumptions split_partitions_C_AnisotStress_NoCross.
Print Assumptions partition_gives_stress_and_energy.
