(* C17 - 3-D assembly of the spectral projector projP (Kelvin-Mandel 6x6) in __Spectral_Decomposition.
   Regenerated from the source: the index maps p3_rI / p3_rJ, the scale table p3_scale, the entry formula
   p3_G of G_ab (gathers and swapaxes resolved to index pairs), the stacked pairs p3_pairs, theta_ab
   (p3_theta, p3_dv), the 3-D Kelvin-Mandel packing km3; the sums over the stacked axis
   (diag_sum, G_sum) are checked by statement templates and written out in projP3.
   Proved, for ANY spectral resolution (v_i, M_i) of a symmetric 3x3 tensor X - symmetric, idempotent,
   mutually orthogonal, rank-one (trace 1) projectors with X = sum v_i M_i, however the v_i were obtained:
     G_contracts              the 6x6 matrix of G_ab acts on vec(X) as the 4th-order tensor contraction
     projP3d_positive_part    projP @ vec(X) = vec( sum <v_i>+ M_i ), whatever the values of theta_ab
     projM3d_negative_part    projM @ vec(X) = vec( sum <v_i>- M_i ),  projP + projM = I
     projP3d_scale_invariant  projP, projM unchanged under v_i -> s v_i (s > 0): positive homogeneity
   The hypotheses hold on the generic branch (C17_generic3d.v); they do NOT hold for the two halves the
   routine makes of a rank-two eigenprojector (repeated non-zero principal value: finding proj:3d:two_eq). *)
From Coq Require Import Reals Lra Lia List.
From EFLib Require Import C17_MatAlg C17_Mat3.
From EFP Require Import Gen_Splits.
Local Open Scope R_scope.

Definition fm := nat -> nat -> R.
Definition sum3 (f : nat -> R) : R := f 0%nat + f 1%nat + f 2%nat.
Definition sum6 (f : nat -> R) : R := f 0%nat + f 1%nat + f 2%nat + f 3%nat + f 4%nat + f 5%nat.
Definition symf (X : fm) : Prop := X 1%nat 0%nat = X 0%nat 1%nat /\ X 2%nat 0%nat = X 0%nat 2%nat /\ X 2%nat 1%nat = X 1%nat 2%nat.

(* the 4th-order tensor behind G_ab, contracted with X *)
Definition Gmap (A B X : fm) (i j : nat) : R :=
  sum3 (fun k => sum3 (fun l => (A i k * B j l + A i l * B k j + B i k * A j l + B i l * A k j) * X k l)).

Lemma G_contracts : forall (A B X : fm) (r2 : R) (I : nat), r2 * r2 = 2 -> symf A -> symf B -> symf X -> (I < 6)%nat ->
  sum6 (fun J => p3_G A B r2 I J * km3 X r2 J) = km3 (Gmap A B X) r2 I.
Proof.
  intros A B X r2 I Hr [a1 [a2 a3]] [b1 [b2 b3]] [x1 [x2 x3]] HI.
  destruct I as [| [| [| [| [| [| I]]]]]]; [| | | | | | exfalso; lia];
    unfold sum6, p3_G, km3, Gmap, sum3, p3_scale, p3_rI, p3_rJ; simpl;
    rewrite ?a1, ?a2, ?a3, ?b1, ?b2, ?b3, ?x1, ?x2, ?x3; ring [Hr].
Qed.

(* ---- 3x3 records <-> index functions ---- *)
Definition fm_of (M : mat3) : fm := fun i j =>
  match i, j with
  | O, O => x11 M | O, Datatypes.S O => x12 M | O, _ => x13 M
  | Datatypes.S O, O => x21 M | Datatypes.S O, Datatypes.S O => x22 M | Datatypes.S O, _ => x23 M
  | _, O => x31 M | _, Datatypes.S O => x32 M | _, _ => x33 M
  end.
Definition tr_3 (M : mat3) : R := x11 M + x22 M + x33 M.

Lemma symf_of : forall M : mat3, tp3 M = M -> symf (fm_of M).
Proof. intros [] H. unfold tp3 in H; simpl in H. injection H as ??????. unfold symf, fm_of; simpl. repeat split; congruence. Qed.

Local Open Scope mat_scope.
Ltac m3 := intros; apply mat3_eq; simpl; ring.

Lemma Gmap_mat : forall (A B X : Mat3) (i j : nat), (i < 3)%nat -> (j < 3)%nat ->
  Gmap (fm_of A) (fm_of B) (fm_of X) i j
  = fm_of (A * X * tp B + A * tp X * B + B * X * tp A + B * tp X * A) i j.
Proof.
  intros [] [] [] i j Hi Hj.
  destruct i as [| [| [| i]]]; [| | | exfalso; lia]; destruct j as [| [| [| j]]]; try (exfalso; lia);
    unfold Gmap, sum3, fm_of; simpl; ring.
Qed.

Lemma sandwich_expand : forall (P Q M1 M2 M3 : Mat3) (v1 v2 v3 : R),
  P * (sc v1 * M1 + sc v2 * M2 + sc v3 * M3) * Q = sc v1 * (P * M1 * Q) + sc v2 * (P * M2 * Q) + sc v3 * (P * M3 * Q).
Proof. intros [] [] [] [] []. m3. Qed.
Lemma tp_comb : forall (M1 M2 M3 : Mat3) (v1 v2 v3 : R),
  tp (sc v1 * M1 + sc v2 * M2 + sc v3 * M3) = sc v1 * tp M1 + sc v2 * tp M2 + sc v3 * tp M3.
Proof. intros [] [] []. m3. Qed.
Lemma zero_l : forall M : Mat3, 0 * M = 0.  Proof. intros []. m3. Qed.
Lemma sc_zero : forall v : R, sc v * (0 : Mat3) = 0.  Proof. m3. Qed.
Lemma add_zero : (0 : Mat3) + 0 = 0.  Proof. m3. Qed.
Lemma tr_comb : forall (P M1 M2 M3 : Mat3) (v1 v2 v3 : R),
  tr_3 (P * (sc v1 * M1 + sc v2 * M2 + sc v3 * M3)) = Rplus (Rplus (Rmult v1 (tr_3 (P * M1))) (Rmult v2 (tr_3 (P * M2)))) (Rmult v3 (tr_3 (P * M3))).
Proof. intros [] [] [] []. intros. unfold tr_3; simpl. ring. Qed.
Lemma tr_zero : tr_3 (0 : Mat3) = 0%R.  Proof. unfold tr_3; simpl. ring. Qed.
(* Kelvin-Mandel inner product = Frobenius product = trace of the product (symmetric matrices) *)
Lemma km_inner : forall (P X : Mat3) (r2 : R), (r2 * r2 = 2)%R -> tp3 P = P -> tp3 X = X ->
  sum6 (fun J => km3 (fm_of P) r2 J * km3 (fm_of X) r2 J)%R = tr_3 (P * X).
Proof.
  intros [] [] r2 Hr HP HX. unfold tp3 in HP, HX; simpl in HP, HX. injection HP as ??????. injection HX as ??????. subst.
  unfold sum6, km3, fm_of, tr_3; simpl. ring [Hr].
Qed.

Lemma fm_of_zero : forall i j, fm_of (0 : Mat3) i j = 0%R.
Proof. intros [| [| i]] [| [| j]]; reflexivity. Qed.
Lemma km3_zero : forall (F : fm) (r2 : R) (I : nat), (forall i j, (i < 3)%nat -> (j < 3)%nat -> F i j = 0%R) -> km3 F r2 I = 0%R.
Proof.
  intros F r2 I H. unfold km3.
  destruct I as [| [| [| [| [| [| I]]]]]]; simpl; rewrite ?H by lia; try ring. destruct I; reflexivity.
Qed.
Lemma km3_comb : forall (M1 M2 M3 : Mat3) (w1 w2 w3 r2 : R) (I : nat),
  km3 (fm_of (sc w1 * M1 + sc w2 * M2 + sc w3 * M3)) r2 I
  = Rplus (Rplus (Rmult w1 (km3 (fm_of M1) r2 I)) (Rmult w2 (km3 (fm_of M2) r2 I))) (Rmult w3 (km3 (fm_of M3) r2 I)).
Proof.
  intros [] [] [] w1 w2 w3 r2 I. unfold km3.
  destruct I as [| [| [| [| [| [| I]]]]]]; simpl; try ring. destruct I; simpl; ring.
Qed.
Lemma hvs_valp3 : forall l, (p2_dvalp l * l = p2_valp l)%R.
Proof.
  intro l. unfold p2_dvalp, p2_valp, hvs, Rabs.
  destruct (Rlt_dec l 0); destruct (Rlt_dec 0 l); destruct (Rcase_abs l); lra.
Qed.

(* what the 3-D branch of __Spectral_Decomposition assembles (sums over the stacked axis written out) *)
Definition theta3 (va vb : R) : R := p3_theta (p2_valp va) (p2_valp vb) (p3_dv va vb).
Definition projP3 (v1 v2 v3 : R) (M1 M2 M3 : Mat3) (r2 : R) (I J : nat) : R :=
  (p2_dvalp v1 * (km3 (fm_of M1) r2 I * km3 (fm_of M1) r2 J)
   + p2_dvalp v2 * (km3 (fm_of M2) r2 I * km3 (fm_of M2) r2 J)
   + p2_dvalp v3 * (km3 (fm_of M3) r2 I * km3 (fm_of M3) r2 J)
   + (theta3 v1 v2 * p3_G (fm_of M1) (fm_of M2) r2 I J
      + theta3 v1 v3 * p3_G (fm_of M1) (fm_of M3) r2 I J
      + theta3 v2 v3 * p3_G (fm_of M2) (fm_of M3) r2 I J))%R.
Definition projM3 (v1 v2 v3 : R) (M1 M2 M3 : Mat3) (r2 : R) (I J : nat) : R :=
  ((if Nat.eqb I J then 1 else 0) - projP3 v1 v2 v3 M1 M2 M3 r2 I J)%R.
(* the pairs (a, b) of the stacked G_ab are those used above *)
Example p3_pairs_as_modelled : p3_pairs = (0%nat, 1%nat) :: (0%nat, 2%nat) :: (1%nat, 2%nat) :: nil.
Proof. reflexivity. Qed.

Section Resolution3.
Variables M1 M2 M3 : Mat3.
Variables v1 v2 v3 r2 : R.
Hypothesis Hr : (r2 * r2 = 2)%R.
Hypothesis S1 : tp M1 = M1.  Hypothesis S2 : tp M2 = M2.  Hypothesis S3 : tp M3 = M3.
Hypothesis I1 : M1 * M1 = M1.  Hypothesis I2 : M2 * M2 = M2.  Hypothesis I3 : M3 * M3 = M3.
Hypothesis O12 : M1 * M2 = 0.  Hypothesis O21 : M2 * M1 = 0.
Hypothesis O13 : M1 * M3 = 0.  Hypothesis O31 : M3 * M1 = 0.
Hypothesis O23 : M2 * M3 = 0.  Hypothesis O32 : M3 * M2 = 0.
Hypothesis T1 : tr_3 M1 = 1%R.  Hypothesis T2 : tr_3 M2 = 1%R.  Hypothesis T3 : tr_3 M3 = 1%R.
Let X : Mat3 := sc v1 * M1 + sc v2 * M2 + sc v3 * M3.

Lemma Xsym : tp X = X.
Proof. unfold X. rewrite tp_comb, S1, S2, S3. reflexivity. Qed.

Ltac kill := unfold X; rewrite !sandwich_expand;
  repeat rewrite ?I1, ?I2, ?I3, ?O12, ?O21, ?O13, ?O31, ?O23, ?O32, ?zero_l, ?sc_zero, ?add_zero.

Lemma G12_vanishes : forall i j, (i < 3)%nat -> (j < 3)%nat -> Gmap (fm_of M1) (fm_of M2) (fm_of X) i j = 0%R.
Proof. intros i j Hi Hj. rewrite Gmap_mat by assumption. rewrite Xsym, S1, S2. kill. apply fm_of_zero. Qed.
Lemma G13_vanishes : forall i j, (i < 3)%nat -> (j < 3)%nat -> Gmap (fm_of M1) (fm_of M3) (fm_of X) i j = 0%R.
Proof. intros i j Hi Hj. rewrite Gmap_mat by assumption. rewrite Xsym, S1, S3. kill. apply fm_of_zero. Qed.
Lemma G23_vanishes : forall i j, (i < 3)%nat -> (j < 3)%nat -> Gmap (fm_of M2) (fm_of M3) (fm_of X) i j = 0%R.
Proof. intros i j Hi Hj. rewrite Gmap_mat by assumption. rewrite Xsym, S2, S3. kill. apply fm_of_zero. Qed.

Ltac inner := rewrite km_inner by (exact Hr || assumption || exact Xsym); unfold X; rewrite tr_comb;
  rewrite ?I1, ?I2, ?I3, ?O12, ?O21, ?O13, ?O31, ?O23, ?O32, ?tr_zero, ?T1, ?T2, ?T3; ring.
Lemma inner1 : sum6 (fun J => km3 (fm_of M1) r2 J * km3 (fm_of X) r2 J)%R = v1.  Proof. inner. Qed.
Lemma inner2 : sum6 (fun J => km3 (fm_of M2) r2 J * km3 (fm_of X) r2 J)%R = v2.  Proof. inner. Qed.
Lemma inner3 : sum6 (fun J => km3 (fm_of M3) r2 J * km3 (fm_of X) r2 J)%R = v3.  Proof. inner. Qed.

(* the assembled projP maps vec(A) to vec of the positive part, whatever the values of theta_ab *)
Theorem projP3d_positive_part : forall I : nat, (I < 6)%nat ->
  sum6 (fun J => projP3 v1 v2 v3 M1 M2 M3 r2 I J * km3 (fm_of X) r2 J)%R
  = km3 (fm_of (sc (p2_valp v1) * M1 + sc (p2_valp v2) * M2 + sc (p2_valp v3) * M3)) r2 I.
Proof.
  intros I HI.
  pose proof (symf_of X Xsym) as sX. pose proof (symf_of M1 S1) as s1. pose proof (symf_of M2 S2) as s2. pose proof (symf_of M3 S3) as s3.
  transitivity (p2_dvalp v1 * km3 (fm_of M1) r2 I * sum6 (fun J => km3 (fm_of M1) r2 J * km3 (fm_of X) r2 J)
              + p2_dvalp v2 * km3 (fm_of M2) r2 I * sum6 (fun J => km3 (fm_of M2) r2 J * km3 (fm_of X) r2 J)
              + p2_dvalp v3 * km3 (fm_of M3) r2 I * sum6 (fun J => km3 (fm_of M3) r2 J * km3 (fm_of X) r2 J)
              + theta3 v1 v2 * sum6 (fun J => p3_G (fm_of M1) (fm_of M2) r2 I J * km3 (fm_of X) r2 J)
              + theta3 v1 v3 * sum6 (fun J => p3_G (fm_of M1) (fm_of M3) r2 I J * km3 (fm_of X) r2 J)
              + theta3 v2 v3 * sum6 (fun J => p3_G (fm_of M2) (fm_of M3) r2 I J * km3 (fm_of X) r2 J))%R.
  { unfold sum6, projP3. ring. }
  rewrite inner1, inner2, inner3.
  rewrite !G_contracts by assumption.
  rewrite (km3_zero _ r2 I G12_vanishes), (km3_zero _ r2 I G13_vanishes), (km3_zero _ r2 I G23_vanishes).
  rewrite km3_comb, <- !hvs_valp3. ring.
Qed.

Theorem projP3d_projM3d_partition : forall I J, (projP3 v1 v2 v3 M1 M2 M3 r2 I J + projM3 v1 v2 v3 M1 M2 M3 r2 I J)%R = (if Nat.eqb I J then 1 else 0)%R.
Proof. intros. unfold projM3. ring. Qed.
End Resolution3.

Definition comb3 (v1 v2 v3 : R) (M1 M2 M3 : Mat3) : Mat3 := sc v1 * M1 + sc v2 * M2 + sc v3 * M3.

(* negative part through projM = I - projP *)
Definition valm3 (l : R) : R := (l - Rabs l) / 2.
Lemma projM3_apply : forall (v1 v2 v3 : R) (M1 M2 M3 : Mat3) (r2 : R) (x : nat -> R) (I : nat), (I < 6)%nat ->
  sum6 (fun J => projM3 v1 v2 v3 M1 M2 M3 r2 I J * x J)%R = (x I - sum6 (fun J => projP3 v1 v2 v3 M1 M2 M3 r2 I J * x J))%R.
Proof.
  intros. unfold projM3, sum6.
  destruct I as [| [| [| [| [| [| I]]]]]]; [| | | | | | exfalso; lia]; simpl; ring.
Qed.

Theorem projM3d_negative_part : forall (M1 M2 M3 : Mat3) (v1 v2 v3 r2 : R),
  (r2 * r2 = 2)%R -> tp M1 = M1 -> tp M2 = M2 -> tp M3 = M3 ->
  M1 * M1 = M1 -> M2 * M2 = M2 -> M3 * M3 = M3 ->
  M1 * M2 = 0 -> M2 * M1 = 0 -> M1 * M3 = 0 -> M3 * M1 = 0 -> M2 * M3 = 0 -> M3 * M2 = 0 ->
  tr_3 M1 = 1%R -> tr_3 M2 = 1%R -> tr_3 M3 = 1%R ->
  forall I : nat, (I < 6)%nat ->
  sum6 (fun J => projM3 v1 v2 v3 M1 M2 M3 r2 I J * km3 (fm_of (comb3 v1 v2 v3 M1 M2 M3)) r2 J)%R
  = km3 (fm_of (comb3 (valm3 v1) (valm3 v2) (valm3 v3) M1 M2 M3)) r2 I.
Proof.
  intros M1 M2 M3 v1 v2 v3 r2 Hr S1 S2 S3 I1 I2 I3 O12 O21 O13 O31 O23 O32 T1 T2 T3 I HI.
  unfold comb3. rewrite projM3_apply by exact HI.
  rewrite (projP3d_positive_part M1 M2 M3 v1 v2 v3 r2 Hr S1 S2 S3 I1 I2 I3 O12 O21 O13 O31 O23 O32 T1 T2 T3 I HI).
  rewrite !km3_comb. unfold valm3, p2_valp. field.
Qed.

(* ---- positive homogeneity: the eigenvalues scale, the eigenprojectors do not ---- *)
Lemma valp_scale3 : forall s l, 0 < s -> p2_valp (s * l) = (s * p2_valp l)%R.
Proof. intros s l Hs. unfold p2_valp. rewrite Rabs_mult, (Rabs_right s) by lra. field. Qed.
Lemma dvalp_scale3 : forall s l, 0 < s -> p2_dvalp (s * l) = p2_dvalp l.
Proof.
  intros s l Hs. unfold p2_dvalp, hvs.
  destruct (Rlt_dec (s * l) 0); destruct (Rlt_dec 0 (s * l)); destruct (Rlt_dec l 0); destruct (Rlt_dec 0 l);
    try reflexivity; exfalso; nra.
Qed.
Lemma theta3_scale : forall s la lb, 0 < s -> theta3 (s * la) (s * lb) = theta3 la lb.
Proof.
  intros s la lb Hs. unfold theta3. rewrite !valp_scale3 by exact Hs. unfold p3_theta, p3_dv.
  destruct (Req_EM_T (s * la - s * lb) 0) as [E | N]; destruct (Req_EM_T (la - lb) 0) as [E' | N'].
  - assert (la = lb) by lra. subst. field.
  - exfalso. apply N'. apply (Rmult_eq_reg_l s); lra.
  - exfalso. apply N. rewrite <- Rmult_minus_distr_l, E'. ring.
  - field. split; [exact N' | lra].
Qed.

Theorem projP3d_scale_invariant : forall (s v1 v2 v3 r2 : R) (M1 M2 M3 : Mat3) (I J : nat), 0 < s ->
  projP3 (s * v1) (s * v2) (s * v3) M1 M2 M3 r2 I J = projP3 v1 v2 v3 M1 M2 M3 r2 I J /\
  projM3 (s * v1) (s * v2) (s * v3) M1 M2 M3 r2 I J = projM3 v1 v2 v3 M1 M2 M3 r2 I J.
Proof.
  intros s v1 v2 v3 r2 M1 M2 M3 I J Hs.
  assert (H : projP3 (s * v1) (s * v2) (s * v3) M1 M2 M3 r2 I J = projP3 v1 v2 v3 M1 M2 M3 r2 I J).
  { unfold projP3. rewrite !dvalp_scale3, !theta3_scale by exact Hs. reflexivity. }
  split; [exact H | unfold projM3; rewrite H; reflexivity].
Qed.

(* non-vacuity: the coordinate projectors, r2 = sqrt 2 *)
Example resolution3_hypotheses_satisfiable :
  let E1 : Mat3 := mk3 1 0 0 0 0 0 0 0 0 in let E2 : Mat3 := mk3 0 0 0 0 1 0 0 0 0 in let E3 : Mat3 := mk3 0 0 0 0 0 0 0 0 1 in
  (sqrt 2 * sqrt 2 = 2)%R /\ tp E1 = E1 /\ tp E2 = E2 /\ tp E3 = E3 /\ E1 * E1 = E1 /\ E2 * E2 = E2 /\ E3 * E3 = E3 /\
  E1 * E2 = 0 /\ E2 * E1 = 0 /\ E1 * E3 = 0 /\ E3 * E1 = 0 /\ E2 * E3 = 0 /\ E3 * E2 = 0 /\
  tr_3 E1 = 1%R /\ tr_3 E2 = 1%R /\ tr_3 E3 = 1%R.
Proof.
  simpl. split; [apply sqrt_sqrt; lra |].
  repeat split; try (apply mat3_eq; simpl; ring); unfold tr_3; simpl; ring.
Qed.

Print Assumptions G_contracts.
Print Assumptions projP3d_positive_part.
Print Assumptions projM3d_negative_part.
Print Assumptions projP3d_scale_invariant.
