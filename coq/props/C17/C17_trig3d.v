(* C17 - 3-D, generic branch: the trigonometric (Lode angle) eigenvalue formulas of the source ARE the
   roots of the characteristic polynomial.  For any reals I1, I2, I3 with g = I1^2 - 3 I2 > 0 and Lode argument
   arg = argnum / sqrt(g)^3 in [-1, 1], with theta = (1/3) acos(clip arg) and the three values
   e3c1_val1..3 (all regenerated from the source), Vieta's relations hold:
       v1 + v2 + v3 = I1,   v1 v2 + v1 v3 + v2 v3 = I2,   v1 v2 v3 = I3
   (triple-angle identity 4 cos^3 t - 3 cos t = cos 3t), and v1 < v2 < v3 when -1 < arg < 1.
   Composed with C17_generic3d: for every real symmetric 3x3 X with g > 0 and |arg| < 1 the routine's values and
   Sylvester projectors are a spectral resolution and the assembled projP / projM give the positive / negative
   part.  Over the reals; g ** (3/2) is modelled as sqrt(g)^3; which branch the floating-point comparison of
   theta with 0 and pi/3 (tolerance tol_theta) selects is not modelled. *)
From Coq Require Import Reals Lra Lia Psatz Nsatz List.
From EFLib Require Import C17_MatAlg C17_Mat3.
From EFP Require Import Gen_Splits.
Local Open Scope R_scope.

Lemma cos_3a : forall t, cos (3 * t) = 4 * (cos t * cos t * cos t) - 3 * cos t.
Proof.
  intro t. replace (3 * t) with (2 * t + t) by ring. rewrite cos_plus, cos_2a, sin_2a.
  pose proof (sin2_cos2 t) as H. unfold Rsqr in H.
  replace (sin t * sin t) with (1 - cos t * cos t) by lra.
  replace (2 * sin t * cos t * sin t) with (2 * cos t * (sin t * sin t)) by ring.
  replace (sin t * sin t) with (1 - cos t * cos t) by lra. ring.
Qed.

Lemma sqrt3_sq : sqrt 3 * sqrt 3 = 3.
Proof. apply sqrt_sqrt. lra. Qed.

Lemma cos_shift_plus : forall t, cos (2 * PI / 3 + t) = - cos t / 2 - sqrt 3 / 2 * sin t.
Proof. intro t. replace (2 * PI / 3) with (2 * (PI / 3)) by field. rewrite cos_plus, cos_2PI3, sin_2PI3. field. Qed.
Lemma cos_shift_minus : forall t, cos (2 * PI / 3 - t) = - cos t / 2 + sqrt 3 / 2 * sin t.
Proof. intro t. replace (2 * PI / 3) with (2 * (PI / 3)) by field. rewrite cos_minus, cos_2PI3, sin_2PI3. field. Qed.

Section Trig.
Variables I1 I2 I3 : R.
Hypothesis Hg : 0 < e3_g I1 I2.
Let sg : R := sqrt (e3_g I1 I2).
Let arg : R := e3_argnum I1 I2 I3 / (sg ^ 3).
Hypothesis Harg : -1 <= arg <= 1.
Let th : R := e3_theta (e3_clip arg).
Let v1 : R := e3c1_val1 I1 sg th.
Let v2 : R := e3c1_val2 I1 sg th.
Let v3 : R := e3c1_val3 I1 sg th.

Lemma sg_pos : 0 < sg.
Proof. unfold sg. apply sqrt_lt_R0. exact Hg. Qed.
Lemma sg_sq : sg * sg = I1 * I1 - 3 * I2.
Proof. unfold sg. rewrite sqrt_sqrt by lra. unfold e3_g. ring. Qed.
Lemma clip_id : e3_clip arg = arg.
Proof. unfold e3_clip; try (rewrite Rmin_left by lra; rewrite Rmax_right by lra); reflexivity. Qed.
Lemma three_theta : 3 * th = acos arg.
Proof. unfold th, e3_theta. rewrite clip_id. field. Qed.
Lemma cos_3theta : 4 * (cos th * cos th * cos th) - 3 * cos th = arg.
Proof. rewrite <- cos_3a, three_theta. apply cos_acos. exact Harg. Qed.
Lemma arg_sg3 : arg * (sg * sg * sg) = e3_argnum I1 I2 I3.
Proof. unfold arg. pose proof sg_pos. field. lra. Qed.

Theorem trig_values_are_roots :
  v1 + v2 + v3 = I1 /\ v1 * v2 + v1 * v3 + v2 * v3 = I2 /\ v1 * v2 * v3 = I3.
Proof.
  unfold v1, v2, v3, e3c1_val1, e3c1_val2, e3c1_val3.
  replace (2 * PI / 3 + th) with (2 * PI / 3 + th) by reflexivity.
  rewrite cos_shift_plus, cos_shift_minus.
  pose proof sg_sq as Hs. pose proof cos_3theta as H3. pose proof arg_sg3 as Ha. unfold e3_argnum in Ha.
  pose proof (sin2_cos2 th) as Hsc. unfold Rsqr in Hsc. pose proof sqrt3_sq as H33.
  set (c := cos th) in *. set (s := sin th) in *. set (r := sqrt 3) in *. clearbody c s r.
  clear v1 v2 v3 th. 
  repeat split.
  - field.
  - transitivity (I1 * I1 / 3 - (sg * sg) / 3 * (s * s + c * c) + (sg * sg) / 9 * (3 - r * r) * (s * s)); [field |].
    rewrite Hsc, H33, Hs. field.
  - transitivity (I1 * I1 * I1 / 27
                  + (I1 / 3) * (- (sg * sg) / 3 * (s * s + c * c) + (sg * sg) / 9 * (3 - r * r) * (s * s))
                  + (2 / 27) * ((4 * (c * c * c) - 3 * c) * (sg * sg * sg)
                                + (sg * sg * sg) * (c * (s * s) * (3 - r * r) + 3 * c * (1 - (s * s + c * c))))); [field |].
    rewrite H3, Ha, Hsc, H33, Hs. field.
Qed.
End Trig.

(* strict bounds: three distinct, ordered values *)
Section TrigStrict.
Variables I1 I2 I3 : R.
Hypothesis Hg : 0 < e3_g I1 I2.
Let sg : R := sqrt (e3_g I1 I2).
Let arg : R := e3_argnum I1 I2 I3 / (sg ^ 3).
Hypothesis Harg : -1 < arg < 1.
Let th : R := e3_theta (e3_clip arg).

Lemma theta_range : 0 < th < PI / 3.
Proof.
  assert (Hle : -1 <= arg <= 1) by lra.
  pose proof (three_theta I1 I2 I3 Hle) as H3. fold sg in H3. fold arg in H3. fold th in H3.
  pose proof (acos_bound arg) as [Hb0 Hb1]. pose proof (cos_acos arg Hle) as Hc.
  assert (acos arg <> 0). { intro E. rewrite E, cos_0 in Hc. lra. }
  assert (acos arg <> PI). { intro E. rewrite E, cos_PI in Hc. lra. }
  split; lra.
Qed.

Theorem trig_values_ordered :
  e3c1_val1 I1 sg th < e3c1_val2 I1 sg th /\ e3c1_val2 I1 sg th < e3c1_val3 I1 sg th.
Proof.
  destruct theta_range as [T0 T1]. pose proof PI_RGT_0 as Hpi.
  assert (Hs : 0 < sin th) by (apply sin_gt_0; lra).
  assert (Hd : 0 < sin (PI / 3 - th)) by (apply sin_gt_0; lra).
  rewrite sin_minus, sin_PI3, cos_PI3 in Hd.
  pose proof (sg_pos I1 I2 Hg) as Hsg. fold sg in Hsg. pose proof Rlt_sqrt3_0 as H3.
  unfold e3c1_val1, e3c1_val2, e3c1_val3. rewrite cos_shift_plus, cos_shift_minus.
  assert (P1 : 0 < sg * (sqrt 3 * sin th)) by (apply Rmult_lt_0_compat; [lra | apply Rmult_lt_0_compat; lra]).
  assert (P2 : 0 < sg * (sqrt 3 * (sqrt 3 / 2 * cos th - 1 / 2 * sin th))) by (apply Rmult_lt_0_compat; [lra | apply Rmult_lt_0_compat; lra]).
  pose proof sqrt3_sq as H33.
  split.
  - apply Rminus_gt_0_lt.
    replace (I1 / 3 + 2 / 3 * sg * (- cos th / 2 + sqrt 3 / 2 * sin th) - (I1 / 3 + 2 / 3 * sg * (- cos th / 2 - sqrt 3 / 2 * sin th)))
      with (2 / 3 * (sg * (sqrt 3 * sin th))) by field. lra.
  - apply Rminus_gt_0_lt.
    replace (I1 / 3 + 2 / 3 * sg * cos th - (I1 / 3 + 2 / 3 * sg * (- cos th / 2 + sqrt 3 / 2 * sin th)))
      with (2 / 3 * (sg * (sqrt 3 * sqrt 3 / 2 * cos th - sqrt 3 / 2 * sin th))) by (rewrite H33; field).
    replace (sg * (sqrt 3 * sqrt 3 / 2 * cos th - sqrt 3 / 2 * sin th)) with (sg * (sqrt 3 * (sqrt 3 / 2 * cos th - 1 / 2 * sin th))) by field.
    lra.
Qed.
End TrigStrict.

Print Assumptions trig_values_are_roots.
Print Assumptions trig_values_ordered.

(* non-vacuity: diag(1,2,3): I1 = 6, I2 = 11, I3 = 6, g = 3, argnum = 0, arg = 0 *)
Example trig_hypotheses_satisfiable :
  0 < e3_g 6 11 /\ -1 < e3_argnum 6 11 6 / (sqrt (e3_g 6 11) ^ 3) < 1.
Proof.
  assert (Hg : e3_g 6 11 = 3) by (unfold e3_g; ring). assert (Ha : e3_argnum 6 11 6 = 0) by (unfold e3_argnum; ring).
  rewrite Hg, Ha. split; [lra |]. unfold Rdiv. rewrite Rmult_0_l. lra.
Qed.
