(* C19_main.v — property theorems for C19 (history-dependent material integration).
   Gen_C19.v is regenerated from /repo on every run; the first block proves that what the source
   says NOW is the hand-written model the theorems are about; the second block restates the
   model theorems (proved in EFModel.C19_Return1D_proofs / EFModel.C19_Commit). *)
From Coquelicot Require Import Coquelicot.
From Coq Require Import Reals List Lra Bool.
From EFModel Require Import C19_Return1D C19_Return1D_proofs C19_Commit C19_Lift C19_PlaneStress C19_Radial C19_Tangent C19_Units C19_KuhnTucker C19_Tangent2 C19_Unique C19_UniqueGen C19_Exist C19_RadialNewton.
From EFP Require Import Gen_C19.
Import List ListNotations.
Open Scope R_scope.

(* ------------------------------------------------------------------------------------------ *)
(* A. the translated source IS the model                                                       *)
(* ------------------------------------------------------------------------------------------ *)
Ltac same := intros; first [ reflexivity
  | unfold_gen; repeat first [ reflexivity | progress f_equal | ring | field ] ]
with unfold_gen := unfold gen_wterm, gen_wldterm, gen_phi, gen_dphi, gen_theta_next_norate,
  gen_theta_next_rate, gen_small_norate, gen_small_rate, gen_dGamma_norate, gen_dGamma_rate,
  gen_active, gen_sig_eig.

Theorem gen_Phi_terms_match : forall lam y theta,
    gen_wterm lam y theta = wterm Rops lam y (dfac Rops theta lam) /\
    gen_wldterm lam y theta = omul Rops (omul Rops (wterm Rops lam y (dfac Rops theta lam)) lam) (dfac Rops theta lam).
Proof. intros; split; reflexivity. Qed.

Theorem gen_Phi_match : forall ps theta,
    gen_phi (sumw Rops ps theta) = phi Rops ps theta /\
    gen_dphi (sumw Rops ps theta) (sumwld Rops ps theta) = dphi Rops ps theta.
Proof. intros; split; reflexivity. Qed.

(* the loop body: next theta (clamp + frozen active set) and the break test, without rate law *)
Theorem gen_update_match_norate : forall Rh dRh sy tol dt pt act th,
    let p := phi Rops (pairs pt) th in let dp := dphi Rops (pairs pt) th in
    gen_theta_next_norate act th p dp (pOld pt) sy tol Rh dRh
      = next_v Rops act th (body Rops Rh dRh None dt sy pt th) /\
    gen_small_norate act th p dp (pOld pt) sy tol Rh dRh
      = small_v Rops sy tol act (fst (body Rops Rh dRh None dt sy pt th)).
Proof.
  intros. rewrite body_spec. subst p dp. unfold gen_theta_next_norate, gen_small_norate.
  unfold next_v, small_v, resid, drdth, resid_of, drdth_of, slope_of, overstress, overslope. cbn [fst snd].
  change (o0 Rops) with 0. change (osub Rops) with Rminus. change (oadd Rops) with Rplus.
  change (omul Rops) with Rmult. change (odiv Rops) with Rdiv. change (omax Rops) with Rmax.
  change (oabs Rops) with Rabs. change (oltb Rops) with Rltb. change (ornd Rops) with (fun x : R => x).
  cbv beta. rewrite !Rminus_0_r, !Rplus_0_r. split; reflexivity.
Qed.

(* ... and with a rate law (inverse, dinverse) *)
Theorem gen_update_match_rate : forall Rh dRh rinv rdinv sy tol dt pt act th,
    let p := phi Rops (pairs pt) th in let dp := dphi Rops (pairs pt) th in
    gen_theta_next_rate act th p dp (pOld pt) sy dt tol Rh dRh rinv rdinv
      = next_v Rops act th (body Rops Rh dRh (Some (rinv, rdinv)) dt sy pt th) /\
    gen_small_rate act th p dp (pOld pt) sy dt tol Rh dRh rinv rdinv
      = small_v Rops sy tol act (fst (body Rops Rh dRh (Some (rinv, rdinv)) dt sy pt th)).
Proof.
  intros. rewrite body_spec. subst p dp. split; reflexivity.
Qed.

Theorem gen_active_match : forall Rh sy pt,
    gen_active (phi Rops (pairs pt) 0) (pOld pt) sy Rh = active Rops Rh sy pt.
Proof. reflexivity. Qed.

Theorem gen_outputs_match : forall pt th l y,
    gen_dGamma_norate th (phi Rops (pairs pt) th) = dGam Rops pt th /\
    gen_dGamma_rate th (phi Rops (pairs pt) th) = dGam Rops pt th /\
    gen_sig_eig y l th = omul Rops y (dfac Rops th l).
Proof. intros; repeat split; reflexivity. Qed.

(* the pre-loop iterate: 0 in the pinned source; with a rate law possibly a non-negative estimate
   c * dt * rate(f_trial) / phi0 (c in (0,1] from a pull-back loop).  Either way it is an instance
   of the model's `start`, and it is non-negative -- the hypothesis of the theorems below. *)
Theorem gen_start_match : forall c dt Rh rr sy, 0 <= c -> 0 <= dt -> (forall x, 0 <= rr x) ->
    exists start, (forall p0 f, 0 <= start p0 f) /\
      forall pt, gen_start_rate c (phi Rops (pairs pt) 0) (pOld pt) sy dt Rh rr = theta0 Rops Rh sy start pt /\
                 gen_start_norate c (phi Rops (pairs pt) 0) (pOld pt) sy dt Rh rr
                 = theta0 Rops Rh sy (fun _ _ => 0) pt.
Proof.
  intros c dt Rh rr sy Hc Hdt Hrr.
  first
    [ solve [ exists (fun _ _ => 0); split; [intros; lra|];
              intro pt; unfold gen_start_rate, gen_start_norate, theta0;
              destruct (active Rops Rh sy pt); split; reflexivity ]
    | solve [ exists (fun p0 f => c * (dt * rr f / (if Rltb 0 p0 then p0 else 1))); split;
              [ intros p0 f; apply Rmult_le_pos; [assumption|]; unfold Rdiv; apply Rmult_le_pos;
                [ apply Rmult_le_pos; [assumption | apply Hrr]
                | destruct (Rltb 0 p0) eqn:E;
                  [ apply Rltb_true in E; left; apply Rinv_0_lt_compat; assumption
                  | rewrite Rinv_1; lra ] ]
              | intro pt; unfold gen_start_rate, gen_start_norate, theta0, active, ftrial;
                change (oltb Rops) with Rltb; change (osub Rops) with Rminus; change (o0 Rops) with 0;
                destruct (Rltb 0 (phi Rops (pairs pt) 0 - sy - Rh (pOld pt))); split;
                first [reflexivity | ring] ] ] ].
Qed.

(* the plane-stress outer loop: the translated per-point break test and eps_zz update are the
   model's.  (Gen_C19.v exists only if the source's test has the form np.max(<per-point>) < tol:
   a test that does not bound every point, e.g. abs(max(r)), is a translation error.) *)
Theorem gen_plane_stress_match : forall (Pt : Type) (szz czz : Pt -> R -> R) tol pt e,
    gen_ps_small (szz pt e) tol = ps_small Pt szz tol (pt, e) /\
    gen_ps_update e (szz pt e) (czz pt e) = snd (ps_update Pt szz czz (pt, e)).
Proof. intros; split; reflexivity. Qed.

(* _spectral.Tangent reduces to  T [diag(d) + a (x) b] Ti C  (translator, C symmetric); the two
   rank-one factors and the diagonal are the hand-transcribed ones, and the stored d is dfac *)
Theorem gen_tangent_match : forall lam y d theta slope drdtheta phi active,
    gen_tan_diag d = d /\
    gen_tan_a lam y d theta slope drdtheta active = tan_a lam y d theta slope drdtheta active /\
    gen_tan_b lam y d phi = tan_b lam y d phi /\
    gen_ret_d lam theta = dfac Rops theta lam.
Proof. intros; repeat split; reflexivity. Qed.

(* the shipped hardening laws, translated from IsotropicHardening.py: under the constructor's own
   assertions R is non-decreasing (the hypothesis of the uniqueness / agreement theorems), R(0) = 0,
   R is the derivative of the stored energy psi and dR the derivative of R *)
Theorem gen_linear_hardening : forall H, 0 <= H ->
    (forall x y, x <= y -> gen_linear_R H x <= gen_linear_R H y) /\ gen_linear_R H 0 = 0 /\
    (forall x, is_derive (gen_linear_psi H) x (gen_linear_R H x)) /\
    (forall x, is_derive (gen_linear_R H) x (gen_linear_dR H x)).
Proof.
  intros H HH. unfold gen_linear_R, gen_linear_psi, gen_linear_dR. split; [|split; [|split]].
  - intros x y Hxy. apply Rmult_le_compat_l; assumption.
  - ring.
  - intro x. auto_derive; [exact I | field].
  - intro x. auto_derive; [exact I | field].
Qed.

(* canonical forms: the translated Voce lambdas are compared up to ring/field rewriting of the
   exponent and of the outer expression, so equivalent spellings of the source do not matter *)
Definition voce_psi (Q b x : R) : R := Q * (x + exp (- (b * x)) / b - 1 / b).
Definition voce_R (Q b x : R) : R := Q * (1 - exp (- (b * x))).
Definition voce_dR (Q b x : R) : R := Q * b * exp (- (b * x)).

Ltac norm_exp b x := repeat match goal with
  | |- context [exp ?a] => progress (replace a with (- (b * x)) by ring)
  end.

Lemma gen_voce_canonical : forall Q b x, 0 < b ->
    gen_voce_psi Q b x = voce_psi Q b x /\ gen_voce_R Q b x = voce_R Q b x /\ gen_voce_dR Q b x = voce_dR Q b x.
Proof.
  intros Q b x Hb. unfold gen_voce_psi, gen_voce_R, gen_voce_dR, voce_psi, voce_R, voce_dR.
  split; [|split]; norm_exp b x; [field; lra | ring | ring].
Qed.

Theorem gen_voce_hardening : forall Q b, 0 <= Q -> 0 < b ->
    (forall x y, x <= y -> gen_voce_R Q b x <= gen_voce_R Q b y) /\ gen_voce_R Q b 0 = 0 /\
    (forall x, is_derive (gen_voce_psi Q b) x (gen_voce_R Q b x)) /\
    (forall x, is_derive (gen_voce_R Q b) x (gen_voce_dR Q b x)).
Proof.
  intros Q b HQ Hb.
  assert (ER : forall x, gen_voce_R Q b x = voce_R Q b x) by (intro x; apply (gen_voce_canonical Q b x Hb)).
  assert (EP : forall x, gen_voce_psi Q b x = voce_psi Q b x) by (intro x; apply (gen_voce_canonical Q b x Hb)).
  assert (ED : forall x, gen_voce_dR Q b x = voce_dR Q b x) by (intro x; apply (gen_voce_canonical Q b x Hb)).
  split; [|split; [|split]].
  - intros x y Hxy. rewrite (ER x), (ER y). unfold voce_R. apply Rmult_le_compat_l; [assumption|].
    assert (exp (- (b * y)) <= exp (- (b * x))).
    { destruct (Rle_lt_or_eq_dec _ _ Hxy) as [Hlt | ->]; [|lra].
      left. apply exp_increasing. nra. }
    lra.
  - rewrite ER. unfold voce_R. replace (- (b * 0)) with 0 by ring. rewrite exp_0. ring.
  - intro x. rewrite ER. apply (is_derive_ext (voce_psi Q b)); [intro t; symmetry; apply EP|].
    unfold voce_psi, voce_R. auto_derive; [lra | field; lra].
  - intro x. rewrite ED. apply (is_derive_ext (voce_R Q b)); [intro t; symmetry; apply ER|].
    unfold voce_R, voce_dR. auto_derive; [exact I | ring].
Qed.

(* ... and they are concave with slope dR >= 0 (tangent-line form): the hypotheses of the monotone
   Newton theorem *)
Theorem gen_hardening_concave :
    (forall H, 0 <= H -> (forall x, 0 <= gen_linear_dR H x) /\
                         (forall x y, gen_linear_R H y <= gen_linear_R H x + gen_linear_dR H x * (y - x))) /\
    (forall Q b, 0 <= Q -> 0 < b -> (forall x, 0 <= gen_voce_dR Q b x) /\
                                    (forall x y, gen_voce_R Q b y <= gen_voce_R Q b x + gen_voce_dR Q b x * (y - x))).
Proof.
  split.
  - intros H HH. unfold gen_linear_R, gen_linear_dR. split; intros; nra.
  - intros Q b HQ Hb.
    assert (ER : forall x, gen_voce_R Q b x = voce_R Q b x) by (intro x; apply (gen_voce_canonical Q b x Hb)).
    assert (ED : forall x, gen_voce_dR Q b x = voce_dR Q b x) by (intro x; apply (gen_voce_canonical Q b x Hb)).
    split.
    + intro x. rewrite ED. unfold voce_dR. pose proof (exp_pos (- (b * x))). apply Rmult_le_pos; [apply Rmult_le_pos; lra | lra].
    + intros x y. rewrite (ER x), (ER y), (ED x). unfold voce_R, voce_dR.
      pose proof (exp_ineq1_le (- (b * (y - x)))) as Hi. pose proof (exp_pos (- (b * x))) as Hp.
      assert (E : exp (- (b * y)) = exp (- (b * x)) * exp (- (b * (y - x)))) by (rewrite <- exp_plus; f_equal; ring).
      rewrite E.
      assert (exp (- (b * x)) * (1 + - (b * (y - x))) <= exp (- (b * x)) * exp (- (b * (y - x)))) by (apply Rmult_le_compat_l; lra).
      assert (Q * (exp (- (b * x)) * (1 + - (b * (y - x)))) <= Q * (exp (- (b * x)) * exp (- (b * (y - x))))) by (apply Rmult_le_compat_l; assumption).
      lra.
Qed.

(* ------------------------------------------------------------------------------------------ *)
(* B. von Mises / Hill: the flow direction P sigma is deviatoric                               *)
(* ------------------------------------------------------------------------------------------ *)
Definition trace6 (v : Vec) : R := nthR v 0 + nthR v 1 + nthR v 2.
Definition vec6 (a b c d e f : R) : Vec := [a; b; c; d; e; f].

(* plastic strain increment of the spectral return: d eps_p = C^-1 (sig_tr - sig) = theta P sig
   ((I + theta C P) sig = sig_tr);  of the Newton solve: d eps_p = dGamma P sig / phi.
   Both are a scalar times P sig. *)
Theorem vm_traceless : forall a b c d e f k,
    trace6 (map (Rmult k) (mv gen_vmP (vec6 a b c d e f))) = 0.
Proof. intros. unfold trace6, nthR, mv, dot, gen_vmP, vec6. simpl. field. Qed.

Theorem hill_traceless : forall F G H L M N a b c d e f k,
    trace6 (map (Rmult k) (mv (gen_hillP F G H L M N) (vec6 a b c d e f))) = 0.
Proof. intros. unfold trace6, nthR, mv, dot, gen_hillP, vec6. simpl. ring. Qed.

(* the von Mises quadratic form is (3/2) s:s >= 0, so phi is well defined *)
Theorem vm_quadratic_nonneg : forall a b c d e f,
    0 <= dot (vec6 a b c d e f) (mv gen_vmP (vec6 a b c d e f)).
Proof.
  intros.
  assert (E : dot (vec6 a b c d e f) (mv gen_vmP (vec6 a b c d e f))
              = ((a - b) * (a - b) + (b - c) * (b - c) + (c - a) * (c - a)) / 2
                + 3 / 2 * (d * d + e * e + f * f)).
  { unfold mv, dot, gen_vmP, vec6. simpl. field. }
  rewrite E.
  pose proof (Rle_0_sqr (a - b)). pose proof (Rle_0_sqr (b - c)). pose proof (Rle_0_sqr (c - a)).
  pose proof (Rle_0_sqr d). pose proof (Rle_0_sqr e). pose proof (Rle_0_sqr f).
  unfold Rsqr in *. lra.
Qed.

(* ------------------------------------------------------------------------------------------ *)
(* C. the property theorems (model level)                                                      *)
(* ------------------------------------------------------------------------------------------ *)
Theorem C19_theta_nonneg : forall Rh dRh rate dt sy tol start, (forall p0 f, 0 <= start p0 f) ->
    forall maxIter pts, Forall (fun q => 0 <= st_th q) (solve Rops Rh dRh rate dt sy tol start maxIter pts).
Proof. exact theta_nonneg. Qed.
Print Assumptions C19_theta_nonneg.

Example start_hypothesis_satisfiable : forall p0 f : R, 0 <= (fun _ _ => 0) p0 f.
Proof. intros; simpl; lra. Qed.

(* result of a batch = results of its points: every Gauss point of a call goes through its own
   update `advance` (which reads that point's data only), the same number n <= maxIter of times *)
Theorem C19_batch_is_pointwise : forall Rh dRh rate dt sy tol fuel st,
    exists n, (n <= fuel)%nat /\
      loop Rops Rh dRh rate dt sy tol fuel st = map (Nat.iter n (advance Rops Rh dRh rate dt sy)) st.
Proof. intros. apply loop_pointwise. Qed.
Print Assumptions C19_batch_is_pointwise.

Theorem C19_dgamma_nonneg : forall Rh dRh rate dt sy tol start, (forall p0 f, 0 <= start p0 f) ->
    forall maxIter pts,
    Forall (fun q => 0 <= dGam Rops (st_pt q) (st_th q) /\ pOld (st_pt q) <= p_new Rops (st_pt q) (st_th q))
           (solve Rops Rh dRh rate dt sy tol start maxIter pts).
Proof. exact dgamma_nonneg. Qed.
Print Assumptions C19_dgamma_nonneg.

Theorem C19_p_monotone : forall Rh dRh rate dt sy tol start, (forall p0 f, 0 <= start p0 f) ->
    forall n steps p, nondecreasing (p_trace Rh dRh rate dt sy tol start n p steps).
Proof. exact p_monotone. Qed.
Print Assumptions C19_p_monotone.

Theorem C19_phi_decreasing : forall ps th1 th2, lam_nonneg ps -> 0 <= th1 <= th2 ->
    phi Rops ps th2 <= phi Rops ps th1.
Proof. exact phi_decreasing. Qed.
Print Assumptions C19_phi_decreasing.

Theorem C19_dphi_is_derivative : forall ps th, lam_nonneg ps -> 0 <= th -> 0 < phi Rops ps th ->
    is_derive (fun t => phi Rops ps t) th (dphi Rops ps th).
Proof. exact dphi_is_derivative. Qed.
Print Assumptions C19_dphi_is_derivative.

Theorem C19_converged_on_surface : forall Rh dRh dt sy tol start, (forall p0 f, 0 <= start p0 f) ->
    forall maxIter pts, 0 <= tol * sy ->
    let st := solve Rops Rh dRh None dt sy tol start maxIter pts in
    exit_small Rops Rh None dt sy tol st = true ->
    Forall (fun q => f_new Rh sy (st_pt q) (st_th q) <= tol * sy /\
                     (st_act q = true -> Rabs (f_new Rh sy (st_pt q) (st_th q)) < tol * sy)) st.
Proof. exact converged_on_surface. Qed.
Print Assumptions C19_converged_on_surface.

Theorem C19_idle_points_return_trial : forall Rh dRh rate dt sy tol start, (forall p0 f, 0 <= start p0 f) ->
    forall maxIter pts,
    Forall (fun q => st_act q = false ->
                     st_th q = 0 /\
                     sig_eig Rops (pairs (st_pt q)) (st_th q) = map snd (pairs (st_pt q)) /\
                     dGam Rops (st_pt q) (st_th q) = 0 /\
                     p_new Rops (st_pt q) (st_th q) = pOld (st_pt q) /\
                     f_new Rh sy (st_pt q) (st_th q) <= 0)
           (solve Rops Rh dRh rate dt sy tol start maxIter pts).
Proof. exact idle_points_return_trial. Qed.
Print Assumptions C19_idle_points_return_trial.

Theorem C19_dissipation_nonneg : forall pt th, lam_nonneg (pairs pt) -> 0 <= th ->
    dissip (pairs pt) th = dGam Rops pt th * phi Rops (pairs pt) th /\ 0 <= dissip (pairs pt) th.
Proof. exact dissipation_nonneg. Qed.
Print Assumptions C19_dissipation_nonneg.

(* the same two facts about the returned 6D stress, given what eigh guarantees about T *)
Theorem C19_yield_function_of_returned_stress :
  forall (Stress : Type) (Tm : list R -> Stress) (quadP : Stress -> R) ps,
    (forall s, length s = length ps -> quadP (Tm s) = quad_eig ps s) ->
    forall th, sqrt (Rmax (quadP (sigma_new Stress Tm ps th)) 0) = phi Rops ps th.
Proof. exact phi_of_sigma_new. Qed.
Print Assumptions C19_yield_function_of_returned_stress.

Theorem C19_plastic_work_nonneg_6d :
  forall (Stress : Type) (Tm : list R -> Stress) (ssub : Stress -> Stress -> Stress)
         (cinv : Stress -> Stress -> R) ps,
    (forall s t, length s = length ps -> length t = length ps ->
                 cinv (Tm s) (ssub (Tm t) (Tm s)) = dotl s (subl t s)) ->
    forall th, Forall (fun q => 0 <= fst q) ps -> 0 <= th ->
    cinv (sigma_new Stress Tm ps th) (ssub (sigma_trial Stress Tm ps) (sigma_new Stress Tm ps th))
    = (th * phi Rops ps th) * phi Rops ps th /\
    0 <= cinv (sigma_new Stress Tm ps th) (ssub (sigma_trial Stress Tm ps) (sigma_new Stress Tm ps th)).
Proof. exact plastic_work_6d. Qed.
Print Assumptions C19_plastic_work_nonneg_6d.

(* plane stress: leaving the outer loop through its break test bounds |sig_zz| at EVERY point of
   the field (any number of elements x Gauss points, any material response szz/czz) *)
Theorem C19_plane_stress_exit_all_points :
  forall (Pt : Type) (szz czz : Pt -> R -> R) tol fuel field st',
    ps_loop Pt szz czz tol fuel (ps_start Pt field) = Some st' ->
    Forall (fun s => Rabs s < tol) (ps_returned_szz Pt szz st') /\ map fst st' = field.
Proof. exact plane_stress_exit_all_points. Qed.
Print Assumptions C19_plane_stress_exit_all_points.

(* radial return (all non-zero eigenvalues equal, linear hardening, no rate law): unique root,
   strictly decreasing residual, Newton error e' = (lam B / D) e^2, monotone convergence from 0 *)
Theorem C19_radial_root_unique : forall lam H sy dt ps p,
    uniform lam ps -> 0 < lam -> 0 <= H -> 0 < phi Rops ps 0 -> 0 < sy + H * p -> 0 < Ac H sy ps p ->
    forall th, 0 <= th ->
    (resid Rops (fun x => H * x) None dt sy (mkPoint ps p) th = 0 <-> th = theta_star lam H sy ps p).
Proof. intros; apply radial_root_unique; assumption. Qed.
Print Assumptions C19_radial_root_unique.

Theorem C19_radial_return_converges : forall lam H sy tol dt ps p,
    uniform lam ps -> 0 < lam -> 0 <= H -> 0 < phi Rops ps 0 -> 0 < sy + H * p -> 0 < Ac H sy ps p ->
    0 < tol * sy ->
    (forall maxIter, exists th,
        solve Rops (fun x => H * x) (fun _ => H) None dt sy tol (fun _ _ => 0) maxIter [mkPoint ps p]
        = [(mkPoint ps p, true, th)] /\
        0 <= th <= theta_star lam H sy ps p /\
        (exit_small Rops (fun x => H * x) None dt sy tol [(mkPoint ps p, true, th)] = true \/
         theta_star lam H sy ps p - th <= theta_star lam H sy ps p * qc lam H sy ps p ^ maxIter)) /\
    (exists N, forall maxIter, (N <= maxIter)%nat ->
        exit_small Rops (fun x => H * x) None dt sy tol
          (solve Rops (fun x => H * x) (fun _ => H) None dt sy tol (fun _ _ => 0) maxIter [mkPoint ps p]) = true).
Proof. exact radial_return_converges. Qed.
Print Assumptions C19_radial_return_converges.

(* consistent tangent, one eigen-pair, linear hardening, no rate law: the returned tangent core
   d + a*b (evaluated with the model's drdtheta and phi at the converged theta_star) is the
   derivative of the returned eigen-stress with respect to the trial eigen-stress, = H/(H+lam) *)
Theorem C19_tangent_is_derivative_1d : forall lam H sy dt p,
    0 < lam -> 0 <= H -> 0 < sy + H * p ->
    forall y0, 0 < y0 -> 0 < Ac H sy (ps1 lam y0) p ->
    let th := theta_of lam H sy p y0 in
    is_derive (s_of lam H sy p) y0
      (tan_core_1d lam y0 (dfac Rops th lam) th H
                   (drdth Rops (fun _ => H) None dt (mkPoint (ps1 lam y0) p) th)
                   (phi Rops (ps1 lam y0) th) true) /\
    tan_core_1d lam y0 (dfac Rops th lam) th H
                (drdth Rops (fun _ => H) None dt (mkPoint (ps1 lam y0) p) th)
                (phi Rops (ps1 lam y0) th) true = H / (H + lam).
Proof.
  intros. split; [apply tangent_is_derivative_1d | apply radial_1d_tangent_value]; assumption.
Qed.
Print Assumptions C19_tangent_is_derivative_1d.

(* unit invariance (homogeneity of degree one): the same material in units where stresses are s
   times larger (lam -> s lam, y -> sqrt(s) y, H -> s H, sigma_y -> s sigma_y) goes through the
   same iterations: theta/s, residual x s, same dGamma, eigen-stress x sqrt(s), same break test *)
Theorem C19_radial_unit_invariance : forall lam H sy tol dt p s ps,
    uniform lam ps -> 0 < lam -> 0 <= H -> 0 < phi Rops ps 0 -> 0 < sy + H * p -> 0 < Ac H sy ps p -> 0 < s ->
    forall n,
      let th := Nat.iter n (newton H sy dt ps p) 0 in
      let th' := Nat.iter n (newton (s * H) (s * sy) dt (scale_ps s ps) p) 0 in
      th' = th / s /\
      resid Rops (fun x => s * H * x) None dt (s * sy) (mkPoint (scale_ps s ps) p) th'
        = s * resid Rops (fun x => H * x) None dt sy (mkPoint ps p) th /\
      dGam Rops (mkPoint (scale_ps s ps) p) th' = dGam Rops (mkPoint ps p) th /\
      sig_eig Rops (scale_ps s ps) th' = map (Rmult (sqrt s)) (sig_eig Rops ps th) /\
      small_v Rops (s * sy) tol true (resid Rops (fun x => s * H * x) None dt (s * sy) (mkPoint (scale_ps s ps) p) th')
        = small_v Rops sy tol true (resid Rops (fun x => H * x) None dt sy (mkPoint ps p) th).
Proof. intros; apply (radial_unit_invariance lam); assumption. Qed.
Print Assumptions C19_radial_unit_invariance.

(* consistent tangent for SEVERAL eigen-pairs (two, equal eigenvalues), linear hardening, converged
   state: every partial derivative of the returned eigen-stress (s1, s2) with respect to the trial
   components (y1, y2) is the corresponding entry d*delta_ij + a_i*b_j of the translated Tangent core *)
Theorem C19_tangent_is_jacobian_2d : forall lam H sy dt p,
    0 < lam -> 0 <= H -> 0 < sy + H * p ->
    forall y1 y2, 0 < y1 * y1 + y2 * y2 -> 0 < Ac H sy (ps2 lam y1 y2) p ->
    is_derive (fun t => s1 lam H sy p t y2) y1 (entry lam H sy dt p true 0 0 y1 y2) /\
    is_derive (fun t => s2 lam H sy p t y2) y1 (entry lam H sy dt p false 1 0 y1 y2) /\
    is_derive (fun t => s1 lam H sy p y1 t) y2 (entry lam H sy dt p false 0 1 y1 y2) /\
    is_derive (fun t => s2 lam H sy p y1 t) y2 (entry lam H sy dt p true 1 1 y1 y2).
Proof. intros; apply tangent_is_jacobian_2d; assumption. Qed.
Print Assumptions C19_tangent_is_jacobian_2d.

(* uniqueness of the returned state and agreement of any two solvers: radial eigen-structure,
   ANY non-decreasing hardening (Linear, Voce by the two theorems above), no rate law *)
Theorem C19_root_unique : forall lam sy dt p Rh ps,
    uniform lam ps -> 0 < lam -> 0 < phi Rops ps 0 -> (forall x y, x <= y -> Rh x <= Rh y) ->
    forall a b, 0 <= a -> 0 <= b ->
    resid Rops Rh None dt sy (mkPoint ps p) a = 0 -> resid Rops Rh None dt sy (mkPoint ps p) b = 0 -> a = b.
Proof. intros; eapply root_unique; eauto. Qed.
Print Assumptions C19_root_unique.

Theorem C19_two_solutions_close : forall lam sy dt p Rh ps,
    uniform lam ps -> 0 < lam -> 0 < phi Rops ps 0 -> (forall x y, x <= y -> Rh x <= Rh y) ->
    forall a b eps, 0 <= a -> 0 <= b ->
    Rabs (resid Rops Rh None dt sy (mkPoint ps p) a) <= eps ->
    Rabs (resid Rops Rh None dt sy (mkPoint ps p) b) <= eps ->
    Forall (fun q => phi Rops ps 0 * Rabs (snd q * dfac Rops a (fst q) - snd q * dfac Rops b (fst q))
                     <= 2 * eps * Rabs (snd q)) ps /\
    lam * Rabs (p_new Rops (mkPoint ps p) a - p_new Rops (mkPoint ps p) b) <= 2 * eps.
Proof. intros; eapply two_solutions_close; eauto. Qed.
Print Assumptions C19_two_solutions_close.

(* ... and for EVERY eigen-structure (distinct eigenvalues: Hill, anisotropic elasticity): phi is
   strictly decreasing, dGamma = theta*phi non-decreasing, the root is unique, and two approximate
   solutions have equivalent stresses within 2 eps *)
Theorem C19_root_unique_every_eigenstructure : forall sy dt p Rh ps,
    lam_nonneg ps -> 0 < phi Rops ps 0 -> (forall x y, x <= y -> Rh x <= Rh y) ->
    (forall a b, 0 <= a < b -> phi Rops ps b < phi Rops ps a) /\
    (forall a b, 0 <= a <= b -> dGam Rops (mkPoint ps p) a <= dGam Rops (mkPoint ps p) b) /\
    (forall a b, 0 <= a -> 0 <= b ->
       resid Rops Rh None dt sy (mkPoint ps p) a = 0 -> resid Rops Rh None dt sy (mkPoint ps p) b = 0 -> a = b) /\
    (forall a b eps, 0 <= a -> 0 <= b ->
       Rabs (resid Rops Rh None dt sy (mkPoint ps p) a) <= eps ->
       Rabs (resid Rops Rh None dt sy (mkPoint ps p) b) <= eps ->
       Rabs (phi Rops ps a - phi Rops ps b) <= 2 * eps).
Proof.
  intros sy dt p Rh ps Hl Hp Hm. split; [|split; [|split]].
  - apply phi_strictly_decreasing; assumption.
  - apply dGam_nondecreasing; assumption.
  - apply root_unique_gen; assumption.
  - apply two_solutions_close_gen; assumption.
Qed.
Print Assumptions C19_root_unique_every_eigenstructure.

(* EXISTENCE and uniqueness, every eigen-structure: continuous non-decreasing hardening, positive
   current yield stress, trial state outside the surface *)
Theorem C19_root_exists_unique : forall sy dt p Rh ps,
    lam_nonneg ps -> 0 < phi Rops ps 0 -> (forall x y, x <= y -> Rh x <= Rh y) ->
    (forall x, continuous Rh x) -> 0 < sy + Rh p -> 0 < phi Rops ps 0 - sy - Rh p ->
    exists th, 0 <= th /\ resid Rops Rh None dt sy (mkPoint ps p) th = 0 /\
               forall th', 0 <= th' -> resid Rops Rh None dt sy (mkPoint ps p) th' = 0 -> th' = th.
Proof. intros; apply root_exists_unique; assumption. Qed.
Print Assumptions C19_root_exists_unique.

(* ... for the source's Voce law (and likewise Linear) under the constructor's assertions *)
Theorem C19_voce_root_exists_unique : forall Q b sy dt p ps, 0 <= Q -> 0 < b ->
    lam_nonneg ps -> 0 < phi Rops ps 0 -> 0 < sy + gen_voce_R Q b p -> 0 < phi Rops ps 0 - sy - gen_voce_R Q b p ->
    exists th, 0 <= th /\ resid Rops (gen_voce_R Q b) None dt sy (mkPoint ps p) th = 0 /\
               forall th', 0 <= th' -> resid Rops (gen_voce_R Q b) None dt sy (mkPoint ps p) th' = 0 -> th' = th.
Proof.
  intros Q b sy dt p ps HQ Hb Hl Hp HK HA.
  destruct (gen_voce_hardening Q b HQ Hb) as [Hm [_ [_ Hd]]].
  apply root_exists_unique; try assumption.
  intro x. apply (ex_derive_continuous (K := R_AbsRing) (V := R_NormedModule)).
  exists (gen_voce_dR Q b x). apply Hd.
Qed.
Print Assumptions C19_voce_root_exists_unique.

(* MONOTONE NEWTON beyond linear hardening (radial structure, concave non-decreasing hardening):
   every iterate of the source's loop from theta = 0 stays left of the root, moves right, keeps
   the residual >= 0 (the clamp is never active); an update that does not move is at the root *)
Theorem C19_radial_newton_monotone : forall lam sy dt p Rh dRh ps,
    uniform lam ps -> 0 < lam -> 0 < phi Rops ps 0 -> (forall x, 0 <= dRh x) ->
    (forall x y, Rh y <= Rh x + dRh x * (y - x)) ->
    forall theta_star, 0 <= theta_star -> resid Rops Rh None dt sy (mkPoint ps p) theta_star = 0 ->
    forall n, let th := Nat.iter n (newtonG sy dt p Rh dRh ps) 0 in
      0 <= th <= theta_star /\ th <= newtonG sy dt p Rh dRh ps th /\
      0 <= resid Rops Rh None dt sy (mkPoint ps p) th /\
      (newtonG sy dt p Rh dRh ps th = th -> resid Rops Rh None dt sy (mkPoint ps p) th = 0).
Proof. intros; eapply radial_newton_monotone; eauto. Qed.
Print Assumptions C19_radial_newton_monotone.

(* the same for the source's Voce law, with the root supplied by the existence theorem *)
Theorem C19_voce_radial_newton_monotone : forall Q b lam sy dt p ps, 0 <= Q -> 0 < b ->
    uniform lam ps -> 0 < lam -> 0 < phi Rops ps 0 ->
    0 < sy + gen_voce_R Q b p -> 0 < phi Rops ps 0 - sy - gen_voce_R Q b p ->
    exists theta_star, 0 <= theta_star /\
      resid Rops (gen_voce_R Q b) None dt sy (mkPoint ps p) theta_star = 0 /\
      forall n, let th := Nat.iter n (newtonG sy dt p (gen_voce_R Q b) (gen_voce_dR Q b) ps) 0 in
        0 <= th <= theta_star /\ th <= newtonG sy dt p (gen_voce_R Q b) (gen_voce_dR Q b) ps th /\
        0 <= resid Rops (gen_voce_R Q b) None dt sy (mkPoint ps p) th.
Proof.
  intros Q b lam sy dt p ps HQ Hb Hu Hl Hp HK HA.
  destruct (C19_voce_root_exists_unique Q b sy dt p ps HQ Hb (unif_nonneg lam ps Hu Hl) Hp HK HA) as [ts [H0 [Hr _]]].
  destruct gen_hardening_concave as [_ Hv]. destruct (Hv Q b HQ Hb) as [Hd Hc].
  exists ts. split; [exact H0|]. split; [exact Hr|]. intro n.
  destruct (radial_newton_monotone lam sy dt p (gen_voce_R Q b) (gen_voce_dR Q b) ps Hu Hl Hp Hd Hc ts H0 Hr n) as [A [B [C _]]].
  cbv zeta. repeat split; try apply A; assumption.
Qed.
Print Assumptions C19_voce_radial_newton_monotone.

(* in particular for the Voce law as the source defines it *)
Theorem C19_voce_root_unique : forall Q b lam sy dt p ps, 0 <= Q -> 0 < b ->
    uniform lam ps -> 0 < lam -> 0 < phi Rops ps 0 ->
    forall t1 t2, 0 <= t1 -> 0 <= t2 ->
    resid Rops (gen_voce_R Q b) None dt sy (mkPoint ps p) t1 = 0 ->
    resid Rops (gen_voce_R Q b) None dt sy (mkPoint ps p) t2 = 0 -> t1 = t2.
Proof.
  intros Q b lam sy dt p ps HQ Hb Hu Hl Hp t1 t2 H1 H2 E1 E2.
  apply (root_unique lam sy dt p (gen_voce_R Q b) ps Hu Hl Hp (proj1 (gen_voce_hardening Q b HQ Hb)) t1 t2 H1 H2 E1 E2).
Qed.

(* discrete Kuhn-Tucker conditions at the returned state, every eigen-structure *)
Theorem C19_kuhn_tucker_flow : forall Rh dRh dt sy tol start, (forall p0 f, 0 <= start p0 f) ->
    forall rate maxIter pts,
    Forall (fun q =>
              let pt := st_pt q in let th := st_th q in
              0 <= dGam Rops pt th /\
              (0 < dGam Rops pt th -> 0 < ftrial Rops Rh sy pt) /\
              (ftrial Rops Rh sy pt <= 0 ->
               dGam Rops pt th = 0 /\ p_new Rops pt th = pOld pt /\ f_new Rh sy pt th = ftrial Rops Rh sy pt))
           (solve Rops Rh dRh rate dt sy tol start maxIter pts).
Proof. exact kuhn_tucker_flow. Qed.
Print Assumptions C19_kuhn_tucker_flow.

Theorem C19_kuhn_tucker_admissible : forall Rh dRh dt sy tol start, (forall p0 f, 0 <= start p0 f) ->
    forall maxIter pts, 0 <= tol * sy ->
    let st := solve Rops Rh dRh None dt sy tol start maxIter pts in
    exit_small Rops Rh None dt sy tol st = true ->
    Forall (fun q =>
              let pt := st_pt q in let th := st_th q in
              f_new Rh sy pt th <= tol * sy /\
              Rabs (dGam Rops pt th * f_new Rh sy pt th) <= dGam Rops pt th * (tol * sy)) st.
Proof. exact kuhn_tucker_admissible. Qed.
Print Assumptions C19_kuhn_tucker_admissible.

(* frame condition: the committed state changes only at Save_Iter / Set_Iter / mesh replacement *)
Theorem C19_only_commit_ops_change_committed :
  forall (Strain Stress Tangent State Group : Type) (zeros : State)
         (integrate : Strain -> State -> Stress * Tangent * State * bool)
         (s : sim State Group) (o : op Strain Group) g,
    committed State Group zeros (exec Strain Stress Tangent State Group zeros integrate s o) g
    <> committed State Group zeros s g ->
    o = Save Strain Group \/ (exists i, o = SetIter Strain Group i) \/ o = ResetMesh Strain Group.
Proof. exact only_commit_ops_change_committed. Qed.
Print Assumptions C19_only_commit_ops_change_committed.

Theorem C19_committed_fixed_since_last_commit :
  forall (Strain Stress Tangent State Group : Type) (zeros : State)
         (integrate : Strain -> State -> Stress * Tangent * State * bool)
         (pre post : list (op Strain Group)) (s : sim State Group),
    Forall (no_commit Strain Group) post ->
    forall g, committed State Group zeros (run Strain Stress Tangent State Group zeros integrate s (pre ++ post)) g
              = committed State Group zeros (run Strain Stress Tangent State Group zeros integrate s pre) g.
Proof. exact committed_fixed_since_last_commit. Qed.
Print Assumptions C19_committed_fixed_since_last_commit.

Theorem C19_commit_only_on_save :
  forall (Strain Stress Tangent State Group : Type) (zeros : State)
         (integrate : Strain -> State -> Stress * Tangent * State * bool)
         (ops : list (op Strain Group)) (s : sim State Group),
    Forall (no_commit Strain Group) ops ->
    forall g, committed State Group zeros (run Strain Stress Tangent State Group zeros integrate s ops) g
              = committed State Group zeros s g.
Proof. exact commit_only_on_save. Qed.
Print Assumptions C19_commit_only_on_save.

Theorem C19_save_commits_last_trial :
  forall (Strain Stress Tangent State Group : Type) (zeros : State)
         (integrate : Strain -> State -> Stress * Tangent * State * bool)
         (ops : list (op Strain Group)) (s : sim State Group) (eps : Group -> Strain),
    Forall (no_commit Strain Group) ops ->
    forall g, committed State Group zeros
                (run Strain Stress Tangent State Group zeros integrate s
                     (ops ++ [Assemble Strain Group eps (fun _ => true); Save Strain Group])) g
              = trial_of Stress Tangent State (integrate (eps g) (committed State Group zeros s g)).
Proof. exact save_commits_last_trial. Qed.
Print Assumptions C19_save_commits_last_trial.

(* replacing the mesh (InElastic._Init_internal_variables) = a fresh material history *)
Theorem C19_mesh_replacement_is_fresh :
  forall (Strain Stress Tangent State Group : Type) (zeros : State)
         (integrate : Strain -> State -> Stress * Tangent * State * bool) (s : sim State Group) g,
    committed State Group zeros (exec Strain Stress Tangent State Group zeros integrate s (ResetMesh Strain Group)) g = zeros /\
    z State Group (exec Strain Stress Tangent State Group zeros integrate s (ResetMesh Strain Group)) g = None /\
    hist State Group (exec Strain Stress Tangent State Group zeros integrate s (ResetMesh Strain Group)) = hist State Group s.
Proof. intros; apply reset_is_fresh. Qed.
Print Assumptions C19_mesh_replacement_is_fresh.

Theorem C19_elastic_exact :
  forall (State : Type) (spectral flow : behavior -> Vec -> State -> R -> Vec * Mat * State * bool)
         b eps zOld dt,
    accepted b -> has_yield b = false -> nbranch b = O ->
    Integrate State spectral flow b M3D eps zOld dt = (mv (Cmat b) eps, Cmat b, zOld, true) /\
    Integrate State spectral flow b PlaneStrain eps zOld dt
    = (take2 (mv (Cmat b) (embed2 eps)), sub2 (Cmat b), zOld, true).
Proof. exact elastic_exact. Qed.
Print Assumptions C19_elastic_exact.

(* NOT proved (correspondence only, see docs/C19.md):
   C19_tangent_is_derivative_partial : C_alg = d sigma / d eps at the CONVERGED state for general
     hardening / rate laws; agreement of the spectral and the Newton solver; convergence of the
     plane-stress iteration and sig_zz = 0. *)
