(* C19_flag.v — the convergence flag the spectral path REPORTS is the loop's own break test
   (the hypothesis `exit_small = true` of C19_converged_on_surface), evaluated at the returned
   theta.  On a tree where Behavior.__Spectral returns np.ones(...) this file does not check:
   Gen_C19.v then defines gen_converged := true. *)
From Coq Require Import Reals List Bool.
From EFModel Require Import C19_Return1D.
From EFP Require Import Gen_C19.
Open Scope R_scope.

Theorem C19_reported_flag_is_residual_test : forall Rh dRh rinv rdinv sy tol dt pt act th,
    let p := phi Rops (pairs pt) th in let dp := dphi Rops (pairs pt) th in
    gen_converged_norate act th p dp (pOld pt) sy tol Rh dRh
      = small_v Rops sy tol act (resid Rops Rh None dt sy pt th) /\
    gen_converged_rate act th p dp (pOld pt) sy dt tol Rh dRh rinv rdinv
      = small_v Rops sy tol act (resid Rops Rh (Some (rinv, rdinv)) dt sy pt th).
Proof.
  intros. subst p dp. unfold gen_converged_norate, gen_converged_rate.
  unfold small_v, resid, resid_of, overstress. cbn [fst snd].
  change (o0 Rops) with 0. change (osub Rops) with Rminus. change (oadd Rops) with Rplus.
  change (omul Rops) with Rmult. change (odiv Rops) with Rdiv. change (oabs Rops) with Rabs.
  change (oltb Rops) with Rltb. rewrite ?Rminus_0_r. split; reflexivity.
Qed.
Print Assumptions C19_reported_flag_is_residual_test.
