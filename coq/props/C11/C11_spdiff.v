(* C11 — the conditional SPD statements are sharp: necessity of the Sylvester conditions for the
   block shape of the material-frame laws, hence
     transversely isotropic:  SPD  <->  (1 - vt) El - 2 vl^2 Et > 0     (kt > 0)
     orthotropic:             SPD  <->  c_ij denominator < 0  /\  E3 v23^2 < E2
   under the descriptor ranges and non-zero moduli / denominators. *)
From Coq Require Import Reals List Lra Psatz.
From EFLib Require Import C11_MatR.
From EFP Require Import Gen_Pmat Gen_Laws C11_laws.
Import ListNotations.
Open Scope R_scope.

Lemma pos_of_nonneg_neq x : 0 <= x -> x <> 0 -> 0 < x.
Proof. intros [H|H] N; [assumption | symmetry in H; contradiction]. Qed.

(* necessity of the leading minors (converse of posdef_block33_diag) *)
Theorem posdef_blk33_minors a b c d e f g4 g5 g6 :
  posdef (blk33 a b c d e f g4 g5 g6) 6 ->
  0 < a /\ 0 < a * d - b * b /\ 0 < det3 a b c d e f /\ 0 < g4 /\ 0 < g5 /\ 0 < g6.
Proof.
  intro H. destruct (posdef_blk33_diag_pos _ _ _ _ _ _ _ _ _ H) as (Ha & Hd & Hf & H4 & H5 & H6).
  assert (Hm2 : 0 < a * d - b * b).
  { assert (Hx : exists k, lnth k [- b; a; 0; 0; 0; 0] <> 0) by (exists 1%nat; cbv [lnth]; lra).
    pose proof (H [- b; a; 0; 0; 0; 0] eq_refl Hx) as Q. revert Q. unfold blk33. mat_cbv. intro Q.
    assert (E : 0 < a * (a * d - b * b)) by nra. nra. }
  repeat split; try assumption.
  set (x1 := b * e - c * d). set (x2 := b * c - a * e). set (x3 := a * d - b * b).
  assert (Hx : exists k, lnth k [x1; x2; x3; 0; 0; 0] <> 0) by (exists 2%nat; cbv [lnth]; unfold x3; lra).
  pose proof (H [x1; x2; x3; 0; 0; 0] eq_refl Hx) as Q. revert Q. unfold blk33. mat_cbv. intro Q.
  assert (E : x1 * (a * x1 + (b * x2 + (c * x3 + (0 * 0 + (0 * 0 + (0 * 0 + 0)))))) +
              (x2 * (b * x1 + (d * x2 + (e * x3 + (0 * 0 + (0 * 0 + (0 * 0 + 0)))))) +
               (x3 * (c * x1 + (e * x2 + (f * x3 + (0 * 0 + (0 * 0 + (0 * 0 + 0)))))) +
                (0 * (0 * x1 + (0 * x2 + (0 * x3 + (g4 * 0 + (0 * 0 + (0 * 0 + 0)))))) +
                 (0 * (0 * x1 + (0 * x2 + (0 * x3 + (0 * 0 + (g5 * 0 + (0 * 0 + 0)))))) +
                  (0 * (0 * x1 + (0 * x2 + (0 * x3 + (0 * 0 + (0 * 0 + (g6 * 0 + 0)))))) + 0)))))
              = x3 * det3 a b c d e f) by (unfold x1, x2, x3, det3; ring).
  rewrite E in Q. unfold x3 in Q. nra.
Qed.

(* ---- transversely isotropic: SPD iff kt > 0 *)
Theorem ti_spd_iff : forall El Et Gl vl vt, ti_admissible El Et Gl vl vt ->
  El <> 0 -> Et <> 0 -> Gl <> 0 -> (1 - vt) * El - 2 * (vl * vl) * Et <> 0 ->
  (posdef (ti_3d_cM El Et Gl vl vt) 6 <-> 0 < (1 - vt) * El - 2 * (vl * vl) * Et).
Proof.
  intros El Et Gl vl vt Hadm HEl HEt HGl HD. split.
  - intro Hp. unfold ti_admissible in Hadm. destruct Hadm as (A1 & A2 & A3 & A4 & A5 & A6 & A7).
    set (D := (1 - vt) * El - 2 * (vl * vl) * Et) in *.
    set (kt := El * Et / (2 * D)). set (Gt := Et / (2 * (1 + vt))).
    assert (E : ti_3d_cM El Et Gl vl vt =
      blk33 (El + 4 * (vl * vl) * kt) (2 * kt * vl) (2 * kt * vl) (kt + Gt) (kt - Gt) (kt + Gt)
            (2 * Gt) (2 * Gl) (2 * Gl)).
    { unfold_ti. unfold kt, Gt, D. mat_cbv. list_eq ltac:(field; repeat split; unfold D in HD; lra). }
    rewrite E in Hp. destruct (posdef_blk33_minors _ _ _ _ _ _ _ _ _ Hp) as (_ & _ & Hdet & HG & _ & _).
    replace (det3 (El + 4 * (vl * vl) * kt) (2 * kt * vl) (2 * kt * vl) (kt + Gt) (kt - Gt) (kt + Gt))
      with (4 * (Gt * (El * kt))) in Hdet by (unfold det3; ring).
    assert (HElp : 0 < El) by (apply pos_of_nonneg_neq; assumption). assert (HEtp : 0 < Et) by (apply pos_of_nonneg_neq; assumption).
    assert (HGt : 0 < Gt) by lra.
    assert (Hkt : 0 < kt).
    { destruct (Rlt_or_le 0 kt) as [|Hk]; [assumption|]. exfalso.
      assert (Gt * (El * kt) <= 0) by (assert (El * kt <= 0) by nra; nra). lra. }
    (* kt = El Et / (2 D) > 0 with El Et > 0 forces D > 0 *)
    destruct (Rlt_or_le 0 D) as [|HDle]; [assumption|]. exfalso.
    assert (HDneg : D < 0) by (destruct HDle as [|E0]; [assumption | contradiction]).
    assert (kt * (2 * D) = El * Et) by (unfold kt; field; lra).
    assert (0 < El * Et) by (apply Rmult_lt_0_compat; assumption). nra.
  - intro HD'. apply (ti_spd_conditional_partial El Et Gl vl vt). unfold ti_ok. split; [exact Hadm | repeat split; assumption].
Qed.

(* ---- orthotropic: SPD iff the two conditions *)
Theorem ortho_spd_iff : forall E1 E2 E3 G23 G13 G12 v23 v13 v12,
  ortho_admissible E1 E2 E3 G23 G13 G12 v23 v13 v12 ->
  E1 <> 0 -> E2 <> 0 -> E3 <> 0 -> G23 <> 0 -> G13 <> 0 -> G12 <> 0 ->
  ortho_3d_get_cij_denominator E1 E2 E3 G23 G13 G12 v23 v13 v12 <> 0 ->
  (posdef (ortho_3d_cM E1 E2 E3 G23 G13 G12 v23 v13 v12) 6 <->
   (E3 * (v23 * v23) < E2 /\ ortho_3d_get_cij_denominator E1 E2 E3 G23 G13 G12 v23 v13 v12 < 0)).
Proof.
  intros * Hadm H1 H2 H3 H4 H5 H6 Hden. split.
  - intro Hp. unfold ortho_admissible in Hadm. decompose [and] Hadm. clear Hadm.
    unfold ortho_3d_cM in Hp. cbv zeta in Hp.
    fold (blk33 (ortho_3d_c11 E1 E2 E3 G23 G13 G12 v23 v13 v12)
     (ortho_3d_c12 E1 E2 E3 G23 G13 G12 v23 v13 v12) (ortho_3d_c13 E1 E2 E3 G23 G13 G12 v23 v13 v12)
     (ortho_3d_c22 E1 E2 E3 G23 G13 G12 v23 v13 v12) (ortho_3d_c23 E1 E2 E3 G23 G13 G12 v23 v13 v12)
     (ortho_3d_c33 E1 E2 E3 G23 G13 G12 v23 v13 v12) (ortho_3d_c44 E1 E2 E3 G23 G13 G12 v23 v13 v12)
     (ortho_3d_c55 E1 E2 E3 G23 G13 G12 v23 v13 v12) (ortho_3d_c66 E1 E2 E3 G23 G13 G12 v23 v13 v12)) in Hp.
    destruct (posdef_blk33_minors _ _ _ _ _ _ _ _ _ Hp) as (Hc11 & Hm2 & _).
    pose proof Hden as Hden'. unfold ortho_3d_get_cij_denominator in Hden'.
    set (den := ortho_3d_get_cij_denominator E1 E2 E3 G23 G13 G12 v23 v13 v12) in *.
    assert (P1 : 0 < E1) by (apply pos_of_nonneg_neq; assumption).
    assert (P2 : 0 < E2) by (apply pos_of_nonneg_neq; assumption).
    assert (X2 : (ortho_3d_c11 E1 E2 E3 G23 G13 G12 v23 v13 v12 * ortho_3d_c22 E1 E2 E3 G23 G13 G12 v23 v13 v12 -
             ortho_3d_c12 E1 E2 E3 G23 G13 G12 v23 v13 v12 * ortho_3d_c12 E1 E2 E3 G23 G13 G12 v23 v13 v12) * den
             = - (E1 * E1 * (E2 * E2))).
    { unfold ortho_3d_c11, ortho_3d_c22, ortho_3d_c12, den, ortho_3d_get_cij_denominator. cbv zeta. field. exact Hden'. }
    assert (Hpos : 0 < E1 * E1 * (E2 * E2)) by (repeat apply Rmult_lt_0_compat; lra).
    assert (Hnd : den < 0) by nra.
    split; [|exact Hnd].
    assert (X1 : ortho_3d_c11 E1 E2 E3 G23 G13 G12 v23 v13 v12 * den = E1 * E1 * (- E2 + E3 * (v23 * v23))).
    { unfold ortho_3d_c11, den, ortho_3d_get_cij_denominator. cbv zeta. field. exact Hden'. }
    assert (0 < E1 * E1) by nra.
    nra.
  - intros [Hv Hd]. apply ortho_spd_conditional_partial. unfold ortho_ok. split; [exact Hadm | repeat split; assumption].
Qed.

Print Assumptions ti_spd_iff.
Print Assumptions ortho_spd_iff.
