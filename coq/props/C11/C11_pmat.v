(* C11 — change of basis (Get_Pmat / Apply_Pmat / KelvinMandel_Matrix), theorems about the
   definitions regenerated from EasyFEA/Models/_utils.py (EFP.Gen_Pmat).
   r2 is a real with r2 * r2 = 2 (np.sqrt(2) in the source). *)
From Coq Require Import Reals List Lra Psatz Nsatz.
From EFLib Require Import C11_MatR.
From EFP Require Import Gen_Pmat.
From EFP Require Export C11_wf.
Import ListNotations.
Open Scope R_scope.

Definition unit_orth3 (a1 a2 a3 b1 b2 b3 : R) : Prop :=
  a1 * a1 + a2 * a2 + a3 * a3 = 1 /\ b1 * b1 + b2 * b2 + b3 * b3 = 1 /\ a1 * b1 + a2 * b2 + a3 * b3 = 0.
Definition unit_orth2 (a1 a2 b1 b2 : R) : Prop :=
  a1 * a1 + a2 * a2 = 1 /\ b1 * b1 + b2 * b2 = 1 /\ a1 * b1 + a2 * b2 = 0.

Example unit_orth3_nonvacuous : unit_orth3 (3 / 5) (4 / 5) 0 (- 4 / 5) (3 / 5) 0.
Proof. unfold unit_orth3. lra. Qed.
Example unit_orth2_nonvacuous : unit_orth2 (3 / 5) (4 / 5) (- 4 / 5) (3 / 5).
Proof. unfold unit_orth2. lra. Qed.

(* ---- orthogonality for unit orthogonal axes (their norms n1 = n2 = 1) *)
Theorem pmat2_orthogonal : forall a1 a2 b1 b2 r2, r2 * r2 = 2 -> unit_orth2 a1 a2 b1 b2 ->
  mmul 3 (pmat2 a1 a2 b1 b2 1 1 r2) (mtrans 3 (pmat2 a1 a2 b1 b2 1 1 r2)) = ident 3 /\
  mmul 3 (mtrans 3 (pmat2 a1 a2 b1 b2 1 1 r2)) (pmat2 a1 a2 b1 b2 1 1 r2) = ident 3.
Proof.
  intros a1 a2 b1 b2 r2 Hr (Ha & Hb & Hab). unfold pmat2.
  split; mat_cbv; try unfold Rdiv; rewrite ?Rinv_1; list_eq ltac:(nsatz).
Qed.

Theorem pmat3_orthogonal : forall a1 a2 a3 b1 b2 b3 r2, r2 * r2 = 2 -> unit_orth3 a1 a2 a3 b1 b2 b3 ->
  mmul 6 (pmat3 a1 a2 a3 b1 b2 b3 1 1 r2) (mtrans 6 (pmat3 a1 a2 a3 b1 b2 b3 1 1 r2)) = ident 6 /\
  mmul 6 (mtrans 6 (pmat3 a1 a2 a3 b1 b2 b3 1 1 r2)) (pmat3 a1 a2 a3 b1 b2 b3 1 1 r2) = ident 6.
Proof.
  intros a1 a2 a3 b1 b2 b3 r2 Hr (Ha & Hb & Hab). unfold pmat3.
  split; mat_cbv; try unfold Rdiv; rewrite ?Rinv_1; list_eq ltac:(nsatz).
Qed.

(* ---- P is the Kelvin-Mandel matrix of the tensor rotation eps |-> Q eps Q^T,
        Q = [axis_1 | axis_2 | axis_1 x axis_2] (columns).  Holds for arbitrary axes. *)
Definition Qmat3 (a1 a2 a3 b1 b2 b3 : R) : mat :=
  [[a1; b1; a2 * b3 - a3 * b2]; [a2; b2; a3 * b1 - a1 * b3]; [a3; b3; a1 * b2 - a2 * b1]].
Definition sym3 (e11 e22 e33 e23 e13 e12 : R) : mat := [[e11; e12; e13]; [e12; e22; e23]; [e13; e23; e33]].
Definition kvec3 (r2 : R) (T : mat) : vec :=
  [entry T 0 0; entry T 1 1; entry T 2 2; r2 * entry T 1 2; r2 * entry T 0 2; r2 * entry T 0 1].
Definition Qmat2 (a1 a2 b1 b2 : R) : mat := [[a1; b1]; [a2; b2]].
Definition sym2 (e11 e22 e12 : R) : mat := [[e11; e12]; [e12; e22]].
Definition kvec2 (r2 : R) (T : mat) : vec := [entry T 0 0; entry T 1 1; r2 * entry T 0 1].

Theorem pmat3_is_tensor_rotation : forall a1 a2 a3 b1 b2 b3 r2 e11 e22 e33 e23 e13 e12, r2 * r2 = 2 ->
  let Q := Qmat3 a1 a2 a3 b1 b2 b3 in let eps := sym3 e11 e22 e33 e23 e13 e12 in
  mv (pmat3 a1 a2 a3 b1 b2 b3 1 1 r2) (kvec3 r2 eps) = kvec3 r2 (mmul 3 (mmul 3 Q eps) (mtrans 3 Q)).
Proof.
  intros. unfold Q, eps, Qmat3, sym3, kvec3, pmat3. mat_cbv. try unfold Rdiv; rewrite ?Rinv_1. list_eq ltac:(nsatz).
Qed.

Theorem pmat2_is_tensor_rotation : forall a1 a2 b1 b2 r2 e11 e22 e12, r2 * r2 = 2 ->
  let Q := Qmat2 a1 a2 b1 b2 in let eps := sym2 e11 e22 e12 in
  mv (pmat2 a1 a2 b1 b2 1 1 r2) (kvec2 r2 eps) = kvec2 r2 (mmul 2 (mmul 2 Q eps) (mtrans 2 Q)).
Proof.
  intros. unfold Q, eps, Qmat2, sym2, kvec2, pmat2. mat_cbv. try unfold Rdiv; rewrite ?Rinv_1. list_eq ltac:(nsatz).
Qed.

(* ---- Kelvin-Mandel scaling = D M D, D = diag(1,1,1,r2,r2,r2) *)
Theorem kelvin_voigt_scaling_3d : forall r2 M, r2 * r2 = 2 -> wf 6 M ->
  km3 r2 M = mmul 6 (mmul 6 (diagm [1; 1; 1; r2; r2; r2]) M) (diagm [1; 1; 1; r2; r2; r2]).
Proof.
  intros r2 M Hr H. destruct (wf6_inv M H) as (x1 & x2 & x3 & x4 & x5 & x6 & -> & L1 & L2 & L3 & L4 & L5 & L6).
  destruct (len6 _ L1) as (? & ? & ? & ? & ? & ? & ->). destruct (len6 _ L2) as (? & ? & ? & ? & ? & ? & ->).
  destruct (len6 _ L3) as (? & ? & ? & ? & ? & ? & ->). destruct (len6 _ L4) as (? & ? & ? & ? & ? & ? & ->).
  destruct (len6 _ L5) as (? & ? & ? & ? & ? & ? & ->). destruct (len6 _ L6) as (? & ? & ? & ? & ? & ? & ->).
  clear - Hr. unfold km3, km_T3. mat_cbv. list_eq ltac:(first [ring | nsatz]).
Qed.

Theorem kelvin_voigt_scaling_2d : forall r2 M, r2 * r2 = 2 -> wf 3 M ->
  km2 r2 M = mmul 3 (mmul 3 (diagm [1; 1; r2]) M) (diagm [1; 1; r2]).
Proof.
  intros r2 M Hr H. destruct (wf3_inv M H) as (x1 & x2 & x3 & -> & L1 & L2 & L3).
  destruct (len3 _ L1) as (? & ? & ? & ->). destruct (len3 _ L2) as (? & ? & ? & ->).
  destruct (len3 _ L3) as (? & ? & ? & ->).
  clear - Hr. unfold km2, km_T2. mat_cbv. list_eq ltac:(first [ring | nsatz]).
Qed.

Print Assumptions pmat3_orthogonal.
Print Assumptions pmat2_orthogonal.
Print Assumptions pmat3_is_tensor_rotation.
Print Assumptions kelvin_voigt_scaling_3d.
