(* C11 — change of basis (Get_Pmat / Apply_Pmat / KelvinMandel_Matrix), theorems about the
   definitions regenerated from EasyFEA/Models/_utils.py (EFP.Gen_Pmat).
   r2 is a real with r2 * r2 = 2 (np.sqrt(2) in the source). *)
From Coq Require Import Reals List Lra Psatz Nsatz.
From EFLib Require Import C11_MatR.
From EFP Require Import Gen_Pmat.
From EFP Require Export C11_wf.
Import ListNotations.
Open Scope R_scope.

Definition unit_orth3 (a1 a2 a3 b1 b2 b3 : R) : Prop :=
  a1 * a1 + a2 * a2 + a3 * a3 = 1 /\ b1 * b1 + b2 * b2 + b3 * b3 = 1 /\ a1 * b1 + a2 * b2 + a3 * b3 = 0.
Definition unit_orth2 (a1 a2 b1 b2 : R) : Prop :=
  a1 * a1 + a2 * a2 = 1 /\ b1 * b1 + b2 * b2 = 1 /\ a1 * b1 + a2 * b2 = 0.

Example unit_orth3_nonvacuous : unit_orth3 (3 / 5) (4 / 5) 0 (- 4 / 5) (3 / 5) 0.
Proof. unfold unit_orth3. lra. Qed.
Example unit_orth2_nonvacuous : unit_orth2 (3 / 5) (4 / 5) (- 4 / 5) (3 / 5).
Proof. unfold unit_orth2. lra. Qed.

(* ---- orthogonality for unit orthogonal axes (their norms n1 = n2 = 1) *)
Theorem pmat2_orthogonal : forall a1 a2 b1 b2 r2, r2 * r2 = 2 -> unit_orth2 a1 a2 b1 b2 ->
  mmul 3 (pmat2 a1 a2 b1 b2 1 1 r2) (mtrans 3 (pmat2 a1 a2 b1 b2 1 1 r2)) = ident 3 /\
  mmul 3 (mtrans 3 (pmat2 a1 a2 b1 b2 1 1 r2)) (pmat2 a1 a2 b1 b2 1 1 r2) = ident 3.
Proof.
  intros a1 a2 b1 b2 r2 Hr (Ha & Hb & Hab). unfold pmat2.
  split; mat_cbv; try unfold Rdiv; rewrite ?Rinv_1; list_eq ltac:(nsatz).
Qed.

Theorem pmat3_orthogonal : forall a1 a2 a3 b1 b2 b3 r2, r2 * r2 = 2 -> unit_orth3 a1 a2 a3 b1 b2 b3 ->
  mmul 6 (pmat3 a1 a2 a3 b1 b2 b3 1 1 r2) (mtrans 6 (pmat3 a1 a2 a3 b1 b2 b3 1 1 r2)) = ident 6 /\
  mmul 6 (mtrans 6 (pmat3 a1 a2 a3 b1 b2 b3 1 1 r2)) (pmat3 a1 a2 a3 b1 b2 b3 1 1 r2) = ident 6.
Proof.
  intros a1 a2 a3 b1 b2 b3 r2 Hr (Ha & Hb & Hab). unfold pmat3.
  split; mat_cbv; try unfold Rdiv; rewrite ?Rinv_1; list_eq ltac:(nsatz).
Qed.

Print Assumptions pmat3_orthogonal.
Print Assumptions pmat2_orthogonal.
