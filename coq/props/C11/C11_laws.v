(* C11 — elastic laws: theorems about the definitions regenerated from
   EasyFEA/Models/Elastic/_laws.py (EFP.Gen_Laws) and Models/_utils.py (EFP.Gen_Pmat).
   All statements are over R, for all parameters in the stated ranges. *)
From Coq Require Import Reals List Lra Psatz.
From EFLib Require Import C11_MatR.
From EFP Require Import Gen_Pmat Gen_Laws.
Import ListNotations.
Open Scope R_scope.

Ltac unfold_iso :=
  unfold iso_3d_C, iso_ps_C, iso_pe_C, iso_3d_cVoigt, iso_ps_cVoigt, iso_pe_cVoigt,
         iso_3d_get_bulk, iso_ps_get_bulk, iso_pe_get_bulk,
         iso_3d_get_lambda, iso_ps_get_lambda, iso_pe_get_lambda,
         iso_3d_get_mu, iso_ps_get_mu, iso_pe_get_mu,
         km3, km2, km_T3, km_T2, blk33, blk22.
Ltac unfold_ti :=
  unfold ti_3d_cM, ti_3d_sM, ti_3d_Gt, ti_3d_kt, ti_ps_cM, ti_ps_sM, ti_ps_Gt, ti_ps_kt,
         ti_pe_cM, ti_pe_sM, ti_pe_Gt, ti_pe_kt, blk33.
Ltac unfold_ortho :=
  unfold ortho_3d_cM, ortho_3d_sM, ortho_3d_c11, ortho_3d_c12, ortho_3d_c13, ortho_3d_c22,
         ortho_3d_c23, ortho_3d_c33, ortho_3d_c44, ortho_3d_c55, ortho_3d_c66,
         ortho_3d_get_cij_denominator, blk33.

(* ------------------------------------------------------------------ Isotropic *)
(* the strict version of the descriptor ranges: PositiveParameter accepts 0, at which the
   law degenerates (the implementation raises on read; checked by the correspondence run) *)
Definition iso_ok (E v : R) : Prop := iso_admissible E v /\ E <> 0.

Lemma iso_ok_ranges E v : iso_ok E v -> 0 < E /\ 0 < 1 + v /\ 0 < 1 - 2 * v /\ 0 < 1 - v.
Proof. unfold iso_ok, iso_admissible. intros [(H1 & H2 & H3) H4]. repeat split; lra. Qed.

Example iso_ok_nonvacuous : iso_ok 210000 (3 / 10).
Proof. unfold iso_ok, iso_admissible. lra. Qed.

(* specification of the compliance (Kelvin-Mandel) *)
Definition iso_S3_spec (E v : R) : mat :=
  blk33 (1 / E) (- v / E) (- v / E) (1 / E) (- v / E) (1 / E) ((1 + v) / E) ((1 + v) / E) ((1 + v) / E).
Definition iso_S2_ps_spec (E v : R) : mat := blk22 (1 / E) (- v / E) (1 / E) ((1 + v) / E).
Definition iso_S2_pe_spec (E v : R) : mat :=
  blk22 ((1 - v * v) / E) (- v * (1 + v) / E) ((1 - v * v) / E) ((1 + v) / E).

Theorem iso_CS_inverse_3d : forall r2 E v, r2 * r2 = 2 -> iso_ok E v ->
  mmul 6 (iso_3d_C r2 E v) (iso_S3_spec E v) = ident 6 /\
  mmul 6 (iso_S3_spec E v) (iso_3d_C r2 E v) = ident 6.
Proof.
  intros r2 E v Hr H. destruct (iso_ok_ranges E v H) as (HE & H1 & H2 & H3).
  unfold iso_S3_spec. unfold_iso. split; mat_cbv; list_eq ltac:(field; lra).
Qed.

Theorem iso_CS_inverse_ps : forall r2 E v, r2 * r2 = 2 -> iso_ok E v ->
  mmul 3 (iso_ps_C r2 E v) (iso_S2_ps_spec E v) = ident 3 /\
  mmul 3 (iso_S2_ps_spec E v) (iso_ps_C r2 E v) = ident 3.
Proof.
  intros r2 E v Hr H. destruct (iso_ok_ranges E v H) as (HE & H1 & H2 & H3).
  unfold iso_S2_ps_spec. unfold_iso. split; mat_cbv; list_eq ltac:(field; nra).
Qed.

Theorem iso_CS_inverse_pe : forall r2 E v, r2 * r2 = 2 -> iso_ok E v ->
  mmul 3 (iso_pe_C r2 E v) (iso_S2_pe_spec E v) = ident 3 /\
  mmul 3 (iso_S2_pe_spec E v) (iso_pe_C r2 E v) = ident 3.
Proof.
  intros r2 E v Hr H. destruct (iso_ok_ranges E v H) as (HE & H1 & H2 & H3).
  unfold iso_S2_pe_spec. unfold_iso. split; mat_cbv; list_eq ltac:(field; lra).
Qed.

Theorem iso_C_symmetric : forall r2 E v,
  msym 6 (iso_3d_C r2 E v) /\ msym 3 (iso_ps_C r2 E v) /\ msym 3 (iso_pe_C r2 E v).
Proof. intros. unfold_iso. repeat split; mat_cbv; list_eq ltac:(reflexivity). Qed.

(* closed forms of the Kelvin-Mandel stiffness *)
Lemma iso_3d_C_shape : forall r2 E v, r2 * r2 = 2 -> iso_ok E v ->
  iso_3d_C r2 E v =
  let a := E * (1 - v) / ((1 + v) * (1 - 2 * v)) in
  let b := E * v / ((1 + v) * (1 - 2 * v)) in
  let g := E / (1 + v) in blk33 a b b a b a g g g.
Proof.
  intros r2 E v Hr H. destruct (iso_ok_ranges E v H) as (HE & H1 & H2 & H3).
  unfold_iso. mat_cbv. list_eq ltac:(field; lra).
Qed.

Theorem iso_spd_3d : forall r2 E v, r2 * r2 = 2 -> iso_ok E v -> posdef (iso_3d_C r2 E v) 6.
Proof.
  intros r2 E v Hr H. rewrite (iso_3d_C_shape r2 E v Hr H). cbv zeta.
  destruct (iso_ok_ranges E v H) as (HE & H1 & H2 & H3).
  assert (Hd : 0 < (1 + v) * (1 - 2 * v)) by (apply Rmult_lt_0_compat; lra).
  assert (Hg : 0 < E / (1 + v)) by (apply Rdiv_lt_0_compat; lra).
  set (a := E * (1 - v) / ((1 + v) * (1 - 2 * v))).
  set (b := E * v / ((1 + v) * (1 - 2 * v))).
  assert (Ha : 0 < a) by (unfold a; apply Rdiv_lt_0_compat; [apply Rmult_lt_0_compat; lra | lra]).
  assert (Hm2 : a * a - b * b = E * E / ((1 + v) * (1 + v) * (1 - 2 * v))) by (unfold a, b; field; lra).
  assert (Hm3 : det3 a b b a b a = E * E * E / ((1 + v) * (1 + v) * (1 - 2 * v))) by (unfold det3, a, b; field; lra).
  assert (Hd2 : 0 < (1 + v) * (1 + v) * (1 - 2 * v)) by (repeat apply Rmult_lt_0_compat; lra).
  apply posdef_block33_diag; try assumption.
  - rewrite Hm2. apply Rdiv_lt_0_compat; [apply Rmult_lt_0_compat; lra | lra].
  - rewrite Hm3. apply Rdiv_lt_0_compat; [repeat apply Rmult_lt_0_compat; lra | lra].
Qed.

Lemma iso_ps_C_shape : forall r2 E v, r2 * r2 = 2 -> iso_ok E v ->
  iso_ps_C r2 E v =
  let a := E / ((1 + v) * (1 - v)) in let b := E * v / ((1 + v) * (1 - v)) in
  blk22 a b a (E / (1 + v)).
Proof.
  intros r2 E v Hr H. destruct (iso_ok_ranges E v H) as (HE & H1 & H2 & H3).
  unfold_iso. mat_cbv. list_eq ltac:(field; nra).
Qed.

Theorem iso_spd_ps : forall r2 E v, r2 * r2 = 2 -> iso_ok E v -> posdef (iso_ps_C r2 E v) 3.
Proof.
  intros r2 E v Hr H. rewrite (iso_ps_C_shape r2 E v Hr H). cbv zeta.
  destruct (iso_ok_ranges E v H) as (HE & H1 & H2 & H3).
  assert (Hd : 0 < (1 + v) * (1 - v)) by (apply Rmult_lt_0_compat; lra).
  set (a := E / ((1 + v) * (1 - v))). set (b := E * v / ((1 + v) * (1 - v))).
  assert (Hm2 : a * a - b * b = E * E / ((1 + v) * (1 - v))) by (unfold a, b; field; lra).
  apply posdef_block22_diag.
  - unfold a. apply Rdiv_lt_0_compat; lra.
  - rewrite Hm2. apply Rdiv_lt_0_compat; [apply Rmult_lt_0_compat; lra | lra].
  - apply Rdiv_lt_0_compat; lra.
Qed.

Lemma iso_pe_C_shape : forall r2 E v, r2 * r2 = 2 -> iso_ok E v ->
  iso_pe_C r2 E v =
  let a := E * (1 - v) / ((1 + v) * (1 - 2 * v)) in let b := E * v / ((1 + v) * (1 - 2 * v)) in
  blk22 a b a (E / (1 + v)).
Proof.
  intros r2 E v Hr H. destruct (iso_ok_ranges E v H) as (HE & H1 & H2 & H3).
  unfold_iso. mat_cbv. list_eq ltac:(field; lra).
Qed.

Theorem iso_spd_pe : forall r2 E v, r2 * r2 = 2 -> iso_ok E v -> posdef (iso_pe_C r2 E v) 3.
Proof.
  intros r2 E v Hr H. rewrite (iso_pe_C_shape r2 E v Hr H). cbv zeta.
  destruct (iso_ok_ranges E v H) as (HE & H1 & H2 & H3).
  assert (Hd : 0 < (1 + v) * (1 - 2 * v)) by (apply Rmult_lt_0_compat; lra).
  set (a := E * (1 - v) / ((1 + v) * (1 - 2 * v))). set (b := E * v / ((1 + v) * (1 - 2 * v))).
  assert (Hm2 : a * a - b * b = E * E / ((1 + v) * (1 + v) * (1 - 2 * v))) by (unfold a, b; field; lra).
  assert (Hd2 : 0 < (1 + v) * (1 + v) * (1 - 2 * v)) by (repeat apply Rmult_lt_0_compat; lra).
  apply posdef_block22_diag.
  - unfold a. apply Rdiv_lt_0_compat; [apply Rmult_lt_0_compat; lra | lra].
  - rewrite Hm2. apply Rdiv_lt_0_compat; [apply Rmult_lt_0_compat; lra | lra].
  - apply Rdiv_lt_0_compat; lra.
Qed.

(* plane strain: C2d is rows/cols (0,1,5) of the 3-D C;  plane stress: S2d is rows/cols
   (0,1,5) of the 3-D S (so the 3-D state induced by a plane stress has sigma_zz = 0) *)
Theorem iso_plane_strain_reduction : forall r2 E v,
  iso_pe_C r2 E v = submat [0; 1; 5]%nat (iso_3d_C r2 E v).
Proof. intros. unfold_iso. mat_cbv. list_eq ltac:(reflexivity). Qed.

Theorem iso_plane_stress_reduction : forall r2 E v, r2 * r2 = 2 -> iso_ok E v ->
  iso_S2_ps_spec E v = submat [0; 1; 5]%nat (iso_S3_spec E v) /\
  mmul 3 (iso_ps_C r2 E v) (submat [0; 1; 5]%nat (iso_S3_spec E v)) = ident 3.
Proof.
  intros r2 E v Hr H. split.
  - unfold iso_S2_ps_spec, iso_S3_spec, blk33, blk22. mat_cbv. list_eq ltac:(reflexivity).
  - destruct (iso_ok_ranges E v H) as (HE & H1 & H2 & H3).
    unfold iso_S3_spec. unfold_iso. mat_cbv. list_eq ltac:(field; nra).
Qed.

(* a plane-stress state (sxx, syy, 0, 0, 0, sxy) produces, through the 3-D compliance, the
   in-plane strains of the 2-D law; conversely the 3-D stress of the induced strain has zz = 0 *)
Theorem iso_plane_stress_sigma_zz : forall r2 E v sxx syy sxy, r2 * r2 = 2 -> iso_ok E v ->
  let eps := mv (iso_S3_spec E v) [sxx; syy; 0; 0; 0; sxy] in
  lnth 2 (mv (iso_3d_C r2 E v) eps) = 0 /\
  [lnth 0 eps; lnth 1 eps; lnth 5 eps] = mv (iso_S2_ps_spec E v) [sxx; syy; sxy].
Proof.
  intros r2 E v sxx syy sxy Hr H. destruct (iso_ok_ranges E v H) as (HE & H1 & H2 & H3).
  cbv zeta. unfold iso_S3_spec, iso_S2_ps_spec. unfold_iso. split; mat_cbv.
  - field; lra.
  - list_eq ltac:(field; lra).
Qed.

(* Lame helpers *)
Theorem iso_lame_helpers : forall E v, iso_ok E v ->
  iso_3d_get_mu E v = E / (2 * (1 + v)) /\
  iso_3d_get_lambda E v = E * v / ((1 + v) * (1 - 2 * v)) /\
  iso_3d_get_bulk E v = E / (3 * (1 - 2 * v)) /\
  iso_ps_get_lambda E v = 2 * iso_3d_get_lambda E v * iso_3d_get_mu E v / (iso_3d_get_lambda E v + 2 * iso_3d_get_mu E v) /\
  iso_pe_get_lambda E v = iso_3d_get_lambda E v /\
  iso_ps_get_bulk E v = iso_ps_get_lambda E v + iso_ps_get_mu E v /\
  0 < iso_3d_get_mu E v /\ 0 < iso_3d_get_bulk E v.
Proof.
  intros E v H. destruct (iso_ok_ranges E v H) as (HE & H1 & H2 & H3).
  unfold_iso. cbv zeta. repeat split; try (field; nra).
  - apply Rdiv_lt_0_compat; lra.
  - replace (E * v / ((1 + v) * (1 - 2 * v)) + 2 * (E / (2 * (1 + v))) / 3) with (E / (3 * (1 - 2 * v))) by (field; lra).
    apply Rdiv_lt_0_compat; lra.
Qed.

(* ------------------------------------------------------------------ Transversely isotropic *)
(* ranges enforced by the descriptors + the conditions the constructor does NOT enforce *)
Definition ti_ok (El Et Gl vl vt : R) : Prop :=
  ti_admissible El Et Gl vl vt /\ El <> 0 /\ Et <> 0 /\ Gl <> 0 /\
  0 < (1 - vt) * El - 2 * (vl * vl) * Et.          (* <=> kt > 0 *)

Example ti_ok_nonvacuous : ti_ok 11580 500 450 (2 / 100) (44 / 100).
Proof. unfold ti_ok, ti_admissible. lra. Qed.

Lemma ti_ok_ranges El Et Gl vl vt : ti_ok El Et Gl vl vt ->
  0 < El /\ 0 < Et /\ 0 < Gl /\ 0 < 1 + vt /\ 0 < 1 - vt /\ 0 < (1 - vt) * El - 2 * (vl * vl) * Et.
Proof. unfold ti_ok, ti_admissible. intros [(H1 & H2 & H3 & H4 & H5 & H6 & H7) (H8 & H9 & H10 & H11)]. repeat split; lra. Qed.

Theorem ti_CS_inverse : forall El Et Gl vl vt, ti_ok El Et Gl vl vt ->
  mmul 6 (ti_3d_cM El Et Gl vl vt) (ti_3d_sM El Et Gl vl vt) = ident 6 /\
  mmul 6 (ti_3d_sM El Et Gl vl vt) (ti_3d_cM El Et Gl vl vt) = ident 6.
Proof.
  intros El Et Gl vl vt H. destruct (ti_ok_ranges _ _ _ _ _ H) as (H1 & H2 & H3 & H4 & H5 & H6).
  unfold_ti. split; mat_cbv; list_eq ltac:(field; repeat split; lra).
Qed.

Theorem ti_C_S_symmetric : forall El Et Gl vl vt,
  msym 6 (ti_3d_cM El Et Gl vl vt) /\ msym 6 (ti_3d_sM El Et Gl vl vt).
Proof. intros. unfold_ti. split; mat_cbv; list_eq ltac:(reflexivity). Qed.

(* conditional (partial): positive definite under ti_ok; the condition on kt is not enforced
   by the constructor.  Full statement wanted: posdef <-> ti_ok-conditions. *)
Theorem ti_spd_conditional_partial : forall El Et Gl vl vt, ti_ok El Et Gl vl vt ->
  posdef (ti_3d_cM El Et Gl vl vt) 6 /\ posdef (ti_3d_sM El Et Gl vl vt) 6.
Proof.
  intros El Et Gl vl vt H. destruct (ti_ok_ranges _ _ _ _ _ H) as (H1 & H2 & H3 & H4 & H5 & H6).
  pose (D := (1 - vt) * El - 2 * (vl * vl) * Et).
  assert (HD : 0 < D) by exact H6.
  set (kt := El * Et / (2 * D)). set (Gt := Et / (2 * (1 + vt))).
  assert (Hkt : 0 < kt) by (unfold kt; apply Rdiv_lt_0_compat; [apply Rmult_lt_0_compat|]; lra).
  assert (HGt : 0 < Gt) by (unfold Gt; apply Rdiv_lt_0_compat; lra).
  split.
  - assert (E : ti_3d_cM El Et Gl vl vt =
      blk33 (El + 4 * (vl * vl) * kt) (2 * kt * vl) (2 * kt * vl) (kt + Gt) (kt - Gt) (kt + Gt)
            (2 * Gt) (2 * Gl) (2 * Gl)).
    { unfold_ti. unfold kt, Gt, D. mat_cbv. list_eq ltac:(field; repeat split; lra). }
    rewrite E. clear E.
    assert (0 < vl * vl * kt \/ vl * vl * kt = 0).
    { destruct (Req_dec vl 0) as [->|Hv]; [right; ring | left; apply Rmult_lt_0_compat; [apply sq_pos; auto | auto]]. }
    assert (Ha : 0 < El + 4 * (vl * vl) * kt) by (destruct H0; nra).
    apply posdef_block33_diag; try lra.
    + (* second minor = El*kt + El*Gt + 4 vl^2 kt Gt *)
      replace ((El + 4 * (vl * vl) * kt) * (kt + Gt) - 2 * kt * vl * (2 * kt * vl))
        with (El * kt + El * Gt + 4 * (vl * vl * kt) * Gt) by ring.
      assert (0 < El * kt) by (apply Rmult_lt_0_compat; lra).
      assert (0 < El * Gt) by (apply Rmult_lt_0_compat; lra).
      destruct H0 as [H0|H0]; [|rewrite H0; lra].
      assert (0 < vl * vl * kt * Gt) by (apply Rmult_lt_0_compat; lra). lra.
    + (* determinant = 4 Gt El kt *)
      replace (det3 (El + 4 * (vl * vl) * kt) (2 * kt * vl) (2 * kt * vl) (kt + Gt) (kt - Gt) (kt + Gt))
        with (4 * (Gt * (El * kt))) by (unfold det3; ring).
      assert (0 < Gt * (El * kt)) by (apply Rmult_lt_0_compat; [lra | apply Rmult_lt_0_compat; lra]). lra.
  - assert (E : ti_3d_sM El Et Gl vl vt =
      blk33 (1 / El) (- vl / El) (- vl / El) (1 / Et) (- vt / Et) (1 / Et)
            (1 / (2 * Gt)) (1 / (2 * Gl)) (1 / (2 * Gl))).
    { unfold_ti. unfold Gt. mat_cbv. list_eq ltac:(reflexivity). }
    rewrite E. clear E.
    apply posdef_block33_diag.
    + apply Rdiv_lt_0_compat; lra.
    + replace (1 / El * (1 / Et) - - vl / El * (- vl / El)) with ((El - vl * vl * Et) / (El * El * Et)) by (field; lra).
      apply Rdiv_lt_0_compat; [nra | repeat apply Rmult_lt_0_compat; lra].
    + replace (det3 (1 / El) (- vl / El) (- vl / El) (1 / Et) (- vt / Et) (1 / Et))
        with ((1 + vt) * D / (El * El * Et * Et)) by (unfold det3, D; field; lra).
      apply Rdiv_lt_0_compat; [apply Rmult_lt_0_compat; lra | repeat apply Rmult_lt_0_compat; lra].
    + apply Rdiv_lt_0_compat; lra.
    + apply Rdiv_lt_0_compat; lra.
    + apply Rdiv_lt_0_compat; lra.
Qed.

(* ------------------------------------------------------------------ Orthotropic *)
Definition ortho_ok (E1 E2 E3 G23 G13 G12 v23 v13 v12 : R) : Prop :=
  ortho_admissible E1 E2 E3 G23 G13 G12 v23 v13 v12 /\
  E1 <> 0 /\ E2 <> 0 /\ E3 <> 0 /\ G23 <> 0 /\ G13 <> 0 /\ G12 <> 0 /\
  E3 * (v23 * v23) < E2 /\                                   (* asserted in _Behavior *)
  ortho_3d_get_cij_denominator E1 E2 E3 G23 G13 G12 v23 v13 v12 < 0.   (* NOT enforced *)

Example ortho_ok_nonvacuous : ortho_ok 100 50 20 8 9 10 (1/10) (2/10) (3/10).
Proof. unfold ortho_ok, ortho_admissible, ortho_3d_get_cij_denominator. lra. Qed.

Lemma ortho_ok_ranges E1 E2 E3 G23 G13 G12 v23 v13 v12 : ortho_ok E1 E2 E3 G23 G13 G12 v23 v13 v12 ->
  0 < E1 /\ 0 < E2 /\ 0 < E3 /\ 0 < G23 /\ 0 < G13 /\ 0 < G12 /\ E3 * (v23 * v23) < E2 /\
  ortho_3d_get_cij_denominator E1 E2 E3 G23 G13 G12 v23 v13 v12 < 0.
Proof.
  unfold ortho_ok, ortho_admissible. intros [H (H1 & H2 & H3 & H4 & H5 & H6 & H7 & H8)].
  decompose [and] H. repeat split; lra.
Qed.

Theorem ortho_CS_inverse : forall E1 E2 E3 G23 G13 G12 v23 v13 v12,
  ortho_ok E1 E2 E3 G23 G13 G12 v23 v13 v12 ->
  mmul 6 (ortho_3d_cM E1 E2 E3 G23 G13 G12 v23 v13 v12) (ortho_3d_sM E1 E2 E3 G23 G13 G12 v23 v13 v12) = ident 6 /\
  mmul 6 (ortho_3d_sM E1 E2 E3 G23 G13 G12 v23 v13 v12) (ortho_3d_cM E1 E2 E3 G23 G13 G12 v23 v13 v12) = ident 6.
Proof.
  intros E1 E2 E3 G23 G13 G12 v23 v13 v12 H.
  destruct (ortho_ok_ranges _ _ _ _ _ _ _ _ _ H) as (H1 & H2 & H3 & H4 & H5 & H6 & H7 & H8).
  unfold ortho_3d_get_cij_denominator in H8.
  unfold_ortho. split; mat_cbv; list_eq ltac:(field; repeat split; lra).
Qed.

Theorem ortho_C_S_symmetric : forall E1 E2 E3 G23 G13 G12 v23 v13 v12,
  msym 6 (ortho_3d_cM E1 E2 E3 G23 G13 G12 v23 v13 v12) /\ msym 6 (ortho_3d_sM E1 E2 E3 G23 G13 G12 v23 v13 v12).
Proof. intros. unfold_ortho. split; mat_cbv; list_eq ltac:(reflexivity). Qed.

(* conditional (partial): under ortho_ok (which contains the un-enforced sign condition on the
   c_ij denominator) the stiffness is positive definite. *)
Theorem ortho_spd_conditional_partial : forall E1 E2 E3 G23 G13 G12 v23 v13 v12,
  ortho_ok E1 E2 E3 G23 G13 G12 v23 v13 v12 ->
  posdef (ortho_3d_cM E1 E2 E3 G23 G13 G12 v23 v13 v12) 6.
Proof.
  intros E1 E2 E3 G23 G13 G12 v23 v13 v12 H.
  destruct (ortho_ok_ranges _ _ _ _ _ _ _ _ _ H) as (H1 & H2 & H3 & H4 & H5 & H6 & H7 & H8).
  unfold ortho_3d_cM. cbv zeta. fold (blk33 (ortho_3d_c11 E1 E2 E3 G23 G13 G12 v23 v13 v12)
     (ortho_3d_c12 E1 E2 E3 G23 G13 G12 v23 v13 v12) (ortho_3d_c13 E1 E2 E3 G23 G13 G12 v23 v13 v12)
     (ortho_3d_c22 E1 E2 E3 G23 G13 G12 v23 v13 v12) (ortho_3d_c23 E1 E2 E3 G23 G13 G12 v23 v13 v12)
     (ortho_3d_c33 E1 E2 E3 G23 G13 G12 v23 v13 v12) (ortho_3d_c44 E1 E2 E3 G23 G13 G12 v23 v13 v12)
     (ortho_3d_c55 E1 E2 E3 G23 G13 G12 v23 v13 v12) (ortho_3d_c66 E1 E2 E3 G23 G13 G12 v23 v13 v12)).
  pose proof H8 as H8'. unfold ortho_3d_get_cij_denominator in H8'.
  set (den := ortho_3d_get_cij_denominator E1 E2 E3 G23 G13 G12 v23 v13 v12) in *.
  assert (Hnd : 0 < - den) by lra.
  assert (X1 : ortho_3d_c11 E1 E2 E3 G23 G13 G12 v23 v13 v12 = E1 * E1 * (E2 - E3 * (v23 * v23)) / - den).
  { unfold ortho_3d_c11, den, ortho_3d_get_cij_denominator. cbv zeta. field. lra. }
  assert (X2 : ortho_3d_c11 E1 E2 E3 G23 G13 G12 v23 v13 v12 * ortho_3d_c22 E1 E2 E3 G23 G13 G12 v23 v13 v12 -
             ortho_3d_c12 E1 E2 E3 G23 G13 G12 v23 v13 v12 * ortho_3d_c12 E1 E2 E3 G23 G13 G12 v23 v13 v12
             = E1 * E1 * (E2 * E2) / - den).
  { unfold ortho_3d_c11, ortho_3d_c22, ortho_3d_c12, den, ortho_3d_get_cij_denominator. cbv zeta. field. lra. }
  assert (X3 : det3 (ortho_3d_c11 E1 E2 E3 G23 G13 G12 v23 v13 v12) (ortho_3d_c12 E1 E2 E3 G23 G13 G12 v23 v13 v12)
                  (ortho_3d_c13 E1 E2 E3 G23 G13 G12 v23 v13 v12) (ortho_3d_c22 E1 E2 E3 G23 G13 G12 v23 v13 v12)
                  (ortho_3d_c23 E1 E2 E3 G23 G13 G12 v23 v13 v12) (ortho_3d_c33 E1 E2 E3 G23 G13 G12 v23 v13 v12)
             = E1 * E1 * (E2 * E2) * E3 / - den).
  { unfold det3, ortho_3d_c11, ortho_3d_c22, ortho_3d_c12, ortho_3d_c13, ortho_3d_c23, ortho_3d_c33, den, ortho_3d_get_cij_denominator.
    cbv zeta. field. lra. }
  apply posdef_block33_diag.
  - rewrite X1. apply Rdiv_lt_0_compat; [repeat apply Rmult_lt_0_compat; lra | lra].
  - rewrite X2. apply Rdiv_lt_0_compat; [repeat apply Rmult_lt_0_compat; lra | lra].
  - rewrite X3. apply Rdiv_lt_0_compat; [repeat apply Rmult_lt_0_compat; lra | lra].
  - unfold ortho_3d_c44. lra.
  - unfold ortho_3d_c55. lra.
  - unfold ortho_3d_c66. lra.
Qed.

(* ------------------------------------------------------------------ plane reductions (TI / ortho) *)
Theorem ti_plane_reductions : forall P El Et Gl vl vt,
  ti_pe_C P El Et Gl vl vt = submat [0; 1; 5]%nat (ti_3d_C P El Et Gl vl vt) /\
  ti_ps_S P El Et Gl vl vt = submat [0; 1; 5]%nat (ti_3d_S P El Et Gl vl vt).
Proof. intros. split; reflexivity. Qed.

Theorem ortho_plane_reductions : forall P E1 E2 E3 G23 G13 G12 v23 v13 v12,
  ortho_pe_C P E1 E2 E3 G23 G13 G12 v23 v13 v12 = submat [0; 1; 5]%nat (ortho_3d_C P E1 E2 E3 G23 G13 G12 v23 v13 v12) /\
  ortho_ps_S P E1 E2 E3 G23 G13 G12 v23 v13 v12 = submat [0; 1; 5]%nat (ortho_3d_S P E1 E2 E3 G23 G13 G12 v23 v13 v12).
Proof. intros. split; reflexivity. Qed.

Print Assumptions iso_CS_inverse_3d.
Print Assumptions iso_spd_3d.
Print Assumptions iso_spd_ps.
Print Assumptions iso_spd_pe.
Print Assumptions iso_plane_stress_reduction.
Print Assumptions ti_CS_inverse.
Print Assumptions ti_spd_conditional_partial.
Print Assumptions ortho_CS_inverse.
Print Assumptions ortho_spd_conditional_partial.
