(* C11 — Anisotropic law: if the user's stiffness C (Voigt notation) is symmetric positive definite, so is
   the law the class builds: the Kelvin-Mandel scaling is a congruence by D = diag(1,1,1,r2,r2,r2), the
   change of basis a congruence by the orthogonal Get_Pmat, and in 2-D (in-plane axes) the detour through the
   6x6 embedding + extraction of rows/cols (0,1,5) IS the 3x3 change of basis by Get_Pmat of the 2-D axes. *)
From Coq Require Import Reals List Lra Psatz Nsatz.
From EFLib Require Import C11_MatR.
From EFP Require Import Gen_Pmat Gen_Laws C11_wf C11_pmat C11_rot C11_aniso C11_aniso3d.
Import ListNotations.
Open Scope R_scope.

Lemma wf3_expand M : wf 3 M -> exists a b c d e f g h i, M = [[a; b; c]; [d; e; f]; [g; h; i]].
Proof.
  intro H. destruct (wf3_inv M H) as (x1 & x2 & x3 & -> & L1 & L2 & L3).
  destruct (len3 _ L1) as (? & ? & ? & ->). destruct (len3 _ L2) as (? & ? & ? & ->).
  destruct (len3 _ L3) as (? & ? & ? & ->). repeat eexists.
Qed.

Lemma r2_neq0 r2 : r2 * r2 = 2 -> r2 <> 0.
Proof. intros H E. rewrite E in H. lra. Qed.

(* ---- Kelvin-Mandel scaling preserves symmetry and positive definiteness *)
Theorem km3_posdef : forall r2 M, r2 * r2 = 2 -> wf 6 M -> posdef M 6 -> posdef (km3 r2 M) 6.
Proof.
  intros r2 M Hr HM HP x Hx [k Hk].
  destruct (len6 x Hx) as (x1&x2&x3&x4&x5&x6&->).
  assert (E : qf (km3 r2 M) [x1; x2; x3; x4; x5; x6] = qf M [x1; x2; x3; r2 * x4; r2 * x5; r2 * x6]).
  { destruct (wf6_expand M HM) as (m11&m12&m13&m14&m15&m16&m21&m22&m23&m24&m25&m26&m31&m32&m33&m34&m35&m36&
      m41&m42&m43&m44&m45&m46&m51&m52&m53&m54&m55&m56&m61&m62&m63&m64&m65&m66&->).
    clear - Hr. unfold km3, km_T3. mat_cbv. nsatz. }
  rewrite E. apply HP; [reflexivity|].
  pose proof (r2_neq0 r2 Hr) as Hn.
  do 6 (destruct k as [|k]; [cbv [lnth] in *; first [now exists 0%nat | now exists 1%nat | now exists 2%nat
       | exists 3%nat; cbv [lnth]; nra | exists 4%nat; cbv [lnth]; nra | exists 5%nat; cbv [lnth]; nra]|]).
  exfalso. destruct k; cbv [lnth] in Hk; lra.
Qed.

Theorem km2_posdef : forall r2 M, r2 * r2 = 2 -> wf 3 M -> posdef M 3 -> posdef (km2 r2 M) 3.
Proof.
  intros r2 M Hr HM HP x Hx [k Hk].
  destruct (len3 x Hx) as (x1&x2&x3&->).
  assert (E : qf (km2 r2 M) [x1; x2; x3] = qf M [x1; x2; r2 * x3]).
  { destruct (wf3_expand M HM) as (m11&m12&m13&m21&m22&m23&m31&m32&m33&->).
    clear - Hr. unfold km2, km_T2. mat_cbv. nsatz. }
  rewrite E. apply HP; [reflexivity|].
  pose proof (r2_neq0 r2 Hr) as Hn.
  do 3 (destruct k as [|k]; [cbv [lnth] in *; first [now exists 0%nat | now exists 1%nat | exists 2%nat; cbv [lnth]; nra]|]).
  exfalso. destruct k; cbv [lnth] in Hk; lra.
Qed.

Theorem km_symmetric : forall r2 M3 M6, wf 3 M3 -> wf 6 M6 ->
  (msym 3 M3 -> msym 3 (km2 r2 M3)) /\ (msym 6 M6 -> msym 6 (km3 r2 M6)).
Proof.
  intros r2 M3 M6 H3 H6. split; intro HS.
  - destruct (wf3_expand M3 H3) as (m11&m12&m13&m21&m22&m23&m31&m32&m33&->).
    revert HS. unfold msym, km2, km_T2. mat_cbv. intro HS. injection HS. intros. subst. reflexivity.
  - destruct (wf6_expand M6 H6) as (m11&m12&m13&m14&m15&m16&m21&m22&m23&m24&m25&m26&m31&m32&m33&m34&m35&m36&
      m41&m42&m43&m44&m45&m46&m51&m52&m53&m54&m55&m56&m61&m62&m63&m64&m65&m66&->).
    revert HS. unfold msym, km3, km_T3. mat_cbv. intro HS. injection HS. intros. subst. reflexivity.
Qed.

(* ---- 3-D: the law built from an SPD Voigt matrix is SPD, for every orthonormal material frame *)
Theorem aniso_3d_spd : forall a1 a2 a3 b1 b2 b3 r2 C, r2 * r2 = 2 -> unit_orth3 a1 a2 a3 b1 b2 b3 ->
  wf 6 C -> posdef C 6 ->
  posdef (apply_pmat_global 6 (pmat3 a1 a2 a3 b1 b2 b3 1 1 r2) (aniso_inner_3d_voigt r2 C)) 6.
Proof.
  intros * Hr HO HC HP.
  rewrite (aniso_voigt_kelvin_consistent_3d r2 C HC).
  assert (Hk : wf 6 (km3 r2 C)).
  { destruct (wf6_expand C HC) as (m11&m12&m13&m14&m15&m16&m21&m22&m23&m24&m25&m26&m31&m32&m33&m34&m35&m36&
      m41&m42&m43&m44&m45&m46&m51&m52&m53&m54&m55&m56&m61&m62&m63&m64&m65&m66&->).
    unfold km3, km_T3. mat_cbv. split; [reflexivity | repeat constructor]. }
  rewrite (aniso_kelvin_input_3d r2 _ Hk).
  destruct (pmat3_orthogonal a1 a2 a3 b1 b2 b3 r2 Hr HO) as [HPPt _].
  apply rotated_law_posdef; try assumption.
  - unfold pmat3. split; [reflexivity | repeat constructor].
  - apply km3_posdef; assumption.
Qed.

(* ---- 2-D: embedding at rows/cols (0,1,5), 6x6 change of basis with IN-PLANE axes, extraction of rows/cols
        (0,1,5)  ==  3x3 change of basis with Get_Pmat of the 2-D axes *)
Theorem aniso_2d_pipeline_is_pmat2 : forall a1 a2 b1 b2 r2 M, wf 3 M ->
  submat [0; 1; 5]%nat (apply_pmat_global 6 (pmat3 a1 a2 0 b1 b2 0 1 1 r2) (embed 6 [0; 1; 5]%nat M))
  = apply_pmat_global 3 (pmat2 a1 a2 b1 b2 1 1 r2) M.
Proof.
  intros * HM. destruct (wf3_expand M HM) as (m11&m12&m13&m21&m22&m23&m31&m32&m33&->).
  unfold apply_pmat_global, pmat3, pmat2. mat_cbv. try unfold Rdiv; rewrite ?Rinv_1. list_eq ltac:(ring).
Qed.

Lemma qf_congruence3 : forall P C x, wf 3 P -> wf 3 C -> length x = 3%nat ->
  qf (apply_pmat_global 3 P C) x = qf C (mv (mtrans 3 P) x).
Proof.
  intros P C x HP HC Hx.
  destruct (wf3_expand P HP) as (p11&p12&p13&p21&p22&p23&p31&p32&p33&->).
  destruct (wf3_expand C HC) as (c11&c12&c13&c21&c22&c23&c31&c32&c33&->).
  destruct (len3 x Hx) as (x1&x2&x3&->). unfold apply_pmat_global. mat_cbv. ring.
Qed.

Theorem rotated_law_posdef3 : forall P C, wf 3 P -> wf 3 C ->
  mmul 3 P (mtrans 3 P) = ident 3 -> posdef C 3 -> posdef (apply_pmat_global 3 P C) 3.
Proof.
  intros P C HP HC HO HC3 x Hx [k Hk].
  rewrite (qf_congruence3 P C x HP HC Hx).
  destruct (wf3_expand P HP) as (p11&p12&p13&p21&p22&p23&p31&p32&p33&EP).
  destruct (len3 x Hx) as (x1&x2&x3&Ex). subst P x.
  apply HC3; [reflexivity|].
  set (y1 := lnth 0 (mv (mtrans 3 [[p11; p12; p13]; [p21; p22; p23]; [p31; p32; p33]]) [x1; x2; x3])).
  set (y2 := lnth 1 (mv (mtrans 3 [[p11; p12; p13]; [p21; p22; p23]; [p31; p32; p33]]) [x1; x2; x3])).
  set (y3 := lnth 2 (mv (mtrans 3 [[p11; p12; p13]; [p21; p22; p23]; [p31; p32; p33]]) [x1; x2; x3])).
  destruct (Req_dec y1 0) as [E1|E1]; [|exists 0%nat; exact E1].
  destruct (Req_dec y2 0) as [E2|E2]; [|exists 1%nat; exact E2].
  destruct (Req_dec y3 0) as [E3|E3]; [|exists 2%nat; exact E3].
  exfalso. revert HO E1 E2 E3. unfold y1, y2, y3. mat_cbv. intros HO E1 E2 E3.
  injection HO as A1 A2 A3 A4 A5 A6 A7 A8 A9.
  (* x = P (P^T x) = 0 *)
  assert (X1 : x1 = 0) by nsatz. assert (X2 : x2 = 0) by nsatz. assert (X3 : x3 = 0) by nsatz.
  apply Hk. do 3 (destruct k as [|k]; [cbv [lnth]; assumption|]). destruct k; reflexivity.
Qed.

Theorem aniso_2d_spd : forall a1 a2 b1 b2 r2 C, r2 * r2 = 2 -> unit_orth2 a1 a2 b1 b2 ->
  wf 3 C -> posdef C 3 ->
  posdef (submat aniso_idx_2d_voigt
            (apply_pmat_global 6 (pmat3 a1 a2 0 b1 b2 0 1 1 r2) (aniso_inner_2d_voigt r2 C))) 3.
Proof.
  intros * Hr HO HC HP.
  assert (Hk : wf 3 (km2 r2 C)).
  { destruct (wf3_expand C HC) as (m11&m12&m13&m21&m22&m23&m31&m32&m33&->).
    unfold km2, km_T2. mat_cbv. split; [reflexivity | repeat constructor]. }
  rewrite (aniso_voigt_kelvin_consistent_2d r2 C HC).
  destruct (aniso_kelvin_input_2d r2 (km2 r2 C) Hk) as (E1 & _ & E3 & _). rewrite E1, E3.
  rewrite (aniso_2d_pipeline_is_pmat2 a1 a2 b1 b2 r2 _ Hk).
  destruct (pmat2_orthogonal a1 a2 b1 b2 r2 Hr HO) as [HPPt _].
  apply rotated_law_posdef3; try assumption.
  - unfold pmat2. split; [reflexivity | repeat constructor].
  - apply km2_posdef; assumption.
Qed.

Example aniso_spd_nonvacuous : posdef (ident 3) 3 /\ wf 3 (ident 3).
Proof.
  split; [|split; [reflexivity | repeat constructor]].
  intros x Hx [k Hk]. destruct (len3 x Hx) as (x1&x2&x3&->). mat_cbv.
  do 3 (destruct k as [|k]; [cbv [lnth] in Hk; pose proof (sq_pos _ Hk); pose proof (sq_nn x1); pose proof (sq_nn x2); pose proof (sq_nn x3); nra|]).
  exfalso. destruct k; cbv [lnth] in Hk; lra.
Qed.

Print Assumptions aniso_3d_spd.
Print Assumptions aniso_2d_spd.
