(* C11 — Get_Pmat with axes of any length: the helper's own normalisation step must make the
   result independent of the length of the axes.  n1, n2 are the norms np.linalg.norm(axis_i)
   the source computes.  (On a tree where the normalisation multiplies by the norm instead of
   dividing, this file does not compile; the driver then machine-checks a refutation.) *)
From Coq Require Import Reals List Lra Psatz Nsatz.
From EFLib Require Import C11_MatR.
From EFP Require Import Gen_Pmat C11_pmat.
Import ListNotations.
Open Scope R_scope.

Theorem pmat3_normalises : forall a1 a2 a3 b1 b2 b3 n1 n2 r2, 0 < n1 -> 0 < n2 ->
  pmat3 a1 a2 a3 b1 b2 b3 n1 n2 r2 = pmat3 (a1 / n1) (a2 / n1) (a3 / n1) (b1 / n2) (b2 / n2) (b3 / n2) 1 1 r2.
Proof. intros. unfold pmat3. list_eq ltac:(field; lra). Qed.

Theorem pmat2_normalises : forall a1 a2 b1 b2 n1 n2 r2, 0 < n1 -> 0 < n2 ->
  pmat2 a1 a2 b1 b2 n1 n2 r2 = pmat2 (a1 / n1) (a2 / n1) (b1 / n2) (b2 / n2) 1 1 r2.
Proof. intros. unfold pmat2. list_eq ltac:(field; lra). Qed.

(* hence: orthogonal P for merely orthogonal, non-zero axes of any length *)
Theorem pmat3_orthogonal_any_length : forall a1 a2 a3 b1 b2 b3 n1 n2 r2, r2 * r2 = 2 ->
  0 < n1 -> 0 < n2 -> n1 * n1 = a1 * a1 + a2 * a2 + a3 * a3 -> n2 * n2 = b1 * b1 + b2 * b2 + b3 * b3 ->
  a1 * b1 + a2 * b2 + a3 * b3 = 0 ->
  let P := pmat3 a1 a2 a3 b1 b2 b3 n1 n2 r2 in
  mmul 6 P (mtrans 6 P) = ident 6 /\ mmul 6 (mtrans 6 P) P = ident 6.
Proof.
  intros a1 a2 a3 b1 b2 b3 n1 n2 r2 Hr H1 H2 Hn1 Hn2 Hab P. unfold P.
  rewrite (pmat3_normalises a1 a2 a3 b1 b2 b3 n1 n2 r2 H1 H2).
  apply pmat3_orthogonal; [exact Hr|]. unfold unit_orth3. repeat split.
  - replace (a1 / n1 * (a1 / n1) + a2 / n1 * (a2 / n1) + a3 / n1 * (a3 / n1))
      with ((a1 * a1 + a2 * a2 + a3 * a3) / (n1 * n1)) by (field; lra). rewrite <- Hn1. field; lra.
  - replace (b1 / n2 * (b1 / n2) + b2 / n2 * (b2 / n2) + b3 / n2 * (b3 / n2))
      with ((b1 * b1 + b2 * b2 + b3 * b3) / (n2 * n2)) by (field; lra). rewrite <- Hn2. field; lra.
  - replace (a1 / n1 * (b1 / n2) + a2 / n1 * (b2 / n2) + a3 / n1 * (b3 / n2))
      with ((a1 * b1 + a2 * b2 + a3 * b3) / (n1 * n2)) by (field; lra). rewrite Hab. field; lra.
Qed.

Theorem pmat2_orthogonal_any_length : forall a1 a2 b1 b2 n1 n2 r2, r2 * r2 = 2 ->
  0 < n1 -> 0 < n2 -> n1 * n1 = a1 * a1 + a2 * a2 -> n2 * n2 = b1 * b1 + b2 * b2 ->
  a1 * b1 + a2 * b2 = 0 ->
  let P := pmat2 a1 a2 b1 b2 n1 n2 r2 in
  mmul 3 P (mtrans 3 P) = ident 3 /\ mmul 3 (mtrans 3 P) P = ident 3.
Proof.
  intros a1 a2 b1 b2 n1 n2 r2 Hr H1 H2 Hn1 Hn2 Hab P. unfold P.
  rewrite (pmat2_normalises a1 a2 b1 b2 n1 n2 r2 H1 H2).
  apply pmat2_orthogonal; [exact Hr|]. unfold unit_orth2. repeat split.
  - replace (a1 / n1 * (a1 / n1) + a2 / n1 * (a2 / n1))
      with ((a1 * a1 + a2 * a2) / (n1 * n1)) by (field; lra). rewrite <- Hn1. field; lra.
  - replace (b1 / n2 * (b1 / n2) + b2 / n2 * (b2 / n2))
      with ((b1 * b1 + b2 * b2) / (n2 * n2)) by (field; lra). rewrite <- Hn2. field; lra.
  - replace (a1 / n1 * (b1 / n2) + a2 / n1 * (b2 / n2))
      with ((a1 * b1 + a2 * b2) / (n1 * n2)) by (field; lra). rewrite Hab. field; lra.
Qed.

Example any_length_nonvacuous : 0 < 5 /\ 5 * 5 = 3 * 3 + 4 * 4 + 0 * 0 /\ 0 < 2 /\ 2 * 2 = 0 * 0 + 0 * 0 + 2 * 2 /\ 3 * 0 + 4 * 0 + 0 * 2 = 0.
Proof. lra. Qed.

Print Assumptions pmat3_orthogonal_any_length.
Print Assumptions pmat2_orthogonal_any_length.
