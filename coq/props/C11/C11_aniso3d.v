(* C11 — Anisotropic law: supplying the stiffness in Voigt notation (useVoigtNotation=True)
   must give the same law as supplying the equivalent Kelvin-Mandel matrix
   (useVoigtNotation=False).  aniso_inner_* is the matrix `_Behavior` hands to Apply_Pmat,
   regenerated from the source.  (On a tree where the 3-D branch forgets the Voigt->Kelvin
   conversion this file does not compile; the driver then machine-checks a refutation.) *)
From Coq Require Import Reals List Lra Psatz Nsatz.
From EFLib Require Import C11_MatR.
From EFP Require Import Gen_Pmat Gen_Laws C11_wf.
Import ListNotations.
Open Scope R_scope.

Theorem aniso_voigt_kelvin_consistent_3d : forall r2 M, wf 6 M ->
  aniso_inner_3d_voigt r2 M = aniso_inner_3d_kelvin r2 (km3 r2 M).
Proof.
  intros r2 M H. destruct (wf6_inv M H) as (x1 & x2 & x3 & x4 & x5 & x6 & -> & L1 & L2 & L3 & L4 & L5 & L6).
  destruct (len6 _ L1) as (? & ? & ? & ? & ? & ? & ->). destruct (len6 _ L2) as (? & ? & ? & ? & ? & ? & ->).
  destruct (len6 _ L3) as (? & ? & ? & ? & ? & ? & ->). destruct (len6 _ L4) as (? & ? & ? & ? & ? & ? & ->).
  destruct (len6 _ L5) as (? & ? & ? & ? & ? & ? & ->). destruct (len6 _ L6) as (? & ? & ? & ? & ? & ? & ->).
  unfold aniso_inner_3d_voigt, aniso_inner_3d_kelvin, km3, km_T3. mat_cbv. list_eq ltac:(ring).
Qed.

Print Assumptions aniso_voigt_kelvin_consistent_3d.
