(* C11 — a law rotated by an orthogonal change-of-basis matrix stays symmetric positive
   definite: generic statement for Apply_Pmat(P, C, toGlobal=True) = P C P^T (as translated). *)
From Coq Require Import Reals List Lra Psatz.
From EFLib Require Import C11_MatR.
From EFP Require Import Gen_Pmat C11_wf.
Import ListNotations.
Open Scope R_scope.

Lemma wf6_expand M : wf 6 M -> exists a1 a2 a3 a4 a5 a6 b1 b2 b3 b4 b5 b6 c1 c2 c3 c4 c5 c6
  d1 d2 d3 d4 d5 d6 e1 e2 e3 e4 e5 e6 f1 f2 f3 f4 f5 f6,
  M = [[a1;a2;a3;a4;a5;a6];[b1;b2;b3;b4;b5;b6];[c1;c2;c3;c4;c5;c6];
       [d1;d2;d3;d4;d5;d6];[e1;e2;e3;e4;e5;e6];[f1;f2;f3;f4;f5;f6]].
Proof.
  intros H. destruct (wf6_inv M H) as (x1 & x2 & x3 & x4 & x5 & x6 & -> & L1 & L2 & L3 & L4 & L5 & L6).
  destruct (len6 _ L1) as (? & ? & ? & ? & ? & ? & ->). destruct (len6 _ L2) as (? & ? & ? & ? & ? & ? & ->).
  destruct (len6 _ L3) as (? & ? & ? & ? & ? & ? & ->). destruct (len6 _ L4) as (? & ? & ? & ? & ? & ? & ->).
  destruct (len6 _ L5) as (? & ? & ? & ? & ? & ? & ->). destruct (len6 _ L6) as (? & ? & ? & ? & ? & ? & ->).
  repeat eexists.
Qed.

Lemma qf_congruence : forall P C x, wf 6 P -> wf 6 C -> length x = 6%nat ->
  qf (apply_pmat_global 6 P C) x = qf C (mv (mtrans 6 P) x).
Proof.
  intros P C x HP HC Hx.
  destruct (wf6_expand P HP) as (p11&p12&p13&p14&p15&p16&p21&p22&p23&p24&p25&p26&p31&p32&p33&p34&p35&p36&
    p41&p42&p43&p44&p45&p46&p51&p52&p53&p54&p55&p56&p61&p62&p63&p64&p65&p66&->).
  destruct (wf6_expand C HC) as (c11&c12&c13&c14&c15&c16&c21&c22&c23&c24&c25&c26&c31&c32&c33&c34&c35&c36&
    c41&c42&c43&c44&c45&c46&c51&c52&c53&c54&c55&c56&c61&c62&c63&c64&c65&c66&->).
  destruct (len6 x Hx) as (x1&x2&x3&x4&x5&x6&->).
  unfold apply_pmat_global. mat_cbv. ring.
Qed.

Lemma mv_PPt : forall P x, wf 6 P -> length x = 6%nat ->
  mv (mmul 6 P (mtrans 6 P)) x = mv P (mv (mtrans 6 P) x).
Proof.
  intros P x HP Hx.
  destruct (wf6_expand P HP) as (p11&p12&p13&p14&p15&p16&p21&p22&p23&p24&p25&p26&p31&p32&p33&p34&p35&p36&
    p41&p42&p43&p44&p45&p46&p51&p52&p53&p54&p55&p56&p61&p62&p63&p64&p65&p66&->).
  destruct (len6 x Hx) as (x1&x2&x3&x4&x5&x6&->).
  mat_cbv. list_eq ltac:(ring).
Qed.

Theorem rotated_law_posdef : forall P C, wf 6 P -> wf 6 C ->
  mmul 6 P (mtrans 6 P) = ident 6 -> posdef C 6 -> posdef (apply_pmat_global 6 P C) 6.
Proof.
  intros P C HP HC HO HC6 x Hx [k Hk].
  rewrite (qf_congruence P C x HP HC Hx).
  assert (Hl : length (mv (mtrans 6 P) x) = 6%nat).
  { destruct (wf6_expand P HP) as (p11&p12&p13&p14&p15&p16&p21&p22&p23&p24&p25&p26&p31&p32&p33&p34&p35&p36&
      p41&p42&p43&p44&p45&p46&p51&p52&p53&p54&p55&p56&p61&p62&p63&p64&p65&p66&->). reflexivity. }
  apply HC6; [exact Hl|].
  destruct (len6 _ Hl) as (y1&y2&y3&y4&y5&y6&Hy).
  destruct (Req_dec y1 0) as [E1|E1]; [|exists 0%nat; rewrite Hy; exact E1].
  destruct (Req_dec y2 0) as [E2|E2]; [|exists 1%nat; rewrite Hy; exact E2].
  destruct (Req_dec y3 0) as [E3|E3]; [|exists 2%nat; rewrite Hy; exact E3].
  destruct (Req_dec y4 0) as [E4|E4]; [|exists 3%nat; rewrite Hy; exact E4].
  destruct (Req_dec y5 0) as [E5|E5]; [|exists 4%nat; rewrite Hy; exact E5].
  destruct (Req_dec y6 0) as [E6|E6]; [|exists 5%nat; rewrite Hy; exact E6].
  exfalso. subst y1 y2 y3 y4 y5 y6.
  pose proof (mv_PPt P x HP Hx) as H. rewrite HO, Hy in H.
  destruct (wf6_expand P HP) as (p11&p12&p13&p14&p15&p16&p21&p22&p23&p24&p25&p26&p31&p32&p33&p34&p35&p36&
      p41&p42&p43&p44&p45&p46&p51&p52&p53&p54&p55&p56&p61&p62&p63&p64&p65&p66&->).
  destruct (len6 x Hx) as (x1&x2&x3&x4&x5&x6&->).
  revert H. mat_cbv. intro H. injection H as H1 H2 H3 H4 H5 H6.
  apply Hk. do 6 (destruct k as [|k]; [cbv [lnth]; lra|]). destruct k; reflexivity.
Qed.

(* symmetry is preserved as well *)
Theorem rotated_law_symmetric : forall P C, wf 6 P -> wf 6 C -> msym 6 C -> msym 6 (apply_pmat_global 6 P C).
Proof.
  intros P C HP HC HS.
  destruct (wf6_expand P HP) as (p11&p12&p13&p14&p15&p16&p21&p22&p23&p24&p25&p26&p31&p32&p33&p34&p35&p36&
    p41&p42&p43&p44&p45&p46&p51&p52&p53&p54&p55&p56&p61&p62&p63&p64&p65&p66&->).
  destruct (wf6_expand C HC) as (c11&c12&c13&c14&c15&c16&c21&c22&c23&c24&c25&c26&c31&c32&c33&c34&c35&c36&
    c41&c42&c43&c44&c45&c46&c51&c52&c53&c54&c55&c56&c61&c62&c63&c64&c65&c66&->).
  revert HS. unfold msym, apply_pmat_global. mat_cbv. intro HS.
  injection HS. intros. subst.
  list_eq ltac:(ring).
Qed.

Print Assumptions rotated_law_posdef.
