(* C11 — change of basis, part 2 (split from C11_pmat.v so that both parts compile in parallel):
   Get_Pmat is the Kelvin-Mandel matrix of the tensor rotation eps |-> Q eps Q^T for ALL axes;
   KelvinMandel_Matrix = D M D. *)
From Coq Require Import Reals List Lra Psatz Nsatz.
From EFLib Require Import C11_MatR.
From EFP Require Import Gen_Pmat C11_wf.
Import ListNotations.
Open Scope R_scope.

Theorem pmat3_is_tensor_rotation : forall a1 a2 a3 b1 b2 b3 r2 e11 e22 e33 e23 e13 e12, r2 * r2 = 2 ->
  let Q := Qmat3 a1 a2 a3 b1 b2 b3 in let eps := sym3 e11 e22 e33 e23 e13 e12 in
  mv (pmat3 a1 a2 a3 b1 b2 b3 1 1 r2) (kvec3 r2 eps) = kvec3 r2 (mmul 3 (mmul 3 Q eps) (mtrans 3 Q)).
Proof.
  intros. unfold Q, eps, Qmat3, sym3, kvec3, pmat3. mat_cbv. try unfold Rdiv; rewrite ?Rinv_1. list_eq ltac:(nsatz).
Qed.

Theorem pmat2_is_tensor_rotation : forall a1 a2 b1 b2 r2 e11 e22 e12, r2 * r2 = 2 ->
  let Q := Qmat2 a1 a2 b1 b2 in let eps := sym2 e11 e22 e12 in
  mv (pmat2 a1 a2 b1 b2 1 1 r2) (kvec2 r2 eps) = kvec2 r2 (mmul 2 (mmul 2 Q eps) (mtrans 2 Q)).
Proof.
  intros. unfold Q, eps, Qmat2, sym2, kvec2, pmat2. mat_cbv. try unfold Rdiv; rewrite ?Rinv_1. list_eq ltac:(nsatz).
Qed.

(* ---- Kelvin-Mandel scaling = D M D, D = diag(1,1,1,r2,r2,r2) *)
Theorem kelvin_voigt_scaling_3d : forall r2 M, r2 * r2 = 2 -> wf 6 M ->
  km3 r2 M = mmul 6 (mmul 6 (diagm [1; 1; 1; r2; r2; r2]) M) (diagm [1; 1; 1; r2; r2; r2]).
Proof.
  intros r2 M Hr H. destruct (wf6_inv M H) as (x1 & x2 & x3 & x4 & x5 & x6 & -> & L1 & L2 & L3 & L4 & L5 & L6).
  destruct (len6 _ L1) as (? & ? & ? & ? & ? & ? & ->). destruct (len6 _ L2) as (? & ? & ? & ? & ? & ? & ->).
  destruct (len6 _ L3) as (? & ? & ? & ? & ? & ? & ->). destruct (len6 _ L4) as (? & ? & ? & ? & ? & ? & ->).
  destruct (len6 _ L5) as (? & ? & ? & ? & ? & ? & ->). destruct (len6 _ L6) as (? & ? & ? & ? & ? & ? & ->).
  clear - Hr. unfold km3, km_T3. mat_cbv. list_eq ltac:(first [ring | nsatz]).
Qed.

Theorem kelvin_voigt_scaling_2d : forall r2 M, r2 * r2 = 2 -> wf 3 M ->
  km2 r2 M = mmul 3 (mmul 3 (diagm [1; 1; r2]) M) (diagm [1; 1; r2]).
Proof.
  intros r2 M Hr H. destruct (wf3_inv M H) as (x1 & x2 & x3 & -> & L1 & L2 & L3).
  destruct (len3 _ L1) as (? & ? & ? & ->). destruct (len3 _ L2) as (? & ? & ? & ->).
  destruct (len3 _ L3) as (? & ? & ? & ->).
  clear - Hr. unfold km2, km_T2. mat_cbv. list_eq ltac:(first [ring | nsatz]).
Qed.

Print Assumptions pmat3_is_tensor_rotation.
Print Assumptions kelvin_voigt_scaling_3d.
