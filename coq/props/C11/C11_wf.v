(* C11 — well-formed n x n list matrices (shared by the C11 / C10 theorem files). *)
From Coq Require Import Reals List Lra.
From EFLib Require Import C11_MatR.
Import ListNotations.
Open Scope R_scope.

Definition wf (n : nat) (M : mat) : Prop := length M = n /\ Forall (fun r => length r = n) M.

Lemma wf6_inv M : wf 6 M -> exists r1 r2 r3 r4 r5 r6, M = [r1; r2; r3; r4; r5; r6] /\
  length r1 = 6%nat /\ length r2 = 6%nat /\ length r3 = 6%nat /\ length r4 = 6%nat /\ length r5 = 6%nat /\ length r6 = 6%nat.
Proof.
  intros [HL HF]. do 6 (destruct M as [|? M]; [discriminate|]). destruct M; [|discriminate].
  repeat match goal with H : Forall _ (_ :: _) |- _ => inversion H; clear H; subst end.
  repeat eexists; eauto.
Qed.
Lemma wf3_inv M : wf 3 M -> exists r1 r2 r3, M = [r1; r2; r3] /\
  length r1 = 3%nat /\ length r2 = 3%nat /\ length r3 = 3%nat.
Proof.
  intros [HL HF]. do 3 (destruct M as [|? M]; [discriminate|]). destruct M; [|discriminate].
  repeat match goal with H : Forall _ (_ :: _) |- _ => inversion H; clear H; subst end.
  repeat eexists; eauto.
Qed.

Example wf6_nonvacuous : wf 6 (ident 6).
Proof. split; [reflexivity | repeat constructor]. Qed.

