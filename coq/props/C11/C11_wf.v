(* C11 — well-formed n x n list matrices (shared by the C11 / C10 theorem files). *)
From Coq Require Import Reals List Lra.
From EFLib Require Import C11_MatR.
Import ListNotations.
Open Scope R_scope.

Definition wf (n : nat) (M : mat) : Prop := length M = n /\ Forall (fun r => length r = n) M.

Lemma wf6_inv M : wf 6 M -> exists r1 r2 r3 r4 r5 r6, M = [r1; r2; r3; r4; r5; r6] /\
  length r1 = 6%nat /\ length r2 = 6%nat /\ length r3 = 6%nat /\ length r4 = 6%nat /\ length r5 = 6%nat /\ length r6 = 6%nat.
Proof.
  intros [HL HF]. do 6 (destruct M as [|? M]; [discriminate|]). destruct M; [|discriminate].
  repeat match goal with H : Forall _ (_ :: _) |- _ => inversion H; clear H; subst end.
  repeat eexists; eauto.
Qed.
Lemma wf3_inv M : wf 3 M -> exists r1 r2 r3, M = [r1; r2; r3] /\
  length r1 = 3%nat /\ length r2 = 3%nat /\ length r3 = 3%nat.
Proof.
  intros [HL HF]. do 3 (destruct M as [|? M]; [discriminate|]). destruct M; [|discriminate].
  repeat match goal with H : Forall _ (_ :: _) |- _ => inversion H; clear H; subst end.
  repeat eexists; eauto.
Qed.

Example wf6_nonvacuous : wf 6 (ident 6).
Proof. split; [reflexivity | repeat constructor]. Qed.


(* ---- P is the Kelvin-Mandel matrix of the tensor rotation eps |-> Q eps Q^T,
        Q = [axis_1 | axis_2 | axis_1 x axis_2] (columns).  Holds for arbitrary axes. *)
Definition Qmat3 (a1 a2 a3 b1 b2 b3 : R) : mat :=
  [[a1; b1; a2 * b3 - a3 * b2]; [a2; b2; a3 * b1 - a1 * b3]; [a3; b3; a1 * b2 - a2 * b1]].
Definition sym3 (e11 e22 e33 e23 e13 e12 : R) : mat := [[e11; e12; e13]; [e12; e22; e23]; [e13; e23; e33]].
Definition kvec3 (r2 : R) (T : mat) : vec :=
  [entry T 0 0; entry T 1 1; entry T 2 2; r2 * entry T 1 2; r2 * entry T 0 2; r2 * entry T 0 1].
Definition Qmat2 (a1 a2 b1 b2 : R) : mat := [[a1; b1]; [a2; b2]].
Definition sym2 (e11 e22 e12 : R) : mat := [[e11; e12]; [e12; e22]].
Definition kvec2 (r2 : R) (T : mat) : vec := [entry T 0 0; entry T 1 1; r2 * entry T 0 1].

