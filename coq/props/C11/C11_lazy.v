(* C11 — lazy update: the property theorems of the hand model EFModel.C11_Lazy.
   An operation list may contain assignments [SetParam alias p] with any aliasing flag (the
   assigned object is / is not the object already stored, e.g. a user array edited in place and
   re-assigned): the next read always returns the law of the CURRENT parameter contents.
   The translator checks on every run that `_Parameter.__set__` reaches `Need_Update()` without
   any data-dependent guard, which is what the model's [step] assumes. *)
From Coq Require Import List.
From EFModel Require Import C11_Lazy.

Theorem C11_lazy_update : forall (Prm Law : Type) (behavior : Prm -> Law) (p0 : Prm) (ops : list (op Prm)),
  snd (step Prm Law behavior (run Prm Law behavior (init Prm Law p0) ops) (Read Prm))
  = Some (behavior (last_prm Prm p0 ops)).
Proof. intros. apply lazy_update. Qed.

(* an "unchanged object" shortcut in the setter breaks the property as soon as two parameter
   contents give different laws *)
Theorem C11_guarded_setter_refuted : forall (Prm Law : Type) (behavior : Prm -> Law) (p q : Prm),
  behavior p <> behavior q ->
  exists ops, snd (step_guarded Prm Law behavior (run_guarded Prm Law behavior (init Prm Law p) ops) (Read Prm))
              <> Some (behavior (last_prm Prm p ops)).
Proof. intros. now apply guarded_shortcut_refuted with (q := q). Qed.

(* derived caches (Get_sqrt_C_S): after any interleaving of assignments, notifications, reads of the law
   and reads of the derived quantity, BOTH kinds of read reflect the current parameters — in particular
   the derived read may be the first read after a setter *)
Theorem C11_lazy_update_derived : forall (Prm Law Der : Type) (behavior : Prm -> Law) (derive : Law -> Der)
  (p0 : Prm) (ops : list (dop Prm)),
  snd (dstep Prm Law Der behavior derive (drun Prm Law Der behavior derive (dinit Prm Law Der p0) ops) (DReadLaw Prm))
    = RLaw Law Der (Some (behavior (dlast Prm p0 ops))) /\
  snd (dstep Prm Law Der behavior derive (drun Prm Law Der behavior derive (dinit Prm Law Der p0) ops) (DReadDer Prm))
    = RDer Law Der (Some (derive (behavior (dlast Prm p0 ops)))).
Proof. intros. apply lazy_update_derived. Qed.

(* a derived read that trusts a populated cache without reading C first violates it *)
Theorem C11_derived_shortcut_refuted : forall (Prm Law Der : Type) (behavior : Prm -> Law) (derive : Law -> Der) (p q : Prm),
  derive (behavior p) <> derive (behavior q) ->
  exists ops, snd (dstep_shortcut Prm Law Der behavior derive (drun_shortcut Prm Law Der behavior derive (dinit Prm Law Der p) ops) (DReadDer Prm))
              <> RDer Law Der (Some (derive (behavior (dlast Prm p ops)))).
Proof. intros. now apply derived_shortcut_refuted with (q := q). Qed.

Example guarded_refuted_nonvacuous : (fun x : nat => x) 1 <> (fun x : nat => x) 2.
Proof. discriminate. Qed.

Print Assumptions C11_lazy_update.
Print Assumptions C11_guarded_setter_refuted.
Print Assumptions C11_lazy_update_derived.
Print Assumptions C11_derived_shortcut_refuted.
