(* C11 — lazy update: the property theorems of the hand model EFModel.C11_Lazy.
   An operation list may contain assignments [SetParam alias p] with any aliasing flag (the
   assigned object is / is not the object already stored, e.g. a user array edited in place and
   re-assigned): the next read always returns the law of the CURRENT parameter contents.
   The translator checks on every run that `_Parameter.__set__` reaches `Need_Update()` without
   any data-dependent guard, which is what the model's [step] assumes. *)
From Coq Require Import List.
From EFModel Require Import C11_Lazy.

Theorem C11_lazy_update : forall (Prm Law : Type) (behavior : Prm -> Law) (p0 : Prm) (ops : list (op Prm)),
  snd (step Prm Law behavior (run Prm Law behavior (init Prm Law p0) ops) (Read Prm))
  = Some (behavior (last_prm Prm p0 ops)).
Proof. intros. apply lazy_update. Qed.

(* an "unchanged object" shortcut in the setter breaks the property as soon as two parameter
   contents give different laws *)
Theorem C11_guarded_setter_refuted : forall (Prm Law : Type) (behavior : Prm -> Law) (p q : Prm),
  behavior p <> behavior q ->
  exists ops, snd (step_guarded Prm Law behavior (run_guarded Prm Law behavior (init Prm Law p) ops) (Read Prm))
              <> Some (behavior (last_prm Prm p ops)).
Proof. intros. now apply guarded_shortcut_refuted with (q := q). Qed.

Example guarded_refuted_nonvacuous : (fun x : nat => x) 1 <> (fun x : nat => x) 2.
Proof. discriminate. Qed.

Print Assumptions C11_lazy_update.
Print Assumptions C11_guarded_setter_refuted.
