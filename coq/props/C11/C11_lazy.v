(* C11 — lazy update: the property theorems of the hand model EFModel.C11_Lazy, restated for
   the instance used by the correspondence run (parameters and law as abstract types). *)
From Coq Require Import List.
From EFModel Require Import C11_Lazy.

Theorem C11_lazy_update : forall (Prm Law : Type) (behavior : Prm -> Law) (p0 : Prm) (ops : list (op Prm)),
  snd (step Prm Law behavior (run Prm Law behavior (init Prm Law p0) ops) (Read Prm))
  = Some (behavior (last_prm Prm p0 ops)).
Proof. intros. apply lazy_update. Qed.

Print Assumptions C11_lazy_update.
