(* C11 — rotated laws stay mutually inverse: from P^T P = I and C S = I,
   (P C P^T)(P S P^T) = I for Apply_Pmat(P, ., toGlobal=True) as translated.  Generic 6x6 matrix
   algebra on list matrices (associativity by ring on the 108 entries, once). *)
From Coq Require Import Reals List Lra Psatz.
From EFLib Require Import C11_MatR.
From EFP Require Import Gen_Pmat C11_wf C11_rot.
Import ListNotations.
Open Scope R_scope.

Ltac expand6 M H :=
  let a11 := fresh "a" in
  destruct (wf6_expand M H) as (a11&?&?&?&?&?&?&?&?&?&?&?&?&?&?&?&?&?&?&?&?&?&?&?&?&?&?&?&?&?&?&?&?&?&?&?&->).

Lemma wf6_lit : forall a1 a2 a3 a4 a5 a6 b1 b2 b3 b4 b5 b6 c1 c2 c3 c4 c5 c6
  d1 d2 d3 d4 d5 d6 e1 e2 e3 e4 e5 e6 f1 f2 f3 f4 f5 f6,
  wf 6 [[a1;a2;a3;a4;a5;a6];[b1;b2;b3;b4;b5;b6];[c1;c2;c3;c4;c5;c6];
        [d1;d2;d3;d4;d5;d6];[e1;e2;e3;e4;e5;e6];[f1;f2;f3;f4;f5;f6]].
Proof. intros. split; [reflexivity | repeat constructor]. Qed.

Lemma mmul_wf6 A B : wf 6 A -> wf 6 B -> wf 6 (mmul 6 A B).
Proof. intros HA HB. expand6 A HA. expand6 B HB. mat_cbv. apply wf6_lit. Qed.

Lemma mtrans_wf6 A : wf 6 A -> wf 6 (mtrans 6 A).
Proof. intros HA. expand6 A HA. mat_cbv. apply wf6_lit. Qed.

Lemma mmul_assoc6 : forall A B C, wf 6 A -> wf 6 B -> wf 6 C ->
  mmul 6 (mmul 6 A B) C = mmul 6 A (mmul 6 B C).
Proof.
  intros A B C HA HB HC. expand6 A HA. expand6 B HB. expand6 C HC.
  mat_cbv. list_eq ltac:(ring).
Qed.

Lemma mmul_ident_l A : wf 6 A -> mmul 6 (ident 6) A = A.
Proof. intros HA. expand6 A HA. mat_cbv. list_eq ltac:(ring). Qed.

Theorem rotated_law_inverse : forall P C S, wf 6 P -> wf 6 C -> wf 6 S ->
  mmul 6 (mtrans 6 P) P = ident 6 -> mmul 6 P (mtrans 6 P) = ident 6 ->
  mmul 6 C S = ident 6 ->
  mmul 6 (apply_pmat_global 6 P C) (apply_pmat_global 6 P S) = ident 6.
Proof.
  intros P C S HP HC HS H1 H2 HCS. unfold apply_pmat_global.
  set (Pt := mtrans 6 P) in *.
  assert (HPt : wf 6 Pt) by (apply mtrans_wf6, HP).
  assert (HPC : wf 6 (mmul 6 P C)) by (apply mmul_wf6; assumption).
  assert (HPS : wf 6 (mmul 6 P S)) by (apply mmul_wf6; assumption).
  assert (HSPt : wf 6 (mmul 6 S Pt)) by (apply mmul_wf6; assumption).
  rewrite (mmul_assoc6 (mmul 6 P C) Pt (mmul 6 (mmul 6 P S) Pt) HPC HPt (mmul_wf6 _ _ HPS HPt)).
  rewrite <- (mmul_assoc6 Pt (mmul 6 P S) Pt HPt HPS HPt).
  rewrite <- (mmul_assoc6 Pt P S HPt HP HS).
  rewrite H1, (mmul_ident_l S HS).
  rewrite (mmul_assoc6 P C (mmul 6 S Pt) HP HC HSPt).
  rewrite <- (mmul_assoc6 C S Pt HC HS HPt).
  rewrite HCS, (mmul_ident_l Pt HPt). exact H2.
Qed.

Print Assumptions rotated_law_inverse.
