(* C11 — rotated laws (any orthonormal material frame, P = Get_Pmat(axes)) stay mutually inverse and
   positive definite: application of C11_rotinv.rotated_law_inverse / C11_rot.rotated_law_posdef to the
   regenerated transversely isotropic and orthotropic laws. *)
From Coq Require Import Reals List Lra Psatz.
From EFLib Require Import C11_MatR.
From EFP Require Import Gen_Pmat C11_wf C11_rot C11_rotinv.
Import ListNotations.
Open Scope R_scope.

(* the same for the regenerated laws: the transversely isotropic and orthotropic laws in ANY
   orthonormal material frame (P = Get_Pmat(axes)) are mutually inverse *)
From EFP Require Import Gen_Laws C11_pmat C11_laws.

Lemma pmat3_wf6 : forall a1 a2 a3 b1 b2 b3 n1 n2 r2, wf 6 (pmat3 a1 a2 a3 b1 b2 b3 n1 n2 r2).
Proof. intros. apply wf6_lit. Qed.

Theorem ti_rotated_CS_inverse : forall a1 a2 a3 b1 b2 b3 r2 El Et Gl vl vt, r2 * r2 = 2 ->
  unit_orth3 a1 a2 a3 b1 b2 b3 -> ti_ok El Et Gl vl vt ->
  let P := pmat3 a1 a2 a3 b1 b2 b3 1 1 r2 in
  mmul 6 (ti_3d_C P El Et Gl vl vt) (ti_3d_S P El Et Gl vl vt) = ident 6.
Proof.
  intros * Hr HO Hok P. unfold ti_3d_C, ti_3d_S.
  destruct (pmat3_orthogonal a1 a2 a3 b1 b2 b3 r2 Hr HO) as [HPPt HPtP].
  destruct (ti_CS_inverse El Et Gl vl vt Hok) as [HCS _].
  apply rotated_law_inverse; try assumption; try apply pmat3_wf6.
  - unfold ti_3d_cM. cbv zeta. apply wf6_lit.
  - unfold ti_3d_sM. cbv zeta. apply wf6_lit.
Qed.

Theorem ortho_rotated_CS_inverse : forall a1 a2 a3 b1 b2 b3 r2 E1 E2 E3 G23 G13 G12 v23 v13 v12, r2 * r2 = 2 ->
  unit_orth3 a1 a2 a3 b1 b2 b3 -> ortho_ok E1 E2 E3 G23 G13 G12 v23 v13 v12 ->
  let P := pmat3 a1 a2 a3 b1 b2 b3 1 1 r2 in
  mmul 6 (ortho_3d_C P E1 E2 E3 G23 G13 G12 v23 v13 v12) (ortho_3d_S P E1 E2 E3 G23 G13 G12 v23 v13 v12) = ident 6.
Proof.
  intros * Hr HO Hok P. unfold ortho_3d_C, ortho_3d_S.
  destruct (pmat3_orthogonal a1 a2 a3 b1 b2 b3 r2 Hr HO) as [HPPt HPtP].
  destruct (ortho_CS_inverse _ _ _ _ _ _ _ _ _ Hok) as [HCS _].
  apply rotated_law_inverse; try assumption; try apply pmat3_wf6.
  - unfold ortho_3d_cM. cbv zeta. apply wf6_lit.
  - unfold ortho_3d_sM. cbv zeta. apply wf6_lit.
Qed.

(* and positive definite in any orthonormal frame (conditional, as in C11_laws) *)
Theorem ti_rotated_spd_conditional_partial : forall a1 a2 a3 b1 b2 b3 r2 El Et Gl vl vt, r2 * r2 = 2 ->
  unit_orth3 a1 a2 a3 b1 b2 b3 -> ti_ok El Et Gl vl vt ->
  posdef (ti_3d_C (pmat3 a1 a2 a3 b1 b2 b3 1 1 r2) El Et Gl vl vt) 6.
Proof.
  intros * Hr HO Hok. unfold ti_3d_C.
  destruct (pmat3_orthogonal a1 a2 a3 b1 b2 b3 r2 Hr HO) as [HPPt _].
  apply rotated_law_posdef; try assumption; try apply pmat3_wf6.
  - unfold ti_3d_cM. cbv zeta. apply wf6_lit.
  - apply (ti_spd_conditional_partial El Et Gl vl vt Hok).
Qed.

Print Assumptions ti_rotated_CS_inverse.
Print Assumptions ortho_rotated_CS_inverse.
