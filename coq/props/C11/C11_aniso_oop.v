(* C11 — Anisotropic 2-D law with material axes OUT of the (x,y) plane: what the code computes, exactly.
   `_Behavior` embeds the 3x3 Kelvin-Mandel matrix M at rows/cols (0,1,5) of a zero 6x6 matrix, rotates it with
   P = Get_Pmat(axis1, axis2) and extracts rows/cols (0,1,5).  The result is the congruence  R M R^T  with
   R = P[(0,1,5),(0,1,5)].  Hence it is symmetric positive SEMI-definite whenever M is positive definite, and
   positive definite exactly when R^T is injective; for axis1 = z, axis2 = x (unit, orthogonal) R has rank 1 and the
   "law" is singular (the implementation then raises LinAlgError in np.linalg.inv: checked by the correspondence run). *)
From Coq Require Import Reals List Lra Psatz.
From EFLib Require Import C11_MatR.
From EFP Require Import Gen_Pmat Gen_Laws C11_wf C11_pmat C11_aniso_spd.
Import ListNotations.
Open Scope R_scope.

Definition Rsub (a1 a2 a3 b1 b2 b3 r2 : R) : mat := submat [0; 1; 5]%nat (pmat3 a1 a2 a3 b1 b2 b3 1 1 r2).

Theorem aniso_2d_pipeline_general : forall a1 a2 a3 b1 b2 b3 r2 M, wf 3 M ->
  submat [0; 1; 5]%nat (apply_pmat_global 6 (pmat3 a1 a2 a3 b1 b2 b3 1 1 r2) (embed 6 [0; 1; 5]%nat M))
  = apply_pmat_global 3 (Rsub a1 a2 a3 b1 b2 b3 r2) M.
Proof.
  intros * HM. destruct (wf3_expand M HM) as (m11&m12&m13&m21&m22&m23&m31&m32&m33&->).
  unfold Rsub, apply_pmat_global, pmat3. mat_cbv. try unfold Rdiv; rewrite ?Rinv_1. list_eq ltac:(ring).
Qed.

Lemma Rsub_wf : forall a1 a2 a3 b1 b2 b3 r2, wf 3 (Rsub a1 a2 a3 b1 b2 b3 r2).
Proof. intros. unfold Rsub, pmat3. mat_cbv. split; [reflexivity | repeat constructor]. Qed.

Lemma posdef_nonneg3 : forall M y, wf 3 M -> posdef M 3 -> length y = 3%nat -> 0 <= qf M y.
Proof.
  intros M y HM HP Hy. destruct (len3 y Hy) as (y1&y2&y3&->).
  destruct (Req_dec y1 0) as [E1|E1]; [|left; apply HP; [reflexivity | exists 0%nat; exact E1]].
  destruct (Req_dec y2 0) as [E2|E2]; [|left; apply HP; [reflexivity | exists 1%nat; exact E2]].
  destruct (Req_dec y3 0) as [E3|E3]; [|left; apply HP; [reflexivity | exists 2%nat; exact E3]].
  subst. right. destruct (wf3_expand M HM) as (m11&m12&m13&m21&m22&m23&m31&m32&m33&->). mat_cbv. ring.
Qed.

(* always positive semi-definite *)
Theorem aniso_2d_out_of_plane_psd : forall a1 a2 a3 b1 b2 b3 r2 M x, wf 3 M -> posdef M 3 -> length x = 3%nat ->
  0 <= qf (submat [0; 1; 5]%nat (apply_pmat_global 6 (pmat3 a1 a2 a3 b1 b2 b3 1 1 r2) (embed 6 [0; 1; 5]%nat M))) x.
Proof.
  intros * HM HP Hx. rewrite (aniso_2d_pipeline_general a1 a2 a3 b1 b2 b3 r2 M HM).
  rewrite (qf_congruence3 _ M x (Rsub_wf _ _ _ _ _ _ _) HM Hx).
  apply posdef_nonneg3; [exact HM | exact HP |].
  destruct (len3 x Hx) as (x1&x2&x3&->). unfold Rsub, pmat3. mat_cbv. reflexivity.
Qed.

(* ... but NOT positive definite for all unit orthogonal axes: axis1 = z, axis2 = x, M = I *)
Theorem aniso_2d_out_of_plane_spd_refuted :
  exists a1 a2 a3 b1 b2 b3 M, unit_orth3 a1 a2 a3 b1 b2 b3 /\ wf 3 M /\ posdef M 3 /\
    forall r2, r2 * r2 = 2 ->
    ~ posdef (submat [0; 1; 5]%nat (apply_pmat_global 6 (pmat3 a1 a2 a3 b1 b2 b3 1 1 r2) (embed 6 [0; 1; 5]%nat M))) 3.
Proof.
  exists 0, 0, 1, 1, 0, 0, (ident 3). destruct aniso_spd_nonvacuous as [HP HW].
  split; [unfold unit_orth3; repeat split; lra|]. split; [exact HW|]. split; [exact HP|].
  intros r2 Hr Hpd.
  assert (Hx : exists k, lnth k [0; 1; 0] <> 0) by (exists 1%nat; cbv [lnth]; lra).
  pose proof (Hpd [0; 1; 0] eq_refl Hx) as Q. revert Q.
  unfold apply_pmat_global, pmat3. mat_cbv. try unfold Rdiv; rewrite ?Rinv_1. intro Q. nra.
Qed.

(* positive definite whenever R^T is injective (e.g. every in-plane frame: aniso_2d_spd) *)
Theorem aniso_2d_out_of_plane_spd_if_injective : forall a1 a2 a3 b1 b2 b3 r2 M, wf 3 M -> posdef M 3 ->
  (forall x, length x = 3%nat -> (exists k, lnth k x <> 0) ->
             exists k, lnth k (mv (mtrans 3 (Rsub a1 a2 a3 b1 b2 b3 r2)) x) <> 0) ->
  posdef (submat [0; 1; 5]%nat (apply_pmat_global 6 (pmat3 a1 a2 a3 b1 b2 b3 1 1 r2) (embed 6 [0; 1; 5]%nat M))) 3.
Proof.
  intros * HM HP Hinj x Hx Hk. rewrite (aniso_2d_pipeline_general a1 a2 a3 b1 b2 b3 r2 M HM).
  rewrite (qf_congruence3 _ M x (Rsub_wf _ _ _ _ _ _ _) HM Hx).
  apply HP; [|apply Hinj; assumption].
  destruct (len3 x Hx) as (x1&x2&x3&->). unfold Rsub, pmat3. mat_cbv. reflexivity.
Qed.

Print Assumptions aniso_2d_out_of_plane_psd.
Print Assumptions aniso_2d_out_of_plane_spd_refuted.
