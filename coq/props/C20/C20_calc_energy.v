(* C20 — what _Simu.Calc_Energy computes, from its body REGENERATED from
   EasyFEA/Simulations/_simu.py on every run (EFP.Gen_CalcEnergy, translator/C20_energy.py):
       Reduce_sum( 1/2 * sum_{n in dofs} x_n * sum_{m in ALL dofs} A_nm x_m )
   i.e. owned rows times the FULL vector — the summand of C20_energy_sum / C20_energy_sum_fixed_general
   (u_n * (A_part r)_n with (A_part r)_n the complete row n of the part's matrix applied to the whole
   vector).  The block form x[dofs] @ (A[dofs][:, dofs] @ x[dofs]) is refuted as a replacement. *)
From Coq Require Import List QArith Qreals Reals Lra.
From EFModel Require Import C20_CalcEnergy.
From EFP Require Import Gen_CalcEnergy.
Import ListNotations.

Lemma src_form : is_owned_rows_full_vector calc_energy_src = true.
Proof. vm_compute. reflexivity. Qed.

Lemma src_scale : scale_of calc_energy_src = (1#2)%Q.
Proof. vm_compute. reflexivity. Qed.

Lemma Q2R_half : Q2R (1#2) = (1/2)%R.
Proof. unfold Q2R. simpl. lra. Qed.

Theorem C20_calc_energy_is_owned_rows_full_vector : forall (A : nat -> nat -> R) (x : nat -> R) (all dofs : list nat),
  ssem A x all dofs calc_energy_src = Some (owned_rows_full_vector A x all dofs (1/2)%R).
Proof.
  intros. rewrite (owned_rows_full_vector_sound _ src_form), src_scale, Q2R_half. reflexivity.
Qed.

(* the per-rank values are summed over the ranks *)
Theorem C20_calc_energy_is_reduced : calc_energy_reduce_sum = true.
Proof. reflexivity. Qed.

Theorem C20_calc_energy_block_form_refuted :
  is_owned_rows_full_vector block_variant = false /\
  let A := fun n m : nat => if Nat.eqb n m then 0%R else 1%R in
  let x := fun _ : nat => 1%R in
  ssem A x [0%nat; 1%nat] [0%nat] block_variant = Some (owned_block A x [0%nat] (Q2R (1#2))) /\
  owned_block A x [0%nat] (Q2R (1#2)) <> owned_rows_full_vector A x [0%nat; 1%nat] [0%nat] (Q2R (1#2)).
Proof. exact block_variant_refuted. Qed.

Print Assumptions C20_calc_energy_is_owned_rows_full_vector.
