(* C20 — what _Simu.Calc_Energy computes, from its body REGENERATED from
   EasyFEA/Simulations/_simu.py on every run (EFP.Gen_CalcEnergy, translator/C20_energy.py):
       Reduce_sum( 1/2 * sum_{n in dofs} x_n * sum_{m in ALL dofs} A_nm x_m )
   i.e. owned rows times the FULL vector — the summand of C20_energy_sum / C20_energy_sum_fixed_general
   (u_n * (A_part r)_n with (A_part r)_n the complete row n of the part's matrix applied to the whole
   vector).  The block form x[dofs] @ (A[dofs][:, dofs] @ x[dofs]) is refuted as a replacement. *)
From Coq Require Import List QArith Qreals Reals Lra.
From EFModel Require Import C20_CalcEnergy.
From EFP Require Import Gen_CalcEnergy Gen_CalcReaction.
Import ListNotations.

Lemma src_form : is_owned_rows_full_vector calc_energy_src = true.
Proof. vm_compute. reflexivity. Qed.

Lemma src_scale : scale_of calc_energy_src = (1#2)%Q.
Proof. vm_compute. reflexivity. Qed.

Lemma Q2R_half : Q2R (1#2) = (1/2)%R.
Proof. unfold Q2R. simpl. lra. Qed.

Theorem C20_calc_energy_is_owned_rows_full_vector : forall (A : nat -> nat -> R) (x : nat -> R) (all dofs : list nat),
  ssem A x all dofs calc_energy_src = Some (owned_rows_full_vector A x all dofs (1/2)%R).
Proof.
  intros. rewrite (owned_rows_full_vector_sound _ src_form), src_scale, Q2R_half. reflexivity.
Qed.

(* the per-rank values are summed over the ranks *)
Theorem C20_calc_energy_is_reduced : calc_energy_reduce_sum = true.
Proof. reflexivity. Qed.

Theorem C20_calc_energy_block_form_refuted :
  is_owned_rows_full_vector block_variant = false /\
  let A := fun n m : nat => if Nat.eqb n m then 0%R else 1%R in
  let x := fun _ : nat => 1%R in
  ssem A x [0%nat; 1%nat] [0%nat] block_variant = Some (owned_block A x [0%nat] (Q2R (1#2))) /\
  owned_block A x [0%nat] (Q2R (1#2)) <> owned_rows_full_vector A x [0%nat; 1%nat] [0%nat] (Q2R (1#2)).
Proof. exact block_variant_refuted. Qed.


(* ---- _Simu.Calc_Reaction, body regenerated from the source (EFP.Gen_CalcReaction) ----
   every write into `reaction` is  reaction[dofs] (+)= M[dofs] @ state  with (M, state) one of
   (K, u_n), (C, v_n), (M, a_n) (checked by the translator): on the owned dofs each term is the COMPLETE
   row of the part's matrix applied to the FULL state vector, nothing is written elsewhere; the result is
   Reduce_sum(reaction) under MPI / reaction[dofs] in serial — the summand of C20_reaction_sum_fixed_general *)
Definition is_rows_times_full (v : vexpr) : bool :=
  match v with VMatVec (MRows MA) VX => true | _ => false end.

Lemma reaction_terms_form : forallb is_rows_times_full calc_reaction_terms = true.
Proof. vm_compute. reflexivity. Qed.

Lemma reaction_has_K_term : calc_reaction_terms <> [].
Proof. discriminate. Qed.

Theorem C20_calc_reaction_terms_are_owned_rows_full_vector : forall t, In t calc_reaction_terms ->
  forall (A : nat -> nat -> R) (x : nat -> R) (all dofs : list nat),
  exists f, vsem A x all dofs t = Some (SOwned, f) /\
            forall n, f n = Rsum (map (fun m => (A n m * x m)%R) all).
Proof.
  intros t Ht A x all dofs.
  pose proof (proj1 (forallb_forall _ _) reaction_terms_form t Ht) as H.
  destruct t as [| |m v|]; try discriminate. destruct m as [|m|]; try discriminate.
  destruct m; try discriminate. destruct v; try discriminate.
  simpl. eexists. split; [reflexivity|]. intros n. reflexivity.
Qed.

Print Assumptions C20_calc_reaction_terms_are_owned_rows_full_vector.

Print Assumptions C20_calc_energy_is_owned_rows_full_vector.
