(* C20 — property theorems (restated from EFModel.C20_Partition_proofs / C20_Scatter /
   C20_Merge_proofs with their assumptions printed).  Nproc, the element->rank map (gmsh's
   partitioner = oracle, an input), the number, order and dimension of the element groups and the
   connectivity are universally quantified everywhere.
   modeB = false : the loop as written in EasyFEA/FEM/_mesher.py (ghost layer from the nodes
                   claimed in the CURRENT element group)
   modeB = true  : proposed fix (ghost layer from all nodes the rank owns).                      *)
From Coq Require Import List Arith Bool PeanoNat Lia Reals.
From EFModel Require Import C20_Partition C20_Partition_proofs C20_Scatter C20_Merge_proofs C20_EnergyB.
Import ListNotations.
Close Scope R_scope.
Open Scope nat_scope.

(* every element has exactly one owner *)
Theorem C20_elements_partitioned : forall Nproc modeB st els x,
  In x (index els) -> erank x < Nproc ->
  In (eid x) (o_elements (part_out Nproc modeB st (index els) (erank x))) /\
  (forall r, In (eid x) (o_elements (part_out Nproc modeB st (index els) r)) -> r = erank x).
Proof. exact elements_partitioned. Qed.

Theorem C20_ghosts_owned_elsewhere : forall Nproc modeB st els r i,
  In i (o_ghosts (part_out Nproc modeB st (index els) r)) ->
  ~ In i (o_elements (part_out Nproc modeB st (index els) r)) /\
  exists s, s < Nproc /\ s <> r /\ In i (o_elements (part_out Nproc modeB st (index els) s)).
Proof. exact ghosts_owned_elsewhere. Qed.

(* a part holds exactly its own elements plus every element of another rank touching a node it
   got in that group; and rows kept = owned + ghosts *)
Theorem C20_part_contents : forall Nproc st ig r i,
  In i (o_global (part_out Nproc false st ig r)) <->
  exists x, In x ig /\ eid x = i /\
    (erank x = r \/
     (erank x < Nproc /\ erank x <> r /\
      exists n, In n (enodes x) /\ In n (o_nodes (part_out Nproc false st ig r)))).
Proof. exact part_contents_A. Qed.

Theorem C20_global_is_owned_plus_ghosts : forall Nproc modeB st ig r i,
  In i (o_global (part_out Nproc modeB st ig r)) <->
  In i (o_elements (part_out Nproc modeB st ig r)) \/ In i (o_ghosts (part_out Nproc modeB st ig r)).
Proof. exact global_is_owned_plus_ghosts. Qed.

(* no node has two owners: every mesh, both variants *)
Theorem C20_node_owner_unique : forall Nproc modeB gs r s n,
  r < Nproc -> s < Nproc -> Owned Nproc modeB gs r n -> Owned Nproc modeB gs s n -> r = s.
Proof. exact node_owner_unique. Qed.

(* every node of a main-dimension element has an owner *)
Theorem C20_node_owner_exists : forall Nproc gs, boundary_ok Nproc gs ->
  forall g x n, In g gs -> fst g = true -> In x (index (snd g)) -> erank x < Nproc ->
    In n (enodes x) -> exists r, r < Nproc /\ Owned Nproc false gs r n.
Proof. exact node_owner_exists_A. Qed.

Theorem C20_node_owner_exists_fixed : forall Nproc gs g x n,
  In g gs -> fst g = true -> In x (index (snd g)) -> erank x < Nproc -> In n (enodes x) ->
  exists r, r < Nproc /\ Owned Nproc true gs r n.
Proof. exact node_owner_exists_B. Qed.

(* row-completeness.  As written: meshes with ONE main-dimension element group (any number of
   boundary groups, processed before or after).  FULL STATEMENT (not provable for the code as
   written, see C20_row_complete_refuted):
     forall gs pre g post r n x, gs = pre ++ g :: post -> fst g = true -> Owned Nproc false gs r n ->
       In x (index (snd g)) -> erank x < Nproc -> In n (enodes x) -> In (eid x) (o_global (part ...)) *)
Theorem C20_row_complete_partial : forall Nproc (pre : list group) (g : group) (post : list group) r n x,
  fst g = true ->
  Forall (fun h : group => fst h = false) pre -> Forall (fun h : group => fst h = false) post ->
  Owned Nproc false (pre ++ g :: post) r n ->
  In x (index (snd g)) -> erank x < Nproc -> In n (enodes x) ->
  In (eid x) (o_global (part_out Nproc false (st_before Nproc pre (index (snd g)) r) (index (snd g)) r)).
Proof. exact row_complete_single_A. Qed.

(* counter-model for several main-dimension groups (TRI3 + QUAD4, two ranks) *)
Theorem C20_row_complete_refuted :
  row_complete_check 2 false witness_mixed = false /\
  exists (pre : list group) (g : group) (post : list group) r n x,
    witness_mixed = pre ++ g :: post /\ fst g = true /\
    Owned 2 false witness_mixed r n /\
    In x (index (snd g)) /\ erank x < 2 /\ In n (enodes x) /\
    ~ In (eid x) (o_global (part_out 2 false (st_before 2 pre (index (snd g)) r) (index (snd g)) r)).
Proof. split. exact row_complete_A_refuted. exact row_complete_A_refuted_spec. Qed.

(* the proposed fix is row-complete for every mesh, in every group *)
Theorem C20_row_complete_fixed : forall Nproc (pre : list group) (g : group) (post : list group) r n x,
  r < Nproc -> Owned Nproc true (pre ++ g :: post) r n ->
  In x (index (snd g)) -> erank x < Nproc -> In n (enodes x) ->
  In (eid x) (o_global (part_out Nproc true (st_before Nproc pre (index (snd g)) r) (index (snd g)) r)).
Proof. exact row_complete_B. Qed.

(* scatter: the system assembled on a part = the global one on the rows the part owns,
   for arbitrary local element contributions *)
Theorem C20_part_rows_equal_global : forall Nproc (val : ielem -> nat -> R),
  (forall x n, ~ In n (enodes x) -> val x n = 0%R) ->
  forall (pre : list group) (g : group) (post : list group) r n,
  fst g = true ->
  Forall (fun h : group => fst h = false) pre -> Forall (fun h : group => fst h = false) post ->
  (forall x, In x (index (snd g)) -> erank x < Nproc) ->
  Owned Nproc false (pre ++ g :: post) r n ->
  let ig := index (snd g) in
  assemble val (rows_of_part (part_out Nproc false (st_before Nproc pre ig r) ig r) ig) n = assemble val ig n.
Proof. exact part_rows_equal_global_A. Qed.

Theorem C20_part_rows_equal_global_fixed : forall Nproc (val : ielem -> nat -> R),
  (forall x n, ~ In n (enodes x) -> val x n = 0%R) ->
  forall (pre : list group) (g : group) (post : list group) r n,
  r < Nproc -> (forall x, In x (index (snd g)) -> erank x < Nproc) ->
  Owned Nproc true (pre ++ g :: post) r n ->
  let ig := index (snd g) in
  assemble val (rows_of_part (part_out Nproc true (st_before Nproc pre ig r) ig r) ig) n = assemble val ig n.
Proof. exact part_rows_equal_global_B. Qed.

(* owned-row energies summed over the parts = global energy *)
Theorem C20_energy_sum : forall Nproc (val : ielem -> nat -> R),
  (forall x n, ~ In n (enodes x) -> val x n = 0%R) ->
  forall (u : nat -> R) (pre : list group) (g : group) (post : list group),
  fst g = true ->
  Forall (fun h : group => fst h = false) pre -> Forall (fun h : group => fst h = false) post ->
  boundary_ok Nproc (pre ++ g :: post) ->
  (forall x, In x (index (snd g)) -> erank x < Nproc) ->
  let ig := index (snd g) in
  let P := fun r => part_out Nproc false (st_before Nproc pre ig r) ig r in
  sum_over (fun r => sum_over (fun n => (u n * assemble val (rows_of_part (P r) ig) n)%R) (o_nodes (P r)))
           (seq 0 Nproc)
  = sum_over (fun n => (u n * assemble val ig n)%R) (canon (nodes_of ig)).
Proof. exact energy_single_A. Qed.


(* ---- fixed ghost layer, GENERAL meshes (any number of main-dimension groups, any order) ---- *)
(* on every row a rank owns the system assembled on its part (all main groups summed) is the global one *)
Theorem C20_part_system_equals_global_fixed : forall Nproc (val : ielem -> nat -> R),
  (forall x n, ~ In n (enodes x) -> val x n = 0%R) ->
  forall gs r n, r < Nproc -> all_valid Nproc gs -> In n (owned_B Nproc gs r) ->
  A_part Nproc val gs r n = A_glob val gs n.
Proof. exact part_system_equals_global. Qed.

(* the owned-node sets (Mesh._Get_mpi_owned_nodes) partition the nodes of the main-dimension elements *)
Theorem C20_owned_nodes_partition_fixed : forall Nproc gs, all_valid Nproc gs ->
  NoDup (all_nodes gs) /\ (forall r, r < Nproc -> NoDup (owned_B Nproc gs r)) /\
  (forall r s n, r < Nproc -> s < Nproc -> In n (owned_B Nproc gs r) -> In n (owned_B Nproc gs s) -> r = s) /\
  (forall n, In n (all_nodes gs) <-> exists r, r < Nproc /\ In n (owned_B Nproc gs r)).
Proof. exact owned_B_partition. Qed.

(* Calc_Energy: sum over the parts of the owned-row energies = global energy *)
Theorem C20_energy_sum_fixed_general : forall Nproc (val : ielem -> nat -> R),
  (forall x n, ~ In n (enodes x) -> val x n = 0%R) ->
  forall (u : nat -> R) gs, all_valid Nproc gs ->
  sum_over (fun r => sum_over (fun n => (u n * A_part Nproc val gs r n)%R) (owned_B Nproc gs r)) (seq 0 Nproc)
  = sum_over (fun n => (u n * A_glob val gs n)%R) (all_nodes gs).
Proof. exact energy_fixed_general. Qed.

(* Calc_Reaction: reactions taken on the owning part and summed over the parts = global reaction *)
Theorem C20_reaction_sum_fixed_general : forall Nproc (val : ielem -> nat -> R),
  (forall x n, ~ In n (enodes x) -> val x n = 0%R) ->
  forall gs n, all_valid Nproc gs -> In n (all_nodes gs) ->
  sum_over (fun r => if mem n (owned_B Nproc gs r) then A_part Nproc val gs r n else 0%R) (seq 0 Nproc)
  = A_glob val gs n.
Proof. exact reaction_fixed_general. Qed.

Example C20_energy_fixed_nonvacuous : all_valid 2 witness_mixed /\ length (mains witness_mixed) = 2.
Proof. exact energy_fixed_hyps. Qed.

Print Assumptions C20_energy_sum_fixed_general.
Print Assumptions C20_reaction_sum_fixed_general.

(* the executable loop (threaded dict_rank_nodes) computes the parts the theorems talk about *)
Theorem C20_exec_is_spec : forall Nproc modeB (pre : list group) (g : group) (post : list group) r,
  r < Nproc ->
  nth r (nth (length pre) (partition Nproc modeB (pre ++ g :: post)) []) out0 =
  part_out Nproc modeB (st_before Nproc pre (index (snd g)) r) (index (snd g)) r.
Proof. exact partition_nth. Qed.

(* reproducible: the five arrays depend on the SETS only (python set iteration order is
   irrelevant: everything is canonicalised by sorting) *)
Theorem C20_reproducible : forall Nproc modeB s1 s2 g1 g2 r,
  st_equiv s1 s2 -> ig_equiv g1 g2 ->
  part_out Nproc modeB s1 g1 r = part_out Nproc modeB s2 g2 r.
Proof. exact part_out_ext. Qed.

Theorem C20_canonical : forall l1 l2, (forall x, In x l1 <-> In x l2) -> canon l1 = canon l2.
Proof. exact canon_ext. Qed.

(* Merge: mapping composed with the merged numbering recovers every input mesh *)
Theorem C20_merge_inverse : forall (P : Type) (peq : P -> P -> bool),
  (forall p q, peq p q = true <-> p = q) ->
  forall mp (pre : list (mesh P)) (m : mesh P) post d j, j < length (fst m) ->
  nth (nth j (nth (length pre) (mapping P peq mp (pre ++ m :: post) d) []) 0)
      (new_coords P peq mp (pre ++ m :: post)) d
  = nth j (fst m) d.
Proof. exact merge_inverse. Qed.

Theorem C20_merge_identifies : forall (P : Type) (peq : P -> P -> bool),
  (forall p q, peq p q = true <-> p = q) ->
  forall ms i j d, i < length (all_coords P ms) -> j < length (all_coords P ms) ->
  (old_to_new P peq true ms i d = old_to_new P peq true ms j d <->
   nth i (all_coords P ms) d = nth j (all_coords P ms) d).
Proof. exact merge_identifies. Qed.

Theorem C20_merge_no_duplicate_points : forall (P : Type) (peq : P -> P -> bool),
  (forall p q, peq p q = true <-> p = q) ->
  forall ms, NoDup (new_coords P peq true ms) /\
             (forall p, In p (new_coords P peq true ms) <-> In p (all_coords P ms)).
Proof. intros P peq H ms. split. now apply merge_new_coords_nodup. intros p. now apply merge_new_coords_complete. Qed.

(* non-vacuity of hypotheses *)
Example C20_nonvacuous :
  boundary_ok 2 example_single /\ Owned 2 false example_single 0 1 /\
  row_complete_check 2 false example_single = true /\
  row_complete_check 2 true witness_mixed = true /\
  (forall p q, Nat.eqb p q = true <-> p = q).
Proof.
  split. exact boundary_ok_example. split. exact (proj1 owned_example).
  split. exact row_complete_single_example. split. exact row_complete_B_on_witness.
  intros p q. apply Nat.eqb_eq.
Qed.

Print Assumptions C20_elements_partitioned.
Print Assumptions C20_part_contents.
Print Assumptions C20_node_owner_unique.
Print Assumptions C20_node_owner_exists.
Print Assumptions C20_node_owner_exists_fixed.
Print Assumptions C20_row_complete_partial.
Print Assumptions C20_row_complete_refuted.
Print Assumptions C20_row_complete_fixed.
Print Assumptions C20_part_rows_equal_global.
Print Assumptions C20_part_rows_equal_global_fixed.
Print Assumptions C20_energy_sum.
Print Assumptions C20_exec_is_spec.
Print Assumptions C20_reproducible.
Print Assumptions C20_merge_inverse.
Print Assumptions C20_merge_identifies.
