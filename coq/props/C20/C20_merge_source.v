(* C20 — Mesh.Merge: the relabelling step as the SOURCE performs it (EFP.Gen_Merge, regenerated from
   EasyFEA/FEM/_mesh.py by translator/C20_energy.py read_merge_relabel, structural and fail closed) is
   "connected components of the symmetric coincidence graph, labels by first occurrence, new coordinates =
   first point of each component, connectivity = old_to_new[connect + offset]"; the model's old_to_new
   meets exactly that specification (coincidence = equality of exact points). *)
From Coq Require Import List Arith.
From EFModel Require Import C20_Partition C20_Merge_proofs C20_MergeSpec.
From EFP Require Import Gen_Merge.

Theorem C20_merge_source_is_connected_components :
  merge_relabel_src = ConnectedComponentsFirstOccurrence /\ merge_remap_src = RemapOldToNewOfOffsetConnect.
Proof. split; reflexivity. Qed.

Theorem C20_merge_labels_are_components : forall (P : Type) (peq : P -> P -> bool),
  (forall p q, peq p q = true <-> p = q) -> forall (ms : list (mesh P)) (d : P) i j,
  i < length (all_coords P ms) -> j < length (all_coords P ms) ->
  (old_to_new P peq true ms i d = old_to_new P peq true ms j d <-> connected P d (all_coords P ms) i j).
Proof. exact old_to_new_labels_components. Qed.

Theorem C20_merge_labels_by_first_occurrence : forall (P : Type) (peq : P -> P -> bool),
  (forall p q, peq p q = true <-> p = q) -> forall (ms : list (mesh P)) (d : P) i,
  i < length (all_coords P ms) ->
  (forall j, j < i -> nth j (all_coords P ms) d <> nth i (all_coords P ms) d) ->
  old_to_new P peq true ms i d = length (dedup P peq (firstn i (all_coords P ms))).
Proof. exact old_to_new_first_occurrence. Qed.

Print Assumptions C20_merge_labels_are_components.
Print Assumptions C20_merge_labels_by_first_occurrence.
