(* C12_field.v — field_reflected_ops: every arithmetic operator of class Field (operator table
   regenerated from _field.py into Gen_Field.v) denotes "evaluate the field, then apply the
   FeArray operator with the operands in the written order"; and numpy is told to defer
   `ndarray <op> field` to the reflected methods. *)
From Coq Require Import List Arith Bool Lia.
From EFModel Require Import C12_FeShape C12_FeTensor C12_FeProofs C12_FeField.
From EFP Require Import Gen_Field.
Import ListNotations.

(* + and * are commutative at the value level, so for them either operand order denotes the
   same FeArray (theorem fe_ufunc2_comm below); -, / and @ are not *)
Definition commutative_op (op : nat) : bool := match op with 0 | 2 => true | _ => false end.

Definition entry_ok (e : nat * nat * bool * bool) : bool :=
  let '(op, computes, reflected, field_left) := e in
  (op =? computes) && (if reflected then negb field_left || commutative_op op else field_left).

Theorem C12_field_reflected_ops :
  forallb entry_ok gen_field_ops = true /\ length gen_field_ops = 10 /\ gen_field_defers = true.
Proof. repeat split; vm_compute; reflexivity. Qed.
Print Assumptions C12_field_reflected_ops.

(* justification of accepting either order for a commutative ufunc: same kind, same shape, same
   values, for all operands (any kinds, ranks, shapes) *)
Definition same_result {V} (r1 r2 : result V) : Prop :=
  match r1, r2 with
  | RFe _ a, RFe _ b | RPlain _ a, RPlain _ b => shape V a = shape V b /\ forall k, dat V a k = dat V b k
  | RErr _ c1, RErr _ c2 => c1 = c2
  | _, _ => False
  end.

Theorem fe_ufunc2_comm (V : Type) (vbin : nat -> V -> V -> V) op (x y : operand V) :
  (forall a b, vbin op a b = vbin op b a) ->
  same_result (fe_ufunc2 V vbin op x y) (fe_ufunc2 V vbin op y x).
Proof.
  intros C. unfold fe_ufunc2, align. cbn [map list_max].
  rewrite !Nat.max_0_r, (Nat.max_comm (orank V y) (orank V x)).
  set (nt := Nat.max (orank V x) (orank V y)).
  set (a := match x with OFe _ a0 => pad_arr V (nt - orank V x) a0 | _ => oarr V x end).
  set (b := match y with OFe _ a0 => pad_arr V (nt - orank V y) a0 | _ => oarr V y end).
  unfold ew2. rewrite (np_bcast_comm (shape V b) (shape V a)).
  destruct (np_bcast (shape V a) (shape V b)); [|reflexivity].
  rewrite (orb_comm (is_fe V y)).
  destruct (is_fe V x || is_fe V y); simpl; (split; [reflexivity | intros k; apply C]).
Qed.
Print Assumptions fe_ufunc2_comm.

(* the (node, dof) sweep on one Field object: every __call__ returns the array of the state reached
   (specification without hidden state); a memo keyed on the node alone is refuted *)
Definition C12_field_call_depends_on_current_state_only := call_depends_on_current_state_only.
Definition C12_field_memo_by_node_refuted := memo_by_node_refuted.
Print Assumptions call_depends_on_current_state_only.
