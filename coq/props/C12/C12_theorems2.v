(* C12_theorems2.v — second part of the C12 property theorems (split from C12_theorems.v so the
   two halves compile side by side): keepdims and tuple-axis reductions, array functions on tensor
   axes, out= / in-place, and the written typing rule of __array_function__ versus the sound one. *)
From Coq Require Import List Arith Bool ZArith QArith Lia.
From EFModel Require Import C12_FeShape C12_FeTensor C12_FeProofs C12_FeFlat C12_FeReduce2 C12_FeReduceN C12_FeReduceMax C12_FeQ.
Import ListNotations.
Local Open Scope nat_scope.

Definition d0 (n : nat) (m : nat -> nat -> Q) : Q := 0%Q.
Definition i0 (n : nat) (m : nat -> nat -> Q) (i j : nat) : Q := 0%Q.

(* ---------------------------------------------------------------------------------- *)
(* keepdims / tuple-axis reductions, swapaxes / concatenate / stack on tensor axes,    *)
(* out= and in-place operators                                                         *)
(* ---------------------------------------------------------------------------------- *)
Definition C12_reducer_keepdims_typing := reducer_keepdims_typing.
Definition C12_reduce_pair_is_composition := reduce_pair_is_composition.
Definition C12_swapaxes_tensor_pointwise := swapaxes_tensor_pointwise.
Definition C12_stack_tensor_pointwise := stack_tensor_pointwise.
Definition C12_concat_tensor_pointwise := concat_tensor_pointwise.
Definition C12_ufunc2_out_spec := ufunc2_out_spec.
Definition C12_inplace_fe_plain := inplace_fe_plain.
Print Assumptions reducer_keepdims_typing.
Print Assumptions reduce_pair_is_composition.
Print Assumptions sum_pair_is_composition_Z.
(* ANY tuple of axes (ascending positions): peel the largest position first; iterated, the tuple
   reduction is one single-axis reduction per axis -- for every array and every reducer with
   f (concat ls) = f (map f ls) and f [x] = x *)
Definition C12_reduce_snoc_is_composition := reduce_snoc_is_composition.
Definition C12_reduce_tuple_is_composition := reduce_tuple_is_composition.
Definition C12_qsum_qprod_tuple_is_composition := qsum_qprod_tuple_is_composition.
Print Assumptions reduce_snoc_is_composition.
Print Assumptions reduce_tuple_is_composition.
Print Assumptions qsum_qprod_tuple_is_composition.
Example tuple_hyp_satisfiable : asc [2; 3] /\ asc [1; 3; 4].
Proof.
  split; [change [2; 3] with (([] ++ [2]) ++ [3]) | exact asc_example];
    repeat (apply asc_snoc); try apply asc_nil; unfold all_below; repeat constructor.
Qed.
(* max / min: no neutral element, the concatenation law holds for non-empty blocks only; the tuple
   theorem under that law, for arrays whose reduced axes have positive size, instantiated with the
   rational max / min of the case files *)
Definition C12_reduce_tuple_is_composition_nonempty := reduce_tuple_is_composition_ne.
Definition C12_qmax_qmin_tuple_is_composition := qmax_qmin_tuple_is_composition.
Print Assumptions reduce_tuple_is_composition_ne.
Print Assumptions qmax_qmin_tuple_is_composition.
(* the rational sum / product the case files compute with (Leibniz equality in Q) *)
Definition C12_qsum_qprod_pair_is_composition := qsum_qprod_pair_is_composition.
Print Assumptions qsum_qprod_pair_is_composition.
Print Assumptions swapaxes_tensor_pointwise.
Print Assumptions stack_tensor_pointwise.
Print Assumptions concat_tensor_pointwise.
Print Assumptions inplace_fe_plain.

Example array_functions_on_tensor_axes :
  let a := feZ [1; 2; 2] [1; 2; 3; 4]%Z in
  let b := feZ [1; 2; 2] [5; 6; 7; 8]%Z in
  observeQ d0 i0 (EConcat Q (-1)%Z [a; b]) = (1, [1; 2; 4], map inject_Z [1; 2; 5; 6; 3; 4; 7; 8]%Z) /\
  observeQ d0 i0 (EStack Q 2%Z [a; b]) = (1, [1; 2; 2; 2], map inject_Z [1; 2; 5; 6; 3; 4; 7; 8]%Z) /\
  observeQ d0 i0 (EReduceKd Q 0 (Some [(-1)%Z]) a) = (1, [1; 2; 1], map inject_Z [3; 7]%Z) /\
  observeQ d0 i0 (EOut Q 0 a (plZ [2] [10; 20]%Z) [1; 2; 2] true) = (1, [1; 2; 2], map inject_Z [11; 22; 13; 24]%Z) /\
  observeQ d0 i0 (EOut Q 0 a (plZ [3; 2] [1; 1; 1; 1; 1; 1]%Z) [1; 2; 2] true) = (11, [], []).
Proof. repeat split; vm_compute; reflexivity. Qed.

(* ---------------------------------------------------------------------------------- *)
(* the typing rule of __array_function__ AS WRITTEN (res.shape[:2] == (Ne, nPg)) versus  *)
(* the sound rule (the operation preserves the leading axes): the two known findings     *)
(* ---------------------------------------------------------------------------------- *)
(* agreement iff no coincidence, for any operation described by [preserved] *)
Definition C12_wrap_rule_agrees_iff_no_coincidence := wrap_rule_agrees_iff_no_coincidence.
(* np.swapaxes(fe, 0, 1): FeArray exactly when Ne = nPg, and it then holds a[p, e] at (e, p) *)
Definition C12_swapaxes_lead_typing := swapaxes_lead_typing.
(* np.stack([a, b], axis=0): FeArray exactly when 2 = Ne = nPg *)
Definition C12_stack_lead_typing := stack_lead_typing.
Print Assumptions wrap_rule_agrees_iff_no_coincidence.
Print Assumptions swapaxes_lead_typing.
Print Assumptions stack_lead_typing.

(* "a FeArray result holds at (e, p) a tensor computed from the operands at (e, p)" is REFUTED for
   the rule as written, at the coincidence Ne = nPg (known findings
   array-function-wrap:shape-coincidence:{swapaxes,stack}); without the coincidence the same
   calls are typed as plain arrays *)
Example as_written_rule_swapaxes_refuted :
  observeQ d0 i0 (ESwapaxes Q 0%Z 1%Z (feZ [2; 2; 1] [1; 2; 3; 4]%Z)) = (1, [2; 2; 1], map inject_Z [1; 3; 2; 4]%Z) /\
  fst (fst (observeQ d0 i0 (ESwapaxes Q 0%Z 1%Z (feZ [2; 3; 1] [1; 2; 3; 4; 5; 6]%Z)))) = 0.
Proof. split; vm_compute; reflexivity. Qed.

Example as_written_rule_stack_refuted :
  observeQ d0 i0 (EStack Q 0%Z [feZ [2; 2] [1; 2; 3; 4]%Z; feZ [2; 2] [5; 6; 7; 8]%Z])
    = (1, [2; 2; 2], map inject_Z [1; 2; 3; 4; 5; 6; 7; 8]%Z) /\
  fst (fst (observeQ d0 i0 (EStack Q 0%Z [feZ [3; 2] [1; 2; 3; 4; 5; 6]%Z; feZ [3; 2] [1; 2; 3; 4; 5; 6]%Z]))) = 0.
Proof. split; vm_compute; reflexivity. Qed.

Example no_coincidence_hyp_satisfiable : ~ coincidence false [2; 3; 1] [3; 2] /\ coincidence false [2; 2; 1] [2; 2].
Proof.
  split.
  - intros [_ [_ H]]. discriminate.
  - repeat split; simpl; lia.
Qed.
