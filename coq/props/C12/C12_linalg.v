(* C12_linalg.v — theorems about the parts of _linalg.py regenerated from source on every run
   (Gen_Linalg.v): closed-form Det / Inv for dims 1-3 over R, _KeepsFeAxes, the einsum
   subscripts of dot / ddot / matmul / Trace. *)
From Coq Require Import List Arith Bool ZArith QArith Reals Lra Lia Field.
From EFModel Require Import C12_FeShape C12_FeTensor C12_FeProofs.
From EFP Require Import Gen_Linalg.
Import ListNotations.
Local Open Scope nat_scope.

(* ---------------- Leibniz determinant, defined from permutations ---------------- *)
Fixpoint insert_all (x : nat) (l : list nat) : list (list nat) :=
  match l with
  | [] => [[x]]
  | y :: r => (x :: l) :: map (cons y) (insert_all x r)
  end.

Fixpoint perms (n : nat) : list (list nat) :=
  match n with
  | 0 => [[]]
  | S k => flat_map (insert_all k) (perms k)
  end.

Fixpoint inversions (l : list nat) : nat :=
  match l with
  | [] => 0
  | x :: r => length (filter (fun y => y <? x) r) + inversions r
  end.

Definition sgn (l : list nat) : R := if Nat.even (inversions l) then 1%R else (-1)%R.

Definition leibniz (n : nat) (m : nat -> nat -> R) : R :=
  fold_right Rplus 0%R
    (map (fun s => (sgn s * fold_right Rmult 1%R (map (fun i => m i (nth i s 0%nat)) (seq 0%nat n)))%R) (perms n)).

(* sanity of the definition: n! permutations, each a permutation of 0..n-1 *)
Example perms_3 : length (perms 3) = 6 /\ forallb (fun s => list_eqb (map (fun i => if memb i s then 1 else 0) (seq 0 3)) [1; 1; 1]) (perms 3) = true.
Proof. split; reflexivity. Qed.

Theorem det_formula (m : nat -> nat -> R) :
  gen_det1R m = leibniz 1 m /\ gen_det2R m = leibniz 2 m /\ gen_det3R m = leibniz 3 m.
Proof.
  repeat split; unfold gen_det1R, gen_det2R, gen_det3R, leibniz, sgn; cbn; ring.
Qed.
Print Assumptions det_formula.

(* ---------------- Inv A * A = I and A * Inv A = I whenever det A <> 0 ---------------- *)
Definition mmul (n : nat) (A B : nat -> nat -> R) (i j : nat) : R :=
  fold_right Rplus 0%R (map (fun k => (A i k * B k j)%R) (seq 0 n)).
Definition delta (i j : nat) : R := if i =? j then 1%R else 0%R.

Ltac inv_case H :=
  unfold mmul, delta; cbn [seq map fold_right Nat.eqb];
  unfold gen_inv1R, gen_inv2R, gen_inv3R, gen_det1R, gen_det2R, gen_det3R in *; cbn in *;
  field; exact H.

Theorem inv_formula_1 (m : nat -> nat -> R) : gen_det1R m <> 0%R ->
  mmul 1 (gen_inv1R m) m 0 0 = 1%R /\ mmul 1 m (gen_inv1R m) 0 0 = 1%R.
Proof. intros H. split; inv_case H. Qed.

Theorem inv_formula_2 (m : nat -> nat -> R) : gen_det2R m <> 0%R ->
  forall i j, i < 2 -> j < 2 ->
    mmul 2 (gen_inv2R m) m i j = delta i j /\ mmul 2 m (gen_inv2R m) i j = delta i j.
Proof.
  intros H i j Hi Hj.
  destruct i as [|[|i]]; try lia; destruct j as [|[|j]]; try lia; split; inv_case H.
Qed.

Theorem inv_formula_3 (m : nat -> nat -> R) : gen_det3R m <> 0%R ->
  forall i j, i < 3 -> j < 3 ->
    mmul 3 (gen_inv3R m) m i j = delta i j /\ mmul 3 m (gen_inv3R m) i j = delta i j.
Proof.
  intros H i j Hi Hj.
  destruct i as [|[|[|i]]]; try lia; destruct j as [|[|[|j]]]; try lia; split; inv_case H.
Qed.
Print Assumptions inv_formula_3.

(* non-vacuity: the identity matrix has det 1 <> 0 *)
Example inv_hyp_satisfiable : gen_det3R (fun i j => if i =? j then 1%R else 0%R) <> 0%R
                              /\ gen_det2R (fun i j => if i =? j then 1%R else 0%R) <> 0%R.
Proof. split; unfold gen_det3R, gen_det2R; cbn; lra. Qed.

(* the Q versions used to COMPUTE in the correspondence cases are the same formulas *)
Example det_inv_Q_values :
  Qeq_bool (gen_det3Q (fun i j => inject_Z (Z.of_nat (nth j (nth i [[2;0;1];[1;1;0];[0;3;1]] []) 0)))) 5 = true /\
  Qeq_bool (gen_inv2Q (fun i j => inject_Z (Z.of_nat (nth j (nth i [[2;1];[1;1]] []) 0))) 0 1) (-1) = true.
Proof. split; vm_compute; reflexivity. Qed.

(* coverage of Det / Inv, stated: the closed forms exist exactly for dims 1, 2, 3 (theorems above,
   all real entries); for every other dimension the source is `np.linalg.det(mat)` /
   `np.linalg.inv(mat)` verbatim -- numpy's LAPACK routines are trusted, not verified; the check
   only compares them (dims 4, 5) with an exact rational Leibniz / adjugate oracle per (e, p) to
   1e-10 and checks shape and type.  The model's vdet / vinv are not used above dim 3. *)
Theorem det_inv_coverage :
  gen_closed_form_dims = [1; 2; 3] /\ gen_other_dims_delegated_to_numpy = true /\
  (forall m, gen_detR 1 m = leibniz 1 m /\ gen_detR 2 m = leibniz 2 m /\ gen_detR 3 m = leibniz 3 m).
Proof. split; [reflexivity|]. split; [reflexivity|]. intros m. exact (det_formula m). Qed.

(* ---------------- homogeneity: a change of length unit scales Det by s^n and Inv by 1/s ---------
   (so nothing in the closed forms may depend on the absolute magnitude of the entries; the
   correspondence runs every Det / Inv case again with the matrices times 2^e, e in -60..40) *)
Definition scaled (s : R) (m : nat -> nat -> R) : nat -> nat -> R := fun i j => (s * m i j)%R.

Theorem det_homogeneous (s : R) (m : nat -> nat -> R) :
  gen_det1R (scaled s m) = (s * gen_det1R m)%R /\
  gen_det2R (scaled s m) = (s * s * gen_det2R m)%R /\
  gen_det3R (scaled s m) = (s * s * s * gen_det3R m)%R.
Proof. repeat split; unfold gen_det1R, gen_det2R, gen_det3R, scaled; cbn; ring. Qed.

Theorem inv_homogeneous_2 (s : R) (m : nat -> nat -> R) : s <> 0%R -> gen_det2R m <> 0%R ->
  forall i j, i < 2 -> j < 2 -> gen_inv2R (scaled s m) i j = (gen_inv2R m i j / s)%R.
Proof.
  intros Hs H i j Hi Hj. destruct (det_homogeneous s m) as [_ [D2 _]].
  destruct i as [|[|i]]; try lia; destruct j as [|[|j]]; try lia;
    unfold gen_inv2R; cbv beta iota zeta; rewrite D2; unfold scaled;
    set (D := gen_det2R m) in *; field; split; assumption.
Qed.

Theorem inv_homogeneous_3 (s : R) (m : nat -> nat -> R) : s <> 0%R -> gen_det3R m <> 0%R ->
  forall i j, i < 3 -> j < 3 -> gen_inv3R (scaled s m) i j = (gen_inv3R m i j / s)%R.
Proof.
  intros Hs H i j Hi Hj. destruct (det_homogeneous s m) as [_ [_ D3]].
  destruct i as [|[|[|i]]]; try lia; destruct j as [|[|[|j]]]; try lia;
    unfold gen_inv3R; cbv beta iota zeta; rewrite D3; unfold scaled;
    set (D := gen_det3R m) in *; field; split; assumption.
Qed.
Print Assumptions inv_homogeneous_3.

(* ---------------- _KeepsFeAxes ---------------- *)
Theorem gen_keeps_axis_is_model a nd : gen_keeps_axis a nd = keeps_axis a nd.
Proof. unfold gen_keeps_axis, keeps_axis. destruct (a >=? 0)%Z; reflexivity. Qed.

(* FeArray kept iff every reduced axis (negative ones counted from the end) is >= 2 *)
Theorem reducer_axis_typing l nd :
  forallb (fun a => gen_keeps_axis a (Z.of_nat nd)) l = true <-> Forall (fun a => 2 <= norm_axis nd a) l.
Proof.
  rewrite forallb_forall, Forall_forall.
  split; intros H a Ha; specialize (H a Ha); rewrite gen_keeps_axis_is_model in *; now apply keeps_axis_spec.
Qed.
Print Assumptions reducer_axis_typing.

(* ---------------- subscripts ---------------- *)
Definition model_table (f : nat -> nat -> option (list nat * list nat * list nat)) (dom : list nat) :=
  flat_map (fun n1 => map (fun n2 => (n1, n2, f n1 n2)) dom) dom.

Theorem gen_dot_table_is_model : gen_dot_table = model_table dot_labels gen_dot_table_domain
                                 /\ gen_dot_table_domain = [0; 1; 2; 4].
Proof. split; vm_compute; reflexivity. Qed.

Theorem gen_ddot_table_is_model : gen_ddot_table = model_table ddot_labels gen_ddot_table_domain
                                  /\ gen_ddot_table_domain = [0; 1; 2; 4].
Proof. split; vm_compute; reflexivity. Qed.

Theorem gen_fixed_subscripts_are_model :
  gen_matmul_vecmat = ([[0]; [0; 1]], [1]) /\ gen_matmul_matvec = ([[0; 1]; [1]], [0]) /\ gen_trace = ([[0; 0]], []).
Proof. repeat split; reflexivity. Qed.
