(* C12_detn_adj.v — (thorough tier) the generic adjugate of C12_FeDetN is the inverse up to the
   determinant for dimension 4: adjugate * A = A * adjugate = det * I over R, hence adjugate / det
   is the two-sided inverse when det <> 0.  This is the reference np.linalg.inv is compared with. *)
From Coq Require Import List Arith Bool Reals Lra Lia.
From EFModel Require Import C12_FeDetN.
Import ListNotations.
Local Open Scope nat_scope.

Definition leibnizR := leibniz_gen R 0%R 1%R Rplus Rmult Ropp.
Definition adjugateR := adjugate_gen R 0%R 1%R Rplus Rmult Ropp.

Definition mmulR (n : nat) (A B : nat -> nat -> R) (i j : nat) : R :=
  fold_right Rplus 0%R (map (fun k => (A i k * B k j)%R) (seq 0 n)).
Definition deltaR (i j : nat) : R := if i =? j then 1%R else 0%R.

Ltac adj_case := unfold mmulR, deltaR, adjugateR, adjugate_gen, leibnizR, leibniz_gen, signed, minor; cbn; ring.

Theorem adjugate4_times_matrix (m : nat -> nat -> R) : forall i j, i < 4 -> j < 4 ->
  mmulR 4 (adjugateR 4 m) m i j = (leibnizR 4 m * deltaR i j)%R /\
  mmulR 4 m (adjugateR 4 m) i j = (leibnizR 4 m * deltaR i j)%R.
Proof.
  intros i j Hi Hj.
  destruct i as [|[|[|[|i]]]]; try lia; destruct j as [|[|[|[|j]]]]; try lia; split; adj_case.
Qed.
Print Assumptions adjugate4_times_matrix.

(* hence adjugate / det is the two-sided inverse whenever det <> 0 *)
Corollary adjugate4_over_det_is_inverse (m : nat -> nat -> R) : leibnizR 4 m <> 0%R ->
  forall i j, i < 4 -> j < 4 ->
    mmulR 4 (fun a b => (adjugateR 4 m a b / leibnizR 4 m)%R) m i j = deltaR i j.
Proof.
  intros Hd i j Hi Hj. destruct (adjugate4_times_matrix m i j Hi Hj) as [H _].
  unfold mmulR in *. cbn [seq map fold_right] in *.
  apply Rmult_eq_reg_l with (r := leibnizR 4 m); [|exact Hd]. rewrite <- H. field. exact Hd.
Qed.

