(* C12_tensorprod.v — TensorProd, Norm, Normalize: the einsum literals of TensorProd regenerated
   from _linalg.py (Gen_TensorProd.v) are the model's, and the model's symmetrised product is
   1/2 (A_ik B_jl + A_il B_jk) at every (e, p), for DIFFERENT A and B. *)
From Coq Require Import List Arith Bool ZArith QArith Lia.
From EFModel Require Import C12_FeShape C12_FeTensor C12_FeProofs C12_FeQ.
From EFP Require Import Gen_TensorProd.
Import ListNotations.
Local Open Scope nat_scope.

Theorem gen_tensorprod_is_model :
  gen_tp_vec = tp_vec /\ gen_tp_mat = tp_mat /\
  (gen_tp_sym = [tp_sym1; tp_sym2] \/ gen_tp_sym = [tp_sym2; tp_sym1]).
Proof. split; [reflexivity|]. split; [reflexivity|]. (left; reflexivity) || (right; reflexivity). Qed.
Print Assumptions gen_tensorprod_is_model.

Definition C12_tensorprod_sym_pointwise := tensorprod_sym_pointwise.
Definition C12_tensorprod_sym_is_what_TensorProd_computes := fe_TensorProd_sym_unfold.
Definition C12_tensorprod_mat_pointwise := tensorprod_mat_pointwise.
Definition C12_norm_typing := norm_typing.
Definition C12_normalize_pointwise := normalize_pointwise.
Print Assumptions tensorprod_sym_pointwise.
Print Assumptions tensorprod_mat_pointwise.
Print Assumptions norm_typing.
Print Assumptions normalize_pointwise.

(* non-vacuity, with A <> B and non-symmetric matrices, Ne = nPg = dim = 2 collision on A and a
   per-element B (2, 1, 2, 2): entry [e,p,i,j,k,l] = 1/2 (A_ik B_jl + A_il B_jk) *)
Definition d0 (n : nat) (m : nat -> nat -> Q) : Q := 0%Q.
Definition i0 (n : nat) (m : nat -> nat -> Q) (i j : nat) : Q := 0%Q.
Example tensorprod_sym_value :
  let A := feZ [1; 1; 2; 2] [1; 2; 3; 4]%Z in
  let B := feZ [1; 1; 2; 2] [0; 1; 5; 7]%Z in
  observeQ d0 i0 (ETensorProd Q true None A B) =
    (1, [1; 1; 2; 2; 2; 2],
     [0; 1#2; 1#2; 2;   5; 17#2; 17#2; 14;   0; 3#2; 3#2; 4;   15; 41#2; 41#2; 28]%Q).
Proof. vm_compute. reflexivity. Qed.

Example norm_normalize_value :
  observeQ d0 i0 (ENorm Q (Some [(-1)%Z]) (feZ [1; 2; 2] [3; 4; 0; 5]%Z)) = (1, [1; 2], [5; 5]%Q) /\
  observeQ d0 i0 (ENorm Q (Some [1%Z]) (feZ [1; 2; 2] [3; 4; 4; 3]%Z)) = (0, [1; 2], [5; 5]%Q) /\
  observeQ d0 i0 (ENorm Q (Some [(-2)%Z; (-1)%Z]) (feZ [1; 1; 2; 2] [1; 1; 1; 1]%Z)) = (1, [1; 1], [2]%Q) /\
  observeQ d0 i0 (ENormalize Q (-1)%Z (feZ [1; 2; 2] [0; 4; 0; 0]%Z)) = (1, [1; 2; 2], [0; 1; 0; 0]%Q).
Proof. repeat split; vm_compute; reflexivity. Qed.
