(* C12_theorems.v — the property theorems of C12 about the hand-written FeArray model
   (coq/model/C12_Fe*.v).  All statements are for lists of arbitrary length: every tensor rank,
   every size, every (Ne, nPg); none has a hypothesis relating Ne, nPg and tensor dimensions.
   The model is tied to /repo by the exact differential correspondence of props/C12.py. *)
From Coq Require Import List Arith Bool ZArith QArith Lia.
From EFModel Require Import C12_FeShape C12_FeTensor C12_FeProofs C12_FeFlat C12_FeReduce2 C12_FeReduceN C12_FeReduceMax C12_FeQ.
Import ListNotations.
Local Open Scope nat_scope.

(* ---------------------------------------------------------------------------------- *)
(* elementwise_pointwise                                                              *)
(* ---------------------------------------------------------------------------------- *)
Theorem C12_elementwise_pointwise (V : Type) (vbin : nat -> V -> V -> V) op (a c : arr V) Ne nPg s :
  shape V a = Ne :: nPg :: s ->
  match np_bcast s (shape V c) with
  | Some u =>
      (exists r, fe_ufunc2 V vbin op (OFe V a) (OPlain V c) = RFe V r /\ shape V r = Ne :: nPg :: u /\
         forall e p K, length K = length u ->
           dat V r (e :: p :: K) =
           vbin op (dat V a (cl Ne e :: cl nPg p :: bidx s K)) (dat V c (bidx (shape V c) K))) /\
      (exists r, fe_ufunc2 V vbin op (OPlain V c) (OFe V a) = RFe V r /\ shape V r = Ne :: nPg :: u /\
         forall e p K, length K = length u ->
           dat V r (e :: p :: K) =
           vbin op (dat V c (bidx (shape V c) K)) (dat V a (cl Ne e :: cl nPg p :: bidx s K)))
  | None => fe_ufunc2 V vbin op (OFe V a) (OPlain V c) = RErr V 1
  end.
Proof.
  intros Hs. destruct (np_bcast s (shape V c)) as [u|] eqn:Hb.
  - split.
    + exact (elementwise_fe_plain V vbin op a c Ne nPg s u Hs Hb).
    + apply (elementwise_plain_fe V vbin op a c Ne nPg s u Hs). now rewrite np_bcast_comm.
  - exact (elementwise_fe_plain_error V vbin op a c Ne nPg s Hs Hb).
Qed.
Print Assumptions C12_elementwise_pointwise.

(* scalars on either side, and two fields of different ranks *)
Definition C12_elementwise_fe_scalar := elementwise_fe_scalar.
Definition C12_elementwise_scalar_fe := elementwise_scalar_fe.
Definition C12_elementwise_fe_fe := elementwise_fe_fe.
Print Assumptions elementwise_fe_fe.

(* the reads cl / bidx are the identity on in-range indices of full-size axes *)
Theorem C12_reads_are_plain_indexing s k : Forall2 lt k s -> bidx s k = k.
Proof.
  intros H. assert (L : length k = length s) by (induction H; simpl; congruence).
  rewrite bidx_full by exact L. now apply clip_valid.
Qed.

(* non-vacuity + the collision the unit tests single out: Ne = nPg = 3 and a plain (3,3) array
   shaped exactly like the scalar field still multiplies out as a constant tensor *)
Definition d0 (n : nat) (m : nat -> nat -> Q) : Q := 0%Q.
Definition i0 (n : nat) (m : nat -> nat -> Q) (i j : nat) : Q := 0%Q.
Example collision_scalar_field_times_plain :
  let f := feZ [2; 2] [1; 2; 3; 4]%Z in
  let c := plZ [2; 2] [1; 10; 100; 1000]%Z in
  observeQ d0 i0 (EUfunc2 Q 2 f c) =
    (1, [2; 2; 2; 2], map inject_Z [1;10;100;1000; 2;20;200;2000; 3;30;300;3000; 4;40;400;4000]%Z)
  /\ observeQ d0 i0 (EUfunc2 Q 1 c f) =
    (1, [2; 2; 2; 2], map inject_Z [0;9;99;999; (-1);8;98;998; (-2);7;97;997; (-3);6;96;996]%Z).
Proof. split; vm_compute; reflexivity. Qed.

Example elementwise_hyp_satisfiable :
  exists (a c : arr Q) u, shape Q a = [3; 3; 3] /\ np_bcast [3] (shape Q c) = Some u.
Proof. exists (of_flat Q 0%Q [3; 3; 3] []), (of_flat Q 0%Q [3; 3] []), [3; 3]. split; reflexivity. Qed.

(* ---------------------------------------------------------------------------------- *)
(* matmul_dot_ddot_pointwise                                                          *)
(* ---------------------------------------------------------------------------------- *)
Definition C12_einsum_pointwise := einsum_pointwise.
Definition C12_dot_pointwise := dot_pointwise.
Definition C12_ddot_pointwise := ddot_pointwise.
Definition C12_matmul_pointwise := matmul_pointwise.
Definition C12_dot_errors := dot_errors.
Print Assumptions matmul_pointwise.
Print Assumptions ddot_pointwise.
Print Assumptions dot_errors.

(* non-vacuity of the rank-pair lemmas: they are about real contractions *)
Example dot_spec_matrix_matrix (A B : list nat -> Q) :
  core_contract Q 0%Q 1%Q Qplus Qmult [mkCop Q [0; 1] [2; 2] A; mkCop Q [1; 2] [2; 2] B] [0; 2] [1; 0]
  = Qplus (Qmult (A [1; 0]) (B [0; 0])) (Qmult (A [1; 1]) (B [1; 0])).
Proof.
  rewrite (dot_labels_spec Q 0%Q 1%Q Qplus Qmult 2 2 [0; 1] [1; 2] [0; 2]); simpl; auto.
Qed.

Example ddot_spec_44 : ddot_labels 4 4 = Some ([0; 1; 2; 3], [2; 3; 4; 5], [0; 1; 4; 5]).
Proof. reflexivity. Qed.

Example matmul_collision :
  (* Ne = nPg = dim = 2: matrix field @ plain vector, vector field @ plain matrix *)
  observeQ d0 i0 (EMatmul Q (feZ [2; 2; 2; 2] [1;2;3;4; 5;6;7;8; 1;0;0;1; 0;1;1;0]%Z) (plZ [2] [1; 10]%Z))
    = (1, [2; 2; 2], map inject_Z [21; 43; 65; 87; 1; 10; 10; 1]%Z)
  /\ observeQ d0 i0 (EMatmul Q (plZ [2; 2] [1; 2; 3; 4]%Z) (feZ [2; 2; 2] [1;0; 0;1; 1;1; 2;3]%Z))
    = (1, [2; 2; 2], map inject_Z [1; 3; 2; 4; 3; 7; 8; 18]%Z).
Proof. split; vm_compute; reflexivity. Qed.

(* ---------------------------------------------------------------------------------- *)
(* reducer_typing, transposition, broadcast_unambiguous                               *)
(* ---------------------------------------------------------------------------------- *)
Definition C12_reducer_typing := reducer_typing.
Definition C12_T_pointwise := T_pointwise.
Definition C12_broadcast_unambiguous := broadcast_declared.
Definition C12_broadcast_default_partial := broadcast_default.
Print Assumptions reducer_typing.
Print Assumptions T_pointwise.
Print Assumptions broadcast_declared.

Example reducer_collision :
  (* Ne = nPg = dim = 2: sum over the last axis stays a FeArray, sum over axis 1 does not,
     although both results have shape (2, 2) *)
  let v := feZ [2; 2; 2] [1; 2; 3; 4; 5; 6; 7; 8]%Z in
  observeQ d0 i0 (EReduce Q 0 (Some [(-1)%Z]) v) = (1, [2; 2], map inject_Z [3; 7; 11; 15]%Z) /\
  observeQ d0 i0 (EReduce Q 0 (Some [1%Z]) v) = (0, [2; 2], map inject_Z [4; 6; 12; 14]%Z).
Proof. split; vm_compute; reflexivity. Qed.

Example broadcast_collision :
  (* Ne = nPg = n = 2, tensor_ndim = 2: (2,2,2) is per-element, never (Ne,nPg,n) *)
  fst (fst (observeQ d0 i0 (EBroadcast Q (plZ [2; 2; 2] [1;2;3;4;5;6;7;8]%Z) 2 2 2))) = 1 /\
  snd (fst (observeQ d0 i0 (EBroadcast Q (plZ [2; 2; 2] [1;2;3;4;5;6;7;8]%Z) 2 2 2))) = [2; 2; 2; 2] /\
  snd (observeQ d0 i0 (EBroadcast Q (plZ [2; 2; 2] [1;2;3;4;5;6;7;8]%Z) 2 2 2))
    = map inject_Z [1;2;3;4; 1;2;3;4; 5;6;7;8; 5;6;7;8]%Z.
Proof. repeat split; vm_compute; reflexivity. Qed.

(* ---------------------------------------------------------------------------------- *)
(* shapes: the rule "FeArray iff the leading axes are preserved"                      *)
(* ---------------------------------------------------------------------------------- *)
Theorem C12_wrap_rule res fs : wrap_is_fe res fs = true <-> (2 <= length res /\ firstn 2 res = fs).
Proof.
  unfold wrap_is_fe. rewrite andb_true_iff, Nat.leb_le, list_eqb_eq. tauto.
Qed.

(* the operation's (Ne, nPg) on the non-elementwise paths (np.matmul gufunc, np.einsum, np.where,
   dot, ddot) is the numpy broadcast of the FeArray operands' finite element axes, for ANY two
   leading shapes -- (Ne,1) against (1,nPg) included, where it equals neither operand's -- and the
   result is a FeArray on exactly those axes *)
Definition C12_einsum_is_fe_on_broadcast_axes := einsum2_is_fe.
Definition C12_where_is_fe_on_broadcast_axes := where_is_fe.
Definition C12_matmul_type := matmul_type.
Definition C12_dot_type := dot_type.
Definition C12_ddot_type := ddot_type.
Print Assumptions einsum2_is_fe.
Print Assumptions where_is_fe.
Print Assumptions matmul_type.
Print Assumptions ddot_type.

Example per_element_times_per_point :
  (* A : (Ne=2, 1, 2, 2) one matrix per element, B : (1, nPg=3, 2, 2) one per Gauss point *)
  let A := feZ [2; 1; 2; 2] [1; 2; 3; 4; 0; 1; 1; 0]%Z in
  let B := feZ [1; 3; 2; 2] [1; 0; 0; 1; 2; 0; 0; 2; 0; 1; 1; 1]%Z in
  fe_shape_of Q [A; B] = Some [2; 3] /\
  fst (observeQ d0 i0 (EMatmul Q A B)) = (1, [2; 3; 2; 2]) /\
  snd (observeQ d0 i0 (EMatmul Q A B)) =
    map inject_Z [1;2;3;4; 2;4;6;8; 2;3;4;7;  0;1;1;0; 0;2;2;0; 1;1;0;1]%Z /\
  fst (observeQ d0 i0 (EEinsum Q [([0; 1], A); ([1; 2], B)] [0; 2])) = (1, [2; 3; 2; 2]) /\
  fst (observeQ d0 i0 (EWhere Q (feZ [2; 1; 2] [1; 0; 0; 1]%Z) (feZ [1; 3; 2] [1; 2; 3; 4; 5; 6]%Z) (scZ 0))) = (1, [2; 3; 2]).
Proof. repeat split; vm_compute; reflexivity. Qed.

Example wrap_hyp_satisfiable : np_bcast [2; 1] [1; 3] = Some [2; 3] /\ np_bcast [2; 3] [1; 1] = Some [2; 3].
Proof. split; reflexivity. Qed.

Theorem C12_shape_of_aligned_ufunc Ne nPg s t :
  ufunc_shape [(KFe, Ne :: nPg :: s); (KPlain, t)] = option_map (fun u => Ne :: nPg :: u) (np_bcast s t)
  /\ ufunc_shape [(KPlain, t); (KFe, Ne :: nPg :: s)] = option_map (fun u => Ne :: nPg :: u) (np_bcast t s).
Proof.
  unfold ufunc_shape, align_shapes. cbn [map list_max fst snd trank length].
  replace (S (S (length s)) - 2) with (length s) by lia.
  rewrite ?Nat.max_0_r. cbn [np_bcast_all]. rewrite ?pad_shape_fe. split.
  - rewrite np_bcast_nil_r. apply np_bcast_fe_plain.
  - rewrite np_bcast_nil_r. rewrite (Nat.max_comm (length t)). apply np_bcast_plain_fe.
Qed.
Print Assumptions C12_shape_of_aligned_ufunc.

(* ---------------------------------------------------------------------------------- *)
(* the bridge between numpy's flat C-ordered data and the index functions is lossless  *)
(* ---------------------------------------------------------------------------------- *)
Definition C12_flat_roundtrip := to_flat_of_flat.
Print Assumptions to_flat_of_flat.

