(* C12_detn.v — what the numpy fallback of Det / Inv (dim > 3) is compared against: the generic
   Leibniz determinant and adjugate of coq/model/C12_FeDetN.v.  Over R: it coincides with the
   regenerated closed forms for dims 1-3, with the Laplace (cofactor) expansion for dims 2-5, and
   adjugate * A = A * adjugate = det * I for dim 4 (so adjugate / det IS the inverse when
   det <> 0).  The same Gallina definitions, instantiated with Q, are evaluated in the
   correspondence cases of dims 4 and 5. *)
From Coq Require Import List Arith Bool Reals Lra Lia.
From EFModel Require Import C12_FeDetN.
From EFP Require Import Gen_Linalg.
Import ListNotations.
Local Open Scope nat_scope.

Definition leibnizR := leibniz_gen R 0%R 1%R Rplus Rmult Ropp.
Definition adjugateR := adjugate_gen R 0%R 1%R Rplus Rmult Ropp.
Definition cofactorR := cofactor_row0 R 0%R 1%R Rplus Rmult Ropp.

Theorem closed_forms_are_generic_leibniz (m : nat -> nat -> R) :
  gen_det1R m = leibnizR 1 m /\ gen_det2R m = leibnizR 2 m /\ gen_det3R m = leibnizR 3 m.
Proof.
  repeat split; unfold gen_det1R, gen_det2R, gen_det3R, leibnizR, leibniz_gen, signed; cbn; ring.
Qed.

Theorem cofactor_expansion_is_leibniz_2_to_5 (m : nat -> nat -> R) :
  cofactorR 2 m = leibnizR 2 m /\ cofactorR 3 m = leibnizR 3 m /\ cofactorR 4 m = leibnizR 4 m /\
  cofactorR 5 m = leibnizR 5 m.
Proof.
  repeat split; unfold cofactorR, cofactor_row0, leibnizR, leibniz_gen, signed, minor; cbn; ring.
Qed.
Print Assumptions cofactor_expansion_is_leibniz_2_to_5.

Example det4_hyp_satisfiable : leibnizR 4 (fun i j => if i =? j then 1%R else 0%R) <> 0%R.
Proof. unfold leibnizR, leibniz_gen, signed. cbn. lra. Qed.
