(* C12_detn.v — what the numpy fallback of Det / Inv (dim > 3) is compared against: the generic
   Leibniz determinant and adjugate of coq/model/C12_FeDetN.v (facts proved once in
   coq/model/C12_FeDetNProofs.v).  Here: the closed forms regenerated from _linalg.py for dims 1-3
   ARE that generic determinant; the same Gallina definitions instantiated with Q are evaluated
   in the correspondence cases of dims 4 and 5 (agreement to 1e-10 with np.linalg.det / inv). *)
From Coq Require Import List Arith Bool Reals Lra Lia.
From EFModel Require Import C12_FeDetN C12_FeDetNProofs.
From EFP Require Import Gen_Linalg.
Import ListNotations.
Local Open Scope nat_scope.

Theorem closed_forms_are_generic_leibniz (m : nat -> nat -> R) :
  gen_det1R m = leibnizR 1 m /\ gen_det2R m = leibnizR 2 m /\ gen_det3R m = leibnizR 3 m.
Proof.
  repeat split; unfold gen_det1R, gen_det2R, gen_det3R, leibnizR, leibniz_gen, signed; cbn; ring.
Qed.
Print Assumptions closed_forms_are_generic_leibniz.

Definition C12_cofactor_expansion_is_leibniz_2_to_5 := cofactor_expansion_is_leibniz_2_to_5.
Definition C12_adjugate4_times_matrix := adjugate4_times_matrix.
Definition C12_adjugate4_over_det_is_inverse := adjugate4_over_det_is_inverse.
Print Assumptions cofactor_expansion_is_leibniz_2_to_5.
Print Assumptions adjugate4_over_det_is_inverse.
