(* C05 -- AlgoType.hht_newmark: theorems about the definitions regenerated from _simu.py on every run.
   Quantified (after the Section closes) over every index type I, all linear K C M : (I->R)->(I->R),
   all parameters in the ranges the code asserts and beta <> 0 (true for the stored beta, see hht_newmark_params), all previous states and loads. *)
From Coq Require Import Reals Lra Psatz FunctionalExtensionality.
From EFLib Require Import C05_VecSpace.
From EFP Require Import Gen_TimeSchemes C05_spec.
Local Open Scope R_scope.

Section S_hht_newmark.
Variable I : Type.
Notation Vec := (I -> R).
Variables K C M : Vec -> Vec.
Hypothesis HK : linear K.
Hypothesis HC : linear C.
Hypothesis HM : linear M.
Variables dt beta gamma alpha : R.
Variables u_n v_n a_n bN F : Vec.
Local Notation G f y := (f I K C M dt beta gamma alpha u_n v_n a_n y bN F).
(* ranges asserted by the setter (generated from its `assert`s) and beta <> 0 (true for the stored beta, see hht_newmark_params) *)
Hypothesis Hadm : G hht_newmark_admissible u_n.
Hypothesis Hbeta : beta <> 0.   (* the code divides by beta *)
Let Hdt : dt <> 0.
Proof. generalize Hadm; autounfold with c05gen; intuition lra. Qed.

Ltac vf := intros; autounfold with c05gen c05spec; vec_field HK HC HM.

(* beta and gamma are not free: the setter stores beta = 1/4 (1+alpha)^2, gamma = 1/2 + alpha (documented),
   and this beta is non-zero on the asserted range, so the theorems below apply to the stored values *)
Theorem hht_newmark_params :
  G hht_newmark_stored_dt u_n = dt /\ G hht_newmark_stored_alpha u_n = alpha /\
  G hht_newmark_stored_beta u_n = hhtn_beta alpha /\ G hht_newmark_stored_gamma u_n = hhtn_gamma alpha /\
  G hht_newmark_stored_beta u_n <> 0 /\ (0 <= alpha <= 1 / 3).
Proof.
  generalize Hadm; autounfold with c05gen c05spec; intros H.
  repeat split; try reflexivity; try lra; try (apply Rgt_not_eq; nra).
Qed.

(* documented update relations hold for what _Solver_Update_solutions returns *)
Theorem hht_newmark_update_rule : forall x i,
  G hht_newmark_up_u x i = x i /\
  G hht_newmark_up_a x i = newmark_acc dt beta u_n v_n a_n x i /\
  G hht_newmark_up_v x i = newmark_vel dt gamma v_n a_n (G hht_newmark_up_a x) i /\
  G hht_newmark_up_u_none x = false /\
  G hht_newmark_up_v_none x = false /\
  G hht_newmark_up_a_none x = false.
Proof. intros; repeat split; try reflexivity; vf. Qed.

(* equivalent displacement form: u^{n+1} = u^n + dt v^n + dt^2/2 [(1-2 beta) a^n + 2 beta a^{n+1}] *)
Theorem hht_newmark_update_displacement : forall x i,
  x i = u_n i + dt * v_n i + dt ^ 2 / 2 * ((1 - 2 * beta) * a_n i + 2 * beta * G hht_newmark_up_a x i).
Proof. vf. Qed.

(* the evaluation-point states of _Solver_Evaluate_u_v_a_for_time_scheme are the documented ones, built on
   the same v^{n+1}, a^{n+1} as the corrector (two separately written tables) *)
Theorem hht_newmark_eval_consistent : forall x i,
  G hht_newmark_ev_ut x i = hht_point alpha (G hht_newmark_up_u x) u_n i /\
  G hht_newmark_ev_vt x i = G hht_newmark_up_v x i /\
  G hht_newmark_ev_at x i = G hht_newmark_up_a x i /\
  G hht_newmark_ev_ut_none x = false /\
  G hht_newmark_ev_vt_none x = false /\
  G hht_newmark_ev_at_none x = false.
Proof. intros; repeat split; try reflexivity; vf. Qed.

(* (coefK, coefC, coefM) are the derivatives of (u_t, v_t, a_t) w.r.t. the solved unknown:
   the dependence is affine with exactly these slopes *)
Theorem hht_newmark_coefs_are_derivatives : forall x d i,
  G hht_newmark_ev_ut (vadd x d) i - G hht_newmark_ev_ut x i = G hht_newmark_coefK x * d i /\
  G hht_newmark_ev_vt (vadd x d) i - G hht_newmark_ev_vt x i = G hht_newmark_coefC x * d i /\
  G hht_newmark_ev_at (vadd x d) i - G hht_newmark_ev_at x i = G hht_newmark_coefM x * d i.
Proof. intros; repeat split; vf. Qed.

(* the system operator applied to x, and the left-hand side of the equation of motion *)
Definition hht_newmark_A (x : Vec) : Vec :=
  oadd (oadd (oscal (G hht_newmark_coefK x) K) (oscal (G hht_newmark_coefC x) C)) (oscal (G hht_newmark_coefM x) M) x.
Definition hht_newmark_lhs (x : Vec) : Vec :=
  vadd (vadd (K (G hht_newmark_ev_ut x)) (C (G hht_newmark_ev_vt x))) (M (G hht_newmark_ev_at x)).

(* the matrix assembled in _Solver_Apply_Dirichlet (generated hht_newmark_sysop) is this weighted sum *)
Theorem hht_newmark_sysop_is_weighted_sum : forall x y i,
  (G hht_newmark_sysop y) x i = hht_newmark_A x i.
Proof. unfold hht_newmark_A; vf. Qed.

(* homogeneity (scale invariance): the step is linear in (u_n, v_n, a_n, bN, F) and the unknown -- multiplying them
   all by s multiplies the right-hand side, the system row, the evaluation-point states and the returned state by s;
   so s x solves the scaled system wherever x solves the original one, and the scaled step returns s times the state *)
Local Notation GS f s y := (f I K C M dt beta gamma alpha (vscal s u_n) (vscal s v_n) (vscal s a_n) y (vscal s bN) (vscal s F)).
Theorem hht_newmark_step_homogeneous : forall s x i,
  GS hht_newmark_rhs s (vscal s x) i = s * G hht_newmark_rhs x i /\
  (GS hht_newmark_sysop s (vscal s x)) (vscal s x) i = s * hht_newmark_A x i /\
  GS hht_newmark_up_u s (vscal s x) i = s * G hht_newmark_up_u x i /\
  GS hht_newmark_up_v s (vscal s x) i = s * G hht_newmark_up_v x i /\
  GS hht_newmark_up_a s (vscal s x) i = s * G hht_newmark_up_a x i /\
  GS hht_newmark_ev_ut s (vscal s x) i = s * G hht_newmark_ev_ut x i /\
  GS hht_newmark_ev_vt s (vscal s x) i = s * G hht_newmark_ev_vt x i /\
  GS hht_newmark_ev_at s (vscal s x) i = s * G hht_newmark_ev_at x i.
Proof. intros; unfold hht_newmark_A; repeat split; vf. Qed.

Theorem hht_newmark_scaled_solution : forall s x i,
  hht_newmark_A x i = G hht_newmark_rhs x i ->
  (GS hht_newmark_sysop s (vscal s x)) (vscal s x) i = GS hht_newmark_rhs s (vscal s x) i.
Proof.
  intros s x i H. destruct (hht_newmark_step_homogeneous s x i) as [E1 [E2 _]]. rewrite E1, E2, H. reflexivity.
Qed.

(* change of the time unit: dt -> s dt, v -> v / s, a -> a / s^2, C -> s C, M -> s^2 M (forces, K, u unchanged) gives the
   same right-hand side and system row, and returns the same u, v / s, a / s^2 -- the schemes carry no hidden time scale *)
Local Notation GT f s y := (f I K (oscal s C) (oscal (s ^ 2) M) (s * dt) beta gamma alpha u_n (vscal (/ s) v_n) (vscal (/ s ^ 2) a_n) y bN F).
Theorem hht_newmark_time_rescaling : forall s x i, s <> 0 ->
  GT hht_newmark_rhs s (x) i = G hht_newmark_rhs x i /\
  (GT hht_newmark_sysop s (x)) (x) i = hht_newmark_A x i /\
  GT hht_newmark_up_u s (x) i = G hht_newmark_up_u x i /\
  GT hht_newmark_up_v s (x) i = / s * G hht_newmark_up_v x i /\
  GT hht_newmark_up_a s (x) i = / s ^ 2 * G hht_newmark_up_a x i.
Proof. intros s x i Hs; unfold hht_newmark_A; repeat split; vf. Qed.

(* row i of the system minus row i of the right-hand side of _Solver_Apply_Neumann
   = residual of the equation of motion at dof i *)
Theorem hht_newmark_eom_identity : forall x i,
  hht_newmark_lhs x i - (bN i + F i) = hht_newmark_A x i - G hht_newmark_rhs x i.
Proof using All. unfold hht_newmark_lhs, hht_newmark_A; vf. Qed.

(* discrete equation of motion on every dof whose row is solved (= every free dof) *)
Theorem hht_newmark_discrete_eom : forall x i,
  hht_newmark_A x i = G hht_newmark_rhs x i -> hht_newmark_lhs x i = bN i + F i.
Proof using All. intros x i H. pose proof (hht_newmark_eom_identity x i). lra. Qed.

(* Newton (incremental) path: b is the assembled residual alone; an increment d with
   A d = residual(y) on a dof makes the residual vanish there, and y + d satisfies the direct system *)
Theorem hht_newmark_newton_consistent : forall y d i,
  G hht_newmark_rhs_newton y i = bN i + F i /\
  (hht_newmark_A d i = (bN i + F i) - hht_newmark_lhs y i ->
     hht_newmark_lhs (vadd y d) i = bN i + F i /\ hht_newmark_A (vadd y d) i = G hht_newmark_rhs (vadd y d) i).
Proof.
  intros y d i. split; [vf|]. intros H.
  assert (E : hht_newmark_lhs (vadd y d) i = hht_newmark_lhs y i + hht_newmark_A d i)
    by (unfold hht_newmark_lhs, hht_newmark_A; vf).
  pose proof (hht_newmark_eom_identity (vadd y d) i). lra.
Qed.

(* the statement of the property in terms of what one step RETURNS: the new state (u,v,a)^{n+1} makes
   K u_t + C v_t + M a_t equal the load at the documented evaluation points, on every solved (free) dof *)
Theorem hht_newmark_step_correct : forall x i,
  hht_newmark_A x i = G hht_newmark_rhs x i ->
  K (hht_point alpha (G hht_newmark_up_u x) u_n) i + C (G hht_newmark_up_v x) i + M (G hht_newmark_up_a x) i = bN i + F i.
Proof using All.
  intros x i H. pose proof (hht_newmark_discrete_eom x i H) as E. unfold hht_newmark_lhs, vadd in E.
  assert (E1 : hht_point alpha (G hht_newmark_up_u x) u_n = G hht_newmark_ev_ut x) by (extensionality j; symmetry; apply hht_newmark_eval_consistent).
  assert (E2 : G hht_newmark_up_v x = G hht_newmark_ev_vt x) by (extensionality j; symmetry; apply hht_newmark_eval_consistent).
  assert (E3 : G hht_newmark_up_a x = G hht_newmark_ev_at x) by (extensionality j; symmetry; apply hht_newmark_eval_consistent).
  rewrite E1, E2, E3. lra.
Qed.

End S_hht_newmark.

Print Assumptions hht_newmark_params.
Print Assumptions hht_newmark_update_rule.
Print Assumptions hht_newmark_update_displacement.
Print Assumptions hht_newmark_eval_consistent.
Print Assumptions hht_newmark_coefs_are_derivatives.
Print Assumptions hht_newmark_sysop_is_weighted_sum.
Print Assumptions hht_newmark_step_homogeneous.
Print Assumptions hht_newmark_scaled_solution.
Print Assumptions hht_newmark_time_rescaling.
Print Assumptions hht_newmark_eom_identity.
Print Assumptions hht_newmark_discrete_eom.
Print Assumptions hht_newmark_newton_consistent.
Print Assumptions hht_newmark_step_correct.
