(* C05 -- AlgoType.euler_explicit: theorems about the definitions regenerated from _simu.py on every run.
   Quantified (after the Section closes) over every index type I, all linear K C M : (I->R)->(I->R),
   all parameters in the ranges the code asserts, all previous states and loads. *)
From Coq Require Import Reals Lra Psatz FunctionalExtensionality.
From EFLib Require Import C05_VecSpace.
From EFP Require Import Gen_TimeSchemes C05_spec.
Local Open Scope R_scope.

Section S_euler_explicit.
Variable I : Type.
Notation Vec := (I -> R).
Variables K C M : Vec -> Vec.
Hypothesis HK : linear K.
Hypothesis HC : linear C.
Hypothesis HM : linear M.
Variables dt beta gamma alpha : R.
Variables u_n v_n a_n bN F : Vec.
Local Notation G f y := (f I K C M dt beta gamma alpha u_n v_n a_n y bN F).
(* ranges asserted by the setter (generated from its `assert`s) *)
Hypothesis Hadm : G euler_explicit_admissible u_n.

Let Hdt : dt <> 0.
Proof. generalize Hadm; autounfold with c05gen; intuition lra. Qed.

Ltac vf := intros; autounfold with c05gen c05spec; vec_field HK HC HM.

(* the stored parameters are the ones passed *)
Theorem euler_explicit_params_stored :
  G euler_explicit_stored_dt u_n = dt /\ G euler_explicit_stored_beta u_n = beta /\
  G euler_explicit_stored_gamma u_n = gamma /\ G euler_explicit_stored_alpha u_n = alpha.
Proof. repeat split; reflexivity. Qed.

(* documented update relations hold for what _Solver_Update_solutions returns *)
(* the solved unknown x is the acceleration a^n *)
Theorem euler_explicit_update_rule : forall x i,
  G euler_explicit_up_u x i = fe_disp dt u_n v_n i /\
  G euler_explicit_up_v x i = fe_vel dt v_n x i /\
  G euler_explicit_up_a x i = x i /\
  G euler_explicit_up_u_none x = false /\
  G euler_explicit_up_v_none x = false /\
  G euler_explicit_up_a_none x = false.
Proof. intros; repeat split; try reflexivity; vf. Qed.

(* the evaluation-point states of _Solver_Evaluate_u_v_a_for_time_scheme are the documented ones, built on
   the same v^{n+1}, a^{n+1} as the corrector (two separately written tables) *)
(* forces are evaluated at the current state n; no acceleration vector is returned (None): the
   acceleration of the equation of motion is the solved unknown itself *)
Theorem euler_explicit_eval_consistent : forall x i,
  G euler_explicit_ev_ut x i = u_n i /\
  G euler_explicit_ev_vt x i = v_n i /\
  G euler_explicit_ev_ut_none x = false /\ G euler_explicit_ev_vt_none x = false /\ G euler_explicit_ev_at_none x = true.
Proof. intros; repeat split; try reflexivity; vf. Qed.

(* (coefK, coefC, coefM) are the derivatives of (u_t, v_t, a_t) w.r.t. the solved unknown:
   the dependence is affine with exactly these slopes *)
Theorem euler_explicit_coefs_are_derivatives : forall x d i,
  G euler_explicit_ev_ut (vadd x d) i - G euler_explicit_ev_ut x i = G euler_explicit_coefK x * d i /\
  G euler_explicit_ev_vt (vadd x d) i - G euler_explicit_ev_vt x i = G euler_explicit_coefC x * d i /\
  (fun y : Vec => y) (vadd x d) i - (fun y : Vec => y) x i = G euler_explicit_coefM x * d i.
Proof. intros; repeat split; vf. Qed.

(* the system operator applied to x, and the left-hand side of the equation of motion *)
Definition euler_explicit_A (x : Vec) : Vec :=
  oadd (oadd (oscal (G euler_explicit_coefK x) K) (oscal (G euler_explicit_coefC x) C)) (oscal (G euler_explicit_coefM x) M) x.
Definition euler_explicit_lhs (x : Vec) : Vec :=
  vadd (vadd (K (G euler_explicit_ev_ut x)) (C (G euler_explicit_ev_vt x))) (M ((fun y : Vec => y) x)).

(* the matrix assembled in _Solver_Apply_Dirichlet (generated euler_explicit_sysop) is this weighted sum *)
Theorem euler_explicit_sysop_is_weighted_sum : forall x y i,
  (G euler_explicit_sysop y) x i = euler_explicit_A x i.
Proof. unfold euler_explicit_A; vf. Qed.

(* homogeneity (scale invariance): the step is linear in (u_n, v_n, a_n, bN, F) and the unknown -- multiplying them
   all by s multiplies the right-hand side, the system row, the evaluation-point states and the returned state by s;
   so s x solves the scaled system wherever x solves the original one, and the scaled step returns s times the state *)
Local Notation GS f s y := (f I K C M dt beta gamma alpha (vscal s u_n) (vscal s v_n) (vscal s a_n) y (vscal s bN) (vscal s F)).
Theorem euler_explicit_step_homogeneous : forall s x i,
  GS euler_explicit_rhs s (vscal s x) i = s * G euler_explicit_rhs x i /\
  (GS euler_explicit_sysop s (vscal s x)) (vscal s x) i = s * euler_explicit_A x i /\
  GS euler_explicit_up_u s (vscal s x) i = s * G euler_explicit_up_u x i /\
  GS euler_explicit_up_v s (vscal s x) i = s * G euler_explicit_up_v x i /\
  GS euler_explicit_up_a s (vscal s x) i = s * G euler_explicit_up_a x i /\
  GS euler_explicit_ev_ut s (vscal s x) i = s * G euler_explicit_ev_ut x i /\
  GS euler_explicit_ev_vt s (vscal s x) i = s * G euler_explicit_ev_vt x i /\
  GS euler_explicit_ev_at s (vscal s x) i = s * G euler_explicit_ev_at x i.
Proof. intros; unfold euler_explicit_A; repeat split; vf. Qed.

Theorem euler_explicit_scaled_solution : forall s x i,
  euler_explicit_A x i = G euler_explicit_rhs x i ->
  (GS euler_explicit_sysop s (vscal s x)) (vscal s x) i = GS euler_explicit_rhs s (vscal s x) i.
Proof.
  intros s x i H. destruct (euler_explicit_step_homogeneous s x i) as [E1 [E2 _]]. rewrite E1, E2, H. reflexivity.
Qed.

(* change of the time unit: dt -> s dt, v -> v / s, a -> a / s^2, C -> s C, M -> s^2 M (forces, K, u unchanged) gives the
   same right-hand side and system row, and returns the same u, v / s, a / s^2 -- the schemes carry no hidden time scale *)
Local Notation GT f s y := (f I K (oscal s C) (oscal (s ^ 2) M) (s * dt) beta gamma alpha u_n (vscal (/ s) v_n) (vscal (/ s ^ 2) a_n) y bN F).
Theorem euler_explicit_time_rescaling : forall s x i, s <> 0 ->
  GT euler_explicit_rhs s (vscal (/ s ^ 2) x) i = G euler_explicit_rhs x i /\
  (GT euler_explicit_sysop s (vscal (/ s ^ 2) x)) (vscal (/ s ^ 2) x) i = euler_explicit_A x i /\
  GT euler_explicit_up_u s (vscal (/ s ^ 2) x) i = G euler_explicit_up_u x i /\
  GT euler_explicit_up_v s (vscal (/ s ^ 2) x) i = / s * G euler_explicit_up_v x i /\
  GT euler_explicit_up_a s (vscal (/ s ^ 2) x) i = / s ^ 2 * G euler_explicit_up_a x i.
Proof. intros s x i Hs; unfold euler_explicit_A; repeat split; vf. Qed.

(* row i of the system minus row i of the right-hand side of _Solver_Apply_Neumann
   = residual of the equation of motion at dof i *)
Theorem euler_explicit_eom_identity : forall x i,
  euler_explicit_lhs x i - (bN i + F i) = euler_explicit_A x i - G euler_explicit_rhs x i.
Proof using All. unfold euler_explicit_lhs, euler_explicit_A; vf. Qed.

(* discrete equation of motion on every dof whose row is solved (= every free dof) *)
Theorem euler_explicit_discrete_eom : forall x i,
  euler_explicit_A x i = G euler_explicit_rhs x i -> euler_explicit_lhs x i = bN i + F i.
Proof using All. intros x i H. pose proof (euler_explicit_eom_identity x i). lra. Qed.

(* what one step returns: M a^n + C v^n + K u^n = load on every solved (free) dof, a^n being the returned acceleration *)
Theorem euler_explicit_step_correct : forall x i,
  euler_explicit_A x i = G euler_explicit_rhs x i ->
  K u_n i + C v_n i + M (G euler_explicit_up_a x) i = bN i + F i.
Proof using All.
  intros x i H. pose proof (euler_explicit_discrete_eom x i H) as E. unfold euler_explicit_lhs, vadd in E.
  assert (E1 : G euler_explicit_ev_ut x = u_n) by (extensionality j; apply euler_explicit_eval_consistent).
  assert (E2 : G euler_explicit_ev_vt x = v_n) by (extensionality j; apply euler_explicit_eval_consistent).
  assert (E3 : G euler_explicit_up_a x = x) by (extensionality j; apply euler_explicit_update_rule).
  rewrite E1, E2 in E. rewrite E3. lra.
Qed.

End S_euler_explicit.

Print Assumptions euler_explicit_params_stored.
Print Assumptions euler_explicit_update_rule.
Print Assumptions euler_explicit_eval_consistent.
Print Assumptions euler_explicit_coefs_are_derivatives.
Print Assumptions euler_explicit_sysop_is_weighted_sum.
Print Assumptions euler_explicit_step_homogeneous.
Print Assumptions euler_explicit_scaled_solution.
Print Assumptions euler_explicit_time_rescaling.
Print Assumptions euler_explicit_eom_identity.
Print Assumptions euler_explicit_discrete_eom.
Print Assumptions euler_explicit_step_correct.
