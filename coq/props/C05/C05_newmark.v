(* C05 -- AlgoType.newmark: theorems about the definitions regenerated from _simu.py on every run.
   Quantified (after the Section closes) over every index type I, all linear K C M : (I->R)->(I->R),
   all parameters in the ranges the code asserts and beta <> 0, all previous states and loads. *)
From Coq Require Import Reals Lra Psatz FunctionalExtensionality.
From EFLib Require Import C05_VecSpace.
From EFP Require Import Gen_TimeSchemes C05_spec.
Local Open Scope R_scope.

Section S_newmark.
Variable I : Type.
Notation Vec := (I -> R).
Variables K C M : Vec -> Vec.
Hypothesis HK : linear K.
Hypothesis HC : linear C.
Hypothesis HM : linear M.
Variables dt beta gamma alpha : R.
Variables u_n v_n a_n bN F : Vec.
Local Notation G f y := (f I K C M dt beta gamma alpha u_n v_n a_n y bN F).
(* ranges asserted by the setter (generated from its `assert`s) and beta <> 0 *)
Hypothesis Hadm : G newmark_admissible u_n.
Hypothesis Hbeta : beta <> 0.   (* the code divides by beta *)
Let Hdt : dt <> 0.
Proof. generalize Hadm; autounfold with c05gen; intuition lra. Qed.

Ltac vf := intros; autounfold with c05gen c05spec; vec_field HK HC HM.

(* the stored parameters are the ones passed *)
Theorem newmark_params_stored :
  G newmark_stored_dt u_n = dt /\ G newmark_stored_beta u_n = beta /\
  G newmark_stored_gamma u_n = gamma /\ G newmark_stored_alpha u_n = alpha.
Proof. repeat split; reflexivity. Qed.

(* documented update relations hold for what _Solver_Update_solutions returns *)
Theorem newmark_update_rule : forall x i,
  G newmark_up_u x i = x i /\
  G newmark_up_a x i = newmark_acc dt beta u_n v_n a_n x i /\
  G newmark_up_v x i = newmark_vel dt gamma v_n a_n (G newmark_up_a x) i /\
  G newmark_up_u_none x = false /\
  G newmark_up_v_none x = false /\
  G newmark_up_a_none x = false.
Proof. intros; repeat split; try reflexivity; vf. Qed.

(* equivalent displacement form: u^{n+1} = u^n + dt v^n + dt^2/2 [(1-2 beta) a^n + 2 beta a^{n+1}] *)
Theorem newmark_update_displacement : forall x i,
  x i = u_n i + dt * v_n i + dt ^ 2 / 2 * ((1 - 2 * beta) * a_n i + 2 * beta * G newmark_up_a x i).
Proof. vf. Qed.

(* the evaluation-point states of _Solver_Evaluate_u_v_a_for_time_scheme are the documented ones, built on
   the same v^{n+1}, a^{n+1} as the corrector (two separately written tables) *)
Theorem newmark_eval_consistent : forall x i,
  G newmark_ev_ut x i = G newmark_up_u x i /\
  G newmark_ev_vt x i = G newmark_up_v x i /\
  G newmark_ev_at x i = G newmark_up_a x i /\
  G newmark_ev_ut_none x = false /\
  G newmark_ev_vt_none x = false /\
  G newmark_ev_at_none x = false.
Proof. intros; repeat split; try reflexivity; vf. Qed.

(* (coefK, coefC, coefM) are the derivatives of (u_t, v_t, a_t) w.r.t. the solved unknown:
   the dependence is affine with exactly these slopes *)
Theorem newmark_coefs_are_derivatives : forall x d i,
  G newmark_ev_ut (vadd x d) i - G newmark_ev_ut x i = G newmark_coefK x * d i /\
  G newmark_ev_vt (vadd x d) i - G newmark_ev_vt x i = G newmark_coefC x * d i /\
  G newmark_ev_at (vadd x d) i - G newmark_ev_at x i = G newmark_coefM x * d i.
Proof. intros; repeat split; vf. Qed.

(* the system operator applied to x, and the left-hand side of the equation of motion *)
Definition newmark_A (x : Vec) : Vec :=
  oadd (oadd (oscal (G newmark_coefK x) K) (oscal (G newmark_coefC x) C)) (oscal (G newmark_coefM x) M) x.
Definition newmark_lhs (x : Vec) : Vec :=
  vadd (vadd (K (G newmark_ev_ut x)) (C (G newmark_ev_vt x))) (M (G newmark_ev_at x)).

(* the matrix assembled in _Solver_Apply_Dirichlet (generated newmark_sysop) is this weighted sum *)
Theorem newmark_sysop_is_weighted_sum : forall x y i,
  (G newmark_sysop y) x i = newmark_A x i.
Proof. unfold newmark_A; vf. Qed.

(* homogeneity (scale invariance): the step is linear in (u_n, v_n, a_n, bN, F) and the unknown -- multiplying them
   all by s multiplies the right-hand side, the system row, the evaluation-point states and the returned state by s;
   so s x solves the scaled system wherever x solves the original one, and the scaled step returns s times the state *)
Local Notation GS f s y := (f I K C M dt beta gamma alpha (vscal s u_n) (vscal s v_n) (vscal s a_n) y (vscal s bN) (vscal s F)).
Theorem newmark_step_homogeneous : forall s x i,
  GS newmark_rhs s (vscal s x) i = s * G newmark_rhs x i /\
  (GS newmark_sysop s (vscal s x)) (vscal s x) i = s * newmark_A x i /\
  GS newmark_up_u s (vscal s x) i = s * G newmark_up_u x i /\
  GS newmark_up_v s (vscal s x) i = s * G newmark_up_v x i /\
  GS newmark_up_a s (vscal s x) i = s * G newmark_up_a x i /\
  GS newmark_ev_ut s (vscal s x) i = s * G newmark_ev_ut x i /\
  GS newmark_ev_vt s (vscal s x) i = s * G newmark_ev_vt x i /\
  GS newmark_ev_at s (vscal s x) i = s * G newmark_ev_at x i.
Proof. intros; unfold newmark_A; repeat split; vf. Qed.

Theorem newmark_scaled_solution : forall s x i,
  newmark_A x i = G newmark_rhs x i ->
  (GS newmark_sysop s (vscal s x)) (vscal s x) i = GS newmark_rhs s (vscal s x) i.
Proof.
  intros s x i H. destruct (newmark_step_homogeneous s x i) as [E1 [E2 _]]. rewrite E1, E2, H. reflexivity.
Qed.

(* change of the time unit: dt -> s dt, v -> v / s, a -> a / s^2, C -> s C, M -> s^2 M (forces, K, u unchanged) gives the
   same right-hand side and system row, and returns the same u, v / s, a / s^2 -- the schemes carry no hidden time scale *)
Local Notation GT f s y := (f I K (oscal s C) (oscal (s ^ 2) M) (s * dt) beta gamma alpha u_n (vscal (/ s) v_n) (vscal (/ s ^ 2) a_n) y bN F).
Theorem newmark_time_rescaling : forall s x i, s <> 0 ->
  GT newmark_rhs s (x) i = G newmark_rhs x i /\
  (GT newmark_sysop s (x)) (x) i = newmark_A x i /\
  GT newmark_up_u s (x) i = G newmark_up_u x i /\
  GT newmark_up_v s (x) i = / s * G newmark_up_v x i /\
  GT newmark_up_a s (x) i = / s ^ 2 * G newmark_up_a x i.
Proof. intros s x i Hs; unfold newmark_A; repeat split; vf. Qed.

(* row i of the system minus row i of the right-hand side of _Solver_Apply_Neumann
   = residual of the equation of motion at dof i *)
Theorem newmark_eom_identity : forall x i,
  newmark_lhs x i - (bN i + F i) = newmark_A x i - G newmark_rhs x i.
Proof using All. unfold newmark_lhs, newmark_A; vf. Qed.

(* discrete equation of motion on every dof whose row is solved (= every free dof) *)
Theorem newmark_discrete_eom : forall x i,
  newmark_A x i = G newmark_rhs x i -> newmark_lhs x i = bN i + F i.
Proof using All. intros x i H. pose proof (newmark_eom_identity x i). lra. Qed.

(* Newton (incremental) path: b is the assembled residual alone; an increment d with
   A d = residual(y) on a dof makes the residual vanish there, and y + d satisfies the direct system *)
Theorem newmark_newton_consistent : forall y d i,
  G newmark_rhs_newton y i = bN i + F i /\
  (newmark_A d i = (bN i + F i) - newmark_lhs y i ->
     newmark_lhs (vadd y d) i = bN i + F i /\ newmark_A (vadd y d) i = G newmark_rhs (vadd y d) i).
Proof.
  intros y d i. split; [vf|]. intros H.
  assert (E : newmark_lhs (vadd y d) i = newmark_lhs y i + newmark_A d i)
    by (unfold newmark_lhs, newmark_A; vf).
  pose proof (newmark_eom_identity (vadd y d) i). lra.
Qed.

(* dynamic equilibrium K u + C v + M a = F is reproduced at n+1 by every step *)
Theorem newmark_equilibrium_at_np1 : forall x i,
  newmark_A x i = G newmark_rhs x i ->
  K (G newmark_up_u x) i + C (G newmark_up_v x) i + M (G newmark_up_a x) i = bN i + F i.
Proof using All.
  intros x i H. pose proof (newmark_eom_identity x i).
  assert (E : newmark_lhs x i = K (G newmark_up_u x) i + C (G newmark_up_v x) i + M (G newmark_up_a x) i)
    by (unfold newmark_lhs; vf).
  lra.
Qed.

End S_newmark.

Print Assumptions newmark_params_stored.
Print Assumptions newmark_update_rule.
Print Assumptions newmark_update_displacement.
Print Assumptions newmark_eval_consistent.
Print Assumptions newmark_coefs_are_derivatives.
Print Assumptions newmark_sysop_is_weighted_sum.
Print Assumptions newmark_step_homogeneous.
Print Assumptions newmark_scaled_solution.
Print Assumptions newmark_time_rescaling.
Print Assumptions newmark_eom_identity.
Print Assumptions newmark_discrete_eom.
Print Assumptions newmark_newton_consistent.
Print Assumptions newmark_equilibrium_at_np1.
