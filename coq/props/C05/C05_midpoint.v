(* C05 -- AlgoType.midpoint: theorems about the definitions regenerated from _simu.py on every run.
   Quantified (after the Section closes) over every index type I, all linear K C M : (I->R)->(I->R),
   all parameters in the ranges the code asserts, all previous states and loads. *)
From Coq Require Import Reals Lra Psatz FunctionalExtensionality.
From EFLib Require Import C05_VecSpace.
From EFP Require Import Gen_TimeSchemes C05_spec.
Local Open Scope R_scope.

Section S_midpoint.
Variable I : Type.
Notation Vec := (I -> R).
Variables K C M : Vec -> Vec.
Hypothesis HK : linear K.
Hypothesis HC : linear C.
Hypothesis HM : linear M.
Variables dt beta gamma alpha : R.
Variables u_n v_n a_n bN F : Vec.
Local Notation G f y := (f I K C M dt beta gamma alpha u_n v_n a_n y bN F).
(* ranges asserted by the setter (generated from its `assert`s) *)
Hypothesis Hadm : G midpoint_admissible u_n.

Let Hdt : dt <> 0.
Proof. generalize Hadm; autounfold with c05gen; intuition lra. Qed.

Ltac vf := intros; autounfold with c05gen c05spec; vec_field HK HC HM.

(* the stored parameters are the ones passed *)
Theorem midpoint_params_stored :
  G midpoint_stored_dt u_n = dt /\ G midpoint_stored_beta u_n = beta /\
  G midpoint_stored_gamma u_n = gamma /\ G midpoint_stored_alpha u_n = alpha.
Proof. repeat split; reflexivity. Qed.

(* documented update relations hold for what _Solver_Update_solutions returns *)
Theorem midpoint_update_rule : forall x i,
  G midpoint_up_u x i = x i /\
  G midpoint_up_v x i = midpoint_vel dt u_n v_n x i /\
  G midpoint_up_a x i = midpoint_acc dt v_n a_n (G midpoint_up_v x) i /\
  G midpoint_up_u_none x = false /\
  G midpoint_up_v_none x = false /\
  G midpoint_up_a_none x = false.
Proof. intros; repeat split; try reflexivity; vf. Qed.

(* the evaluation-point states of _Solver_Evaluate_u_v_a_for_time_scheme are the documented ones, built on
   the same v^{n+1}, a^{n+1} as the corrector (two separately written tables) *)
Theorem midpoint_eval_consistent : forall x i,
  G midpoint_ev_ut x i = mean (G midpoint_up_u x) u_n i /\
  G midpoint_ev_vt x i = mean (G midpoint_up_v x) v_n i /\
  G midpoint_ev_at x i = mean (G midpoint_up_a x) a_n i /\
  G midpoint_ev_ut_none x = false /\
  G midpoint_ev_vt_none x = false /\
  G midpoint_ev_at_none x = false.
Proof. intros; repeat split; try reflexivity; vf. Qed.

(* (coefK, coefC, coefM) are the derivatives of (u_t, v_t, a_t) w.r.t. the solved unknown:
   the dependence is affine with exactly these slopes *)
Theorem midpoint_coefs_are_derivatives : forall x d i,
  G midpoint_ev_ut (vadd x d) i - G midpoint_ev_ut x i = G midpoint_coefK x * d i /\
  G midpoint_ev_vt (vadd x d) i - G midpoint_ev_vt x i = G midpoint_coefC x * d i /\
  G midpoint_ev_at (vadd x d) i - G midpoint_ev_at x i = G midpoint_coefM x * d i.
Proof. intros; repeat split; vf. Qed.

(* the system operator applied to x, and the left-hand side of the equation of motion *)
Definition midpoint_A (x : Vec) : Vec :=
  oadd (oadd (oscal (G midpoint_coefK x) K) (oscal (G midpoint_coefC x) C)) (oscal (G midpoint_coefM x) M) x.
Definition midpoint_lhs (x : Vec) : Vec :=
  vadd (vadd (K (G midpoint_ev_ut x)) (C (G midpoint_ev_vt x))) (M (G midpoint_ev_at x)).

(* the matrix assembled in _Solver_Apply_Dirichlet (generated midpoint_sysop) is this weighted sum *)
Theorem midpoint_sysop_is_weighted_sum : forall x y i,
  (G midpoint_sysop y) x i = midpoint_A x i.
Proof. unfold midpoint_A; vf. Qed.

(* homogeneity (scale invariance): the step is linear in (u_n, v_n, a_n, bN, F) and the unknown -- multiplying them
   all by s multiplies the right-hand side, the system row, the evaluation-point states and the returned state by s;
   so s x solves the scaled system wherever x solves the original one, and the scaled step returns s times the state *)
Local Notation GS f s y := (f I K C M dt beta gamma alpha (vscal s u_n) (vscal s v_n) (vscal s a_n) y (vscal s bN) (vscal s F)).
Theorem midpoint_step_homogeneous : forall s x i,
  GS midpoint_rhs s (vscal s x) i = s * G midpoint_rhs x i /\
  (GS midpoint_sysop s (vscal s x)) (vscal s x) i = s * midpoint_A x i /\
  GS midpoint_up_u s (vscal s x) i = s * G midpoint_up_u x i /\
  GS midpoint_up_v s (vscal s x) i = s * G midpoint_up_v x i /\
  GS midpoint_up_a s (vscal s x) i = s * G midpoint_up_a x i /\
  GS midpoint_ev_ut s (vscal s x) i = s * G midpoint_ev_ut x i /\
  GS midpoint_ev_vt s (vscal s x) i = s * G midpoint_ev_vt x i /\
  GS midpoint_ev_at s (vscal s x) i = s * G midpoint_ev_at x i.
Proof. intros; unfold midpoint_A; repeat split; vf. Qed.

Theorem midpoint_scaled_solution : forall s x i,
  midpoint_A x i = G midpoint_rhs x i ->
  (GS midpoint_sysop s (vscal s x)) (vscal s x) i = GS midpoint_rhs s (vscal s x) i.
Proof.
  intros s x i H. destruct (midpoint_step_homogeneous s x i) as [E1 [E2 _]]. rewrite E1, E2, H. reflexivity.
Qed.

(* change of the time unit: dt -> s dt, v -> v / s, a -> a / s^2, C -> s C, M -> s^2 M (forces, K, u unchanged) gives the
   same right-hand side and system row, and returns the same u, v / s, a / s^2 -- the schemes carry no hidden time scale *)
Local Notation GT f s y := (f I K (oscal s C) (oscal (s ^ 2) M) (s * dt) beta gamma alpha u_n (vscal (/ s) v_n) (vscal (/ s ^ 2) a_n) y bN F).
Theorem midpoint_time_rescaling : forall s x i, s <> 0 ->
  GT midpoint_rhs s (x) i = G midpoint_rhs x i /\
  (GT midpoint_sysop s (x)) (x) i = midpoint_A x i /\
  GT midpoint_up_u s (x) i = G midpoint_up_u x i /\
  GT midpoint_up_v s (x) i = / s * G midpoint_up_v x i /\
  GT midpoint_up_a s (x) i = / s ^ 2 * G midpoint_up_a x i.
Proof. intros s x i Hs; unfold midpoint_A; repeat split; vf. Qed.

(* row i of the system minus row i of the right-hand side of _Solver_Apply_Neumann
   = residual of the equation of motion at dof i *)
Theorem midpoint_eom_identity : forall x i,
  midpoint_lhs x i - (bN i + F i) = midpoint_A x i - G midpoint_rhs x i.
Proof using All. unfold midpoint_lhs, midpoint_A; vf. Qed.

(* discrete equation of motion on every dof whose row is solved (= every free dof) *)
Theorem midpoint_discrete_eom : forall x i,
  midpoint_A x i = G midpoint_rhs x i -> midpoint_lhs x i = bN i + F i.
Proof using All. intros x i H. pose proof (midpoint_eom_identity x i). lra. Qed.

(* Newton (incremental) path: b is the assembled residual alone; an increment d with
   A d = residual(y) on a dof makes the residual vanish there, and y + d satisfies the direct system *)
Theorem midpoint_newton_consistent : forall y d i,
  G midpoint_rhs_newton y i = bN i + F i /\
  (midpoint_A d i = (bN i + F i) - midpoint_lhs y i ->
     midpoint_lhs (vadd y d) i = bN i + F i /\ midpoint_A (vadd y d) i = G midpoint_rhs (vadd y d) i).
Proof.
  intros y d i. split; [vf|]. intros H.
  assert (E : midpoint_lhs (vadd y d) i = midpoint_lhs y i + midpoint_A d i)
    by (unfold midpoint_lhs, midpoint_A; vf).
  pose proof (midpoint_eom_identity (vadd y d) i). lra.
Qed.

(* the statement of the property in terms of what one step RETURNS: the new state (u,v,a)^{n+1} makes
   K u_t + C v_t + M a_t equal the load at the documented evaluation points, on every solved (free) dof *)
Theorem midpoint_step_correct : forall x i,
  midpoint_A x i = G midpoint_rhs x i ->
  K (mean (G midpoint_up_u x) u_n) i + C (mean (G midpoint_up_v x) v_n) i + M (mean (G midpoint_up_a x) a_n) i = bN i + F i.
Proof using All.
  intros x i H. pose proof (midpoint_discrete_eom x i H) as E. unfold midpoint_lhs, vadd in E.
  assert (E1 : mean (G midpoint_up_u x) u_n = G midpoint_ev_ut x) by (extensionality j; symmetry; apply midpoint_eval_consistent).
  assert (E2 : mean (G midpoint_up_v x) v_n = G midpoint_ev_vt x) by (extensionality j; symmetry; apply midpoint_eval_consistent).
  assert (E3 : mean (G midpoint_up_a x) a_n = G midpoint_ev_at x) by (extensionality j; symmetry; apply midpoint_eval_consistent).
  rewrite E1, E2, E3. lra.
Qed.

End S_midpoint.

Print Assumptions midpoint_params_stored.
Print Assumptions midpoint_update_rule.
Print Assumptions midpoint_eval_consistent.
Print Assumptions midpoint_coefs_are_derivatives.
Print Assumptions midpoint_sysop_is_weighted_sum.
Print Assumptions midpoint_step_homogeneous.
Print Assumptions midpoint_scaled_solution.
Print Assumptions midpoint_time_rescaling.
Print Assumptions midpoint_eom_identity.
Print Assumptions midpoint_discrete_eom.
Print Assumptions midpoint_newton_consistent.
Print Assumptions midpoint_step_correct.
