(* C05 -- non-vacuity of the stability theorems: 2 dofs, K = [[2,-1],[-1,2]], M = diag(2,1) (resp. C = diag(2,1)),
   a state in equilibrium that is not at rest, admissible parameters with 2 beta >= gamma >= 1/2 (resp. theta >= 1/2)
   and the exact solution of the system the code builds. *)
From Coq Require Import Reals Lra Psatz FunctionalExtensionality List.
From EFLib Require Import C05_VecSpace.
From EFP Require Import Gen_TimeSchemes C05_spec C05_newmark C05_parabolic C05_examples C05_stability.
Local Open Scope R_scope.

Example newmark_stability_hyps_satisfiable :
  let st := (vec2 1 0, vec2 0 1, vec2 (-1) 1) in
  let l := vec2 (164/179) (88/179) :: nil in
  (forall u v a y, newmark_admissible bool K2 ozero M2 (1/2) (1/2) (3/4) 0 u v a y vzero vzero) /\
  (1/2 : R) <> 0 /\ 1/2 <= 3/4 /\ 3/4 <= 2 * (1/2) /\
  nm_equilibrium bool K2 M2 st /\ nm_all_solved bool K2 M2 (1/2) (1/2) (3/4) 0 l st /\
  nm_Estar bool ip2 K2 M2 (1/2) (1/2) (3/4) st > 0.
Proof.
  intros st l.
  split; [intros; autounfold with c05gen; lra|].
  split; [lra|]. split; [lra|]. split; [lra|].
  split; [|split].
  - unfold nm_equilibrium, st. simpl. extensionality i. unfold vadd, vzero, K2, M2, mat2, vec2. destruct i; simpl; lra.
  - unfold l, st. simpl. split; [|exact Logic.I]. unfold nm_solved. simpl. intros i. unfold newmark_A. autounfold with c05gen. ounfold; vunfold.
    unfold K2, M2, mat2, vec2. destruct i; simpl; lra.
  - unfold nm_Estar, newmark_Estar, st, ip2, K2, M2, mat2, vec2. simpl. lra.
Qed.

Example theta_stability_hyps_satisfiable :
  let st := (vec2 1 0, vec2 (-1) 1) in
  let l := mktstep bool (1/2) (3/4) (vec2 (199/299) (64/299)) :: nil in
  th_equilibrium bool K2 M2 st /\ th_all_solved bool K2 M2 l st /\ th_rate bool ip2 M2 st > 0.
Proof.
  intros st l. split; [|split].
  - unfold th_equilibrium, st. simpl. extensionality i. unfold vadd, vzero, K2, M2, mat2, vec2. destruct i; simpl; lra.
  - unfold l, st. simpl. split; [|exact Logic.I]. unfold th_solved. simpl. split; [|split].
    + autounfold with c05gen. lra.
    + lra.
    + intros i. unfold parabolic_A. autounfold with c05gen. ounfold; vunfold.
      unfold K2, M2, mat2, vec2. destruct i; simpl; lra.
  - unfold th_rate, st, ip2, M2, mat2, vec2. simpl. lra.
Qed.
