(* C05 -- SPECIFICATION: the update relations documented in the docstrings of
   EasyFEA/Simulations/Solvers.py, class AlgoType (lines 64-162), and of
   _Simu.Solver_Set_Parabolic_Algorithm, transcribed by hand once.  Pointwise on vectors I -> R.
   Nothing here is generated; the generated definitions (Gen_TimeSchemes.v) are proved to satisfy
   these relations in the C05_<algo>.v files. *)
From Coq Require Import Reals.
Local Open Scope R_scope.

Section Spec.
Context {I : Type}.
Notation Vec := (I -> R).

(* AlgoType.newmark:  Predictor  u~ = u^n + dt v^n + dt^2/2 (1-2 beta) a^n *)
Definition newmark_pred (dt beta : R) (u_n v_n a_n : Vec) : Vec :=
  fun i => u_n i + dt * v_n i + dt ^ 2 / 2 * (1 - 2 * beta) * a_n i.
(* Update  a^{n+1} = (u^{n+1} - u~) / (beta dt^2) *)
Definition newmark_acc (dt beta : R) (u_n v_n a_n u1 : Vec) : Vec :=
  fun i => (u1 i - newmark_pred dt beta u_n v_n a_n i) / (beta * dt ^ 2).
(*         v^{n+1} = v^n + dt [(1-gamma) a^n + gamma a^{n+1}] *)
Definition newmark_vel (dt gamma : R) (v_n a_n a1 : Vec) : Vec :=
  fun i => v_n i + dt * ((1 - gamma) * a_n i + gamma * a1 i).

(* AlgoType.hht: evaluation points  y^t = (1-alpha) y^{n+1} + alpha y^n  for y = u, v, a *)
Definition hht_point (alpha : R) (y1 y0 : Vec) : Vec :=
  fun i => (1 - alpha) * y1 i + alpha * y0 i.

(* AlgoType.midpoint: v^{n+1} = 2/dt (u^{n+1}-u^n) - v^n ;  a^{n+1} = 2/dt (v^{n+1}-v^n) - a^n ;
   "hht with alpha = 1/2": evaluation points are the means *)
Definition midpoint_vel (dt : R) (u_n v_n u1 : Vec) : Vec :=
  fun i => 2 / dt * (u1 i - u_n i) - v_n i.
Definition midpoint_acc (dt : R) (v_n a_n v1 : Vec) : Vec :=
  fun i => 2 / dt * (v1 i - v_n i) - a_n i.
Definition mean (y1 y0 : Vec) : Vec := fun i => (y1 i + y0 i) / 2.

(* AlgoType.hht_newmark: beta = 1/4 (1+alpha)^2, gamma = 1/2 + alpha, alpha in [0, 1/3] *)
Definition hhtn_beta (alpha : R) : R := 1 / 4 * (1 + alpha) ^ 2.
Definition hhtn_gamma (alpha : R) : R := 1 / 2 + alpha.

(* AlgoType.euler_implicit: v^t = (u^{n+1}-u^n)/dt ; a^t = (v^t - v^n)/dt *)
Definition euler_vel (dt : R) (u_n u1 : Vec) : Vec := fun i => (u1 i - u_n i) / dt.
Definition euler_acc (dt : R) (v_n vt : Vec) : Vec := fun i => (vt i - v_n i) / dt.

(* AlgoType.euler_explicit: u^{n+1} = u^n + dt v^n ; v^{n+1} = v^n + dt a^n *)
Definition fe_disp (dt : R) (u_n v_n : Vec) : Vec := fun i => u_n i + dt * v_n i.
Definition fe_vel (dt : R) (v_n an : Vec) : Vec := fun i => v_n i + dt * an i.

(* Solver_Set_Parabolic_Algorithm: K u^{n+1} + C v^{n+1} = F^{n+1} with
   u^{n+1} = u^n + dt v^{n+alpha},  v^{n+alpha} = (1-alpha) v^n + alpha v^{n+1} (Hughes 1987 ch. 8) *)
Definition theta_disp (dt alpha : R) (u_n v_n v1 : Vec) : Vec :=
  fun i => u_n i + dt * ((1 - alpha) * v_n i + alpha * v1 i).

End Spec.

#[export] Hint Unfold newmark_pred newmark_acc newmark_vel hht_point midpoint_vel midpoint_acc mean
  hhtn_beta hhtn_gamma euler_vel euler_acc fe_disp fe_vel theta_disp : c05spec.
