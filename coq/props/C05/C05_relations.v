(* C05 -- documented relations between the schemes (Solvers.py AlgoType docstrings):
   hht with alpha = 0 is newmark; hht with alpha = 1/2, beta = 1/4, gamma = 1/2 is midpoint;
   hht_newmark with alpha = 0 is newmark (beta = 1/4, gamma = 1/2) exactly; documented parameter ranges. *)
From Coq Require Import Reals Lra Psatz FunctionalExtensionality.
From EFLib Require Import C05_VecSpace.
From EFP Require Import Gen_TimeSchemes C05_spec.
Local Open Scope R_scope.

Section Rel.
Variable I : Type.
Notation Vec := (I -> R).
Variables K C M : Vec -> Vec.
Hypothesis HK : linear K.
Hypothesis HC : linear C.
Hypothesis HM : linear M.
Variables dt beta gamma : R.
Variables u_n v_n a_n bN F : Vec.
Hypothesis Hdt : dt <> 0.
Local Notation G f al y := (f I K C M dt beta gamma al u_n v_n a_n y bN F).
Local Notation Gq f al y := (f I K C M dt (1/4) (1/2) al u_n v_n a_n y bN F).

Ltac vf := intros; autounfold with c05gen c05spec; vec_field HK HC HM.

Theorem hht_alpha0_is_newmark : beta <> 0 -> forall x i,
  G hht_ev_ut 0 x i = G newmark_ev_ut 0 x i /\ G hht_ev_vt 0 x i = G newmark_ev_vt 0 x i /\
  G hht_ev_at 0 x i = G newmark_ev_at 0 x i /\
  G hht_coefK 0 x = G newmark_coefK 0 x /\ G hht_coefC 0 x = G newmark_coefC 0 x /\
  G hht_coefM 0 x = G newmark_coefM 0 x /\
  G hht_rhs 0 x i = G newmark_rhs 0 x i /\
  G hht_up_u 0 x i = G newmark_up_u 0 x i /\ G hht_up_v 0 x i = G newmark_up_v 0 x i /\
  G hht_up_a 0 x i = G newmark_up_a 0 x i.
Proof. intros Hb x i; repeat split; vf. Qed.

Theorem hht_alpha_half_is_midpoint : forall x i,
  Gq hht_ev_ut (1/2) x i = Gq midpoint_ev_ut (1/2) x i /\ Gq hht_ev_vt (1/2) x i = Gq midpoint_ev_vt (1/2) x i /\
  Gq hht_ev_at (1/2) x i = Gq midpoint_ev_at (1/2) x i /\
  Gq hht_coefK (1/2) x = Gq midpoint_coefK (1/2) x /\ Gq hht_coefC (1/2) x = Gq midpoint_coefC (1/2) x /\
  Gq hht_coefM (1/2) x = Gq midpoint_coefM (1/2) x /\
  Gq hht_rhs (1/2) x i = Gq midpoint_rhs (1/2) x i /\
  Gq hht_up_u (1/2) x i = Gq midpoint_up_u (1/2) x i /\ Gq hht_up_v (1/2) x i = Gq midpoint_up_v (1/2) x i /\
  Gq hht_up_a (1/2) x i = Gq midpoint_up_a (1/2) x i.
Proof. intros x i; repeat split; vf. Qed.

Theorem hht_newmark_alpha0_is_newmark : forall x i,
  G hht_newmark_stored_beta 0 x = 1/4 /\ G hht_newmark_stored_gamma 0 x = 1/2 /\
  Gq hht_newmark_ev_ut 0 x i = Gq newmark_ev_ut 0 x i /\ Gq hht_newmark_ev_vt 0 x i = Gq newmark_ev_vt 0 x i /\
  Gq hht_newmark_ev_at 0 x i = Gq newmark_ev_at 0 x i /\
  Gq hht_newmark_coefK 0 x = Gq newmark_coefK 0 x /\ Gq hht_newmark_coefC 0 x = Gq newmark_coefC 0 x /\
  Gq hht_newmark_coefM 0 x = Gq newmark_coefM 0 x /\
  Gq hht_newmark_rhs 0 x i = Gq newmark_rhs 0 x i /\
  Gq hht_newmark_up_u 0 x i = Gq newmark_up_u 0 x i /\ Gq hht_newmark_up_v 0 x i = Gq newmark_up_v 0 x i /\
  Gq hht_newmark_up_a 0 x i = Gq newmark_up_a 0 x i.
Proof. intros x i; repeat split; vf. Qed.

(* the ranges the setters assert are the documented ones *)
Theorem documented_ranges : forall al x,
  (G hht_admissible al x <-> dt > 0 /\ 0 <= al < 1) /\
  (G newmark_admissible al x <-> dt > 0 /\ 0 <= al < 1) /\
  (G midpoint_admissible al x <-> dt > 0 /\ 0 <= al < 1) /\
  (G euler_implicit_admissible al x <-> dt > 0 /\ 0 <= al < 1) /\
  (G euler_explicit_admissible al x <-> dt > 0 /\ 0 <= al < 1) /\
  (G hht_newmark_admissible al x <-> dt > 0 /\ 0 <= al <= 1 / 3) /\
  (G parabolic_admissible al x <-> dt > 0).
Proof. intros; autounfold with c05gen; repeat split; intros; try tauto; try lra. Qed.

End Rel.

Print Assumptions hht_alpha0_is_newmark.
Print Assumptions hht_alpha_half_is_midpoint.
Print Assumptions hht_newmark_alpha0_is_newmark.
Print Assumptions documented_ranges.
