(* C05 -- non-vacuity: the hypotheses of the theorems are satisfiable.  I := bool (2 dofs), explicit
   2x2 matrices K = [[2,-1],[-1,2]], M = diag(2,1), Rayleigh damping C = 1/2 K + 1/4 M, concrete
   states and loads, and for each algorithm the exact solution x of the system the code builds. *)
From Coq Require Import Reals Lra Psatz FunctionalExtensionality List.
From EFLib Require Import C05_VecSpace.
From EFP Require Import Gen_TimeSchemes C05_spec C05_parabolic C05_newmark C05_hht C05_hht_newmark
  C05_midpoint C05_euler_implicit C05_euler_explicit C05_energy.
Local Open Scope R_scope.

Definition vec2 (p q : R) : bool -> R := fun i => if i then p else q.
Definition mat2 (a b c d : R) : (bool -> R) -> bool -> R :=
  fun v i => if i then a * v true + b * v false else c * v true + d * v false.
Definition ip2 (x y : bool -> R) : R := x true * y true + x false * y false.

Lemma mat2_linear a b c d : linear (mat2 a b c d).
Proof. split; intros; extensionality i; destruct i; unfold mat2, vadd, vscal; ring. Qed.
Lemma ip2_inner : inner ip2.
Proof. split; intros; unfold ip2, vadd, vscal; ring. Qed.
Lemma mat2_selfadj a b d : selfadj ip2 (mat2 a b b d).
Proof. intros x y; unfold ip2, mat2; ring. Qed.

Definition K2 := mat2 2 (-1) (-1) 2.
Definition M2 := mat2 2 0 0 1.
Definition C2 := mat2 (3/2) (-1/2) (-1/2) (5/4).   (* = 1/2 K2 + 1/4 M2 *)
Definition Z2 := @ozero bool.

Lemma K2_psd : psd ip2 K2.
Proof. intros x; unfold ip2, K2, mat2. nra. Qed.
Lemma M2_psd : psd ip2 M2.
Proof. intros x; unfold ip2, M2, mat2. nra. Qed.

Example operators_exist :
  linear K2 /\ linear C2 /\ linear M2 /\ inner ip2 /\ selfadj ip2 K2 /\ selfadj ip2 M2 /\
  psd ip2 K2 /\ psd ip2 M2 /\ K2 (vec2 1 0) true <> 0.
Proof.
  repeat split; try apply mat2_linear; try apply ip2_inner; try apply mat2_selfadj;
    try apply K2_psd; try apply M2_psd.
  unfold K2, mat2, vec2. lra.
Qed.

Local Notation Q f x := (f bool K2 C2 M2 (1/2) (1/4) (1/2) (1/4) (vec2 1 0) (vec2 0 1) (vec2 1 (-1)) x (vec2 0 1) (vec2 1 0)).
Local Notation QA f x := (f bool K2 C2 M2 (1/2) (1/4) (1/2) (1/4) (vec2 1 0) (vec2 0 1) (vec2 1 (-1)) (vec2 0 1) (vec2 1 0) x).

Ltac adm := autounfold with c05gen; lra.
Ltac solves A := intros i; unfold A; autounfold with c05gen; ounfold; vunfold;
  unfold K2, C2, M2, mat2, vec2; destruct i; simpl; lra.

Example newmark_hyps_satisfiable : exists x,
  Q newmark_admissible x /\ (1/4 <> 0) /\ (forall i, QA newmark_A x i = Q newmark_rhs x i) /\ x true <> 1.
Proof. exists (vec2 (3813/3644) (823/1822)). repeat split; try adm; try lra; [solves newmark_A | unfold vec2; lra]. Qed.

Example hht_hyps_satisfiable : exists x,
  Q hht_admissible x /\ (forall i, QA hht_A x i = Q hht_rhs x i) /\ x true <> 1.
Proof. exists (vec2 (5615/5466) (1297/2733)). repeat split; try adm; [solves hht_A | unfold vec2; lra]. Qed.

Example hht_newmark_hyps_satisfiable : exists x,
  Q hht_newmark_admissible x /\ (forall i, QA hht_newmark_A x i = Q hht_newmark_rhs x i) /\ x true <> 1.
Proof. exists (vec2 (14730/14099) (6500/14099)). repeat split; try adm; [solves hht_newmark_A | unfold vec2; lra]. Qed.

Example midpoint_hyps_satisfiable : exists x,
  Q midpoint_admissible x /\ (forall i, QA midpoint_A x i = Q midpoint_rhs x i) /\ x true <> 1.
Proof. exists (vec2 (901/911) (474/911)). repeat split; try adm; [solves midpoint_A | unfold vec2; lra]. Qed.

Example euler_implicit_hyps_satisfiable : exists x,
  Q euler_implicit_admissible x /\ (forall i, QA euler_implicit_A x i = Q euler_implicit_rhs x i) /\ x true <> 1.
Proof. exists (vec2 (212/213) (100/213)). repeat split; try adm; [solves euler_implicit_A | unfold vec2; lra]. Qed.

Example euler_explicit_hyps_satisfiable : exists x,
  Q euler_explicit_admissible x /\ (forall i, QA euler_explicit_A x i = Q euler_explicit_rhs x i) /\ x true <> 0.
Proof. exists (vec2 (-1/4) (3/4)). repeat split; try adm; [solves euler_explicit_A | unfold vec2; lra]. Qed.

Example parabolic_hyps_satisfiable : exists x,
  Q parabolic_admissible x /\ (1/4 <> 0) /\ (forall i, QA parabolic_A x i = Q parabolic_rhs x i) /\ x true <> 1.
Proof. exists (vec2 (567/572) (68/143)). repeat split; try adm; try lra; [solves parabolic_A | unfold vec2; lra]. Qed.

(* energy theorems: undamped, unloaded, previous state (u0,v0,a0) = ((1,0),(0,1),(-1,1)) is in dynamic
   equilibrium (M a0 + K u0 = 0) and is not at rest; two steps with different schemes and step sizes *)
Local Notation E2 f dt u v a x := (f bool K2 Z2 M2 dt (1/4) (1/2) (1/2) u v a x (@vzero bool) (@vzero bool)).
Local Notation E2A f dt u v a x := (f bool K2 Z2 M2 dt (1/4) (1/2) (1/2) u v a (@vzero bool) (@vzero bool) x).

Ltac solvesE A := intros i; unfold A; autounfold with c05gen; ounfold; vunfold;
  unfold K2, Z2, M2, mat2, vec2; ounfold; vunfold; destruct i; simpl; lra.

Example energy_hyps_satisfiable :
  let st := (vec2 1 0, vec2 0 1, vec2 (-1) 1) in
  let l := mkstep bool Midpoint (1/2) (vec2 (549/611) (336/611)) :: nil in
  equilibrium bool K2 M2 st /\ all_solved bool K2 M2 l st /\
  E bool K2 M2 ip2 st = 3/2 /\ E bool K2 M2 ip2 (run bool K2 M2 l st) = 3/2.
Proof.
  intros st l.
  assert (Heq : equilibrium bool K2 M2 st).
  { unfold equilibrium, st. extensionality i. unfold vadd, vzero, K2, M2, mat2, vec2. destruct i; simpl; lra. }
  assert (Hs : all_solved bool K2 M2 l st).
  { unfold l, st. simpl. split; [|exact Logic.I]. unfold solved. simpl. split; [adm|].
    solvesE midpoint_A. }
  assert (E0 : E bool K2 M2 ip2 st = 3/2).
  { unfold E, st, energy, ip2, K2, M2, mat2, vec2. simpl. lra. }
  split; [exact Heq | split; [exact Hs | split; [exact E0 | ]]].
  assert (HF : Forall (fun d => sd_scheme bool d <> EulerImplicit) l).
  { unfold l. constructor; [simpl; congruence | constructor]. }
  destruct (conservative_sequence bool K2 M2 (mat2_linear _ _ _ _) (mat2_linear _ _ _ _) ip2 ip2_inner
              (mat2_selfadj _ _ _) (mat2_selfadj _ _ _) l st HF Heq Hs) as [_ H].
  rewrite H. exact E0.
Qed.

Print Assumptions energy_hyps_satisfiable.
