(* C05 -- energy theorems.  No damping (C = 0), no load (F = 0, no Neumann values), K and M
   self-adjoint for an arbitrary symmetric bilinear form ip (x'y for matrices):
     midpoint conserves E = 1/2 ip(M v, v) + 1/2 ip(K u, u) for ANY previous state and step size;
     average-acceleration Newmark (beta = 1/4, gamma = 1/2) conserves it for every state in dynamic
       equilibrium (M a + K u = 0), and every step ends in dynamic equilibrium;
     backward Euler never increases it (K, M positive semi-definite);
   lifted by induction over fold_left to any number of steps with any step sizes and any interleaving
   of the three schemes.
   Homogeneous Dirichlet constraints are covered by taking I := the free dofs (K, M the reduced operators). *)
From Coq Require Import Reals Lra Psatz FunctionalExtensionality List.
From EFLib Require Import C05_VecSpace.
From EFP Require Import Gen_TimeSchemes C05_spec C05_midpoint C05_newmark C05_euler_implicit.
Local Open Scope R_scope.

Section Energy.
Variable I : Type.
Notation Vec := (I -> R).
Variables K M : Vec -> Vec.
Hypothesis HK : linear K.
Hypothesis HM : linear M.
Variable ip : Vec -> Vec -> R.
Hypothesis Hip : inner ip.
Hypothesis HKs : selfadj ip K.
Hypothesis HMs : selfadj ip M.

Definition energy (u v : Vec) : R := 1 / 2 * ip (M v) v + 1 / 2 * ip (K u) u.

Let C : Vec -> Vec := ozero.
Let HC : linear C := ozero_linear.
Let Z : Vec := vzero.

Let SK := selfadj_swap ip K Hip HKs.
Let SM := selfadj_swap ip M Hip HMs.

(* bring ip (A a) b into a canonical order of the four atoms x, u0, v0, a0 *)
Ltac sympairs x u0 v0 a0 :=
  rewrite ?(SK u0 x), ?(SK v0 x), ?(SK a0 x), ?(SK v0 u0), ?(SK a0 u0), ?(SK a0 v0),
          ?(SM u0 x), ?(SM v0 x), ?(SM a0 x), ?(SM v0 u0), ?(SM a0 u0), ?(SM a0 v0).

Ltac bilin x u0 v0 a0 :=
  autounfold with c05gen; lin3 HK HC HM; unfold C, ozero; ip_expand Hip; sympairs x u0 v0 a0.

(* ------------------------------------------------------------------ midpoint *)
Section Mid.
Variables dt beta gamma alpha : R.
Variables u0 v0 a0 x : Vec.
Local Notation G f y := (f I K C M dt beta gamma alpha u0 v0 a0 y Z Z).
Hypothesis Hadm : G midpoint_admissible x.
Hypothesis Hsolved : forall i, midpoint_A I K C M dt beta gamma alpha u0 v0 a0 Z Z x i = G midpoint_rhs x i.

Let Hdt : dt <> 0.
Proof. generalize Hadm; autounfold with c05gen; intuition lra. Qed.

Let Hres : midpoint_lhs I K C M dt beta gamma alpha u0 v0 a0 Z Z x = vzero.
Proof.
  extensionality i.
  rewrite (midpoint_discrete_eom I K C M HK HC HM dt beta gamma alpha u0 v0 a0 Z Z Hadm x i (Hsolved i)).
  unfold Z, vzero; ring.
Qed.

Lemma midpoint_energy_identity :
  energy (G midpoint_up_u x) (G midpoint_up_v x) - energy u0 v0 =
  dt / 2 * ip (midpoint_lhs I K C M dt beta gamma alpha u0 v0 a0 Z Z x) (vadd (G midpoint_up_v x) v0).
Proof. unfold energy, midpoint_lhs. bilin x u0 v0 a0. field; nzside. Qed.

Theorem midpoint_conserves :
  energy (G midpoint_up_u x) (G midpoint_up_v x) = energy u0 v0.
Proof.
  pose proof midpoint_energy_identity as H. rewrite Hres, (ip_zero_l _ Hip) in H. lra.
Qed.

Theorem midpoint_preserves_equilibrium :
  vadd (M a0) (K u0) = vzero ->
  vadd (M (G midpoint_up_a x)) (K (G midpoint_up_u x)) = vzero.
Proof.
  intros H0. extensionality i.
  assert (E : vadd (M (G midpoint_up_a x)) (K (G midpoint_up_u x)) i =
              2 * midpoint_lhs I K C M dt beta gamma alpha u0 v0 a0 Z Z x i - vadd (M a0) (K u0) i).
  { unfold midpoint_lhs. autounfold with c05gen. lin3 HK HC HM. unfold C, ozero. vunfold. field; nzside. }
  rewrite E, Hres, H0. unfold vzero; ring.
Qed.
End Mid.

(* ------------------------------------------------------------------ Newmark, average acceleration *)
Section Nm.
Variables dt alpha : R.
Variables u0 v0 a0 x : Vec.
Local Notation G f y := (f I K C M dt (1/4) (1/2) alpha u0 v0 a0 y Z Z).
Hypothesis Hadm : G newmark_admissible x.
Hypothesis Hsolved : forall i, newmark_A I K C M dt (1/4) (1/2) alpha u0 v0 a0 Z Z x i = G newmark_rhs x i.

Let Hdt : dt <> 0.
Proof. generalize Hadm; autounfold with c05gen; intuition lra. Qed.
Let Hb : 1 / 4 <> 0.
Proof. lra. Qed.

(* every Newmark step ends in dynamic equilibrium, whatever the previous state *)
Theorem newmark_preserves_equilibrium :
  vadd (M (G newmark_up_a x)) (K (G newmark_up_u x)) = vzero.
Proof.
  extensionality i.
  pose proof (newmark_equilibrium_at_np1 I K C M HK HC HM dt (1/4) (1/2) alpha u0 v0 a0 Z Z Hadm Hb x i (Hsolved i)) as H.
  change (C (G newmark_up_v x) i) with 0 in H. change (Z i) with 0 in H. unfold vadd, vzero. lra.
Qed.

Lemma newmark_avg_energy_identity :
  energy (G newmark_up_u x) (G newmark_up_v x) - energy u0 v0 =
  dt / 4 * ip (vadd (vadd (M a0) (K u0)) (vadd (M (G newmark_up_a x)) (K (G newmark_up_u x))))
              (vadd v0 (G newmark_up_v x)).
Proof. unfold energy. bilin x u0 v0 a0. field; nzside. Qed.

Theorem newmark_avg_conserves :
  vadd (M a0) (K u0) = vzero ->
  energy (G newmark_up_u x) (G newmark_up_v x) = energy u0 v0.
Proof.
  intros H0. pose proof newmark_avg_energy_identity as H.
  rewrite H0, newmark_preserves_equilibrium in H.
  replace (vadd vzero vzero) with (@vzero I) in H by (extensionality i; unfold vadd, vzero; ring).
  rewrite (ip_zero_l _ Hip) in H. lra.
Qed.
End Nm.

(* ------------------------------------------------------------------ backward Euler *)
Section BE.
Hypothesis HKp : psd ip K.
Hypothesis HMp : psd ip M.
Variables dt beta gamma alpha : R.
Variables u0 v0 a0 x : Vec.
Local Notation G f y := (f I K C M dt beta gamma alpha u0 v0 a0 y Z Z).
Hypothesis Hadm : G euler_implicit_admissible x.
Hypothesis Hsolved : forall i, euler_implicit_A I K C M dt beta gamma alpha u0 v0 a0 Z Z x i = G euler_implicit_rhs x i.

Let Hdt : dt <> 0.
Proof. generalize Hadm; autounfold with c05gen; intuition lra. Qed.

Theorem euler_implicit_ends_in_equilibrium :
  vadd (M (G euler_implicit_up_a x)) (K (G euler_implicit_up_u x)) = vzero.
Proof.
  extensionality i.
  pose proof (euler_implicit_discrete_eom I K C M HK HC HM dt beta gamma alpha u0 v0 a0 Z Z Hadm x i (Hsolved i)) as H.
  assert (E : vadd (M (G euler_implicit_up_a x)) (K (G euler_implicit_up_u x)) i =
              euler_implicit_lhs I K C M dt beta gamma alpha u0 v0 a0 Z Z x i).
  { unfold euler_implicit_lhs. autounfold with c05gen. lin3 HK HC HM. unfold C, ozero. vunfold. field; nzside. }
  rewrite E, H. unfold Z, vzero; ring.
Qed.

Lemma euler_implicit_energy_identity :
  energy (G euler_implicit_up_u x) (G euler_implicit_up_v x) - energy u0 v0 =
  dt * ip (vadd (M (G euler_implicit_up_a x)) (K (G euler_implicit_up_u x))) (G euler_implicit_up_v x)
  - 1 / 2 * ip (M (vsub (G euler_implicit_up_v x) v0)) (vsub (G euler_implicit_up_v x) v0)
  - 1 / 2 * ip (K (vsub (G euler_implicit_up_u x) u0)) (vsub (G euler_implicit_up_u x) u0).
Proof. unfold energy. bilin x u0 v0 a0. field; nzside. Qed.

Theorem euler_implicit_dissipates :
  energy (G euler_implicit_up_u x) (G euler_implicit_up_v x) <= energy u0 v0.
Proof.
  pose proof euler_implicit_energy_identity as H.
  rewrite euler_implicit_ends_in_equilibrium, (ip_zero_l _ Hip) in H.
  pose proof (HMp (vsub (G euler_implicit_up_v x) v0)).
  pose proof (HKp (vsub (G euler_implicit_up_u x) u0)).
  lra.
Qed.
End BE.

(* ------------------------------------------------------------------ any number of steps, any step sizes,
   any interleaving of the schemes (switching algorithm or step size between steps) *)
Section Seq.
Inductive scheme := Midpoint | NewmarkAvg | EulerImplicit.
Definition state := (Vec * Vec * Vec)%type.
(* one step: the scheme, the step size and the vector returned by the linear solve *)
Record stepdata := mkstep { sd_scheme : scheme; sd_dt : R; sd_x : Vec }.

Local Notation P f d u v a := (f I K C M (sd_dt d) (1/4) (1/2) (1/2) u v a (sd_x d) Z Z).

Definition next (d : stepdata) (st : state) : state :=
  let '(u, v, a) := st in
  match sd_scheme d with
  | Midpoint => (P midpoint_up_u d u v a, P midpoint_up_v d u v a, P midpoint_up_a d u v a)
  | NewmarkAvg => (P newmark_up_u d u v a, P newmark_up_v d u v a, P newmark_up_a d u v a)
  | EulerImplicit => (P euler_implicit_up_u d u v a, P euler_implicit_up_v d u v a, P euler_implicit_up_a d u v a)
  end.

(* the parameters are accepted by the setter and sd_x solves the system the code builds *)
Definition solved (d : stepdata) (st : state) : Prop :=
  let '(u, v, a) := st in
  match sd_scheme d with
  | Midpoint => P midpoint_admissible d u v a /\
      forall i, midpoint_A I K C M (sd_dt d) (1/4) (1/2) (1/2) u v a Z Z (sd_x d) i = P midpoint_rhs d u v a i
  | NewmarkAvg => P newmark_admissible d u v a /\
      forall i, newmark_A I K C M (sd_dt d) (1/4) (1/2) (1/2) u v a Z Z (sd_x d) i = P newmark_rhs d u v a i
  | EulerImplicit => P euler_implicit_admissible d u v a /\
      forall i, euler_implicit_A I K C M (sd_dt d) (1/4) (1/2) (1/2) u v a Z Z (sd_x d) i = P euler_implicit_rhs d u v a i
  end.

Definition run (l : list stepdata) (st : state) : state := fold_left (fun s d => next d s) l st.

Fixpoint all_solved (l : list stepdata) (st : state) : Prop :=
  match l with
  | nil => True
  | d :: l' => solved d st /\ all_solved l' (next d st)
  end.

Definition equilibrium (st : state) : Prop := let '(u, _, a) := st in vadd (M a) (K u) = vzero.
Definition E (st : state) : R := let '(u, v, _) := st in energy u v.

Lemma step_conservative : forall d st, sd_scheme d <> EulerImplicit ->
  equilibrium st -> solved d st -> equilibrium (next d st) /\ E (next d st) = E st.
Proof.
  intros [s dt x] [[u v] a] Hs Heq Hsol. unfold next, solved, equilibrium, E in *. simpl in *.
  destruct s; try congruence; destruct Hsol as [Hadm Hsys]; split.
  - apply midpoint_preserves_equilibrium; assumption.
  - apply midpoint_conserves; assumption.
  - apply newmark_preserves_equilibrium; assumption.
  - apply newmark_avg_conserves; assumption.
Qed.

Theorem conservative_sequence : forall l st,
  Forall (fun d => sd_scheme d <> EulerImplicit) l ->
  equilibrium st -> all_solved l st ->
  equilibrium (run l st) /\ E (run l st) = E st.
Proof.
  induction l as [|d l IH]; intros st Hall Heq Hsol; simpl.
  - split; [assumption | reflexivity].
  - inversion Hall as [|d' l' Hd Hl]; subst. destruct Hsol as [S1 S2].
    destruct (step_conservative d st Hd Heq S1) as [He1 HE1].
    destruct (IH (next d st) Hl He1 S2) as [He2 HE2].
    unfold run in *. split; [assumption | lra].
Qed.

Hypothesis HKp : psd ip K.
Hypothesis HMp : psd ip M.

Lemma step_dissipative : forall d st,
  equilibrium st -> solved d st -> equilibrium (next d st) /\ E (next d st) <= E st.
Proof.
  intros d st Heq Hsol.
  destruct (sd_scheme d) eqn:Es.
  - destruct (step_conservative d st) as [A B]; try assumption; try congruence. split; [assumption|lra].
  - destruct (step_conservative d st) as [A B]; try assumption; try congruence. split; [assumption|lra].
  - destruct d as [s dt x]; destruct st as [[u v] a]. unfold next, solved, equilibrium, E in *. simpl in *.
    subst s. destruct Hsol as [Hadm Hsys]. split.
    + apply euler_implicit_ends_in_equilibrium; assumption.
    + apply euler_implicit_dissipates; assumption.
Qed.

Theorem energy_any_sequence : forall l st,
  equilibrium st -> all_solved l st ->
  equilibrium (run l st) /\ E (run l st) <= E st.
Proof.
  induction l as [|d l IH]; intros st Heq Hsol; simpl.
  - split; [assumption | lra].
  - destruct Hsol as [H1 H2].
    destruct (step_dissipative d st Heq H1) as [He1 HE1].
    destruct (IH (next d st) He1 H2) as [He2 HE2].
    unfold run in *. split; [assumption | lra].
Qed.
End Seq.

End Energy.

Print Assumptions midpoint_conserves.
Print Assumptions midpoint_preserves_equilibrium.
Print Assumptions newmark_preserves_equilibrium.
Print Assumptions newmark_avg_conserves.
Print Assumptions euler_implicit_dissipates.
Print Assumptions conservative_sequence.
Print Assumptions energy_any_sequence.
