(* C05 -- stability / energy balance for general parameters (undamped, unloaded: C = 0 resp. M absent, F = 0).
   Newmark, any beta <> 0 and gamma (Krenk 2006): with the modified energy
       E*(u,v,a) = 1/2 ip(M v,v) + 1/2 ip(K u,u) + (beta - gamma/2) dt^2 / 2 ip(M a,a)
   every step between states in dynamic equilibrium satisfies
       E*_{n+1} - E*_n = -(gamma - 1/2) [ ip(K du,du) + (beta - gamma/2) dt^2 ip(M da,da) ]
   hence: gamma = 1/2 conserves E* for every beta (beta = 1/4: E* = E); 2 beta >= gamma >= 1/2 with K, M PSD never
   increases E* for ANY step size (unconditional stability).
   Theta scheme (C v + K u = 0): for states in equilibrium
       G = 1/2 ip(K u,u) + (theta - 1/2) dt/2 ip(C v,v):   G_{n+1} - G_n = - dt ip(C vm, vm)         (vm = mean rate)
       dt [1/2 ip(C v,v)]_n^{n+1} = - ip(K du,du) - (theta - 1/2) dt ip(C dv,dv)
   hence for theta >= 1/2, K and C PSD, dt > 0 both G and the rate norm 1/2 ip(C v,v) never increase (contraction for any dt). *)
From Coq Require Import Reals Lra Psatz FunctionalExtensionality List.
From EFLib Require Import C05_VecSpace.
From EFP Require Import Gen_TimeSchemes C05_spec C05_newmark C05_parabolic.
Local Open Scope R_scope.

Section Stability.
Variable I : Type.
Notation Vec := (I -> R).
Variable ip : Vec -> Vec -> R.
Hypothesis Hip : inner ip.
Let Z : Vec := vzero.

(* ------------------------------------------------------------------ Newmark, general beta, gamma *)
Section Nm.
Variables K M : Vec -> Vec.
Hypothesis HK : linear K.
Hypothesis HM : linear M.
Hypothesis HKs : selfadj ip K.
Hypothesis HMs : selfadj ip M.
Let C : Vec -> Vec := ozero.
Let HC : linear C := ozero_linear.
Let SK := selfadj_swap ip K Hip HKs.
Let SM := selfadj_swap ip M Hip HMs.
Variables dt beta gamma alpha : R.
Variables u0 v0 a0 x : Vec.
Local Notation G f y := (f I K C M dt beta gamma alpha u0 v0 a0 y Z Z).
Hypothesis Hadm : G newmark_admissible x.
Hypothesis Hbeta : beta <> 0.

Let Hdt : dt <> 0.
Proof. generalize Hadm; autounfold with c05gen; intuition lra. Qed.

Definition newmark_Estar (u v a : Vec) : R :=
  1 / 2 * ip (M v) v + 1 / 2 * ip (K u) u + (beta - gamma / 2) * dt ^ 2 / 2 * ip (M a) a.

Let u1 := G newmark_up_u x.
Let v1 := G newmark_up_v x.
Let a1 := G newmark_up_a x.
Let R0 := vadd (M a0) (K u0).
Let R1 := vadd (M a1) (K u1).

Ltac sympairs :=
  rewrite ?(SK u0 x), ?(SK v0 x), ?(SK a0 x), ?(SK v0 u0), ?(SK a0 u0), ?(SK a0 v0),
          ?(SM u0 x), ?(SM v0 x), ?(SM a0 x), ?(SM v0 u0), ?(SM a0 u0), ?(SM a0 v0).

(* exact balance, no equilibrium assumed: the right-hand side is linear in the two residuals R0, R1 *)
Lemma newmark_energy_balance_identity :
  newmark_Estar u1 v1 a1 - newmark_Estar u0 v0 a0
  + (gamma - 1 / 2) * (ip (K (vsub u1 u0)) (vsub u1 u0) + (beta - gamma / 2) * dt ^ 2 * ip (M (vsub a1 a0)) (vsub a1 a0))
  = ip (vscal (1 / 2) (vadd R0 R1)) (vsub u1 u0)
    + (gamma - 1 / 2) * (dt * ip (vsub R1 R0) (vscal (1 / 2) (vadd v0 v1))
                         + dt ^ 2 * (beta - gamma / 2) * ip (vsub R1 R0) (vsub a1 a0)).
Proof.
  unfold newmark_Estar, R0, R1, u1, v1, a1. autounfold with c05gen. lin3 HK HC HM. unfold C, ozero.
  ip_expand Hip. sympairs. field; nzside.
Qed.

Hypothesis Hsolved : forall i, newmark_A I K C M dt beta gamma alpha u0 v0 a0 Z Z x i = G newmark_rhs x i.

(* every step ends in dynamic equilibrium (any beta, gamma) *)
Lemma newmark_R1_zero : R1 = vzero.
Proof.
  extensionality i. unfold R1, u1, a1.
  pose proof (newmark_equilibrium_at_np1 I K C M HK HC HM dt beta gamma alpha u0 v0 a0 Z Z Hadm Hbeta x i (Hsolved i)) as H.
  change (C (G newmark_up_v x) i) with 0 in H. change (Z i) with 0 in H. unfold vadd, vzero. lra.
Qed.

(* energy balance of one step between states in dynamic equilibrium *)
Theorem newmark_energy_balance :
  R0 = vzero ->
  newmark_Estar u1 v1 a1 - newmark_Estar u0 v0 a0 =
  - (gamma - 1 / 2) * (ip (K (vsub u1 u0)) (vsub u1 u0) + (beta - gamma / 2) * dt ^ 2 * ip (M (vsub a1 a0)) (vsub a1 a0)).
Proof.
  intros H0. pose proof newmark_energy_balance_identity as H. fold R0 R1 u1 v1 a1 in H.
  rewrite H0, newmark_R1_zero in H.
  replace (vadd vzero vzero) with (@vzero I) in H by (extensionality i; unfold vadd, vzero; ring).
  replace (vsub vzero vzero) with (@vzero I) in H by (extensionality i; unfold vsub, vzero; ring).
  replace (vscal (1 / 2) vzero) with (@vzero I) in H by (extensionality i; unfold vscal, vzero; ring).
  rewrite !(ip_zero_l _ Hip) in H. lra.
Qed.

(* gamma = 1/2: the modified energy is conserved for every beta and every step size *)
Theorem newmark_gamma_half_conserves : gamma = 1 / 2 -> R0 = vzero ->
  newmark_Estar u1 v1 a1 = newmark_Estar u0 v0 a0.
Proof. intros Hg H0. pose proof (newmark_energy_balance H0) as H. rewrite Hg in H. lra. Qed.

(* 2 beta >= gamma >= 1/2, K and M positive semi-definite: no step size can increase the modified energy
   (unconditional stability of the Newmark family in the energy norm) *)
Theorem newmark_unconditionally_stable :
  psd ip K -> psd ip M -> 1 / 2 <= gamma -> gamma <= 2 * beta -> R0 = vzero ->
  newmark_Estar u1 v1 a1 <= newmark_Estar u0 v0 a0 /\ 0 <= newmark_Estar u1 v1 a1.
Proof.
  intros HKp HMp Hg Hb H0. pose proof (newmark_energy_balance H0) as H.
  pose proof (HKp (vsub u1 u0)). pose proof (HMp (vsub a1 a0)).
  pose proof (HKp u1). pose proof (HMp v1). pose proof (HMp a1).
  assert (0 <= dt ^ 2) by (apply pow2_ge_0).
  assert (0 <= (beta - gamma / 2) * dt ^ 2) by nra.
  split.
  - assert (0 <= (gamma - 1 / 2) * (ip (K (vsub u1 u0)) (vsub u1 u0) + (beta - gamma / 2) * dt ^ 2 * ip (M (vsub a1 a0)) (vsub a1 a0))) by
      (apply Rmult_le_pos; [lra | nra]).
    lra.
  - unfold newmark_Estar. assert (0 <= (beta - gamma / 2) * dt ^ 2 / 2 * ip (M a1) a1) by nra. lra.
Qed.

End Nm.

(* ------------------------------------------------------------------ theta scheme *)
Section Theta.
Variables K C : Vec -> Vec.
Hypothesis HK : linear K.
Hypothesis HC : linear C.
Hypothesis HKs : selfadj ip K.
Hypothesis HCs : selfadj ip C.
Let M : Vec -> Vec := ozero.
Let HM : linear M := ozero_linear.
Let SK := selfadj_swap ip K Hip HKs.
Let SC := selfadj_swap ip C Hip HCs.
Variables dt beta gamma theta : R.
Variables u0 v0 a0 x : Vec.
Local Notation G f y := (f I K C M dt beta gamma theta u0 v0 a0 y Z Z).
Hypothesis Hadm : G parabolic_admissible x.
Hypothesis Htheta : theta <> 0.

Let Hdt : dt <> 0.
Proof. generalize Hadm; autounfold with c05gen; intuition lra. Qed.
Let Hdtpos : 0 < dt.
Proof. generalize Hadm; autounfold with c05gen; intuition lra. Qed.

Let u1 := G parabolic_up_u x.
Let v1 := G parabolic_up_v x.
Let R0 := vadd (C v0) (K u0).
Let R1 := vadd (C v1) (K u1).

Definition theta_G (u v : Vec) : R := 1 / 2 * ip (K u) u + (theta - 1 / 2) * dt / 2 * ip (C v) v.

Ltac sympairs :=
  rewrite ?(SK u0 x), ?(SK v0 x), ?(SK v0 u0), ?(SC u0 x), ?(SC v0 x), ?(SC v0 u0).

Lemma theta_balance_identity :
  theta_G u1 v1 - theta_G u0 v0 + dt * ip (C (vscal (1 / 2) (vadd v0 v1))) (vscal (1 / 2) (vadd v0 v1))
  = ip (vscal (1 / 2) (vadd R0 R1)) (vsub u1 u0).
Proof.
  unfold theta_G, R0, R1, u1, v1. autounfold with c05gen. lin3 HK HC HM.
  ip_expand Hip. sympairs. field; nzside.
Qed.

Lemma theta_rate_identity :
  dt * (1 / 2 * ip (C v1) v1 - 1 / 2 * ip (C v0) v0)
  + ip (K (vsub u1 u0)) (vsub u1 u0) + dt * (theta - 1 / 2) * ip (C (vsub v1 v0)) (vsub v1 v0)
  = dt * ip (vsub R1 R0) (vscal (1 / 2) (vadd v0 v1)) + dt * (theta - 1 / 2) * ip (vsub R1 R0) (vsub v1 v0).
Proof.
  unfold R0, R1, u1, v1. autounfold with c05gen. lin3 HK HC HM.
  ip_expand Hip. sympairs. field; nzside.
Qed.

Hypothesis Hsolved : forall i, parabolic_A I K C M dt beta gamma theta u0 v0 a0 Z Z x i = G parabolic_rhs x i.

Lemma theta_R1_zero : R1 = vzero.
Proof.
  extensionality i. unfold R1, u1, v1.
  pose proof (parabolic_step_correct I K C M HK HC HM dt beta gamma theta u0 v0 a0 Z Z Hadm Htheta x i (Hsolved i)) as H.
  change (Z i) with 0 in H. unfold vadd, vzero. lra.
Qed.

Ltac zeros H :=
  replace (vadd vzero vzero) with (@vzero I) in H by (extensionality i; unfold vadd, vzero; ring);
  replace (vsub vzero vzero) with (@vzero I) in H by (extensionality i; unfold vsub, vzero; ring);
  replace (vscal (1 / 2) vzero) with (@vzero I) in H by (extensionality i; unfold vscal, vzero; ring);
  rewrite !(ip_zero_l _ Hip) in H.

(* theta >= 1/2, K and C positive semi-definite: between states with C v + K u = 0 (every state a step produces)
   neither G nor the rate norm 1/2 ip(C v, v) increases, for ANY step size: unconditional contraction *)
Theorem theta_unconditionally_stable :
  psd ip K -> psd ip C -> 1 / 2 <= theta -> R0 = vzero ->
  theta_G u1 v1 <= theta_G u0 v0 /\ 1 / 2 * ip (C v1) v1 <= 1 / 2 * ip (C v0) v0.
Proof.
  intros HKp HCp Ht H0.
  pose proof theta_balance_identity as H1. pose proof theta_rate_identity as H2.
  fold R0 R1 u1 v1 in H1, H2. rewrite H0, theta_R1_zero in H1, H2. zeros H1. zeros H2.
  pose proof (HCp (vscal (1 / 2) (vadd v0 v1))). pose proof (HKp (vsub u1 u0)). pose proof (HCp (vsub v1 v0)).
  split.
  - assert (0 <= dt * ip (C (vscal (1 / 2) (vadd v0 v1))) (vscal (1 / 2) (vadd v0 v1))) by (apply Rmult_le_pos; lra). lra.
  - assert (0 <= dt * (theta - 1 / 2) * ip (C (vsub v1 v0)) (vsub v1 v0)) by (apply Rmult_le_pos; [apply Rmult_le_pos; lra | lra]).
    assert (dt * (1 / 2 * ip (C v1) v1 - 1 / 2 * ip (C v0) v0) <= 0) by lra.
    nra.
Qed.

(* Crank-Nicolson (theta = 1/2): 1/2 ip(K u,u) decreases by exactly dt ip(C vm, vm) *)
Theorem crank_nicolson_balance : theta = 1 / 2 -> R0 = vzero ->
  1 / 2 * ip (K u1) u1 - 1 / 2 * ip (K u0) u0 = - dt * ip (C (vscal (1 / 2) (vadd v0 v1))) (vscal (1 / 2) (vadd v0 v1)).
Proof.
  intros Ht H0. pose proof theta_balance_identity as H1. fold R0 R1 u1 v1 in H1.
  rewrite H0, theta_R1_zero in H1. zeros H1. unfold theta_G in H1. rewrite Ht in H1. lra.
Qed.

End Theta.

(* ------------------------------------------------------------------ any number of steps *)
Section NmSeq.
Variables K M : Vec -> Vec.
Hypothesis HK : linear K.
Hypothesis HM : linear M.
Hypothesis HKs : selfadj ip K.
Hypothesis HMs : selfadj ip M.
Hypothesis HKp : psd ip K.
Hypothesis HMp : psd ip M.
Variables dt beta gamma alpha : R.
Hypothesis Hadm : forall u v a y, newmark_admissible I K ozero M dt beta gamma alpha u v a y Z Z.
Hypothesis Hbeta : beta <> 0.
Hypothesis Hg : 1 / 2 <= gamma.
Hypothesis Hb : gamma <= 2 * beta.

Definition nstate := (Vec * Vec * Vec)%type.
Local Notation P f st y := (f I K ozero M dt beta gamma alpha (fst (fst st)) (snd (fst st)) (snd st) y Z Z).
Definition nm_next (y : Vec) (st : nstate) : nstate := (P newmark_up_u st y, P newmark_up_v st y, P newmark_up_a st y).
Definition nm_solved (y : Vec) (st : nstate) : Prop :=
  forall i, newmark_A I K ozero M dt beta gamma alpha (fst (fst st)) (snd (fst st)) (snd st) Z Z y i = P newmark_rhs st y i.
Definition nm_run (l : list Vec) (st : nstate) : nstate := fold_left (fun s y => nm_next y s) l st.
Fixpoint nm_all_solved (l : list Vec) (st : nstate) : Prop :=
  match l with nil => True | y :: l' => nm_solved y st /\ nm_all_solved l' (nm_next y st) end.
Definition nm_equilibrium (st : nstate) : Prop := vadd (M (snd st)) (K (fst (fst st))) = vzero.
Definition nm_Estar (st : nstate) : R := newmark_Estar K M dt beta gamma (fst (fst st)) (snd (fst st)) (snd st).

(* constant step size and parameters with 2 beta >= gamma >= 1/2: the modified energy never increases over any
   number of steps, whatever the step size (and stays >= 0): unconditional stability *)
Theorem newmark_stable_sequence : forall l st,
  nm_equilibrium st -> nm_all_solved l st ->
  nm_equilibrium (nm_run l st) /\ nm_Estar (nm_run l st) <= nm_Estar st.
Proof.
  induction l as [|y l IH]; intros st Heq Hsol; simpl.
  - split; [assumption | lra].
  - destruct Hsol as [S1 S2]. destruct st as [[u v] a]. unfold nm_equilibrium, nm_solved, nm_Estar in *. simpl in *.
    assert (E1 : nm_equilibrium (nm_next y (u, v, a))).
    { unfold nm_equilibrium, nm_next. simpl.
      apply (newmark_R1_zero K M HK HM dt beta gamma alpha u v a y (Hadm u v a y) Hbeta S1). }
    destruct (newmark_unconditionally_stable K M HK HM HKs HMs dt beta gamma alpha u v a y (Hadm u v a y) Hbeta S1 HKp HMp Hg Hb Heq) as [D _].
    destruct (IH (nm_next y (u, v, a)) E1 S2) as [F1 F2].
    split; [exact F1 |]. unfold nm_Estar, nm_next in *. simpl in *. lra.
Qed.
End NmSeq.

Section ThetaSeq.
Variables K C : Vec -> Vec.
Hypothesis HK : linear K.
Hypothesis HC : linear C.
Hypothesis HKs : selfadj ip K.
Hypothesis HCs : selfadj ip C.
Hypothesis HKp : psd ip K.
Hypothesis HCp : psd ip C.

Definition tstate := (Vec * Vec)%type.
Record tstep := mktstep { ts_dt : R; ts_theta : R; ts_x : Vec }.
Local Notation Q f d st := (f I K C ozero (ts_dt d) 0 0 (ts_theta d) (fst st) (snd st) Z (ts_x d) Z Z).
Definition th_next (d : tstep) (st : tstate) : tstate := (Q parabolic_up_u d st, Q parabolic_up_v d st).
Definition th_solved (d : tstep) (st : tstate) : Prop :=
  Q parabolic_admissible d st /\ 1 / 2 <= ts_theta d /\
  forall i, parabolic_A I K C ozero (ts_dt d) 0 0 (ts_theta d) (fst st) (snd st) Z Z Z (ts_x d) i = Q parabolic_rhs d st i.
Definition th_run (l : list tstep) (st : tstate) : tstate := fold_left (fun s d => th_next d s) l st.
Fixpoint th_all_solved (l : list tstep) (st : tstate) : Prop :=
  match l with nil => True | d :: l' => th_solved d st /\ th_all_solved l' (th_next d st) end.
Definition th_equilibrium (st : tstate) : Prop := vadd (C (snd st)) (K (fst st)) = vzero.
Definition th_rate (st : tstate) : R := 1 / 2 * ip (C (snd st)) (snd st).

(* any number of steps, ANY step sizes and any theta_k >= 1/2 (changing from step to step): the rate norm
   1/2 ip(C v, v) never increases *)
Theorem theta_contraction_sequence : forall l st,
  th_equilibrium st -> th_all_solved l st ->
  th_equilibrium (th_run l st) /\ th_rate (th_run l st) <= th_rate st.
Proof.
  induction l as [|d l IH]; intros st Heq Hsol; simpl.
  - split; [assumption | lra].
  - destruct Hsol as [[Ha [Ht S1]] S2]. destruct st as [u v]. destruct d as [dt th y].
    unfold th_equilibrium, th_rate in *. simpl in *.
    assert (Hth : th <> 0) by lra.
    assert (E1 : th_equilibrium (th_next (mktstep dt th y) (u, v))).
    { unfold th_equilibrium, th_next. simpl. apply (theta_R1_zero K C HK HC dt 0 0 th u v Z y Ha Hth S1). }
    destruct (theta_unconditionally_stable K C HK HC HKs HCs dt 0 0 th u v Z y Ha Hth S1 HKp HCp Ht Heq) as [_ D].
    destruct (IH (th_next (mktstep dt th y) (u, v)) E1 S2) as [F1 F2].
    split; [exact F1 |]. unfold th_rate, th_next in *. simpl in *. lra.
Qed.
End ThetaSeq.

End Stability.

Print Assumptions newmark_energy_balance.
Print Assumptions newmark_gamma_half_conserves.
Print Assumptions newmark_unconditionally_stable.
Print Assumptions theta_unconditionally_stable.
Print Assumptions crank_nicolson_balance.
Print Assumptions newmark_stable_sequence.
Print Assumptions theta_contraction_sequence.
