(* C05 -- AlgoType.parabolic: theorems about the definitions regenerated from _simu.py on every run.
   Quantified (after the Section closes) over every index type I, all linear K C M : (I->R)->(I->R),
   all parameters in the ranges the code asserts and alpha <> 0, all previous states and loads. *)
From Coq Require Import Reals Lra Psatz FunctionalExtensionality.
From EFLib Require Import C05_VecSpace.
From EFP Require Import Gen_TimeSchemes C05_spec.
Local Open Scope R_scope.

Section S_parabolic.
Variable I : Type.
Notation Vec := (I -> R).
Variables K C M : Vec -> Vec.
Hypothesis HK : linear K.
Hypothesis HC : linear C.
Hypothesis HM : linear M.
Variables dt beta gamma alpha : R.
Variables u_n v_n a_n bN F : Vec.
Local Notation G f y := (f I K C M dt beta gamma alpha u_n v_n a_n y bN F).
(* ranges asserted by the setter (generated from its `assert`s) and alpha <> 0 *)
Hypothesis Hadm : G parabolic_admissible u_n.
Hypothesis Halpha : alpha <> 0.   (* the code divides by alpha *)
Let Hdt : dt <> 0.
Proof. generalize Hadm; autounfold with c05gen; intuition lra. Qed.

Ltac vf := intros; autounfold with c05gen c05spec; vec_field HK HC HM.

Theorem parabolic_params_stored :
  G parabolic_stored_dt u_n = dt /\ G parabolic_stored_alpha u_n = alpha.
Proof. repeat split; reflexivity. Qed.

(* documented update relations hold for what _Solver_Update_solutions returns *)
(* generalized trapezoidal rule u^{n+1} = u^n + dt [(1-alpha) v^n + alpha v^{n+1}]; no acceleration *)
Theorem parabolic_update_rule : forall x i,
  G parabolic_up_u x i = x i /\
  x i = theta_disp dt alpha u_n v_n (G parabolic_up_v x) i /\
  G parabolic_up_u_none x = false /\ G parabolic_up_v_none x = false /\ G parabolic_up_a_none x = true.
Proof. intros; repeat split; try reflexivity; vf. Qed.

(* the evaluation-point states of _Solver_Evaluate_u_v_a_for_time_scheme are the documented ones, built on
   the same v^{n+1}, a^{n+1} as the corrector (two separately written tables) *)
Theorem parabolic_eval_consistent : forall x i,
  G parabolic_ev_ut x i = G parabolic_up_u x i /\
  G parabolic_ev_vt x i = G parabolic_up_v x i /\
  G parabolic_ev_ut_none x = false /\ G parabolic_ev_vt_none x = false /\ G parabolic_ev_at_none x = true.
Proof. intros; repeat split; try reflexivity; vf. Qed.

(* (coefK, coefC, coefM) are the derivatives of (u_t, v_t, a_t) w.r.t. the solved unknown:
   the dependence is affine with exactly these slopes *)
Theorem parabolic_coefs_are_derivatives : forall x d i,
  G parabolic_ev_ut (vadd x d) i - G parabolic_ev_ut x i = G parabolic_coefK x * d i /\
  G parabolic_ev_vt (vadd x d) i - G parabolic_ev_vt x i = G parabolic_coefC x * d i /\
  G parabolic_ev_at (vadd x d) i - G parabolic_ev_at x i = G parabolic_coefM x * d i.
Proof. intros; repeat split; vf. Qed.

(* the system operator applied to x, and the left-hand side of the equation of motion *)
Definition parabolic_A (x : Vec) : Vec :=
  oadd (oadd (oscal (G parabolic_coefK x) K) (oscal (G parabolic_coefC x) C)) (oscal (G parabolic_coefM x) M) x.
Definition parabolic_lhs (x : Vec) : Vec :=
  vadd (vadd (K (G parabolic_ev_ut x)) (C (G parabolic_ev_vt x))) (M (G parabolic_ev_at x)).

(* the matrix assembled in _Solver_Apply_Dirichlet (generated parabolic_sysop) is this weighted sum *)
Theorem parabolic_sysop_is_weighted_sum : forall x y i,
  (G parabolic_sysop y) x i = parabolic_A x i.
Proof. unfold parabolic_A; vf. Qed.

(* homogeneity (scale invariance): the step is linear in (u_n, v_n, a_n, bN, F) and the unknown -- multiplying them
   all by s multiplies the right-hand side, the system row, the evaluation-point states and the returned state by s;
   so s x solves the scaled system wherever x solves the original one, and the scaled step returns s times the state *)
Local Notation GS f s y := (f I K C M dt beta gamma alpha (vscal s u_n) (vscal s v_n) (vscal s a_n) y (vscal s bN) (vscal s F)).
Theorem parabolic_step_homogeneous : forall s x i,
  GS parabolic_rhs s (vscal s x) i = s * G parabolic_rhs x i /\
  (GS parabolic_sysop s (vscal s x)) (vscal s x) i = s * parabolic_A x i /\
  GS parabolic_up_u s (vscal s x) i = s * G parabolic_up_u x i /\
  GS parabolic_up_v s (vscal s x) i = s * G parabolic_up_v x i /\
  GS parabolic_up_a s (vscal s x) i = s * G parabolic_up_a x i /\
  GS parabolic_ev_ut s (vscal s x) i = s * G parabolic_ev_ut x i /\
  GS parabolic_ev_vt s (vscal s x) i = s * G parabolic_ev_vt x i /\
  GS parabolic_ev_at s (vscal s x) i = s * G parabolic_ev_at x i.
Proof. intros; unfold parabolic_A; repeat split; vf. Qed.

Theorem parabolic_scaled_solution : forall s x i,
  parabolic_A x i = G parabolic_rhs x i ->
  (GS parabolic_sysop s (vscal s x)) (vscal s x) i = GS parabolic_rhs s (vscal s x) i.
Proof.
  intros s x i H. destruct (parabolic_step_homogeneous s x i) as [E1 [E2 _]]. rewrite E1, E2, H. reflexivity.
Qed.

(* change of the time unit: dt -> s dt, v -> v / s, a -> a / s^2, C -> s C, M -> s^2 M (forces, K, u unchanged) gives the
   same right-hand side and system row, and returns the same u, v / s, a / s^2 -- the schemes carry no hidden time scale *)
Local Notation GT f s y := (f I K (oscal s C) (oscal (s ^ 2) M) (s * dt) beta gamma alpha u_n (vscal (/ s) v_n) (vscal (/ s ^ 2) a_n) y bN F).
Theorem parabolic_time_rescaling : forall s x i, s <> 0 ->
  GT parabolic_rhs s (x) i = G parabolic_rhs x i /\
  (GT parabolic_sysop s (x)) (x) i = parabolic_A x i /\
  GT parabolic_up_u s (x) i = G parabolic_up_u x i /\
  GT parabolic_up_v s (x) i = / s * G parabolic_up_v x i /\
  GT parabolic_up_a s (x) i = / s ^ 2 * G parabolic_up_a x i.
Proof. intros s x i Hs; unfold parabolic_A; repeat split; vf. Qed.

(* row i of the system minus row i of the right-hand side of _Solver_Apply_Neumann
   = residual of the equation of motion at dof i *)
Theorem parabolic_eom_identity : forall x i,
  parabolic_lhs x i - (bN i + F i) = parabolic_A x i - G parabolic_rhs x i.
Proof using All. unfold parabolic_lhs, parabolic_A; vf. Qed.

(* discrete equation of motion on every dof whose row is solved (= every free dof) *)
Theorem parabolic_discrete_eom : forall x i,
  parabolic_A x i = G parabolic_rhs x i -> parabolic_lhs x i = bN i + F i.
Proof using All. intros x i H. pose proof (parabolic_eom_identity x i). lra. Qed.

(* Newton (incremental) path: b is the assembled residual alone; an increment d with
   A d = residual(y) on a dof makes the residual vanish there, and y + d satisfies the direct system *)
Theorem parabolic_newton_consistent : forall y d i,
  G parabolic_rhs_newton y i = bN i + F i /\
  (parabolic_A d i = (bN i + F i) - parabolic_lhs y i ->
     parabolic_lhs (vadd y d) i = bN i + F i /\ parabolic_A (vadd y d) i = G parabolic_rhs (vadd y d) i).
Proof.
  intros y d i. split; [vf|]. intros H.
  assert (E : parabolic_lhs (vadd y d) i = parabolic_lhs y i + parabolic_A d i)
    by (unfold parabolic_lhs, parabolic_A; vf).
  pose proof (parabolic_eom_identity (vadd y d) i). lra.
Qed.

(* what one step returns: K u^{n+1} + C v^{n+1} = load on every solved (free) dof (no inertia term) *)
Theorem parabolic_step_correct : forall x i,
  parabolic_A x i = G parabolic_rhs x i ->
  K (G parabolic_up_u x) i + C (G parabolic_up_v x) i = bN i + F i.
Proof using All.
  intros x i H. pose proof (parabolic_discrete_eom x i H) as E. unfold parabolic_lhs, vadd in E.
  assert (E1 : G parabolic_up_u x = G parabolic_ev_ut x) by (extensionality j; symmetry; apply parabolic_eval_consistent).
  assert (E2 : G parabolic_up_v x = G parabolic_ev_vt x) by (extensionality j; symmetry; apply parabolic_eval_consistent).
  assert (E3 : M (G parabolic_ev_at x) i = 0) by (autounfold with c05gen; rewrite (lin_zero _ HM); reflexivity).
  rewrite E1, E2. lra.
Qed.

End S_parabolic.

Print Assumptions parabolic_params_stored.
Print Assumptions parabolic_update_rule.
Print Assumptions parabolic_eval_consistent.
Print Assumptions parabolic_coefs_are_derivatives.
Print Assumptions parabolic_sysop_is_weighted_sum.
Print Assumptions parabolic_step_homogeneous.
Print Assumptions parabolic_scaled_solution.
Print Assumptions parabolic_time_rescaling.
Print Assumptions parabolic_eom_identity.
Print Assumptions parabolic_discrete_eom.
Print Assumptions parabolic_newton_consistent.
Print Assumptions parabolic_step_correct.
