(* C14 -- property theorems, re-checked on every run against the table regenerated from the source
   tree (Gen_Notify.v, emitted by translator/notify.py). *)
From Coq Require Import List Bool NArith Arith.
Import ListNotations.
From EFModel Require Import C14_Cache C14_Cache_proofs.
From EFP Require Import Gen_Notify.

(* every mutator of the CURRENT source notifies / clears what the invariant needs *)
Theorem C14_table_ok : table_ok gen_table = true.
Proof. vm_compute. reflexivity. Qed.

(* after ANY list of public operations on ANY number of simulations sharing one model and any
   number of meshes, what each simulation uses for its next matrices / solve is what a simulation
   freshly constructed in the final configuration (new mesh object, empty caches) uses *)
Theorem C14_fresh_equiv : forall ops i s,
  nth_error (sims (run gen_table ops w0)) i = Some s ->
  let w := run gen_table ops w0 in
  observe gen_table (par w) (mcache w) (meshes w) s = observe gen_table (par w) None (pristine (meshes w)) (fresh_sim s).
Proof. exact (fresh_equiv gen_table C14_table_ok). Qed.
Print Assumptions C14_fresh_equiv.

(* the invariant itself: no stale geometric cache on any mesh, no stale matrix / csr map / mass
   block in any simulation, every simulation subscribed to its current mesh *)
Theorem C14_invariant : forall ops, WInv (run gen_table ops w0).
Proof. intros. apply run_inv. apply table_ok_spec. exact C14_table_ok. exact w0_inv. Qed.
Print Assumptions C14_invariant.

Theorem C14_shared_model : forall ops sub i s,
  nth_error (sims (step gen_table (run gen_table ops w0) (OParam sub))) i = Some s -> Stale s.
Proof. exact (shared_model gen_table C14_table_ok). Qed.
Print Assumptions C14_shared_model.

Theorem C14_staggered_flags : forall p mc ms v1 v2 s, kd s = KPF ->
  let s' := solve_sim gen_table p mc ms v1 v2 s in
  updD (pf s') = false /\ updU (pf s') = true /\ option_map k_sol (kU (pf s')) = Some v1 /\
  solD (cf s') = v1 /\ solU (cf s') = v2.
Proof. intros. apply staggered_flags; [exact C14_table_ok | assumption]. Qed.
Print Assumptions C14_staggered_flags.

Theorem C14_staggered_invalidation : forall s, kd s = KPF ->
  Stale (raise gen_table s) /\
  (forall j v1 v2 m, nth_error (iters (rg s)) j = Some m -> Stale (setiter_sim gen_table j v1 v2 s)).
Proof. intros. apply staggered_invalidation; [exact C14_table_ok | assumption]. Qed.
Print Assumptions C14_staggered_invalidation.

(* the same statement for all simulations of the world at once, in the executable form the correspondence harness
   evaluates (`trace`): on the table of the CURRENT source no op list ever produces a stale simulation *)
Theorem C14_no_stale_sims : forall ops, stale_sims gen_table (run gen_table ops w0) = [].
Proof. exact (no_stale_sims gen_table C14_table_ok). Qed.
Print Assumptions C14_no_stale_sims.

Theorem C14_trace_never_stale : forall ops pre, Forall (fun x => snd x = []) (trace gen_table ops (run gen_table pre w0)).
Proof. exact (trace_never_stale gen_table C14_table_ok). Qed.
Print Assumptions C14_trace_never_stale.

(* non-vacuity on the long history that uses every op constructor (long_history_covers_every_op) *)
Example C14_long_history_fresh : stale_sims gen_table (run gen_table long_history w0) = [] /\
                                 length (sims (run gen_table long_history w0)) = 4 /\ covers_all_ops long_history = true.
Proof. vm_compute. repeat split; reflexivity. Qed.

(* non-vacuity: the hypotheses of the theorems are met by concrete runs *)
Example C14_nonvacuous :
  exists s, nth_error (sims (run gen_table [ONewSim KLin 0; OGetK 0 false; OMeshMove 0 MCoordSet; ONewSim KPF 0; OSolve 1] w0)) 1 = Some s
            /\ kd s = KPF.
Proof. eexists. split; vm_compute; reflexivity. Qed.
