(* C09 — property theorems about EFModel.C09_Loads, restated with their assumptions printed.
   Quantified over: every list of loaded elements, every number of nodes / Gauss points per
   element, every real weight*|J|, every shape-function value row (with partition of unity where
   stated; C06_partition_of_unity proves it for the 19 real tables at every point), every
   density value, every node coordinate function.                                             *)
From Coq Require Import List Arith Bool PeanoNat Lia Reals Lra Permutation.
From EFModel Require Import C09_Loads.
Import ListNotations.
Open Scope R_scope.

(* exclusive selection = elements having a selected node and ONLY selected nodes *)
Theorem C09_select_exclusive : forall connect sel x,
  In x (select_excl connect sel) <->
  In x (ielems connect) /\ (exists n, In n (snd x) /\ In n sel) /\ (forall n, In n (snd x) -> In n sel).
Proof. exact select_excl_spec. Qed.

(* sum_i F_i = sum_e sum_p w_p |J_p| f(x_p) *)
Theorem C09_resultant : forall es ns, NoDup ns ->
  (forall e, In e es -> wf e /\ pou e) ->
  (forall e n, In e es -> In n (lnodes e) -> In n ns) ->
  Rsum (map (vec (contribs F_call es)) ns) = quad_sum es (fun _ g => fv g).
Proof. exact resultant. Qed.

(* sum_i x_i F_i = sum_e sum_p w_p |J_p| x(x_p) f(x_p)  with x(x_p) = sum_i N_i x_i *)
Theorem C09_moment : forall (x : nat -> R) es ns, NoDup ns ->
  (forall e n, In e es -> In n (lnodes e) -> In n ns) ->
  Rsum (map (fun n => x n * vec (contribs F_call es) n) ns) = quad_sum es (fun e g => xgauss x e g * fv g).
Proof. exact first_moment. Qed.

Theorem C09_moment_z : forall (x y : nat -> R) esx esy ns, NoDup ns ->
  (forall e n, In e esx -> In n (lnodes e) -> In n ns) ->
  (forall e n, In e esy -> In n (lnodes e) -> In n ns) ->
  Rsum (map (fun n => x n * vec (contribs F_call esy) n) ns) - Rsum (map (fun n => y n * vec (contribs F_call esx) n) ns)
  = quad_sum esy (fun e g => xgauss x e g * fv g) - quad_sum esx (fun e g => xgauss y e g * fv g).
Proof. exact moment_z. Qed.

(* nodal arrays as written: resultant = integral of the interpolant (no partition of unity needed) *)
Theorem C09_resultant_nodal_written : forall es ns, NoDup ns ->
  (forall e, In e es -> wf e) ->
  (forall e n, In e es -> In n (lnodes e) -> In n ns) ->
  Rsum (map (vec (contribs F_nodal_written es)) ns) = quad_sum es (fun e g => interp (fnod e) g).
Proof. exact resultant_nodal_written. Qed.

(* FULL STATEMENT wanted for nodal arrays (not provable for the code as written):
     sum_i x_i F_i = sum_e sum_p w_p|J_p| x(x_p) f_h(x_p)
   counter-model on one SEG2: *)
Theorem C09_moment_nodal_written_refuted :
  wf seg_counter /\ pou seg_counter /\
  sumi (nPe seg_counter) (fun i => xcoord (nth i (lnodes seg_counter) 0%nat) * F_nodal_written seg_counter i)
  <> Rsum (map (fun g => wJ g * (xgauss xcoord seg_counter g * interp (fnod seg_counter) g)) (lpts seg_counter)).
Proof. exact moment_nodal_written_refuted. Qed.

(* the interpolating variant (proposed fix) satisfies both *)
Theorem C09_resultant_nodal_interp : forall es ns, NoDup ns ->
  (forall e, In e es -> wf e /\ pou e) ->
  (forall e n, In e es -> In n (lnodes e) -> In n ns) ->
  Rsum (map (vec (contribs F_nodal_interp es)) ns) = quad_sum es (fun e g => interp (fnod e) g).
Proof. exact resultant_nodal_interp. Qed.

Theorem C09_moment_nodal_interp : forall (x : nat -> R) es ns, NoDup ns ->
  (forall e n, In e es -> In n (lnodes e) -> In n ns) ->
  Rsum (map (fun n => x n * vec (contribs F_nodal_interp es) n) ns)
  = quad_sum es (fun e g => xgauss x e g * interp (fnod e) g).
Proof. exact first_moment_nodal_interp. Qed.

(* a node outside every integrated element gets nothing; with the exclusive selection: a node
   that is not selected gets nothing *)
Theorem C09_only_loaded_elements : forall F es n,
  (forall e, In e es -> ~ In n (lnodes e)) -> vec (contribs F es) n = 0.
Proof. exact only_loaded_elements. Qed.

Theorem C09_unselected_node_zero : forall connect sel F (mk : nat * list nat -> lelem) n,
  (forall x, lnodes (mk x) = snd x) -> ~ In n sel ->
  vec (contribs F (map mk (select_excl connect sel))) n = 0.
Proof. exact unselected_node_zero. Qed.

Theorem C09_point_load_total : forall (v : R) (nodes : list nat), nodes <> [] ->
  Rsum (map (fun _ => v / INR (length nodes)) nodes) = v.
Proof. exact point_load_total. Qed.

Theorem C09_thickness_once : forall l d k t, l <> LineLoad -> dispatch l d = Some (k, t) ->
  (t = true <-> d = 2%nat) /\ (k + (if t then 1 else 0) = physical_dim l)%nat.
Proof. exact thickness_once. Qed.


(* the node selection is a SET (multiset semantics are excluded): the result depends only on which
   ids occur in the list - invariant under reordering and under repetition of ids, e.g.
   np.concatenate([nodes_bottom, nodes_right]) sharing the corner node *)
Theorem C09_select_is_a_set : forall connect s1 s2 b,
  (forall n, In n s1 <-> In n s2) -> select connect s1 b = select connect s2 b.
Proof. exact select_ext. Qed.

Theorem C09_select_permutation : forall connect s1 s2 b,
  Permutation s1 s2 -> select connect s1 b = select connect s2 b.
Proof. exact select_permutation. Qed.

Theorem C09_select_duplicates : forall connect s extra b,
  (forall n, In n extra -> In n s) -> select connect (s ++ extra) b = select connect s b.
Proof. exact select_duplicates. Qed.

(* when a call is split by a filter on the unknowns (Beam.add_lineLoad: Lagrange / Hermitian
   unknowns), the value processed with each kept unknown is the user's value for THAT unknown:
   zip and filter commute *)
Theorem C09_filter_zip_commute : forall (U V : Type) (du : U) (dv : V) (keep : U -> bool) us vs,
  length us = length vs ->
  processed U V du dv keep us vs = filter (fun p => keep (fst p)) (combine us vs).
Proof. exact filter_zip_commute. Qed.

Theorem C09_processed_pairs_are_the_users : forall (U V : Type) (du : U) (dv : V) (keep : U -> bool) us vs u v,
  length us = length vs ->
  In (u, v) (processed U V du dv keep us vs) -> In (u, v) (combine us vs) /\ keep u = true.
Proof. exact processed_pairs_are_the_users. Qed.

(* counter-model of the variant that reads the unfiltered value list *)
Theorem C09_unfiltered_values_refuted :
  let keep := fun u : nat => negb (Nat.eqb u 0) in
  processed nat R 0%nat 0 keep [0%nat; 1%nat] [10; 20] = [(1%nat, 20)] /\
  processed_unfiltered nat R 0%nat keep [0%nat; 1%nat] [10; 20] = [(1%nat, 10)].
Proof. exact unfiltered_values_refuted. Qed.


(* generalised first moment (any dof weight whose Gauss-point interpolation is known): the Hermitian
   beam identities of coq/props/C09/C09_hermite.v are instances *)
Theorem C09_first_moment_with : forall (x : nat -> R) (xp : lelem -> gpt -> R) es ns, NoDup ns ->
  (forall e n, In e es -> In n (lnodes e) -> In n ns) ->
  (forall e g, In e es -> In g (lpts e) -> xgauss x e g = xp e g) ->
  Rsum (map (fun n => x n * vec (contribs F_call es) n) ns) = quad_sum es (fun e g => xp e g * fv g).
Proof. exact first_moment_with. Qed.

(* pressure on a planar face set: every nodal normal returned by the averaging/normalising of
   Mesh.Get_normals equals the face normal ... *)
Theorem C09_nodal_normal_planar : forall (n : R * R * R) (areas : list R) (count : R),
  vnorm n = 1 -> 0 < count -> 0 < Rsum areas ->
  vnormalize (vscale (/ count) (vsum (map (fun a => vscale a n) areas))) = n.
Proof. exact nodal_normal_planar. Qed.

(* ... hence each component of the load is the nodal array with the same value v = p * n_d on every
   node and its resultant is v * area (area = sum_e sum_p w_p|J_p|): resultant = p * area * n, with
   the sign of n given by the orientation of the boundary elements (normal_e = +area_e * n) *)
Theorem C09_pressure_planar_resultant : forall (v : R) es ns, NoDup ns ->
  (forall e, In e es -> wf e /\ pou e) ->
  (forall e n, In e es -> In n (lnodes e) -> In n ns) ->
  (forall e i, In e es -> (i < nPe e)%nat -> nthR i (fnod e) = v) ->
  Rsum (map (vec (contribs F_nodal_written es)) ns) = v * quad_sum es (fun _ _ => 1).
Proof. exact pressure_planar_resultant. Qed.


(* pressure on NON-planar face sets.  What is guaranteed: the resultant of the nodal-array load is
   sum_e sum_p w_p|J_p| sum_j N_j p nhat_j (C09_resultant_nodal_written / _interp), exact on planar sets
   (C09_pressure_planar_resultant).  What is NOT: equality with p * sum_e (area vector of e) -
   refuted on a kinked open patch and on a closed surface (isosceles triangle: exact resultant 0,
   nodal-normal averaging gives y-resultant 1 - (11/25)/sqrt(1/5) per unit pressure); the nodal normals in both witnesses
   are the ones the averaging/normalising of Mesh.Get_normals produces. *)
Theorem C09_pressure_kinked_patch_refuted :
  vnormalize (vscale (/ 2) (vsum [vscale 1 (3/5, 4/5, 0); vscale 1 (-3/5, 4/5, 0)])) = (0, 1, 0) /\
  (1/2) * (4/5) + 1 * 1 + (1/2) * (4/5) <> 1 * (4/5) + 1 * (4/5).
Proof. exact pressure_kinked_patch_refuted. Qed.

Theorem C09_pressure_closed_surface_refuted :
  let r := sqrt ((2/5) * (2/5) + (-1/5) * (-1/5) + 0 * 0) in
  vadd (vscale (6/5) (0, -1, 0)) (vadd (vscale 1 (4/5, 3/5, 0)) (vscale 1 (-4/5, 3/5, 0))) = (0, 0, 0) /\
  vnormalize (vscale (/ 2) (vsum [(4/5, 3/5, 0); (-4/5, 3/5, 0)])) = (0, 1, 0) /\
  vscale (/ 2) (vsum [(0, -1, 0); (4/5, 3/5, 0)]) = (2/5, -1/5, 0) /\
  vnormalize (2/5, -1/5, 0) = (/ r * (2/5), / r * (-1/5), / r * 0) /\
  1 * 1 + 2 * ((11/10) * (/ r * (-1/5))) <> 0.
Proof. exact pressure_closed_surface_refuted. Qed.

Print Assumptions C09_nodal_normal_planar.
Print Assumptions C09_pressure_planar_resultant.


(* homogeneity under a change of the length unit (no absolute threshold may enter the load path) *)
Theorem C09_load_homogeneous : forall k es n,
  vec (contribs F_call (map (scale_e k) es)) n = k * vec (contribs F_call es) n.
Proof. exact load_homogeneous. Qed.

Theorem C09_moment_homogeneous : forall (lambda k : R) (x : nat -> R) es ns,
  Rsum (map (fun n => (lambda * x n) * vec (contribs F_call (map (scale_e k) es)) n) ns)
  = lambda * k * Rsum (map (fun n => x n * vec (contribs F_call es) n) ns).
Proof. exact moment_homogeneous. Qed.

Example C09_select_set_instance :
  select [[0;1];[1;2];[2;3]]%nat [2;0;1;1;0]%nat true = select [[0;1];[1;2];[2;3]]%nat [0;1;2]%nat true.
Proof. reflexivity. Qed.

Print Assumptions C09_select_is_a_set.
Print Assumptions C09_select_duplicates.
Print Assumptions C09_filter_zip_commute.

Example C09_nonvacuous :
  (let e := mk_lelem [0%nat; 1%nat] [mk_gpt (1/2) 3 [3/4; 1/4]; mk_gpt (1/2) 5 [1/4; 3/4]] [] in
   wf e /\ pou e /\ Rsum (map (vec (contribs F_call [e])) [0%nat; 1%nat]) = 4) /\
  select [[0;1];[1;2];[2;3]]%nat [0;1;2]%nat true = [0;1]%nat /\
  dispatch SurfLoad 2 = Some (1%nat, true).
Proof. split. exact resultant_example. split. exact (proj1 select_example). reflexivity. Qed.

Print Assumptions C09_select_exclusive.
Print Assumptions C09_resultant.
Print Assumptions C09_moment.
Print Assumptions C09_resultant_nodal_written.
Print Assumptions C09_moment_nodal_written_refuted.
Print Assumptions C09_moment_nodal_interp.
Print Assumptions C09_only_loaded_elements.
Print Assumptions C09_unselected_node_zero.
Print Assumptions C09_point_load_total.
Print Assumptions C09_thickness_once.
