(* C09 — Hermitian (Euler-Bernoulli) line loads: the force and moment identities of the Hermite
   tables REGENERATED from EasyFEA/FEM/Elems/_beam.py (EFP.Gen_Hermite, translator/hermite.py), and
   their consequence for the load vector of Beam.add_lineLoad through C09_Loads.first_moment_with.
     force  :  sum_i phi_i(xi) = 1
     moment :  sum_i phi_i(xi) xi_i + 2 sum_i psi_i(xi) = xi        (reference coordinates)
   With x = xc + (L/2) xi and psi scaled by L (Get_Hermitian_N_e_pg) the second one reads
     sum_i phi_i x_i + sum_i (L psi_i) = x.
   Exact for EULER_BERNOULLI2/3 (SEG2, SEG3); the EB4/EB5 tables carry decimal-rationalised
   coefficients, for them the identities hold only approximately and stay correspondence-only. *)
From Coq Require Import QArith Qreals Reals Ring_polynom List String Lia Lra.
From EFLib Require Import PolyQ ElemDefs HermDefs.
From EFModel Require Import C09_Loads C09_PolyBound.
From EFP Require Import Gen_Hermite.
Import ListNotations.

Lemma Q2R_one : Q2R (1#1) = 1%R.
Proof. unfold Q2R. simpl. field. Qed.
Lemma Q2R_mone : Q2R (-1#1) = (-1)%R.
Proof. unfold Q2R. simpl. field. Qed.
Lemma Q2R_two : Q2R (2#1) = 2%R.
Proof. unfold Q2R. simpl. field. Qed.

Fixpoint evens {A} (l : list A) : list A :=
  match l with a :: t => a :: match t with _ :: t' => evens t' | [] => [] end | [] => [] end.
Fixpoint odds {A} (l : list A) : list A :=
  match l with _ :: t => match t with b :: t' => b :: odds t' | [] => [] end | [] => [] end.
Fixpoint map2 {A B C} (f : A -> B -> C) (a : list A) (b : list B) : list C :=
  match a, b with x :: a', y :: b' => f x y :: map2 f a' b' | _, _ => [] end.

Definition herm_force_pe (h : herm) : PExpr Q := pe_sum (evens (hN h)).
Definition herm_moment_pe (h : herm) : PExpr Q :=
  PEadd (pe_sum (map2 (fun p x => PEmul p (PEc x)) (evens (hN h)) (hnodes h)))
        (PEmul (PEc (2#1)) (pe_sum (odds (hN h)))).
Definition chk_herm_load (h : herm) : bool :=
  pe_eqb (herm_force_pe h) (PEc (1#1)) && pe_eqb (herm_moment_pe h) (PEX Q 1).

(* which of the regenerated families satisfy the identities exactly (recorded in the evidence) *)
Eval vm_compute in map (fun h => (hname h, chk_herm_load h)) all_herm.

Lemma Reval_add l a b : Reval l (PEadd a b) = (Reval l a + Reval l b)%R.
Proof. reflexivity. Qed.
Lemma Reval_mul l a b : Reval l (PEmul a b) = (Reval l a * Reval l b)%R.
Proof. reflexivity. Qed.
Lemma Reval_X1 (x : R) : Reval [x] (PEX Q 1) = x.
Proof. reflexivity. Qed.

Lemma Reval_map2_sum l ps xs :
  Reval l (pe_sum (map2 (fun p x => PEmul p (PEc x)) ps xs))
  = fold_right Rplus 0%R (map2 (fun p x => (Reval l p * Q2R x)%R) ps xs).
Proof.
  revert xs. induction ps as [|p ps IH]; intros [|x xs]; try reflexivity.
  change (Reval l (PEadd (PEmul p (PEc x)) (pe_sum (map2 (fun p0 x0 => PEmul p0 (PEc x0)) ps xs)))
          = (Reval l p * Q2R x + fold_right Rplus 0%R (map2 (fun p0 x0 => (Reval l p0 * Q2R x0)%R) ps xs))%R).
  rewrite Reval_add, Reval_mul, IH. reflexivity.
Qed.

(* the identities over R, at EVERY point, for every family passing the check *)
Theorem hermite_force_identity h : chk_herm_load h = true ->
  forall xi : R, fold_right Rplus 0%R (map (Reval [xi]) (evens (hN h))) = 1%R.
Proof.
  intros H xi. apply Bool.andb_true_iff in H as [H _].
  apply (Qnorm_sound [xi]) in H. unfold herm_force_pe in H. rewrite Reval_pe_sum in H.
  rewrite H, Reval_const. apply Q2R_one.
Qed.

Theorem hermite_moment_identity h : chk_herm_load h = true ->
  forall xi : R,
    (fold_right Rplus 0%R (map2 (fun p x => (Reval [xi] p * Q2R x)%R) (evens (hN h)) (hnodes h))
     + 2 * fold_right Rplus 0%R (map (Reval [xi]) (odds (hN h))) = xi)%R.
Proof.
  intros H xi. apply Bool.andb_true_iff in H as [_ H].
  apply (Qnorm_sound [xi]) in H. unfold herm_moment_pe in H.
  rewrite Reval_add, Reval_mul, Reval_map2_sum, Reval_pe_sum, Reval_X1 in H.
  rewrite Reval_const, Q2R_two in H. exact H.
Qed.


(* ---------------- every family, with the tolerance its representation allows -------------- *)
(* EULER_BERNOULLI4/5 carry decimal-rationalised coefficients: the identities hold up to a residual
   polynomial whose coefficient sum (a bound of its sup norm on [-1,1]) is checked to be <= 1e-12 *)
Definition herm_load_tol : Q := 1 # 1000000000000.
Definition chk_herm_load_tol (h : herm) : bool :=
  Qle_bool (residual_norm (herm_force_pe h) (PEc (1#1))) herm_load_tol
  && Qle_bool (residual_norm (herm_moment_pe h) (PEX Q 1)) herm_load_tol.

(* (force residual <= 1e-13, moment residual <= 1e-13) per family, for the evidence *)
Eval vm_compute in map (fun h => (hname h, Qle_bool (residual_norm (herm_force_pe h) (PEc (1#1))) (1 # 10000000000000),
                                  Qle_bool (residual_norm (herm_moment_pe h) (PEX Q 1)) (1 # 10000000000000))) all_herm.

Lemma all_herm_load_tol : forallb chk_herm_load_tol all_herm = true.
Proof. vm_compute. reflexivity. Qed.

Theorem hermite_identities_all_families : forall h, In h all_herm ->
  forall xi : R, (-1 <= xi <= 1)%R ->
  (Rabs (fold_right Rplus 0%R (map (Reval [xi]) (evens (hN h))) - 1) <= Q2R herm_load_tol)%R /\
  (Rabs (fold_right Rplus 0%R (map2 (fun p x => (Reval [xi] p * Q2R x)%R) (evens (hN h)) (hnodes h))
         + 2 * fold_right Rplus 0%R (map (Reval [xi]) (odds (hN h))) - xi) <= Q2R herm_load_tol)%R.
Proof.
  intros h Hh xi Hxi.
  pose proof (proj1 (forallb_forall _ _) all_herm_load_tol h Hh) as H.
  apply Bool.andb_true_iff in H as [H1 H2].
  assert (Hb : unit_box [xi]).
  { constructor; [|constructor]. apply Rabs_le. lra. }
  pose proof (approx_identity_sound _ _ _ H1 [xi] Hb) as B1.
  pose proof (approx_identity_sound _ _ _ H2 [xi] Hb) as B2.
  unfold herm_force_pe in B1. rewrite Reval_pe_sum, Reval_const, Q2R_one in B1.
  unfold herm_moment_pe in B2.
  rewrite Reval_add, Reval_mul, Reval_map2_sum, Reval_pe_sum, Reval_X1, Reval_const, Q2R_two in B2.
  split; assumption.
Qed.

Print Assumptions hermite_identities_all_families.

Lemma EB2_ok : chk_herm_load h_EULER_BERNOULLI2 = true. Proof. vm_compute. reflexivity. Qed.
Lemma EB3_ok : chk_herm_load h_EULER_BERNOULLI3 = true. Proof. vm_compute. reflexivity. Qed.

(* ---------------- consequence for the load vector (SEG2 Euler-Bernoulli element) ------------ *)
(* element with nodes at xc -+ L/2, dofs d0 = v_1, d1 = rz_1, d2 = v_2, d3 = rz_2 (any ids), Gauss
   points at arbitrary reference abscissae with arbitrary weights and density values *)
Section EB2_element.
  Variables (xc L : R) (d0 d1 d2 d3 : nat).
  Definition eb2_row (xi : R) : list R :=
    match map (Reval [xi]) (hN h_EULER_BERNOULLI2) with
    | [p1; s1; p2; s2] => [p1; (L * s1)%R; p2; (L * s2)%R]
    | _ => []
    end.
  Definition eb2_elem (pts : list (R * R * R)) : lelem :=   (* (xi, w|J|, f) per Gauss point *)
    mk_lelem [d0; d1; d2; d3]
             (map (fun t : R * R * R => let '(xi, w, f) := t in mk_gpt w f (eb2_row xi)) pts) [].
  (* weights on the dofs *)
  Definition w_force (n : nat) : R := if Nat.eqb n d0 then 1 else if Nat.eqb n d2 then 1 else 0.
  Definition x_herm (n : nat) : R :=
    if Nat.eqb n d0 then xc - L / 2 else if Nat.eqb n d2 then xc + L / 2 else 1.

  Hypothesis distinct : NoDup [d0; d1; d2; d3].

  Lemma eb2_atoms xi : exists p1 s1 p2 s2,
    map (Reval [xi]) (hN h_EULER_BERNOULLI2) = [p1; s1; p2; s2] /\
    (p1 + p2 = 1)%R /\ (p1 * -1 + p2 * 1 + 2 * (s1 + s2) = xi)%R.
  Proof.
    pose proof (hermite_force_identity _ EB2_ok xi) as H1.
    pose proof (hermite_moment_identity _ EB2_ok xi) as H2.
    remember (map (Reval [xi]) (hN h_EULER_BERNOULLI2)) as row eqn:E.
    simpl in E.
    match type of E with row = [?a; ?b; ?c; ?d] => exists a, b, c, d end.
    split; [exact E|].
    simpl in H1, H2.
    rewrite Q2R_one, Q2R_mone in H2.
    split; lra.
  Qed.

  Lemma nodup4 : d0 <> d1 /\ d0 <> d2 /\ d0 <> d3 /\ d1 <> d2 /\ d1 <> d3 /\ d2 <> d3.
  Proof.
    inversion distinct as [|? ? A1 B1]; subst. inversion B1 as [|? ? A2 B2]; subst.
    inversion B2 as [|? ? A3 B3]; subst. simpl in *. repeat split; intro; subst; tauto.
  Qed.

  Lemma eb2_xgauss pts e g : e = eb2_elem pts -> In g (lpts e) ->
    exists xi, xgauss w_force e g = 1%R /\ xgauss x_herm e g = (xc + L / 2 * xi)%R.
  Proof.
    intros -> Hg. unfold eb2_elem in Hg. simpl in Hg. apply in_map_iff in Hg.
    destruct Hg as [[[xi w] f] [<- _]]. exists xi.
    destruct (eb2_atoms xi) as [p1 [s1 [p2 [s2 [E [H1 H2]]]]]].
    destruct nodup4 as [N01 [N02 [N03 [N12 [N13 N23]]]]].
    unfold xgauss, sumi, nPe. cbn [lnodes eb2_elem length seq map Nrow]. unfold eb2_row. rewrite E.
    unfold nthR. simpl.
    unfold w_force, x_herm.
    rewrite !Nat.eqb_refl.
    replace (Nat.eqb d1 d0) with false by (symmetry; apply Nat.eqb_neq; auto).
    replace (Nat.eqb d1 d2) with false by (symmetry; apply Nat.eqb_neq; auto).
    replace (Nat.eqb d2 d0) with false by (symmetry; apply Nat.eqb_neq; auto).
    replace (Nat.eqb d3 d0) with false by (symmetry; apply Nat.eqb_neq; auto).
    replace (Nat.eqb d3 d2) with false by (symmetry; apply Nat.eqb_neq; auto).
    split; [lra|]. assert (Hp : p2 = 1 - p1) by lra. rewrite <- H2, Hp. field.
  Qed.
End EB2_element.

(* Beam.add_lineLoad, Hermitian branch, SEG2: for any list of elements (centres, lengths, dof ids,
   Gauss data, density values):
     sum of the nodal FORCES            = sum_e sum_p w_p|J_p| q(x_p)
     sum of x_i F_i + nodal MOMENTS M_i = sum_e sum_p w_p|J_p| x_p q(x_p),   x_p = xc + (L/2) xi_p *)
Theorem C09_hermite_force_resultant (L : R) (a b c e : nat) (pts : list (R * R * R)) ns :
  NoDup [a; b; c; e] -> NoDup ns -> (forall n, In n [a; b; c; e] -> In n ns) ->
  C09_Loads.Rsum (map (fun n => (w_force a c n * vec (contribs F_call [eb2_elem L a b c e pts]) n)%R) ns)
  = quad_sum [eb2_elem L a b c e pts] (fun _ g => fv g).
Proof.
  intros Hd Hns Hin.
  rewrite (first_moment_with (w_force a c) (fun _ _ => 1%R)); auto.
  - unfold quad_sum. apply Rsum_map_ext. intros el _. apply Rsum_map_ext. intros g _. lra.
  - intros el n [<-|[]] Hn. apply Hin. exact Hn.
  - intros el g [<-|[]] Hg.
    destruct (eb2_xgauss 0 L a b c e Hd pts _ g eq_refl Hg) as [xi [H _]]. exact H.
Qed.

Theorem C09_hermite_moment (xc L : R) (a b c e : nat) (pts : list (R * R * R)) ns :
  NoDup [a; b; c; e] -> NoDup ns -> (forall n, In n [a; b; c; e] -> In n ns) ->
  exists xp : gpt -> R,
    (forall g, In g (lpts (eb2_elem L a b c e pts)) -> exists xi, xp g = (xc + L / 2 * xi)%R) /\
    C09_Loads.Rsum (map (fun n => (x_herm xc L a c n * vec (contribs F_call [eb2_elem L a b c e pts]) n)%R) ns)
    = quad_sum [eb2_elem L a b c e pts] (fun _ g => (xp g * fv g)%R).
Proof.
  intros Hd Hns Hin.
  exists (fun g => xgauss (x_herm xc L a c) (eb2_elem L a b c e pts) g). split.
  - intros g Hg. destruct (eb2_xgauss xc L a b c e Hd pts _ g eq_refl Hg) as [xi [_ H]]. exists xi. exact H.
  - apply first_moment_with; auto.
    + intros el n [<-|[]] Hn. apply Hin. exact Hn.
    + intros el g [<-|[]] Hg. reflexivity.
Qed.


(* ---------------- SEG3 Euler-Bernoulli element (straight, mid node at the centre) ------------- *)
(* dof weights given as an association list on the element's dofs *)
Definition lookup (kv : list (nat * R)) (n : nat) : R :=
  match find (fun p : nat * R => Nat.eqb (fst p) n) kv with Some p => snd p | None => 0%R end.

Lemma lookup_nth (kv : list (nat * R)) : NoDup (map fst kv) ->
  forall i, (i < List.length kv)%nat -> lookup kv (fst (nth i kv (0%nat, 0%R))) = snd (nth i kv (0%nat, 0%R)).
Proof.
  unfold lookup. induction kv as [|[k v] kv IH]; intros Hd i Hi; simpl in *. lia.
  inversion Hd as [|? ? Hn Hd']; subst. destruct i as [|i]; simpl.
  - now rewrite Nat.eqb_refl.
  - destruct (Nat.eqb k (fst (nth i kv (0%nat, 0%R)))) eqn:E.
    + apply Nat.eqb_eq in E. exfalso. apply Hn. rewrite E. apply in_map. apply nth_In. lia.
    + apply IH; auto. lia.
Qed.

Lemma xgauss_lookup (kv : list (nat * R)) (e : lelem) (g : gpt) :
  lnodes e = map fst kv -> NoDup (map fst kv) ->
  xgauss (lookup kv) e g
  = C09_Loads.Rsum (map (fun i => (snd (nth i kv (0%nat, 0%R)) * nthR i (Nrow g))%R) (seq 0 (List.length kv))).
Proof.
  intros Hl Hd. unfold xgauss, sumi, nPe. rewrite Hl, map_length.
  apply Rsum_map_ext. intros i Hi. apply in_seq in Hi.
  change 0%nat with (fst (0%nat, 0%R)) at 1. rewrite map_nth, lookup_nth; auto. lia.
Qed.

Lemma EB3_atoms xi : exists p1 s1 p2 s2 p3 s3,
  map (Reval [xi]) (hN h_EULER_BERNOULLI3) = [p1; s1; p2; s2; p3; s3] /\
  (p1 + p2 + p3 = 1)%R /\ (p1 * -1 + p2 * 1 + p3 * 0 + 2 * (s1 + s2 + s3) = xi)%R.
Proof.
  pose proof (hermite_force_identity _ EB3_ok xi) as H1.
  pose proof (hermite_moment_identity _ EB3_ok xi) as H2.
  remember (map (Reval [xi]) (hN h_EULER_BERNOULLI3)) as row eqn:E.
  cbn [map hN h_EULER_BERNOULLI3] in E.
  match type of E with row = [?a; ?b; ?c; ?d; ?e; ?f] => exists a, b, c, d, e, f end.
  split; [exact E|].
  cbn [map map2 evens odds hN hnodes h_EULER_BERNOULLI3 fold_right] in H1, H2.
  rewrite Q2R_one, Q2R_mone in H2.
  replace (Q2R (0 # 1)) with 0%R in H2 by (unfold Q2R; simpl; field).
  split; lra.
Qed.

Section EB3_element.
  Variables (xc L : R) (d0 d1 d2 d3 d4 d5 : nat).
  Hypothesis distinct : NoDup [d0; d1; d2; d3; d4; d5].
  Definition eb3_row (xi : R) : list R :=
    match map (Reval [xi]) (hN h_EULER_BERNOULLI3) with
    | [p1; s1; p2; s2; p3; s3] => [p1; (L * s1)%R; p2; (L * s2)%R; p3; (L * s3)%R]
    | _ => []
    end.
  Definition eb3_elem (pts : list (R * R * R)) : lelem :=
    mk_lelem [d0; d1; d2; d3; d4; d5]
             (map (fun t : R * R * R => let '(xi, w, f) := t in mk_gpt w f (eb3_row xi)) pts) [].
  (* force dofs weigh 1, rotation dofs 0 *)
  Definition w3_force : nat -> R := lookup [(d0, 1); (d1, 0); (d2, 1); (d3, 0); (d4, 1); (d5, 0)]%R.
  (* node coordinates on the force dofs (end nodes xc -+ L/2, mid node xc), 1 on the rotation dofs *)
  Definition x3_herm : nat -> R :=
    lookup [(d0, xc - L / 2); (d1, 1); (d2, xc + L / 2); (d3, 1); (d4, xc); (d5, 1)]%R.

  Lemma eb3_xgauss pts g : In g (lpts (eb3_elem pts)) ->
    exists xi, xgauss w3_force (eb3_elem pts) g = 1%R /\
               xgauss x3_herm (eb3_elem pts) g = (xc + L / 2 * xi)%R.
  Proof.
    intros Hg. unfold eb3_elem in Hg. simpl in Hg. apply in_map_iff in Hg.
    destruct Hg as [[[xi w] f] [<- _]]. exists xi.
    destruct (EB3_atoms xi) as [p1 [s1 [p2 [s2 [p3 [s3 [E [H1 H2]]]]]]]].
    unfold w3_force, x3_herm. rewrite !xgauss_lookup; try reflexivity; try exact distinct.
    cbn [Nrow]. unfold eb3_row. rewrite E. unfold nthR. simpl.
    split; [lra|]. assert (Hp : p3 = 1 - p1 - p2) by lra. rewrite <- H2, Hp. field.
  Qed.

  Theorem C09_hermite_force_resultant_SEG3 (pts : list (R * R * R)) ns : NoDup ns ->
    (forall n, In n [d0; d1; d2; d3; d4; d5] -> In n ns) ->
    C09_Loads.Rsum (map (fun n => (w3_force n * vec (contribs F_call [eb3_elem pts]) n)%R) ns)
    = quad_sum [eb3_elem pts] (fun _ g => fv g).
  Proof.
    intros Hns Hin.
    rewrite (first_moment_with w3_force (fun _ _ => 1%R)); auto.
    - unfold quad_sum. apply Rsum_map_ext. intros el _. apply Rsum_map_ext. intros g _. lra.
    - intros el n [<-|[]] Hn. apply Hin. exact Hn.
    - intros el g [<-|[]] Hg. destruct (eb3_xgauss pts g Hg) as [xi [H _]]. exact H.
  Qed.

  Theorem C09_hermite_moment_SEG3 (pts : list (R * R * R)) ns : NoDup ns ->
    (forall n, In n [d0; d1; d2; d3; d4; d5] -> In n ns) ->
    exists xp : gpt -> R,
      (forall g, In g (lpts (eb3_elem pts)) -> exists xi, xp g = (xc + L / 2 * xi)%R) /\
      C09_Loads.Rsum (map (fun n => (x3_herm n * vec (contribs F_call [eb3_elem pts]) n)%R) ns)
      = quad_sum [eb3_elem pts] (fun _ g => (xp g * fv g)%R).
  Proof.
    intros Hns Hin.
    exists (fun g => xgauss x3_herm (eb3_elem pts) g). split.
    - intros g Hg. destruct (eb3_xgauss pts g Hg) as [xi [_ H]]. exists xi. exact H.
    - apply first_moment_with; auto.
      + intros el n [<-|[]] Hn. apply Hin. exact Hn.
      + intros el g [<-|[]] Hg. reflexivity.
  Qed.
End EB3_element.

Print Assumptions C09_hermite_moment_SEG3.

Print Assumptions hermite_force_identity.
Print Assumptions hermite_moment_identity.
Print Assumptions C09_hermite_force_resultant.
Print Assumptions C09_hermite_moment.
