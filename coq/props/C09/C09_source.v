(* C09 — the parts of the load machinery that are REGENERATED from EasyFEA/Simulations/_simu.py on every
   run (EFP.Gen_Loads, translator/C09_loads.py, fail closed) and their agreement with the hand-written
   model EFModel.C09_Loads:
     - the dimension dispatch / thickness table of add_lineLoad, add_surfLoad, add_volumeLoad,
       add_pressureLoad (+ __Bc_lineLoad/__Bc_surfload/__Bc_volumeload/__Bc_pressureload) = `dispatch`;
     - the einsum subscripts of __Bc_Integration_Dim are the ones the model transcribes:
         "ep,ep,pin->epn"  (value_e_p[e,p,n] = wJ[e,p] * f[e,p] * N[p,0,n])   <->  summand of F_call
         "en,pin->ep"      (f[e,p] = sum_n f_n[e,n] * N[p,0,n])               <->  interp (nodal arrays)
       summed over the Gauss-point axis, on the MASS rule, on Get_Elements_Nodes(nodes, exclusively=True);
     - the point load divides by len(nodes). *)
From Coq Require Import String List Arith Lia.
From EFModel Require Import C09_Loads.
From EFP Require Import Gen_Loads.
Import ListNotations.
Open Scope string_scope.

Theorem C09_dispatch_src_is_model : forall l d, (1 <= d <= 3)%nat -> dispatch_src l d = dispatch l d.
Proof.
  intros l d Hd. assert (d = 1 \/ d = 2 \/ d = 3)%nat as [->|[->| ->]] by lia; destruct l; reflexivity.
Qed.

(* thickness enters exactly once in 2-D and never in 3-D — about the table the SOURCE implements *)
Theorem C09_thickness_once_src : forall l d k t, (1 <= d <= 3)%nat -> l <> LineLoad ->
  dispatch_src l d = Some (k, t) ->
  (t = true <-> d = 2%nat) /\ (k + (if t then 1 else 0) = physical_dim l)%nat.
Proof.
  intros l d k t Hd Hl H. rewrite C09_dispatch_src_is_model in H by exact Hd.
  now apply thickness_once.
Qed.

(* the SET of einsum subscripts used (sorted, duplicate-free: the integration statement may be written once per
   branch or once after the if/else), and the subscripts of every einsum defining the array that is summed over
   the Gauss-point axis *)
Theorem C09_integration_tokens_src :
  einsums_src = ["en,pin->ep"; "ep,ep,pin->epn"] /\ integration_einsums_src = ["ep,ep,pin->epn"] /\
  rules_src = ["MatrixType.mass"] /\ point_div_src = "len(nodes)".
Proof. repeat split; reflexivity. Qed.

Print Assumptions C09_dispatch_src_is_model.
Print Assumptions C09_thickness_once_src.
