(* C01_rule_geo_ho.v — rule_exact_for_patch for HIGHER-ORDER straight-sided elements: the vertices are
   free polynomial variables and every other node sits where the vertex (linear / bilinear / trilinear)
   map puts its reference position:  X_i = sum_v N0_v(xi_i) X_v  with N0 the shape functions of the
   vertex element (TRI3 for TRI6/10/15, QUAD4 for QUAD8/9, ...), xi_i the reference coordinates of node i.
   With F = dN_pg @ coord_e the integrand of the patch test, (adj(F) grad N_i)_k, is a polynomial in xi
   whose coefficients are polynomials in the vertex coordinates; every xi-monomial of every entry is
   integrated exactly by the rule selected for 'rigi'.  Pairs (element, vertex element) come from
   Gen_RulePlan.geo_ho_types.  Variables: PEX 1..dim = xi ; PEX dim + v*dim + n + 1 = coordinate n of vertex v. *)
From Coq Require Import QArith Qabs Qreals Reals Ring_polynom List String Bool Arith Lia.
From EFLib Require Import PolyQ ElemDefs QuadDefs.
From EFP Require Import Gen_Elems Gen_Gauss C01_rule Gen_RulePlan C01_rule_geo.
Import ListNotations.
Open Scope string_scope.

Definition find_elem (n : string) : option elem := find (fun e => String.eqb (ename e) n) all_elems.

(* X_i,n as an expression of the vertex coordinates *)
Definition Xnode (dim : nat) (e0 : elem) (node : list Q) (n : nat) : PExpr Q :=
  sumE (map (fun vN => PEmul (PEc (Qred (Qeval node (snd vN)))) (Xvar dim (fst vN) n)) (combine (seq 0 (enPe e0)) (eN e0))).
Definition Fexpr_ho (dim : nat) (e0 : elem) (nodes : list (list Q)) (dn : list (list (PExpr Q))) (d n : nat) : PExpr Q :=
  sumE (map (fun t => PEmul (nth d (snd t) PEO) (Xnode dim e0 (fst t) n)) (combine nodes dn)).
Definition gadj_ho (dim : nat) (e0 : elem) (nodes : list (list Q)) (dn : list (list (PExpr Q))) (k i : nat) : PExpr Q :=
  let F := Fexpr_ho dim e0 nodes dn in
  sumE (map (fun d => PEmul (adjE dim F k d) (nth d (nth i dn []) PEO)) (seq 0 dim)).
Definition ho_entries (e e0 : elem) (dn : list (list (PExpr Q))) : list (PExpr Q) :=
  flat_map (fun k => map (fun i => gadj_ho (edim e) e0 (enodes e) dn k i) (seq 0 (enPe e))) (seq 0 (edim e)).
Definition nvars_ho (e e0 : elem) : nat := (edim e + enPe e0 * edim e)%nat.

(* the vertex element really is the vertex map of e: same dimension, its nodes are the first nodes of e *)
Definition vertex_ok (e e0 : elem) : bool :=
  Nat.eqb (edim e) (edim e0) && Nat.leb (enPe e0) (enPe e) &&
  forallb (fun ab => forallb (fun xy => Qeq_bool (fst xy) (snd xy)) (combine (fst ab) (snd ab)))
          (combine (enodes e0) (firstn (enPe e0) (enodes e))).

Definition ho_rule_exact (e e0 : elem) : bool :=
  match lookup (ename e) "rigi", edN e with
  | Some r, Some dn =>
      let ents := ho_entries e e0 dn in
      let nv := nvars_ho e e0 in
      let es := nodup (list_eq_dec Nat.eq_dec)
                  (flat_map (fun en => map (fun ce => firstn (edim e) (snd ce)) (clean (expandF nv en))) ents) in
      vertex_ok e e0 && Nat.eqb (dim_of (rshape r)) (edim e) && chk_exact_on r es && forallb (geo_entry_ok nv (edim e) es) ents
  | _, _ => false
  end.
Definition ho_pair_ok (t : string * string) : bool :=
  match find_elem (fst t), find_elem (snd t) with
  | Some e, Some e0 => ho_rule_exact e e0
  | _, _ => false
  end.

Lemma all_ho_rule_exact : forallb ho_pair_ok geo_ho_types = true.
Proof. vm_cast_no_check (eq_refl true). Qed.

Theorem C01_rule_exact_for_patch_straight_sided_high_order : forall t, In t geo_ho_types ->
  exists e e0 r dn ES, find_elem (fst t) = Some e /\ find_elem (snd t) = Some e0 /\ vertex_ok e e0 = true /\
    lookup (ename e) "rigi" = Some r /\ edN e = Some dn /\ dim_of (rshape r) = edim e /\ chk_exact_on r ES = true /\
    forall en, In en (ho_entries e e0 dn) ->
      exists p : poly, (forall l : list R, Reval l en = Reval l (poly_pe p)) /\
                       (forall ce, In ce p -> In (firstn (edim e) (snd ce)) ES).
Proof.
  intros t Ht. pose proof all_ho_rule_exact as H. rewrite forallb_forall in H. specialize (H t Ht).
  unfold ho_pair_ok in H. destruct (find_elem (fst t)) as [e|]; [|discriminate].
  destruct (find_elem (snd t)) as [e0|]; [|discriminate]. unfold ho_rule_exact in H.
  destruct (lookup (ename e) "rigi") as [r|] eqn:Er; [|discriminate]. destruct (edN e) as [dn|] eqn:Edn; [|discriminate].
  set (ES := nodup (list_eq_dec Nat.eq_dec)
     (flat_map (fun en => map (fun ce => firstn (edim e) (snd ce)) (clean (expandF (nvars_ho e e0) en))) (ho_entries e e0 dn))) in *.
  exists e, e0, r, dn, ES. split; [reflexivity|]. split; [reflexivity|].
  apply andb_true_iff in H as [H H4]. apply andb_true_iff in H as [H H3]. apply andb_true_iff in H as [H1 H2].
  apply Nat.eqb_eq in H2. split; [exact H1|]. split; [exact Er|]. split; [exact Edn|]. split; [exact H2|]. split; [exact H3|].
  intros en Hen. rewrite forallb_forall in H4. specialize (H4 en Hen).
  unfold geo_entry_ok in H4. apply andb_true_iff in H4 as [Ha Hb].
  exists (clean (expandF (nvars_ho e e0) en)). split.
  - intro l. now apply Qnorm_sound.
  - intros ce Hce. rewrite forallb_forall in Hb. apply in_set_In. now apply Hb.
Qed.

Example ho_nonvacuous : geo_ho_types <> [] -> exists t, In t geo_ho_types.
Proof. destruct geo_ho_types as [|t l]; [congruence | intros _; exists t; now left]. Qed.

Print Assumptions C01_rule_exact_for_patch_straight_sided_high_order.
