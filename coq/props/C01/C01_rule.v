(* C01_rule.v — rule_exact_for_patch: on straight-sided (affine) elements invF and |det F| are constant,
   so the integrals the patch test needs,  int_e dN_i/dx_k = sum_d invF(k,d) |J| int_ref dN_i/dxi_d,  are
   reference integrals of the entries of the derivative table.  For every element type, every entry of
   the regenerated `_dN` table is (identically, over R) a polynomial  sum_k c_k m_k , and the rule the
   factory selects for 'rigi' integrates every monomial m_k occurring in the table exactly (1e-14, decided
   on the dumped rule against the closed-form reference integrals), hence every entry within
   1e-14 * (sum |c_k|) by the linear lift QuadDefs.exact_lift (the one C07 uses).  The docstring "order"
   of the rule is NOT used: for the quadrangle rules it is too conservative ([1, 2] for 4 / 9 points) to
   cover QUAD8 / QUAD9 — reported in rule_report.  Hence the hypothesis "Dint I a = 0" of C01_patch_equilibrium_partial is
   not spoiled by quadrature error on affine meshes: the code's quadrature of int dN equals the exact
   integral.  rule_report also says, per type, whether the stiffness integrand on
   affine elements (products of two entries) is integrated exactly (false = reduced integration). *)
From Coq Require Import QArith Qabs Qreals Reals Ring_polynom List String Bool Arith Lia.
From EFLib Require Import PolyQ ElemDefs QuadDefs.
From EFP Require Import Gen_Elems Gen_Gauss.
Import ListNotations.
Open Scope string_scope.

Definition lookup (en mt : string) : option rule :=
  match find (fun t => String.eqb (fst (fst t)) en && String.eqb (snd (fst t)) mt) factory with
  | Some t => Some (snd t) | None => None end.

(* ---------- untrusted expansion of an expression into merged monomials ---------- *)
Fixpoint exp_eqb (a b : list nat) : bool :=
  match a, b with
  | x :: a', y :: b' => Nat.eqb x y && exp_eqb a' b'
  | [], [] => true
  | _, _ => false
  end.
Lemma exp_eqb_eq a b : exp_eqb a b = true -> a = b.
Proof.
  revert b. induction a as [|x a IH]; intros [|y b] H; simpl in H; try discriminate; [reflexivity|].
  apply andb_true_iff in H as [H1 H2]. apply Nat.eqb_eq in H1. f_equal; auto.
Qed.
Fixpoint padd1 (c : Q) (v : list nat) (p : poly) : poly :=
  match p with
  | [] => [(c, v)]
  | (c', v') :: p' => if exp_eqb v v' then (Qred (c + c'), v) :: p' else (c', v') :: padd1 c v p'
  end.
Definition padd (p q : poly) : poly := fold_right (fun ce acc => padd1 (fst ce) (snd ce) acc) q p.
Fixpoint vadd (a b : list nat) : list nat :=
  match a, b with x :: a', y :: b' => (x + y)%nat :: vadd a' b' | _, _ => [] end.
Definition pmul (p q : poly) : poly :=
  fold_right (fun ce acc => padd (map (fun df => (Qred (fst ce * fst df), vadd (snd ce) (snd df))) q) acc) [] p.
Fixpoint ppow (p : poly) (one : poly) (n : nat) : poly := match n with O => one | S k => pmul p (ppow p one k) end.
Definition unitv (dim j : nat) : list nat := map (fun i => if Nat.eqb (S i) j then 1%nat else 0%nat) (seq 0 dim).
Fixpoint expand (dim : nat) (e : PExpr Q) : poly :=
  let one := [(1%Q, repeat 0%nat dim)] in
  match e with
  | PEO => [] | PEI => one
  | PEc c => [(c, repeat 0%nat dim)]
  | PEX _ j => [(1%Q, unitv dim (Pos.to_nat j))]
  | PEadd a b => padd (expand dim a) (expand dim b)
  | PEsub a b => padd (expand dim a) (map (fun ce => (Qopp (fst ce), snd ce)) (expand dim b))
  | PEmul a b => pmul (expand dim a) (expand dim b)
  | PEopp a => map (fun ce => (Qopp (fst ce), snd ce)) (expand dim a)
  | PEpow a n => ppow (expand dim a) one (N.to_nat n)
  end.
Definition clean (p : poly) : poly := filter (fun ce => negb (Qeq_bool (fst ce) 0)) p.

(* the polynomial as an expression again (checked against the original by the normaliser) *)
Definition poly_pe (p : poly) : PExpr Q := pe_sum (map (fun ce => PEmul (PEc (fst ce)) (mono (snd ce))) p).

Definition in_set (es : list (list nat)) (v : list nat) : bool := existsb (exp_eqb v) es.
Lemma in_set_In es v : in_set es v = true -> In v es.
Proof. unfold in_set. intro H. apply existsb_exists in H as [w [Hw He]]. apply exp_eqb_eq in He. now subst. Qed.
Definition in_doc (r : rule) (v : list nat) : bool := in_set (doc_exps (rshape r) (rdoc r)) v.

(* the monomials the patch test needs for this element: those of all entries of the _dN table *)
Definition needed (dim : nat) (dn : list (list (PExpr Q))) : list (list nat) :=
  nodup (list_eq_dec Nat.eq_dec) (flat_map (fun en => map snd (clean (expand dim en))) (List.concat dn)).

Definition entry_ok (dim : nat) (es : list (list nat)) (e : PExpr Q) : bool :=
  let p := clean (expand dim e) in
  pe_eqb e (poly_pe p) && forallb (fun ce => in_set es (snd ce)) p.

Lemma entry_ok_spec dim es e : entry_ok dim es e = true ->
  exists p : poly, (forall l : list R, Reval l e = Reval l (poly_pe p)) /\ (forall ce, In ce p -> In (snd ce) es).
Proof.
  unfold entry_ok. intro H. apply andb_true_iff in H as [H1 H2].
  exists (clean (expand dim e)). split.
  - intro l. now apply Qnorm_sound.
  - intros ce Hce. rewrite forallb_forall in H2. apply in_set_In. now apply H2.
Qed.

(* the rule selected for 'rigi' integrates EVERY needed monomial exactly (1e-14), decided on the dumped
   table against the closed-form reference integrals — independent of the docstring's "order" *)
Definition dN_rule_exact (e : elem) : bool :=
  match lookup (ename e) "rigi", edN e with
  | Some r, Some dn =>
      let es := needed (edim e) dn in
      Nat.eqb (dim_of (rshape r)) (edim e) && chk_exact_on r es &&
      forallb (fun row => forallb (entry_ok (edim e) es) row) dn
  | _, _ => false
  end.

Lemma all_dN_rule_exact : forallb dN_rule_exact all_elems = true.
Proof. vm_cast_no_check (eq_refl true). Qed.

Theorem C01_rule_exact_for_patch : forall e, In e all_elems ->
  exists r dn, lookup (ename e) "rigi" = Some r /\ edN e = Some dn /\ dim_of (rshape r) = edim e /\
    forall row, In row dn -> forall en, In en row ->
      exists p : poly,
        (forall l : list R, Reval l en = Reval l (poly_pe p)) /\
        (Qabs (apply_rule_poly r p - iref_poly (rshape r) p) <= tolQ * norm1 p)%Q.
Proof.
  intros e He. pose proof all_dN_rule_exact as H. rewrite forallb_forall in H. specialize (H e He).
  unfold dN_rule_exact in H. destruct (lookup (ename e) "rigi") as [r|]; [|discriminate].
  destruct (edN e) as [dn|]; [|discriminate]. exists r, dn. split; [reflexivity|]. split; [reflexivity|].
  apply andb_true_iff in H as [Hr H]. apply andb_true_iff in Hr as [Hdim Hex]. apply Nat.eqb_eq in Hdim.
  split; [exact Hdim|]. intros row Hrow en Hen. rewrite forallb_forall in H.
  pose proof (H row Hrow) as H1. rewrite forallb_forall in H1.
  destruct (entry_ok_spec _ _ _ (H1 en Hen)) as [p [Hp1 Hp2]]. exists p. split; [exact Hp1|].
  exact (exact_lift r _ Hex p Hp2).
Qed.

Example rule_patch_nonvacuous : List.length all_elems = 19%nat /\ exists r, lookup "TRI6" "rigi" = Some r.
Proof. split; [reflexivity|]. eexists. reflexivity. Qed.

Print Assumptions C01_rule_exact_for_patch.
