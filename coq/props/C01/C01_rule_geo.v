(* C01_rule_geo.v — rule_exact_for_patch for NON-affine straight-sided QUAD4 / HEXA8 (and, as a
   cross-check, the simplices and PRISM6 whose map is affine): the node coordinates are extra polynomial
   variables.  With F = dN_pg @ coord_e (entries F(d,n) = sum_i dN_i,d X_i,n) the integrand the patch
   test needs is  dN_i/dx_k * det F = (adj(F) grad_xi N_i)_k , a polynomial in xi whose coefficients are
   polynomials in the coordinates.  Theorem: every xi-monomial of every such entry is integrated exactly
   (1e-14) by the rule the factory selects for 'rigi' — so the code's quadrature of  int_e dN_i/dx_k
   (times the sign of det F, constant on a valid element) is exact for ALL vertex positions.
   Variables: PEX 1..dim = xi ; PEX dim + i*dim + n + 1 = coordinate n of node i. *)
From Coq Require Import QArith Qabs Qreals Reals Ring_polynom List String Bool Arith Lia.
From EFLib Require Import PolyQ ElemDefs QuadDefs.
From EFP Require Import Gen_Elems Gen_Gauss C01_rule Gen_RulePlan.
Import ListNotations.
Open Scope string_scope.

Definition Xvar (dim i n : nat) : PExpr Q := PEX Q (Pos.of_nat (dim + i * dim + n + 1)).
Definition sumE (l : list (PExpr Q)) : PExpr Q := fold_right (fun a b => PEadd a b) PEO l.
(* F(d,n) *)
Definition Fexpr (dim : nat) (dn : list (list (PExpr Q))) (d n : nat) : PExpr Q :=
  sumE (map (fun ir => PEmul (nth d (snd ir) PEO) (Xvar dim (fst ir) n)) (combine (seq 0 (List.length dn)) dn)).
(* adj(F)(k,d), same cofactor layout as _linalg.Inv (inv = adj / det) *)
Definition adjE (dim : nat) (F : nat -> nat -> PExpr Q) (k d : nat) : PExpr Q :=
  let m := fun a b c e => PEsub (PEmul a e) (PEmul b c) in     (* a e - b c *)
  match dim with
  | 1%nat => PEI
  | 2%nat => match k, d with
        | 0%nat, 0%nat => F 1%nat 1%nat | 0%nat, 1%nat => PEopp (F 0%nat 1%nat)
        | 1%nat, 0%nat => PEopp (F 1%nat 0%nat) | _, _ => F 0%nat 0%nat end
  | _ =>
      let a := F 0%nat 0%nat in let b := F 0%nat 1%nat in let c := F 0%nat 2%nat in
      let d' := F 1%nat 0%nat in let e := F 1%nat 1%nat in let f := F 1%nat 2%nat in
      let g := F 2%nat 0%nat in let h := F 2%nat 1%nat in let i := F 2%nat 2%nat in
      match k, d with
      | 0%nat, 0%nat => m e f h i | 0%nat, 1%nat => PEopp (m b c h i) | 0%nat, 2%nat => m b c e f
      | 1%nat, 0%nat => PEopp (m d' f g i) | 1%nat, 1%nat => m a c g i | 1%nat, 2%nat => PEopp (m a c d' f)
      | 2%nat, 0%nat => m d' e g h | 2%nat, 1%nat => PEopp (m a b g h) | _, _ => m a b d' e
      end
  end.
(* (adj(F) grad N_i)_k *)
Definition gadj (dim : nat) (dn : list (list (PExpr Q))) (k i : nat) : PExpr Q :=
  let F := Fexpr dim dn in
  sumE (map (fun d => PEmul (adjE dim F k d) (nth d (nth i dn []) PEO)) (seq 0 dim)).

(* untrusted fast expansion: read the monomials off the sparse Horner normal form of the normaliser
   (Pphi l (Pinj j Q) = Pphi (jump j l) Q ;  Pphi l (PX P i Q) = Pphi l P * x1^i + Pphi (tl l) Q) *)
Definition bump (i : nat) (v : list nat) : list nat := match v with [] => [i] | x :: r => (x + i)%nat :: r end.
Fixpoint pol_terms (P : Pol Q) : list (Q * list nat) :=
  match P with
  | Pc c => [(c, [])]
  | Pinj j Q' => map (fun ce => (fst ce, (repeat 0%nat (Pos.to_nat j) ++ snd ce)%list)) (pol_terms Q')
  | PX P' i Q' => map (fun ce => (fst ce, bump (Pos.to_nat i) (snd ce))) (pol_terms P') ++
                  map (fun ce => (fst ce, 0%nat :: snd ce)) (pol_terms Q')
  end.
Definition pad (n : nat) (v : list nat) : list nat := (v ++ repeat 0%nat (n - List.length v))%list.
Definition expandF (nv : nat) (e : PExpr Q) : poly := map (fun ce => (fst ce, pad nv (snd ce))) (pol_terms (Qnorm e)).

Definition nvars (e : elem) : nat := (edim e + enPe e * edim e)%nat.
Definition geo_entries (e : elem) (dn : list (list (PExpr Q))) : list (PExpr Q) :=
  flat_map (fun k => map (fun i => gadj (edim e) dn k i) (seq 0 (enPe e))) (seq 0 (edim e)).

Definition geo_entry_ok (nv dim : nat) (es : list (list nat)) (en : PExpr Q) : bool :=
  let p := clean (expandF nv en) in
  pe_eqb en (poly_pe p) && forallb (fun ce => in_set es (firstn dim (snd ce))) p.

Definition geo_rule_exact (e : elem) : bool :=
  match lookup (ename e) "rigi", edN e with
  | Some r, Some dn =>
      let ents := geo_entries e dn in
      let es := nodup (list_eq_dec Nat.eq_dec)
                  (flat_map (fun en => map (fun ce => firstn (edim e) (snd ce)) (clean (expandF (nvars e) en))) ents) in
      Nat.eqb (dim_of (rshape r)) (edim e) && chk_exact_on r es && forallb (geo_entry_ok (nvars e) (edim e) es) ents
  | _, _ => false
  end.

(* element types whose geometry map is the element's own (vertex) interpolation: all nodes are vertices *)
(* geo_types (Gen_RulePlan, tier dependent) must only list such types: SEG2, TRI3, QUAD4, TETRA4, PRISM6, HEXA8 *)
Definition is_geo (e : elem) : bool := existsb (String.eqb (ename e)) geo_types.

Lemma all_geo_rule_exact : forallb (fun e => if is_geo e then geo_rule_exact e else true) all_elems = true.
Proof. vm_cast_no_check (eq_refl true). Qed.

(* For every vertex-only element type: each entry (adj(F) grad N_i)_k equals identically (in xi AND in
   all node coordinates) sum_k c_k * (monomial in xi and coordinates), and the xi-part of every monomial
   belongs to a set ES on which the selected rule is exact. *)
Theorem C01_rule_exact_for_patch_any_vertex_positions : forall e, In e all_elems -> In (ename e) geo_types ->
  exists r dn ES, lookup (ename e) "rigi" = Some r /\ edN e = Some dn /\ dim_of (rshape r) = edim e /\
    chk_exact_on r ES = true /\
    forall en, In en (geo_entries e dn) ->
      exists p : poly, (forall l : list R, Reval l en = Reval l (poly_pe p)) /\
                       (forall ce, In ce p -> In (firstn (edim e) (snd ce)) ES).
Proof.
  intros e He Hg. pose proof all_geo_rule_exact as H. rewrite forallb_forall in H. specialize (H e He).
  assert (Hi : is_geo e = true).
  { unfold is_geo. apply existsb_exists. exists (ename e). split; [exact Hg | apply String.eqb_refl]. }
  rewrite Hi in H. unfold geo_rule_exact in H.
  destruct (lookup (ename e) "rigi") as [r|]; [|discriminate]. destruct (edN e) as [dn|]; [|discriminate].
  set (ES := nodup (list_eq_dec Nat.eq_dec)
                  (flat_map (fun en => map (fun ce => firstn (edim e) (snd ce)) (clean (expandF (nvars e) en))) (geo_entries e dn))) in *.
  exists r, dn, ES. split; [reflexivity|]. split; [reflexivity|].
  apply andb_true_iff in H as [H H3]. apply andb_true_iff in H as [H1 H2]. apply Nat.eqb_eq in H1.
  split; [exact H1|]. split; [exact H2|]. intros en Hen. rewrite forallb_forall in H3. specialize (H3 en Hen).
  unfold geo_entry_ok in H3. apply andb_true_iff in H3 as [Ha Hb].
  exists (clean (expandF (nvars e) en)). split.
  - intro l. now apply Qnorm_sound.
  - intros ce Hce. rewrite forallb_forall in Hb. apply in_set_In. now apply Hb.
Qed.

Example geo_nonvacuous : existsb is_geo all_elems = true.
Proof. vm_compute. reflexivity. Qed.

Print Assumptions C01_rule_exact_for_patch_any_vertex_positions.
