(* C01_rule_bridge.v — closes the gap between C07-style statements about coefficient lists and the
   CODE's quadrature of a table entry.  For the planned element types, every entry `en` of the regenerated
   `_dN` table, the rule r the factory selects for 'rigi' and p = the checked expansion of `en`:
       quadR r en  :=  sum_p  w_p * en(xi_p)          (reals; the code's points and weights as exact rationals)
   satisfies   | quadR r en - iref_poly p |  <=  1e-14 * sum_k |c_k| ,
   where iref_poly p is the closed-form reference integral of the polynomial (C07's specification).
   Two computational checks, both through the normaliser / exact Q arithmetic:
     - at every point of the rule the value of `en` over R is the exactly computed rational Qeval pt en
       (PolyQ.Reval_at_Qpoint), so quadR r en = Q2R (sum_p w_p * Qeval pt_p en);
     - that rational equals apply_rule_poly r p (Qeq_bool), the quantity bounded by QuadDefs.exact_lift. *)
From Coq Require Import QArith Qabs Qreals Reals Ring_polynom List String Bool Arith Lia Lra.
From EFLib Require Import PolyQ ElemDefs QuadDefs.
From EFP Require Import Gen_Elems Gen_Gauss C01_rule Gen_BridgePlan.
Import ListNotations.
Open Scope string_scope.

Fixpoint quadQ (pts : list (list Q)) (ws : list Q) (e : PExpr Q) : Q :=
  match pts, ws with
  | pt :: pts', w :: ws' => (w * Qeval pt e + quadQ pts' ws' e)%Q
  | _, _ => 0%Q
  end.
Fixpoint quadRl (pts : list (list Q)) (ws : list Q) (e : PExpr Q) : R :=
  match pts, ws with
  | pt :: pts', w :: ws' => (Q2R w * Reval (map Q2R pt) e + quadRl pts' ws' e)%R
  | _, _ => 0%R
  end.
Definition quadR (r : rule) (e : PExpr Q) : R := quadRl (rpts r) (rw r) e.

Definition chk_point (e : PExpr Q) (pt : list Q) : bool :=
  pe_eqb (pe_subst (map (fun q => PEc q) pt) e) (PEc (Qeval pt e)).

Lemma quadRl_Q e : forall pts ws, forallb (chk_point e) pts = true ->
  quadRl pts ws e = Q2R (quadQ pts ws e).
Proof.
  induction pts as [|pt pts IH]; intros ws H; simpl.
  - unfold Q2R; simpl; lra.
  - destruct ws as [|w ws]; [unfold Q2R; simpl; lra|].
    simpl in H. apply andb_true_iff in H as [H1 H2]. unfold chk_point in H1.
    apply Reval_at_Qpoint in H1. rewrite H1, (IH ws H2), Q2R_plus, Q2R_mult. reflexivity.
Qed.

Definition chk_bridge (dim : nat) (r : rule) (e : PExpr Q) : bool :=
  let p := clean (expand dim e) in
  forallb (chk_point e) (rpts r) && Qeq_bool (quadQ (rpts r) (rw r) e) (apply_rule_poly r p).

Definition bridge_ok (e : elem) : bool :=
  match lookup (ename e) "rigi", edN e with
  | Some r, Some dn => forallb (fun row => forallb (chk_bridge (edim e) r) row) dn
  | _, _ => false
  end.
Definition planned_b (e : elem) : bool := existsb (String.eqb (ename e)) bridge_types.

Lemma all_bridge_ok : forallb (fun e => if planned_b e then bridge_ok e else true) all_elems = true.
Proof. vm_cast_no_check (eq_refl true). Qed.

Theorem C01_code_quadrature_of_dN_is_exact : forall e, In e all_elems -> In (ename e) bridge_types ->
  exists r dn, lookup (ename e) "rigi" = Some r /\ edN e = Some dn /\
    forall row, In row dn -> forall en, In en row ->
      exists p : poly,
        (forall l : list R, Reval l en = Reval l (poly_pe p)) /\
        (Q2R (iref_poly (rshape r) p) - Q2R (tolQ * norm1 p) <= quadR r en <= Q2R (iref_poly (rshape r) p) + Q2R (tolQ * norm1 p))%R.
Proof.
  intros e He Hp.
  destruct (C01_rule_exact_for_patch e He) as [r [dn [Hr [Hdn [Hdim Hent]]]]].
  pose proof all_bridge_ok as H. rewrite forallb_forall in H. specialize (H e He).
  assert (Hpl : planned_b e = true).
  { unfold planned_b. apply existsb_exists. exists (ename e). split; [exact Hp | apply String.eqb_refl]. }
  rewrite Hpl in H. unfold bridge_ok in H. rewrite Hr, Hdn in H.
  exists r, dn. split; [exact Hr|]. split; [exact Hdn|].
  intros row Hrow en Hen. rewrite forallb_forall in H. pose proof (H row Hrow) as H1.
  rewrite forallb_forall in H1. specialize (H1 en Hen). unfold chk_bridge in H1.
  apply andb_true_iff in H1 as [Hpts Heq]. apply Qeq_bool_eq in Heq.
  (* the same p as in C01_rule: identity + exactness bound *)
  pose proof all_dN_rule_exact as HA. rewrite forallb_forall in HA. specialize (HA e He).
  unfold dN_rule_exact in HA. rewrite Hr, Hdn in HA.
  apply andb_true_iff in HA as [HA1 HA2]. apply andb_true_iff in HA1 as [_ Hex].
  rewrite forallb_forall in HA2. pose proof (HA2 row Hrow) as HA3. rewrite forallb_forall in HA3.
  specialize (HA3 en Hen). unfold entry_ok in HA3. apply andb_true_iff in HA3 as [Hid Hmem].
  set (p := clean (expand (edim e) en)) in *.
  exists p. split; [intro l; now apply Qnorm_sound|].
  assert (Hin : forall ce, In ce p -> In (snd ce) (needed (edim e) dn)).
  { intros ce Hce. rewrite forallb_forall in Hmem. apply in_set_In. now apply Hmem. }
  pose proof (exact_lift r _ Hex p Hin) as Hb.
  apply Qabs_Qle_condition in Hb as [Hb1 Hb2].
  unfold quadR. rewrite (quadRl_Q en (rpts r) (rw r) Hpts). apply Qeq_eqR in Heq. rewrite Heq.
  apply Qle_Rle in Hb1. apply Qle_Rle in Hb2. rewrite Q2R_opp in Hb1. rewrite Q2R_minus in Hb1, Hb2. lra.
Qed.

Example bridge_nonvacuous : existsb planned_b all_elems = true.
Proof. vm_compute. reflexivity. Qed.

Print Assumptions C01_code_quadrature_of_dN_is_exact.
