(* C01_tables.v — ties the generated element tables (Gen_Elems) and the generated closed-form
   inverse (Gen_LinalgR, from _linalg.Inv) to the hypotheses of EFLib.C01_Iso, and states the
   linear-field theorems for every element type, every evaluation point and all node coordinates. *)
From Coq Require Import QArith Qreals Reals Ring_polynom List String Lia Lra Bool Arith.
From EFLib Require Import PolyQ ElemDefs C02_QuadForm C01_Iso.
From EFP Require Import Gen_Elems Gen_LinalgR.
Import ListNotations.
Open Scope R_scope.

(* ---------- sums of table entries ---------- *)
Lemma sumn_shift n f : sumn (S n) f = f 0%nat + sumn n (fun i => f (S i)).
Proof. induction n as [|n IH]; simpl in *; [lra|]. rewrite IH. lra. Qed.

Lemma sumn_nth {A} (L : list A) (dflt : A) (f : A -> R) :
  sumn (List.length L) (fun i => f (nth i L dflt)) = fold_right Rplus 0 (map f L).
Proof.
  induction L as [|a L IH]; [reflexivity|]. cbn [List.length]. rewrite sumn_shift. simpl. now rewrite IH.
Qed.

(* value of the reference derivative table at the point l : dNr d i *)
Definition dNr_of (dn : list (list (PExpr Q))) (l : list R) (d i : nat) : R :=
  Reval l (nth d (nth i dn []) PEO).
Definition Nv_of (e : elem) (l : list R) (i : nat) : R := Reval l (nth i (eN e) PEO).

(* checker: the columns of the derivative table sum to the zero polynomial; N sums to 1 *)
Definition chk_lin (e : elem) : bool :=
  Nat.eqb (List.length (eN e)) (enPe e) && pe_eqb (pe_sum (eN e)) PEI &&
  match edN e with
  | Some dn => Nat.eqb (List.length dn) (enPe e) &&
               forallb (fun d => pe_eqb (pe_sum (map (fun row => nth d row PEO) dn)) PEO) (seq 0 (edim e))
  | None => false
  end.

Lemma all_lin_checked : forallb chk_lin all_elems = true.
Proof. vm_compute. reflexivity. Qed.

Lemma lin_pou e : chk_lin e = true -> forall l, sumn (enPe e) (Nv_of e l) = 1.
Proof.
  unfold chk_lin. intros H l. apply andb_true_iff in H as [H _]. apply andb_true_iff in H as [Hl H].
  apply Nat.eqb_eq in Hl. rewrite <- Hl. unfold Nv_of. rewrite (sumn_nth (eN e) PEO (Reval l)).
  apply (Qnorm_sound l) in H. rewrite Reval_pe_sum in H. exact H.
Qed.

Lemma lin_dsum0 e dn : chk_lin e = true -> edN e = Some dn ->
  forall l d, (d < edim e)%nat -> sumn (enPe e) (dNr_of dn l d) = 0.
Proof.
  unfold chk_lin. intros H Hdn l d Hd. apply andb_true_iff in H as [_ H]. rewrite Hdn in H.
  apply andb_true_iff in H as [Hl H]. apply Nat.eqb_eq in Hl. rewrite <- Hl.
  rewrite forallb_forall in H. assert (Hin : In d (seq 0 (edim e))) by (apply in_seq; lia).
  pose proof (H d Hin) as H1. apply (Qnorm_sound l) in H1. rewrite Reval_pe_sum in H1.
  unfold dNr_of. rewrite (sumn_nth dn [] (fun row => Reval l (nth d row PEO))).
  rewrite map_map in H1. exact H1.
Qed.

Lemma lin_has_dN e : chk_lin e = true -> exists dn, edN e = Some dn.
Proof.
  unfold chk_lin. intro H. apply andb_true_iff in H as [_ H].
  destruct (edN e) as [dn|]; [now exists dn | discriminate].
Qed.

(* ---------- the code's closed-form inverse is an inverse wherever det <> 0 ---------- *)
Lemma gen_inv1_ok F : gen_det1R F <> 0 -> forall k n, (k < 1)%nat -> (n < 1)%nat ->
  sumn 1 (fun d => gen_inv1R F k d * F d n) = delta k n.
Proof.
  intros Hd k n Hk Hn. assert (k = 0%nat) by lia. assert (n = 0%nat) by lia. subst.
  unfold gen_det1R in Hd. unfold gen_inv1R, delta. simpl. field. exact Hd.
Qed.
Lemma gen_inv2_ok F : gen_det2R F <> 0 -> forall k n, (k < 2)%nat -> (n < 2)%nat ->
  sumn 2 (fun d => gen_inv2R F k d * F d n) = delta k n.
Proof.
  intros Hd k n Hk Hn. unfold gen_det2R in Hd.
  destruct k as [|[|k]]; try lia; destruct n as [|[|n]]; try lia;
    unfold gen_inv2R, gen_det2R, delta; simpl; field; exact Hd.
Qed.
Lemma gen_inv3_ok F : gen_det3R F <> 0 -> forall k n, (k < 3)%nat -> (n < 3)%nat ->
  sumn 3 (fun d => gen_inv3R F k d * F d n) = delta k n.
Proof.
  intros Hd k n Hk Hn. unfold gen_det3R in Hd.
  destruct k as [|[|[|k]]]; try lia; destruct n as [|[|[|n]]]; try lia;
    unfold gen_inv3R, gen_det3R, delta; simpl; field; exact Hd.
Qed.
Lemma gen_inv_ok dim F : (1 <= dim <= 3)%nat -> gen_detR dim F <> 0 ->
  forall k n, (k < dim)%nat -> (n < dim)%nat -> sumn dim (fun d => gen_invR dim F k d * F d n) = delta k n.
Proof.
  intros Hdim Hd. destruct dim as [|[|[|[|dim]]]]; try lia; simpl in *.
  - now apply gen_inv1_ok. - now apply gen_inv2_ok. - now apply gen_inv3_ok.
Qed.

Lemma elem_dims : forall e, In e all_elems -> (1 <= edim e <= 3)%nat.
Proof.
  assert (H : forallb (fun e => Nat.leb 1 (edim e) && Nat.leb (edim e) 3) all_elems = true) by (vm_compute; reflexivity).
  intros e He. rewrite forallb_forall in H. specialize (H e He). apply andb_true_iff in H as [H1 H2].
  apply Nat.leb_le in H1. apply Nat.leb_le in H2. lia.
Qed.
Lemma elem_lin e : In e all_elems -> chk_lin e = true.
Proof. apply forallb_In. exact all_lin_checked. Qed.

(* ---------- C01 theorems: every element type, every point l, all node coordinates X ---------- *)

(* sum_i N_i(xi) (a.x_i + b) = a.x(xi) + b,   x(xi) = sum_i N_i(xi) x_i *)
Theorem C01_interp_linear : forall e, In e all_elems -> forall (l : list R) (X : nat -> nat -> R) a b,
  sumn (enPe e) (fun i => Nv_of e l i * linfield (edim e) X a b i)
  = sumn (edim e) (fun n => a n * xphys (enPe e) (Nv_of e l) X n) + b.
Proof. intros e He l X a b. apply interp_linear. apply lin_pou. now apply elem_lin. Qed.

(* sum_i dN_i/dxi_d (a.x_i + b) = (F a)_d with F = dN_pg @ coord_e (no condition on the geometry) *)
Theorem C01_refgrad_linear : forall e, In e all_elems -> forall dn, edN e = Some dn ->
  forall (l : list R) (X : nat -> nat -> R) a b d, (d < edim e)%nat ->
  sumn (enPe e) (fun i => dNr_of dn l d i * linfield (edim e) X a b i)
  = sumn (edim e) (fun n => Fm (enPe e) (dNr_of dn l) X d n * a n).
Proof.
  intros e He dn Hdn l X a b d Hd. apply refgrad_linear; [|assumption].
  intros d' Hd'. apply (lin_dsum0 e dn); auto. now apply elem_lin.
Qed.

(* physical gradient (invF @ dN_pg with the code's Inv) of a linear field is its gradient at every
   point where det F <> 0 *)
Theorem C01_grad_linear : forall e, In e all_elems -> forall dn, edN e = Some dn ->
  forall (l : list R) (X : nat -> nat -> R) a b,
  let dNr := dNr_of dn l in
  let F := Fm (enPe e) dNr X in
  gen_detR (edim e) F <> 0 ->
  forall k, (k < edim e)%nat ->
  sumn (enPe e) (fun i => gphys (edim e) dNr (gen_invR (edim e) F) k i * linfield (edim e) X a b i) = a k.
Proof.
  intros e He dn Hdn l X a b dNr F Hdet k Hk. apply grad_linear; [| |assumption].
  - intros d Hd. apply (lin_dsum0 e dn); auto. now apply elem_lin.
  - intros k' n Hk' Hn. apply gen_inv_ok; auto. now apply elem_dims.
Qed.

(* strain-displacement operator applied to a linear displacement u = A x + c: the Kelvin-Mandel
   vector of the symmetric gradient, at every point, on every element (distorted, curved) *)
Theorem C01_strain_linear_2D : forall e, In e all_elems -> edim e = 2%nat -> forall dn, edN e = Some dn ->
  forall (l : list R) (X : nat -> nat -> R) cM A c,
  let dNr := dNr_of dn l in
  let F := Fm (enPe e) dNr X in
  gen_det2R F <> 0 ->
  forall a, (a < 3)%nat ->
  sumn (enPe e * 2) (fun col => B2 cM (gphys 2 dNr (gen_inv2R F)) a col * dofs 2 (lindisp 2 X A c) col)
  = KM2 cM A a.
Proof.
  intros e He Hdim dn Hdn l X cM A c dNr F Hdet a Ha. apply strain_linear_2D; [| |assumption].
  - intros d Hd. apply (lin_dsum0 e dn); auto; [now apply elem_lin | lia].
  - intros k n Hk Hn. now apply gen_inv2_ok.
Qed.

Theorem C01_strain_linear_3D : forall e, In e all_elems -> edim e = 3%nat -> forall dn, edN e = Some dn ->
  forall (l : list R) (X : nat -> nat -> R) cM A c,
  let dNr := dNr_of dn l in
  let F := Fm (enPe e) dNr X in
  gen_det3R F <> 0 ->
  forall a, (a < 6)%nat ->
  sumn (enPe e * 3) (fun col => B3 cM (gphys 3 dNr (gen_inv3R F)) a col * dofs 3 (lindisp 3 X A c) col)
  = KM3 cM A a.
Proof.
  intros e He Hdim dn Hdn l X cM A c dNr F Hdet a Ha. apply strain_linear_3D; [| |assumption].
  - intros d Hd. apply (lin_dsum0 e dn); auto; [now apply elem_lin | lia].
  - intros k n Hk Hn. now apply gen_inv3_ok.
Qed.

(* non-vacuity: all 19 types are covered, 2D and 3D instances exist, and the determinant
   hypothesis is satisfiable (unit right triangle: F = identity at every point) *)
Example lin_nineteen : List.length all_elems = 19%nat.
Proof. reflexivity. Qed.
Example lin_inst_2D : In el_QUAD8 all_elems /\ edim el_QUAD8 = 2%nat /\ exists dn, edN el_QUAD8 = Some dn.
Proof. split; [simpl; tauto|]. split; [reflexivity|]. eexists; reflexivity. Qed.
Example lin_inst_3D : In el_TETRA10 all_elems /\ edim el_TETRA10 = 3%nat /\ exists dn, edN el_TETRA10 = Some dn.
Proof. split; [simpl; tauto|]. split; [reflexivity|]. eexists; reflexivity. Qed.
Example det_hyp_satisfiable : gen_det2R (fun d n => if Nat.eqb d n then 1 else 0) <> 0.
Proof. unfold gen_det2R. simpl. lra. Qed.

Print Assumptions C01_interp_linear.
Print Assumptions C01_grad_linear.
Print Assumptions C01_strain_linear_2D.
Print Assumptions C01_strain_linear_3D.
