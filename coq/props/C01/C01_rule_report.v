(* C01_rule_report.v — per-type report accompanying C01_rule.v (thorough tier) *)
From Coq Require Import QArith List String Bool Arith Ring_polynom.
From EFLib Require Import PolyQ ElemDefs QuadDefs.
From EFP Require Import Gen_Elems Gen_Gauss C01_rule.
Import ListNotations.
Open Scope string_scope.
(* reported per type (not required by the patch test):
   - are the needed monomials inside the DOCUMENTED exactness set of the rule (C07's theorem)?
   - are all pairwise sums of needed exponents (a superset of the monomials of the stiffness integrand
     dN_i,d * dN_j,d' on affine elements) integrated exactly by the rule? *)
Definition report_row (e : elem) : string * (bool * bool) :=
  match lookup (ename e) "rigi", edN e with
  | Some r, Some dn =>
      let es := needed (edim e) dn in
      (ename e, (forallb (in_doc r) es,
                 chk_exact_on r (nodup (list_eq_dec Nat.eq_dec) (flat_map (fun a => map (vadd a) es) es))))
  | _, _ => (ename e, (false, false))
  end.
Definition rule_report : list (string * (bool * bool)) := Eval vm_compute in map report_row all_elems.


(* printable form *)
Definition rule_report_outside_documented_order : list string := map fst (filter (fun t => negb (fst (snd t))) rule_report).
Definition rule_report_stiffness_not_exact : list string := map fst (filter (fun t => negb (snd (snd t))) rule_report).
