(* C01_hermite.v — beams: the Hermitian (Euler-Bernoulli) interpolation of the regenerated tables
   reproduces every polynomial deflection of degree <= 2n-1 (n nodes; cubic for the 2-node element), and
   its second-derivative table returns the exact curvature: for m(r) = r^a, a <= 2n-1,
       sum_j [ m(x_j) phi_j(r) + 2 m'(x_j) psi_j(r) ]     = m(r)
       sum_j [ m(x_j) phi_j''(r) + 2 m'(x_j) psi_j''(r) ] = m''(r)
   identically in r up to coefficients of size <= 1e-12 (the EB4/EB5 tables carry decimal-rationalised
   coefficients; for EB2/EB3 the same statement holds with these coefficients exactly 0).  The factor 2 is the reference
   slope normalisation psi_j'(x_j) = 1/2 (Get_Hermitian_N_e_pg multiplies psi by the element length,
   dr/dx = 2/L), so with nodal dofs (w_j, theta_j = dw/dx(x_j)) the interpolant of a polynomial
   deflection w of degree <= 2n-1 IS w and the curvature operator applied to its dofs IS w'':
   constant-curvature (quadratic) and cubic deflections lie in the beam's discrete space.  *)
From Coq Require Import QArith Qabs Qreals Reals Ring_polynom List String Bool Arith Lia.
From EFLib Require Import PolyQ ElemDefs QuadDefs HermDefs.
From EFP Require Import Gen_Elems Gen_Gauss Gen_Hermite C01_rule.
Import ListNotations.

Definition qpw (x : Q) (a : nat) : Q := Qred (Qpow x (N.of_nat a)).
(* sum_j [ x_j^a * T[2j] + 2 a x_j^(a-1) * T[2j+1] ] *)
Fixpoint herm_interp (a : nat) (nodes : list Q) (T : list (PExpr Q)) : PExpr Q :=
  match nodes, T with
  | x :: nodes', phi :: psi :: T' =>
      PEadd (PEadd (PEmul (PEc (qpw x a)) phi)
                   (PEmul (PEc (Qred (2 * inject_Z (Z.of_nat a) * qpw x (pred a)))) psi))
            (herm_interp a nodes' T')
  | _, _ => PEO
  end.
Definition rpow (a : nat) : PExpr Q := PEpow (PEX Q 1) (N.of_nat a).
Definition d2_rpow (a : nat) : PExpr Q :=
  PEmul (PEc (inject_Z (Z.of_nat a * Z.of_nat (pred a)))) (PEpow (PEX Q 1) (N.of_nat (a - 2))).

(* e1 - e2 = sum c_k r^k with sum |c_k| <= tol : checked through the normaliser *)
Definition small_diff (tol : Q) (e1 e2 : PExpr Q) : bool :=
  let p := clean (expand 1 (PEsub e1 e2)) in
  pe_eqb (PEsub e1 e2) (poly_pe p) && Qle_bool (norm1 p) tol.
Lemma small_diff_spec tol e1 e2 : small_diff tol e1 e2 = true ->
  exists p : poly, (forall l : list R, (Reval l e1 - Reval l e2)%R = Reval l (poly_pe p)) /\ (norm1 p <= tol)%Q.
Proof.
  unfold small_diff. intro H. apply andb_true_iff in H as [H1 H2].
  exists (clean (expand 1 (PEsub e1 e2))). split.
  - intro l. apply (Qnorm_sound l) in H1. exact H1.
  - now apply Qle_bool_iff.
Qed.

Definition herm_degree (h : herm) : nat := (2 * List.length (hnodes h) - 1)%nat.
Definition chk_herm_reproduce (h : herm) : bool :=
  Nat.eqb (List.length (hN h)) (2 * List.length (hnodes h)) && Nat.eqb (List.length (hddN h)) (2 * List.length (hnodes h)) &&
  forallb (fun a => small_diff herm_tol (herm_interp a (hnodes h) (hN h)) (rpow a) &&
                    small_diff herm_tol (herm_interp a (hnodes h) (hddN h)) (d2_rpow a))
          (seq 0 (S (herm_degree h))).

Lemma all_herm_reproduce : forallb chk_herm_reproduce all_herm = true.
Proof. vm_cast_no_check (eq_refl true). Qed.

Theorem C01_hermite_reproduces_polynomials : forall h, In h all_herm -> forall a, (a <= herm_degree h)%nat ->
  (exists p : poly, (forall l : list R, (Reval l (herm_interp a (hnodes h) (hN h)) - Reval l (rpow a))%R = Reval l (poly_pe p)) /\
                    (norm1 p <= herm_tol)%Q) /\
  (exists p : poly, (forall l : list R, (Reval l (herm_interp a (hnodes h) (hddN h)) - Reval l (d2_rpow a))%R = Reval l (poly_pe p)) /\
                    (norm1 p <= herm_tol)%Q).
Proof.
  intros h Hh a Ha. pose proof all_herm_reproduce as H. rewrite forallb_forall in H. specialize (H h Hh).
  unfold chk_herm_reproduce in H. apply andb_true_iff in H as [_ H]. rewrite forallb_forall in H.
  assert (Hin : In a (seq 0 (S (herm_degree h)))) by (apply in_seq; lia).
  specialize (H a Hin). apply andb_true_iff in H as [H1 H2].
  split; [now apply small_diff_spec | now apply small_diff_spec].
Qed.

(* exact (zero difference) for the families whose tables have exact rational coefficients *)
Definition exactly_reproducing : list string :=
  Eval vm_compute in map hname (filter (fun h => forallb (fun a =>
       pe_eqb (herm_interp a (hnodes h) (hN h)) (rpow a) && pe_eqb (herm_interp a (hnodes h) (hddN h)) (d2_rpow a))
     (seq 0 (S (herm_degree h)))) all_herm).

Example herm_reproduce_nonvacuous : List.length all_herm = 4%nat /\ herm_degree h_EULER_BERNOULLI2 = 3%nat.
Proof. split; reflexivity. Qed.

Print Assumptions C01_hermite_reproduces_polynomials.
