(* C01_patch.v — the patch-test statements at assembly level (abstract assembly of
   EFLib.C02_QuadForm / EFLib.C01_Iso), restated under the property's names. *)
From Coq Require Import Reals List Lia Lra.
From EFLib Require Import C02_QuadForm C01_Iso.
Import ListNotations.
Open Scope R_scope.

(* residual of a field whose strain samples are the same vector s in every element:
   (K u)_I = sum_a (C s)_a * Dint I a,  Dint = assembled integral of the B column of dof I *)
Theorem C01_patch_residual : forall (ns N : nat) (C : nat -> nat -> R) (els : list pel),
  (forall e, In e els -> forall i, (i < p_nd e)%nat -> (p_P e i < N)%nat) ->
  forall u s I,
  (forall e, In e els -> forall p, In p (p_pts e) -> forall a, (a < ns)%nat ->
      strain (p_nd e) p (gather (to_el ns C e) u) a = s a) ->
  mv N (Kglob ns C els) u I = sumn ns (fun a => mv ns C s a * Dint els I a).
Proof. intros ns N C els HP u s I Hs. now apply patch_residual. Qed.

(* PARTIAL.  Full statement wanted: on every conforming mesh of a polygonal/polyhedral domain,
   (K u_lin)_I = 0 at every interior dof I.  Proved: it holds at every dof whose assembled integrated
   B column vanishes (hypothesis HD: the discrete divergence theorem at I).  HD is a fact about the
   mesh + quadrature that this development does NOT formalise; the correspondence run evaluates
   K u_lin at the interior dofs of every generated mesh. *)
Theorem C01_patch_equilibrium_partial : forall (ns N : nat) (C : nat -> nat -> R) (els : list pel),
  (forall e, In e els -> forall i, (i < p_nd e)%nat -> (p_P e i < N)%nat) ->
  forall u s I,
  (forall e, In e els -> forall p, In p (p_pts e) -> forall a, (a < ns)%nat ->
      strain (p_nd e) p (gather (to_el ns C e) u) a = s a) ->
  (forall a, (a < ns)%nat -> Dint els I a = 0) ->
  mv N (Kglob ns C els) u I = 0.
Proof. intros ns N C els HP u s I Hs HD. now apply (patch_equilibrium_partial ns N C els HP u s I). Qed.

(* the eliminated solve returns the linear field: any x equal to u on the constrained dofs with
   zero residual on the free dofs is u, provided the reduced operator is injective (C02) *)
Theorem C01_patch_solution_unique : forall (ns N : nat) (C : nat -> nat -> R) (els : list pel)
  (free : nat -> bool) u x,
  (forall z, (forall I, (I < N)%nat -> free I = false -> z I = 0) ->
             (forall I, (I < N)%nat -> free I = true -> mv N (Kglob ns C els) z I = 0) ->
             forall I, (I < N)%nat -> z I = 0) ->
  (forall I, (I < N)%nat -> free I = false -> x I = u I) ->
  (forall I, (I < N)%nat -> free I = true -> mv N (Kglob ns C els) u I = 0) ->
  (forall I, (I < N)%nat -> free I = true -> mv N (Kglob ns C els) x I = 0) ->
  forall I, (I < N)%nat -> x I = u I.
Proof. intros ns N C els free u x. apply patch_solution_unique. Qed.

(* energy reported for a field of constant strain s: x'K_e x = (sum_p w_p|J_p|) * s'Cs, so the
   assembled energy is (sum of the element measures as integrated by the rule) * s'Cs *)
Theorem C01_energy_constant_strain : forall ns nd C pts x s,
  (forall p, In p pts -> forall a, (a < ns)%nat -> strain nd p x a = s a) ->
  bil nd (Ke ns C pts) x x = sumL pts gw * bilC ns C s s.
Proof. intros. now apply Ke_energy_const_strain. Qed.

(* non-vacuity: the divergence hypothesis holds at the middle node of two 2-node bars *)
Example C01_divergence_hyp_satisfiable : forall a, (a < 1)%nat -> Dint ex_bars 1 a = 0.
Proof. exact ex_divergence_hyp. Qed.

Print Assumptions C01_patch_residual.
Print Assumptions C01_patch_equilibrium_partial.
Print Assumptions C01_patch_solution_unique.
Print Assumptions C01_energy_constant_strain.
