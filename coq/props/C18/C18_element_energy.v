(* C18 — the discrete energy identity of the Gonzalez stress at ELEMENT and MESH level:
     f_int(u_mid) . (u1 - u0) = sum over Gauss points of w (W(u1) - W(u0)),
   composition of gonzalez_discrete_gradient (pointwise, C18_gonzalez) with element_midpoint_strain_increment
   (B(u_mid)(u1-u0) = KM(E1 - E0), C18_element).  The code's residual is R_j = sum_p w_p sum_i S_i B_ij
   (einsum "ep,epi,epij->ej"), so R . du = sum_p w_p S_p . (B_p du): the quantity fint_dot_du below. *)
From Coq Require Import Reals Lra List.
From EFModel Require Import C18_kinematics.
From EFP Require Import Gen_Gonzalez Gen_De C18_gonzalez C18_element.
Import ListNotations.
Open Scope R_scope.

(* one Gauss point of an element: weight (wJ, times the thickness in 2-D), the nodes with their shape-gradient values and
   nodal displacements at u_n / u_{n+1}, the energies at the two ends and ANY midpoint stress vector *)
Record gpt := { qw : R; qnodes : list nd; qW1 : R; qW0 : R; qs : list R }.

Definition dE_of (r2 : R) (q : gpt) : list R :=
  km r2 (mlin 1 (Eof (Fof u1 (qnodes q))) (-1) (Eof (Fof u0 (qnodes q)))).
Definition Bdu_of (cM : R) (q : gpt) : list R :=
  matvec (De3 cM (Fof (vlin (1/2) u0 (1/2) u1) (qnodes q))) (flat3 (gradu (vlin 1 u1 (-1) u0) (qnodes q))).
Definition Shat_of (r2 : R) (q : gpt) : list R := gz_Shat (qW1 q) (qW0 q) (qs q) (dE_of r2 q).

(* R_e . (u1 - u0) for the discrete-gradient residual of one element *)
Fixpoint fint_dot_du (r2 cM : R) (l : list gpt) : R :=
  match l with [] => 0 | q :: l' => qw q * dot (Shat_of r2 q) (Bdu_of cM q) + fint_dot_du r2 cM l' end.
Fixpoint stored (f : gpt -> R) (l : list gpt) : R :=
  match l with [] => 0 | q :: l' => qw q * f q + stored f l' end.

Definition gpt_ok (r2 : R) (q : gpt) : Prop :=
  length (qs q) = 6%nat /\ gz_eps0 < dot (dE_of r2 q) (dE_of r2 q).

Theorem element_energy_identity : forall (r2 cM : R) (l : list gpt), cM * 2 = r2 -> Forall (gpt_ok r2) l ->
  fint_dot_du r2 cM l = stored qW1 l - stored qW0 l.
Proof.
  intros r2 cM l Hc H. induction H as [|q l [Hl Hg] _ IH]; simpl. lra.
  rewrite IH. unfold Bdu_of. rewrite (element_midpoint_strain_increment (qnodes q) r2 cM Hc).
  fold (dE_of r2 q). unfold Shat_of. rewrite gonzalez_discrete_gradient; [ ring | rewrite Hl; reflexivity | exact Hg ].
Qed.

(* the whole mesh: a list of elements *)
Fixpoint mesh_sum (f : list gpt -> R) (es : list (list gpt)) : R :=
  match es with [] => 0 | e :: es' => f e + mesh_sum f es' end.

Theorem mesh_energy_identity : forall (r2 cM : R) (es : list (list gpt)), cM * 2 = r2 -> Forall (Forall (gpt_ok r2)) es ->
  mesh_sum (fint_dot_du r2 cM) es = mesh_sum (stored qW1) es - mesh_sum (stored qW0) es.
Proof.
  intros r2 cM es Hc H. induction H as [|e es He _ IH]; simpl. lra.
  rewrite IH, (element_energy_identity r2 cM e Hc He). ring.
Qed.

(* non-vacuity: one Gauss point, one node moved from rest; the guard is passed *)
Example element_energy_nonvacuous :
  let q := {| qw := 1; qnodes := [mknd 1 0 0 0 0 0 (1/10) 0 0]; qW1 := 3; qW0 := 1; qs := [1;2;3;4;5;6] |} in
  gpt_ok (sqrt 2) q.
Proof.
  intro q. split. reflexivity.
  assert (H1 : Fof u1 (qnodes q) = mk3 (11/10) 0 0 0 1 0 0 0 1).
  { unfold q, Fof, gradu, u1; cbn [qnodes ax ay az bx by_ bz gx gy gz]. unfold mlin, mid3, mzero; simpl. f_equal; field. }
  assert (H0 : Fof u0 (qnodes q) = mk3 1 0 0 0 1 0 0 0 1).
  { unfold q, Fof, gradu, u0; cbn [qnodes ax ay az bx by_ bz gx gy gz]. unfold mlin, mid3, mzero; simpl. f_equal; field. }
  unfold dE_of. rewrite H1, H0.
  assert (HE : mlin 1 (Eof (mk3 (11/10) 0 0 0 1 0 0 0 1)) (-1) (Eof (mk3 1 0 0 0 1 0 0 0 1)) = mk3 (21/200) 0 0 0 0 0 0 0 0).
  { unfold Eof, Cof, mmul, mtr, mlin, mid3; simpl. f_equal; field. }
  rewrite HE. unfold km, gz_eps0; simpl. lra.
Qed.

Print Assumptions mesh_energy_identity.
