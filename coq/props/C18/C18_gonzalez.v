(* C18 — the discrete-gradient (Gonzalez) stress of Operators.NonLinear.GonzalezStressTensor:
     N = (W1 - W0) - s.dE ; dEdE = dE.dE ; inv = 1/dEdE where dEdE > eps0 else 0 ;
     alpha = N * inv ; S_hat = s + alpha dE
   (the translator checks these five assignments textually on every run and emits eps0).
   Kelvin-Mandel vectors are lists of reals, the double contraction is the plain dot product. *)
From Coq Require Import Reals Lra List.
From EFP Require Import Gen_Gonzalez.
Import ListNotations.
Open Scope R_scope.

Fixpoint dot (a b : list R) : R :=
  match a, b with x :: a', y :: b' => x * y + dot a' b' | _, _ => 0 end.
Fixpoint vadd (a b : list R) : list R :=
  match a, b with x :: a', y :: b' => (x + y) :: vadd a' b' | _, _ => [] end.
Definition vscale (c : R) (a : list R) : list R := map (fun x => c * x) a.

Lemma dot_vadd : forall a b c, length a = length b -> dot (vadd a b) c = dot a c + dot b c.
Proof.
  induction a as [|x a IH]; intros [|y b] c H; try discriminate; simpl. lra.
  destruct c as [|z c]; simpl. lra. rewrite IH by (simpl in H; congruence). ring.
Qed.
Lemma dot_vscale : forall k a c, dot (vscale k a) c = k * dot a c.
Proof. induction a as [|x a IH]; intros c; simpl. ring. destruct c as [|z c]. ring. rewrite IH. ring. Qed.
Lemma length_vscale k a : length (vscale k a) = length a.
Proof. apply map_length. Qed.

Definition gz_N (W1 W0 : R) (s dE : list R) : R := (W1 - W0) - dot s dE.
Definition gz_inv (d : R) : R := if Rlt_dec gz_eps0 d then 1 / d else 0.
Definition gz_alpha (W1 W0 : R) (s dE : list R) : R := gz_N W1 W0 s dE * gz_inv (dot dE dE).
Definition gz_Shat (W1 W0 : R) (s dE : list R) : list R := vadd s (vscale (gz_alpha W1 W0 s dE) dE).

(* S_hat : dE = W(E1) - W(E0), for ANY midpoint stress s and ANY energy values *)
Theorem gonzalez_discrete_gradient : forall W1 W0 s dE,
  length s = length dE -> gz_eps0 < dot dE dE ->
  dot (gz_Shat W1 W0 s dE) dE = W1 - W0.
Proof.
  intros W1 W0 s dE Hl Hd. unfold gz_Shat. rewrite dot_vadd by (now rewrite length_vscale).
  rewrite dot_vscale. unfold gz_alpha, gz_inv, gz_N. destruct (Rlt_dec gz_eps0 (dot dE dE)) as [_|n]; [|contradiction].
  assert (0 <= gz_eps0) by (unfold gz_eps0; lra). field. lra.
Qed.

(* below the guard the correction is switched off: S_hat = s and the identity is not enforced *)
Lemma gonzalez_guard : forall W1 W0 s dE, length s = length dE -> dot dE dE <= gz_eps0 ->
  dot (gz_Shat W1 W0 s dE) dE = dot s dE.
Proof.
  intros W1 W0 s dE Hl Hd. unfold gz_Shat. rewrite dot_vadd by (now rewrite length_vscale).
  rewrite dot_vscale. unfold gz_alpha, gz_inv. destruct (Rlt_dec gz_eps0 (dot dE dE)); [lra|ring].
Qed.

(* Below the guard NOTHING is enforced by the code: S_hat = s and the defect of the discrete-gradient identity is exactly
   the midpoint-rule remainder W1 - W0 - s.dE (gonzalez_below_guard_defect).  No unconditional bound in terms of eps0 exists
   (W1, W0, s are arbitrary inputs of the formula); the only bound is conditional: IF the remainder is second order,
   |W1 - W0 - s.dE| <= M (dE.dE)  (for a smooth energy M is of the order of the third derivative of W times |dE|),
   THEN the defect per Gauss point is <= M eps0. *)
Theorem gonzalez_below_guard_defect : forall W1 W0 s dE, length s = length dE -> dot dE dE <= gz_eps0 ->
  dot (gz_Shat W1 W0 s dE) dE - (W1 - W0) = - (W1 - W0 - dot s dE).
Proof. intros. rewrite gonzalez_guard by assumption. ring. Qed.

Theorem gonzalez_below_guard_bound : forall W1 W0 s dE M, length s = length dE -> dot dE dE <= gz_eps0 -> 0 <= M ->
  Rabs (W1 - W0 - dot s dE) <= M * dot dE dE ->
  Rabs (dot (gz_Shat W1 W0 s dE) dE - (W1 - W0)) <= M * gz_eps0.
Proof.
  intros W1 W0 s dE M Hl Hd HM Hb. rewrite gonzalez_below_guard_defect by assumption. rewrite Rabs_Ropp.
  eapply Rle_trans; [exact Hb|]. apply Rmult_le_compat_l; assumption.
Qed.

(* the guard can be hit with a non-zero defect: the identity genuinely fails there (so the hypothesis of
   gonzalez_discrete_gradient cannot be dropped) *)
Example gonzalez_guard_defect_nonzero :
  dot [0;0;0] [0;0;0] <= gz_eps0 /\ dot (gz_Shat 1 0 [1;1;1] [0;0;0]) [0;0;0] <> 1 - 0.
Proof. split. unfold gz_eps0; simpl; lra. rewrite gonzalez_guard; [simpl; lra | reflexivity | unfold gz_eps0; simpl; lra]. Qed.

Example gonzalez_nonvacuous : gz_eps0 < dot [1;0;0] [1;0;0] /\ dot (gz_Shat 5 2 [7;1;1] [1;0;0]) [1;0;0] = 5 - 2.
Proof. split. unfold gz_eps0; simpl; lra. apply gonzalez_discrete_gradient. reflexivity. unfold gz_eps0; simpl; lra. Qed.

(* assembled over the Gauss points of a mesh: weights w, per-point data *)
Record gp := { gw : R; gW1 : R; gW0 : R; gs : list R; gdE : list R }.
Definition gp_ok (g : gp) : Prop := length (gs g) = length (gdE g) /\ gz_eps0 < dot (gdE g) (gdE g).
Fixpoint wsum (f : gp -> R) (l : list gp) : R := match l with [] => 0 | g :: l' => gw g * f g + wsum f l' end.

Theorem assembled_discrete_gradient : forall l, Forall gp_ok l ->
  wsum (fun g => dot (gz_Shat (gW1 g) (gW0 g) (gs g) (gdE g)) (gdE g)) l = wsum gW1 l - wsum gW0 l.
Proof.
  induction 1 as [|g l [Hl Hd] _ IH]; simpl. lra.
  rewrite IH, gonzalez_discrete_gradient by assumption. ring.
Qed.

Print Assumptions gonzalez_discrete_gradient.
Print Assumptions assembled_discrete_gradient.
Print Assumptions gonzalez_below_guard_bound.
