(* C18 — element-level form of the midpoint identity used by midpoint_energy_partial:
     B(u_mid) (u1 - u0) = Kelvin-Mandel (E(u1) - E(u0))          at every Gauss point,
   for the interpolated kinematics, abstractly over the shape-gradient values:
     grad u = sum_a u_a (x) g_a   (g_a = cartesian gradient of the a-th shape function at the point),
     F(u) = I + grad u,  B(u) = De(F(u)) . grad-operator,  De translated from __Build_De (Gen_De.v). *)
From Coq Require Import Reals Lra List.
From EFModel Require Import C18_kinematics.
From EFP Require Import Gen_De.
Import ListNotations.
Open Scope R_scope.

(* one node of the element at a fixed Gauss point: shape gradient g and the two nodal displacements *)
Record nd := mknd { gx : R; gy : R; gz : R; ax : R; ay : R; az : R; bx : R; by_ : R; bz : R }.

Definition vec := (R * R * R)%type.
Definition u0 (n : nd) : vec := (ax n, ay n, az n).
Definition u1 (n : nd) : vec := (bx n, by_ n, bz n).
Definition vlin (a : R) (f : nd -> vec) (b : R) (h : nd -> vec) (n : nd) : vec :=
  let '(x, y, z) := f n in let '(x', y', z') := h n in (a * x + b * x', a * y + b * y', a * z + b * z').

Definition mzero : M3 := mk3 0 0 0 0 0 0 0 0 0.
(* (grad u)_ij = sum_a u_a,i * g_a,j *)
Fixpoint gradu (f : nd -> vec) (l : list nd) : M3 :=
  match l with
  | [] => mzero
  | n :: l' => let '(x, y, z) := f n in
               mlin 1 (mk3 (x * gx n) (x * gy n) (x * gz n) (y * gx n) (y * gy n) (y * gz n) (z * gx n) (z * gy n) (z * gz n)) 1 (gradu f l')
  end.
Definition Fof (f : nd -> vec) (l : list nd) : M3 := mlin 1 mid3 1 (gradu f l).

Lemma gradu_lin a f b h l : gradu (vlin a f b h) l = mlin a (gradu f l) b (gradu h l).
Proof.
  induction l as [|n l IH]; simpl.
  - unfold mlin, mzero; simpl. f_equal; ring.
  - unfold vlin at 1. destruct (f n) as [[x y] z]. destruct (h n) as [[x' y'] z']. rewrite IH.
    destruct (gradu f l), (gradu h l). unfold mlin; simpl. f_equal; ring.
Qed.

(* Kelvin-Mandel vector of a (symmetric) 3x3 matrix and row-major flattening of a gradient *)
Definition km (r2 : R) (A : M3) : list R := [m11 A; m22 A; m33 A; r2 * m23 A; r2 * m13 A; r2 * m12 A].
Definition flat3 (A : M3) : list R := [m11 A; m12 A; m13 A; m21 A; m22 A; m23 A; m31 A; m32 A; m33 A].
Fixpoint rdot (a b : list R) : R := match a, b with x :: a', y :: b' => x * y + rdot a' b' | _, _ => 0 end.
Definition matvec (Mx : list (list R)) (v : list R) : list R := map (fun row => rdot row v) Mx.

Ltac leq := repeat (match goal with |- _ :: _ = _ :: _ => apply (f_equal2 (@cons R)); [ field | ] end); try reflexivity.

(* the translated operator: De(G) . flat(grad w) = Kelvin-Mandel of sym(G^T grad w)   (cM = 2**(-1/2) = sqrt 2 / 2) *)
Theorem De3_is_sym_GT_grad : forall (G W : M3) (r2 cM : R), cM * 2 = r2 ->
  matvec (De3 cM G) (flat3 W) = km r2 (msym (mmul (mtr G) W)).
Proof.
  intros G W r2 cM H. subst r2. destruct G, W. unfold matvec, De3, flat3, km, msym, mlin, mmul, mtr; simpl.
  leq.
Qed.

Example cM_value : let cM := sqrt 2 / 2 in cM * 2 = sqrt 2 /\ cM = / sqrt 2.
Proof.
  simpl. split. field.
  assert (H : sqrt 2 * sqrt 2 = 2) by (apply sqrt_sqrt; lra).
  assert (sqrt 2 <> 0) by (intro E; rewrite E in H; lra).
  field_simplify_eq; [|assumption]. lra.
Qed.

(* B(u_mid) (u1 - u0) = KM (E(u1) - E(u0)) for ANY nodal values and ANY shape-gradient values *)
Theorem element_midpoint_strain_increment : forall (l : list nd) (r2 cM : R), cM * 2 = r2 ->
  let F0 := Fof u0 l in let F1 := Fof u1 l in
  let Fm := Fof (vlin (1/2) u0 (1/2) u1) l in           (* F at the midpoint displacement *)
  let dgrad := gradu (vlin 1 u1 (-1) u0) l in             (* grad of the displacement increment *)
  matvec (De3 cM Fm) (flat3 dgrad) = km r2 (mlin 1 (Eof F1) (-1) (Eof F0)).
Proof.
  intros l r2 cM H F0 F1 Fm dgrad.
  rewrite (De3_is_sym_GT_grad Fm dgrad r2 cM H). f_equal.
  assert (HFm : Fm = mlin (1/2) F0 (1/2) F1).
  { unfold Fm, F0, F1, Fof. rewrite gradu_lin. destruct (gradu u0 l), (gradu u1 l). unfold mlin, mid3; simpl. f_equal; field. }
  assert (Hd : dgrad = mlin 1 F1 (-1) F0).
  { unfold dgrad, F0, F1, Fof. rewrite gradu_lin. destruct (gradu u0 l), (gradu u1 l). unfold mlin, mid3; simpl. f_equal; ring. }
  rewrite HFm, Hd. symmetry. apply midpoint_strain_increment.
Qed.

(* plane strain (dim = 2): the 3x4 operator acts on the in-plane gradient; same identity on the xx, yy, xy rows *)
Definition flat2 (A : M3) : list R := [m11 A; m12 A; m21 A; m22 A].
Theorem De2_is_sym_GT_grad : forall (G W : M3) (r2 cM : R), cM * 2 = r2 ->
  m13 W = 0 -> m23 W = 0 -> m31 W = 0 -> m32 W = 0 -> m33 W = 0 ->
  m13 G = 0 -> m23 G = 0 -> m31 G = 0 -> m32 G = 0 ->
  matvec (De2 cM G) (flat2 W) =
  let A := msym (mmul (mtr G) W) in [m11 A; m22 A; r2 * m12 A].
Proof.
  intros G W r2 cM H. subst r2. destruct G, W. simpl. intros; subst.
  unfold matvec, De2, flat2, msym, mlin, mmul, mtr; simpl. leq.
Qed.

Print Assumptions element_midpoint_strain_increment.
