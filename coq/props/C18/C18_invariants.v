(* C18 — invariant_derivs: the hand-typed dIkdC / d2IkdC tables of HyperElasticState are the
   derivatives of the invariant polynomials with respect to the Kelvin-Mandel coordinates of C,
   for all values of the components (and of the direction vectors), given r2 * r2 = 2. *)
From Coq Require Import QArith Qreals Reals Ring_polynom List Bool Lia Lra.
From EFLib Require Import PolyQ.
From EFModel Require Import C18_InvDefs.
From EFP Require Import Gen_HyperInv.
Import ListNotations.

Lemma all_invs_checked : forallb chk_inv all_invs = true.
Proof. vm_compute. reflexivity. Qed.

Theorem invariant_derivs : forall it, In it all_invs -> d1_spec it /\ d2_spec it.
Proof.
  intros it Hit. pose proof (forallb_In _ _ all_invs_checked it Hit) as H.
  unfold chk_inv in H. apply andb_true_iff in H. destruct H as [H1 H2].
  split; [now apply chk_d1_sound | now apply chk_d2_sound].
Qed.

(* the hypothesis r2*r2 = 2 is satisfiable by the value the code uses *)
Example r2_sqrt2 : let l := [0;0;0;0;0;0; sqrt 2]%R in (r2_of l * r2_of l = 2)%R.
Proof. simpl. unfold r2_of. simpl. apply sqrt_sqrt. lra. Qed.

(* I1, I2, I3 and the three anisotropic invariants are all present (non-vacuity) *)
Example invariants_present : map it_k all_invs = [1;2;3;4;6;8]%nat.
Proof. reflexivity. Qed.

(* chain_rule_complete, part 2: where a law leaves the term dWdIk * d2IkdC out of the tangent,
   the table d2IkdC is identically zero *)
Definition absent_ok (ks : list nat) : bool :=
  forallb (fun k => match find_inv all_invs k with Some it => d2_zero it | None => false end) ks.

Lemma first_absent_checked : forallb absent_ok all_first_absent = true.
Proof. vm_compute. reflexivity. Qed.

Theorem dropped_first_terms_vanish : forall ks, In ks all_first_absent -> forall k, In k ks ->
  exists it, find_inv all_invs k = Some it /\
  forall l row e, In row (it_d2 it) -> In e row -> Reval l e = 0%R.
Proof.
  intros ks Hks k Hk. pose proof (forallb_In _ _ first_absent_checked ks Hks) as H.
  unfold absent_ok in H. rewrite forallb_forall in H. specialize (H k Hk).
  destruct (find_inv all_invs k) as [it|]; [|discriminate].
  exists it. split; [reflexivity|]. now apply d2_zero_sound.
Qed.

(* 1-D / 2-D: the code keeps the Kelvin-Mandel rows/columns of the in-plane components
   (xx) resp. (xx, yy, xy) of the 3-D tables; C is padded with czz = 1, cyz = cxz = 0, so the
   reduced tables are the 3-D identities above instantiated at such l, restricted to these
   indices. *)
Example slices_are_inplane : slice_dim1 = [0]%nat /\ slice_dim2 = [0;1;5]%nat /\ slice_dim3 = [0;1;2;3;4;5]%nat /\
  mslice_dim1 = slice_dim1 /\ mslice_dim2 = slice_dim2 /\ mslice_dim3 = slice_dim3.
Proof. repeat split. Qed.
Example directions_zeroed : dir_zeroed_dim1 = [1;2]%nat /\ dir_zeroed_dim2 = [2]%nat.
Proof. repeat split. Qed.

Corollary invariant_derivs_2d : forall it, In it all_invs ->
  forall cxx cyy cxy r2 ax ay bx by_ : R, (r2 * r2 = 2)%R ->
  let l := [cxx; cyy; 1; 0; 0; cxy; r2; ax; ay; 0; bx; by_; 0]%R in
  forall j k, In j slice_dim2 -> In k slice_dim2 ->
  forall g row h, nth_error (it_d1 it) j = Some g -> nth_error (it_d2 it) j = Some row -> nth_error row k = Some h ->
  Reval l g = Reval l (km_pd j (it_I it)) /\ Reval l h = Reval l (km_pd k g).
Proof.
  intros it Hit cxx cyy cxy r2 ax ay bx by_ Hr l j k _ _ g row h Hg Hrow Hh.
  destruct (invariant_derivs it Hit) as [[_ H1] [_ H2]].
  assert (Hl : (r2_of l * r2_of l = 2)%R) by exact Hr.
  split. now apply H1. destruct (H2 l Hl j g row Hg Hrow) as [_ H3]. now apply H3.
Qed.

Print Assumptions invariant_derivs.
Print Assumptions dropped_first_terms_vanish.
Print Assumptions invariant_derivs_2d.
