(* C10 — Ke_objective in matrix form, 2-D (plane problems): for every orthogonal in-plane motion
   Q = [a | b] (rotations AND reflections), with the material moved along (C' = P C P^T, P = Get_Pmat(a, b)
   for 2-D axes), every 2x2 node-pair block of the element stiffness, integrated over any number of Gauss
   points with weights w_p |det J_p| and Jacobians J_p Q^T of the moved element, satisfies K' = Q K Q^T. *)
From Coq Require Import Reals List Lra Psatz Nsatz.
From EFLib Require Import C11_MatR.
From EFP Require Import Gen_Pmat C11_pmat C11_rot C10_base C10_strain.
Import ListNotations.
Open Scope R_scope.

Definition bf3 (C : mat) (x y : vec) : R := dot x (mv C y).
Definition Kblock2 (C Bn Bm : mat) : mat := mmul 2 (mtrans 2 Bn) (mmul 2 C Bm).

Lemma w3_expand M : wf 3 M -> exists a b c d e f g h i, M = [[a; b; c]; [d; e; f]; [g; h; i]].
Proof.
  intro H. destruct (wf3_inv M H) as (x1 & x2 & x3 & -> & L1 & L2 & L3).
  destruct (len3 _ L1) as (? & ? & ? & ->). destruct (len3 _ L2) as (? & ? & ? & ->).
  destruct (len3 _ L3) as (? & ? & ? & ->). repeat eexists.
Qed.

Lemma pmat2_wf : forall a1 a2 b1 b2 n1 n2 r2, wf 3 (pmat2 a1 a2 b1 b2 n1 n2 r2).
Proof. intros. split; [reflexivity | repeat constructor]. Qed.

Lemma bf3_invariant : forall P C x1 x2 x3 y1 y2 y3, wf 3 P -> wf 3 C ->
  mmul 3 (mtrans 3 P) P = ident 3 ->
  bf3 (apply_pmat_global 3 P C) (mv P [x1; x2; x3]) (mv P [y1; y2; y3]) = bf3 C [x1; x2; x3] [y1; y2; y3].
Proof.
  intros * HP HC HO.
  destruct (w3_expand P HP) as (p11&p12&p13&p21&p22&p23&p31&p32&p33&->).
  destruct (w3_expand C HC) as (c11&c12&c13&c21&c22&c23&c31&c32&c33&->).
  assert (E : forall e1 e2 e3, mv (mtrans 3 [[p11; p12; p13]; [p21; p22; p23]; [p31; p32; p33]])
                (mv [[p11; p12; p13]; [p21; p22; p23]; [p31; p32; p33]] [e1; e2; e3]) = [e1; e2; e3]).
  { revert HO. mat_cbv. intro HO. injection HO as A1 A2 A3 A4 A5 A6 A7 A8 A9. intros. clear HP HC. list_eq ltac:(nsatz). }
  transitivity (bf3 [[c11; c12; c13]; [c21; c22; c23]; [c31; c32; c33]]
     (mv (mtrans 3 [[p11; p12; p13]; [p21; p22; p23]; [p31; p32; p33]]) (mv [[p11; p12; p13]; [p21; p22; p23]; [p31; p32; p33]] [x1; x2; x3]))
     (mv (mtrans 3 [[p11; p12; p13]; [p21; p22; p23]; [p31; p32; p33]]) (mv [[p11; p12; p13]; [p21; p22; p23]; [p31; p32; p33]] [y1; y2; y3]))).
  - unfold bf3, apply_pmat_global. mat_cbv. ring.
  - now rewrite !E.
Qed.

Lemma Kblock2_bf : forall C r2 g1 g2 h1 h2 v1 v2 w1 w2, wf 3 C ->
  dot [v1; v2] (mv (Kblock2 C (Bnode2 r2 g1 g2) (Bnode2 r2 h1 h2)) [w1; w2])
  = bf3 C (mv (Bnode2 r2 g1 g2) [v1; v2]) (mv (Bnode2 r2 h1 h2) [w1; w2]).
Proof.
  intros * HC. destruct (w3_expand C HC) as (c11&c12&c13&c21&c22&c23&c31&c32&c33&->).
  unfold Kblock2, bf3, Bnode2. cbv zeta. set (c := 1 / r2). mat_cbv. ring.
Qed.

Definition is22 (A : mat) : Prop := exists a b c d, A = [[a; b]; [c; d]].

Lemma Kblock2_22 C r2 g1 g2 h1 h2 : wf 3 C -> is22 (Kblock2 C (Bnode2 r2 g1 g2) (Bnode2 r2 h1 h2)).
Proof.
  intro HC. destruct (w3_expand C HC) as (c11&c12&c13&c21&c22&c23&c31&c32&c33&->).
  unfold Kblock2, Bnode2. cbv zeta. mat_cbv. repeat eexists.
Qed.

Lemma bilinear_determines2 : forall A B, is22 A -> is22 B ->
  (forall v1 v2 w1 w2, dot [v1; v2] (mv A [w1; w2]) = dot [v1; v2] (mv B [w1; w2])) -> A = B.
Proof.
  intros A B (a11&a12&a21&a22&->) (b11&b12&b21&b22&->) H.
  pose proof (H 1 0 1 0) as E11. pose proof (H 1 0 0 1) as E12. pose proof (H 0 1 1 0) as E21. pose proof (H 0 1 0 1) as E22.
  revert E11 E12 E21 E22. mat_cbv. intros. list_eq ltac:(lra).
Qed.

Lemma apply3_wf P C : wf 3 P -> wf 3 C -> wf 3 (apply_pmat_global 3 P C).
Proof.
  intros HP HC. destruct (w3_expand P HP) as (p11&p12&p13&p21&p22&p23&p31&p32&p33&->).
  destruct (w3_expand C HC) as (c11&c12&c13&c21&c22&c23&c31&c32&c33&->).
  unfold apply_pmat_global. mat_cbv. split; [reflexivity | repeat constructor].
Qed.

Theorem Ke_block_objective2 : forall a1 a2 b1 b2 r2 C g1 g2 h1 h2, r2 * r2 = 2 ->
  unit_orth2 a1 a2 b1 b2 -> wf 3 C ->
  let Q := Qmat2 a1 a2 b1 b2 in let P := pmat2 a1 a2 b1 b2 1 1 r2 in
  let g' := mv Q [g1; g2] in let h' := mv Q [h1; h2] in
  Kblock2 (apply_pmat_global 3 P C) (Bnode2 r2 (lnth 0 g') (lnth 1 g')) (Bnode2 r2 (lnth 0 h') (lnth 1 h'))
  = mmul 2 Q (mmul 2 (Kblock2 C (Bnode2 r2 g1 g2) (Bnode2 r2 h1 h2)) (mtrans 2 Q)).
Proof.
  intros * Hr HO HC Q P g' h'.
  assert (HPw : wf 3 P) by apply pmat2_wf.
  assert (HC' : wf 3 (apply_pmat_global 3 P C)) by (apply apply3_wf; assumption).
  destruct (pmat2_orthogonal a1 a2 b1 b2 r2 Hr HO) as [_ HPtP].
  set (K' := Kblock2 (apply_pmat_global 3 P C) (Bnode2 r2 (lnth 0 g') (lnth 1 g')) (Bnode2 r2 (lnth 0 h') (lnth 1 h'))).
  set (K := Kblock2 C (Bnode2 r2 g1 g2) (Bnode2 r2 h1 h2)).
  assert (HK' : is22 K') by (apply Kblock2_22; exact HC').
  assert (HK : is22 K) by (apply Kblock2_22; exact HC).
  (* step 1: Q^T K' Q = K by polarisation *)
  assert (L : mmul 2 (mtrans 2 Q) (mmul 2 K' Q) = K).
  { apply bilinear_determines2.
    - destruct HK' as (k11&k12&k21&k22&E). rewrite E. unfold Q, Qmat2. mat_cbv. repeat eexists.
    - exact HK.
    - intros v1 v2 w1 w2.
      assert (E1 : dot [v1; v2] (mv (mmul 2 (mtrans 2 Q) (mmul 2 K' Q)) [w1; w2]) = dot (mv Q [v1; v2]) (mv K' (mv Q [w1; w2]))).
      { destruct HK' as (k11&k12&k21&k22&E). rewrite E. unfold Q, Qmat2. mat_cbv. ring. }
      rewrite E1. clear E1.
      set (v' := mv Q [v1; v2]). set (w' := mv Q [w1; w2]).
      assert (Ev : v' = [lnth 0 v'; lnth 1 v']) by reflexivity.
      assert (Ew : w' = [lnth 0 w'; lnth 1 w']) by reflexivity.
      rewrite Ev, Ew. unfold K'.
      rewrite (Kblock2_bf (apply_pmat_global 3 P C) r2 _ _ _ _ _ _ _ _ HC').
      pose proof (strain_moves2 a1 a2 b1 b2 r2 g1 g2 v1 v2 Hr) as S1.
      pose proof (strain_moves2 a1 a2 b1 b2 r2 h1 h2 w1 w2 Hr) as S2. cbv zeta in S1, S2.
      fold Q in S1, S2. fold P in S1, S2. fold g' in S1. fold h' in S2. fold v' in S1. fold w' in S2.
      rewrite <- Ev, <- Ew, S1, S2.
      set (e1 := mv (Bnode2 r2 g1 g2) [v1; v2]). set (e2 := mv (Bnode2 r2 h1 h2) [w1; w2]).
      assert (Ee1 : e1 = [lnth 0 e1; lnth 1 e1; lnth 2 e1]) by reflexivity.
      assert (Ee2 : e2 = [lnth 0 e2; lnth 1 e2; lnth 2 e2]) by reflexivity.
      rewrite Ee1, Ee2. rewrite (bf3_invariant P C _ _ _ _ _ _ HPw HC HPtP). rewrite <- Ee1, <- Ee2.
      unfold e1, e2, K. symmetry. apply Kblock2_bf. exact HC. }
  (* step 2: K' = Q K Q^T since Q Q^T = I *)
  rewrite <- L. destruct HK' as (k11&k12&k21&k22&E). rewrite E. clear - HO.
  destruct HO as (Ha & Hb & Hab). unfold Q, Qmat2. mat_cbv. list_eq ltac:(nsatz).
Qed.

(* ---- integration over Gauss points with the weights composed in *)
Fixpoint maddl (A B : mat) : mat :=
  match A, B with r :: A', s :: B' => vadd r s :: maddl A' B' | _, _ => [] end.
Definition mscalel (w : R) (A : mat) : mat := lmap (lmap (Rmult w)) A.

(* quadrature weight, 2x2 Jacobian, grad N_n, grad N_m *)
Definition qp2 := (R * (R * R * R * R) * (R * R) * (R * R))%type.
Definition det2 (J : mat) : R := entry J 0 0 * entry J 1 1 - entry J 0 1 * entry J 1 0.

Fixpoint Kint2 (C : mat) (r2 : R) (l : list qp2) : mat :=
  match l with
  | [] => [[0; 0]; [0; 0]]
  | (w, (j11, j12, j21, j22), (g1, g2), (h1, h2)) :: t =>
      maddl (mscalel (w * Rabs (det2 [[j11; j12]; [j21; j22]])) (Kblock2 C (Bnode2 r2 g1 g2) (Bnode2 r2 h1 h2))) (Kint2 C r2 t)
  end.
(* the moved element: Jacobians J Q^T, gradients Q g *)
Fixpoint Kint2_moved (C' Q : mat) (r2 : R) (l : list qp2) : mat :=
  match l with
  | [] => [[0; 0]; [0; 0]]
  | (w, (j11, j12, j21, j22), (g1, g2), (h1, h2)) :: t =>
      let g' := mv Q [g1; g2] in let h' := mv Q [h1; h2] in
      maddl (mscalel (w * Rabs (det2 (mmul 2 [[j11; j12]; [j21; j22]] (mtrans 2 Q))))
               (Kblock2 C' (Bnode2 r2 (lnth 0 g') (lnth 1 g')) (Bnode2 r2 (lnth 0 h') (lnth 1 h')))) (Kint2_moved C' Q r2 t)
  end.

Lemma Kint2_22 C r2 l : wf 3 C -> is22 (Kint2 C r2 l).
Proof.
  intro HC. induction l as [|[[[w [[[j11 j12] j21] j22]] [g1 g2]] [h1 h2]] t IH]; cbn [Kint2].
  - repeat eexists.
  - destruct IH as (y11&y12&y21&y22&->). destruct (Kblock2_22 C r2 g1 g2 h1 h2 HC) as (x11&x12&x21&x22&->).
    cbv [maddl mscalel vadd lmap]. repeat eexists.
Qed.

Theorem Ke_integrated_objective2 : forall a1 a2 b1 b2 r2 C l, r2 * r2 = 2 ->
  unit_orth2 a1 a2 b1 b2 -> wf 3 C ->
  let Q := Qmat2 a1 a2 b1 b2 in let P := pmat2 a1 a2 b1 b2 1 1 r2 in
  Kint2_moved (apply_pmat_global 3 P C) Q r2 l = mmul 2 Q (mmul 2 (Kint2 C r2 l) (mtrans 2 Q)).
Proof.
  intros * Hr HO HC Q P.
  assert (HdQ : (a1 * b2 - b1 * a2) * (a1 * b2 - b1 * a2) = 1).
  { destruct HO as (Ha & Hb & Hab).
    replace ((a1 * b2 - b1 * a2) * (a1 * b2 - b1 * a2))
      with ((a1 * a1 + a2 * a2) * (b1 * b1 + b2 * b2) - (a1 * b1 + a2 * b2) * (a1 * b1 + a2 * b2)) by ring.
    rewrite Ha, Hb, Hab. ring. }
  assert (HabsQ : Rabs (a1 * b2 - b1 * a2) = 1).
  { destruct (Rcase_abs (a1 * b2 - b1 * a2)) as [Hn|Hp].
    - rewrite (Rabs_left _ Hn). nra.
    - rewrite (Rabs_right _ Hp). nra. }
  induction l as [|[[[w [[[j11 j12] j21] j22]] [g1 g2]] [h1 h2]] t IH].
  - cbn. unfold Q, Qmat2. mat_cbv. list_eq ltac:(ring).
  - cbn [Kint2 Kint2_moved]. cbv zeta. rewrite IH.
    pose proof (Ke_block_objective2 a1 a2 b1 b2 r2 C g1 g2 h1 h2 Hr HO HC) as EK. cbv zeta in EK. fold Q in EK. fold P in EK. rewrite EK. clear EK.
    assert (Ed : Rabs (det2 (mmul 2 [[j11; j12]; [j21; j22]] (mtrans 2 Q))) = Rabs (det2 [[j11; j12]; [j21; j22]])).
    { replace (det2 (mmul 2 [[j11; j12]; [j21; j22]] (mtrans 2 Q))) with (det2 [[j11; j12]; [j21; j22]] * (a1 * b2 - b1 * a2))
        by (unfold det2, Q, Qmat2; mat_cbv; ring).
      rewrite Rabs_mult, HabsQ. ring. }
    rewrite Ed.
    destruct (Kint2_22 C r2 t HC) as (y11&y12&y21&y22&->).
    destruct (Kblock2_22 C r2 g1 g2 h1 h2 HC) as (x11&x12&x21&x22&->).
    unfold Q, Qmat2. cbv [maddl mscalel vadd]. mat_cbv. list_eq ltac:(ring).
Qed.

Example orth2_reflection_is_covered : unit_orth2 (3/5) (4/5) (4/5) (-3/5).
Proof. unfold unit_orth2. repeat split; lra. Qed.

Print Assumptions Ke_block_objective2.
Print Assumptions Ke_integrated_objective2.
