(* C10 — the isotropic stiffness is invariant under every change of basis P = Get_Pmat(a, b)
   with orthonormal axes: for isotropic materials the moved problem uses the same C. *)
From Coq Require Import Reals List Lra Psatz Nsatz.
From EFLib Require Import C11_MatR.
From EFP Require Import Gen_Pmat Gen_Laws.
Import ListNotations.
Open Scope R_scope.

Theorem iso_C_rotation_invariant : forall a1 a2 a3 b1 b2 b3 r2 E v, r2 * r2 = 2 ->
  a1 * a1 + a2 * a2 + a3 * a3 = 1 /\ b1 * b1 + b2 * b2 + b3 * b3 = 1 /\ a1 * b1 + a2 * b2 + a3 * b3 = 0 ->
  apply_pmat_global 6 (pmat3 a1 a2 a3 b1 b2 b3 1 1 r2) (iso_3d_C r2 E v) = iso_3d_C r2 E v.
Proof.
  intros * Hr (Ha & Hb & Hab).
  unfold iso_3d_C, iso_3d_cVoigt, km3, km_T3. cbv zeta.
  set (lam := iso_3d_get_lambda E v). set (mu := iso_3d_get_mu E v).
  unfold apply_pmat_global, pmat3. mat_cbv. try unfold Rdiv; rewrite ?Rinv_1.
  list_eq ltac:(nsatz).
Qed.

Print Assumptions iso_C_rotation_invariant.
