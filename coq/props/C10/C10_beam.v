(* C10 — beams: objectivity of the element matrix as the code builds it.
   EFP.Gen_Beam is regenerated from Models/Beam/_beam.py (_Calc_P) and FEM/Elems/_beam.py
   (_Compute_P_e_pg and the five `X = X @ P_e_pg` sites).

   The element matrices are K = T^T K_loc T (and M likewise) with T = blockdiag(blk, blk, ...),
   blk = beam_blk P the 3x3 block the code puts on the diagonal for every node and for both the
   translational and the rotational dofs.  Hence block (a,b) of K is  blk^T K_loc[a,b] blk  for
   the corresponding 3x3 block of K_loc: the statement below, for ALL 3x3 blocks Kb, is the
   objectivity of K and M for every beam element (2-5 nodes, Euler-Bernoulli and Timoshenko,
   2-D and 3-D) at once.
   (On a tree whose blocks are P instead of P^T this file does not compile; the driver then
   machine-checks the refutation with a 30-degree witness, C10_beam_refuted.v.) *)
From Coq Require Import Reals List Lra Psatz Nsatz.
From EFLib Require Import C11_MatR.
From EFP Require Import Gen_Beam C10_base.
Import ListNotations.
Open Scope R_scope.

Definition blockK (P Kb : mat) : mat := mmul 3 (mtrans 3 (beam_blk P)) (mmul 3 Kb (beam_blk P)).

(* rotating the beam by R (local axes P |-> R P) rotates every block: K' = R K R^T *)
Theorem beam_K_objective : forall P Rm Kb, wf3 P -> wf3 Rm -> wf3 Kb ->
  blockK (mmul 3 Rm P) Kb = mmul 3 (mmul 3 Rm (blockK P Kb)) (mtrans 3 Rm).
Proof.
  intros P Rm Kb HP HR HK.
  destruct (wf3_expand P HP) as (p11&p12&p13&p21&p22&p23&p31&p32&p33&->).
  destruct (wf3_expand Rm HR) as (r11&r12&r13&r21&r22&r23&r31&r32&r33&->).
  destruct (wf3_expand Kb HK) as (k11&k12&k13&k21&k22&k23&k31&k32&k33&->).
  unfold blockK, beam_blk. mat_cbv. list_eq ltac:(ring).
Qed.

(* with orthogonal P the local response is recovered: the beam "gives the same response in its
   own axes whatever its inclination":  P^T K P = K_loc *)
Theorem beam_K_local_response : forall P Kb, wf3 P -> wf3 Kb ->
  mmul 3 (mtrans 3 P) P = ident 3 -> mmul 3 P (mtrans 3 P) = ident 3 ->
  mmul 3 (mtrans 3 P) (mmul 3 (blockK P Kb) P) = Kb.
Proof.
  intros P Kb HP HK H1 H2.
  destruct (wf3_expand P HP) as (p11&p12&p13&p21&p22&p23&p31&p32&p33&->).
  destruct (wf3_expand Kb HK) as (k11&k12&k13&k21&k22&k23&k31&k32&k33&->).
  revert H1 H2. unfold blockK, beam_blk. mat_cbv. intros H1 H2.
  injection H1 as A1 A2 A3 A4 A5 A6 A7 A8 A9. injection H2 as B1 B2 B3 B4 B5 B6 B7 B8 B9.
  list_eq ltac:(nsatz).
Qed.

Print Assumptions beam_K_objective.
Print Assumptions beam_K_local_response.
