(* C10 — beams: (1) the frame computed by _Calc_P follows a rotation of the beam,
   (2) objectivity for the CORRECTED block formula (blocks P^T: K = P K_loc P^T), independent
   of what the source currently does, (3) what goes wrong with blocks P. *)
From Coq Require Import Reals List Lra Psatz Nsatz.
From EFLib Require Import C11_MatR.
From EFP Require Import Gen_Beam C10_base.
Import ListNotations.
Open Scope R_scope.

(* (1) _Calc_P of the rotated beam (fiber R i, section axis R j) is R * _Calc_P, for every
       proper rotation R (R^T R = I, det R = 1) — all angles, not only multiples of 90 degrees *)
Theorem calcP_rotates : forall r11 r12 r13 r21 r22 r23 r31 r32 r33 i1 i2 i3 j1 j2 j3 nk,
  orth3 r11 r12 r13 r21 r22 r23 r31 r32 r33 -> det3x3 r11 r12 r13 r21 r22 r23 r31 r32 r33 = 1 ->
  let Rm := rot3 r11 r12 r13 r21 r22 r23 r31 r32 r33 in
  let i' := mv Rm [i1; i2; i3] in let j' := mv Rm [j1; j2; j3] in
  beam_P (lnth 0 i') (lnth 1 i') (lnth 2 i') (lnth 0 j') (lnth 1 j') (lnth 2 j') nk
  = mmul 3 Rm (beam_P i1 i2 i3 j1 j2 j3 nk).
Proof.
  intros * (H1 & H2 & H3 & H4 & H5 & H6) HD. unfold det3x3 in HD. cbv zeta.
  unfold beam_P, rot3. mat_cbv. unfold Rdiv. set (w := / nk). list_eq ltac:(nsatz).
Qed.

(* the frame is orthonormal when i, j are unit and orthogonal (nk = |i x j| = 1) *)
Theorem calcP_orthonormal : forall i1 i2 i3 j1 j2 j3,
  i1 * i1 + i2 * i2 + i3 * i3 = 1 -> j1 * j1 + j2 * j2 + j3 * j3 = 1 -> i1 * j1 + i2 * j2 + i3 * j3 = 0 ->
  let P := beam_P i1 i2 i3 j1 j2 j3 1 in
  mmul 3 (mtrans 3 P) P = ident 3 /\ mmul 3 P (mtrans 3 P) = ident 3.
Proof.
  intros * Hi Hj Hij. cbv zeta. unfold beam_P. split; mat_cbv; unfold Rdiv; rewrite ?Rinv_1; list_eq ltac:(nsatz).
Qed.

(* (2) corrected formula: blocks P^T *)
Definition blockK_corrected (P Kb : mat) : mat := mmul 3 P (mmul 3 Kb (mtrans 3 P)).

Theorem beam_K_objective_corrected : forall P Rm Kb, wf3 P -> wf3 Rm -> wf3 Kb ->
  blockK_corrected (mmul 3 Rm P) Kb = mmul 3 (mmul 3 Rm (blockK_corrected P Kb)) (mtrans 3 Rm).
Proof.
  intros P Rm Kb HP HR HK.
  destruct (wf3_expand P HP) as (p11&p12&p13&p21&p22&p23&p31&p32&p33&->).
  destruct (wf3_expand Rm HR) as (r11&r12&r13&r21&r22&r23&r31&r32&r33&->).
  destruct (wf3_expand Kb HK) as (k11&k12&k13&k21&k22&k23&k31&k32&k33&->).
  unfold blockK_corrected. mat_cbv. list_eq ltac:(ring).
Qed.

(* (3) with blocks P the code computes the matrix of the beam rotated the OTHER way:
       K_code(P) = K_corrected(P^T) — correct only when P^T acts like P (multiples of 90 degrees
       up to signs), which is what the axis-aligned tests exercise *)
Definition blockK_uncorrected (P Kb : mat) : mat := mmul 3 (mtrans 3 P) (mmul 3 Kb P).

Theorem uncorrected_is_inverse_rotation : forall P Kb, wf3 P -> wf3 Kb ->
  blockK_uncorrected P Kb = blockK_corrected (mtrans 3 P) Kb.
Proof.
  intros P Kb HP HK.
  destruct (wf3_expand P HP) as (p11&p12&p13&p21&p22&p23&p31&p32&p33&->).
  destruct (wf3_expand Kb HK) as (k11&k12&k13&k21&k22&k23&k31&k32&k33&->).
  unfold blockK_uncorrected, blockK_corrected. mat_cbv. list_eq ltac:(ring).
Qed.

(* 30-degree witness: for the uncorrected formula objectivity fails *)
Theorem beam_objective_uncorrected_refuted :
  exists P Rm Kb, wf3 P /\ wf3 Rm /\ wf3 Kb /\
    mmul 3 (mtrans 3 Rm) Rm = ident 3 /\
    blockK_uncorrected (mmul 3 Rm P) Kb <> mmul 3 (mmul 3 Rm (blockK_uncorrected P Kb)) (mtrans 3 Rm).
Proof.
  set (c := sqrt 3 / 2). set (s := 1 / 2).
  assert (Hs3 : sqrt 3 * sqrt 3 = 3) by (apply sqrt_sqrt; lra).
  assert (Hp : 0 < sqrt 3) by (apply sqrt_lt_R0; lra).
  exists (ident 3), [[c; - s; 0]; [s; c; 0]; [0; 0; 1]], [[1; 0; 0]; [0; 2; 0]; [0; 0; 3]].
  assert (W : forall M : mat, length M = 3%nat -> Forall (fun r => length r = 3%nat) M -> wf3 M) by (intros; split; assumption).
  repeat split; try reflexivity; try (repeat constructor).
  - unfold c, s. mat_cbv. list_eq ltac:(nra).
  - intro H. apply (f_equal (fun M => entry M 0 1)) in H. revert H.
    unfold blockK_uncorrected, c, s. mat_cbv. intro H. nra.
Qed.

Print Assumptions calcP_rotates.
Print Assumptions beam_K_objective_corrected.
Print Assumptions beam_objective_uncorrected_refuted.
