(* C10 — continuum elements, part 1: per-node strain operator, strain of the moved element, energy
   density invariance (see C10_continuum.v for the rest). *)
From Coq Require Import Reals List Lra Psatz Nsatz.
From EFLib Require Import C11_MatR.
From EFP Require Import Gen_Pmat C11_pmat C11_rot C10_base.
Import ListNotations.
Open Scope R_scope.

(* componentwise sum of vectors *)
Fixpoint vadd (a b : vec) : vec :=
  match a, b with x :: a', y :: b' => (x + y) :: vadd a' b' | _, _ => [] end.

Definition Bnode3 (r2 gx gy gz : R) : mat :=
  let c := 1 / r2 in
  [[gx; 0; 0]; [0; gy; 0]; [0; 0; gz]; [0; gz * c; gy * c]; [gz * c; 0; gx * c]; [gy * c; gx * c; 0]].
Definition Bnode2 (r2 gx gy : R) : mat :=
  let c := 1 / r2 in [[gx; 0]; [0; gy]; [gy * c; gx * c]].

Lemma inv_r2 r2 : r2 * r2 = 2 -> 1 / r2 = r2 / 2.
Proof.
  intro H. assert (r2 <> 0) by (intro E; rewrite E in H; lra).
  apply Rmult_eq_reg_l with r2; [|assumption]. replace (r2 * (r2 / 2)) with (r2 * r2 / 2) by field.
  rewrite H. field. assumption.
Qed.

(* ---- strain of the moved element = Kelvin-Mandel rotation of the strain:
        B(Q g) (Q u) = P B(g) u     for ALL a, b (no orthonormality needed) *)
Theorem strain_moves3 : forall a1 a2 a3 b1 b2 b3 r2 gx gy gz ux uy uz, r2 * r2 = 2 ->
  let Q := Qmat3 a1 a2 a3 b1 b2 b3 in
  let g' := mv Q [gx; gy; gz] in let u' := mv Q [ux; uy; uz] in
  mv (Bnode3 r2 (lnth 0 g') (lnth 1 g') (lnth 2 g')) u'
  = mv (pmat3 a1 a2 a3 b1 b2 b3 1 1 r2) (mv (Bnode3 r2 gx gy gz) [ux; uy; uz]).
Proof.
  intros * Hr. cbv zeta. unfold Bnode3, Qmat3, pmat3. rewrite (inv_r2 r2 Hr). mat_cbv.
  unfold Rdiv. rewrite ?Rinv_1. set (h := / 2). assert (Hh : 2 * h = 1) by (unfold h; field).
  list_eq ltac:(nsatz).
Qed.

Theorem strain_moves2 : forall a1 a2 b1 b2 r2 gx gy ux uy, r2 * r2 = 2 ->
  let Q := Qmat2 a1 a2 b1 b2 in
  let g' := mv Q [gx; gy] in let u' := mv Q [ux; uy] in
  mv (Bnode2 r2 (lnth 0 g') (lnth 1 g')) u'
  = mv (pmat2 a1 a2 b1 b2 1 1 r2) (mv (Bnode2 r2 gx gy) [ux; uy]).
Proof.
  intros * Hr. cbv zeta. unfold Bnode2, Qmat2, pmat2. rewrite (inv_r2 r2 Hr). mat_cbv.
  unfold Rdiv. rewrite ?Rinv_1. set (h := / 2). assert (Hh : 2 * h = 1) by (unfold h; field).
  list_eq ltac:(nsatz).
Qed.

(* ---- energy density: with the material moved along (C' = P C P^T = Apply_Pmat(P, C)) and P
        orthogonal (C11.pmat3_orthogonal), eps'^T C' eps' = eps^T C eps *)
Lemma mv_PtP : forall P x, wf 6 P -> length x = 6%nat ->
  mv (mmul 6 (mtrans 6 P) P) x = mv (mtrans 6 P) (mv P x).
Proof.
  intros P x HP Hx.
  destruct (wf6_expand P HP) as (p11&p12&p13&p14&p15&p16&p21&p22&p23&p24&p25&p26&p31&p32&p33&p34&p35&p36&
    p41&p42&p43&p44&p45&p46&p51&p52&p53&p54&p55&p56&p61&p62&p63&p64&p65&p66&->).
  destruct (len6 x Hx) as (x1&x2&x3&x4&x5&x6&->).
  mat_cbv. list_eq ltac:(ring).
Qed.

Theorem energy_invariant : forall P C e, wf 6 P -> wf 6 C -> length e = 6%nat ->
  mmul 6 (mtrans 6 P) P = ident 6 ->
  qf (apply_pmat_global 6 P C) (mv P e) = qf C e.
Proof.
  intros P C e HP HC He HO.
  assert (Hl : length (mv P e) = 6%nat).
  { destruct (wf6_expand P HP) as (p11&p12&p13&p14&p15&p16&p21&p22&p23&p24&p25&p26&p31&p32&p33&p34&p35&p36&
      p41&p42&p43&p44&p45&p46&p51&p52&p53&p54&p55&p56&p61&p62&p63&p64&p65&p66&->). reflexivity. }
  rewrite (qf_congruence P C (mv P e) HP HC Hl).
  rewrite <- (mv_PtP P e HP He), HO.
  destruct (len6 e He) as (x1&x2&x3&x4&x5&x6&->).
  f_equal. mat_cbv. list_eq ltac:(ring).
Qed.

Lemma pmat3_wf : forall a1 a2 a3 b1 b2 b3 n1 n2 r2, wf 6 (pmat3 a1 a2 a3 b1 b2 b3 n1 n2 r2).
Proof. intros. split; [reflexivity | repeat constructor]. Qed.

