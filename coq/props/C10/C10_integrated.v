(* C10 — the INTEGRATED element-stiffness blocks of the moved element, with the quadrature weights
   composed in:  K_nm = sum_p w_p |det J_p| B_n(p)^T C B_m(p).
   For the moved element the Jacobian at each Gauss point is J_p Q^T (C10_continuum.jacobian_moves3),
   its determinant det J_p * det Q (computed here from the matrix product, no side lemma), and
   det Q = 1 for Q = [a | b | a x b] with unit orthogonal a, b.  Hence, with the moved material
   C' = Apply_Pmat(Get_Pmat(a, b), C):
        K'_nm = Q K_nm Q^T
   for every node pair, any number of Gauss points, all Jacobians, gradients and weights. *)
From Coq Require Import Reals List Lra Psatz Nsatz.
From EFLib Require Import C11_MatR.
From EFP Require Import Gen_Pmat C11_pmat C11_rot C10_base C10_strain C10_matrix.
Import ListNotations.
Open Scope R_scope.

Definition det_of (J : mat) : R :=
  det3x3 (entry J 0 0) (entry J 0 1) (entry J 0 2) (entry J 1 0) (entry J 1 1) (entry J 1 2)
         (entry J 2 0) (entry J 2 1) (entry J 2 2).

(* quadrature weight, Jacobian matrix (9 entries), grad N_n, grad N_m at a Gauss point *)
Definition qp := (R * (R * R * R * R * R * R * R * R * R) * (R * R * R) * (R * R * R))%type.
Definition Jmat (j : R * R * R * R * R * R * R * R * R) : mat :=
  let '(j11, j12, j13, j21, j22, j23, j31, j32, j33) := j in rot3 j11 j12 j13 j21 j22 j23 j31 j32 j33.

Definition to_gp (Jof : mat -> mat) (Q : mat) (moved : bool) (p : qp) : gp :=
  let '(w, j, (g1, g2, g3), (h1, h2, h3)) := p in
  if moved then
    let g' := mv Q [g1; g2; g3] in let h' := mv Q [h1; h2; h3] in
    (w * Rabs (det_of (Jof (Jmat j))), (lnth 0 g', lnth 1 g', lnth 2 g'), (lnth 0 h', lnth 1 h', lnth 2 h'))
  else (w * Rabs (det_of (Jmat j)), (g1, g2, g3), (h1, h2, h3)).

(* element blocks: original element, and moved element whose Jacobians are J Q^T *)
Definition Kint (C : mat) (r2 : R) (l : list qp) : mat := Ksum C r2 (map (to_gp (fun J => J) [] false) l).
Definition Kint_moved (C' Q : mat) (r2 : R) (l : list qp) : mat :=
  Ksum C' r2 (map (to_gp (fun J => mmul 3 J (mtrans 3 Q)) Q true) l).

Lemma detQ_one : forall a1 a2 a3 b1 b2 b3, unit_orth3 a1 a2 a3 b1 b2 b3 ->
  det_of (Qmat3 a1 a2 a3 b1 b2 b3) = 1.
Proof. intros * (Ha & Hb & Hab). unfold det_of, det3x3, Qmat3. mat_cbv. nsatz. Qed.

Lemma det_moved : forall a1 a2 a3 b1 b2 b3 j, unit_orth3 a1 a2 a3 b1 b2 b3 ->
  det_of (mmul 3 (Jmat j) (mtrans 3 (Qmat3 a1 a2 a3 b1 b2 b3))) = det_of (Jmat j).
Proof.
  intros * HO. destruct j as [[[[[[[[j11 j12] j13] j21] j22] j23] j31] j32] j33].
  pose proof (detQ_one _ _ _ _ _ _ HO) as HD. revert HD.
  unfold Jmat, det_of, det3x3, Qmat3, rot3. mat_cbv. intro HD.
  match goal with |- ?L = ?Rr => assert (E : L = Rr * 1) end; [rewrite <- HD; ring | rewrite E; ring].
Qed.

Theorem Ke_integrated_objective3 : forall a1 a2 a3 b1 b2 b3 r2 C l, r2 * r2 = 2 ->
  unit_orth3 a1 a2 a3 b1 b2 b3 -> wf 6 C ->
  let Q := Qmat3 a1 a2 a3 b1 b2 b3 in let P := pmat3 a1 a2 a3 b1 b2 b3 1 1 r2 in
  Kint_moved (apply_pmat_global 6 P C) Q r2 l = mmul 3 Q (mmul 3 (Kint C r2 l) (mtrans 3 Q)).
Proof.
  intros * Hr HO HC Q P. unfold Kint_moved, Kint.
  rewrite <- (Ke_block_sum_objective3 a1 a2 a3 b1 b2 b3 r2 C _ Hr HO HC). fold Q. fold P.
  f_equal. rewrite map_map. apply map_ext. intros [[[w j] [[g1 g2] g3]] [[h1 h2] h3]].
  unfold to_gp, move_gp. unfold Q. rewrite (det_moved a1 a2 a3 b1 b2 b3 j HO). reflexivity.
Qed.

Example Kint_nonvacuous : Kint (ident 6) 1 [(2, (1, 0, 0, 0, 1, 0, 0, 0, -3), (1, 0, 0), (1, 0, 0))] = [[6; 0; 0]; [0; 6; 0]; [0; 0; 6]].
Proof.
  unfold Kint, Ksum, to_gp, Jmat, det_of, det3x3, rot3, Kblock, Bnode3, madd3, mscale3, zero3, vadd. cbn [map]. cbv zeta. mat_cbv.
  replace (1 * (1 * -3 - 0 * 0) - 0 * (0 * -3 - 0 * 0) + 0 * (0 * 0 - 1 * 0)) with (-3) by ring.
  rewrite Rabs_left by lra. list_eq ltac:(field).
Qed.

Print Assumptions Ke_integrated_objective3.
