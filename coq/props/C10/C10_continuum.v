(* C10 — continuum elements: frame indifference of the element operators, for all node
   coordinates / shape-function gradients / nodal values.
   Rotations are parametrised by their first two columns a, b (Q = [a | b | a x b], as Get_Pmat
   does); every proper rotation has this form.  P = Get_Pmat(a, b) is the regenerated
   EFP.Gen_Pmat.pmat3 (C11).  Bnode is the per-node block of Get_B_e_pg
   (EasyFEA/FEM/_group_elem.py:1285-1310, transcribed; compared with the implementation in the
   correspondence run). *)
From Coq Require Import Reals List Lra Psatz Nsatz.
From EFLib Require Import C11_MatR.
From EFP Require Import Gen_Pmat C11_pmat C11_rot C10_base.
From EFP Require Export C10_strain.
Import ListNotations.
Open Scope R_scope.

(* ---- Ke_objective (energy form, one Gauss point, any number of nodes):
   the strain of the moved element with moved nodal displacements is P * strain, by
   linearity over the nodes; hence  u'^T K_e' u' = u^T K_e u  with the moved material, i.e.
   K_e' = R^ K_e R^^T (polarisation of the symmetric forms is not formalised: partial). *)

Definition node3 := (R * R * R * R * R * R)%type.    (* gx gy gz ux uy uz *)
Fixpoint strain3 (r2 : R) (l : list node3) : vec :=
  match l with
  | [] => [0; 0; 0; 0; 0; 0]
  | (gx, gy, gz, ux, uy, uz) :: t => vadd (mv (Bnode3 r2 gx gy gz) [ux; uy; uz]) (strain3 r2 t)
  end.
Definition move_node3 (Q : mat) (n : node3) : node3 :=
  let '(gx, gy, gz, ux, uy, uz) := n in
  let g' := mv Q [gx; gy; gz] in let u' := mv Q [ux; uy; uz] in
  (lnth 0 g', lnth 1 g', lnth 2 g', lnth 0 u', lnth 1 u', lnth 2 u').

Lemma strain3_len r2 l : length (strain3 r2 l) = 6%nat.
Proof. induction l as [|[[[[[gx gy] gz] ux] uy] uz] t IH]; [reflexivity|]. cbn [strain3].
  destruct (len6 _ IH) as (?&?&?&?&?&?&->). reflexivity. Qed.

Lemma mv_vadd6 : forall P x y, wf 6 P -> length x = 6%nat -> length y = 6%nat ->
  mv P (vadd x y) = vadd (mv P x) (mv P y).
Proof.
  intros P x y HP Hx Hy.
  destruct (wf6_expand P HP) as (p11&p12&p13&p14&p15&p16&p21&p22&p23&p24&p25&p26&p31&p32&p33&p34&p35&p36&
    p41&p42&p43&p44&p45&p46&p51&p52&p53&p54&p55&p56&p61&p62&p63&p64&p65&p66&->).
  destruct (len6 x Hx) as (x1&x2&x3&x4&x5&x6&->). destruct (len6 y Hy) as (y1&y2&y3&y4&y5&y6&->).
  cbv [vadd]. mat_cbv. list_eq ltac:(ring).
Qed.


Theorem strain_of_moved_element3 : forall a1 a2 a3 b1 b2 b3 r2 l, r2 * r2 = 2 ->
  strain3 r2 (map (move_node3 (Qmat3 a1 a2 a3 b1 b2 b3)) l)
  = mv (pmat3 a1 a2 a3 b1 b2 b3 1 1 r2) (strain3 r2 l).
Proof.
  intros * Hr. induction l as [|[[[[[gx gy] gz] ux] uy] uz] t IH].
  - cbn [map strain3]. unfold pmat3. mat_cbv. list_eq ltac:(ring).
  - cbn [map strain3 move_node3]. rewrite IH.
    pose proof (strain_moves3 a1 a2 a3 b1 b2 b3 r2 gx gy gz ux uy uz Hr) as E. cbv zeta in E.
    match goal with |- vadd ?X _ = _ =>
      replace X with (mv (pmat3 a1 a2 a3 b1 b2 b3 1 1 r2) (mv (Bnode3 r2 gx gy gz) [ux; uy; uz]))
        by (rewrite <- E; reflexivity) end.
    symmetry. apply mv_vadd6; [apply pmat3_wf | reflexivity | apply strain3_len].
Qed.

Theorem Ke_objective_energy_partial : forall a1 a2 a3 b1 b2 b3 r2 C l, r2 * r2 = 2 ->
  unit_orth3 a1 a2 a3 b1 b2 b3 -> wf 6 C ->
  let P := pmat3 a1 a2 a3 b1 b2 b3 1 1 r2 in
  qf (apply_pmat_global 6 P C) (strain3 r2 (map (move_node3 (Qmat3 a1 a2 a3 b1 b2 b3)) l))
  = qf C (strain3 r2 l).
Proof.
  intros * Hr HO HC P. rewrite (strain_of_moved_element3 a1 a2 a3 b1 b2 b3 r2 l Hr).
  apply energy_invariant; [apply pmat3_wf | exact HC | apply strain3_len |].
  apply (pmat3_orthogonal a1 a2 a3 b1 b2 b3 r2 Hr HO).
Qed.

(* ---- thermal / scalar problems: grad N_n . grad N_m is unchanged by any orthogonal R
        (rotations and reflections) *)
Theorem thermal_Ke_invariant3 : forall r11 r12 r13 r21 r22 r23 r31 r32 r33 g1 g2 g3 h1 h2 h3,
  orth3 r11 r12 r13 r21 r22 r23 r31 r32 r33 ->
  let Rm := rot3 r11 r12 r13 r21 r22 r23 r31 r32 r33 in
  dot (mv Rm [g1; g2; g3]) (mv Rm [h1; h2; h3]) = dot [g1; g2; g3] [h1; h2; h3].
Proof. intros * (H1 & H2 & H3 & H4 & H5 & H6). cbv zeta. unfold rot3. mat_cbv. nsatz. Qed.

Theorem thermal_Ke_invariant2 : forall r11 r12 r21 r22 g1 g2 h1 h2, orth2 r11 r12 r21 r22 ->
  dot (mv [[r11; r12]; [r21; r22]] [g1; g2]) (mv [[r11; r12]; [r21; r22]] [h1; h2]) = dot [g1; g2] [h1; h2].
Proof. intros * (H1 & H2 & H3). mat_cbv. nsatz. Qed.

(* ---- geometry: the Jacobian of the moved element (x |-> R x + t) is J R^T for all node
        coordinates, provided the reference gradients sum to zero (partition of unity, C06);
        then the physical gradients are rotated (R g) and |det J| is unchanged *)
Definition gnode := (vec * vec)%type.       (* reference gradient d (any length), coordinates x (3) *)
Fixpoint Jent (l : list gnode) (a b : nat) : R :=
  match l with [] => 0 | (d, x) :: t => lnth a d * lnth b x + Jent t a b end.
Fixpoint dsum (l : list gnode) (a : nat) : R :=
  match l with [] => 0 | (d, _) :: t => lnth a d + dsum t a end.
Definition move_x (Rm : mat) (t : vec) (n : gnode) : gnode := (fst n, vadd (mv Rm (snd n)) t).

Theorem jacobian_moves3 : forall r11 r12 r13 r21 r22 r23 r31 r32 r33 t1 t2 t3 l a b,
  Forall (fun n : gnode => length (snd n) = 3%nat) l -> (b < 3)%nat ->
  let Rm := rot3 r11 r12 r13 r21 r22 r23 r31 r32 r33 in
  Jent (map (move_x Rm [t1; t2; t3]) l) a b
  = lnth 0 (lrow b Rm) * Jent l a 0 + lnth 1 (lrow b Rm) * Jent l a 1 + lnth 2 (lrow b Rm) * Jent l a 2
    + lnth b [t1; t2; t3] * dsum l a.
Proof.
  intros * HF Hb. cbv zeta. induction l as [|[d x] t IH].
  - cbn. ring.
  - inversion HF as [|? ? Hx HF']; subst. cbn [snd] in Hx. destruct (len3 x Hx) as (x1&x2&x3&->).
    cbn [map Jent dsum move_x fst snd]. rewrite (IH HF'). clear IH.
    destruct b as [|[|[|b]]]; [| | |exfalso; inversion Hb as [|? H1]; inversion H1 as [|? H2]; inversion H2 as [|? H3]; inversion H3];
      unfold rot3; cbv [vadd]; mat_cbv; ring.
Qed.

(* J g = d  ->  (J R^T) (R g) = d : the gradient of the moved element is the rotated gradient *)
Theorem grad_moves3 : forall r11 r12 r13 r21 r22 r23 r31 r32 r33 J g d,
  orth3 r11 r12 r13 r21 r22 r23 r31 r32 r33 -> wf3 J -> length g = 3%nat ->
  let Rm := rot3 r11 r12 r13 r21 r22 r23 r31 r32 r33 in
  mv J g = d -> mv (mmul 3 J (mtrans 3 Rm)) (mv Rm g) = d.
Proof.
  intros * (H1 & H2 & H3 & H4 & H5 & H6) HJ Hg. cbv zeta. intros <-.
  destruct (wf3_expand J HJ) as (j11&j12&j13&j21&j22&j23&j31&j32&j33&->).
  destruct (len3 g Hg) as (g1&g2&g3&->).
  assert (E : mv (mtrans 3 (rot3 r11 r12 r13 r21 r22 r23 r31 r32 r33)) (mv (rot3 r11 r12 r13 r21 r22 r23 r31 r32 r33) [g1; g2; g3]) = [g1; g2; g3]).
  { clear - H1 H2 H3 H4 H5 H6. unfold rot3. mat_cbv. list_eq ltac:(nsatz). }
  rewrite <- E at 2. unfold rot3. mat_cbv. list_eq ltac:(ring).
Qed.

Theorem detJ_moves3 : forall r11 r12 r13 r21 r22 r23 r31 r32 r33 j11 j12 j13 j21 j22 j23 j31 j32 j33,
  let Rm := rot3 r11 r12 r13 r21 r22 r23 r31 r32 r33 in
  let J' := mmul 3 (rot3 j11 j12 j13 j21 j22 j23 j31 j32 j33) (mtrans 3 Rm) in
  det3x3 (entry J' 0 0) (entry J' 0 1) (entry J' 0 2) (entry J' 1 0) (entry J' 1 1) (entry J' 1 2)
         (entry J' 2 0) (entry J' 2 1) (entry J' 2 2)
  = det3x3 j11 j12 j13 j21 j22 j23 j31 j32 j33 * det3x3 r11 r12 r13 r21 r22 r23 r31 r32 r33.
Proof. intros. unfold J', Rm, rot3, det3x3. mat_cbv. ring. Qed.

(* ---- the same in 2-D (in-plane motions x |-> R x + t, R any orthogonal 2x2 matrix) *)
Theorem jacobian_moves2 : forall r11 r12 r21 r22 t1 t2 l a b,
  Forall (fun n : gnode => length (snd n) = 2%nat) l -> (b < 2)%nat ->
  let Rm := [[r11; r12]; [r21; r22]] in
  Jent (map (move_x Rm [t1; t2]) l) a b
  = lnth 0 (lrow b Rm) * Jent l a 0 + lnth 1 (lrow b Rm) * Jent l a 1 + lnth b [t1; t2] * dsum l a.
Proof.
  intros * HF Hb. cbv zeta. induction l as [|[d x] t IH].
  - cbn. ring.
  - inversion HF as [|? ? Hx HF']; subst. cbn [snd] in Hx.
    destruct x as [|x1 [|x2 [|? ?]]]; try discriminate.
    cbn [map Jent dsum move_x fst snd]. rewrite (IH HF'). clear IH.
    destruct b as [|[|b]]; [| |exfalso; inversion Hb as [|? H1]; inversion H1 as [|? H2]; inversion H2];
      cbv [vadd]; mat_cbv; ring.
Qed.

Theorem grad_moves2 : forall r11 r12 r21 r22 j11 j12 j21 j22 g1 g2 d, orth2 r11 r12 r21 r22 ->
  let Rm := [[r11; r12]; [r21; r22]] in let J := [[j11; j12]; [j21; j22]] in
  mv J [g1; g2] = d -> mv (mmul 2 J (mtrans 2 Rm)) (mv Rm [g1; g2]) = d.
Proof.
  intros * (H1 & H2 & H3). cbv zeta. intros <-.
  assert (E : mv (mtrans 2 [[r11; r12]; [r21; r22]]) (mv [[r11; r12]; [r21; r22]] [g1; g2]) = [g1; g2]).
  { mat_cbv. list_eq ltac:(nsatz). }
  rewrite <- E at 2. mat_cbv. list_eq ltac:(ring).
Qed.

Theorem detJ_moves2 : forall r11 r12 r21 r22 j11 j12 j21 j22,
  let J' := mmul 2 [[j11; j12]; [j21; j22]] (mtrans 2 [[r11; r12]; [r21; r22]]) in
  entry J' 0 0 * entry J' 1 1 - entry J' 0 1 * entry J' 1 0
  = (j11 * j22 - j12 * j21) * (r11 * r22 - r12 * r21).
Proof. intros. unfold J'. mat_cbv. ring. Qed.

Lemma orth2_det_sq : forall r11 r12 r21 r22, orth2 r11 r12 r21 r22 ->
  (r11 * r22 - r12 * r21) * (r11 * r22 - r12 * r21) = 1.
Proof. intros * (H1 & H2 & H3). nsatz. Qed.

Example orth2_nonvacuous : orth2 (3/5) (4/5) (4/5) (-3/5).      (* a reflection *)
Proof. unfold orth2. repeat split; lra. Qed.

Print Assumptions Ke_objective_energy_partial.
Print Assumptions jacobian_moves2.
Print Assumptions grad_moves2.
Print Assumptions thermal_Ke_invariant3.
Print Assumptions jacobian_moves3.
Print Assumptions grad_moves3.
