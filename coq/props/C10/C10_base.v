(* C10 — shared small facts: 3x3 well-formed list matrices, rotations. *)
From Coq Require Import Reals List Lra Psatz Nsatz.
From EFLib Require Import C11_MatR.
Import ListNotations.
Open Scope R_scope.

Definition wf3 (M : mat) : Prop := length M = 3%nat /\ Forall (fun r => length r = 3%nat) M.

Lemma wf3_expand M : wf3 M -> exists a b c d e f g h i, M = [[a; b; c]; [d; e; f]; [g; h; i]].
Proof.
  intros [HL HF]. do 3 (destruct M as [|? M]; [discriminate|]). destruct M; [|discriminate].
  repeat match goal with H : Forall _ (_ :: _) |- _ => inversion H; clear H; subst end.
  repeat match goal with H : length ?l = 3%nat |- _ => destruct (len3 l H) as (? & ? & ? & ->); clear H end.
  repeat eexists.
Qed.

Definition rot3 (r11 r12 r13 r21 r22 r23 r31 r32 r33 : R) : mat :=
  [[r11; r12; r13]; [r21; r22; r23]; [r31; r32; r33]].

(* R^T R = I, written out *)
Definition orth3 (r11 r12 r13 r21 r22 r23 r31 r32 r33 : R) : Prop :=
  r11 * r11 + r21 * r21 + r31 * r31 = 1 /\ r12 * r12 + r22 * r22 + r32 * r32 = 1 /\
  r13 * r13 + r23 * r23 + r33 * r33 = 1 /\ r11 * r12 + r21 * r22 + r31 * r32 = 0 /\
  r11 * r13 + r21 * r23 + r31 * r33 = 0 /\ r12 * r13 + r22 * r23 + r32 * r33 = 0.
Definition det3x3 (r11 r12 r13 r21 r22 r23 r31 r32 r33 : R) : R :=
  r11 * (r22 * r33 - r23 * r32) - r12 * (r21 * r33 - r23 * r31) + r13 * (r21 * r32 - r22 * r31).

Definition orth2 (r11 r12 r21 r22 : R) : Prop :=
  r11 * r11 + r21 * r21 = 1 /\ r12 * r12 + r22 * r22 = 1 /\ r11 * r12 + r21 * r22 = 0.

Example orth3_nonvacuous : orth3 (3/5) (-4/5) 0 (4/5) (3/5) 0 0 0 1 /\ det3x3 (3/5) (-4/5) 0 (4/5) (3/5) 0 0 0 1 = 1.
Proof. unfold orth3, det3x3. repeat split; lra. Qed.
Example orth3_reflection_nonvacuous : orth3 1 0 0 0 (-1) 0 0 0 1 /\ det3x3 1 0 0 0 (-1) 0 0 0 1 = -1.
Proof. unfold orth3, det3x3. repeat split; lra. Qed.

Lemma orth3_det_sq : forall r11 r12 r13 r21 r22 r23 r31 r32 r33, orth3 r11 r12 r13 r21 r22 r23 r31 r32 r33 ->
  det3x3 r11 r12 r13 r21 r22 r23 r31 r32 r33 * det3x3 r11 r12 r13 r21 r22 r23 r31 r32 r33 = 1.
Proof. unfold orth3, det3x3. intros * (H1 & H2 & H3 & H4 & H5 & H6). nsatz. Qed.
