(* C10 — 3-D REFLECTIONS of elastic elements (the det Q = -1 case of Ke_integrated_objective3).
   Every improper orthogonal map is  Qm = Q F  with Q = [a | b | a x b] a rotation and F = diag(1,1,-1) the
   reflection through the (x,y) plane:  Qm = [a | b | -(a x b)].
   The Kelvin-Mandel matrix of the tensor map eps |-> F eps F is Dm = diag(1,1,1,-1,-1,1); the reflected material is
   Dm C Dm, and for the material-frame shape of the orthotropic / transversely isotropic / isotropic laws (blk33)
   Dm C Dm = C.  The integrated element blocks use |det J|, so the sign of det Qm does not matter. *)
From Coq Require Import Reals List Lra Psatz Nsatz.
From EFLib Require Import C11_MatR.
From EFP Require Import Gen_Pmat C11_pmat C11_rot C10_base C10_strain C10_matrix C10_integrated.
Import ListNotations.
Open Scope R_scope.

Definition Dm : mat := diagm [1; 1; 1; -1; -1; 1].
Definition Fm : mat := [[1; 0; 0]; [0; 1; 0]; [0; 0; -1]].
Definition Qmat3m (a1 a2 a3 b1 b2 b3 : R) : mat :=
  [[a1; b1; - (a2 * b3 - a3 * b2)]; [a2; b2; - (a3 * b1 - a1 * b3)]; [a3; b3; - (a1 * b2 - a2 * b1)]].
Definition reflect_law (C : mat) : mat := mmul 6 (mmul 6 Dm C) Dm.

Lemma reflect_law_wf C : wf 6 C -> wf 6 (reflect_law C).
Proof.
  intro HC. destruct (wf6_expand C HC) as (c11&c12&c13&c14&c15&c16&c21&c22&c23&c24&c25&c26&c31&c32&c33&c34&c35&c36&
    c41&c42&c43&c44&c45&c46&c51&c52&c53&c54&c55&c56&c61&c62&c63&c64&c65&c66&->).
  unfold reflect_law, Dm. mat_cbv. split; [reflexivity | repeat constructor].
Qed.

(* the orthotropic-type material-frame laws are invariant under the reflection of their third axis *)
Theorem blk33_reflection_invariant : forall a b c d e f g4 g5 g6,
  reflect_law (blk33 a b c d e f g4 g5 g6) = blk33 a b c d e f g4 g5 g6.
Proof. intros. unfold reflect_law, Dm, blk33. mat_cbv. list_eq ltac:(ring). Qed.

(* reflection through the (x,y) plane: gradients F g, displacements F u, material Dm C Dm *)
Theorem Ke_block_reflection_xy : forall r2 C g1 g2 g3 h1 h2 h3, wf 6 C ->
  Kblock (reflect_law C) (Bnode3 r2 g1 g2 (- g3)) (Bnode3 r2 h1 h2 (- h3))
  = mmul 3 Fm (mmul 3 (Kblock C (Bnode3 r2 g1 g2 g3) (Bnode3 r2 h1 h2 h3)) (mtrans 3 Fm)).
Proof.
  intros * HC. destruct (wf6_expand C HC) as (c11&c12&c13&c14&c15&c16&c21&c22&c23&c24&c25&c26&c31&c32&c33&c34&c35&c36&
    c41&c42&c43&c44&c45&c46&c51&c52&c53&c54&c55&c56&c61&c62&c63&c64&c65&c66&->).
  unfold reflect_law, Dm, Fm, Kblock, Bnode3. cbv zeta. set (c := 1 / r2). mat_cbv. list_eq ltac:(ring).
Qed.

(* every improper orthogonal map Qm = [a | b | -(a x b)]: block form *)
Theorem Ke_block_objective3_improper : forall a1 a2 a3 b1 b2 b3 r2 C g1 g2 g3 h1 h2 h3, r2 * r2 = 2 ->
  unit_orth3 a1 a2 a3 b1 b2 b3 -> wf 6 C ->
  let Q := Qmat3 a1 a2 a3 b1 b2 b3 in let Qm := Qmat3m a1 a2 a3 b1 b2 b3 in
  let P := pmat3 a1 a2 a3 b1 b2 b3 1 1 r2 in
  let g' := mv Q [g1; g2; - g3] in let h' := mv Q [h1; h2; - h3] in       (* = Qm g, Qm h *)
  Kblock (apply_pmat_global 6 P (reflect_law C)) (Bnode3 r2 (lnth 0 g') (lnth 1 g') (lnth 2 g')) (Bnode3 r2 (lnth 0 h') (lnth 1 h') (lnth 2 h'))
  = mmul 3 Qm (mmul 3 (Kblock C (Bnode3 r2 g1 g2 g3) (Bnode3 r2 h1 h2 h3)) (mtrans 3 Qm)).
Proof.
  intros * Hr HO HC Q Qm P g' h'.
  pose proof (Ke_block_objective3 a1 a2 a3 b1 b2 b3 r2 (reflect_law C) g1 g2 (- g3) h1 h2 (- h3) Hr HO (reflect_law_wf C HC)) as E.
  cbv zeta in E. fold Q in E. fold P in E. fold g' in E. fold h' in E. rewrite E. clear E.
  rewrite (Ke_block_reflection_xy r2 C g1 g2 g3 h1 h2 h3 HC).
  destruct (wf3_expand _ (Kblock_wf3 C r2 g1 g2 g3 h1 h2 h3 HC)) as (k11&k12&k13&k21&k22&k23&k31&k32&k33&->).
  unfold Q, Qm, Qmat3, Qmat3m, Fm. mat_cbv. list_eq ltac:(ring).
Qed.

Lemma Qm_images : forall a1 a2 a3 b1 b2 b3 g1 g2 g3,
  mv (Qmat3m a1 a2 a3 b1 b2 b3) [g1; g2; g3] = mv (Qmat3 a1 a2 a3 b1 b2 b3) [g1; g2; - g3].
Proof. intros. unfold Qmat3m, Qmat3. mat_cbv. list_eq ltac:(ring). Qed.

Lemma detQm : forall a1 a2 a3 b1 b2 b3, unit_orth3 a1 a2 a3 b1 b2 b3 -> det_of (Qmat3m a1 a2 a3 b1 b2 b3) = -1.
Proof. intros * (Ha & Hb & Hab). unfold det_of, det3x3, Qmat3m. mat_cbv. nsatz. Qed.

(* integrated blocks of the reflected element: Jacobians J Qm^T, weights w |det J| *)
Definition to_gp_m (Qm : mat) (p : qp) : gp :=
  let '(w, j, (g1, g2, g3), (h1, h2, h3)) := p in
  let g' := mv Qm [g1; g2; g3] in let h' := mv Qm [h1; h2; h3] in
  (w * Rabs (det_of (mmul 3 (Jmat j) (mtrans 3 Qm))), (lnth 0 g', lnth 1 g', lnth 2 g'), (lnth 0 h', lnth 1 h', lnth 2 h')).

Lemma absdet_moved_m : forall a1 a2 a3 b1 b2 b3 j, unit_orth3 a1 a2 a3 b1 b2 b3 ->
  Rabs (det_of (mmul 3 (Jmat j) (mtrans 3 (Qmat3m a1 a2 a3 b1 b2 b3)))) = Rabs (det_of (Jmat j)).
Proof.
  intros * HO. destruct j as [[[[[[[[j11 j12] j13] j21] j22] j23] j31] j32] j33].
  pose proof (detQm _ _ _ _ _ _ HO) as HD.
  assert (E : det_of (mmul 3 (Jmat (j11, j12, j13, j21, j22, j23, j31, j32, j33)) (mtrans 3 (Qmat3m a1 a2 a3 b1 b2 b3)))
              = det_of (Jmat (j11, j12, j13, j21, j22, j23, j31, j32, j33)) * det_of (Qmat3m a1 a2 a3 b1 b2 b3)).
  { unfold Jmat, det_of, det3x3, Qmat3m, rot3. mat_cbv. ring. }
  rewrite E, HD, Rabs_mult. replace (Rabs (-1)) with 1 by (rewrite Rabs_left; lra). ring.
Qed.

Theorem Ke_integrated_objective3_improper : forall a1 a2 a3 b1 b2 b3 r2 C l, r2 * r2 = 2 ->
  unit_orth3 a1 a2 a3 b1 b2 b3 -> wf 6 C ->
  let Qm := Qmat3m a1 a2 a3 b1 b2 b3 in let P := pmat3 a1 a2 a3 b1 b2 b3 1 1 r2 in
  Ksum (apply_pmat_global 6 P (reflect_law C)) r2 (map (to_gp_m Qm) l) = mmul 3 Qm (mmul 3 (Kint C r2 l) (mtrans 3 Qm)).
Proof.
  intros * Hr HO HC Qm P.
  assert (HQ : wf3 Qm) by (split; [reflexivity | repeat constructor]).
  unfold Kint. induction l as [|[[[w j] [[g1 g2] g3]] [[h1 h2] h3]] t IH].
  - cbn [map Ksum]. unfold Qm, Qmat3m, zero3. mat_cbv. list_eq ltac:(ring).
  - cbn [map Ksum to_gp_m to_gp]. rewrite IH.
    rewrite (conj_linear3 Qm _ _ _ HQ (Kblock_wf3 C r2 g1 g2 g3 h1 h2 h3 HC) (Ksum_wf3 C r2 _ HC)).
    unfold Qm at 1. rewrite (absdet_moved_m a1 a2 a3 b1 b2 b3 j HO).
    f_equal. f_equal. unfold Qm. rewrite !Qm_images.
    apply (Ke_block_objective3_improper a1 a2 a3 b1 b2 b3 r2 C g1 g2 g3 h1 h2 h3 Hr HO HC).
Qed.

(* for the laws whose material-frame matrix has the orthotropic block shape the reflected material is the material itself *)
Corollary Ke_integrated_objective3_improper_blk33 : forall a1 a2 a3 b1 b2 b3 r2 a b c d e f g4 g5 g6 l, r2 * r2 = 2 ->
  unit_orth3 a1 a2 a3 b1 b2 b3 ->
  let M := blk33 a b c d e f g4 g5 g6 in
  let Qm := Qmat3m a1 a2 a3 b1 b2 b3 in let P := pmat3 a1 a2 a3 b1 b2 b3 1 1 r2 in
  Ksum (apply_pmat_global 6 P M) r2 (map (to_gp_m Qm) l) = mmul 3 Qm (mmul 3 (Kint M r2 l) (mtrans 3 Qm)).
Proof.
  intros * Hr HO M Qm P.
  assert (HM : wf 6 M) by (unfold M, blk33; split; [reflexivity | repeat constructor]).
  pose proof (Ke_integrated_objective3_improper a1 a2 a3 b1 b2 b3 r2 M l Hr HO HM) as E. cbv zeta in E.
  unfold M in E at 1. rewrite blk33_reflection_invariant in E. exact E.
Qed.

Print Assumptions Ke_integrated_objective3_improper.
