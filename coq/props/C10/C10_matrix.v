(* C10 — Ke_objective in MATRIX form.
   For every pair of nodes (n, m) the 3x3 block of the elastic element stiffness integrand at a
   Gauss point is  K_nm = B_n^T C B_m  (B_n = Bnode3 of the node's shape-function gradient).  For the
   rigidly moved element (gradients Q g, Q = [a|b|a x b] a rotation) with the material moved along
   (C' = Apply_Pmat(P, C) = P C P^T, P = Get_Pmat(a, b)):

        K'_nm = Q K_nm Q^T        (Ke_block_objective3)

   The step from the energy identity to the matrix identity (polarisation: a bilinear form is
   determined by its values, here on the basis vectors) is formalised below.  K_e is the sum over
   Gauss points of w |det J| K_nm; w |det J| is unchanged by the motion (C10_continuum.detJ_moves3,
   C10_base.orth3_det_sq) and X |-> Q X Q^T is linear (conj_linear3), so the relation carries over
   to the integrated blocks (Ke_block_sum_objective3). *)
From Coq Require Import Reals List Lra Psatz Nsatz.
From EFLib Require Import C11_MatR.
From EFP Require Import Gen_Pmat C11_pmat C11_rot C10_base C10_strain.
Import ListNotations.
Open Scope R_scope.

Definition bf (C : mat) (x y : vec) : R := dot x (mv C y).
Definition Kblock (C Bn Bm : mat) : mat := mmul 3 (mtrans 3 Bn) (mmul 3 C Bm).

(* bilinear version of C10_continuum.energy_invariant *)
Lemma bf_congruence : forall P C x y, wf 6 P -> wf 6 C -> length x = 6%nat -> length y = 6%nat ->
  bf (apply_pmat_global 6 P C) x y = bf C (mv (mtrans 6 P) x) (mv (mtrans 6 P) y).
Proof.
  intros P C x y HP HC Hx Hy.
  destruct (wf6_expand P HP) as (p11&p12&p13&p14&p15&p16&p21&p22&p23&p24&p25&p26&p31&p32&p33&p34&p35&p36&
    p41&p42&p43&p44&p45&p46&p51&p52&p53&p54&p55&p56&p61&p62&p63&p64&p65&p66&->).
  destruct (wf6_expand C HC) as (c11&c12&c13&c14&c15&c16&c21&c22&c23&c24&c25&c26&c31&c32&c33&c34&c35&c36&
    c41&c42&c43&c44&c45&c46&c51&c52&c53&c54&c55&c56&c61&c62&c63&c64&c65&c66&->).
  destruct (len6 x Hx) as (x1&x2&x3&x4&x5&x6&->). destruct (len6 y Hy) as (y1&y2&y3&y4&y5&y6&->).
  unfold bf, apply_pmat_global. mat_cbv. ring.
Qed.

Lemma mv_len6 P e : wf 6 P -> length (mv P e) = 6%nat.
Proof.
  intro HP. destruct (wf6_expand P HP) as (p11&p12&p13&p14&p15&p16&p21&p22&p23&p24&p25&p26&p31&p32&p33&p34&p35&p36&
      p41&p42&p43&p44&p45&p46&p51&p52&p53&p54&p55&p56&p61&p62&p63&p64&p65&p66&->). reflexivity.
Qed.

Lemma PtP_id P e : wf 6 P -> length e = 6%nat -> mmul 6 (mtrans 6 P) P = ident 6 ->
  mv (mtrans 6 P) (mv P e) = e.
Proof.
  intros HP He HO. rewrite <- (mv_PtP P e HP He), HO.
  destruct (len6 e He) as (x1&x2&x3&x4&x5&x6&->). mat_cbv. list_eq ltac:(ring).
Qed.

Theorem bf_invariant : forall P C x y, wf 6 P -> wf 6 C -> length x = 6%nat -> length y = 6%nat ->
  mmul 6 (mtrans 6 P) P = ident 6 ->
  bf (apply_pmat_global 6 P C) (mv P x) (mv P y) = bf C x y.
Proof.
  intros P C x y HP HC Hx Hy HO.
  rewrite (bf_congruence P C _ _ HP HC (mv_len6 P x HP) (mv_len6 P y HP)).
  now rewrite (PtP_id P x HP Hx HO), (PtP_id P y HP Hy HO).
Qed.

(* v^T (Bn^T C Bm) w = (Bn v)^T C (Bm w) for the node blocks *)
Lemma Kblock_bf : forall C r2 g1 g2 g3 h1 h2 h3 v1 v2 v3 w1 w2 w3, wf 6 C ->
  dot [v1; v2; v3] (mv (Kblock C (Bnode3 r2 g1 g2 g3) (Bnode3 r2 h1 h2 h3)) [w1; w2; w3])
  = bf C (mv (Bnode3 r2 g1 g2 g3) [v1; v2; v3]) (mv (Bnode3 r2 h1 h2 h3) [w1; w2; w3]).
Proof.
  intros * HC.
  destruct (wf6_expand C HC) as (c11&c12&c13&c14&c15&c16&c21&c22&c23&c24&c25&c26&c31&c32&c33&c34&c35&c36&
    c41&c42&c43&c44&c45&c46&c51&c52&c53&c54&c55&c56&c61&c62&c63&c64&c65&c66&->).
  unfold Kblock, bf, Bnode3. cbv zeta. set (c := 1 / r2). mat_cbv. ring.
Qed.

(* polarisation on 3x3 blocks: a matrix is determined by its bilinear form *)
Lemma bilinear_determines3 : forall A B, wf3 A -> wf3 B ->
  (forall v1 v2 v3 w1 w2 w3, dot [v1; v2; v3] (mv A [w1; w2; w3]) = dot [v1; v2; v3] (mv B [w1; w2; w3])) -> A = B.
Proof.
  intros A B HA HB H.
  destruct (wf3_expand A HA) as (a11&a12&a13&a21&a22&a23&a31&a32&a33&->).
  destruct (wf3_expand B HB) as (b11&b12&b13&b21&b22&b23&b31&b32&b33&->).
  pose proof (H 1 0 0 1 0 0) as E11. pose proof (H 1 0 0 0 1 0) as E12. pose proof (H 1 0 0 0 0 1) as E13.
  pose proof (H 0 1 0 1 0 0) as E21. pose proof (H 0 1 0 0 1 0) as E22. pose proof (H 0 1 0 0 0 1) as E23.
  pose proof (H 0 0 1 1 0 0) as E31. pose proof (H 0 0 1 0 1 0) as E32. pose proof (H 0 0 1 0 0 1) as E33.
  revert E11 E12 E13 E21 E22 E23 E31 E32 E33. mat_cbv. intros. list_eq ltac:(lra).
Qed.

(* and by its quadratic form when symmetric (the polarisation identity proper) *)
Lemma quadratic_determines_sym3 : forall A B, wf3 A -> wf3 B -> msym 3 A -> msym 3 B ->
  (forall v1 v2 v3, qf A [v1; v2; v3] = qf B [v1; v2; v3]) -> A = B.
Proof.
  intros A B HA HB SA SB H.
  destruct (wf3_expand A HA) as (a11&a12&a13&a21&a22&a23&a31&a32&a33&->).
  destruct (wf3_expand B HB) as (b11&b12&b13&b21&b22&b23&b31&b32&b33&->).
  revert SA SB. unfold msym. mat_cbv. intros SA SB.
  injection SA as ? ? ? ? ? ?. injection SB as ? ? ? ? ? ?. subst.
  pose proof (H 1 0 0) as E1. pose proof (H 0 1 0) as E2. pose proof (H 0 0 1) as E3.
  pose proof (H 1 1 0) as E12. pose proof (H 1 0 1) as E13. pose proof (H 0 1 1) as E23.
  revert E1 E2 E3 E12 E13 E23. mat_cbv. intros. list_eq ltac:(lra).
Qed.

Lemma Kblock_wf3 C r2 g1 g2 g3 h1 h2 h3 : wf 6 C -> wf3 (Kblock C (Bnode3 r2 g1 g2 g3) (Bnode3 r2 h1 h2 h3)).
Proof.
  intro HC. destruct (wf6_expand C HC) as (c11&c12&c13&c14&c15&c16&c21&c22&c23&c24&c25&c26&c31&c32&c33&c34&c35&c36&
    c41&c42&c43&c44&c45&c46&c51&c52&c53&c54&c55&c56&c61&c62&c63&c64&c65&c66&->).
  unfold Kblock, Bnode3. cbv zeta. mat_cbv. split; [reflexivity | repeat constructor].
Qed.

Lemma apply_wf6 P C : wf 6 P -> wf 6 C -> wf 6 (apply_pmat_global 6 P C).
Proof.
  intros HP HC.
  destruct (wf6_expand P HP) as (p11&p12&p13&p14&p15&p16&p21&p22&p23&p24&p25&p26&p31&p32&p33&p34&p35&p36&
    p41&p42&p43&p44&p45&p46&p51&p52&p53&p54&p55&p56&p61&p62&p63&p64&p65&p66&->).
  destruct (wf6_expand C HC) as (c11&c12&c13&c14&c15&c16&c21&c22&c23&c24&c25&c26&c31&c32&c33&c34&c35&c36&
    c41&c42&c43&c44&c45&c46&c51&c52&c53&c54&c55&c56&c61&c62&c63&c64&c65&c66&->).
  unfold apply_pmat_global. mat_cbv. split; [reflexivity | repeat constructor].
Qed.

(* Q^T K' Q = K : the stiffness block of the moved element, expressed in the moved frame *)
Theorem Ke_block_objective3_local : forall a1 a2 a3 b1 b2 b3 r2 C g1 g2 g3 h1 h2 h3, r2 * r2 = 2 ->
  unit_orth3 a1 a2 a3 b1 b2 b3 -> wf 6 C ->
  let Q := Qmat3 a1 a2 a3 b1 b2 b3 in let P := pmat3 a1 a2 a3 b1 b2 b3 1 1 r2 in
  let g' := mv Q [g1; g2; g3] in let h' := mv Q [h1; h2; h3] in
  let K' := Kblock (apply_pmat_global 6 P C) (Bnode3 r2 (lnth 0 g') (lnth 1 g') (lnth 2 g'))
                                             (Bnode3 r2 (lnth 0 h') (lnth 1 h') (lnth 2 h')) in
  mmul 3 (mtrans 3 Q) (mmul 3 K' Q) = Kblock C (Bnode3 r2 g1 g2 g3) (Bnode3 r2 h1 h2 h3).
Proof.
  intros * Hr HO HC Q P g' h' K'.
  assert (HPw : wf 6 P) by apply pmat3_wf.
  assert (HC' : wf 6 (apply_pmat_global 6 P C)) by (apply apply_wf6; assumption).
  assert (HK' : wf3 K') by (apply Kblock_wf3; exact HC').
  destruct (pmat3_orthogonal a1 a2 a3 b1 b2 b3 r2 Hr HO) as [_ HPtP].
  apply bilinear_determines3.
  - destruct (wf3_expand K' HK') as (k11&k12&k13&k21&k22&k23&k31&k32&k33&E). rewrite E.
    unfold Q, Qmat3. mat_cbv. split; [reflexivity | repeat constructor].
  - apply Kblock_wf3; exact HC.
  - intros v1 v2 v3 w1 w2 w3.
    (* v^T (Q^T K' Q) w = (Q v)^T K' (Q w) *)
    assert (E1 : dot [v1; v2; v3] (mv (mmul 3 (mtrans 3 Q) (mmul 3 K' Q)) [w1; w2; w3])
                 = dot (mv Q [v1; v2; v3]) (mv K' (mv Q [w1; w2; w3]))).
    { destruct (wf3_expand K' HK') as (k11&k12&k13&k21&k22&k23&k31&k32&k33&E). rewrite E.
      unfold Q, Qmat3. mat_cbv. ring. }
    rewrite E1. clear E1.
    set (v' := mv Q [v1; v2; v3]). set (w' := mv Q [w1; w2; w3]).
    assert (Ev : v' = [lnth 0 v'; lnth 1 v'; lnth 2 v']) by reflexivity.
    assert (Ew : w' = [lnth 0 w'; lnth 1 w'; lnth 2 w']) by reflexivity.
    rewrite Ev, Ew. unfold K'.
    rewrite (Kblock_bf (apply_pmat_global 6 P C) r2 _ _ _ _ _ _ _ _ _ _ _ _ HC').
    (* strain of the moved node data = P * strain *)
    pose proof (strain_moves3 a1 a2 a3 b1 b2 b3 r2 g1 g2 g3 v1 v2 v3 Hr) as S1.
    pose proof (strain_moves3 a1 a2 a3 b1 b2 b3 r2 h1 h2 h3 w1 w2 w3 Hr) as S2. cbv zeta in S1, S2.
    fold Q in S1, S2. fold P in S1, S2. fold g' in S1. fold h' in S2. fold v' in S1. fold w' in S2.
    rewrite <- Ev, <- Ew, S1, S2.
    rewrite (bf_invariant P C _ _ HPw HC); [| reflexivity | reflexivity | exact HPtP].
    symmetry. apply Kblock_bf. exact HC.
Qed.

(* K' = Q K Q^T *)
Lemma conj_inverse3 : forall a1 a2 a3 b1 b2 b3 X K, unit_orth3 a1 a2 a3 b1 b2 b3 -> wf3 X -> wf3 K ->
  let Q := Qmat3 a1 a2 a3 b1 b2 b3 in
  mmul 3 (mtrans 3 Q) (mmul 3 X Q) = K -> X = mmul 3 Q (mmul 3 K (mtrans 3 Q)).
Proof.
  intros * (Ha & Hb & Hab) HX HK Q H. subst K.
  destruct (wf3_expand X HX) as (x11&x12&x13&x21&x22&x23&x31&x32&x33&->).
  unfold Q, Qmat3. mat_cbv. clear HX HK. list_eq ltac:(nsatz).
Qed.

Theorem Ke_block_objective3 : forall a1 a2 a3 b1 b2 b3 r2 C g1 g2 g3 h1 h2 h3, r2 * r2 = 2 ->
  unit_orth3 a1 a2 a3 b1 b2 b3 -> wf 6 C ->
  let Q := Qmat3 a1 a2 a3 b1 b2 b3 in let P := pmat3 a1 a2 a3 b1 b2 b3 1 1 r2 in
  let g' := mv Q [g1; g2; g3] in let h' := mv Q [h1; h2; h3] in
  Kblock (apply_pmat_global 6 P C) (Bnode3 r2 (lnth 0 g') (lnth 1 g') (lnth 2 g')) (Bnode3 r2 (lnth 0 h') (lnth 1 h') (lnth 2 h'))
  = mmul 3 Q (mmul 3 (Kblock C (Bnode3 r2 g1 g2 g3) (Bnode3 r2 h1 h2 h3)) (mtrans 3 Q)).
Proof.
  intros * Hr HO HC Q P g' h'.
  apply (conj_inverse3 a1 a2 a3 b1 b2 b3 _ _ HO).
  - apply Kblock_wf3, apply_wf6; [apply pmat3_wf | exact HC].
  - apply Kblock_wf3, HC.
  - apply (Ke_block_objective3_local a1 a2 a3 b1 b2 b3 r2 C g1 g2 g3 h1 h2 h3 Hr HO HC).
Qed.

(* ---- integration over the Gauss points: K_nm = sum_p w_p K_nm(p); the weights w_p = weight * |det J|
        are the same for the moved element (|det J'| = |det J|: detJ_moves3, orth3_det_sq) *)
Fixpoint madd3 (A B : mat) : mat :=
  match A, B with r :: A', s :: B' => vadd r s :: madd3 A' B' | _, _ => [] end.
Definition mscale3 (w : R) (A : mat) : mat := lmap (lmap (Rmult w)) A.
Definition zero3 : mat := [[0; 0; 0]; [0; 0; 0]; [0; 0; 0]].

Definition gp := (R * (R * R * R) * (R * R * R))%type.      (* weight, grad N_n, grad N_m at a Gauss point *)
Fixpoint Ksum (C : mat) (r2 : R) (l : list gp) : mat :=
  match l with
  | [] => zero3
  | (w, (g1, g2, g3), (h1, h2, h3)) :: t => madd3 (mscale3 w (Kblock C (Bnode3 r2 g1 g2 g3) (Bnode3 r2 h1 h2 h3))) (Ksum C r2 t)
  end.
Definition move_gp (Q : mat) (p : gp) : gp :=
  let '(w, (g1, g2, g3), (h1, h2, h3)) := p in
  let g' := mv Q [g1; g2; g3] in let h' := mv Q [h1; h2; h3] in
  (w, (lnth 0 g', lnth 1 g', lnth 2 g'), (lnth 0 h', lnth 1 h', lnth 2 h')).

Lemma conj_linear3 : forall Q w X Y, wf3 Q -> wf3 X -> wf3 Y ->
  mmul 3 Q (mmul 3 (madd3 (mscale3 w X) Y) (mtrans 3 Q))
  = madd3 (mscale3 w (mmul 3 Q (mmul 3 X (mtrans 3 Q)))) (mmul 3 Q (mmul 3 Y (mtrans 3 Q))).
Proof.
  intros Q w X Y HQ HX HY.
  destruct (wf3_expand Q HQ) as (q11&q12&q13&q21&q22&q23&q31&q32&q33&->).
  destruct (wf3_expand X HX) as (x11&x12&x13&x21&x22&x23&x31&x32&x33&->).
  destruct (wf3_expand Y HY) as (y11&y12&y13&y21&y22&y23&y31&y32&y33&->).
  cbv [madd3 mscale3 vadd]. mat_cbv. list_eq ltac:(ring).
Qed.

Lemma Ksum_wf3 C r2 l : wf 6 C -> wf3 (Ksum C r2 l).
Proof.
  intro HC. induction l as [|[[w [[g1 g2] g3]] [[h1 h2] h3]] t IH]; cbn [Ksum].
  - split; [reflexivity | repeat constructor].
  - destruct (wf3_expand _ IH) as (y11&y12&y13&y21&y22&y23&y31&y32&y33&->).
    destruct (wf3_expand _ (Kblock_wf3 C r2 g1 g2 g3 h1 h2 h3 HC)) as (x11&x12&x13&x21&x22&x23&x31&x32&x33&->).
    cbv [madd3 mscale3 vadd lmap]. split; [reflexivity | repeat constructor].
Qed.

Theorem Ke_block_sum_objective3 : forall a1 a2 a3 b1 b2 b3 r2 C l, r2 * r2 = 2 ->
  unit_orth3 a1 a2 a3 b1 b2 b3 -> wf 6 C ->
  let Q := Qmat3 a1 a2 a3 b1 b2 b3 in let P := pmat3 a1 a2 a3 b1 b2 b3 1 1 r2 in
  Ksum (apply_pmat_global 6 P C) r2 (map (move_gp Q) l) = mmul 3 Q (mmul 3 (Ksum C r2 l) (mtrans 3 Q)).
Proof.
  intros * Hr HO HC Q P.
  assert (HQ : wf3 Q) by (split; [reflexivity | repeat constructor]).
  induction l as [|[[w [[g1 g2] g3]] [[h1 h2] h3]] t IH].
  - cbn [map Ksum]. unfold Q, Qmat3, zero3. mat_cbv. list_eq ltac:(ring).
  - cbn [map Ksum move_gp]. rewrite IH.
    rewrite (conj_linear3 Q w _ _ HQ (Kblock_wf3 C r2 g1 g2 g3 h1 h2 h3 HC) (Ksum_wf3 C r2 t HC)).
    f_equal. f_equal.
    apply (Ke_block_objective3 a1 a2 a3 b1 b2 b3 r2 C g1 g2 g3 h1 h2 h3 Hr HO HC).
Qed.

Example Ke_sum_nonvacuous : Ksum (ident 6) 1 [(2, (1, 0, 0), (1, 0, 0))] = [[2; 0; 0]; [0; 2; 0]; [0; 0; 2]].
Proof. unfold Ksum, Kblock, Bnode3, madd3, mscale3, zero3, vadd. cbv zeta. mat_cbv. list_eq ltac:(field). Qed.

Print Assumptions Ke_block_objective3.
Print Assumptions Ke_block_sum_objective3.
