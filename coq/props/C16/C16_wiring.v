(* C16 -- component wiring of the Result() dispatch tables.

   Gen_Results.v is regenerated from /repo on every run by translator/results.py (symbolic
   execution of Results_Available / Result / __indexResult / Models._utils extraction).
   This file states, against a hand-written specification that does not look at the tables,
   that every advertised component name is wired to the right state vector / tensor component.

   Bound (part of the statements): the configurations listed in all_tables
   (class x dim / dof_n / dynamic / Timoshenko) and the names each advertises. *)
From Coq Require Import String Ascii List Bool Arith Lia.
From EFP Require Import Gen_Results.
Import ListNotations.
Open Scope string_scope.

(* ---------- specification (independent of the generated tables) ---------- *)
Definition axis_of (c : ascii) : option nat :=
  if Ascii.eqb c "x" then Some 0 else if Ascii.eqb c "y" then Some 1
  else if Ascii.eqb c "z" then Some 2 else None.

Definition src_of (c : ascii) : option src :=
  if Ascii.eqb c "u" then Some SU else if Ascii.eqb c "v" then Some SV
  else if Ascii.eqb c "a" then Some SA else None.

(* Kelvin-Mandel order: normal components in axis order, then the shear components ordered
   by the axis they leave out (3-D: yz, xz, xy; 2-D: xy). *)
Definition km_index (dim a b : nat) : option nat :=
  if ((a <? dim) && (b <? dim))%nat then
    if (a =? b)%nat then Some a
    else if (a <? b)%nat then
      match dim with
      | 2 => Some 2
      | 3 => Some (3 + (3 - a - b))
      | _ => None
      end
    else None
  else None.

(* the continuum simulations store strain/stress as Kelvin-Mandel vectors (shear x sqrt 2) and
   must rescale by 1/coef; Beam stores plain components *)
Definition kelvin (cls : string) : bool := negb (String.eqb cls "Beam").
Definition is_beam (cls : string) : bool := String.eqb cls "Beam".

(* Beam generalized strains: dim 1 [ux'], dim 2 [ux', rz'], dim 3 [ux', rx', ry', rz'] *)
Definition beam_strain_index (dim : nat) (c1 c2 : ascii) : option nat :=
  if Ascii.eqb c1 "u" then (if Ascii.eqb c2 "x" then Some 0 else None)
  else if Ascii.eqb c1 "r" then
    match dim, axis_of c2 with
    | 2, Some 2 => Some 1
    | 3, Some k => Some (1 + k)
    | _, _ => None
    end
  else None.

(* Beam rotations: dim 2 [ux uy rz], dim 3 [ux uy uz rx ry rz] *)
Definition beam_rot_col (dim : nat) (c2 : ascii) : option nat :=
  match dim, axis_of c2 with
  | 2, Some 2 => Some 2
  | 3, Some k => Some (3 + k)
  | _, _ => None
  end.

Definition quote : ascii := "'"%char.

(* names the specification speaks about *)
Definition covered (cls name : string) : bool :=
  match name with
  | String c1 (String c2 EmptyString) =>
      match axis_of c2 with
      | Some _ => match src_of c1 with
                  | Some _ => true
                  | None => is_beam cls && Ascii.eqb c1 "r"
                  end
      | None => false
      end
  | String c1 (String c2 (String c3 EmptyString)) =>
      if Ascii.eqb c3 quote then is_beam cls
      else if Ascii.eqb c1 "S" || Ascii.eqb c1 "E" then
        match axis_of c2, axis_of c3 with
        | Some _, Some _ => true
        | _, _ => String.eqb name "Svm" || String.eqb name "Evm"
        end
      else false
  | _ => String.eqb name "Stress" || String.eqb name "Strain"
         || String.eqb name "Piola-Kirchhoff" || String.eqb name "Green-Lagrange"
  end.

Definition expected (cls : string) (dim edim sdim : nat) (name : string) : option entry :=
  match name with
  | String c1 (String c2 EmptyString) =>
      match src_of c1, axis_of c2 with
      | Some s, Some k => if (k <? dim)%nat then Some (ECol s k) else None
      | None, Some _ =>
          if is_beam cls && Ascii.eqb c1 "r" then
            match beam_rot_col dim c2 with Some k => Some (ECol SU k) | None => None end
          else None
      | _, _ => None
      end
  | String c1 (String c2 (String c3 EmptyString)) =>
      if Ascii.eqb c3 quote then
        match beam_strain_index dim c1 c2 with
        | Some k => Some (ETens false k false)
        | None => None
        end
      else
        match axis_of c2, axis_of c3 with
        | Some a, Some b =>
            match km_index (if Ascii.eqb c1 "S" then sdim else edim) a b with
            | Some k => Some (ETens (Ascii.eqb c1 "S") k (negb (a =? b)%nat && kelvin cls))
            | None => None
            end
        | _, _ =>
            if String.eqb name "Svm" then Some (EVm true)
            else if String.eqb name "Evm" then Some (EVm false) else None
        end
  | _ =>
      if String.eqb name "Stress" || String.eqb name "Piola-Kirchhoff" then Some (ETensAll true)
      else if String.eqb name "Strain" || String.eqb name "Green-Lagrange" then Some (ETensAll false)
      else None
  end.

(* ---------- decidable comparison ---------- *)
Definition src_eqb (a b : src) : bool :=
  match a, b with SU, SU | SV, SV | SA, SA => true | _, _ => false end.

Definition entry_eqb (a b : entry) : bool :=
  match a, b with
  | ECol s k, ECol s' k' => src_eqb s s' && (k =? k')%nat
  | EWhole s, EWhole s' => src_eqb s s'
  | ENorm s, ENorm s' => src_eqb s s'
  | ETens x k r, ETens x' k' r' => Bool.eqb x x' && (k =? k')%nat && Bool.eqb r r'
  | EVm x, EVm x' => Bool.eqb x x'
  | ETensAll x, ETensAll x' => Bool.eqb x x'
  | EOpaque, EOpaque | ENoBranch, ENoBranch | ERaises, ERaises => true
  | _, _ => false
  end.

Lemma src_eqb_eq : forall a b, src_eqb a b = true -> a = b.
Proof. destruct a, b; simpl; congruence. Qed.

Lemma entry_eqb_eq : forall a b, entry_eqb a b = true -> a = b.
Proof.
  destruct a, b; simpl; try congruence; intro H;
    repeat (apply andb_prop in H; destruct H as [H ?]);
    repeat match goal with
           | h : src_eqb _ _ = true |- _ => apply src_eqb_eq in h; subst
           | h : (_ =? _)%nat = true |- _ => apply Nat.eqb_eq in h; subst
           | h : Bool.eqb _ _ = true |- _ => apply Bool.eqb_prop in h; subst
           end; reflexivity.
Qed.

Fixpoint lookup (name : string) (l : list (string * entry)) : option entry :=
  match l with
  | [] => None
  | (k, e) :: r => if String.eqb k name then Some e else lookup name r
  end.

Definition check_name (t : simtab) (name : string) : bool :=
  if covered (t_class t) name then
    match expected (t_class t) (t_dim t) (t_edim t) (t_sdim t) name, lookup name (t_tab t) with
    | Some e, Some e' => entry_eqb e e'
    | _, _ => false
    end
  else true.

Definition live (e : entry) : bool :=
  match e with ENoBranch | ERaises => false | _ => true end.

Definition has_branch (t : simtab) (name : string) : bool :=
  match lookup name (t_tab t) with Some e => live e | None => false end.

Definition mem (s : string) (l : list string) : bool := existsb (String.eqb s) l.

Definition advertised_somewhere (cls name : string) : bool :=
  existsb (fun t => String.eqb (t_class t) cls && mem name (t_adv t)) all_tables.

(* ---------- witnesses printed for the driver (model-side search) ---------- *)
Definition wiring_failures : list (string * string * string) :=
  flat_map (fun t => map (fun n => (t_class t, t_cfg t, n))
                         (filter (fun n => negb (check_name t n)) (t_adv t))) all_tables.
Definition branch_failures : list (string * string * string) :=
  flat_map (fun t => map (fun n => (t_class t, t_cfg t, n))
                         (filter (fun n => negb (has_branch t n)) (t_adv t))) all_tables.
Definition unadvertised_branches : list (string * string) :=
  flat_map (fun p => map (fun n => (fst p, n))
                         (filter (fun n => negb (advertised_somewhere (fst p) n)) (snd p))) branch_literals.

Eval vm_compute in ("WIRING_FAILURES", wiring_failures).
Eval vm_compute in ("BRANCH_FAILURES", branch_failures).
Eval vm_compute in ("UNADVERTISED_BRANCHES", unadvertised_branches).

(* ---------- theorems ---------- *)
Theorem component_wiring :
  forall t, In t all_tables ->
  forall name, In name (t_adv t) -> covered (t_class t) name = true ->
  exists e, expected (t_class t) (t_dim t) (t_edim t) (t_sdim t) name = Some e /\ lookup name (t_tab t) = Some e.
Proof.
  assert (H : forallb (fun t => forallb (check_name t) (t_adv t)) all_tables = true)
    by (vm_compute; reflexivity).
  intros t Ht name Hn Hc.
  rewrite forallb_forall in H. specialize (H t Ht).
  rewrite forallb_forall in H. specialize (H name Hn).
  unfold check_name in H. rewrite Hc in H.
  destruct (expected (t_class t) (t_dim t) (t_edim t) (t_sdim t) name) as [e|]; [|discriminate].
  destruct (lookup name (t_tab t)) as [e'|]; [|discriminate].
  apply entry_eqb_eq in H. subst. exists e'. split; reflexivity.
Qed.
Print Assumptions component_wiring.

Theorem advertised_have_branch :
  forall t, In t all_tables -> forall name, In name (t_adv t) ->
  exists e, lookup name (t_tab t) = Some e /\ e <> ENoBranch /\ e <> ERaises.
Proof.
  assert (H : forallb (fun t => forallb (has_branch t) (t_adv t)) all_tables = true)
    by (vm_compute; reflexivity).
  intros t Ht name Hn.
  rewrite forallb_forall in H. specialize (H t Ht).
  rewrite forallb_forall in H. specialize (H name Hn).
  unfold has_branch in H. destruct (lookup name (t_tab t)) as [e|]; [|discriminate].
  exists e. split; [reflexivity|]. destruct e; simpl in H; split; congruence.
Qed.
Print Assumptions advertised_have_branch.

(* Informational only (not part of the property): literal branches of Result() that no
   configuration advertises are printed above as UNADVERTISED_BRANCHES; they are unreachable
   behind _Results_Check_Available and are neither an obligation nor a violation. *)

(* ---------- non-vacuity ---------- *)
Example wiring_nonvacuous :
  exists t name, In t all_tables /\ In name (t_adv t) /\ covered (t_class t) name = true /\
                 expected (t_class t) (t_dim t) (t_edim t) (t_sdim t) name = Some (ETens true 2 true).
Proof.
  exists tab_Elastic_dim2, "Sxy". vm_compute. repeat split; auto 40.
Qed.

Example spec_examples :
  expected "Elastic" 3 3 3 "Syz" = Some (ETens true 3 true) /\
  expected "Elastic" 3 3 3 "Exz" = Some (ETens false 4 true) /\
  expected "Elastic" 3 3 3 "Sxy" = Some (ETens true 5 true) /\
  expected "Elastic" 2 2 2 "Sxy" = Some (ETens true 2 true) /\
  expected "Elastic" 2 2 2 "Szz" = None /\
  expected "WeakForms" 3 3 3 "vz" = Some (ECol SV 2) /\
  expected "Elastic" 2 2 2 "az" = None /\
  expected "Beam" 3 3 3 "ry'" = Some (ETens false 2 false) /\
  expected "Beam" 2 2 2 "rz" = Some (ECol SU 2) /\
  expected "Beam" 2 2 2 "Sxy" = Some (ETens true 2 false) /\
  expected "HyperElastic" 2 3 2 "Exy" = Some (ETens false 5 true) /\
  expected "HyperElastic" 2 3 2 "Sxy" = Some (ETens true 2 true).
Proof. vm_compute. repeat split. Qed.
