(* C16 -- reaction balance end to end for the 2-D / 3-D elastic simulation: the assembled K (as the
   source builds it: K_e = t * sum_p wJ_p B_p' C B_p with the B layout of Get_B_e_pg, scatter-add)
   annihilates every rigid translation, for ANY displacement u on the other side:

        u' K T = 0    and (C symmetric)   sum_I T_I (K u)_I = 0,      T_I = t_(I mod dim)

   i.e. the nodal forces K u have no resultant, so after a solve sum(reactions) + sum(loads) = 0 in
   every direction.  The only hypothesis on the elements is sum_a dN_k(a) = 0 at every Gauss point
   (gradient of the partition of unity, C06 / C02_constant_zero_gradient) and that the dof maps keep
   the component (global dof = node*dim + component, as Get_assembly_e builds them). *)
From Coq Require Import Reals List Lra Lia Arith Bool.
From EFLib Require Import C02_QuadForm.
From EFP Require Import Gen_Energy C16_energy_e2e C16_strain.
Import ListNotations.
Open Scope R_scope.

(* a quadrature sample whose B operator is the one Get_B_e_pg builds from nodal gradients dN *)
Definition is_B2 (nPe : nat) (c : R) (p : gp) : Prop :=
  exists dN : nat -> nat -> R, (forall k, sumn nPe (fun a => dN k a) = 0) /\ forall r i, gB p r i = B2 c dN r i.
Definition is_B3 (nPe : nat) (c : R) (p : gp) : Prop :=
  exists dN : nat -> nat -> R, (forall k, sumn nPe (fun a => dN k a) = 0) /\ forall r i, gB p r i = B3 c dN r i.

Section Balance.
Variables (C : nat -> nat -> R) (dim : nat) (th c : R).

Theorem reaction_balance_translations_2d : forall (N : nat) (els : list elem) (nPe_of : elem -> nat) (u t : nat -> R),
  (forall e, In e els -> forall i, (i < m_nd e)%nat -> (m_P e i < N)%nat) ->
  (forall e, In e els -> m_nd e = (nPe_of e * 2)%nat /\ (forall i, (m_P e i) mod 2 = i mod 2)%nat /\
                          forall p, In p (m_pts e) -> is_B2 (nPe_of e) c p) ->
  bil N (Kglob 3 C dim th els) u (fun I => t (I mod 2)%nat) = 0.
Proof.
  intros N els nPe_of u t Hr He. apply reaction_balance_e2e; [exact Hr|].
  intros e Hin p Hp a Ha. destruct (He e Hin) as (Hnd & HP & HB). destruct (HB p Hp) as (dN & Hpou & Hg).
  unfold strain. simpl. rewrite Hnd.
  rewrite (sumn_ext _ _ (fun i => B2 c dN a i * gather (as_el 3 C dim th e) (fun I => t (I mod 2)%nat) i)) by (intros; rewrite Hg; reflexivity).
  apply (translation_zero_strain_2d (nPe_of e) c dN (gather (as_el 3 C dim th e) (fun I => t (I mod 2)%nat)) Hpou t); [|exact Ha].
  intro i. unfold gather, as_el. cbn [e_P]. rewrite HP. reflexivity.
Qed.

Theorem reaction_balance_translations_3d : forall (N : nat) (els : list elem) (nPe_of : elem -> nat) (u t : nat -> R),
  (forall e, In e els -> forall i, (i < m_nd e)%nat -> (m_P e i < N)%nat) ->
  (forall e, In e els -> m_nd e = (nPe_of e * 3)%nat /\ (forall i, (m_P e i) mod 3 = i mod 3)%nat /\
                          forall p, In p (m_pts e) -> is_B3 (nPe_of e) c p) ->
  bil N (Kglob 6 C dim th els) u (fun I => t (I mod 3)%nat) = 0.
Proof.
  intros N els nPe_of u t Hr He. apply reaction_balance_e2e; [exact Hr|].
  intros e Hin p Hp a Ha. destruct (He e Hin) as (Hnd & HP & HB). destruct (HB p Hp) as (dN & Hpou & Hg).
  unfold strain. simpl. rewrite Hnd.
  rewrite (sumn_ext _ _ (fun i => B3 c dN a i * gather (as_el 6 C dim th e) (fun I => t (I mod 3)%nat) i)) by (intros; rewrite Hg; reflexivity).
  apply (translation_zero_strain_3d (nPe_of e) c dN (gather (as_el 6 C dim th e) (fun I => t (I mod 3)%nat)) Hpou t); [|exact Ha].
  intro i. unfold gather, as_el. cbn [e_P]. rewrite HP. reflexivity.
Qed.
End Balance.

Print Assumptions reaction_balance_translations_2d.
Print Assumptions reaction_balance_translations_3d.

(* non-vacuity: one TRI3-like element (3 nodes, gradients summing to zero), identity dof map *)
Example balance_instance :
  let dN := fun (k a : nat) => match a with 0%nat => -1 | 1%nat => 1 | _ => 0 end in
  let p := {| gw := 1 / 2; gB := fun r i => B2 (1 / 2) dN r i |} in
  is_B2 3 (1 / 2) p.
Proof.
  simpl. exists (fun (k a : nat) => match a with 0%nat => -1 | 1%nat => 1 | _ => 0 end). split.
  - intro k. simpl. ring.
  - reflexivity.
Qed.
