(* C16 -- energy of a scatter-added matrix: x' (sum_e P_e' K_e P_e) x = sum_e (P_e x)' K_e (P_e x),
   for every list of elements (any sizes, any dof numbering, repeated dofs allowed), hence
   Wdef = 1/2 u'Ku whenever each element energy is 1/2 u_e'K_e u_e (both use the `rigi` rule).

   The global matrix is the COO triplet list the assembly builds (duplicates are summed by the
   sparse format, i.e. the bilinear form of the list is the sum over its triplets). *)
From Coq Require Import Reals List Lra Lia.
Import ListNotations.
Open Scope R_scope.

Fixpoint rsum (l : list R) : R := match l with [] => 0 | x :: r => x + rsum r end.

Lemma rsum_app : forall a b, rsum (a ++ b) = rsum a + rsum b.
Proof. induction a; intros; simpl; [ring | rewrite IHa; ring]. Qed.

Definition triplet := (nat * nat * R)%type.

(* bilinear form of a COO list *)
Definition coo_form (T : list triplet) (y x : nat -> R) : R :=
  rsum (map (fun t => y (fst (fst t)) * snd t * x (snd (fst t))) T).

Lemma coo_form_app : forall A B y x, coo_form (A ++ B) y x = coo_form A y x + coo_form B y x.
Proof. intros. unfold coo_form. rewrite map_app, rsum_app. reflexivity. Qed.

(* an element: its global dofs and its dense matrix (list of rows) *)
Record element := { dofs : list nat; Ke : list (list R) }.

(* rows/cols of the assembly: triplet (dofs_i, dofs_j, Ke_ij) *)
Definition row_triplets (r : nat) (cols : list nat) (vals : list R) : list triplet :=
  map (fun cv => (r, fst cv, snd cv)) (combine cols vals).
Fixpoint elem_triplets_aux (rows : list nat) (cols : list nat) (K : list (list R)) : list triplet :=
  match rows, K with
  | r :: rows', kr :: K' => row_triplets r cols kr ++ elem_triplets_aux rows' cols K'
  | _, _ => []
  end.
Definition elem_triplets (e : element) : list triplet := elem_triplets_aux (dofs e) (dofs e) (Ke e).
Definition assemble (els : list element) : list triplet := flat_map elem_triplets els.

(* local bilinear form ye' Ke xe on the gathered vectors P_e y = map y dofs *)
Fixpoint dotl (a b : list R) : R :=
  match a, b with x :: a', y :: b' => x * y + dotl a' b' | _, _ => 0 end.
Fixpoint local_form (ye : list R) (K : list (list R)) (xe : list R) : R :=
  match ye, K with
  | yi :: ye', kr :: K' => yi * dotl kr xe + local_form ye' K' xe
  | _, _ => 0
  end.
Definition gather (x : nat -> R) (e : element) : list R := map x (dofs e).
Definition elem_form (e : element) (y x : nat -> R) : R := local_form (gather y e) (Ke e) (gather x e).

Lemma row_form : forall r cols vals y x,
  coo_form (row_triplets r cols vals) y x = y r * dotl vals (map x cols).
Proof.
  intros r cols. induction cols as [|c cols IH]; intros vals y x.
  - destruct vals; simpl; unfold coo_form; simpl; ring.
  - destruct vals as [|v vals].
    + unfold coo_form. simpl. ring.
    + unfold row_triplets. simpl. unfold coo_form in *. simpl.
      specialize (IH vals y x). unfold row_triplets in IH. rewrite IH. ring.
Qed.

Lemma elem_aux_form : forall rows cols K y x,
  coo_form (elem_triplets_aux rows cols K) y x = local_form (map y rows) K (map x cols).
Proof.
  induction rows as [|r rows IH]; intros cols K y x.
  - simpl. unfold coo_form. reflexivity.
  - destruct K as [|kr K].
    + simpl. unfold coo_form. reflexivity.
    + simpl. rewrite coo_form_app, row_form, IH. reflexivity.
Qed.

Lemma elem_triplets_form : forall e y x, coo_form (elem_triplets e) y x = elem_form e y x.
Proof. intros. unfold elem_triplets, elem_form, gather. apply elem_aux_form. Qed.

(* scatter energy lemma, all element lists *)
Theorem scatter_energy : forall (els : list element) (y x : nat -> R),
  coo_form (assemble els) y x = rsum (map (fun e => elem_form e y x) els).
Proof.
  induction els as [|e els IH]; intros y x.
  - reflexivity.
  - unfold assemble in *. simpl. rewrite coo_form_app, IH, elem_triplets_form. reflexivity.
Qed.
Print Assumptions scatter_energy.

(* Wdef = 1/2 u'Ku for arbitrary (non-equilibrium) u, provided each element's reported energy
   is the element quadratic form (element-level fact: K_e and the energy density use the same
   quadrature rule) *)
Theorem energy_identity : forall (els : list element) (We : list R) (u : nat -> R),
  We = map (fun e => 1 / 2 * elem_form e u u) els ->
  rsum We = 1 / 2 * coo_form (assemble els) u u.
Proof.
  intros els We u H. subst. rewrite scatter_energy.
  induction els as [|e els IH]; simpl; [ring | rewrite IH; ring].
Qed.
Print Assumptions energy_identity.

(* reaction balance, abstract core: if every element matrix annihilates the element restriction
   of t (a rigid translation: sum_j Ke_ij t_j = 0 for every row i), then t' K u = 0 for the
   assembled K and ANY u when K_e is symmetric -- stated on the left: (K' t).u, i.e. the form
   with t as trial vector vanishes. *)
Definition annihilates (e : element) (t : nat -> R) : Prop :=
  Forall (fun kr => dotl kr (gather t e) = 0) (Ke e).

Lemma local_form_zero : forall K ye xe, Forall (fun kr => dotl kr xe = 0) K -> local_form ye K xe = 0.
Proof.
  induction K as [|kr K IH]; intros ye xe H; destruct ye; simpl; try reflexivity.
  inversion H; subst. rewrite H2, IH by assumption. ring.
Qed.

Theorem reaction_balance_core : forall els (t u : nat -> R),
  (forall e, In e els -> annihilates e t) ->
  coo_form (assemble els) u t = 0.
Proof.
  intros els t u H. rewrite scatter_energy.
  induction els as [|e els IH]; simpl; [reflexivity|].
  rewrite IH by (intros; apply H; right; assumption).
  unfold elem_form. rewrite local_form_zero; [ring|]. apply H. left. reflexivity.
Qed.
Print Assumptions reaction_balance_core.

(* non-vacuity: two 2-dof bar elements sharing dof 1; t = (1,1,1) is annihilated *)
Example scatter_instance :
  let e1 := {| dofs := [0;1]%nat; Ke := [[1;-1];[-1;1]] |} in
  let e2 := {| dofs := [1;2]%nat; Ke := [[2;-2];[-2;2]] |} in
  (forall e, In e [e1;e2] -> annihilates e (fun _ => 1)) /\
  coo_form (assemble [e1;e2]) (fun n => INR n) (fun n => INR n) = 1 + 2.
Proof.
  simpl. split.
  - intros e [H|[H|[]]]; subst; unfold annihilates, gather; simpl;
      repeat (apply Forall_cons; [simpl; ring|]); apply Forall_nil.
  - unfold coo_form, assemble. simpl. ring.
Qed.
