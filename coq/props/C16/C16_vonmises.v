(* C16 -- the von Mises formulas of Models/_utils.py (regenerated in Gen_Results.v) are
   sqrt(3/2 dev:dev), for all real components; the in-place 1/coef rescale with coef = sqrt 2
   turns the stored Kelvin-Mandel shear entries into the tensor components. *)
From Coq Require Import Reals Lra List.
From EFP Require Import Gen_Results.
Import ListNotations.
Open Scope R_scope.

(* dev:dev of the symmetric tensor with components xx yy zz yz xz xy *)
Definition devdev (xx yy zz yz xz xy : R) : R :=
  let m := (xx + yy + zz) / 3 in
  (xx - m) ^ 2 + (yy - m) ^ 2 + (zz - m) ^ 2 + 2 * (yz ^ 2 + xz ^ 2 + xy ^ 2).

(* squared Euclidean norm of the deviator of a Kelvin-Mandel vector (s3 s4 s5 carry sqrt 2) *)
Definition km_devnorm2 (s0 s1 s2 s3 s4 s5 : R) : R :=
  let m := (s0 + s1 + s2) / 3 in
  (s0 - m) ^ 2 + (s1 - m) ^ 2 + (s2 - m) ^ 2 + s3 ^ 2 + s4 ^ 2 + s5 ^ 2.

Theorem von_mises_3d_sq : forall xx yy zz yz xz xy,
  vm3_arg xx yy zz yz xz xy = 3 / 2 * devdev xx yy zz yz xz xy.
Proof. intros. unfold vm3_arg, devdev. field. Qed.
Print Assumptions von_mises_3d_sq.

Theorem von_mises_3d : forall xx yy zz yz xz xy,
  sqrt (vm3_arg xx yy zz yz xz xy) = sqrt (3 / 2 * devdev xx yy zz yz xz xy).
Proof. intros. rewrite von_mises_3d_sq. reflexivity. Qed.
Print Assumptions von_mises_3d.

(* 2-D: under the plane assumption the code uses (zz = yz = xz = 0) *)
Theorem von_mises_2d_sq : forall xx yy xy,
  vm2_arg xx yy xy = 3 / 2 * devdev xx yy 0 0 0 xy.
Proof. intros. unfold vm2_arg, devdev. field. Qed.
Print Assumptions von_mises_2d_sq.

Theorem von_mises_2d : forall xx yy xy,
  sqrt (vm2_arg xx yy xy) = sqrt (3 / 2 * devdev xx yy 0 0 0 xy).
Proof. intros. rewrite von_mises_2d_sq. reflexivity. Qed.
Print Assumptions von_mises_2d.

Lemma inv_sqrt2_sq : (1 / sqrt 2) ^ 2 = 1 / 2.
Proof.
  assert (H : sqrt 2 * sqrt 2 = 2) by (apply sqrt_sqrt; lra).
  assert (Hp : 0 < sqrt 2) by (apply sqrt_lt_R0; lra).
  field_simplify_eq; [|lra]. simpl. rewrite Rmult_1_r. lra.
Qed.

(* the rescale applied by the code gives back the tensor component *)
Theorem km_rescale : forall t, (sqrt 2 * t) * (1 / sqrt 2) = t.
Proof.
  intro t. assert (Hp : 0 < sqrt 2) by (apply sqrt_lt_R0; lra). field. lra.
Qed.
Print Assumptions km_rescale.

(* which stored components the code rescales = the shear entries of the Kelvin-Mandel vector,
   and the von Mises branch reads exactly those after the rescale *)
Theorem km_rescaled_components :
  km2_rescaled = [2%nat] /\ km3_rescaled = [3%nat; 4%nat; 5%nat] /\
  vm2_rescaled = [(0%nat, false); (1%nat, false); (2%nat, true)] /\
  vm3_rescaled = [(0%nat, false); (1%nat, false); (2%nat, false); (3%nat, true); (4%nat, true); (5%nat, true)].
Proof. repeat split; reflexivity. Qed.

(* end to end on the stored Kelvin-Mandel vector, coef = sqrt 2 *)
Theorem von_mises_km_3d : forall s0 s1 s2 s3 s4 s5,
  let c := 1 / sqrt 2 in
  sqrt (vm3_arg s0 s1 s2 (s3 * c) (s4 * c) (s5 * c)) = sqrt (3 / 2 * km_devnorm2 s0 s1 s2 s3 s4 s5).
Proof.
  (* robust to any algebraically equivalent way of writing the formula: go through the *_sq
     theorem and the substitution s_k = sqrt 2 * t_k of the shear entries *)
  intros. f_equal. rewrite von_mises_3d_sq. unfold devdev, km_devnorm2.
  assert (H : forall s, (s * c) ^ 2 = s ^ 2 / 2).
  { intro s. replace ((s * c) ^ 2) with (s ^ 2 * c ^ 2) by ring. unfold c. rewrite inv_sqrt2_sq. field. }
  rewrite !H. field.
Qed.
Print Assumptions von_mises_km_3d.

Theorem von_mises_km_2d : forall s0 s1 s2,
  let c := 1 / sqrt 2 in
  sqrt (vm2_arg s0 s1 (s2 * c)) = sqrt (3 / 2 * km_devnorm2 s0 s1 0 0 0 s2).
Proof.
  intros. f_equal. rewrite von_mises_2d_sq. unfold devdev, km_devnorm2.
  assert (H : forall s, (s * c) ^ 2 = s ^ 2 / 2).
  { intro s. replace ((s * c) ^ 2) with (s ^ 2 * c ^ 2) by ring. unfold c. rewrite inv_sqrt2_sq. field. }
  rewrite !H. field.
Qed.
Print Assumptions von_mises_km_2d.

(* sanity: uniaxial stress s gives |s| *)
Example von_mises_uniaxial : forall s, sqrt (vm3_arg s 0 0 0 0 0) = Rabs s.
Proof.
  intro s. rewrite von_mises_3d_sq.
  assert (E : 3 / 2 * devdev s 0 0 0 0 0 = Rsqr s) by (unfold devdev, Rsqr; field).
  rewrite E.
  apply sqrt_Rsqr_abs.
Qed.
