(* C16 -- end-to-end energy identity and reaction balance for the elastic simulation.

   Model of the code (one main-dimension group after the other = one list of elements):
     K_e        = tK * sum_p wJ_p B_p' C B_p            Operators.Bilinear.LinearizedElasticity
                                                         (leftDispPart = wJ * B.T, einsum with C, B)
                                                         and `K_e *= thickness` (2-D only)
     K          = scatter-add of the K_e                 (Assembly, property C03)
     psi_p      = 1/2 (C eps_p) . eps_p, eps_p = B_p u_e  _Elastic.Calc_Psi_e_pg / Calc_Epsilon_e_pg
     Wdef_e     = sum_p tW * wJ_p * psi_p                Elastic._Calc_Psi_Elas
     Wdef       = sum_e Wdef_e
   with the SAME quadrature samples (both `rigi`) -- these facts about the source are
   re-read on every run (Gen_Energy.v, translator/c16_energy.py).

   Theorems hold for all element lists (any sizes, any dof maps), all quadrature point lists
   (any weights, any B), any C, any thickness, arbitrary (non-equilibrium) u.
   They rest on EFLib.C02_QuadForm (Ke_energy, assemble_energy). *)
From Coq Require Import Reals List Lra Lia Arith Bool.
From EFLib Require Import C02_QuadForm.
From EFP Require Import Gen_Energy.
Import ListNotations.
Open Scope R_scope.

(* the thickness factor as the source applies it: only in 2-D, or always *)
Definition tfac (only2d : bool) (dim : nat) (t : R) : R :=
  if only2d then (if Nat.eqb dim 2 then t else 1) else t.

(* what the source does (Gen_Energy.v) *)
Theorem thickness_rule_consistent : forall dim t,
  tfac wdef_thickness_2d_only dim t = tfac ke_thickness_2d_only dim t.
Proof. intros. reflexivity. Qed.

Theorem same_quadrature_and_density :
  wdef_rule_is_rigi = true /\ ke_rule_is_rigi = true /\ psi_is_half_sigma_eps = true.
Proof. repeat split; reflexivity. Qed.

Section Elastic.
Variables (ns : nat) (C : nat -> nat -> R).
Variables (dim : nat) (t : R).

(* an element: number of local dofs, dof map, quadrature samples (gw = wJ, gB = B) *)
Record elem := { m_nd : nat; m_P : nat -> nat; m_pts : list gp }.

Definition tK := tfac ke_thickness_2d_only dim t.
Definition tW := tfac wdef_thickness_2d_only dim t.

(* element stiffness as assembled *)
Definition Kelem (e : elem) (i j : nat) : R := tK * Ke ns C (m_pts e) i j.
Definition as_el (e : elem) : el := {| e_nd := m_nd e; e_P := m_P e; e_K := Kelem e |}.
Definition Kglob (els : list elem) := assemble (map as_el els).

(* energy density at one sample and the reported element energy *)
Definition psi (e : elem) (p : gp) (ue : nat -> R) : R :=
  1 / 2 * bilC ns C (strain (m_nd e) p ue) (strain (m_nd e) p ue).
Definition Wdef_e (e : elem) (ue : nat -> R) : R := sumL (m_pts e) (fun p => tW * gw p * psi e p ue).
Definition Wdef (els : list elem) (u : nat -> R) : R :=
  sumL els (fun e => Wdef_e e (gather (as_el e) u)).

Lemma bil_scale_K : forall n K c x y, bil n (fun i j => c * K i j) x y = c * bil n K x y.
Proof.
  intros. unfold bil. rewrite <- sumn_scal. apply sumn_ext; intros i _.
  rewrite <- sumn_scal. apply sumn_ext; intros j _. ring.
Qed.

(* element level: reported element energy = 1/2 u_e' K_e u_e *)
Theorem wdef_e_is_half_quadratic : forall e ue,
  Wdef_e e ue = 1 / 2 * bil (m_nd e) (Kelem e) ue ue.
Proof.
  intros e ue. unfold Wdef_e, Kelem, psi. rewrite bil_scale_K, Ke_energy.
  unfold tW, tK. rewrite thickness_rule_consistent.
  rewrite <- sumL_scal, <- sumL_scal. apply sumL_ext. intros p _. ring.
Qed.

(* end to end: Wdef = 1/2 u'Ku for arbitrary u *)
Theorem energy_identity_e2e : forall (N : nat) (els : list elem) (u : nat -> R),
  (forall e, In e els -> forall i, (i < m_nd e)%nat -> (m_P e i < N)%nat) ->
  Wdef els u = 1 / 2 * bil N (Kglob els) u u.
Proof.
  intros N els u H. unfold Kglob. rewrite assemble_energy.
  - unfold Wdef. induction els as [|e els IH]; simpl; [ring|].
    rewrite IH by (intros e0 H0 i Hi; apply H; [right; assumption | assumption]).
    rewrite wdef_e_is_half_quadratic. simpl. ring.
  - intros e' He' i Hi. apply in_map_iff in He'. destruct He' as [e [<- He]]. simpl in *. apply H; assumption.
Qed.

(* sum of the element energies = total (what `Wdef` and `Wdef_e` report) is definitional;
   the per-element version of the identity: *)
Corollary wdef_e_gathered : forall e u,
  Wdef_e e (gather (as_el e) u) = 1 / 2 * bil (m_nd e) (e_K (as_el e)) (gather (as_el e) u) (gather (as_el e) u).
Proof. intros. apply wdef_e_is_half_quadratic. Qed.

(* reaction balance: if a global vector T (a rigid translation) has zero strain at every
   quadrature sample of every element (C02_rigid_zero_strain_2D/3D prove this from the
   regenerated shape-function tables for every element type and all node coordinates), then
   u' K T = 0 for EVERY u: the nodal forces K u have no resultant along T, i.e. after a solve
   sum(reactions) + sum(loads) = 0 in that direction. *)
Theorem reaction_balance_e2e : forall (N : nat) (els : list elem) (u T : nat -> R),
  (forall e, In e els -> forall i, (i < m_nd e)%nat -> (m_P e i < N)%nat) ->
  (forall e, In e els -> forall p, In p (m_pts e) -> forall a, (a < ns)%nat ->
             strain (m_nd e) p (gather (as_el e) T) a = 0) ->
  bil N (Kglob els) u T = 0.
Proof.
  intros N els u T H Hz. unfold Kglob. rewrite assemble_energy.
  - induction els as [|e els IH]; simpl; [reflexivity|].
    rewrite IH; [| intros e0 H0 i Hi; apply H; [right; assumption | assumption]
                 | intros e0 H0 p Hp a Ha; apply Hz; [right; assumption | assumption | assumption] ].
    unfold Kelem. rewrite bil_scale_K, Ke_energy.
    rewrite (sumL_ext (m_pts e) _ (fun _ => 0)).
    + assert (Z : forall (l : list gp), sumL l (fun _ => 0) = 0) by (induction l; simpl; lra).
      rewrite Z. ring.
    + intros p Hp. unfold bilC, bil. rewrite sumn_zero_ext; [ring|]. intros a Ha.
      rewrite sumn_zero_ext; [ring|]. intros b Hb.
      rewrite (Hz e (or_introl eq_refl) p Hp b Hb). ring.
  - intros e' He' i Hi. apply in_map_iff in He'. destruct He' as [e [<- He]]. simpl in *. apply H; assumption.
Qed.

(* and in terms of the nodal force vector K u (symmetric C): sum_I (K u)_I T_I = 0 *)
Corollary nodal_forces_have_no_resultant : forall (N : nat) (els : list elem) (u T : nat -> R),
  (forall a b, (a < ns)%nat -> (b < ns)%nat -> C a b = C b a) ->
  (forall e, In e els -> forall i, (i < m_nd e)%nat -> (m_P e i < N)%nat) ->
  (forall e, In e els -> forall p, In p (m_pts e) -> forall a, (a < ns)%nat ->
             strain (m_nd e) p (gather (as_el e) T) a = 0) ->
  sumn N (fun I => T I * mv N (Kglob els) u I) = 0.
Proof.
  intros N els u T HC H Hz.
  assert (E : sumn N (fun I => T I * mv N (Kglob els) u I) = bil N (Kglob els) T u).
  { unfold bil, mv. apply sumn_ext; intros I _. rewrite <- sumn_scal. apply sumn_ext; intros J _. ring. }
  rewrite E. rewrite bil_sym.
  - apply reaction_balance_e2e; assumption.
  - intros i j _ _. unfold Kglob. apply assemble_symmetric.
    intros e' He'. apply in_map_iff in He'. destruct He' as [e [<- He]]. simpl.
    intros a b _ _. unfold Kelem. f_equal. apply Ke_symmetric. assumption.
Qed.

End Elastic.

Print Assumptions energy_identity_e2e.
Print Assumptions reaction_balance_e2e.
Print Assumptions nodal_forces_have_no_resultant.

(* non-vacuity: two 2-dof bars sharing a dof, one sample each, B = [-1 1]; the translation
   (1,1,1) has zero strain *)
Example e2e_instance :
  let pt := {| gw := 2; gB := fun a i => match a, i with 0%nat, 0%nat => -1 | 0%nat, 1%nat => 1 | _, _ => 0 end |} in
  let e1 := {| m_nd := 2; m_P := fun i => i; m_pts := [pt] |} in
  let e2 := {| m_nd := 2; m_P := fun i => S i; m_pts := [pt] |} in
  (forall e, In e [e1; e2] -> forall i, (i < m_nd e)%nat -> (m_P e i < 3)%nat) /\
  (forall e, In e [e1; e2] -> forall p, In p (m_pts e) -> forall a, (a < 1)%nat ->
      strain (m_nd e) p (gather (as_el 1 (fun _ _ => 3) 2 (5 / 2) e) (fun _ => 1)) a = 0).
Proof.
  simpl. split.
  - intros e [<-|[<-|[]]] i Hi; simpl in *; lia.
  - intros e [<-|[<-|[]]] p [<-|[]] a Ha; assert (a = 0%nat) by lia; subst; unfold strain, gather; simpl; ring.
Qed.
