(* C16 -- the strain / stress arrays behind the named results and what the results are.

   Source facts regenerated every run (Gen_Energy.v, translator/c16_energy.py through the partial
   evaluator): Calc_Epsilon_e_pg = Get_B_e_pg(matrixType) @ Locates_sol_e(sol);
   Calc_Sigma_e_pg = C @ Epsilon; Calc_Psi_e_pg = 1/2 (Sigma @ Epsilon); and (Gen_Results.v)
   every S?? / E?? / Svm / Evm result is `.mean(1)` -- the mean over the Gauss points -- of the
   component / of the von Mises expression evaluated AT EACH Gauss point.

   Model: strain p u = B_p u_e (EFLib.C02_QuadForm.strain), sigma p u = C (B_p u_e). *)
From Coq Require Import Reals List Lra Lia Arith Bool.
From EFLib Require Import C02_QuadForm.
From EFP Require Import Gen_Energy Gen_Results C16_vonmises.
Import ListNotations.
Open Scope R_scope.

Theorem strain_stress_sources : eps_is_B_u = true /\ sigma_is_C_eps = true /\ psi_is_half_sigma_eps = true.
Proof. repeat split; reflexivity. Qed.

Section Fields.
Variables (ns nd : nat) (C : nat -> nat -> R).

(* C @ eps *)
Definition sigma (p : gp) (u : nat -> R) (a : nat) : R := sumn ns (fun b => C a b * strain nd p u b).

(* Sigma = C : (B u), entry by entry *)
Theorem sigma_is_C_B_u : forall p u a,
  sigma p u a = sumn ns (fun b => C a b * sumn nd (fun i => gB p b i * u i)).
Proof. reflexivity. Qed.

(* 1/2 (Sigma @ Epsilon) is the quadratic form used by the energy theorems *)
Theorem psi_from_sigma : forall p u,
  1 / 2 * sumn ns (fun a => sigma p u a * strain nd p u a) = 1 / 2 * bilC ns C (strain nd p u) (strain nd p u).
Proof.
  intros. f_equal. unfold bilC, bil, sigma. apply sumn_ext; intros a _.
  rewrite Rmult_comm, <- sumn_scal. apply sumn_ext; intros b _. ring.
Qed.

(* the stress is linear in the displacement: results of a sum of states add up *)
Theorem sigma_linear : forall p u v c a,
  sigma p (fun i => u i + c * v i) a = sigma p u a + c * sigma p v a.
Proof.
  intros. unfold sigma, strain. rewrite <- sumn_scal, <- sumn_plus. apply sumn_ext; intros b _.
  rewrite (sumn_ext nd _ (fun i => gB p b i * u i + c * (gB p b i * v i))) by (intros; ring).
  rewrite sumn_plus, sumn_scal. ring.
Qed.
End Fields.

(* ---------- what a named result is: the mean over the Gauss points ---------- *)
Fixpoint rsum (l : list R) : R := match l with [] => 0 | x :: r => x + rsum r end.
Definition mean (l : list R) : R := rsum l / INR (length l).

Lemma mean_ext : forall (A : Type) (f g : A -> R) (l : list A),
  (forall x, In x l -> f x = g x) -> mean (map f l) = mean (map g l).
Proof.
  intros A f g l H. unfold mean. rewrite !map_length. f_equal.
  induction l as [|x l IH]; simpl; [reflexivity|].
  rewrite H by (left; reflexivity). rewrite IH by (intros; apply H; right; assumption). reflexivity.
Qed.

(* a Kelvin-Mandel sample (xx yy zz  sqrt2 yz  sqrt2 xz  sqrt2 xy) *)
Definition km6 := (R * R * R * R * R * R)%type.
Definition c2 := 1 / sqrt 2.
Definition vm_at (s : km6) : R :=
  let '(s0, s1, s2, s3, s4, s5) := s in sqrt (vm3_arg s0 s1 s2 (s3 * c2) (s4 * c2) (s5 * c2)).
Definition vm_spec (s : km6) : R :=
  let '(s0, s1, s2, s3, s4, s5) := s in sqrt (3 / 2 * km_devnorm2 s0 s1 s2 s3 s4 s5).

(* Svm / Evm of an element = mean over its Gauss points of sqrt(3/2 s:s) (s the deviator), in
   Kelvin-Mandel components, for every list of samples *)
Theorem svm_is_mean_of_pointwise_von_mises_3d : forall samples : list km6,
  mean (map vm_at samples) = mean (map vm_spec samples).
Proof.
  intros. apply mean_ext. intros [[[[[s0 s1] s2] s3] s4] s5] _. unfold vm_at, vm_spec, c2.
  apply von_mises_km_3d.
Qed.

Definition km3 := (R * R * R)%type.
Definition vm2_at (s : km3) : R := let '(s0, s1, s2) := s in sqrt (vm2_arg s0 s1 (s2 * c2)).
Definition vm2_spec (s : km3) : R := let '(s0, s1, s2) := s in sqrt (3 / 2 * km_devnorm2 s0 s1 0 0 0 s2).

Theorem svm_is_mean_of_pointwise_von_mises_2d : forall samples : list km3,
  mean (map vm2_at samples) = mean (map vm2_spec samples).
Proof.
  intros. apply mean_ext. intros [[s0 s1] s2] _. unfold vm2_at, vm2_spec, c2. apply von_mises_km_2d.
Qed.

(* the order matters: the norm of the mean is a different quantity (uniaxial s and -s) *)
Example mean_of_norms_is_not_norm_of_means :
  let a := (1, 0, 0, 0, 0, 0) in let b := (-1, 0, 0, 0, 0, 0) in
  mean (map vm_at [a; b]) = 1 /\ vm_at (0, 0, 0, 0, 0, 0) = 0.
Proof.
  assert (H1 : vm3_arg 1 0 0 (0 * c2) (0 * c2) (0 * c2) = 1) by (unfold vm3_arg; field).
  assert (H2 : vm3_arg (-1) 0 0 (0 * c2) (0 * c2) (0 * c2) = 1) by (unfold vm3_arg; field).
  assert (H0 : vm3_arg 0 0 0 (0 * c2) (0 * c2) (0 * c2) = 0) by (unfold vm3_arg; field).
  cbv zeta. unfold mean. cbn [map rsum length vm_at]. rewrite H1, H2, H0, sqrt_1, sqrt_0.
  split; [simpl; lra | reflexivity].
Qed.

Print Assumptions svm_is_mean_of_pointwise_von_mises_3d.
Print Assumptions psi_from_sigma.
