(* C16 -- node <-> element conversions preserve constant fields, for any mesh.

   Model of Simulations/_simu.py::Results_Reshape_values and FEM/_mesh.py::Get_Node_Values:
   * node -> element: per element the arithmetic mean of the values at its nodes
     (np.mean(values_n[groupElem.connect], axis=1), groups concatenated: a mesh is just a list
     of elements of arbitrary, possibly different, numbers of nodes);
   * element -> node: row n of the 0/1 (here: any real weights) matrix connect_n_e applied to
     the element values, divided by the row sum ((connect_n_e @ values_e) * 1 / elements_n). *)
From Coq Require Import Reals List Lra Lia.
Import ListNotations.
Open Scope R_scope.

Fixpoint rsum (l : list R) : R := match l with [] => 0 | x :: r => x + rsum r end.

Fixpoint dot (w v : list R) : R :=
  match w, v with
  | a :: w', b :: v' => a * b + dot w' v'
  | _, _ => 0
  end.

(* node -> element *)
Definition elem_mean (vn : nat -> R) (e : list nat) : R := rsum (map vn e) / INR (length e).
Definition node_to_elem (vn : nat -> R) (conn : list (list nat)) : list R := map (elem_mean vn) conn.

(* element -> node: one row of connect_n_e per node *)
Definition node_val (ve : list R) (row : list R) : R := dot row ve * 1 / rsum row.
Definition elem_to_node (rows : list (list R)) (ve : list R) : list R := map (node_val ve) rows.

Lemma rsum_const : forall (A : Type) (l : list A) c, rsum (map (fun _ => c) l) = INR (length l) * c.
Proof.
  induction l as [|a l IH]; intro c.
  - simpl. ring.
  - change (length (a :: l)) with (S (length l)). rewrite S_INR. simpl. rewrite IH. ring.
Qed.

Lemma elem_mean_const : forall c e, e <> [] -> elem_mean (fun _ => c) e = c.
Proof.
  intros c e He. unfold elem_mean. rewrite rsum_const.
  assert (INR (length e) <> 0).
  { apply not_0_INR. destruct e; [congruence | simpl; lia]. }
  field. assumption.
Qed.

Lemma dot_const : forall row ve c, length ve = length row -> Forall (fun x => x = c) ve ->
  dot row ve = rsum row * c.
Proof.
  induction row as [|a row IH]; intros ve c Hl Hf.
  - simpl. ring.
  - destruct ve as [|b ve]; [simpl in Hl; lia|].
    inversion Hf; subst. simpl. rewrite (IH ve c); [ring | simpl in Hl; lia | assumption].
Qed.

Lemma node_val_const : forall row ve c, length ve = length row -> Forall (fun x => x = c) ve ->
  rsum row <> 0 -> node_val ve row = c.
Proof.
  intros. unfold node_val. rewrite (dot_const row ve c) by assumption. field. assumption.
Qed.

Theorem node_to_elem_const : forall conn c,
  (forall e, In e conn -> e <> []) ->
  Forall (fun x => x = c) (node_to_elem (fun _ => c) conn).
Proof.
  intros conn c H. unfold node_to_elem. apply Forall_forall. intros x Hx.
  apply in_map_iff in Hx. destruct Hx as [e [He Hin]]. subst. apply elem_mean_const. auto.
Qed.

Theorem elem_to_node_const : forall rows ve c,
  Forall (fun x => x = c) ve ->
  (forall r, In r rows -> length r = length ve /\ rsum r <> 0) ->
  Forall (fun x => x = c) (elem_to_node rows ve).
Proof.
  intros rows ve c Hc Hr. unfold elem_to_node. apply Forall_forall. intros x Hx.
  apply in_map_iff in Hx. destruct Hx as [r [He Hin]]. subst.
  destruct (Hr r Hin). apply node_val_const; auto.
Qed.

(* node -> element -> node of a constant nodal field is that constant, for any connectivity
   (any number of groups, any element sizes) and any incidence weights with non-zero row sums
   (every node belongs to at least one element) *)
Theorem const_preserved : forall (conn : list (list nat)) (rows : list (list R)) c,
  (forall e, In e conn -> e <> []) ->
  (forall r, In r rows -> length r = length conn /\ rsum r <> 0) ->
  Forall (fun x => x = c) (elem_to_node rows (node_to_elem (fun _ => c) conn)).
Proof.
  intros conn rows c He Hr. apply elem_to_node_const.
  - apply node_to_elem_const. assumption.
  - intros r Hin. destruct (Hr r Hin) as [Hl Hs]. split; [|assumption].
    unfold node_to_elem. rewrite map_length. assumption.
Qed.
Print Assumptions const_preserved.

(* and element -> node -> element of a constant element field *)
Theorem const_preserved_elem : forall (conn : list (list nat)) (rows : list (list R)) (ve : list R) c,
  Forall (fun x => x = c) ve ->
  (forall e, In e conn -> e <> [] /\ forall n, In n e -> (n < length rows)%nat) ->
  (forall r, In r rows -> length r = length ve /\ rsum r <> 0) ->
  Forall (fun x => x = c) (node_to_elem (fun n => nth n (elem_to_node rows ve) 0) conn).
Proof.
  intros conn rows ve c Hc He Hr.
  pose proof (elem_to_node_const rows ve c Hc Hr) as Hn.
  unfold node_to_elem. apply Forall_forall. intros x Hx.
  apply in_map_iff in Hx. destruct Hx as [e [Hx Hin]]. subst.
  destruct (He e Hin) as [Hne Hb]. unfold elem_mean.
  assert (Hm : map (fun n => nth n (elem_to_node rows ve) 0) e = map (fun _ => c) e).
  { apply map_ext_in. intros n Hn'. rewrite Forall_forall in Hn. apply Hn. apply nth_In.
    unfold elem_to_node. rewrite map_length. auto. }
  rewrite Hm. apply elem_mean_const. assumption.
Qed.
Print Assumptions const_preserved_elem.

(* non-vacuity: a QUAD4 + two TRI3 on 6 nodes, 0/1 incidence rows *)
Example const_preserved_instance :
  let conn := [[0;1;4;3]; [1;2;4]; [2;5;4]]%nat in
  let rows := [[1;0;0]; [1;1;0]; [0;1;1]; [1;0;0]; [1;1;1]; [0;0;1]] in
  (forall e, In e conn -> e <> []) /\ (forall r, In r rows -> length r = length conn /\ rsum r <> 0).
Proof.
  simpl. split.
  - intros e [H|[H|[H|[]]]]; subst; discriminate.
  - intros r H. repeat destruct H as [H|H]; subst; simpl; try (split; [reflexivity|lra]). contradiction.
Qed.
