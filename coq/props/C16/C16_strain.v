(* C16 -- the strain array is the Kelvin-Mandel vector of the symmetric gradient of the
   interpolated displacement, for the B operator AS THE SOURCE BUILDS IT (gen_Bcol2 / gen_Bcol3 are
   regenerated from the assignments of _GroupElem.Get_B_e_pg on every run, Gen_Energy.v), with
   local dof i = node * dim + component (Locates_sol_e / assembly ordering):

       eps = B u_e,   B[r][a*dim + d] = gen_Bcol<dim> c (grad N_a) d r,   c = cM
       grad_u k l = sum_a dN_k(a) * u(a*dim + l)            (= d u_l / d x_k at the Gauss point)

   2-D:  eps = (g00, g11, c (g10 + g01))            3-D:  eps = (g00, g11, g22, c(g21+g12), c(g20+g02), c(g10+g01))
   so with c = 1/sqrt 2 the E?? results (rescaled by 1/coef = 1/sqrt 2 on the shear rows) are the
   tensor components  eps_kl = 1/2 (d_k u_l + d_l u_k), for every element size, every
   shape-function gradient and every displacement. *)
From Coq Require Import Reals List Lra Lia Arith Bool.
From EFLib Require Import C02_QuadForm.
From EFP Require Import Gen_Energy.
Open Scope R_scope.

Lemma sumn_add : forall n k f, sumn (n + k) f = sumn n f + sumn k (fun i => f (n + i)%nat).
Proof.
  induction k; intro f.
  - rewrite Nat.add_0_r. simpl. ring.
  - rewrite Nat.add_succ_r. simpl. rewrite IHk. ring.
Qed.

(* a sum over the local dofs = a sum over nodes of a sum over components *)
Lemma sumn_block : forall m q f, sumn (m * q) f = sumn m (fun a => sumn q (fun d => f (a * q + d)%nat)).
Proof.
  induction m; intros q f; [reflexivity|].
  rewrite Nat.mul_succ_l, sumn_add, IHm. simpl. reflexivity.
Qed.

Section Strain.
Variables (nPe : nat) (c : R) (dN : nat -> nat -> R) (u : nat -> R).   (* one Gauss point: dN k a *)

Definition grad_u (q k l : nat) : R := sumn nPe (fun a => dN k a * u (a * q + l)%nat).

Definition B2 (r i : nat) : R := gen_Bcol2 c (fun k => dN k (i / 2)%nat) (i mod 2)%nat r.
Definition B3 (r i : nat) : R := gen_Bcol3 c (fun k => dN k (i / 3)%nat) (i mod 3)%nat r.
Definition eps2 (r : nat) : R := sumn (nPe * 2) (fun i => B2 r i * u i).
Definition eps3 (r : nat) : R := sumn (nPe * 3) (fun i => B3 r i * u i).

Lemma dec : forall q a d, (d < q)%nat -> ((a * q + d) / q = a /\ (a * q + d) mod q = d)%nat.
Proof.
  intros q a d H. split.
  - rewrite Nat.div_add_l by lia. rewrite Nat.div_small by lia. lia.
  - rewrite Nat.add_comm, Nat.mod_add by lia. apply Nat.mod_small. lia.
Qed.

Theorem strain_is_sym_grad_2d :
  eps2 0 = grad_u 2 0 0 /\ eps2 1 = grad_u 2 1 1 /\ eps2 2 = c * (grad_u 2 1 0 + grad_u 2 0 1).
Proof.
  unfold eps2, B2.
  assert (K : forall a, ((a * 2 + 0) / 2 = a /\ (a * 2 + 0) mod 2 = 0 /\ (a * 2 + 1) / 2 = a /\ (a * 2 + 1) mod 2 = 1)%nat).
  { intro a. destruct (dec 2 a 0 ltac:(lia)), (dec 2 a 1 ltac:(lia)). repeat split; assumption. }
  repeat split; rewrite sumn_block; unfold grad_u; rewrite <- ?sumn_plus, <- ?sumn_scal; apply sumn_ext; intros a _; cbn [sumn];
    destruct (K a) as (E1 & E2 & E3 & E4); rewrite E1, E2, E3, E4; simpl; ring.
Qed.

Theorem strain_is_sym_grad_3d :
  eps3 0 = grad_u 3 0 0 /\ eps3 1 = grad_u 3 1 1 /\ eps3 2 = grad_u 3 2 2 /\
  eps3 3 = c * (grad_u 3 2 1 + grad_u 3 1 2) /\ eps3 4 = c * (grad_u 3 2 0 + grad_u 3 0 2) /\
  eps3 5 = c * (grad_u 3 1 0 + grad_u 3 0 1).
Proof.
  unfold eps3, B3.
  assert (K : forall a, ((a * 3 + 0) / 3 = a /\ (a * 3 + 0) mod 3 = 0 /\ (a * 3 + 1) / 3 = a /\ (a * 3 + 1) mod 3 = 1 /\
                         (a * 3 + 2) / 3 = a /\ (a * 3 + 2) mod 3 = 2)%nat).
  { intro a. destruct (dec 3 a 0 ltac:(lia)), (dec 3 a 1 ltac:(lia)), (dec 3 a 2 ltac:(lia)). repeat split; assumption. }
  repeat split; rewrite sumn_block; unfold grad_u; rewrite <- ?sumn_plus, <- ?sumn_scal; apply sumn_ext; intros a _; cbn [sumn];
    destruct (K a) as (E1 & E2 & E3 & E4 & E5 & E6); rewrite E1, E2, E3, E4, E5, E6; simpl; ring.
Qed.

(* ---- rigid translations have zero strain: closes the hypothesis of reaction_balance_e2e ----
   T(a*q + l) = t_l (the same vector at every node).  The only fact needed about the element is
   sum_a dN_k(a) = 0 at the Gauss point, i.e. the gradient of the partition of unity sum_a N_a = 1
   (C06 proves the partition of unity on the regenerated shape-function tables; the physical
   gradient is a linear image of the reference gradient, C02_constant_zero_gradient). *)
Hypothesis grad_pou : forall k, sumn nPe (fun a => dN k a) = 0.

Lemma grad_translation : forall q (t : nat -> R) k l, (l < q)%nat ->
  (forall i, u i = t (i mod q)%nat) -> grad_u q k l = 0.
Proof.
  intros q t k l Hl Hu. unfold grad_u.
  rewrite (sumn_ext nPe _ (fun a => t l * dN k a)).
  - rewrite sumn_scal, grad_pou. ring.
  - intros a _. rewrite Hu. destruct (dec q a l Hl) as [_ E]. rewrite E. ring.
Qed.

Theorem translation_zero_strain_2d : forall t, (forall i, u i = t (i mod 2)%nat) ->
  forall r, (r < 3)%nat -> eps2 r = 0.
Proof.
  intros t Hu r Hr. destruct strain_is_sym_grad_2d as (E0 & E1 & E2).
  destruct r as [|[|[|r]]]; [rewrite E0 | rewrite E1 | rewrite E2 | lia];
    rewrite ?(grad_translation 2 t) by (assumption || lia); ring.
Qed.

Theorem translation_zero_strain_3d : forall t, (forall i, u i = t (i mod 3)%nat) ->
  forall r, (r < 6)%nat -> eps3 r = 0.
Proof.
  intros t Hu r Hr. destruct strain_is_sym_grad_3d as (E0 & E1 & E2 & E3 & E4 & E5).
  destruct r as [|[|[|[|[|[|r]]]]]]; [rewrite E0 | rewrite E1 | rewrite E2 | rewrite E3 | rewrite E4 | rewrite E5 | lia];
    rewrite ?(grad_translation 3 t) by (assumption || lia); ring.
Qed.

End Strain.

(* with c = 1/sqrt 2 the rescaled shear rows are the tensor components 1/2 (d_k u_l + d_l u_k) *)
Corollary shear_component_2d : forall nPe dN u,
  eps2 nPe (1 / sqrt 2) dN u 2 * (1 / sqrt 2) = 1 / 2 * (grad_u nPe dN u 2 1 0 + grad_u nPe dN u 2 0 1).
Proof.
  intros. destruct (strain_is_sym_grad_2d nPe (1 / sqrt 2) dN u) as (_ & _ & H). rewrite H.
  assert (S : (1 / sqrt 2) * (1 / sqrt 2) = 1 / 2).
  { assert (S2 : sqrt 2 * sqrt 2 = 2) by (apply sqrt_sqrt; lra).
    assert (P : 0 < sqrt 2) by (apply sqrt_lt_R0; lra).
    field_simplify_eq; [|lra]. lra. }
  set (g := grad_u nPe dN u 2 1 0 + grad_u nPe dN u 2 0 1).
  replace (1 / sqrt 2 * g * (1 / sqrt 2)) with ((1 / sqrt 2) * (1 / sqrt 2) * g) by ring.
  rewrite S. reflexivity.
Qed.

Print Assumptions strain_is_sym_grad_3d.
Print Assumptions translation_zero_strain_3d.
Print Assumptions shear_component_2d.

(* non-vacuity of grad_pou: a 2-node bar, dN = (-1, 1) *)
Example grad_pou_instance : forall k : nat, sumn 2 (fun a => match a with 0%nat => -1 | _ => 1 end) = 0.
Proof. intro. simpl. ring. Qed.

Example strain_instance : eps2 1 (1 / 2) (fun k a => INR (k + 1)) (fun i => INR i + 1) 0 = 1 * 1.
Proof. unfold eps2, B2. simpl. ring. Qed.
