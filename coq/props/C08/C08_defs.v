(* C08_defs.v — definitions shared by the C08 theorem files: the record the face-table
   translator fills, polynomial 3-vectors over PExpr Q with their semantics in R, the
   symbolic Jacobian / isoparametric map built from the translated shape tables
   (EFLib.ElemDefs.elem), substitutions (straight-sided and affine elements), rule sums and
   the coefficient-wise smallness test.  Independent of /repo.

   VARIABLE LAYOUT of every polynomial expression in the C08 files (PEX indices, 1-based):
     1..3                      xi = (r, s, t)  (as in the translated shape tables)
     4+3i+c  (i<27, c<3)       coordinate c of node i of the element            (4..84)
     85+c                      O_c      : image of the reference origin (affine elements)
     88+3c+b                   A_{c b}  : x_c = O_c + sum_b A_{cb} xi_b (affine elements)
     97..                      free (barycentric weights, query point, ...)
   A theorem `forall l : list R, Reval l e1 = Reval l e2` therefore quantifies over all
   reference points, all node coordinates and all affine maps at once. *)
From Coq Require Import QArith Qabs Qreals Reals Ring_polynom Ring_theory InitialRing RealField List String Lia Lra Bool Arith.
From EFLib Require Import PolyQ ElemDefs QuadDefs.
Import ListNotations.
Local Open Scope nat_scope.

Inductive eval_kind := EvalTangent | EvalIso.
Inductive trim_kind := TrimLast1 | TrimClosing.
Inductive orient_kind := OrientTables | OrientCentroid.

Record ftab := {
  fname : string; fparent : string; fdim : nat; forder : nat; fnPe : nat; fnvert : nat;
  fsurfaces : list (list nat); ffaces : list (list nat); fsegments : list (list nat);
  ftriangles : list nat; forigin : list Q }.

(* ---------- small list helpers ---------- *)
Fixpoint mapi_from {A B} (f : nat -> A -> B) (i : nat) (l : list A) : list B :=
  match l with [] => [] | x :: r => f i x :: mapi_from f (S i) r end.
Definition mapi {A B} (f : nat -> A -> B) := mapi_from f 0.

Definition pair_eqb (p q : nat * nat) : bool := Nat.eqb (fst p) (fst q) && Nat.eqb (snd p) (snd q).
Definition count_pair (p : nat * nat) (l : list (nat * nat)) : nat :=
  List.length (filter (pair_eqb p) l).

(* cyclic consecutive pairs of a vertex cycle *)
Fixpoint pairs_from (first : nat) (l : list nat) : list (nat * nat) :=
  match l with
  | [] => []
  | [a] => [(a, first)]
  | a :: ((b :: _) as r) => (a, b) :: pairs_from first r
  end.
Definition cyc_edges (l : list nat) : list (nat * nat) :=
  match l with [] => [] | a :: _ => pairs_from a l end.

(* ---------- polynomial 3-vectors ---------- *)
Definition pvec := list (PExpr Q).
Definition pn (v : pvec) (c : nat) : PExpr Q := nth c v PEO.
Definition pzero : pvec := [PEO; PEO; PEO].
Definition padd (u v : pvec) : pvec := [PEadd (pn u 0) (pn v 0); PEadd (pn u 1) (pn v 1); PEadd (pn u 2) (pn v 2)].
Definition psub (u v : pvec) : pvec := [PEsub (pn u 0) (pn v 0); PEsub (pn u 1) (pn v 1); PEsub (pn u 2) (pn v 2)].
Definition pscale (a : PExpr Q) (v : pvec) : pvec := [PEmul a (pn v 0); PEmul a (pn v 1); PEmul a (pn v 2)].
Definition pdot (u v : pvec) : PExpr Q :=
  PEadd (PEadd (PEmul (pn u 0) (pn v 0)) (PEmul (pn u 1) (pn v 1))) (PEmul (pn u 2) (pn v 2)).
Definition pcross (u v : pvec) : pvec :=
  [PEsub (PEmul (pn u 1) (pn v 2)) (PEmul (pn u 2) (pn v 1));
   PEsub (PEmul (pn u 2) (pn v 0)) (PEmul (pn u 0) (pn v 2));
   PEsub (PEmul (pn u 0) (pn v 1)) (PEmul (pn u 1) (pn v 0))].
Definition ptriple (u v w : pvec) : PExpr Q := pdot u (pcross v w).
Definition pvsum (l : list pvec) : pvec := fold_right padd pzero l.
Definition pvec_eqb (u v : pvec) : bool :=
  pe_eqb (pn u 0) (pn v 0) && pe_eqb (pn u 1) (pn v 1) && pe_eqb (pn u 2) (pn v 2).

(* semantics in R *)
Definition R3 := (R * R * R)%type.
Definition Rcross (u v : R3) : R3 :=
  let '(u0, u1, u2) := u in let '(v0, v1, v2) := v in
  (u1 * v2 - u2 * v1, u2 * v0 - u0 * v2, u0 * v1 - u1 * v0)%R.
Definition Rdot (u v : R3) : R := let '(u0, u1, u2) := u in let '(v0, v1, v2) := v in (u0 * v0 + u1 * v1 + u2 * v2)%R.
Definition Rvadd (u v : R3) : R3 := let '(u0, u1, u2) := u in let '(v0, v1, v2) := v in (u0 + v0, u1 + v1, u2 + v2)%R.
Definition Rvsub (u v : R3) : R3 := let '(u0, u1, u2) := u in let '(v0, v1, v2) := v in (u0 - v0, u1 - v1, u2 - v2)%R.
Definition Rtriple (u v w : R3) : R := Rdot u (Rcross v w).
Definition Rv (l : list R) (v : pvec) : R3 := (Reval l (pn v 0), Reval l (pn v 1), Reval l (pn v 2)).

Lemma Rv_cross l u v : Rv l (pcross u v) = Rcross (Rv l u) (Rv l v).
Proof. reflexivity. Qed.
Lemma Rv_sub l u v : Rv l (psub u v) = Rvsub (Rv l u) (Rv l v).
Proof. reflexivity. Qed.
Lemma Rv_add l u v : Rv l (padd u v) = Rvadd (Rv l u) (Rv l v).
Proof. reflexivity. Qed.
Lemma Reval_dot l u v : Reval l (pdot u v) = Rdot (Rv l u) (Rv l v).
Proof. reflexivity. Qed.
Lemma Reval_triple l u v w : Reval l (ptriple u v w) = Rtriple (Rv l u) (Rv l v) (Rv l w).
Proof. reflexivity. Qed.

Lemma pvec_eqb_sound u v : pvec_eqb u v = true -> forall l, Rv l u = Rv l v.
Proof.
  unfold pvec_eqb. intros H l. apply andb_true_iff in H as [H H2]. apply andb_true_iff in H as [H0 H1].
  unfold Rv. rewrite (Qnorm_sound l _ _ H0), (Qnorm_sound l _ _ H1), (Qnorm_sound l _ _ H2). reflexivity.
Qed.

(* ---------- variables ---------- *)
Definition xi_var (a : nat) : PExpr Q := PEX Q (Pos.of_nat (S a)).
Definition node_var (i c : nat) : PExpr Q := PEX Q (Pos.of_nat (4 + 3 * i + c)).
Definition node_vec (i : nat) : pvec := [node_var i 0; node_var i 1; node_var i 2].
Definition O_var (c : nat) : PExpr Q := PEX Q (Pos.of_nat (85 + c)).
Definition A_var (c b : nat) : PExpr Q := PEX Q (Pos.of_nat (88 + 3 * c + b)).
Definition free_var (k : nat) : PExpr Q := PEX Q (Pos.of_nat (97 + k)).
Definition O_vec : pvec := [O_var 0; O_var 1; O_var 2].
Definition NVARS : nat := 120.

(* ---------- isoparametric map and Jacobian rows built from the shape tables ---------- *)
(* x(xi) = sum_i N_i(xi) X_i *)
Definition xmap_of (Ns : list (PExpr Q)) (nodes : nat -> pvec) : pvec :=
  pvsum (mapi (fun i n => pscale n (nodes i)) Ns).
Definition xmap (e : elem) : pvec := xmap_of (eN e) node_vec.
(* row a of F = dN @ X :  F_a = dx/dxi_a = sum_i dN_i/dxi_a X_i *)
Definition dNtab (e : elem) : list (list (PExpr Q)) := match edN e with Some t => t | None => [] end.
Definition Frow_of (dN : list (list (PExpr Q))) (nodes : nat -> pvec) (a : nat) : pvec :=
  pvsum (mapi (fun i row => pscale (nth a row PEO) (nodes i)) dN).
Definition Frow (e : elem) (a : nat) : pvec := Frow_of (dNtab e) node_vec a.
Definition detJ3 (e : elem) : PExpr Q := ptriple (Frow e 0) (Frow e 1) (Frow e 2).
(* in-plane 2-D element: z-component of dx/dr x dx/ds *)
Definition detJ2 (e : elem) : PExpr Q := pn (pcross (Frow e 0) (Frow e 1)) 2.
Definition detJ (e : elem) : PExpr Q := match edim e with 3%nat => detJ3 e | 2%nat => detJ2 e | _ => pn (Frow e 0) 0 end.

(* ---------- substitutions ---------- *)
Definition id_sub_from (k n : nat) : list (PExpr Q) := map (fun j => PEX Q (Pos.of_nat j)) (seq k n).
(* replace the node variables by given vectors, keep everything else *)
Definition node_sub (f : nat -> pvec) : list (PExpr Q) :=
  id_sub_from 1 3 ++ flat_map (fun i => [pn (f i) 0; pn (f i) 1; pn (f i) 2]) (seq 0 27) ++ id_sub_from 85 (NVARS - 84).
(* replace xi by a rational point (padded with zeros), keep everything else *)
Definition qpt (p : list Q) (a : nat) : PExpr Q := PEc (nth a p 0%Q).
Definition point_sub (p : list Q) : list (PExpr Q) := [qpt p 0; qpt p 1; qpt p 2] ++ id_sub_from 4 (NVARS - 3).
Definition at_point (p : list Q) (e : PExpr Q) : PExpr Q := pe_subst (point_sub p) e.
Definition vat_point (p : list Q) (v : pvec) : pvec := [at_point p (pn v 0); at_point p (pn v 1); at_point p (pn v 2)].

(* straight-sided element: node i sits at the image of its local coordinates under the map of
   the linear parent element (whose nodes are the vertices, free variables) *)
Definition straight_nodes (e parent : elem) (i : nat) : pvec := vat_point (nth i (enodes e) []) (xmap parent).
Definition straighten (e parent : elem) (x : PExpr Q) : PExpr Q := pe_subst (node_sub (straight_nodes e parent)) x.
(* affine element: X_i = O + A xi_i *)
Definition affine_of (xi : nat -> PExpr Q) : pvec :=
  [PEadd (O_var 0) (PEadd (PEadd (PEmul (A_var 0 0) (xi 0)) (PEmul (A_var 0 1) (xi 1))) (PEmul (A_var 0 2) (xi 2)));
   PEadd (O_var 1) (PEadd (PEadd (PEmul (A_var 1 0) (xi 0)) (PEmul (A_var 1 1) (xi 1))) (PEmul (A_var 1 2) (xi 2)));
   PEadd (O_var 2) (PEadd (PEadd (PEmul (A_var 2 0) (xi 0)) (PEmul (A_var 2 1) (xi 1))) (PEmul (A_var 2 2) (xi 2)))].
Definition affine_nodes (e : elem) (i : nat) : pvec := affine_of (qpt (nth i (enodes e) [])).
Definition affinize (e : elem) (x : PExpr Q) : PExpr Q := pe_subst (node_sub (affine_nodes e)) x.
Definition vaffinize (e : elem) (v : pvec) : pvec := [affinize e (pn v 0); affinize e (pn v 1); affinize e (pn v 2)].
Definition A_col (b : nat) : pvec := [A_var 0 b; A_var 1 b; A_var 2 b].
Definition detA : PExpr Q := ptriple (A_col 0) (A_col 1) (A_col 2).

(* ---------- rule sums: sum_p w_p f(xi_p) with the other variables kept symbolic ---------- *)
Fixpoint rule_sum_pw (pts : list (list Q)) (ws : list Q) (f : PExpr Q) : PExpr Q :=
  match pts, ws with
  | p :: ps, w :: wr => PEadd (PEmul (PEc w) (at_point p f)) (rule_sum_pw ps wr f)
  | _, _ => PEO
  end.
Definition rule_sum (r : rule) (f : PExpr Q) : PExpr Q := rule_sum_pw (rpts r) (rw r) f.

(* ---------- normaliser with reduced rational arithmetic ---------- *)
(* Same normal form as EFLib.PolyQ.Qnorm but every coefficient operation is followed by Qred:
   the quadrature tables are dyadic rationals with 2^52-size denominators and unreduced sums
   would grow exponentially.  Soundness is re-proved with the same library theorem
   (Ring_polynom.ring_correct) for the reduced operations. *)
Definition Qplus_r (x y : Q) : Q := Qred (x + y).
Definition Qmult_r (x y : Q) : Q := Qred (x * y).
Definition Qminus_r (x y : Q) : Q := Qred (x - y).
Definition Qopp_r (x : Q) : Q := Qred (- x).
Definition QnormR (pe : PExpr Q) : Pol Q :=
  norm_subst 0%Q 1%Q Qplus_r Qmult_r Qminus_r Qopp_r Qeq_bool cdivQ O nil pe.
Definition peR_eqb (e1 e2 : PExpr Q) : bool := Peq Qeq_bool (QnormR e1) (QnormR e2).

Lemma Q2R_morph_r : ring_morph 0%R 1%R Rplus Rmult Rminus Ropp eq 0%Q 1%Q Qplus_r Qmult_r Qminus_r Qopp_r Qeq_bool Q2R.
Proof.
  constructor.
  - unfold Q2R; simpl; lra.
  - unfold Q2R; simpl; lra.
  - intros; unfold Qplus_r; rewrite (Qeq_eqR _ _ (Qred_correct _)); apply Q2R_plus.
  - intros; unfold Qminus_r; rewrite (Qeq_eqR _ _ (Qred_correct _)); apply Q2R_minus.
  - intros; unfold Qmult_r; rewrite (Qeq_eqR _ _ (Qred_correct _)); apply Q2R_mult.
  - intros; unfold Qopp_r; rewrite (Qeq_eqR _ _ (Qred_correct _)); apply Q2R_opp.
  - intros x y H. apply Qeq_bool_eq in H. now apply Qeq_eqR.
Qed.
Lemma cdivQ_th_r : div_theory eq Qplus_r Qmult_r Q2R cdivQ.
Proof.
  constructor. intros a b. unfold cdivQ, Qplus_r, Qmult_r.
  rewrite (Qeq_eqR _ _ (Qred_correct _)), Q2R_plus, (Qeq_eqR _ _ (Qred_correct _)), Q2R_mult.
  replace (Q2R 0) with 0%R by (unfold Q2R; simpl; lra). lra.
Qed.
Theorem QnormR_sound (l : list R) (e1 e2 : PExpr Q) :
  peR_eqb e1 e2 = true -> Reval l e1 = Reval l e2.
Proof.
  intro H. unfold Reval.
  apply (@ring_correct R 0%R 1%R Rplus Rmult Rminus Ropp eq (Eqsth R)
          (Eq_ext Rplus Rmult Ropp) R_ARth Q 0%Q 1%Q Qplus_r Qmult_r Qminus_r Qopp_r Qeq_bool Q2R Q2R_morph_r
          nat N.to_nat pow R_power_theory cdivQ cdivQ_th_r O l nil e1 e2).
  - exact I.
  - exact H.
Qed.

(* ---------- coefficient-wise tests on normal forms ---------- *)
Fixpoint pol_forall (f : Q -> bool) (p : Pol Q) : bool :=
  match p with
  | Pc c => f c
  | Pinj _ q => pol_forall f q
  | PX a _ b => pol_forall f a && pol_forall f b
  end.
Definition coeffs_within (tol : Q) (e : PExpr Q) : bool :=
  pol_forall (fun c => Qle_bool (Qabs c) tol) (QnormR e).

(* degree in variable v is <= d: the (d+1)-th formal derivative vanishes identically *)
Fixpoint pd_iter (v : positive) (n : nat) (e : PExpr Q) : PExpr Q :=
  match n with O => e | S k => pd_iter v k (pd v e) end.
Definition deg_le (v : positive) (d : nat) (e : PExpr Q) : bool := pe_eqb (pd_iter v (S d) e) PEO.

(* ---------- lookup ---------- *)
Fixpoint find_elem (n : string) (l : list elem) : option elem :=
  match l with [] => None | e :: r => if String.eqb (ename e) n then Some e else find_elem n r end.
Fixpoint find_ftab (n : string) (l : list ftab) : option ftab :=
  match l with [] => None | t :: r => if String.eqb (fname t) n then Some t else find_ftab n r end.
Fixpoint find_rule (en mt : string) (l : list (string * string * rule)) : option rule :=
  match l with
  | [] => None
  | (a, b, r) :: rest => if String.eqb a en && String.eqb b mt then Some r else find_rule en mt rest
  end.
