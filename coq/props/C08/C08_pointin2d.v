(* C08_pointin2d.v — the 2-D branch of _GroupElem.Get_pointsInElem as a theorem.
   Code (dim == 2): corners c_i = the contour `surfaces.ravel()[:-1]` (incl. edge nodes),
   e_i = c_{i+1} - c_i (normalised), n = e_0 x (-e_last), accepted iff for every i
        (e_i x (p - c_i)) . n >= -tol.
   Model: the un-normalised products (normalisation multiplies by positive numbers), tol = 0.
   For an affine element in 3-D space, X_i = O + A xi_i with planar xi_i, and p = O + A (r, s, 0):
        (E_i x (p - c_i)) . (E_0 x (-E_last)) = |a0 x a1|^2 * c_i * h_i(r, s),   c_i > 0,
   h_i one of the canonical functions (triangle: r, s, 1-r-s; quadrangle: 1+r, 1-r, 1+s, 1-s), every
   one of them tested.  |a0 x a1|^2 > 0 for every non-degenerate element — whatever its orientation
   (the normal n is derived from the element itself): the test accepts exactly the closed straight-
   sided element, for positively oriented, reflected and embedded elements alike. *)
From Coq Require Import QArith Qreals Reals Ring_polynom List String Lia Lra Bool Arith.
From EFLib Require Import PolyQ ElemDefs QuadDefs.
From EFP Require Import C08_defs Gen_Elems Gen_Faces C08_pointin.
Import ListNotations.
Local Open Scope list_scope.
Local Open Scope nat_scope.

Definition canon2 (parent : string) : list (PExpr Q) :=
  if String.eqb parent "TRI3"%string then [r_; s_; PEsub (PEsub one r_) s_]
  else [PEadd one r_; PEsub one r_; PEadd one s_; PEsub one s_].
Definition centroid2 (parent : string) : list Q :=
  if String.eqb parent "TRI3"%string then [(1#3); (1#3); 0]%Q else [0; 0; 0]%Q.

Definition contour2 (t : ftab) : list nat := removelast (List.concat (fsurfaces t)).
Definition nxt (l : list nat) (i : nat) : nat := nth (S i mod List.length l) l 0.

(* query point p = O + A (r, s, 0) *)
Definition xq2 : pvec := affine_of (fun a => if a <? 2 then xi_var a else PEO).
Definition edge_vec (nodes : nat -> pvec) (l : list nat) (i : nat) : pvec := psub (nodes (nxt l i)) (nodes (nth i l 0)).
Definition test2_of (nodes : nat -> pvec) (p : pvec) (l : list nat) (i : nat) : PExpr Q :=
  let n := pcross (edge_vec nodes l 0) (pscale (PEc (-(1))%Q) (edge_vec nodes l (List.length l - 1))) in
  pdot (pcross (edge_vec nodes l i) (psub p (nodes (nth i l 0)))) n.
Definition test2_expr (t : ftab) (i : nat) : PExpr Q := test2_of node_vec xq2 (contour2 t) i.
Definition g2_expr (t : ftab) (i : nat) : PExpr Q := test2_of (ref_node (elem_of t)) [r_; s_; PEO] (contour2 t) i.
Definition G2 : PExpr Q := pdot (pcross (A_col 0) (A_col 1)) (pcross (A_col 0) (A_col 1)).

Definition match_edge (t : ftab) (i : nat) : option (nat * Q) :=
  let g := g2_expr t i in
  let hs := canon2 (fparent t) in
  fold_right (fun kh acc => match factor_of (centroid2 (fparent t)) g (snd kh) with Some c => Some (fst kh, c) | None => acc end)
             None (combine (seq 0 (List.length hs)) hs).
Definition chk_pie2 (t : ftab) : bool :=
  if Nat.eqb (fdim t) 2 then
    let idx := seq 0 (List.length (contour2 t)) in
    let ms := map (match_edge t) idx in
    negb (Nat.eqb (List.length idx) 0) &&
    forallb (fun o => match o with Some _ => true | None => false end) ms &&
    forallb (fun k => existsb (fun o => match o with Some (k', _) => Nat.eqb k k' | None => false end) ms)
            (seq 0 (List.length (canon2 (fparent t)))) &&
    forallb (fun i => pe_eqb (affinize (elem_of t) (test2_expr t i)) (PEmul G2 (g2_expr t i))) idx &&
    forallb (fun h => negb (Qle_bool (Qeval (centroid2 (fparent t)) h) 0)) (canon2 (fparent t))
  else true.
Lemma all_pie2 : forallb chk_pie2 all_ftabs = true.
Proof. vm_cast_no_check (eq_refl true). Qed.

Lemma sign2 G c h : (G > 0 -> c > 0 -> (G * (c * h) >= 0 <-> h >= 0))%R.
Proof.
  intros HG Hc. assert (K : (0 < G * c)%R) by (apply Rmult_lt_0_compat; assumption).
  replace (G * (c * h))%R with ((G * c) * h)%R by ring. split; intro H.
  - destruct (Rle_or_lt 0 h) as [E|E]; [lra|].
    assert (0 < (G * c) * - h)%R by (apply Rmult_lt_0_compat; lra). lra.
  - assert (0 <= (G * c) * h)%R by (apply Rmult_le_pos; lra). lra.
Qed.

(* point_in_elem_2d: for every 2-D type (7 types, contours with their edge nodes), every contour
   index i, every affine map (O, A) into 3-D space and every (r, s):
        test_i(p(r, s)) = |a0 x a1|^2 * c_i * h_i(r, s)   with c_i > 0, h_i canonical, all h tested.
   With sign2: for |a0 x a1|^2 > 0, test_i >= 0 <-> h_i >= 0. *)
Theorem point_in_elem_2d : forall t, In t all_ftabs -> fdim t = 2 ->
  forall i, i < List.length (contour2 t) ->
  exists k c h, match_edge t i = Some (k, c) /\ nth_error (canon2 (fparent t)) k = Some h /\ (0 < c)%Q /\
    forall l : list R,
      Reval l (affinize (elem_of t) (test2_expr t i)) = (Reval l G2 * (Q2R c * Reval l h))%R.
Proof.
  intros t Ht Hd i Hi. pose proof (forallb_In _ _ all_pie2 t Ht) as H. unfold chk_pie2 in H. rewrite Hd in H. simpl Nat.eqb in H. cbv iota in H.
  apply andb_true_iff in H as [H _]. apply andb_true_iff in H as [H H3]. apply andb_true_iff in H as [H _]. apply andb_true_iff in H as [_ H1].
  assert (Hin : In i (seq 0 (List.length (contour2 t)))) by (apply in_seq; lia).
  rewrite forallb_forall in H1. specialize (H1 (match_edge t i) (in_map _ _ _ Hin)).
  rewrite forallb_forall in H3. specialize (H3 i Hin).
  destruct (match_edge t i) as [[k c]|] eqn:E; [|discriminate].
  unfold match_edge in E.
  set (cen := centroid2 (fparent t)) in *. set (g := g2_expr t i) in *.
  assert (G : forall hs0 k0, fold_right (fun kh acc => match factor_of cen g (snd kh) with Some c0 => Some (fst kh, c0) | None => acc end)
                None (combine (seq k0 (List.length hs0)) hs0) = Some (k, c) ->
              exists h, nth_error hs0 (k - k0) = Some h /\ k0 <= k /\ factor_of cen g h = Some c).
  { induction hs0 as [|h0 hs0 IH]; intros k0 E0; simpl in E0; [discriminate|].
    destruct (factor_of cen g h0) as [c0|] eqn:F.
    - inversion E0; subst. exists h0. rewrite Nat.sub_diag. simpl. auto.
    - destruct (IH (S k0) E0) as [h [Hn [Hk Hf]]]. exists h. split; [|split; [lia | exact Hf]].
      replace (k - k0) with (S (k - S k0)) by lia. exact Hn. }
  destruct (G _ _ E) as [h [Hn [_ Hf]]]. rewrite Nat.sub_0_r in Hn.
  exists k, c, h. split; [reflexivity|]. split; [exact Hn|].
  unfold factor_of in Hf.
  destruct (Qeq_bool (Qeval cen h) 0); [discriminate|].
  destruct (Qle_bool (Qred (Qeval cen g / Qeval cen h)) 0) eqn:Hle; [discriminate|].
  destruct (pe_eqb g (PEmul (PEc (Qred (Qeval cen g / Qeval cen h))) h)) eqn:Hg; [|discriminate].
  apply (f_equal (fun o => match o with Some x => x | None => 0%Q end)) in Hf. cbv beta iota in Hf. subst c. split.
  - apply Qnot_le_lt. intro Hc. apply Qle_bool_iff in Hc. congruence.
  - intro l. rewrite (Qnorm_sound l _ _ H3).
    change (Reval l (PEmul G2 g)) with (Reval l G2 * Reval l g)%R.
    rewrite (Qnorm_sound l _ _ Hg). reflexivity.
Qed.

Example seven_2d_types : List.length (filter (fun t => Nat.eqb (fdim t) 2) all_ftabs) = 7.
Proof. reflexivity. Qed.
Example tri6_contour_has_six_half_edges : contour2 ft_TRI6 = [0; 3; 1; 4; 2; 5] /\ match_edge ft_TRI6 1 = match_edge ft_TRI6 0.
Proof. vm_compute. split; reflexivity. Qed.

Print Assumptions point_in_elem_2d.
