(* C08_cur_pointin.v — the 3-D point-in-element test AS FOUND in the checked tree
   (EFP.Gen_Faces.pie_trim / pie_orient, read from _GroupElem.Get_pointsInElem).
   Compiles iff (1) with the code's treatment of the padded rows every row of `surfaces` of every
   3-D type is a positive multiple of a canonical half-space of the reference element and every
   half-space is tested, and (2) the half-space normal is re-oriented with the element centroid,
   so that (point_in_elem_3d, sign_free) the test accepts exactly the closed affine element for
   every non-singular A — positively oriented or reflected. *)
From Coq Require Import QArith Reals List Bool.
From EFLib Require Import PolyQ ElemDefs.
From EFP Require Import C08_defs Gen_Elems Gen_Faces C08_pointin C08_locate.

Theorem point_in_elem_3d_exact :
  pie_orient = OrientCentroid /\ forall t, In t all_ftabs -> chk_pie pie_trim t = true.
Proof. split; [reflexivity | apply forallb_In; vm_compute; reflexivity]. Qed.

(* the composed statement for the source as found: for every 3-D type, every affine element
   (det A <> 0, any orientation) and every point x of R^3: the affine branch of _Get_Mapping returns
   the pre-image xi of x, and Get_pointsInElem reports x in the element iff xi is in the closed
   reference element iff x is in the closed image of the reference element. *)
Theorem located_iff_in_image_3d_as_found : forall t, In t all_ftabs -> fdim t = 3 ->
  forall (O : R3) (A : M3) (xi0 : R3), det3 A <> 0%R -> forall x : R3,
  phys O A (xi_code O A xi0 x) = x /\
  (accepted (elem_of t) O A (pie_rows pie_trim t) (phys O A (qvec (centroid (fparent t)))) x <->
     in_ref (fparent t) (xi_code O A xi0 x)) /\
  (accepted (elem_of t) O A (pie_rows pie_trim t) (phys O A (qvec (centroid (fparent t)))) x <->
     exists u, in_ref (fparent t) u /\ x = phys O A u).
Proof.
  intros t Ht Hd O A xi0 Hdet x.
  exact (located_iff_in_image_3d pie_trim t Ht Hd (proj2 point_in_elem_3d_exact t Ht) O A xi0 Hdet x).
Qed.

Print Assumptions point_in_elem_3d_exact.
Print Assumptions located_iff_in_image_3d_as_found.
