(* C08_cur_pointin.v — the 3-D point-in-element test AS FOUND in the checked tree
   (EFP.Gen_Faces.pie_trim / pie_orient, read from _GroupElem.Get_pointsInElem).
   Compiles iff (1) with the code's treatment of the padded rows every row of `surfaces` of every
   3-D type is a positive multiple of a canonical half-space of the reference element and every
   half-space is tested, and (2) the half-space normal is re-oriented with the element centroid,
   so that (point_in_elem_3d, sign_free) the test accepts exactly the closed affine element for
   every non-singular A — positively oriented or reflected. *)
From Coq Require Import QArith Reals List Bool.
From EFLib Require Import PolyQ ElemDefs.
From EFP Require Import C08_defs Gen_Elems Gen_Faces C08_pointin.

Theorem point_in_elem_3d_exact :
  pie_orient = OrientCentroid /\ forall t, In t all_ftabs -> chk_pie pie_trim t = true.
Proof. split; [reflexivity | apply forallb_In; vm_compute; reflexivity]. Qed.

Print Assumptions point_in_elem_3d_exact.
