(* C08_moments_thorough.v (thorough tier only) — first moments (numerators of `center`) of GENERAL
   straight-sided hexahedra and prisms, split per vertex to keep each normalisation small:
       x_c(xi) = sum_v N_v(xi) V_{v,c}    =>    det J * x_c = sum_v V_{v,c} * (det J * N_v)
   so  rule(det J * x_c) = sum_v V_{v,c} * rule(det J * N_v)  (first_moments_split, all six HEXA*/PRISM* types, all values
   of the variables), and each  rule(det J * N_v)  — a cubic polynomial in the 24 / 18 vertex
   coordinates — is within 1e-13, coefficient-wise, of its exact integral (first_moments_hexa_prism).
   Scope: the 'mass' rules of the types in `mom_scope`. *)
From Coq Require Import QArith Qabs Qreals Reals Ring_polynom List String Lia Lra Bool Arith.
From EFLib Require Import PolyQ ElemDefs QuadDefs.
From EFP Require Import C08_defs Gen_Elems Gen_Gauss Gen_Faces C08_faces C08_measure C08_subparam.
Import ListNotations.
Local Open Scope list_scope.
Local Open Scope nat_scope.

Definition heavy_parents : list elem := [el_HEXA8; el_PRISM6].
Definition wterm (p : elem) (n : PExpr Q) : PExpr Q := PEmul (detJ p) n.
Definition decomp (p : elem) (c : nat) : PExpr Q :=
  pe_sum (mapi (fun v n => PEmul (node_var v c) (wterm p n)) (eN p)).

(* det J * x_c = sum_v V_{v,c} * det J * N_v, as polynomial identity (symbolic xi, all vertices) *)
Lemma all_decomp : forallb (fun p => Nat.leb (List.length (eN p)) 8 &&
                                     forallb (fun c => pe_eqb (moment p c) (decomp p c)) [0; 1; 2]) heavy_parents = true.
Proof. vm_cast_no_check (eq_refl true). Qed.
(* det J * N_v stays in the degree box on which the rational reference rule is exact *)
Lemma wterms_in_box : forallb (fun p => forallb (fun n => in_box p (wterm p n)) (eN p)) heavy_parents = true.
Proof. vm_cast_no_check (eq_refl true). Qed.

(* rule sums are linear; node variables are untouched by the substitution of the Gauss point *)
Lemma nodevar_at_point pt v c : v < 8 -> c < 3 -> at_point pt (node_var v c) = node_var v c.
Proof.
  intros Hv Hc. unfold at_point.
  destruct v as [|[|[|[|[|[|[|[|v]]]]]]]]; try lia; destruct c as [|[|[|c]]]; try lia; reflexivity.
Qed.
Lemma rule_sum_scale r v c g : v < 8 -> c < 3 -> forall l : list R,
  Reval l (rule_sum r (PEmul (node_var v c) g)) = (Reval l (node_var v c) * Reval l (rule_sum r g))%R.
Proof.
  intros Hv Hc l. unfold rule_sum. generalize (rw r). induction (rpts r) as [|pt ps IH]; intros [|w ws]; cbn [rule_sum_pw];
    try (unfold Reval; simpl; ring).
  rewrite !Reval_add, !Reval_mul, IH.
  change (at_point pt (PEmul (node_var v c) g)) with (PEmul (at_point pt (node_var v c)) (at_point pt g)).
  rewrite (nodevar_at_point pt v c Hv Hc), Reval_mul. ring.
Qed.
Lemma rule_sum_add r f g : forall l : list R,
  Reval l (rule_sum r (PEadd f g)) = (Reval l (rule_sum r f) + Reval l (rule_sum r g))%R.
Proof.
  intro l. unfold rule_sum. generalize (rw r). induction (rpts r) as [|pt ps IH]; intros [|w ws]; cbn [rule_sum_pw];
    try (unfold Reval; simpl; ring).
  rewrite !Reval_add, !Reval_mul, IH.
  change (at_point pt (PEadd f g)) with (PEadd (at_point pt f) (at_point pt g)). rewrite Reval_add. ring.
Qed.
Lemma rule_sum_zero r : forall l : list R, Reval l (rule_sum r PEO) = 0%R.
Proof.
  intro l. unfold rule_sum. generalize (rw r). induction (rpts r) as [|pt ps IH]; intros [|w ws]; cbn [rule_sum_pw];
    try (unfold Reval; simpl; ring).
  rewrite Reval_add, Reval_mul, IH. change (at_point pt PEO) with (@PEO Q). unfold Reval. simpl. ring.
Qed.

Lemma rule_sum_decomp r p c (l : list R) : c < 3 -> forall Ns k0, k0 + List.length Ns <= 8 ->
  Reval l (rule_sum r (pe_sum (mapi_from (fun v n => PEmul (node_var v c) (wterm p n)) k0 Ns))) =
  Rsum (mapi_from (fun v n => (Reval l (node_var v c) * Reval l (rule_sum r (wterm p n)))%R) k0 Ns).
Proof.
  intro Hc. induction Ns as [|n Ns IH]; intros k0 Hk; cbn [mapi_from pe_sum fold_right Rsum].
  - apply rule_sum_zero.
  - simpl in Hk. rewrite rule_sum_add, rule_sum_scale by lia. rewrite IH by lia. reflexivity.
Qed.

(* first_moments_split: for every HEXA* / PRISM* type e placed straight-sidedly on arbitrary vertices,
   every rule, every component c and all values of the variables:
     Integrate_e-style first moment  sum_p w_p det J(xi_p) x_c(xi_p)
       = sum_v V_{v,c} * [ sum_p w_p det J_parent(xi_p) N_v(xi_p) ]. *)
Definition heavy_list : list elem := [el_HEXA8; el_HEXA20; el_HEXA27; el_PRISM6; el_PRISM15; el_PRISM18].
Lemma heavy_list_facts e : In e heavy_list -> In e all_elems /\ In (parent_of e) heavy_parents.
Proof.
  intro He. simpl in He.
  repeat (destruct He as [He|He]; [subst e; split; [repeat (try (left; reflexivity); right) | first [left; reflexivity | right; left; reflexivity]]|]).
  destruct He.
Qed.

Theorem first_moments_split : forall e, In e heavy_list -> forall mt c, c < 3 -> forall l : list R,
  let p := parent_of e in
  Reval l (moment_code e mt c) =
  Rsum (mapi (fun v n => (Reval l (node_var v c) * Reval l (rule_sum (the_rule e mt) (wterm p n)))%R) (eN p)).
Proof.
  intros e Hl mt c Hc l p. destruct (heavy_list_facts e Hl) as [He Hp]. fold p in Hp.
  rewrite (proj2 (measure_reduces_to_parent e He mt l) c Hc). fold p.
  pose proof (forallb_In _ _ all_decomp p Hp) as H. cbv beta in H. apply andb_true_iff in H as [HL HD].
  apply Nat.leb_le in HL. rewrite forallb_forall in HD.
  assert (Hin : In c [0; 1; 2]) by (destruct c as [|[|[|c]]]; simpl; auto; lia).
  specialize (HD c Hin).
  rewrite (rule_sum_ext (the_rule e mt) _ _ (fun l0 => Qnorm_sound l0 _ _ HD) l).
  unfold decomp, mapi. apply rule_sum_decomp; [exact Hc | lia].
Qed.

(* per-vertex exactness on the tables of the running code *)
Definition mom_scope : list elem := [el_HEXA8; el_PRISM6; el_PRISM15; el_PRISM18].
Definition chk_wmom (e : elem) : bool :=
  let p := parent_of e in
  heavy e && has_rule e "mass"%string &&
  forallb (fun n => coeffs_within tol13 (PEsub (rule_sum (the_rule e "mass"%string) (wterm p n)) (rule_sum (star_of (ename p)) (wterm p n)))) (eN p).
Lemma all_wmom : forallb chk_wmom mom_scope = true.
Proof. vm_cast_no_check (eq_refl true). Qed.

Theorem first_moments_hexa_prism : forall e, In e mom_scope ->
  let p := parent_of e in
  (forall c, c < 3 -> forall l : list R,
     Reval l (moment_code e "mass"%string c) =
     Rsum (mapi (fun v n => (Reval l (node_var v c) * Reval l (rule_sum (the_rule e "mass"%string) (wterm p n)))%R) (eN p))) /\
  (forall n, In n (eN p) ->
     coeffs_within tol13 (PEsub (rule_sum (the_rule e "mass"%string) (wterm p n)) (rule_sum (star_of (ename p)) (wterm p n))) = true).
Proof.
  intros e He p. pose proof (forallb_In _ _ all_wmom e He) as H. unfold chk_wmom in H. fold p in H.
  apply andb_true_iff in H as [H H2]. apply andb_true_iff in H as [Hh _]. split.
  - intros c Hc l. apply first_moments_split; auto.
    simpl in He. repeat (destruct He as [He|He]; [subst e; repeat (try (left; reflexivity); right)|]). destruct He.
  - intros n Hn. rewrite forallb_forall in H2. apply H2. exact Hn.
Qed.

Print Assumptions first_moments_split.
Print Assumptions first_moments_hexa_prism.
