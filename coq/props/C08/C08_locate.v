(* C08_locate.v — point location on affine 3-D elements, composed end to end, over the reals:
   for every 3-D element type, every affine element  X_i = O + A xi_i  with det A <> 0 (positively
   oriented or reflected) and EVERY point x of R^3:
     - the affine branch of _Get_Mapping, xi = xiOrigin + (x - x0) @ inv(F), returns the unique xi
       with x = O + A xi   (inverse_map_right / inverse_map_left);
     - the half-space test of Get_pointsInElem (normals re-oriented with the centroid, as in the
       checked source) accepts x  iff  that xi lies in the closed reference element, i.e.
       iff x lies in the closed image of the reference element   (located_iff_in_image_3d).
   The table-dependent facts come from C08_pointin.v (chk_pie: every row of `surfaces` the code uses
   is a positive multiple of a canonical half-space, every half-space is tested). *)
From Coq Require Import QArith Qreals Reals Ring_polynom List String Lia Lra Bool Arith Field.
From EFLib Require Import PolyQ ElemDefs QuadDefs.
From EFP Require Import C08_defs Gen_Elems Gen_Faces C08_pointin.
Import ListNotations.
Local Open Scope list_scope.
Local Open Scope nat_scope.

(* ---------- affine maps of R^3 ---------- *)
Definition M3 := (R3 * R3 * R3)%type.                     (* rows of A *)
Definition Mx (A : M3) (u : R3) : R3 := let '(a0, a1, a2) := A in (Rdot a0 u, Rdot a1 u, Rdot a2 u).
Definition det3 (A : M3) : R := let '(a0, a1, a2) := A in Rtriple a0 a1 a2.
Definition phys (O : R3) (A : M3) (u : R3) : R3 := Rvadd O (Mx A u).

Ltac d3 := repeat match goal with
  | v : R3 |- _ => destruct v as [[? ?] ?]
  | v : M3 |- _ => destruct v as [[? ?] ?]
  end.

Lemma triple_Mx A u v w : Rtriple (Mx A u) (Mx A v) (Mx A w) = (det3 A * Rtriple u v w)%R.
Proof. d3. unfold Rtriple, det3, Mx. simpl. ring. Qed.
Lemma phys_sub O A u v : Rvsub (phys O A u) (phys O A v) = Mx A (Rvsub u v).
Proof. d3. unfold phys, Mx. simpl. f_equal; [f_equal|]; ring. Qed.

(* inv(F) applied from the right to a row vector d, with the adjugate formulas of `Inv`
   (matT = Transpose(F) = A): result_j = sum_i d_i * adj_ij / det *)
Definition inv_apply (A : M3) (d : R3) : R3 :=
  let '((a00, a01, a02), (a10, a11, a12), (a20, a21, a22)) := A in
  let '(d0, d1, d2) := d in
  let dt := det3 A in
  let det00 := (a11 * a22 - a21 * a12)%R in let det01 := (a10 * a22 - a20 * a12)%R in let det02 := (a10 * a21 - a20 * a11)%R in
  let det10 := (a01 * a22 - a21 * a02)%R in let det11 := (a00 * a22 - a20 * a02)%R in let det12 := (a00 * a21 - a20 * a01)%R in
  let det20 := (a01 * a12 - a11 * a02)%R in let det21 := (a00 * a12 - a10 * a02)%R in let det22 := (a00 * a11 - a10 * a01)%R in
  (d0 * (det00 / dt) + d1 * (- det10 / dt) + d2 * (det20 / dt),
   d0 * (- det01 / dt) + d1 * (det11 / dt) + d2 * (- det21 / dt),
   d0 * (det02 / dt) + d1 * (- det12 / dt) + d2 * (det22 / dt))%R.

Lemma inv_left A u : det3 A <> 0%R -> inv_apply A (Mx A u) = u.
Proof.
  intro Hd. d3. unfold inv_apply, Mx, det3, Rtriple in *. simpl in *.
  f_equal; [f_equal|]; field; intro Hc; apply Hd; rewrite <- Hc; ring.
Qed.
Lemma inv_right A d : det3 A <> 0%R -> Mx A (inv_apply A d) = d.
Proof.
  intro Hd. d3. unfold inv_apply, Mx, det3, Rtriple in *. simpl in *.
  f_equal; [f_equal|]; field; intro Hc; apply Hd; rewrite <- Hc; ring.
Qed.
Lemma Mx_add A u v : Mx A (Rvadd u v) = Rvadd (Mx A u) (Mx A v).
Proof. d3. unfold Mx. simpl. f_equal; [f_equal|]; ring. Qed.

(* the affine branch of _Get_Mapping:  xi = xiOrigin + (x - x0) @ inv(F),  x0 = node 0 *)
Definition xi_code (O : R3) (A : M3) (xi0 : R3) (x : R3) : R3 := Rvadd xi0 (inv_apply A (Rvsub x (phys O A xi0))).

Theorem inverse_map_right O A xi0 x : det3 A <> 0%R -> phys O A (xi_code O A xi0 x) = x.
Proof.
  intro Hd. unfold xi_code, phys. rewrite Mx_add, (inv_right A _ Hd).
  d3. unfold Mx. simpl. f_equal; [f_equal|]; ring.
Qed.
Theorem inverse_map_left O A xi0 xi : det3 A <> 0%R -> xi_code O A xi0 (phys O A xi) = xi.
Proof.
  intro Hd. unfold xi_code. rewrite phys_sub, (inv_left A _ Hd). d3. simpl. f_equal; [f_equal|]; ring.
Qed.

(* ---------- the half-space test over R ---------- *)
Definition qvec (p : list Q) : R3 := (Q2R (nth 0 p 0%Q), Q2R (nth 1 p 0%Q), Q2R (nth 2 p 0%Q)).
Definition node_R (e : elem) (O : R3) (A : M3) (i : nat) : R3 := phys O A (qvec (nth i (enodes e) [])).
(* (x - X_p0) . ((X_p1 - X_p0) x (X_p2 - X_p0)),  p0 = row[0], p1 = row[1], p2 = row[-1] *)
Definition test_R (e : elem) (O : R3) (A : M3) (row : list nat) (x : R3) : R :=
  let '(p0, p1, p2) := p012 row in
  Rtriple (Rvsub x (node_R e O A p0)) (Rvsub (node_R e O A p1) (node_R e O A p0)) (Rvsub (node_R e O A p2) (node_R e O A p0)).
(* normal flipped when the centroid is on its positive side; then  v . n <= 0 *)
Definition accept_row (tx tc : R) : Prop := ((0 < tc -> tx >= 0) /\ (tc <= 0 -> tx <= 0))%R.
Definition accepted (e : elem) (O : R3) (A : M3) (rows : list (list nat)) (xc x : R3) : Prop :=
  forall row, In row rows -> accept_row (test_R e O A row x) (test_R e O A row xc).

Definition xienv (u : R3) : list R := let '(r, s, t) := u in [r; s; t].
Lemma test_R_phys e O A row u :
  test_R e O A row (phys O A u) = (det3 A * Reval (xienv u) (g_expr e row))%R.
Proof.
  unfold test_R, g_expr, p012, node_R. rewrite !phys_sub, triple_Mx. f_equal.
  rewrite Reval_triple, !Rv_sub. destruct u as [[r s] t]. reflexivity.
Qed.

Lemma accept_sign D c h hc : (D <> 0 -> c > 0 -> hc < 0 -> (accept_row (D * (c * h)) (D * (c * hc)) <-> h <= 0))%R.
Proof.
  intros HD Hc Hh. unfold accept_row.
  replace (D * (c * h))%R with ((D * c) * h)%R by ring. replace (D * (c * hc))%R with ((D * c) * hc)%R by ring.
  destruct (Rtotal_order D 0) as [Dn|[D0|Dp]]; [|contradiction|].
  - (* D < 0 *)
    assert (K : (0 < (- D) * c)%R) by (apply Rmult_lt_0_compat; lra).
    assert (Tc : (0 < (D * c) * hc)%R).
    { replace ((D * c) * hc)%R with (((- D) * c) * (- hc))%R by ring. apply Rmult_lt_0_compat; lra. }
    split.
    + intros [H1 _]. specialize (H1 Tc).
      destruct (Rle_or_lt h 0) as [E|E]; [exact E|].
      assert (0 < ((- D) * c) * h)%R by (apply Rmult_lt_0_compat; assumption). lra.
    + intro H. split; [intros _|intro; lra].
      assert (0 <= ((- D) * c) * (- h))%R by (apply Rmult_le_pos; lra). lra.
  - (* D > 0 *)
    assert (K : (0 < D * c)%R) by (apply Rmult_lt_0_compat; lra).
    assert (Tc : ((D * c) * hc < 0)%R).
    { assert (0 < (D * c) * (- hc))%R by (apply Rmult_lt_0_compat; lra). lra. }
    split.
    + intros [_ H2]. assert (H3 : ((D * c) * h <= 0)%R) by (apply H2; lra).
      destruct (Rle_or_lt h 0) as [E|E]; [exact E|].
      assert (0 < (D * c) * h)%R by (apply Rmult_lt_0_compat; assumption). lra.
    + intro H. split; [intro; lra|intros _].
      assert (0 <= (D * c) * (- h))%R by (apply Rmult_le_pos; lra). lra.
Qed.

(* ---------- table facts ---------- *)
Lemma match_row_spec t row k c : match_row t row = Some (k, c) ->
  exists h, nth_error (canon (fparent t)) k = Some h /\ (0 < c)%Q /\
    forall l : list R, Reval l (g_expr (elem_of t) row) = (Q2R c * Reval l h)%R.
Proof.
  intro E. unfold match_row in E.
  set (cen := centroid (fparent t)) in *. set (g := g_expr (elem_of t) row) in *.
  assert (G : forall hs0 k0, fold_right (fun kh acc => match factor_of cen g (snd kh) with Some c0 => Some (fst kh, c0) | None => acc end)
                None (combine (seq k0 (List.length hs0)) hs0) = Some (k, c) ->
              exists h, nth_error hs0 (k - k0) = Some h /\ k0 <= k /\ factor_of cen g h = Some c).
  { induction hs0 as [|h0 hs0 IH]; intros k0 E0; simpl in E0; [discriminate|].
    destruct (factor_of cen g h0) as [c0|] eqn:F.
    - inversion E0; subst. exists h0. rewrite Nat.sub_diag. simpl. auto.
    - destruct (IH (S k0) E0) as [h [Hn [Hk Hf]]]. exists h. split; [|split; [lia | exact Hf]].
      replace (k - k0) with (S (k - S k0)) by lia. exact Hn. }
  destruct (G _ _ E) as [h [Hn [_ Hf]]]. rewrite Nat.sub_0_r in Hn.
  exists h. split; [exact Hn|].
  unfold factor_of in Hf.
  destruct (Qeq_bool (Qeval cen h) 0); [discriminate|].
  destruct (Qle_bool (Qred (Qeval cen g / Qeval cen h)) 0) eqn:Hle; [discriminate|].
  destruct (pe_eqb g (PEmul (PEc (Qred (Qeval cen g / Qeval cen h))) h)) eqn:Hg; [|discriminate].
  apply (f_equal (fun o => match o with Some x => x | None => 0%Q end)) in Hf. cbv beta iota in Hf. subst c. split.
  - apply Qnot_le_lt. intro Hc. apply Qle_bool_iff in Hc. congruence.
  - intro l. rewrite (Qnorm_sound l _ _ Hg). reflexivity.
Qed.

(* the centroid used by the code, coord.mean(0), is the image of the mean of the local coordinates;
   that mean is `centroid (parent)` and every canonical half-space is strictly negative there *)
Definition qmean (pts : list (list Q)) (a : nat) : Q :=
  Qred (fold_right Qplus 0%Q (map (fun p => nth a p 0%Q) pts) / inject_Z (Z.of_nat (List.length pts))).
Definition chk_centroid (t : ftab) : bool :=
  if Nat.eqb (fdim t) 3 then
    let cen := centroid (fparent t) in
    forallb (fun a => Qeq_bool (qmean (enodes (elem_of t)) a) (nth a cen 0%Q)) [0; 1; 2] &&
    forallb (fun h => let v := Qred (Qeval cen h) in
                      pe_eqb (pe_subst (map (fun q => PEc q) cen) h) (PEc v) && negb (Qle_bool 0 v)) (canon (fparent t)) &&
    Nat.eqb (List.length cen) 3
  else true.
Lemma all_centroid : forallb chk_centroid all_ftabs = true.
Proof. vm_cast_no_check (eq_refl true). Qed.

Definition in_ref (parent : string) (u : R3) : Prop := forall h, In h (canon parent) -> (Reval (xienv u) h <= 0)%R.

Lemma centroid_inside t : In t all_ftabs -> fdim t = 3 ->
  forall h, In h (canon (fparent t)) -> (Reval (xienv (qvec (centroid (fparent t)))) h < 0)%R.
Proof.
  intros Ht Hd h Hh. pose proof (forallb_In _ _ all_centroid t Ht) as H. unfold chk_centroid in H. rewrite Hd in H. simpl Nat.eqb in H. cbv iota in H.
  apply andb_true_iff in H as [H HL]. apply andb_true_iff in H as [_ H]. rewrite forallb_forall in H. specialize (H h Hh). cbv zeta in H.
  apply andb_true_iff in H as [H1 H2]. apply Reval_at_Qpoint in H1.
  apply Nat.eqb_eq in HL. destruct (centroid (fparent t)) as [|c0 [|c1 [|c2 [|? ?]]]]; try discriminate.
  unfold qvec, xienv. cbn [nth]. cbn [map] in H1. rewrite H1.
  apply negb_true_iff in H2. set (v := Qred (Qeval [c0; c1; c2] h)) in *.
  assert (Hv : (v < 0)%Q). { apply Qnot_le_lt. intro Hc. apply Qle_bool_iff in Hc. congruence. }
  apply Qlt_Rlt in Hv. replace (Q2R 0) with 0%R in Hv by (unfold Q2R; simpl; lra). exact Hv.
Qed.

(* ---------- the composed statement ---------- *)
(* located_iff_in_image_3d.  m: treatment of the padded rows for which the table check passes
   (TrimClosing on the checked source).  xc = the centroid the code uses, xi0 = xiOrigin. *)
Theorem located_iff_in_image_3d : forall m t, In t all_ftabs -> fdim t = 3 -> chk_pie m t = true ->
  forall (O : R3) (A : M3) (xi0 : R3), det3 A <> 0%R -> forall x : R3,
  let e := elem_of t in
  let xi := xi_code O A xi0 x in
  phys O A xi = x /\
  (accepted e O A (pie_rows m t) (phys O A (qvec (centroid (fparent t)))) x <-> in_ref (fparent t) xi) /\
  (accepted e O A (pie_rows m t) (phys O A (qvec (centroid (fparent t)))) x <->
     exists u, in_ref (fparent t) u /\ x = phys O A u).
Proof.
  intros m t Ht Hd Hchk O A xi0 Hdet x e xi.
  assert (Hx : phys O A xi = x) by (apply inverse_map_right; exact Hdet).
  unfold chk_pie in Hchk. rewrite Hd in Hchk. simpl in Hchk.
  apply andb_true_iff in Hchk as [Hc _]. apply andb_true_iff in Hc as [Hc _]. apply andb_true_iff in Hc as [H1 H2].
  rewrite forallb_forall in H1. rewrite forallb_forall in H2.
  assert (Row : forall row, In row (pie_rows m t) -> exists k c h, nth_error (canon (fparent t)) k = Some h /\ (0 < c)%Q /\ match_row t row = Some (k, c) /\
            forall u, test_R e O A row (phys O A u) = (det3 A * (Q2R c * Reval (xienv u) h))%R).
  { intros row Hr. specialize (H1 (match_row t row) (in_map _ _ _ Hr)).
    destruct (match_row t row) as [[k c]|] eqn:E; [|discriminate].
    destruct (match_row_spec t row k c E) as [h [Hn [Hc Hg]]]. exists k, c, h. repeat split; auto.
    intro u. rewrite test_R_phys. unfold e. rewrite Hg. reflexivity. }
  assert (Cen := centroid_inside t Ht Hd).
  assert (Main : accepted e O A (pie_rows m t) (phys O A (qvec (centroid (fparent t)))) x <-> in_ref (fparent t) xi).
  { split.
    - intros Hacc h Hh.
      (* h is tested by some row *)
      apply In_nth_error in Hh as [k Hk].
      assert (Hkl : k < List.length (canon (fparent t))) by (apply nth_error_Some; congruence).
      assert (Hin : In k (seq 0 (List.length (canon (fparent t))))) by (apply in_seq; lia).
      specialize (H2 k Hin). apply existsb_exists in H2 as [o [Ho Hok]].
      apply in_map_iff in Ho as [row [Er Hr]]. subst o.
      destruct (match_row t row) as [[k' c']|] eqn:E; [|discriminate]. apply Nat.eqb_eq in Hok. subst k'.
      destruct (Row row Hr) as [k2 [c [h2 [Hn [Hc [Em Hid]]]]]]. rewrite E in Em. inversion Em; subst k2 c'. clear Em.
      rewrite Hk in Hn. inversion Hn; subst h2.
      specialize (Hacc row Hr). rewrite <- Hx in Hacc at 1. rewrite !Hid in Hacc.
      apply (accept_sign (det3 A) (Q2R c) _ _ Hdet) in Hacc; [exact Hacc | | apply Cen; eapply nth_error_In; eauto].
      apply Qlt_Rlt in Hc. replace (Q2R 0) with 0%R in Hc by (unfold Q2R; simpl; lra). lra.
    - intros Hin row Hr. destruct (Row row Hr) as [k [c [h [Hn [Hc [_ Hid]]]]]].
      rewrite <- Hx at 1. rewrite !Hid.
      apply (accept_sign (det3 A) (Q2R c) _ _ Hdet).
      + apply Qlt_Rlt in Hc. replace (Q2R 0) with 0%R in Hc by (unfold Q2R; simpl; lra). lra.
      + apply Cen. eapply nth_error_In; eauto.
      + apply Hin. eapply nth_error_In; eauto. }
  split; [exact Hx|]. split; [exact Main|].
  rewrite Main. split.
  - intro Hin. exists xi. split; [exact Hin | symmetry; exact Hx].
  - intros [u [Hu Ex]]. unfold xi. rewrite Ex, inverse_map_left by exact Hdet. exact Hu.
Qed.

(* non-vacuity: the hypotheses are satisfiable (unit tetrahedron, reflected) and in_ref is the
   closed reference tetrahedron *)
Example in_ref_tetra u : in_ref "TETRA4"%string u <->
  let '(r, s, t) := u in (0 <= r /\ 0 <= s /\ 0 <= t /\ r + s + t <= 1)%R.
Proof.
  destruct u as [[r s] t]. unfold in_ref. simpl. split.
  - intro H.
    pose proof (H _ (or_introl eq_refl)) as A0. pose proof (H _ (or_intror (or_introl eq_refl))) as A1.
    pose proof (H _ (or_intror (or_intror (or_introl eq_refl)))) as A2.
    pose proof (H _ (or_intror (or_intror (or_intror (or_introl eq_refl))))) as A3.
    unfold Reval in A0, A1, A2, A3. simpl in A0, A1, A2, A3. unfold Q2R in A3. simpl in A3. lra.
  - intros [H0 [H1 [H2 H3]]] h [E|[E|[E|[E|[]]]]]; subst h; unfold Reval; simpl; unfold Q2R; simpl; lra.
Qed.
Example reflected_unit_det : det3 ((-1, 0, 0), (0, 1, 0), (0, 0, 1))%R <> 0%R.
Proof. unfold det3, Rtriple. simpl. lra. Qed.

Print Assumptions inverse_map_right.
Print Assumptions inverse_map_left.
Print Assumptions located_iff_in_image_3d.
