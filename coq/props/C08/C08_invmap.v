(* C08_invmap.v — the two inverse-map branches of _GroupElem._Get_Mapping.

   affine branch      xiP = xiOrigin + (xP - x0) @ invF_e_pg[e, 0]
   iterative branch   least_squares(Eval) with (code as found, translator form EvalTangent)
                         Eval(xi, xP) = x0 + (xi - xiOrigin) @ F(xi) - xP,   F(xi) = dN(xi) @ X
                      or (form EvalIso)  Eval(xi, xP) = N(xi) @ X - xP.
   x0 = coordinates of node 0, xiOrigin = the `origin` table.  The form present in the checked
   tree is read by translator/faces.py (fail-closed) into EFP.Gen_Faces.eval_form; the file
   C08_invmap_current.v states the property for THAT form. *)
From Coq Require Import QArith Qreals Reals Ring_polynom List String Lia Lra Bool Arith Field.
From EFLib Require Import PolyQ ElemDefs QuadDefs.
From EFP Require Import C08_defs Gen_Elems Gen_Faces.
Import ListNotations.
Local Open Scope list_scope.
Local Open Scope nat_scope.

Definition ftab_of (e : elem) : ftab :=
  match find_ftab (ename e) all_ftabs with Some t => t | None => ft_SEG2 end.

(* ---------- tables: `origin` is the local coordinate of node 0 ---------- *)
Definition chk_origin (e : elem) : bool :=
  match find_ftab (ename e) all_ftabs, enodes e with
  | Some t, n0 :: _ => Nat.eqb (List.length (forigin t)) (edim e) && Nat.eqb (List.length n0) (edim e) &&
                       forallb (fun a => Qeq_bool (nth a (forigin t) 0%Q) (nth a n0 1%Q)) (seq 0 (edim e))
  | _, _ => false
  end.
Lemma all_origin : forallb chk_origin all_elems = true.
Proof. vm_cast_no_check (eq_refl true). Qed.

Theorem origin_is_node0 : forall e, In e all_elems -> forall a, a < edim e ->
  nth a (forigin (ftab_of e)) 0%Q == nth a (nth 0 (enodes e) []) 1%Q.
Proof.
  intros e He a Ha. pose proof (forallb_In _ _ all_origin e He) as H. unfold chk_origin in H. unfold ftab_of.
  destruct (find_ftab (ename e) all_ftabs) as [t|]; [|discriminate].
  destruct (enodes e) as [|n0 r]; [discriminate|]. simpl.
  apply andb_true_iff in H as [_ H]. rewrite forallb_forall in H.
  assert (Hin : In a (seq 0 (edim e))) by (apply in_seq; lia).
  apply Qeq_bool_eq. exact (H a Hin).
Qed.

(* ---------- affine elements: the isoparametric map is affine and F is constant ---------- *)
Definition xi_or0 (dim a : nat) : PExpr Q := if a <? dim then xi_var a else PEO.
(* column b of A restricted to the element dimension: F row b = dx/dxi_b = A[:, b] *)
Definition chk_affine (e : elem) : bool :=
  pvec_eqb (vaffinize e (xmap e)) (affine_of (xi_or0 (edim e))) &&
  forallb (fun b => pvec_eqb (vaffinize e (Frow e b)) (A_col b)) (seq 0 (edim e)).
Lemma all_affine : forallb chk_affine all_elems = true.
Proof. vm_cast_no_check (eq_refl true). Qed.

(* For every element type whose nodes are the affine image X_i = O + A xi_i of the reference
   nodes (all O, A; parallelograms, parallelepipeds, straight-sided simplices of any order):
   N(xi) @ X = O + A xi  and  F(xi) = dN(xi) @ X = A^T  at every reference point. *)
Theorem affine_element_map : forall e, In e all_elems -> forall l : list R,
  Rv l (vaffinize e (xmap e)) = Rv l (affine_of (xi_or0 (edim e))) /\
  forall b, b < edim e -> Rv l (vaffinize e (Frow e b)) = Rv l (A_col b).
Proof.
  intros e He l. pose proof (forallb_In _ _ all_affine e He) as H. unfold chk_affine in H.
  apply andb_true_iff in H as [H1 H2]. split.
  - exact (pvec_eqb_sound _ _ H1 l).
  - intros b Hb. rewrite forallb_forall in H2. apply pvec_eqb_sound. apply H2. apply in_seq. lia.
Qed.

(* ---------- affine_inverse_map: the closed-form inverse of the code (Inv = adj / det) ---------- *)
(* dim 3.  a_ij = A_ij are the entries of matT = Transpose(F) in `Inv`; d = x - x0 = A (xi - xi0);
   the code returns xi0 + d @ inv(F) with inv(F)[i][j] = adj[i][j] / det. *)
Theorem affine_inverse_map_3d : forall a00 a01 a02 a10 a11 a12 a20 a21 a22 x0 x1 x2 : R,
  let det := (a00 * (a11 * a22 - a12 * a21) - a10 * (a01 * a22 - a02 * a21) + a20 * (a01 * a12 - a02 * a11))%R in
  det <> 0%R ->
  let det00 := (a11 * a22 - a21 * a12)%R in let det01 := (a10 * a22 - a20 * a12)%R in let det02 := (a10 * a21 - a20 * a11)%R in
  let det10 := (a01 * a22 - a21 * a02)%R in let det11 := (a00 * a22 - a20 * a02)%R in let det12 := (a00 * a21 - a20 * a01)%R in
  let det20 := (a01 * a12 - a11 * a02)%R in let det21 := (a00 * a12 - a10 * a02)%R in let det22 := (a00 * a11 - a10 * a01)%R in
  let i00 := (det00 / det)%R in let i01 := (- det01 / det)%R in let i02 := (det02 / det)%R in
  let i10 := (- det10 / det)%R in let i11 := (det11 / det)%R in let i12 := (- det12 / det)%R in
  let i20 := (det20 / det)%R in let i21 := (- det21 / det)%R in let i22 := (det22 / det)%R in
  let d0 := (a00 * x0 + a01 * x1 + a02 * x2)%R in let d1 := (a10 * x0 + a11 * x1 + a12 * x2)%R in
  let d2 := (a20 * x0 + a21 * x1 + a22 * x2)%R in
  (d0 * i00 + d1 * i10 + d2 * i20 = x0 /\ d0 * i01 + d1 * i11 + d2 * i21 = x1 /\ d0 * i02 + d1 * i12 + d2 * i22 = x2)%R.
Proof.
  intros a00 a01 a02 a10 a11 a12 a20 a21 a22 x0 x1 x2 det Hd. cbv zeta. unfold det in *.
  repeat split; field; exact Hd.
Qed.

(* dim 2.  F = [[alpha, beta], [a, b]] with alpha = A00, beta = A10, a = A01, b = A11 *)
Theorem affine_inverse_map_2d : forall alpha beta a b x0 x1 : R,
  let det := (alpha * b - beta * a)%R in det <> 0%R ->
  let d0 := (alpha * x0 + a * x1)%R in let d1 := (beta * x0 + b * x1)%R in
  (d0 * (b / det) + d1 * (- a / det) = x0 /\ d0 * (- beta / det) + d1 * (alpha / det) = x1)%R.
Proof. intros alpha beta a b x0 x1 det Hd. cbv zeta. unfold det in *. split; field; exact Hd. Qed.

Theorem affine_inverse_map_1d : forall a x0 : R, a <> 0%R -> (a * x0 * (1 / a) = x0)%R.
Proof. intros a x0 Ha. field. exact Ha. Qed.

Example affine_inverse_nonvacuous : (1 * (1 * 1 - 0 * 0) - 0 * (0 * 1 - 0 * 0) + 0 * (0 * 0 - 0 * 1) <> 0)%R.
Proof. lra. Qed.

(* ---------- iterative branch: the cost function ---------- *)
Definition origin_vec (e : elem) (a : nat) : PExpr Q := PEc (nth a (forigin (ftab_of e)) 0%Q).
Definition tangent_map (e : elem) : pvec :=
  padd (node_vec 0)
       (pvsum (map (fun a => pscale (PEsub (xi_var a) (origin_vec e a)) (Frow e a)) (seq 0 (edim e)))).
(* residual of the cost function at the TRUE pre-image: Eval(xi, xP := N(xi) @ X) *)
Definition cost (k : eval_kind) (e : elem) : pvec :=
  match k with
  | EvalTangent => psub (tangent_map e) (xmap e)
  | EvalIso => psub (xmap e) (xmap e)
  end.

(* corrected formula: consistent for every element type, every xi, all node coordinates *)
Lemma all_iso_consistent : forallb (fun e => pvec_eqb (cost EvalIso e) pzero) all_elems = true.
Proof. vm_cast_no_check (eq_refl true). Qed.
Theorem iterative_inverse_map_consistent_iso : forall e, In e all_elems -> forall l : list R,
  Rv l (cost EvalIso e) = (0, 0, 0)%R.
Proof.
  intros e He l. pose proof (forallb_In _ _ all_iso_consistent e He) as H. cbv beta in H.
  rewrite (pvec_eqb_sound _ _ H l). unfold Rv, pzero, pn, Reval. simpl. reflexivity.
Qed.

(* the formula found in the code is consistent on affine elements (all 19 types) ... *)
Lemma all_tangent_affine : forallb (fun e => pvec_eqb (vaffinize e (cost EvalTangent e)) pzero) all_elems = true.
Proof. vm_cast_no_check (eq_refl true). Qed.
Theorem tangent_cost_consistent_on_affine : forall e, In e all_elems -> forall l : list R,
  Rv l (vaffinize e (cost EvalTangent e)) = (0, 0, 0)%R.
Proof.
  intros e He l. pose proof (forallb_In _ _ all_tangent_affine e He) as H. cbv beta in H.
  rewrite (pvec_eqb_sound _ _ H l). unfold Rv, pzero, pn, Reval. simpl. reflexivity.
Qed.

(* ... and for arbitrary node positions exactly on the types that are always affine *)
Definition tangent_ok (e : elem) : bool := pvec_eqb (cost EvalTangent e) pzero.
Example tangent_ok_exactly_on_linear_simplices :
  map ename (filter tangent_ok all_elems) = ["SEG2"; "TRI3"; "TETRA4"]%string.
Proof. vm_compute. reflexivity. Qed.

(* ... but REFUTED on a non-parallelogram QUAD4 (and HEXA8): witness by exact computation.
   QUAD4 vertices (0,0) (1,0) (2,2) (0,1), xi = (0,0): the true image is (3/4, 3/4) while
   x0 + (xi - xi0) @ F(xi) = (1, 1);  residual (1/4, 1/4). *)
Definition env_of (xi : list Q) (nodes : list (list Q)) : list Q :=
  [nth 0 xi 0%Q; nth 1 xi 0%Q; nth 2 xi 0%Q] ++ flat_map (fun n => [nth 0 n 0%Q; nth 1 n 0%Q; nth 2 n 0%Q]) nodes.
Definition quad_witness : list Q := env_of [0%Q; 0%Q] [[0;0]; [1;0]; [2;2]; [0;1]]%Q.
Definition hexa_witness : list Q :=
  env_of [0%Q; 0%Q; 0%Q] [[0;0;0]; [1;0;0]; [2;2;0]; [0;1;0]; [0;0;1]; [1;0;1]; [2;2;1]; [0;1;1]]%Q.

Lemma quad_witness_value : Qeval quad_witness (pn (cost EvalTangent el_QUAD4) 0) == 1#4.
Proof. vm_compute. reflexivity. Qed.

Theorem iterative_inverse_map_refuted :
  (exists l : list R, Reval l (pn (cost EvalTangent el_QUAD4) 0) <> 0%R) /\
  (exists l : list R, Reval l (pn (cost EvalTangent el_HEXA8) 0) <> 0%R).
Proof.
  split.
  - exists (map Q2R quad_witness).
    assert (H : pe_eqb (pe_subst (map (fun q => PEc q) quad_witness) (pn (cost EvalTangent el_QUAD4) 0)) (PEc (1#4)) = true)
      by (vm_compute; reflexivity).
    rewrite (Reval_at_Qpoint _ _ _ H). unfold Q2R. simpl. lra.
  - exists (map Q2R hexa_witness).
    assert (H : pe_eqb (pe_subst (map (fun q => PEc q) hexa_witness) (pn (cost EvalTangent el_HEXA8) 0)) (PEc (1#4)) = true)
      by (vm_compute; reflexivity).
    rewrite (Reval_at_Qpoint _ _ _ H). unfold Q2R. simpl. lra.
Qed.

Print Assumptions origin_is_node0.
Print Assumptions affine_element_map.
Print Assumptions affine_inverse_map_3d.
Print Assumptions affine_inverse_map_2d.
Print Assumptions iterative_inverse_map_consistent_iso.
Print Assumptions tangent_cost_consistent_on_affine.
Print Assumptions iterative_inverse_map_refuted.
