(* C08_subparam.v — sub-parametric argument: a straight-sided higher-order element (nodes at the
   images of their local coordinates under the map of the vertex element) has the geometry map,
   the Jacobian rows and hence det J of its vertex ("parent") element, at EVERY reference point
   and for ALL vertex coordinates.  With it measure_exact extends to all 19 element types without
   normalising the higher-order shape functions at the Gauss points. *)
From Coq Require Import QArith Qabs Qreals Reals Ring_polynom List String Lia Lra Bool Arith.
From EFLib Require Import PolyQ ElemDefs QuadDefs.
From EFP Require Import C08_defs Gen_Elems Gen_Gauss Gen_Faces C08_faces C08_measure.
Import ListNotations.
Local Open Scope list_scope.
Local Open Scope nat_scope.

Definition vstraighten (e p : elem) (v : pvec) : pvec :=
  [straighten e p (pn v 0); straighten e p (pn v 1); straighten e p (pn v 2)].

Definition chk_subparam (e : elem) : bool :=
  let p := parent_of e in
  Nat.eqb (edim p) (edim e) &&
  pvec_eqb (vstraighten e p (xmap e)) (xmap p) &&
  forallb (fun a => pvec_eqb (vstraighten e p (Frow e a)) (Frow p a)) [0; 1; 2].
Lemma all_subparam : forallb chk_subparam all_elems = true.
Proof. vm_cast_no_check (eq_refl true). Qed.

Definition senv (e p : elem) (l : list R) : list R := map (Reval l) (node_sub (straight_nodes e p)).
Lemma Reval_straighten l e p x : Reval l (straighten e p x) = Reval (senv e p l) x.
Proof. unfold straighten, senv. apply Reval_subst. Qed.
Lemma Rv_vstraighten l e p v : Rv l (vstraighten e p v) = Rv (senv e p l) v.
Proof. unfold Rv, vstraighten. cbn [pn nth]. rewrite !Reval_straighten. reflexivity. Qed.

(* subparametric_geometry: for every element type e with vertex element p, every reference point
   and all vertex coordinates (l), with the nodes of e placed straight-sidedly:
     x_e(xi) = x_p(xi)   and   dx_e/dxi_a = dx_p/dxi_a  (a = 0, 1, 2). *)
Theorem subparametric_geometry : forall e, In e all_elems -> forall l : list R,
  let p := parent_of e in
  edim p = edim e /\
  Rv (senv e p l) (xmap e) = Rv l (xmap p) /\
  forall a, a < 3 -> Rv (senv e p l) (Frow e a) = Rv l (Frow p a).
Proof.
  intros e He l p. pose proof (forallb_In _ _ all_subparam e He) as H. unfold chk_subparam in H. fold p in H.
  apply andb_true_iff in H as [H H3]. apply andb_true_iff in H as [H1 H2].
  split; [now apply Nat.eqb_eq|]. split.
  - rewrite <- Rv_vstraighten. exact (pvec_eqb_sound _ _ H2 l).
  - intros a Ha. rewrite <- Rv_vstraighten. apply pvec_eqb_sound. rewrite forallb_forall in H3. apply H3.
    destruct a as [|[|[|a]]]; simpl; auto; lia.
Qed.

Lemma detJ_of_rows (d : nat) (e : elem) (l : list R) : edim e = d ->
  Reval l (detJ e) =
  match d with
  | 3 => Rtriple (Rv l (Frow e 0)) (Rv l (Frow e 1)) (Rv l (Frow e 2))
  | 2 => snd (Rcross (Rv l (Frow e 0)) (Rv l (Frow e 1)))
  | _ => fst (fst (Rv l (Frow e 0)))
  end.
Proof.
  intro Hd. unfold detJ. rewrite Hd. destruct d as [|[|[|[|d]]]]; try reflexivity.
Qed.

(* det J of the straight-sided element is det J of its vertex element *)
Theorem subparametric_detJ : forall e, In e all_elems -> forall l : list R,
  Reval l (straighten e (parent_of e) (detJ e)) = Reval l (detJ (parent_of e)).
Proof.
  intros e He l. destruct (subparametric_geometry e He l) as [Hd [_ HF]]. cbv zeta in *.
  rewrite Reval_straighten.
  rewrite (detJ_of_rows (edim e) e _ eq_refl), (detJ_of_rows (edim e) (parent_of e) _ Hd).
  rewrite (HF 0), (HF 1), (HF 2) by lia. reflexivity.
Qed.

Lemma Reval_mul l a b : Reval l (PEmul a b) = (Reval l a * Reval l b)%R.
Proof. reflexivity. Qed.
Lemma Reval_add l a b : Reval l (PEadd a b) = (Reval l a + Reval l b)%R.
Proof. reflexivity. Qed.

Theorem subparametric_moment : forall e, In e all_elems -> forall c, c < 3 -> forall l : list R,
  Reval l (straighten e (parent_of e) (moment e c)) = Reval l (moment (parent_of e) c).
Proof.
  intros e He c Hc l. destruct (subparametric_geometry e He l) as [Hd [Hx _]]. cbv zeta in *.
  pose proof (subparametric_detJ e He l) as HJ. rewrite Reval_straighten in HJ.
  rewrite Reval_straighten. unfold moment. rewrite !Reval_mul, HJ. f_equal.
  unfold Rv in Hx. inversion Hx as [[H0 H1 H2]].
  destruct c as [|[|[|c]]]; try lia; assumption.
Qed.

(* rule sums only depend on the function *)
Lemma at_point_ext pt f1 f2 : (forall l : list R, Reval l f1 = Reval l f2) ->
  forall l : list R, Reval l (at_point pt f1) = Reval l (at_point pt f2).
Proof. intros H l. unfold at_point. rewrite !Reval_subst. apply H. Qed.
Lemma rule_sum_ext r f1 f2 : (forall l : list R, Reval l f1 = Reval l f2) ->
  forall l : list R, Reval l (rule_sum r f1) = Reval l (rule_sum r f2).
Proof.
  intros H l. unfold rule_sum. generalize (rw r). induction (rpts r) as [|pt ps IH]; intros [|w ws]; try reflexivity.
  cbn [rule_sum_pw]. rewrite !Reval_add, !Reval_mul, (at_point_ext pt f1 f2 H l), IH. reflexivity.
Qed.

(* what Integrate_e computes on a straight-sided element of ANY of the 19 types is the rule of that
   type applied to det J (resp. det J * x_c) of its vertex element *)
Theorem measure_reduces_to_parent : forall e, In e all_elems -> forall mt (l : list R),
  Reval l (measure_code e mt) = Reval l (rule_sum (the_rule e mt) (detJ (parent_of e))) /\
  forall c, c < 3 -> Reval l (moment_code e mt c) = Reval l (rule_sum (the_rule e mt) (moment (parent_of e) c)).
Proof.
  intros e He mt l. split.
  - apply rule_sum_ext. apply subparametric_detJ. exact He.
  - intros c Hc. apply rule_sum_ext. intro l0. apply subparametric_moment; assumption.
Qed.

(* ---- measure_exact for all 19 types, on the vertex-element polynomials ---- *)
Definition moments_ok (p : elem) : bool := existsb (fun q => String.eqb (ename q) (ename p)) moment_elems.
Definition chk_measure_parent (e : elem) : bool :=
  let p := parent_of e in
  has_rule e "rigi"%string && has_rule e "mass"%string &&
  forallb (fun mt =>
    if heavy e then
      (* on the affine vertex element det J is the constant det A (one polynomial identity); the rule
         is then applied to that constant: cheap, and equal to rule(affinize det J) by rule_sum_ext *)
      pe_eqb (affinize p (detJ p)) detA &&
      coeffs_within tol13 (PEsub (rule_sum (the_rule e mt) detA) (PEmul (PEc (ref_measure e)) detA))
    else
      coeffs_within tol13 (PEsub (rule_sum (the_rule e mt) (detJ p)) (measure_star p))) ["rigi"; "mass"]%string &&
  (* `if`, not `||`: vm_compute is call-by-value and would evaluate both arguments of orb *)
  (if moments_ok p then
     forallb (fun c => coeffs_within tol13 (PEsub (rule_sum (the_rule e "mass"%string) (moment p c)) (moment_star p c))) [0; 1; 2]
   else true).
Lemma all_measure_parent : forallb chk_measure_parent all_elems = true.
Proof. vm_cast_no_check (eq_refl true). Qed.

(* measure_exact: for EACH of the 19 types placed straight-sidedly on arbitrary vertices,
   Integrate_e's value (rule 'rigi' and rule 'mass') equals, as a function of the vertex
   coordinates, rule(det J of the vertex element) [measure_reduces_to_parent], and that polynomial
   differs from the exact measure by coefficients <= 1e-13 (SEG/TRI/QUAD/TETRA families: any
   straight-sided element incl. first moments; HEXA/PRISM families: affine elements). *)
Theorem measure_exact : forall e, In e all_elems -> forall mt, mt = "rigi"%string \/ mt = "mass"%string ->
  let p := parent_of e in
  (forall l : list R, Reval l (measure_code e mt) = Reval l (rule_sum (the_rule e mt) (detJ p))) /\
  (heavy e = false -> coeffs_within tol13 (PEsub (rule_sum (the_rule e mt) (detJ p)) (measure_star p)) = true) /\
  (heavy e = true ->
     (forall l : list R, Reval l (rule_sum (the_rule e mt) (affinize p (detJ p))) = Reval l (rule_sum (the_rule e mt) detA)) /\
     coeffs_within tol13 (PEsub (rule_sum (the_rule e mt) detA) (PEmul (PEc (ref_measure e)) detA)) = true) /\
  (moments_ok p = true -> forall c, c < 3 ->
     (forall l : list R, Reval l (moment_code e "mass"%string c) = Reval l (rule_sum (the_rule e "mass"%string) (moment p c))) /\
     coeffs_within tol13 (PEsub (rule_sum (the_rule e "mass"%string) (moment p c)) (moment_star p c)) = true).
Proof.
  intros e He mt Hmt p. pose proof (forallb_In _ _ all_measure_parent e He) as H. unfold chk_measure_parent in H. fold p in H.
  apply andb_true_iff in H as [H H3]. apply andb_true_iff in H as [_ H2].
  rewrite forallb_forall in H2.
  assert (Hin : In mt ["rigi"; "mass"]%string) by (destruct Hmt; subst; simpl; auto).
  specialize (H2 mt Hin).
  split; [intro l; apply (measure_reduces_to_parent e He mt l)|].
  split; [intro Hh; rewrite Hh in H2; exact H2|].
  split.
  { intro Hh. rewrite Hh in H2. apply andb_true_iff in H2 as [Ha Hb]. split; [|exact Hb].
    apply rule_sum_ext. intro l0. exact (Qnorm_sound l0 _ _ Ha). }
  intros Hm c Hc. rewrite Hm in H3. rewrite forallb_forall in H3. split.
  - intro l. apply (measure_reduces_to_parent e He "mass"%string l). exact Hc.
  - apply H3. destruct c as [|[|[|c]]]; simpl; auto; lia.
Qed.

Example measure_exact_scope : List.length all_elems = 19 /\ heavy el_TRI15 = false /\ moments_ok (parent_of el_TRI15) = true.
Proof. vm_compute. repeat split. Qed.

Print Assumptions subparametric_geometry.
Print Assumptions subparametric_detJ.
Print Assumptions measure_reduces_to_parent.
Print Assumptions measure_exact.
