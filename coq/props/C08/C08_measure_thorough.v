(* C08_measure_thorough.v (thorough tier only) — measure_exact for GENERAL straight-sided
   hexahedra and prisms (trilinear / bilinear-in-plane geometry, 24 / 18 symbolic vertex
   coordinates): the rules the code uses for HEXA8/HEXA20/HEXA27 (8 and 27 points) and
   PRISM6/PRISM15/PRISM18 applied to det J of the vertex element, coefficient-wise within 1e-13 of
   the exact volume polynomial.  With measure_reduces_to_parent (C08_subparam.v) this is the
   statement for all six types. *)
From Coq Require Import QArith Qabs Qreals Reals Ring_polynom List String Lia Lra Bool Arith.
From EFLib Require Import PolyQ ElemDefs QuadDefs.
From EFP Require Import C08_defs Gen_Elems Gen_Gauss Gen_Faces C08_faces C08_measure C08_subparam.
Import ListNotations.
Local Open Scope list_scope.
Local Open Scope nat_scope.

Definition heavy_elems : list elem := filter heavy all_elems.
Definition chk_general (e : elem) : bool :=
  let p := parent_of e in
  forallb (fun mt => coeffs_within tol13 (PEsub (rule_sum (the_rule e mt) (detJ p)) (measure_star p))) ["rigi"; "mass"]%string.
Lemma all_general : forallb chk_general heavy_elems = true.
Proof. vm_cast_no_check (eq_refl true). Qed.

Theorem measure_exact_general_hexa_prism : forall e, In e all_elems -> heavy e = true ->
  forall mt, mt = "rigi"%string \/ mt = "mass"%string ->
  (forall l : list R, Reval l (measure_code e mt) = Reval l (rule_sum (the_rule e mt) (detJ (parent_of e)))) /\
  coeffs_within tol13 (PEsub (rule_sum (the_rule e mt) (detJ (parent_of e))) (measure_star (parent_of e))) = true.
Proof.
  intros e He Hh mt Hmt. split; [intro l; apply (measure_reduces_to_parent e He mt l)|].
  assert (Hin : In e heavy_elems) by (apply filter_In; split; assumption).
  pose proof (forallb_In _ _ all_general e Hin) as H. unfold chk_general in H. rewrite forallb_forall in H.
  apply H. destruct Hmt; subst; simpl; auto.
Qed.
Example six_heavy_types : List.length heavy_elems = 6.
Proof. reflexivity. Qed.
Print Assumptions measure_exact_general_hexa_prism.
