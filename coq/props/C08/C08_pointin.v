(* C08_pointin.v — the half-space tests of _GroupElem.Get_pointsInElem (dim = 3) and the edge
   tests (dim = 2), as sign conditions on the un-normalised products (normalising i_f, j_f, n_f
   multiplies by positive numbers; the 1e-12 slack is runtime behaviour, sampled).

   dim 3, per row of `surfaces` (after the code's treatment of the padded prism rows):
     p0 = row[0], p1 = row[1], p2 = row[-1],  n = (X_p1 - X_p0) x (X_p2 - X_p0),
     accepted  iff  (x - X_p0) . n <= 0  for all rows                       (OrientTables)
     accepted  iff  ((x - X_p0) . n) * ((centroid - X_p0) . n) >= 0         (OrientCentroid)
   For an affine element X_i = O + A xi_i and x = O + A xi:
     (x - X_p0) . n = det A * g_f(xi),   g_f = c_f * h_f  with c_f > 0 and h_f one of the
   canonical half-space functions of the reference shape (each canonical one is hit):
     tetrahedron  -r, -s, -t, r+s+t-1 ;  hexahedron  +-r-1, +-s-1, +-t-1 ;
     prism        -r, -s, r+s-1, +-t-1.
   Hence (OrientTables) with det A > 0 the test accepts exactly the closed element, and with
   det A < 0 (reflected element) every interior point is rejected. *)
From Coq Require Import QArith Qreals Reals Ring_polynom List String Lia Lra Bool Arith Psatz.
From EFLib Require Import PolyQ ElemDefs QuadDefs.
From EFP Require Import C08_defs Gen_Elems Gen_Faces.
Import ListNotations.
Local Open Scope list_scope.
Local Open Scope nat_scope.

Definition r_ : PExpr Q := xi_var 0.
Definition s_ : PExpr Q := xi_var 1.
Definition t_ : PExpr Q := xi_var 2.
Definition one : PExpr Q := PEc 1%Q.
Definition canon (parent : string) : list (PExpr Q) :=
  if String.eqb parent "TETRA4"%string then [PEopp r_; PEopp s_; PEopp t_; PEsub (PEadd (PEadd r_ s_) t_) one]
  else if String.eqb parent "HEXA8"%string then
    [PEsub (PEopp r_) one; PEsub r_ one; PEsub (PEopp s_) one; PEsub s_ one; PEsub (PEopp t_) one; PEsub t_ one]
  else [PEopp r_; PEopp s_; PEsub (PEadd r_ s_) one; PEsub (PEopp t_) one; PEsub t_ one].
Definition centroid (parent : string) : list Q :=
  if String.eqb parent "TETRA4"%string then [(1#4); (1#4); (1#4)]%Q
  else if String.eqb parent "HEXA8"%string then [0; 0; 0]%Q else [(1#3); (1#3); 0]%Q.

(* rows the code uses *)
Fixpoint drop_lead (a : nat) (l : list nat) : list nat :=
  match l with [] => [] | x :: r => if Nat.eqb x a then drop_lead a r else l end.
Definition trim_closing (l : list nat) : list nat :=
  match l with [] => [] | a :: r => a :: rev (drop_lead a (rev r)) end.
Definition is_prism (t : ftab) : bool := String.eqb (fparent t) "PRISM6"%string.
Definition pie_rows (m : trim_kind) (t : ftab) : list (list nat) :=
  match m with
  | TrimClosing => map trim_closing (fsurfaces t)
  | TrimLast1 => if is_prism t then mapi (fun k row => if 3 <=? k then removelast row else row) (fsurfaces t)
                 else fsurfaces t
  end.
Definition p012 (row : list nat) : nat * nat * nat := (nth 0 row 0, nth 1 row 0, last row 0).

(* the un-normalised test quantity with the query point x = O + A xi *)
Definition xq : pvec := affine_of xi_var.
Definition test_expr (row : list nat) : PExpr Q :=
  let '(p0, p1, p2) := p012 row in
  ptriple (psub xq (node_vec p0)) (psub (node_vec p1) (node_vec p0)) (psub (node_vec p2) (node_vec p0)).
(* the same on the reference element: nodes at their local coordinates, x = xi *)
Definition ref_node (e : elem) (i : nat) : pvec := [qpt (nth i (enodes e) []) 0; qpt (nth i (enodes e) []) 1; qpt (nth i (enodes e) []) 2].
Definition g_expr (e : elem) (row : list nat) : PExpr Q :=
  let '(p0, p1, p2) := p012 row in
  ptriple (psub [r_; s_; t_] (ref_node e p0)) (psub (ref_node e p1) (ref_node e p0)) (psub (ref_node e p2) (ref_node e p0)).

Definition elem_of (t : ftab) : elem := match find_elem (fname t) all_elems with Some e => e | None => el_SEG2 end.
(* positive factor c with g = c * h, if any *)
Definition factor_of (cen : list Q) (g h : PExpr Q) : option Q :=
  let gv := Qeval cen g in let hv := Qeval cen h in
  if Qeq_bool hv 0 then None
  else let c := Qred (gv / hv) in
       if Qle_bool c 0 then None else if pe_eqb g (PEmul (PEc c) h) then Some c else None.
Definition match_row (t : ftab) (row : list nat) : option (nat * Q) :=
  let g := g_expr (elem_of t) row in
  let hs := canon (fparent t) in
  fold_right (fun kh acc => match factor_of (centroid (fparent t)) g (snd kh) with Some c => Some (fst kh, c) | None => acc end)
             None (combine (seq 0 (List.length hs)) hs).
Definition chk_pie (m : trim_kind) (t : ftab) : bool :=
  negb (Nat.eqb (fdim t) 3) ||
  (let rows := pie_rows m t in
   let ms := map (match_row t) rows in
   (* every row is a positive multiple of a canonical half-space; every half-space is tested *)
   forallb (fun o => match o with Some _ => true | None => false end) ms &&
   forallb (fun k => existsb (fun o => match o with Some (k', _) => Nat.eqb k k' | None => false end) ms)
           (seq 0 (List.length (canon (fparent t)))) &&
   (* the symbolic test on the affine element is det A * g *)
   forallb (fun row => pe_eqb (affinize (elem_of t) (test_expr row)) (PEmul detA (g_expr (elem_of t) row))) rows &&
   (* the centroid used by the orientation-free variant is strictly inside *)
   forallb (fun h => negb (Qle_bool 0 (Qeval (centroid (fparent t)) h))) (canon (fparent t))).

Definition types3 : list ftab := filter (fun t => Nat.eqb (fdim t) 3) all_ftabs.
(* which types pass with the row treatment found in the code / with the closing-trim treatment *)
Definition pie_pass (m : trim_kind) : list string := map fname (filter (chk_pie m) types3).

Lemma closing_trim_all : forallb (chk_pie TrimClosing) all_ftabs = true.
Proof. vm_cast_no_check (eq_refl true). Qed.

(* with `surfaces[3, :-1]` the quadratic prisms get p2 = p0 on their triangular faces: the
   normal is the zero vector and the two end faces are not tested at all *)
Example last1_trim_fails_on_quadratic_prisms :
  pie_pass TrimLast1 = ["TETRA4"; "TETRA10"; "HEXA8"; "HEXA20"; "HEXA27"; "PRISM6"]%string /\
  test_expr (nth 3 (pie_rows TrimLast1 ft_PRISM15) []) = test_expr [3; 12; 4; 14; 5; 13; 3] /\
  pe_eqb (test_expr [3; 12; 4; 14; 5; 13; 3]) PEO = true.
Proof. split; [vm_compute; reflexivity | split; [reflexivity | vm_compute; reflexivity]]. Qed.

(* ---------- semantic statements ---------- *)
Lemma pos_mul k h : (k > 0 -> (k * h <= 0 <-> h <= 0))%R.
Proof.
  intros Hk. split; intro H.
  - destruct (Rle_or_lt h 0) as [G|G]; [exact G|]. pose proof (Rmult_lt_0_compat _ _ Hk G). lra.
  - replace (k * h)%R with (- (k * - h))%R by ring.
    assert (0 <= k * - h)%R by (apply Rmult_le_pos; lra). lra.
Qed.
Lemma sign_pos D c h : (D > 0 -> c > 0 -> (D * (c * h) <= 0 <-> h <= 0))%R.
Proof.
  intros HD Hc. replace (D * (c * h))%R with ((D * c) * h)%R by ring.
  apply pos_mul. apply Rmult_lt_0_compat; assumption.
Qed.
Lemma sign_neg D c h : (D < 0 -> c > 0 -> h < 0 -> ~ (D * (c * h) <= 0))%R.
Proof.
  intros HD Hc Hh H.
  assert (K : (0 < (- D * c) * - h)%R) by (apply Rmult_lt_0_compat; [apply Rmult_lt_0_compat|]; lra).
  replace ((- D * c) * - h)%R with (D * (c * h))%R in K by ring. lra.
Qed.
Lemma sign_free D c h hc : (D <> 0 -> c > 0 -> hc < 0 -> ((D * (c * h)) * (D * (c * hc)) >= 0 <-> h <= 0))%R.
Proof.
  intros HD Hc Hh.
  assert (HD2 : (0 < D * D)%R) by (destruct (Rtotal_order D 0) as [G|[G|G]]; [|contradiction|];
     [replace (D * D)%R with ((- D) * (- D))%R by ring|]; apply Rmult_lt_0_compat; lra).
  assert (K : (0 < (D * D * (c * c)) * - hc)%R).
  { apply Rmult_lt_0_compat; [apply Rmult_lt_0_compat; [exact HD2 | apply Rmult_lt_0_compat; lra] | lra]. }
  replace (D * (c * h) * (D * (c * hc)))%R with (- (((D * D * (c * c)) * - hc) * h))%R by ring.
  pose proof (pos_mul _ h K) as P. split; intro H.
  - apply P. lra.
  - apply P in H. lra.
Qed.

(* point_in_elem_3d: for every 3-D type (row treatment m for which the table check passes),
   every row f used by the code, every affine element (O, A) and every reference point xi:
     test_f(x(xi)) = det A * c_f * h_f(xi),  c_f > 0,  h_f canonical.
   Consequences (sign_pos / sign_neg / sign_free above):
     det A > 0 : test_f <= 0  <->  h_f(xi) <= 0           (exactly the closed reference element)
     det A < 0 : h_f(xi) < 0  ->   test_f > 0             (reflected: interior points rejected)
     centroid variant, det A <> 0 : test_f(x) * test_f(centroid) >= 0  <->  h_f(xi) <= 0. *)
Theorem point_in_elem_3d : forall m t, In t all_ftabs -> fdim t = 3 -> chk_pie m t = true ->
  forall row, In row (pie_rows m t) ->
  exists k c h, match_row t row = Some (k, c) /\ nth_error (canon (fparent t)) k = Some h /\ (0 < c)%Q /\
    forall l : list R,
      Reval l (affinize (elem_of t) (test_expr row)) = (Reval l detA * (Q2R c * Reval l h))%R.
Proof.
  intros m t Ht Hd H row Hrow. unfold chk_pie in H. rewrite Hd in H. simpl in H.
  apply andb_true_iff in H as [H _]. apply andb_true_iff in H as [H H3]. apply andb_true_iff in H as [H1 _].
  rewrite forallb_forall in H1. specialize (H1 (match_row t row) (in_map _ _ _ Hrow)).
  rewrite forallb_forall in H3. specialize (H3 row Hrow).
  destruct (match_row t row) as [[k c]|] eqn:E; [|discriminate].
  unfold match_row in E.
  set (cen := centroid (fparent t)) in *. set (g := g_expr (elem_of t) row) in *.
  assert (G : forall hs0 k0, fold_right (fun kh acc => match factor_of cen g (snd kh) with Some c0 => Some (fst kh, c0) | None => acc end)
                None (combine (seq k0 (List.length hs0)) hs0) = Some (k, c) ->
              exists h, nth_error hs0 (k - k0) = Some h /\ k0 <= k /\ factor_of cen g h = Some c).
  { induction hs0 as [|h0 hs0 IH]; intros k0 E0; simpl in E0; [discriminate|].
    destruct (factor_of cen g h0) as [c0|] eqn:F.
    - inversion E0; subst. exists h0. rewrite Nat.sub_diag. simpl. auto.
    - destruct (IH (S k0) E0) as [h [Hn [Hk Hf]]]. exists h. split; [|split; [lia | exact Hf]].
      replace (k - k0) with (S (k - S k0)) by lia. exact Hn. }
  destruct (G _ _ E) as [h [Hn [_ Hf]]]. rewrite Nat.sub_0_r in Hn.
  exists k, c, h. split; [reflexivity|]. split; [exact Hn|].
  unfold factor_of in Hf.
  destruct (Qeq_bool (Qeval cen h) 0); [discriminate|].
  destruct (Qle_bool (Qred (Qeval cen g / Qeval cen h)) 0) eqn:Hle; [discriminate|].
  destruct (pe_eqb g (PEmul (PEc (Qred (Qeval cen g / Qeval cen h))) h)) eqn:Hg; [|discriminate].
  apply (f_equal (fun o => match o with Some x => x | None => 0%Q end)) in Hf. cbv beta iota in Hf. subst c. split.
  - apply Qnot_le_lt. intro Hc. apply Qle_bool_iff in Hc. congruence.
  - intro l. rewrite (Qnorm_sound l _ _ H3).
    change (Reval l (PEmul detA g)) with (Reval l detA * Reval l g)%R.
    rewrite (Qnorm_sound l _ _ Hg). reflexivity.
Qed.

(* non-vacuity and the concrete instance used in the documentation *)
Example pointin_hexa8_row0 : match_row ft_HEXA8 [0; 3; 2; 1] = Some (4, 4%Q).
Proof. vm_compute. reflexivity. Qed.

Print Assumptions point_in_elem_3d.
Print Assumptions sign_free.
