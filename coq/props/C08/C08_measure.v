(* C08_measure.v — the element measure: exact on straight-sided elements with the quadrature
   tables the running code uses (measure_exact, coefficient-wise tolerance), and invariant under
   every orthogonal matrix (rotations AND reflections) and translation (measure_rigid_invariant).

   measure_exact, choice made: the difference polynomial
       sum_p w_p det J(xi_p ; vertices)  -  measure_star(vertices)
   (vertices symbolic, Gauss points / weights = the doubles of the running code as exact
   rationals, EFP.Gen_Gauss) is normalised by the reflexive normaliser and EVERY coefficient of
   its normal form is bounded by 1e-13 in Q.  measure_star is the exact integral of det J: the
   sum over a rational rule that is proved (here, by exact computation against the closed-form
   monomial integrals iref of EFLib.QuadDefs) to integrate exactly every monomial of the degree
   box that det J is proved (by vanishing formal derivatives) to live in.  C08_faces.v proves
   that measure_star is the divergence / shoelace formula of the face tables. *)
From Coq Require Import QArith Qabs Qreals Reals Ring_polynom List String Lia Lra Bool Arith.
From EFLib Require Import PolyQ ElemDefs QuadDefs.
From EFP Require Import C08_defs Gen_Elems Gen_Gauss Gen_Faces C08_faces.
Import ListNotations.
Local Open Scope list_scope.
Local Open Scope nat_scope.

Definition parent_of (e : elem) : elem :=
  match find_ftab (ename e) all_ftabs with
  | Some t => parent_elem t
  | None => e
  end.
Definition parent_of_name (n : string) : elem :=
  match find_ftab n all_ftabs with Some t => parent_elem t | None => el_HEXA8 end.

(* ============ 1. the rational reference rules are exact on their degree boxes ============ *)
Definition chk_exact0 (r : rule) (es : list (list nat)) : bool :=
  forallb (fun e => Qeq_bool (apply_rule_mono (rpts r) (rw r) e) (iref (rshape r) e)) es.
Fixpoint box (ds : list nat) : list (list nat) :=
  match ds with [] => [[]] | d :: r => flat_map (fun a => map (cons a) (box r)) (seq 0 (S d)) end.
Definition prism_box : list (list nat) := flat_map (fun ab => map (fun c => ab ++ [c]) (seq 0 4)) (ElemDefs.exps 2 2).

Lemma star_rules_exact :
  chk_exact0 star_Seg (box [3]) && chk_exact0 star_Quad (box [3; 3]) && chk_exact0 star_Hex (box [3; 3; 3]) &&
  chk_exact0 star_Tri (ElemDefs.exps 2 2) && chk_exact0 star_Tet (ElemDefs.exps 3 2) && chk_exact0 star_Prism prism_box = true.
Proof. vm_cast_no_check (eq_refl true). Qed.

(* det J (and det J * x_c, for the first moments) of the straight-sided linear elements stays
   inside those boxes: formal derivatives of order box+1 vanish identically in all variables *)
Definition v1 : positive := 1%positive.
Definition v2 : positive := 2%positive.
Definition v3 : positive := 3%positive.
(* total degree <= 2 in the listed variables: every third-order formal derivative vanishes *)
Definition tot_le2 (vs : list positive) (f : PExpr Q) : bool :=
  forallb (fun a => forallb (fun b => forallb (fun c => pe_eqb (pd a (pd b (pd c f))) PEO) vs) vs) vs.
Definition in_box (e : elem) (f : PExpr Q) : bool :=
  if String.eqb (ename e) "SEG2"%string then deg_le v1 3 f
  else if String.eqb (ename e) "TRI3"%string then tot_le2 [v1; v2] f
  else if String.eqb (ename e) "QUAD4"%string then deg_le v1 3 f && deg_le v2 3 f
  else if String.eqb (ename e) "TETRA4"%string then tot_le2 [v1; v2; v3] f
  else if String.eqb (ename e) "HEXA8"%string then deg_le v1 3 f && deg_le v2 3 f && deg_le v3 3 f
  else tot_le2 [v1; v2] f && deg_le v3 3 f.
Definition linear_elems : list elem := [el_SEG2; el_TRI3; el_QUAD4; el_TETRA4; el_HEXA8; el_PRISM6].
(* first moments (centre of mass) are treated for the 1-D / 2-D types and the tetrahedra only
   (the symbolic degree-4 polynomials in 24 / 18 vertex coordinates of HEXA / PRISM are too
   large for the quick tier; their centres are covered by the correspondence runs) *)
Definition moment_elems : list elem := [el_SEG2; el_TRI3; el_QUAD4; el_TETRA4].
Definition with_moments (e : elem) : bool := existsb (fun p => String.eqb (ename p) (ename (parent_of_name (ename e)))) moment_elems.
Definition moment (e : elem) (c : nat) : PExpr Q := PEmul (detJ e) (pn (xmap e) c).
Lemma integrands_in_box :
  forallb (fun e => in_box e (detJ e)) linear_elems &&
  forallb (fun e => in_box e (moment e 0) && in_box e (moment e 1) && in_box e (moment e 2)) moment_elems &&
  in_box el_QUAD4 (pdot (xmap el_QUAD4) (normal_field el_QUAD4)) && in_box el_TRI3 (pdot (xmap el_TRI3) (normal_field el_TRI3)) = true.
Proof. vm_cast_no_check (eq_refl true). Qed.

(* ============ 2. measure_exact on the tables of the running code ============ *)
Definition tol13 : Q := 1 # 10000000000000.    (* 1e-13, bound on every coefficient *)

Definition the_rule (e : elem) (mt : string) : rule :=
  match find_rule (ename e) mt factory with Some r => r | None => star_Seg end.
Definition has_rule (e : elem) (mt : string) : bool :=
  match find_rule (ename e) mt factory with Some _ => true | None => false end.

(* signed measure computed as the code does (without the abs): sum_p w_p det J(xi_p) with the
   nodes of e placed straight-sidedly on the vertices of its linear parent *)
Definition measure_code (e : elem) (mt : string) : PExpr Q :=
  rule_sum (the_rule e mt) (straighten e (parent_of e) (detJ e)).
Definition moment_code (e : elem) (mt : string) (c : nat) : PExpr Q :=
  rule_sum (the_rule e mt) (straighten e (parent_of e) (moment e c)).
Definition moment_star (e : elem) (c : nat) : PExpr Q := rule_sum (star_of (ename e)) (moment e c).

(* HEXA* / PRISM* ("heavy"): the symbolic polynomial in 24 / 18 vertex coordinates with 2^52-denominator
   Gauss data is expensive for the reflexive normaliser; the quick tier treats AFFINE elements of
   these families, the thorough tier (C08_measure_thorough.v) general straight-sided ones. *)
Definition heavy (e : elem) : bool :=
  String.eqb (ename (parent_of e)) "HEXA8"%string || String.eqb (ename (parent_of e)) "PRISM6"%string.
Definition ref_measure (e : elem) : Q := measure (rshape (star_of (ename (parent_of e)))).

(* measure_exact itself is stated and proved in C08_subparam.v for all 19 types, through the
   sub-parametric reduction to the vertex element. *)

(* the ideal counterpart (zero tolerance) holds for the rational reference rules by definition;
   what the tolerance hides is only the rounding of the tabulated doubles: on elements whose
   det J is constant the code's value is (sum of weights) * det J *)
Example tri3_measure_is_half_det : forall l : list R,
  Reval l (measure_star el_TRI3) = (Reval l (detJ el_TRI3) / 2)%R.
Proof.
  intro l.
  assert (H : pe_eqb (measure_star el_TRI3) (PEmul (PEc (1#2)) (detJ el_TRI3)) = true) by (vm_compute; reflexivity).
  rewrite (Qnorm_sound l _ _ H).
  change (Reval l (PEmul (PEc (1#2)) ?e)) with (Q2R (1#2) * Reval l e)%R. unfold Q2R. simpl. lra.
Qed.

(* ============ 3. measure_rigid_invariant ============ *)
(* 3a. table fact: the reference gradients of the shape functions sum to zero (all 19 types, all
   reference points), so a translation of the nodes does not change F = dN @ X *)
Definition chk_grad_pou (e : elem) : bool :=
  forallb (fun a => pe_eqb (pe_sum (map (fun row => nth a row PEO) (dNtab e))) PEO) (seq 0 (edim e)) &&
  negb (Nat.eqb (List.length (dNtab e)) 0).
Lemma all_grad_pou : forallb chk_grad_pou all_elems = true.
Proof. vm_cast_no_check (eq_refl true). Qed.

Theorem grad_sum_zero : forall e, In e all_elems -> forall a, a < edim e -> forall l : list R,
  Rsum (map (Reval l) (map (fun row => nth a row PEO) (dNtab e))) = 0%R.
Proof.
  intros e He a Ha l. pose proof (forallb_In _ _ all_grad_pou e He) as H. unfold chk_grad_pou in H.
  apply andb_true_iff in H as [H _]. rewrite forallb_forall in H.
  assert (Hin : In a (seq 0 (edim e))) by (apply in_seq; lia).
  specialize (H a Hin). apply (Qnorm_sound l) in H. rewrite Reval_pe_sum in H. exact H.
Qed.

(* 3b. generic linear algebra over R: F_a = sum_i g_i X_i for weights g with sum g = 0 *)
Definition Rscale (a : R) (u : R3) : R3 := let '(u0, u1, u2) := u in (a * u0, a * u1, a * u2)%R.
Fixpoint lincomb (g : list R) (X : list R3) : R3 :=
  match g, X with
  | a :: gr, x :: Xr => Rvadd (Rscale a x) (lincomb gr Xr)
  | _, _ => (0, 0, 0)%R
  end.

Section Rigid.
  Variables q00 q01 q02 q10 q11 q12 q20 q21 q22 : R.   (* the matrix Q, row-major *)
  Variables c0 c1 c2 : R.                               (* the translation *)
  (* Q^T Q = I  (columns orthonormal); covers rotations (det +1) and reflections (det -1) *)
  Hypothesis H00 : (q00 * q00 + q10 * q10 + q20 * q20 = 1)%R.
  Hypothesis H11 : (q01 * q01 + q11 * q11 + q21 * q21 = 1)%R.
  Hypothesis H22 : (q02 * q02 + q12 * q12 + q22 * q22 = 1)%R.
  Hypothesis H01 : (q00 * q01 + q10 * q11 + q20 * q21 = 0)%R.
  Hypothesis H02 : (q00 * q02 + q10 * q12 + q20 * q22 = 0)%R.
  Hypothesis H12 : (q01 * q02 + q11 * q12 + q21 * q22 = 0)%R.

  Definition Qmul (u : R3) : R3 :=
    let '(u0, u1, u2) := u in
    (q00 * u0 + q01 * u1 + q02 * u2, q10 * u0 + q11 * u1 + q12 * u2, q20 * u0 + q21 * u1 + q22 * u2)%R.
  Definition rigid (u : R3) : R3 := Rvadd (Qmul u) (c0, c1, c2).
  Definition detQ : R :=
    (q00 * (q11 * q22 - q12 * q21) - q01 * (q10 * q22 - q12 * q20) + q02 * (q10 * q21 - q11 * q20))%R.

  Lemma lincomb_rigid : forall g X, List.length g = List.length X ->
    lincomb g (map rigid X) = Rvadd (Qmul (lincomb g X)) (Rscale (Rsum g) (c0, c1, c2)).
  Proof.
    induction g as [|a g IH]; intros [|[[x0 x1] x2] X] Hl; simpl in *; try discriminate.
    - f_equal; [f_equal|]; ring.
    - rewrite IH by lia. destruct (lincomb g X) as [[y0 y1] y2]. simpl.
      f_equal; [f_equal|]; ring.
  Qed.

  Lemma lincomb_rigid0 g X : List.length g = List.length X -> Rsum g = 0%R ->
    lincomb g (map rigid X) = Qmul (lincomb g X).
  Proof.
    intros Hl H0. rewrite lincomb_rigid by exact Hl. rewrite H0.
    destruct (Qmul (lincomb g X)) as [[y0 y1] y2]. simpl. f_equal; [f_equal|]; ring.
  Qed.

  Lemma triple_Q u v w : Rtriple (Qmul u) (Qmul v) (Qmul w) = (detQ * Rtriple u v w)%R.
  Proof. destruct u as [[u0 u1] u2], v as [[a0 a1] a2], w as [[w0 w1] w2]. unfold Rtriple, detQ. simpl. ring. Qed.

  Lemma detQ_sq : (detQ * detQ = 1)%R.
  Proof.
    (* det(Q)^2 = det(Q^T Q), a polynomial identity; then Q^T Q = I *)
    set (g00 := (q00 * q00 + q10 * q10 + q20 * q20)%R). set (g11 := (q01 * q01 + q11 * q11 + q21 * q21)%R).
    set (g22 := (q02 * q02 + q12 * q12 + q22 * q22)%R). set (g01 := (q00 * q01 + q10 * q11 + q20 * q21)%R).
    set (g02 := (q00 * q02 + q10 * q12 + q20 * q22)%R). set (g12 := (q01 * q02 + q11 * q12 + q21 * q22)%R).
    assert (E : (detQ * detQ = g00 * (g11 * g22 - g12 * g12) - g01 * (g01 * g22 - g12 * g02) + g02 * (g01 * g12 - g11 * g02))%R)
      by (unfold detQ, g00, g11, g22, g01, g02, g12; ring).
    rewrite E. unfold g00, g11, g22, g01, g02, g12. rewrite H00, H11, H22, H01, H02, H12. ring.
  Qed.

  Lemma dot_Q u v : Rdot (Qmul u) (Qmul v) = Rdot u v.
  Proof.
    destruct u as [[u0 u1] u2], v as [[a0 a1] a2]. simpl.
    replace ((q00 * u0 + q01 * u1 + q02 * u2) * (q00 * a0 + q01 * a1 + q02 * a2) +
             (q10 * u0 + q11 * u1 + q12 * u2) * (q10 * a0 + q11 * a1 + q12 * a2) +
             (q20 * u0 + q21 * u1 + q22 * u2) * (q20 * a0 + q21 * a1 + q22 * a2))%R
      with (u0 * a0 * (q00 * q00 + q10 * q10 + q20 * q20) + u1 * a1 * (q01 * q01 + q11 * q11 + q21 * q21) +
            u2 * a2 * (q02 * q02 + q12 * q12 + q22 * q22) + (u0 * a1 + u1 * a0) * (q00 * q01 + q10 * q11 + q20 * q21) +
            (u0 * a2 + u2 * a0) * (q00 * q02 + q10 * q12 + q20 * q22) + (u1 * a2 + u2 * a1) * (q01 * q02 + q11 * q12 + q21 * q22))%R by ring.
    rewrite H00, H11, H22, H01, H02, H12. ring.
  Qed.

  (* Lagrange identity |u x v|^2 = |u|^2 |v|^2 - (u.v)^2 *)
  Lemma lagrange u v : Rdot (Rcross u v) (Rcross u v) = (Rdot u u * Rdot v v - Rdot u v * Rdot u v)%R.
  Proof. destruct u as [[u0 u1] u2], v as [[a0 a1] a2]. simpl. ring. Qed.

  Lemma cross_norm_Q u v : Rdot (Rcross (Qmul u) (Qmul v)) (Rcross (Qmul u) (Qmul v)) = Rdot (Rcross u v) (Rcross u v).
  Proof. rewrite !lagrange, !dot_Q. reflexivity. Qed.

  (* measure_rigid_invariant.  g0, g1, g2: the rows of reference gradients dN/dxi_a at any
     reference point (they sum to zero by grad_sum_zero); X: the node coordinates.
     Full-dimensional 3-D element: det F' = det Q * det F, hence (det F')^2 = (det F)^2 and
     |det F'| = |det F|.  Surface element embedded in 3-D: |dx/dr x dx/ds|^2 is unchanged.
     Line element embedded in 3-D: |dx/dr|^2 is unchanged. *)
  Theorem measure_rigid_invariant : forall (g0 g1 g2 : list R) (X : list R3),
    List.length g0 = List.length X -> List.length g1 = List.length X -> List.length g2 = List.length X ->
    Rsum g0 = 0%R -> Rsum g1 = 0%R -> Rsum g2 = 0%R ->
    let F0 := lincomb g0 X in let F1 := lincomb g1 X in let F2 := lincomb g2 X in
    let F0' := lincomb g0 (map rigid X) in let F1' := lincomb g1 (map rigid X) in let F2' := lincomb g2 (map rigid X) in
    Rtriple F0' F1' F2' = (detQ * Rtriple F0 F1 F2)%R /\
    (Rtriple F0' F1' F2' * Rtriple F0' F1' F2' = Rtriple F0 F1 F2 * Rtriple F0 F1 F2)%R /\
    Rabs (Rtriple F0' F1' F2') = Rabs (Rtriple F0 F1 F2) /\
    Rdot (Rcross F0' F1') (Rcross F0' F1') = Rdot (Rcross F0 F1) (Rcross F0 F1) /\
    Rdot F0' F0' = Rdot F0 F0.
  Proof.
    intros g0 g1 g2 X L0 L1 L2 S0 S1 S2. cbv zeta.
    rewrite !lincomb_rigid0 by assumption.
    assert (T := triple_Q (lincomb g0 X) (lincomb g1 X) (lincomb g2 X)).
    assert (SQ : (Rtriple (Qmul (lincomb g0 X)) (Qmul (lincomb g1 X)) (Qmul (lincomb g2 X)) *
                  Rtriple (Qmul (lincomb g0 X)) (Qmul (lincomb g1 X)) (Qmul (lincomb g2 X)) =
                  Rtriple (lincomb g0 X) (lincomb g1 X) (lincomb g2 X) * Rtriple (lincomb g0 X) (lincomb g1 X) (lincomb g2 X))%R).
    { rewrite T. set (t := Rtriple _ _ _).
      replace (detQ * t * (detQ * t))%R with ((detQ * detQ) * (t * t))%R by ring. rewrite detQ_sq. ring. }
    repeat split.
    - exact T.
    - exact SQ.
    - apply Rsqr_eq_abs_0. unfold Rsqr. exact SQ.
    - apply cross_norm_Q.
    - apply dot_Q.
  Qed.
End Rigid.

(* 2-D element in its own plane: same statement with a 2x2 orthogonal matrix *)
Section Rigid2.
  Variables p00 p01 p10 p11 d0 d1 : R.
  Hypothesis K00 : (p00 * p00 + p10 * p10 = 1)%R.
  Hypothesis K11 : (p01 * p01 + p11 * p11 = 1)%R.
  Hypothesis K01 : (p00 * p01 + p10 * p11 = 0)%R.
  Definition det2 (a b c d : R) : R := (a * d - b * c)%R.
  (* F = [[a b];[c d]] rows dx/dr, dx/ds;  F' = F Q^T *)
  Theorem measure_rigid_invariant_2d : forall a b c d : R,
    let a' := (p00 * a + p01 * b)%R in let b' := (p10 * a + p11 * b)%R in
    let c' := (p00 * c + p01 * d)%R in let d' := (p10 * c + p11 * d)%R in
    (det2 a' b' c' d' * det2 a' b' c' d' = det2 a b c d * det2 a b c d)%R.
  Proof.
    intros a b c d. cbv zeta. unfold det2.
    replace ((p00 * a + p01 * b) * (p10 * c + p11 * d) - (p10 * a + p11 * b) * (p00 * c + p01 * d))%R
      with ((p00 * p11 - p01 * p10) * (a * d - b * c))%R by ring.
    assert (E : ((p00 * p11 - p01 * p10) * (p00 * p11 - p01 * p10) =
                 (p00 * p00 + p10 * p10) * (p01 * p01 + p11 * p11) - (p00 * p01 + p10 * p11) * (p00 * p01 + p10 * p11))%R) by ring.
    replace ((p00 * p11 - p01 * p10) * (a * d - b * c) * ((p00 * p11 - p01 * p10) * (a * d - b * c)))%R
      with (((p00 * p11 - p01 * p10) * (p00 * p11 - p01 * p10)) * ((a * d - b * c) * (a * d - b * c)))%R by ring.
    rewrite E, K00, K11, K01. ring.
  Qed.
End Rigid2.

(* non-vacuity: the identity and a reflection satisfy the hypotheses *)
Example rigid_hyps_identity : (1 * 1 + 0 * 0 + 0 * 0 = 1 /\ 1 * 0 + 0 * 1 + 0 * 0 = 0)%R.
Proof. split; ring. Qed.
Example rigid_reflection_instance : forall X : list R3, forall g : list R, List.length g = List.length X -> Rsum g = 0%R ->
  Rdot (lincomb g (map (rigid (-1) 0 0 0 1 0 0 0 1 5 6 7) X)) (lincomb g (map (rigid (-1) 0 0 0 1 0 0 0 1 5 6 7) X))
  = Rdot (lincomb g X) (lincomb g X).
Proof.
  intros X g Hl Hs.
  refine (proj2 (proj2 (proj2 (proj2 (measure_rigid_invariant (-1) 0 0 0 1 0 0 0 1 5 6 7 _ _ _ _ _ _ g g g X Hl Hl Hl Hs Hs Hs))))); ring.
Qed.

(* 3c. the embedded-surface Jacobian of the code.  Get_F_e_pg projects the node coordinates on
   the element frame (i, j, k) of _Get_sysCoord_e and takes the 2x2 determinant of the (i, j)
   components.  For ANY vectors i, j (orthonormal or not) this determinant is the component of
   dx/dr x dx/ds along i x j (Binet-Cauchy); when the element is planar with unit normal
   k = i x j it is therefore +-|dx/dr x dx/ds|, the surface measure density. *)
Theorem embedded_jacobian_is_normal_component : forall u v i j : R3,
  (Rdot u i * Rdot v j - Rdot u j * Rdot v i)%R = Rdot (Rcross u v) (Rcross i j).
Proof. intros [[u0 u1] u2] [[a0 a1] a2] [[i0 i1] i2] [[j0 j1] j2]. simpl. ring. Qed.

(* bridge between the symbolic Jacobian rows built from the tables and lincomb *)
Lemma Rv_pscale l a v : Rv l (pscale a v) = Rscale (Reval l a) (Rv l v).
Proof. reflexivity. Qed.
Lemma Frow_of_lincomb_from l a : forall dN k,
  Rv l (pvsum (mapi_from (fun i row => pscale (nth a row PEO) (node_vec i)) k dN)) =
  lincomb (map (fun row => Reval l (nth a row PEO)) dN) (map (fun i => Rv l (node_vec i)) (seq k (List.length dN))).
Proof.
  induction dN as [|row dN IH]; intro k; simpl.
  - unfold Rv, pzero, pn, Reval. simpl. reflexivity.
  - unfold pvsum in *. simpl. rewrite Rv_add, Rv_pscale, IH. reflexivity.
Qed.
Theorem Frow_is_lincomb : forall e a (l : list R),
  Rv l (Frow e a) =
  lincomb (map (fun row => Reval l (nth a row PEO)) (dNtab e)) (map (fun i => Rv l (node_vec i)) (seq 0 (List.length (dNtab e)))).
Proof. intros e a l. unfold Frow, Frow_of, mapi. apply Frow_of_lincomb_from. Qed.

Print Assumptions grad_sum_zero.
Print Assumptions measure_rigid_invariant.
Print Assumptions measure_rigid_invariant_2d.
Print Assumptions embedded_jacobian_is_normal_component.
Print Assumptions Frow_is_lincomb.
