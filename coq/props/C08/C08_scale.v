(* C08_scale.v — homogeneity under a change of the unit of length (X_i -> s X_i, s any real):
   the Jacobian rows scale with s, det J with s^3 (volume density), |dx/dr x dx/ds|^2 with s^4 (surface
   density squared), |dx/dr|^2 with s^2; the un-normalised normal dx/dr x dx/ds scales with s^2 — so its
   direction is unchanged for s <> 0 and any ABSOLUTE threshold applied to it is not unit-free; the
   3-D half-space test quantity scales with s^3: acceptance (sign) is the same for every s > 0.
   Pure real algebra on the model of C08_measure.v / C08_locate.v (any number of nodes, any weights). *)
From Coq Require Import Reals List Lra Lia.
From EFLib Require Import PolyQ ElemDefs.
From EFP Require Import C08_defs C08_measure.
Import ListNotations.
Local Open Scope R_scope.

Lemma lincomb_scale (s : R) : forall (g : list R) (X : list R3),
  lincomb g (map (Rscale s) X) = Rscale s (lincomb g X).
Proof.
  induction g as [|a g IH]; intros [|[[x0 x1] x2] X]; simpl; try (f_equal; [f_equal|]; ring).
  rewrite IH. destruct (lincomb g X) as [[y0 y1] y2]. simpl. f_equal; [f_equal|]; ring.
Qed.
Lemma triple_scale s u v w : Rtriple (Rscale s u) (Rscale s v) (Rscale s w) = s * s * s * Rtriple u v w.
Proof. destruct u as [[? ?] ?], v as [[? ?] ?], w as [[? ?] ?]. unfold Rtriple. simpl. ring. Qed.
Lemma cross_scale s u v : Rcross (Rscale s u) (Rscale s v) = Rscale (s * s) (Rcross u v).
Proof. destruct u as [[? ?] ?], v as [[? ?] ?]. simpl. f_equal; [f_equal|]; ring. Qed.
Lemma dot_scale a b u v : Rdot (Rscale a u) (Rscale b v) = a * b * Rdot u v.
Proof. destruct u as [[? ?] ?], v as [[? ?] ?]. simpl. ring. Qed.

(* measure_homogeneous: g0, g1, g2 the reference gradients at any reference point, X the nodes *)
Theorem measure_homogeneous : forall (s : R) (g0 g1 g2 : list R) (X : list R3),
  let F0 := lincomb g0 X in let F1 := lincomb g1 X in let F2 := lincomb g2 X in
  let X' := map (Rscale s) X in
  let F0' := lincomb g0 X' in let F1' := lincomb g1 X' in let F2' := lincomb g2 X' in
  Rtriple F0' F1' F2' = s * s * s * Rtriple F0 F1 F2 /\
  Rcross F0' F1' = Rscale (s * s) (Rcross F0 F1) /\
  Rdot (Rcross F0' F1') (Rcross F0' F1') = (s * s) * (s * s) * Rdot (Rcross F0 F1) (Rcross F0 F1) /\
  Rdot F0' F0' = s * s * Rdot F0 F0.
Proof.
  intros s g0 g1 g2 X. cbv zeta. rewrite !lincomb_scale. repeat split.
  - apply triple_scale.
  - apply cross_scale.
  - rewrite cross_scale, dot_scale. reflexivity.
  - apply dot_scale.
Qed.

(* the sign of the half-space quantity (x - p0) . ((p1 - p0) x (p2 - p0)) does not depend on the unit *)
Theorem halfspace_test_homogeneous : forall s x p0 p1 p2, 0 < s ->
  let t := Rtriple (Rvsub x p0) (Rvsub p1 p0) (Rvsub p2 p0) in
  let t' := Rtriple (Rvsub (Rscale s x) (Rscale s p0)) (Rvsub (Rscale s p1) (Rscale s p0)) (Rvsub (Rscale s p2) (Rscale s p0)) in
  t' = s * s * s * t /\ (t' <= 0 <-> t <= 0).
Proof.
  intros s x p0 p1 p2 Hs. cbv zeta.
  assert (E : forall u v, Rvsub (Rscale s u) (Rscale s v) = Rscale s (Rvsub u v)).
  { intros [[? ?] ?] [[? ?] ?]. simpl. f_equal; [f_equal|]; ring. }
  rewrite !E, triple_scale. split; [reflexivity|].
  set (t := Rtriple _ _ _). assert (K : 0 < s * s * s) by (repeat apply Rmult_lt_0_compat; exact Hs).
  split; intro H.
  - destruct (Rle_or_lt t 0) as [G|G]; [exact G|]. pose proof (Rmult_lt_0_compat _ _ K G). lra.
  - assert (0 <= (s * s * s) * - t) by (apply Rmult_le_pos; lra). lra.
Qed.

Print Assumptions measure_homogeneous.
Print Assumptions halfspace_test_homogeneous.
