(* C08_evalpoly.v — evaluation at located points is exact on the element's polynomial space.
   Evaluate_dofsValues_at_coordinates returns  sum_i N_i(xi) u_i  with xi the located reference point.
   If the nodal values are those of a polynomial f of the PHYSICAL coordinates, u_i = f(X_i), of total
   degree <= the element order, with arbitrary real coefficients, and the element is affine
   (X_i = O + A xi_i, any O, A), then the returned value is f(x(xi)) — for all 19 element types,
   every reference point and every affine map.  (Monomials: eval_reproduces, by computation on the
   regenerated shape tables; here: the lift to arbitrary real linear combinations, by induction.) *)
From Coq Require Import QArith Qreals Reals Ring_polynom List String Lia Lra Bool Arith.
From EFLib Require Import PolyQ ElemDefs QuadDefs.
From EFP Require Import C08_defs Gen_Elems Gen_Faces C08_invmap C08_eval.
Import ListNotations.
Local Open Scope list_scope.
Local Open Scope nat_scope.

(* physical coordinates of node i / of the query point, as functions of the assignment l of (xi, O, A) *)
Definition node_env (l : list R) (e : elem) (i : nat) : list R := map (Reval l) (affine_nodes e i).
Definition point_env (l : list R) (e : elem) : list R := map (Reval l) (phys_point e).
Definition mval (y : list R) (v : list nat) : R := Reval y (mono v).
(* polynomial with real coefficients, as a list of (coefficient, exponent vector) *)
Definition Rpoly (cs : list (R * list nat)) (y : list R) : R :=
  fold_right (fun cv s => (fst cv * mval y (snd cv) + s)%R) 0%R cs.

Lemma Rinterp_zero : forall (idx : list nat) Ns, Rinterp (map (fun _ => 0%R) idx) Ns = 0%R.
Proof. induction idx as [|i idx IH]; intros [|n Ns]; simpl; try reflexivity. rewrite IH. lra. Qed.
Lemma Rinterp_lin (a : R) (f g : nat -> R) : forall (idx : list nat) Ns,
  Rinterp (map (fun i => a * f i + g i)%R idx) Ns = (a * Rinterp (map f idx) Ns + Rinterp (map g idx) Ns)%R.
Proof. induction idx as [|i idx IH]; intros [|n Ns]; simpl; try lra. rewrite IH. lra. Qed.

Lemma monomial_reproduced e : In e all_elems -> forall v, List.length v = edim e -> fold_right Nat.add 0 v <= eorder e ->
  forall l : list R,
  Rinterp (map (fun i => mval (node_env l e i) v) (seq 0 (List.length (eN e)))) (map (Reval l) (eN e)) = mval (point_env l e) v.
Proof.
  intros He v Hl Hd l. pose proof (eval_reproduces e He v Hl Hd l) as H.
  rewrite Reval_interp, map_map in H. unfold mval, node_env, point_env. rewrite <- (Reval_subst l (phys_point e)). rewrite <- H.
  f_equal. apply map_ext. intro i. symmetry. apply Reval_subst.
Qed.

(* eval_exact_polynomials *)
Theorem eval_exact_polynomials : forall e, In e all_elems ->
  forall cs : list (R * list nat),
  (forall cv, In cv cs -> List.length (snd cv) = edim e /\ fold_right Nat.add 0 (snd cv) <= eorder e) ->
  forall l : list R,
  Rinterp (map (fun i => Rpoly cs (node_env l e i)) (seq 0 (List.length (eN e)))) (map (Reval l) (eN e))
  = Rpoly cs (point_env l e).
Proof.
  intros e He cs. induction cs as [|[c v] cs IH]; intros Hcs l.
  - simpl. apply Rinterp_zero.
  - cbn [Rpoly fold_right fst snd]. fold (Rpoly cs).
    rewrite (Rinterp_lin c (fun i => mval (node_env l e i) v) (fun i => Rpoly cs (node_env l e i))).
    rewrite IH by (intros cv Hcv; apply Hcs; right; exact Hcv).
    destruct (Hcs (c, v) (or_introl eq_refl)) as [Hl Hd]. cbn [snd] in Hl, Hd.
    rewrite (monomial_reproduced e He v Hl Hd l). reflexivity.
Qed.

(* non-vacuity: TRI6, f(x, y) = 2 - 3 x y + 0.5 y^2 *)
Example eval_exact_instance : forall l : list R,
  let cs : list (R * list nat) := [(2%R, [0; 0]); ((-3)%R, [1; 1]); ((/ 2)%R, [0; 2])] in
  Rinterp (map (fun i => Rpoly cs (node_env l el_TRI6 i)) (seq 0 6)) (map (Reval l) (eN el_TRI6)) = Rpoly cs (point_env l el_TRI6).
Proof.
  intro l. apply (eval_exact_polynomials el_TRI6); [simpl; tauto|].
  intros cv [E|[E|[E|[]]]]; subst cv; simpl; split; auto; lia.
Qed.

Print Assumptions eval_exact_polynomials.
