(* C08_faces.v — the `faces` / `surfaces` / `segments` tables close the reference element.
   All statements are about the tables regenerated from /repo (EFP.Gen_Faces, EFP.Gen_Elems).

   Orientation convention found (and proved below): with the RIGHT-HAND RULE applied to the
   vertex order of each row, the rows of `faces` and `surfaces` of every 3-D type carry the
   OUTWARD normal of the positively oriented element (det J > 0): the summed flux of the
   position vector is +3 * volume.  (The docstring of `_GroupElem.surfaces` says "inward";
   `Get_pointsInElem` tests `v . n <= tol`, i.e. it also relies on outward.)
   In 2-D the `segments` rows run counter-clockwise; with the normal formula of
   `Get_normals_e_pg` for line elements, n = e_z x dx/dr, the flux is  -2 * area  (the formula
   gives the INWARD normal of a counter-clockwise contour). *)
From Coq Require Import QArith Qreals Reals Ring_polynom List String Lia Lra Bool Arith.
From EFLib Require Import PolyQ ElemDefs QuadDefs.
From EFP Require Import C08_defs Gen_Elems Gen_Faces.
Import ListNotations.
Local Open Scope list_scope.
Local Open Scope nat_scope.

(* ================= A. combinatorics ================= *)
Definition ncorn (n : nat) : nat :=
  match n with 3 | 6 => 3 | 4 | 8 | 9 => 4 | _ => 0 end.
(* `faces` rows list the corners first (then edge / face nodes) *)
Definition corners (row : list nat) : list nat := firstn (ncorn (List.length row)) row.
(* `surfaces` rows are contours (corner, edge nodes, corner, ...), possibly padded by
   repeating the first corner at the end *)
Fixpoint every_from (k i : nat) (l : list nat) : list nat :=
  match l with
  | [] => []
  | x :: r => if Nat.eqb (i mod k) 0 then x :: every_from k (S i) r else every_from k (S i) r
  end.
Fixpoint drop_lead (a : nat) (l : list nat) : list nat :=
  match l with [] => [] | x :: r => if Nat.eqb x a then drop_lead a r else l end.
Definition drop_closing (l : list nat) : list nat :=
  match l with [] => [] | a :: r => a :: rev (drop_lead a (rev r)) end.
Definition contour (order : nat) (row : list nat) : list nat := drop_closing (every_from order 0 row).

Definition edges_of (fs : list (list nat)) : list (nat * nat) := flat_map cyc_edges fs.

Definition chk_pairing (nvert : nat) (fs : list (list nat)) : bool :=
  let E := edges_of fs in
  negb (Nat.eqb (List.length fs) 0) &&
  forallb (fun f => (3 <=? List.length f) && forallb (fun v => v <? nvert) f) fs &&
  forallb (fun v => existsb (fun f => existsb (Nat.eqb v) f) fs) (seq 0 nvert) &&
  forallb (fun p => negb (Nat.eqb (fst p) (snd p)) && Nat.eqb (count_pair p E) 1 &&
                    Nat.eqb (count_pair (snd p, fst p) E) 1) E &&
  (* Euler: V - E + F = 2 *)
  Nat.eqb (nvert + List.length fs) (2 + Nat.div2 (List.length E)).

Definition face_cycles (t : ftab) : list (list nat) := map corners (ffaces t).
Definition surf_cycles (t : ftab) : list (list nat) := map (contour (forder t)) (fsurfaces t).

Definition is3d (t : ftab) : bool := Nat.eqb (fdim t) 3.
Definition chk_closed3 (t : ftab) : bool :=
  negb (is3d t) || (chk_pairing (fnvert t) (face_cycles t) && chk_pairing (fnvert t) (surf_cycles t)).

Lemma all_closed3 : forallb chk_closed3 all_ftabs = true.
Proof. vm_cast_no_check (eq_refl true). Qed.

Definition swap (p : nat * nat) : nat * nat := (snd p, fst p).

Lemma pairing_spec nvert fs : chk_pairing nvert fs = true ->
  forall p, In p (edges_of fs) ->
    fst p <> snd p /\ count_pair p (edges_of fs) = 1 /\ count_pair (swap p) (edges_of fs) = 1.
Proof.
  unfold chk_pairing. intros H p Hp.
  repeat (apply andb_true_iff in H; destruct H as [H ?]).
  match goal with H1 : forallb _ (edges_of fs) = true |- _ => rewrite forallb_forall in H1; specialize (H1 p Hp) end.
  repeat (match goal with H1 : _ && _ = true |- _ => apply andb_true_iff in H1; destruct H1 end).
  repeat split.
  - intro E. match goal with H1 : negb _ = true |- _ => apply negb_true_iff in H1; apply Nat.eqb_neq in H1; contradiction end.
  - now apply Nat.eqb_eq.
  - now apply Nat.eqb_eq.
Qed.

(* face_tables_close, combinatorial part: in every 3-D element type, for the corner cycles of
   `faces` AND for the contours of `surfaces`, each directed edge occurs exactly once and its
   reverse exactly once (the faces tile a closed oriented surface), every vertex is used and
   V - E + F = 2. *)
Theorem face_tables_close_comb : forall t, In t all_ftabs -> fdim t = 3 ->
  (forall p, In p (edges_of (face_cycles t)) ->
     fst p <> snd p /\ count_pair p (edges_of (face_cycles t)) = 1 /\ count_pair (swap p) (edges_of (face_cycles t)) = 1) /\
  (forall p, In p (edges_of (surf_cycles t)) ->
     fst p <> snd p /\ count_pair p (edges_of (surf_cycles t)) = 1 /\ count_pair (swap p) (edges_of (surf_cycles t)) = 1).
Proof.
  intros t Ht Hd. pose proof (forallb_In _ _ all_closed3 t Ht) as H.
  unfold chk_closed3, is3d in H. rewrite Hd in H. simpl in H.
  apply andb_true_iff in H as [H1 H2]. split; intros p Hp; eapply pairing_spec; eauto.
Qed.

Example eight_3d_types : List.length (filter is3d all_ftabs) = 8.
Proof. reflexivity. Qed.
Example hexa8_has_24_directed_edges : List.length (edges_of (face_cycles ft_HEXA8)) = 24.
Proof. reflexivity. Qed.

(* 2-D: `segments` rows (first entry -> last entry) form one closed cycle through the
   vertices 0 .. nvert-1 in order, and the contour of `surfaces` is the same cycle *)
Definition seg_ends (row : list nat) : nat * nat := (hd 0 row, last row 0).
Definition chk_closed2 (t : ftab) : bool :=
  negb (Nat.eqb (fdim t) 2) ||
  (Nat.eqb (List.length (fsegments t)) (fnvert t) &&
   forallb (fun k => pair_eqb (seg_ends (nth k (fsegments t) [])) (k, (S k) mod (fnvert t))) (seq 0 (fnvert t)) &&
   match fsurfaces t with
   | [row] => forallb (fun k => Nat.eqb (nth k (contour (forder t) row) 99) k) (seq 0 (fnvert t)) &&
              Nat.eqb (List.length (contour (forder t) row)) (fnvert t)
   | _ => false
   end).
Lemma all_closed2 : forallb chk_closed2 all_ftabs = true.
Proof. vm_cast_no_check (eq_refl true). Qed.

Theorem segment_tables_close_comb : forall t, In t all_ftabs -> fdim t = 2 ->
  List.length (fsegments t) = fnvert t /\
  forall k, k < fnvert t -> seg_ends (nth k (fsegments t) []) = (k, (S k) mod (fnvert t)).
Proof.
  intros t Ht Hd. pose proof (forallb_In _ _ all_closed2 t Ht) as H.
  unfold chk_closed2 in H. rewrite Hd in H. simpl in H.
  apply andb_true_iff in H as [H _]. apply andb_true_iff in H as [H1 H2].
  split; [now apply Nat.eqb_eq|].
  intros k Hk. rewrite forallb_forall in H2. specialize (H2 k).
  assert (Hin : In k (seq 0 (fnvert t))) by (apply in_seq; lia).
  specialize (H2 Hin). unfold pair_eqb in H2. apply andb_true_iff in H2 as [Ha Hb].
  apply Nat.eqb_eq in Ha. apply Nat.eqb_eq in Hb.
  destruct (seg_ends (nth k (fsegments t) [])) as [a b]. simpl in *. congruence.
Qed.

(* ================= B. area vectors and flux, symbolic vertex coordinates ================= *)
(* twice the integrated right-hand-rule normal of a flat triangle / a bilinear quadrilateral *)
Definition area2 (f : list nat) : pvec :=
  match f with
  | [a; b; c] => pcross (psub (node_vec b) (node_vec a)) (psub (node_vec c) (node_vec a))
  | [a; b; c; d] => pcross (psub (node_vec c) (node_vec a)) (psub (node_vec d) (node_vec b))
  | _ => pzero
  end.
Definition T3 (a b c : nat) : PExpr Q := ptriple (node_vec a) (node_vec b) (node_vec c).
(* twice the integrated flux  int_f x . n dS *)
Definition flux2 (f : list nat) : PExpr Q :=
  match f with
  | [a; b; c] => T3 a b c
  | [a; b; c; d] => PEmul (PEc (1#2)) (PEadd (PEadd (T3 a b c) (T3 a c d)) (PEadd (T3 a b d) (T3 b c d)))
  | _ => PEO
  end.

(* exact rational rules on the reference elements (used to DEFINE the exact measure of a
   straight-sided element: they integrate exactly every monomial in the degree box of det J,
   see C08_measure.v for the exactness and degree checks) *)
Definition third : Q := 1#3.
Definition simpson_pts : list Q := [(-1)%Q; 0%Q; 1%Q].
Definition simpson_w : list Q := [(1#3)%Q; (4#3)%Q; (1#3)%Q].
Definition tens2 {A} (f : Q -> Q -> A) (l1 l2 : list Q) : list A := flat_map (fun a => map (fun b => f a b) l2) l1.
Definition star_Seg : rule := {| rshape := Seg; rnpg := 3; rdoc := [3];
  rpts := map (fun a => [a]) simpson_pts; rw := simpson_w |}.
Definition star_Quad : rule := {| rshape := Quad; rnpg := 9; rdoc := [3];
  rpts := tens2 (fun a b => [a; b]) simpson_pts simpson_pts; rw := tens2 Qmult simpson_w simpson_w |}.
Definition star_Hex : rule := {| rshape := Hex; rnpg := 27; rdoc := [3];
  rpts := flat_map (fun a => tens2 (fun b c => [a; b; c]) simpson_pts simpson_pts) simpson_pts;
  rw := flat_map (fun a => map (Qmult a) (tens2 Qmult simpson_w simpson_w)) simpson_w |}.
Definition tri_mid : list (list Q) := [[(1#2)%Q; 0%Q]; [(1#2)%Q; (1#2)%Q]; [0%Q; (1#2)%Q]].
Definition star_Tri : rule := {| rshape := Tri; rnpg := 3; rdoc := [2];
  rpts := tri_mid; rw := [(1#6)%Q; (1#6)%Q; (1#6)%Q] |}.
Definition star_Prism : rule := {| rshape := Prism; rnpg := 9; rdoc := [3; 2];
  rpts := flat_map (fun p => map (fun c => p ++ [c]) simpson_pts) tri_mid;
  rw := flat_map (fun _ => map (Qmult (1#6)) simpson_w) tri_mid |}.
(* degree-2 rule on the tetrahedron with rational nodes: vertices (-1/120) + edge midpoints (1/30) *)
Definition star_Tet : rule := {| rshape := Tet; rnpg := 10; rdoc := [2];
  rpts := [[0;0;0]; [1;0;0]; [0;1;0]; [0;0;1];
           [(1#2);0;0]; [0;(1#2);0]; [0;0;(1#2)]; [(1#2);(1#2);0]; [(1#2);0;(1#2)]; [0;(1#2);(1#2)]]%Q;
  rw := [(-1#120); (-1#120); (-1#120); (-1#120); (1#30); (1#30); (1#30); (1#30); (1#30); (1#30)]%Q |}.
Definition star_of (parent : string) : rule :=
  if String.eqb parent "SEG2"%string then star_Seg else if String.eqb parent "TRI3"%string then star_Tri
  else if String.eqb parent "QUAD4"%string then star_Quad else if String.eqb parent "TETRA4"%string then star_Tet
  else if String.eqb parent "HEXA8"%string then star_Hex else star_Prism.

(* exact signed measure of the straight-sided linear element with symbolic vertices *)
Definition measure_star (e : elem) : PExpr Q := rule_sum (star_of (ename e)) (detJ e).

Definition parent_elem (t : ftab) : elem :=
  match find_elem (fparent t) all_elems with Some e => e | None => el_SEG2 end.

Definition chk_area_flux3 (t : ftab) : bool :=
  negb (is3d t) ||
  (let fs := face_cycles t in
   pvec_eqb (pvsum (map area2 fs)) pzero &&
   pe_eqb (pe_sum (map flux2 fs)) (PEmul (PEc 6%Q) (measure_star (parent_elem t))) &&
   (* same for the contours of `surfaces` *)
   pvec_eqb (pvsum (map area2 (surf_cycles t))) pzero &&
   pe_eqb (pe_sum (map flux2 (surf_cycles t))) (PEmul (PEc 6%Q) (measure_star (parent_elem t)))).

Lemma all_area_flux3 : forallb chk_area_flux3 all_ftabs = true.
Proof. vm_cast_no_check (eq_refl true). Qed.

Definition Rvsum (l : list R3) : R3 := fold_right Rvadd (0, 0, 0)%R l.
Lemma Rv_pvsum l vs : Rv l (pvsum vs) = Rvsum (map (Rv l) vs).
Proof.
  induction vs as [|v vs IH]; simpl.
  - unfold Rv, pzero, pn, Reval. simpl. reflexivity.
  - unfold pvsum in *. simpl. rewrite Rv_add. rewrite IH. reflexivity.
Qed.

(* face_tables_close, metric part.  For every 3-D element type, every assignment l of the
   variables (in particular all vertex coordinates):
     sum over faces of the area vectors (right-hand rule) = 0
     sum over faces of the flux of x                      = + 3 * volume      (2*flux = 6*vol)
   where volume = integral of det J over the reference element of the straight-sided linear
   parent (TETRA4 / HEXA8 with bilinear faces / PRISM6).  Sign: PLUS, i.e. outward normals. *)
Theorem face_tables_close : forall t, In t all_ftabs -> fdim t = 3 -> forall l : list R,
  Rvsum (map (Rv l) (map area2 (face_cycles t))) = (0, 0, 0)%R /\
  Rsum (map (Reval l) (map flux2 (face_cycles t))) = (6 * Reval l (measure_star (parent_elem t)))%R /\
  Rvsum (map (Rv l) (map area2 (surf_cycles t))) = (0, 0, 0)%R /\
  Rsum (map (Reval l) (map flux2 (surf_cycles t))) = (6 * Reval l (measure_star (parent_elem t)))%R.
Proof.
  intros t Ht Hd l. pose proof (forallb_In _ _ all_area_flux3 t Ht) as H.
  unfold chk_area_flux3, is3d in H. rewrite Hd in H. simpl in H.
  apply andb_true_iff in H as [H H4]. apply andb_true_iff in H as [H H3]. apply andb_true_iff in H as [H1 H2].
  assert (Z0 : Rv l pzero = (0, 0, 0)%R) by (unfold Rv, pzero, pn, Reval; simpl; reflexivity).
  assert (S6 : forall e, Reval l (PEmul (PEc 6%Q) e) = (6 * Reval l e)%R).
  { intro e. unfold Reval. simpl. f_equal. unfold Q2R. simpl. lra. }
  repeat split.
  - rewrite <- Rv_pvsum. rewrite (pvec_eqb_sound _ _ H1 l). exact Z0.
  - apply (Qnorm_sound l) in H2. rewrite Reval_pe_sum, S6 in H2. exact H2.
  - rewrite <- Rv_pvsum. rewrite (pvec_eqb_sound _ _ H3 l). exact Z0.
  - apply (Qnorm_sound l) in H4. rewrite Reval_pe_sum, S6 in H4. exact H4.
Qed.

(* readable instance: TETRA4, volume = det[X1-X0, X2-X0, X3-X0] / 6 *)
Example tetra4_volume_is_det_over_6 : forall l : list R,
  Reval l (measure_star el_TETRA4) =
  (Rtriple (Rvsub (Rv l (node_vec 1)) (Rv l (node_vec 0))) (Rvsub (Rv l (node_vec 2)) (Rv l (node_vec 0)))
           (Rvsub (Rv l (node_vec 3)) (Rv l (node_vec 0))) / 6)%R.
Proof.
  intro l.
  assert (H : pe_eqb (measure_star el_TETRA4)
     (PEmul (PEc (1#6)) (ptriple (psub (node_vec 1) (node_vec 0)) (psub (node_vec 2) (node_vec 0)) (psub (node_vec 3) (node_vec 0)))) = true)
    by (vm_compute; reflexivity).
  rewrite (Qnorm_sound l _ _ H).
  change (Reval l (PEmul (PEc (1#6)) ?e)) with (Q2R (1#6) * Reval l e)%R.
  rewrite Reval_triple, !Rv_sub. unfold Q2R. simpl. lra.
Qed.

(* ================= C. the face formulas are the integrals of the code's normal field ============ *)
(* Get_normals_e_pg(normalize=False) returns cross(dx/dr, dx/ds) for 2-D elements; its integral
   over the reference element is area2/2 and the integral of x . cross is flux2/2, for TRI3
   (flat) and QUAD4 (bilinear, any 4 vertices in space). *)
Definition normal_field (e : elem) : pvec := pcross (Frow e 0) (Frow e 1).
Definition vrule_sum (r : rule) (v : pvec) : pvec := [rule_sum r (pn v 0); rule_sum r (pn v 1); rule_sum r (pn v 2)].
Definition chk_face_integrals (e : elem) (f : list nat) : bool :=
  pvec_eqb (pscale (PEc 2%Q) (vrule_sum (star_of (ename e)) (normal_field e))) (area2 f) &&
  pe_eqb (PEmul (PEc 2%Q) (rule_sum (star_of (ename e)) (pdot (xmap e) (normal_field e)))) (flux2 f).

Lemma face_integrals_ok : chk_face_integrals el_TRI3 [0; 1; 2] && chk_face_integrals el_QUAD4 [0; 1; 2; 3] = true.
Proof. vm_cast_no_check (eq_refl true). Qed.

Theorem face_formulas_are_normal_integrals : forall l : list R,
  Rv l (pscale (PEc 2%Q) (vrule_sum star_Tri (normal_field el_TRI3))) = Rv l (area2 [0; 1; 2]) /\
  Reval l (PEmul (PEc 2%Q) (rule_sum star_Tri (pdot (xmap el_TRI3) (normal_field el_TRI3)))) = Reval l (flux2 [0; 1; 2]) /\
  Rv l (pscale (PEc 2%Q) (vrule_sum star_Quad (normal_field el_QUAD4))) = Rv l (area2 [0; 1; 2; 3]) /\
  Reval l (PEmul (PEc 2%Q) (rule_sum star_Quad (pdot (xmap el_QUAD4) (normal_field el_QUAD4)))) = Reval l (flux2 [0; 1; 2; 3]).
Proof.
  intro l. pose proof face_integrals_ok as H. apply andb_true_iff in H as [H1 H2].
  unfold chk_face_integrals in H1, H2. apply andb_true_iff in H1 as [A1 B1]. apply andb_true_iff in H2 as [A2 B2].
  repeat split.
  - exact (pvec_eqb_sound _ _ A1 l).
  - exact (Qnorm_sound l _ _ B1).
  - exact (pvec_eqb_sound _ _ A2 l).
  - exact (Qnorm_sound l _ _ B2).
Qed.

(* ================= D. 2-D analogue with `segments` ================= *)
(* line element a -> b in the plane z = 0: dx/dr = (Xb - Xa)/2 on [-1,1];
   code normal n = e_z x dx/dr (Get_normals_e_pg, dim = 1);  int x . n over the edge *)
Definition ez : pvec := [PEO; PEO; PEI].
Definition seg_normal_int (a b : nat) : pvec := pcross ez (psub (node_vec b) (node_vec a)).
Definition seg_flux (a b : nat) : PExpr Q :=
  (* integrand at the edge midpoint times length 2 of the reference segment (x . n is affine
     along the edge and e_z x t . t = 0, so the midpoint value is the mean) *)
  pdot (pscale (PEc (1#2)) (padd (node_vec a) (node_vec b))) (seg_normal_int a b).
(* in-plane element: zero out the z coordinates of the vertices *)
Definition flat_nodes (i : nat) : pvec := [node_var i 0; node_var i 1; PEO].
Definition flatten (x : PExpr Q) : PExpr Q := pe_subst (node_sub flat_nodes) x.

Definition chk_seg_flux (t : ftab) : bool :=
  negb (Nat.eqb (fdim t) 2) ||
  (let es := map seg_ends (fsegments t) in
   pvec_eqb (pvsum (map (fun p => seg_normal_int (fst p) (snd p)) es)) pzero &&
   pe_eqb (flatten (pe_sum (map (fun p => seg_flux (fst p) (snd p)) es)))
          (flatten (PEopp (PEmul (PEc 2%Q) (measure_star (parent_elem t)))))).
Lemma all_seg_flux : forallb chk_seg_flux all_ftabs = true.
Proof. vm_cast_no_check (eq_refl true). Qed.

(* 2-D analogue: for every 2-D type the boundary edges of `segments`, with the code's normal
   formula, satisfy  sum int n = 0  and  sum int x . n = - 2 * area  (area = integral of det J of
   the straight-sided parent TRI3 / QUAD4 in the plane): the formula gives INWARD normals on the
   counter-clockwise contour the tables describe. *)
Theorem segment_tables_close : forall t, In t all_ftabs -> fdim t = 2 -> forall l : list R,
  Rv l (pvsum (map (fun p => seg_normal_int (fst p) (snd p)) (map seg_ends (fsegments t)))) = (0, 0, 0)%R /\
  Reval l (flatten (pe_sum (map (fun p => seg_flux (fst p) (snd p)) (map seg_ends (fsegments t))))) =
  Reval l (flatten (PEopp (PEmul (PEc 2%Q) (measure_star (parent_elem t))))).
Proof.
  intros t Ht Hd l. pose proof (forallb_In _ _ all_seg_flux t Ht) as H.
  unfold chk_seg_flux in H. rewrite Hd in H. simpl in H. apply andb_true_iff in H as [H1 H2].
  split.
  - rewrite (pvec_eqb_sound _ _ H1 l). unfold Rv, pzero, pn, Reval; simpl; reflexivity.
  - exact (Qnorm_sound l _ _ H2).
Qed.

Print Assumptions face_tables_close_comb.
Print Assumptions segment_tables_close_comb.
Print Assumptions face_tables_close.
Print Assumptions face_formulas_are_normal_integrals.
Print Assumptions segment_tables_close.
