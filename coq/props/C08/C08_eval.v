(* C08_eval.v — eval_reproduces: once the located xi is the true pre-image, the interpolation
   sum_i N_i(xi) f(X_i) performed by Evaluate_dofsValues_at_coordinates returns f(x):
   (a) on every AFFINE element (X_i = O + A xi_i, all O, A) for every monomial f of the physical
       coordinates of total degree <= the element order (all 19 types);
   (b) on ANY element (arbitrary node coordinates, distorted or curved) for every affine f. *)
From Coq Require Import QArith Qreals Reals Ring_polynom List String Lia Lra Bool Arith.
From EFLib Require Import PolyQ ElemDefs QuadDefs.
From EFP Require Import C08_defs Gen_Elems Gen_Faces C08_invmap.
Import ListNotations.
Local Open Scope list_scope.
Local Open Scope nat_scope.

Definition phys_point (e : elem) : pvec := affine_of (xi_or0 (edim e)).
Definition chk_reproduce_affine (e : elem) : bool :=
  forallb (fun v =>
     pe_eqb (interp_expr (map (fun i => pe_subst (affine_nodes e i) (mono v)) (seq 0 (List.length (eN e)))) (eN e))
            (pe_subst (phys_point e) (mono v)))
   (ElemDefs.exps (edim e) (eorder e)).
Lemma all_reproduce_affine : forallb chk_reproduce_affine all_elems = true.
Proof. vm_cast_no_check (eq_refl true). Qed.

(* (a)  sum_i N_i(xi) m_v(X_i) = m_v(x(xi))  for all xi, O, A and |v| <= order *)
Theorem eval_reproduces : forall e, In e all_elems ->
  forall v, List.length v = edim e -> (fold_right Nat.add 0 v <= eorder e) ->
  forall l : list R,
    Reval l (interp_expr (map (fun i => pe_subst (affine_nodes e i) (mono v)) (seq 0 (List.length (eN e)))) (eN e))
    = Reval l (pe_subst (phys_point e) (mono v)).
Proof.
  intros e He v Hl Hd l. pose proof (forallb_In _ _ all_reproduce_affine e He) as H.
  unfold chk_reproduce_affine in H.
  pose proof (forallb_In _ _ H v (ElemDefs.exps_complete _ _ _ Hl Hd)) as H1. cbv beta in H1.
  exact (Qnorm_sound l _ _ H1).
Qed.

(* (b)  affine fields on arbitrary elements: f(x) = a + b . x with a, b free variables *)
Definition fa : PExpr Q := free_var 0.
Definition fb : pvec := [free_var 1; free_var 2; free_var 3].
Definition lin_field (x : pvec) : PExpr Q := PEadd fa (pdot fb x).
Definition chk_interp_linear (e : elem) : bool :=
  pe_eqb (interp_expr (map (fun i => lin_field (node_vec i)) (seq 0 (List.length (eN e)))) (eN e)) (lin_field (xmap e)).
Lemma all_interp_linear : forallb chk_interp_linear all_elems = true.
Proof. vm_cast_no_check (eq_refl true). Qed.
Theorem interp_linear : forall e, In e all_elems -> forall l : list R,
  Reval l (interp_expr (map (fun i => lin_field (node_vec i)) (seq 0 (List.length (eN e)))) (eN e)) = Reval l (lin_field (xmap e)).
Proof. intros e He l. exact (Qnorm_sound l _ _ (forallb_In _ _ all_interp_linear e He)). Qed.

Example eval_reproduces_nonvacuous : In [2; 1] (ElemDefs.exps (edim el_TRI10) (eorder el_TRI10)).
Proof. vm_compute. tauto. Qed.

Print Assumptions eval_reproduces.
Print Assumptions interp_linear.
