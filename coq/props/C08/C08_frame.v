(* C08_frame.v — the element frame of _GroupElem._Get_sysCoord_e for surface elements embedded in 3-D
   (the part located_iff_in_image_2d leaves out).  Code (dim = 2):
       i = Normalize(X_n1 - X_n0);  j0 = Normalize(X_n2 - X_n0);  k = Normalize(i x j0);  j = Normalize(k x i)
   with (n0, n1, n2) = (0, 1, 2) for triangles and (0, 1, 3) for quadrangles (read from the source), and the
   coordinates used by Get_F_e_pg / _Get_Mapping are  (x . i, x . j)  (`coord @ sysCoord_e`, first two columns).
   For an affine element  x = O + r a0 + s a1  the reference nodes n1, n2 sit at positive multiples of
   (1,0), (0,1) from n0 (table check), so i = alpha a0, k = beta (a0 x a1) with alpha, beta > 0, |i| = |k| = 1
   and j = k x i (already a unit vector).  Normalisation is modelled by these relations (no square roots).
   Results, for ALL O, a0, a1 (any position, rotation, reflection of the element):
     - the third frame coordinate x . k is constant on the element plane (slicing [:, :dim] loses nothing);
     - (x . i, x . j) = (O . i, O . j) + r (1/alpha, 0) + s (a1 . i, a1 . j): the projected element is the
       (r, s)-affine image with matrix of determinant (a0 x a1) . k = 1/beta > 0 — always POSITIVELY oriented
       in its own frame, even for mirrored meshes;
     - the projection is an isometry of the element plane: |(v . i, v . j)|^2 = |v|^2 for v = r a0 + s a1,
       so lengths, areas and the point tests in frame coordinates are those of the real element. *)
From Coq Require Import Reals List Lra Lia Nsatz QArith String Bool Arith.
From EFLib Require Import PolyQ ElemDefs.
From EFP Require Import C08_defs C08_measure Gen_Elems Gen_Faces.
Import ListNotations.
Local Open Scope R_scope.

Lemma dot_lin O a b w r s : Rdot (Rvadd O (Rvadd (Rscale r a) (Rscale s b))) w = Rdot O w + r * Rdot a w + s * Rdot b w.
Proof. destruct O as [[? ?] ?], a as [[? ?] ?], b as [[? ?] ?], w as [[? ?] ?]. simpl. ring. Qed.
Lemma dot_lin0 a b w r s : Rdot (Rvadd (Rscale r a) (Rscale s b)) w = r * Rdot a w + s * Rdot b w.
Proof. destruct a as [[? ?] ?], b as [[? ?] ?], w as [[? ?] ?]. simpl. ring. Qed.
Lemma dot_scale_r c a w : Rdot a (Rscale c w) = c * Rdot a w.
Proof. destruct a as [[? ?] ?], w as [[? ?] ?]. simpl. ring. Qed.
Lemma dot_scale_l c a w : Rdot (Rscale c a) w = c * Rdot a w.
Proof. destruct a as [[? ?] ?], w as [[? ?] ?]. simpl. ring. Qed.
Lemma dot_scale_both c a : Rdot (Rscale c a) (Rscale c a) = c * (c * Rdot a a).
Proof. destruct a as [[? ?] ?]. simpl. ring. Qed.
Lemma perp_cross a b : Rdot a (Rcross a b) = 0 /\ Rdot b (Rcross a b) = 0.
Proof. destruct a as [[? ?] ?], b as [[? ?] ?]. simpl. split; ring. Qed.
Lemma dot_cross_self a k c : Rdot a (Rcross k (Rscale c a)) = 0.
Proof. destruct a as [[? ?] ?], k as [[? ?] ?]. simpl. ring. Qed.
Lemma cross_i_ki i k : Rdot i i = 1 -> Rdot i k = 0 -> Rcross i (Rcross k i) = k.
Proof.
  destruct i as [[i0 i1] i2], k as [[k0 k1] k2]. simpl. intros U P.
  f_equal; [f_equal|]; nsatz.
Qed.
Lemma parseval_plane v i k : Rdot i i = 1 -> Rdot k k = 1 -> Rdot i k = 0 -> Rdot v k = 0 ->
  Rdot v i * Rdot v i + Rdot v (Rcross k i) * Rdot v (Rcross k i) = Rdot v v.
Proof.
  destruct v as [[v0 v1] v2], i as [[i0 i1] i2], k as [[k0 k1] k2]. simpl. intros Ui Uk P Vk. nsatz.
Qed.

Section Frame.
  Variables O a0 a1 i k : R3.
  Variables alpha beta : R.
  Hypothesis Ha : 0 < alpha.
  Hypothesis Hb : 0 < beta.
  Hypothesis Hi : i = Rscale alpha a0.
  Hypothesis Hk : k = Rscale beta (Rcross a0 a1).
  Hypothesis Ui : Rdot i i = 1.
  Hypothesis Uk : Rdot k k = 1.
  Let j : R3 := Rcross k i.
  Definition pt (r s : R) : R3 := Rvadd O (Rvadd (Rscale r a0) (Rscale s a1)).

  Lemma k_perp : Rdot a0 k = 0 /\ Rdot a1 k = 0 /\ Rdot i k = 0.
  Proof.
    destruct (perp_cross a0 a1) as [P0 P1]. repeat split.
    - rewrite Hk, dot_scale_r, P0. ring.
    - rewrite Hk, dot_scale_r, P1. ring.
    - rewrite Hk, Hi, dot_scale_r, dot_scale_l, P0. ring.
  Qed.

  Theorem frame_plane_constant r s : Rdot (pt r s) k = Rdot O k.
  Proof. destruct k_perp as [H0 [H1 _]]. unfold pt. rewrite dot_lin, H0, H1. ring. Qed.

  Lemma a0_frame : Rdot a0 i * alpha = 1 /\ Rdot a0 j = 0.
  Proof.
    split.
    - assert (E : alpha * (alpha * Rdot a0 a0) = 1) by (rewrite <- dot_scale_both, <- Hi; exact Ui).
      rewrite Hi, dot_scale_r. rewrite <- E. ring.
    - unfold j. rewrite Hi. apply dot_cross_self.
  Qed.

  Theorem frame_projection_affine r s :
    Rdot (pt r s) i = Rdot O i + r * Rdot a0 i + s * Rdot a1 i /\
    Rdot (pt r s) j = Rdot O j + s * Rdot a1 j /\
    0 < Rdot a0 i /\
    (Rdot a0 i * Rdot a1 j - Rdot a0 j * Rdot a1 i) * beta = 1.
  Proof.
    destruct a0_frame as [A1 A2]. repeat split.
    - unfold pt. apply dot_lin.
    - unfold pt. rewrite dot_lin, A2. ring.
    - destruct (Rle_or_lt (Rdot a0 i) 0) as [G|G]; [|exact G].
      assert (0 <= (- Rdot a0 i) * alpha) by (apply Rmult_le_pos; lra). lra.
    - (* Binet-Cauchy: the determinant is (a0 x a1) . (i x j) = (a0 x a1) . k *)
      rewrite (embedded_jacobian_is_normal_component a0 a1 i j).
      unfold j. rewrite (cross_i_ki i k Ui (proj2 (proj2 k_perp))).
      assert (E : beta * (beta * Rdot (Rcross a0 a1) (Rcross a0 a1)) = 1) by (rewrite <- dot_scale_both, <- Hk; exact Uk).
      rewrite Hk, dot_scale_r. rewrite <- E. ring.
  Qed.

  (* isometry of the element plane *)
  Theorem frame_projection_isometry r s :
    let v := Rvadd (Rscale r a0) (Rscale s a1) in
    Rdot v i * Rdot v i + Rdot v j * Rdot v j = Rdot v v.
  Proof.
    cbv zeta. destruct k_perp as [H0 [H1 P]]. unfold j. apply parseval_plane; auto.
    rewrite dot_lin0, H0, H1. ring.
  Qed.
End Frame.

(* table check: in every 2-D type the frame nodes (0, 1, 2 | 3) are at positive multiples of (1,0), (0,1) *)
Definition frame_nodes (t : ftab) : nat * nat * nat :=
  if String.eqb (fparent t) "TRI3"%string then frame_tri else frame_quad.     (* read from the source *)
Definition qc (e : elem) (n a : nat) : Q := List.nth a (List.nth n (enodes e) nil) 0%Q.
Definition chk_frame_nodes (t : ftab) : bool :=
  if Nat.eqb (fdim t) 2 then
    match find_elem (fname t) all_elems with
    | Some e =>
      let '(n0, n1, n2) := frame_nodes t in
      let q := qc e in
      negb (Qle_bool (q n1 0%nat - q n0 0%nat)%Q 0%Q) && Qeq_bool (q n1 1%nat) (q n0 1%nat) &&
      negb (Qle_bool (q n2 1%nat - q n0 1%nat)%Q 0%Q) && Qeq_bool (q n2 0%nat) (q n0 0%nat)
    | None => false
    end
  else true.
Lemma all_frame_nodes : forallb chk_frame_nodes all_ftabs = true.
Proof. vm_cast_no_check (eq_refl true). Qed.

(* non-vacuity of the Section hypotheses: the unit frame of the reference plane *)
Example frame_hyps_satisfiable :
  exists a0 a1 i k : R3, exists alpha beta : R, 0 < alpha /\ 0 < beta /\ i = Rscale alpha a0 /\ k = Rscale beta (Rcross a0 a1) /\
    Rdot i i = 1 /\ Rdot k k = 1.
Proof.
  exists (2, 0, 0), (1, 3, 0), (1, 0, 0), (0, 0, 1), (/ 2), (/ 6).
  repeat split; simpl; try lra; f_equal; try (f_equal); lra.
Qed.

Print Assumptions frame_plane_constant.
Print Assumptions frame_projection_affine.
Print Assumptions frame_projection_isometry.
