(* C08_cur_invmap.v — the property for the cost function AS FOUND in the checked tree
   (EFP.Gen_Faces.eval_form, read from _GroupElem._Get_Mapping.Eval by translator/faces.py).
   Compiles iff that form is the isoparametric residual N(xi) @ X - xP. *)
From Coq Require Import QArith Reals List.
From EFLib Require Import PolyQ ElemDefs.
From EFP Require Import C08_defs Gen_Elems Gen_Faces C08_invmap.

(* the cost function minimised for distorted elements vanishes at the true pre-image, for every
   element type, every reference point and all node coordinates *)
Theorem iterative_inverse_map_consistent : forall e, In e all_elems -> forall l : list R,
  Rv l (cost eval_form e) = (0, 0, 0)%R.
Proof. exact iterative_inverse_map_consistent_iso. Qed.

Print Assumptions iterative_inverse_map_consistent.
