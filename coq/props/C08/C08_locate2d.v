(* C08_locate2d.v — 2-D point location composed: for every 2-D element type, every affine element
   embedded in 3-D (X_i = O + A xi_i, |a0 x a1| > 0, any orientation) and every point
   p = O + A (r, s, 0) of the element's plane, ALL edge tests of Get_pointsInElem pass
   iff (r, s) lies in the closed reference element (triangle r,s >= 0, r+s <= 1; square |r|,|s| <= 1)
   iff p lies in the closed element.  (r, s) is what the affine branch of _Get_Mapping returns for p:
   affine_inverse_map_2d in C08_invmap.v.)  Assignments l : list R hold (r, s, O, A), see C08_defs.v. *)
From Coq Require Import QArith Qreals Reals Ring_polynom List String Lia Lra Bool Arith.
From EFLib Require Import PolyQ ElemDefs QuadDefs.
From EFP Require Import C08_defs Gen_Elems Gen_Faces C08_pointin C08_pointin2d.
Import ListNotations.
Local Open Scope list_scope.
Local Open Scope nat_scope.

Definition accepted2 (t : ftab) (l : list R) : Prop :=
  forall i, i < List.length (contour2 t) -> (Reval l (affinize (elem_of t) (test2_expr t i)) >= 0)%R.
Definition in_ref2 (parent : string) (l : list R) : Prop :=
  forall h, In h (canon2 parent) -> (Reval l h >= 0)%R.

Theorem located_iff_in_image_2d : forall t, In t all_ftabs -> fdim t = 2 ->
  forall l : list R, (Reval l G2 > 0)%R -> (accepted2 t l <-> in_ref2 (fparent t) l).
Proof.
  intros t Ht Hd l HG.
  pose proof (forallb_In _ _ all_pie2 t Ht) as H. unfold chk_pie2 in H. rewrite Hd in H. simpl Nat.eqb in H. cbv iota in H.
  apply andb_true_iff in H as [H _]. apply andb_true_iff in H as [H _]. apply andb_true_iff in H as [_ Hcov].
  rewrite forallb_forall in Hcov.
  assert (Pos : forall c : Q, (0 < c)%Q -> (Q2R c > 0)%R).
  { intros c Hc. apply Qlt_Rlt in Hc. replace (Q2R 0) with 0%R in Hc by (unfold Q2R; simpl; lra). lra. }
  split.
  - intros Hacc h Hh. apply In_nth_error in Hh as [k Hk].
    assert (Hkl : k < List.length (canon2 (fparent t))) by (apply nth_error_Some; congruence).
    assert (Hin : In k (seq 0 (List.length (canon2 (fparent t))))) by (apply in_seq; lia).
    specialize (Hcov k Hin). apply existsb_exists in Hcov as [o [Ho Hok]].
    apply in_map_iff in Ho as [i [Ei Hi]]. subst o. apply in_seq in Hi.
    destruct (point_in_elem_2d t Ht Hd i ltac:(lia)) as [k2 [c [h2 [Em [Hn [Hc Hid]]]]]].
    rewrite Em in Hok. apply Nat.eqb_eq in Hok. subst k2. rewrite Hk in Hn. inversion Hn; subst h2.
    specialize (Hacc i ltac:(lia)). rewrite Hid in Hacc.
    apply (sign2 _ _ _ HG (Pos c Hc)). exact Hacc.
  - intros Hin i Hi. destruct (point_in_elem_2d t Ht Hd i Hi) as [k [c [h [_ [Hn [Hc Hid]]]]]].
    rewrite Hid. apply (sign2 _ _ _ HG (Pos c Hc)). apply Hin. eapply nth_error_In; eauto.
Qed.

Example in_ref2_tri l : in_ref2 "TRI3"%string l <->
  (Reval l r_ >= 0 /\ Reval l s_ >= 0 /\ 1 - Reval l r_ - Reval l s_ >= 0)%R.
Proof.
  unfold in_ref2. change (canon2 "TRI3"%string) with [r_; s_; PEsub (PEsub one r_) s_]. split.
  - intro H. pose proof (H _ (or_introl eq_refl)) as A0. pose proof (H _ (or_intror (or_introl eq_refl))) as A1.
    pose proof (H _ (or_intror (or_intror (or_introl eq_refl)))) as A2.
    change (Reval l (PEsub (PEsub one r_) s_)) with (Q2R 1 - Reval l r_ - Reval l s_)%R in A2.
    assert (Q1 : Q2R 1 = 1%R) by (unfold Q2R; simpl; lra). rewrite Q1 in A2. repeat split; lra.
  - intros [H0 [H1 H2]] h [E|[E|[E|[]]]]; subst h; try assumption.
    change (Reval l (PEsub (PEsub one r_) s_)) with (Q2R 1 - Reval l r_ - Reval l s_)%R.
    assert (Q1 : Q2R 1 = 1%R) by (unfold Q2R; simpl; lra). rewrite Q1. lra.
Qed.

Print Assumptions located_iff_in_image_2d.
