(* C08_conform.v — mesh level: interior faces cancel.  Closes the "by conformity" gap between the
   per-element theorems (face_tables_close: the faces of ONE element sum to 0 / to 3*volume) and the
   statements about the boundary of a mesh.

   Abstract part (any type of oriented faces): F a duplicate-free list of oriented faces, `op` the
   orientation reversal (involutive on F), phi any real functional with phi (op f) = - phi f.
   Faces whose reversal is also in F are interior, the others form the boundary.  Then
        sum_{f in F} phi f  =  sum_{f in boundary F} phi f.
   Conformity predicate = `NoDup F`: every oriented face occurs once; an interior face therefore
   occurs exactly twice in the mesh, with opposite orientations.

   Concrete part: triangles and quadrilaterals as vertex cycles written with their smallest vertex
   first (canonical rotation; the harness builds F that way from `connect[:, faces]`), phi = a
   component of the area vector or the flux of x, for arbitrary node coordinates X : nat -> R^3. *)
From Coq Require Import Reals List Permutation Lra Lia Bool Arith.
Import ListNotations.
Local Open Scope R_scope.

Section Conformity.
  Variable A : Type.
  Variable eq_dec : forall x y : A, {x = y} + {x <> y}.
  Variable op : A -> A.
  Variable phi : A -> R.

  Definition inb (x : A) (l : list A) : bool := if in_dec eq_dec x l then true else false.
  Lemma inb_true x l : inb x l = true <-> In x l.
  Proof. unfold inb. destruct (in_dec eq_dec x l); split; auto; discriminate. Qed.

  Definition rsum (l : list A) : R := fold_right (fun f s => phi f + s) 0 l.
  Definition interior (F : list A) : list A := filter (fun f => inb (op f) F) F.
  Definition boundary (F : list A) : list A := filter (fun f => negb (inb (op f) F)) F.

  Lemma rsum_app l1 l2 : rsum (l1 ++ l2) = rsum l1 + rsum l2.
  Proof. induction l1 as [|a l IH]; simpl; [lra | rewrite IH; lra]. Qed.
  Lemma rsum_split (p : A -> bool) l : rsum l = rsum (filter p l) + rsum (filter (fun f => negb (p f)) l).
  Proof. induction l as [|a l IH]; simpl; [lra|]. destruct (p a); simpl; rewrite IH; lra. Qed.
  Lemma rsum_perm l l' : Permutation l l' -> rsum l = rsum l'.
  Proof. induction 1; simpl; lra. Qed.

  Lemma NoDup_map_inj_in (g : A -> A) l :
    (forall x y, In x l -> In y l -> g x = g y -> x = y) -> NoDup l -> NoDup (map g l).
  Proof.
    induction l as [|a l IH]; intros Hinj Hnd; simpl; [constructor|].
    inversion Hnd as [|? ? Hna Hnd']; subst. constructor.
    - intro Hin. apply in_map_iff in Hin as [y [Hy Hyl]].
      assert (y = a) by (apply Hinj; simpl; auto). subst. contradiction.
    - apply IH; [|exact Hnd']. intros x y Hx Hy. apply Hinj; simpl; auto.
  Qed.

  Variable F : list A.
  Hypothesis F_nodup : NoDup F.
  Hypothesis op_invol : forall f, In f F -> op (op f) = f.
  Hypothesis phi_op : forall f, In f F -> phi (op f) = - phi f.

  Lemma interior_in f : In f (interior F) <-> In f F /\ In (op f) F.
  Proof. unfold interior. rewrite filter_In, inb_true. tauto. Qed.
  Lemma interior_closed f : In f (interior F) -> In (op f) (interior F).
  Proof. rewrite !interior_in. intros [H1 H2]. split; [exact H2|]. rewrite op_invol; assumption. Qed.

  Lemma rsum_map_op l : (forall f, In f l -> In f F) -> rsum (map op l) = - rsum l.
  Proof.
    induction l as [|a l IH]; intro H; simpl; [lra|].
    rewrite IH by (intros f Hf; apply H; simpl; auto). rewrite phi_op by (apply H; simpl; auto). lra.
  Qed.

  Lemma interior_sum_zero : rsum (interior F) = 0.
  Proof.
    assert (Hnd : NoDup (interior F)) by (apply NoDup_filter; exact F_nodup).
    assert (Hsub : forall f, In f (interior F) -> In f F) by (intros f Hf; apply interior_in in Hf; tauto).
    assert (Hnd' : NoDup (map op (interior F))).
    { apply NoDup_map_inj_in; [|exact Hnd]. intros x y Hx Hy E.
      rewrite <- (op_invol x (Hsub x Hx)), <- (op_invol y (Hsub y Hy)), E. reflexivity. }
    assert (Hincl : incl (map op (interior F)) (interior F)).
    { intros g Hg. apply in_map_iff in Hg as [f [Ef Hf]]. subst. apply interior_closed. exact Hf. }
    assert (P : Permutation (map op (interior F)) (interior F)).
    { apply NoDup_Permutation_bis; [exact Hnd' | rewrite map_length; lia | exact Hincl]. }
    apply rsum_perm in P. rewrite rsum_map_op in P by exact Hsub. lra.
  Qed.

  (* interior faces cancel *)
  Theorem interior_faces_cancel : rsum F = rsum (boundary F).
  Proof.
    rewrite (rsum_split (fun f => inb (op f) F) F). fold (interior F). fold (boundary F).
    rewrite interior_sum_zero. lra.
  Qed.
End Conformity.

(* sum over the faces of all elements = sum of the per-element sums *)
Lemma rsum_flat_map {A E} (phi : A -> R) (fs : E -> list A) (els : list E) :
  rsum A phi (flat_map fs els) = fold_right (fun e s => rsum A phi (fs e) + s) 0 els.
Proof. induction els as [|e r IH]; simpl; [reflexivity|]. rewrite rsum_app, IH. reflexivity. Qed.

(* ---------------- concrete oriented faces ---------------- *)
Inductive face := Tri (a b c : nat) | Quad (a b c d : nat).
Definition face_eq_dec : forall x y : face, {x = y} + {x <> y}.
Proof. decide equality; apply Nat.eq_dec. Defined.
(* reversal keeping the first (smallest) vertex first *)
Definition rev_face (f : face) : face :=
  match f with Tri a b c => Tri a c b | Quad a b c d => Quad a d c b end.
Lemma rev_face_invol f : rev_face (rev_face f) = f.
Proof. destruct f; reflexivity. Qed.

Definition V3 := (R * R * R)%type.
Definition vsub (u v : V3) : V3 := let '(a, b, c) := u in let '(x, y, z) := v in (a - x, b - y, c - z).
Definition cross (u v : V3) : V3 :=
  let '(a, b, c) := u in let '(x, y, z) := v in (b * z - c * y, c * x - a * z, a * y - b * x).
Definition dot (u v : V3) : R := let '(a, b, c) := u in let '(x, y, z) := v in a * x + b * y + c * z.
Definition comp (k : nat) (u : V3) : R := let '(a, b, c) := u in match k with O => a | S O => b | _ => c end.
Definition trip (u v w : V3) : R := dot u (cross v w).

Section Geometry.
  Variable X : nat -> V3.          (* arbitrary node coordinates *)
  (* twice the area vector (right-hand rule): flat triangle / bilinear quadrilateral — the same
     formulas as area2 / flux2 of C08_faces.v *)
  Definition area2 (f : face) : V3 :=
    match f with
    | Tri a b c => cross (vsub (X b) (X a)) (vsub (X c) (X a))
    | Quad a b c d => cross (vsub (X c) (X a)) (vsub (X d) (X b))
    end.
  Definition flux2 (f : face) : R :=
    match f with
    | Tri a b c => trip (X a) (X b) (X c)
    | Quad a b c d => (trip (X a) (X b) (X c) + trip (X a) (X c) (X d) + trip (X a) (X b) (X d) + trip (X b) (X c) (X d)) / 2
    end.

  Lemma area2_rev k f : comp k (area2 (rev_face f)) = - comp k (area2 f).
  Proof.
    destruct f as [a b c|a b c d]; simpl;
      repeat match goal with |- context [X ?n] => destruct (X n) as [[? ?] ?] end;
      destruct k as [|[|k]]; simpl; ring.
  Qed.
  Lemma flux2_rev f : flux2 (rev_face f) = - flux2 f.
  Proof.
    destruct f as [a b c|a b c d]; simpl; unfold trip;
      repeat match goal with |- context [X ?n] => destruct (X n) as [[? ?] ?] end; simpl; field.
  Qed.
  (* the canonical rotation does not change the integrals: rotating the vertex cycle *)
  Lemma area2_rot_tri k a b c : comp k (area2 (Tri b c a)) = comp k (area2 (Tri a b c)).
  Proof. simpl. destruct (X a) as [[? ?] ?], (X b) as [[? ?] ?], (X c) as [[? ?] ?]. destruct k as [|[|k]]; simpl; ring. Qed.
  Lemma area2_rot_quad k a b c d : comp k (area2 (Quad b c d a)) = comp k (area2 (Quad a b c d)).
  Proof. simpl. destruct (X a) as [[? ?] ?], (X b) as [[? ?] ?], (X c) as [[? ?] ?], (X d) as [[? ?] ?]. destruct k as [|[|k]]; simpl; ring. Qed.
  Lemma flux2_rot_tri a b c : flux2 (Tri b c a) = flux2 (Tri a b c).
  Proof. simpl. unfold trip. destruct (X a) as [[? ?] ?], (X b) as [[? ?] ?], (X c) as [[? ?] ?]. simpl. ring. Qed.
  Lemma flux2_rot_quad a b c d : flux2 (Quad b c d a) = flux2 (Quad a b c d).
  Proof. simpl. unfold trip. destruct (X a) as [[? ?] ?], (X b) as [[? ?] ?], (X c) as [[? ?] ?], (X d) as [[? ?] ?]. simpl. field. Qed.

  Definition bnd (F : list face) : list face := boundary face face_eq_dec rev_face F.

  (* mesh_interior_faces_cancel: F = the oriented faces of all elements of a mesh (any mix of
     triangles and quadrilaterals, any node coordinates).  If no oriented face occurs twice
     (conformity), the area vectors and the fluxes of x summed over ALL element faces equal the sums
     over the boundary faces only. *)
  Theorem mesh_interior_faces_cancel : forall F : list face, NoDup F ->
    (forall k, rsum face (fun f => comp k (area2 f)) F = rsum face (fun f => comp k (area2 f)) (bnd F)) /\
    rsum face flux2 F = rsum face flux2 (bnd F).
  Proof.
    intros F Hnd. split; [intro k|]; apply interior_faces_cancel; auto; intros f _.
    - apply rev_face_invol.
    - apply area2_rev.
    - apply rev_face_invol.
    - apply flux2_rev.
  Qed.

  (* with the per-element theorem (face_tables_close: for each element the area vectors of its faces
     sum to 0 and the fluxes to 6 * volume) this gives the mesh statements: *)
  Theorem mesh_boundary_closes {E} (faces_of : E -> list face) (vol6 : E -> R) (els : list E) :
    NoDup (flat_map faces_of els) ->
    (forall e, In e els -> forall k, rsum face (fun f => comp k (area2 f)) (faces_of e) = 0) ->
    (forall e, In e els -> rsum face flux2 (faces_of e) = vol6 e) ->
    (forall k, rsum face (fun f => comp k (area2 f)) (bnd (flat_map faces_of els)) = 0) /\
    rsum face flux2 (bnd (flat_map faces_of els)) = fold_right (fun e s => vol6 e + s) 0 els.
  Proof.
    intros Hnd Ha Hf. destruct (mesh_interior_faces_cancel _ Hnd) as [C1 C2]. split.
    - intro k. rewrite <- C1, rsum_flat_map. clear C1 C2 Hnd Hf.
      induction els as [|e r IH]; simpl; [reflexivity|].
      rewrite (Ha e) by (simpl; auto). rewrite IH by (intros; apply Ha; simpl; auto). lra.
    - rewrite <- C2, rsum_flat_map. clear C1 C2 Hnd Ha.
      induction els as [|e r IH]; simpl; [reflexivity|].
      rewrite (Hf e) by (simpl; auto). rewrite IH by (intros; apply Hf; simpl; auto). reflexivity.
  Qed.
End Geometry.

(* non-vacuity: two tetrahedra 0123 and 1243 glued along the face {1,2,3}; TETRA4 `faces` rows
   [0,2,1] [0,3,2] [0,1,3] [1,2,3] written smallest vertex first *)
Definition two_tets : list face :=
  [Tri 0 2 1; Tri 0 3 2; Tri 0 1 3; Tri 1 2 3] ++ [Tri 1 4 2; Tri 1 3 4; Tri 1 2 3; Tri 2 4 3].
Example two_tets_not_conforming_as_written : ~ NoDup two_tets.
Proof. intro H. apply NoDup_remove_2 with (l := [Tri 0 2 1; Tri 0 3 2; Tri 0 1 3]) in H. apply H. simpl. tauto. Qed.
(* the second tetrahedron must be oriented 1 4 2 3 -> its face on {1,2,3} is (1,3,2) *)
Definition two_tets_ok : list face :=
  [Tri 0 2 1; Tri 0 3 2; Tri 0 1 3; Tri 1 2 3] ++ [Tri 1 2 4; Tri 1 4 3; Tri 1 3 2; Tri 2 3 4].
Example two_tets_conforming : NoDup two_tets_ok /\
  bnd two_tets_ok = [Tri 0 2 1; Tri 0 3 2; Tri 0 1 3; Tri 1 2 4; Tri 1 4 3; Tri 2 3 4].
Proof.
  split.
  - repeat (constructor; [simpl; intuition discriminate|]). constructor.
  - reflexivity.
Qed.

Print Assumptions interior_faces_cancel.
Print Assumptions mesh_interior_faces_cancel.
Print Assumptions mesh_boundary_closes.
