(* C02_rank.v — "no spurious mode" and "mass positive definite" as rank statements, decided by
   vm_compute on the regenerated tables (Gen_Elems, Gen_Gauss) and generated patches (Gen_Patches).
   RANKS ARE MODULO p = 2^31 - 1 (EFLib.ModRank): a lower bound of the rational rank; together
   with the upper bound ndof - n_rigid (C02_kernel: rigid modes have zero strain samples) or the
   row count, equality with the bound pins the rational rank.  The lists of element types that
   FAIL are computed here (never hard-coded); the driver reports each member as a violation. *)
From Coq Require Import QArith List String Bool Arith Lia Ring_polynom.
From EFLib Require Import PolyQ ElemDefs QuadDefs ModRank C02_ModPipe.
From EFP Require Import Gen_Elems Gen_Gauss Gen_Patches.
Import ListNotations.
Open Scope string_scope.

Definition lookup (en mt : string) : option rule :=
  match find (fun t => String.eqb (fst (fst t)) en && String.eqb (snd (fst t)) mt) factory with
  | Some t => Some (snd t) | None => None end.
Definition find_patch (l : list (string * patch)) (n : string) : option patch :=
  match find (fun t => String.eqb (fst t) n) l with Some t => Some (snd t) | None => None end.

Definition applicable (k : kind) (e : elem) : bool :=
  match k with Elastic => Nat.leb 2 (edim e) | Thermal => true end.

(* the strain (gradient) samples of the patch with the factory's 'rigi' rule, weights > 0, have
   rank  ndof - n_rigid  : the only zero-energy modes are the rigid ones *)
Definition kernel_is_rigid (k : kind) (e : elem) (pa : patch) : bool :=
  match lookup (ename e) "rigi" with
  | Some r => weights_pos r && chk_patch e pa &&
              match patch_rank k e r pa with
              | Some rk => Nat.eqb (rk + n_rigid k (edim e)) (patch_ndof k e pa)
              | None => false end
  | None => false end.
Definition two_elements (pa : patch) : bool :=
  Nat.eqb (List.length (pconn pa)) 2 && Nat.ltb 0 (n_shared pa).
Definition ok_on (k : kind) (l : list (string * patch)) (e : elem) : bool :=
  match find_patch l (ename e) with
  | Some pa => two_elements pa && kernel_is_rigid k e pa
  | None => false end.
Definition deficient (k : kind) (l : list (string * patch)) : list string :=
  map ename (filter (fun e => applicable k e && negb (ok_on k l e)) all_elems).

Lemma not_deficient_ok k l e : In e all_elems -> applicable k e = true ->
  ~ In (ename e) (deficient k l) -> ok_on k l e = true.
Proof.
  intros He Ha Hn. destruct (ok_on k l e) eqn:E; [reflexivity|]. exfalso. apply Hn.
  unfold deficient. apply in_map. apply filter_In. split; [assumption|]. rewrite Ha, E. reflexivity.
Qed.

(* computed lists of failing element types (empty on a tree where the property holds) *)
Definition deficient_el2 : list string := Eval vm_compute in deficient Elastic patches2.
Definition deficient_elD : list string := Eval vm_compute in deficient Elastic patchesD.
Definition deficient_th2 : list string := Eval vm_compute in deficient Thermal patches2.
Definition deficient_thD : list string := Eval vm_compute in deficient Thermal patchesD.
Lemma deficient_el2_eq : deficient Elastic patches2 = deficient_el2. Proof. vm_cast_no_check (eq_refl deficient_el2). Qed.
Lemma deficient_elD_eq : deficient Elastic patchesD = deficient_elD. Proof. vm_cast_no_check (eq_refl deficient_elD). Qed.
Lemma deficient_th2_eq : deficient Thermal patches2 = deficient_th2. Proof. vm_cast_no_check (eq_refl deficient_th2). Qed.
Lemma deficient_thD_eq : deficient Thermal patchesD = deficient_thD. Proof. vm_cast_no_check (eq_refl deficient_thD). Qed.

Definition spec_ok (k : kind) (l : list (string * patch)) (e : elem) : Prop :=
  exists r pa rk, lookup (ename e) "rigi" = Some r /\ find_patch l (ename e) = Some pa /\
    weights_pos r = true /\ chk_patch e pa = true /\ List.length (pconn pa) = 2%nat /\ (0 < n_shared pa)%nat /\
    patch_rank k e r pa = Some rk /\ (rk + n_rigid k (edim e) = patch_ndof k e pa)%nat.

Lemma ok_on_spec k l e : ok_on k l e = true -> spec_ok k l e.
Proof.
  unfold ok_on, spec_ok, kernel_is_rigid, two_elements. intro H.
  destruct (find_patch l (ename e)) as [pa|]; [|discriminate].
  apply andb_true_iff in H as [H2 H]. apply andb_true_iff in H2 as [Hl Hs].
  destruct (lookup (ename e) "rigi") as [r|]; [|discriminate].
  apply andb_true_iff in H as [H Hr]. apply andb_true_iff in H as [Hw Hc].
  destruct (patch_rank k e r pa) as [rk|] eqn:Erk; [|discriminate].
  exists r, pa, rk. apply Nat.eqb_eq in Hl. apply Nat.eqb_eq in Hr. apply Nat.ltb_lt in Hs.
  split; [reflexivity|]. split; [reflexivity|]. split; [exact Hw|]. split; [exact Hc|].
  split; [exact Hl|]. split; [exact Hs|]. split; [exact Erk | exact Hr].
Qed.

(* Two reference-shaped elements sharing a face, assembled (stacked samples over the union
   dofs): the kernel is exactly the rigid modes, for every type not listed in deficient_el2. *)
Theorem C02_two_element_patch_elastic : forall e, In e all_elems -> (2 <= edim e)%nat ->
  ~ In (ename e) deficient_el2 -> spec_ok Elastic patches2 e.
Proof.
  intros e He Hd Hn. apply ok_on_spec. rewrite <- deficient_el2_eq in Hn.
  apply (not_deficient_ok Elastic patches2 e He); [|exact Hn].
  unfold applicable. apply Nat.leb_le. exact Hd.
Qed.
(* the same connectivity with affinely mapped and node-wise perturbed (curved) coordinates *)
Theorem C02_two_element_patch_elastic_distorted : forall e, In e all_elems -> (2 <= edim e)%nat ->
  ~ In (ename e) deficient_elD -> spec_ok Elastic patchesD e.
Proof.
  intros e He Hd Hn. apply ok_on_spec. rewrite <- deficient_elD_eq in Hn.
  apply (not_deficient_ok Elastic patchesD e He); [|exact Hn].
  unfold applicable. apply Nat.leb_le. exact Hd.
Qed.
Theorem C02_two_element_patch_thermal : forall e, In e all_elems ->
  ~ In (ename e) deficient_th2 -> spec_ok Thermal patches2 e.
Proof.
  intros e He Hn. apply ok_on_spec. rewrite <- deficient_th2_eq in Hn.
  apply (not_deficient_ok Thermal patches2 e He); [reflexivity|exact Hn].
Qed.
Theorem C02_two_element_patch_thermal_distorted : forall e, In e all_elems ->
  ~ In (ename e) deficient_thD -> spec_ok Thermal patchesD e.
Proof.
  intros e He Hn. apply ok_on_spec. rewrite <- deficient_thD_eq in Hn.
  apply (not_deficient_ok Thermal patchesD e He); [reflexivity|exact Hn].
Qed.

(* single reference-shaped element: (name, points of the rule, rank mod p, sample rows, ndof, n_rigid);
   n_spurious = ndof - n_rigid - rank  (an upper bound of the number of spurious modes; exact
   when rank = rows) *)
Definition single_row (k : kind) (e : elem) :=
  match lookup (ename e) "rigi" with
  | Some r => (ename e, rnpg r, patch_rank k e r (ref_patch e), patch_nrows k e r (ref_patch e),
               patch_ndof k e (ref_patch e), n_rigid k (edim e))
  | None => (ename e, 0%nat, None, None, 0%nat, 0%nat) end.
Definition single_elastic := Eval vm_compute in map (single_row Elastic) (filter (applicable Elastic) all_elems).
Definition single_thermal := Eval vm_compute in map (single_row Thermal) all_elems.
Theorem C02_single_element_ranks :
  map (single_row Elastic) (filter (applicable Elastic) all_elems) = single_elastic /\
  map (single_row Thermal) all_elems = single_thermal.
Proof. split; [vm_cast_no_check (eq_refl single_elastic) | vm_cast_no_check (eq_refl single_thermal)]. Qed.

(* ---------- consistent mass: weights > 0 and N-samples of full column rank ---------- *)
Definition mass_ok (e : elem) : bool :=
  match lookup (ename e) "mass" with
  | Some r => weights_pos r &&
              match nsample_rank e r with Some rk => Nat.eqb rk (enPe e) | None => false end
  | None => false end.
Definition deficient_mass_def : list string := map ename (filter (fun e => negb (mass_ok e)) all_elems).
Definition deficient_mass : list string := Eval vm_compute in deficient_mass_def.
Lemma deficient_mass_eq : deficient_mass_def = deficient_mass. Proof. vm_cast_no_check (eq_refl deficient_mass). Qed.
Definition mass_row (e : elem) :=
  match lookup (ename e) "mass" with
  | Some r => (ename e, rnpg r, weights_pos r, nsample_rank e r, enPe e)
  | None => (ename e, 0%nat, false, None, enPe e) end.
Definition mass_table := Eval vm_compute in map mass_row all_elems.

Lemma not_in_filter_names (f : elem -> bool) (L : list elem) e : In e L ->
  ~ In (ename e) (map ename (filter (fun e => negb (f e)) L)) -> f e = true.
Proof.
  intros He Hn. destruct (f e) eqn:E; [reflexivity|]. exfalso. apply Hn. apply in_map.
  apply (proj2 (filter_In _ _ _)). split; [assumption|]. now rewrite E.
Qed.

(* x'Mx = rho sum_p w_p |J_p| (sum_i N_i(p) x_i)^2 (C02_mass.v); with weights > 0 it vanishes only
   if every N-sample vanishes; the sample matrix has rank nPe (mod p), so only for x = 0 —
   independently of the element's geometry as long as det J <> 0 at the points *)
Theorem C02_mass_rule_full_rank : forall e, In e all_elems -> ~ In (ename e) deficient_mass ->
  exists r, lookup (ename e) "mass" = Some r /\ weights_pos r = true /\ nsample_rank e r = Some (enPe e).
Proof.
  intros e He Hn. rewrite <- deficient_mass_eq in Hn.
  pose proof (not_in_filter_names mass_ok all_elems e He Hn) as E.
  unfold mass_ok in E. destruct (lookup (ename e) "mass") as [r|]; [|discriminate].
  apply andb_true_iff in E as [Hw Hr]. destruct (nsample_rank e r) as [rk|] eqn:Erk; [|discriminate].
  apply Nat.eqb_eq in Hr. subst rk. exists r. split; [reflexivity|]. split; [exact Hw | exact Erk].
Qed.

Lemma not_in_by_eqb (s : string) l : existsb (String.eqb s) l = false -> ~ In s l.
Proof.
  intros H Hin. assert (existsb (String.eqb s) l = true); [|congruence].
  apply existsb_exists. exists s. split; [assumption | apply String.eqb_refl].
Qed.
(* non-vacuity: at least one type satisfies each hypothesis "not in the deficient list" *)
Example nonvac_el2 : existsb (fun e => applicable Elastic e && negb (existsb (String.eqb (ename e)) deficient_el2)) all_elems = true.
Proof. vm_compute. reflexivity. Qed.
Example nonvac_th2 : existsb (fun e => negb (existsb (String.eqb (ename e)) deficient_th2)) all_elems = true.
Proof. vm_compute. reflexivity. Qed.
Example nonvac_mass : existsb (fun e => negb (existsb (String.eqb (ename e)) deficient_mass)) all_elems = true.
Proof. vm_compute. reflexivity. Qed.

Print Assumptions C02_two_element_patch_elastic.
Print Assumptions C02_two_element_patch_thermal.
Print Assumptions C02_mass_rule_full_rank.
