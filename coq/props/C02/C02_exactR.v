(* C02_exactR.v — the trivial-kernel statements over the REALS for the element types listed in
   Gen_ExactPlan.exactR_* : the exact rational sample matrix G of the pipeline admits an exact integer
   certificate  L * A_Z = d * I  (A_Z = integer scaling of the selected rows of G plus the unit rows of
   the pinned dofs), hence (EFLib.C02_RankR.real_kernel_trivial, two lines over R) every REAL dof
   vector annihilated by all sample rows and vanishing on the n_rigid pinned dofs is zero.  No
   "rank modulo p" step and no Q -> R transfer is left for these types.  (Rows are still the code's
   rows multiplied by det F at their point and without the factor 1/sqrt 2 on shear rows.) *)
From Coq Require Import QArith Reals List String Bool Arith Lia Ring_polynom.
From EFLib Require Import PolyQ ElemDefs QuadDefs ModRank C02_ModPipe C02_RankQ C02_RankCert C02_RankR C02_RankCertR.
From EFP Require Import Gen_Elems Gen_Gauss Gen_Patches C02_rank Gen_ExactPlan C02_exact.
Import ListNotations.
Open Scope string_scope.

Definition chk_patch_exactR (k : kind) (l : list (string * patch)) (e : elem) : bool :=
  match lookup (ename e) "rigi", find_patch l (ename e) with
  | Some r, Some pa =>
      match patch_rowsQ k e r pa with
      | Some G => full_checkR (patch_ndof k e pa) (n_rigid k (edim e)) G
      | None => false end
  | _, _ => false end.
Definition chk_mass_exactR (e : elem) : bool :=
  match lookup (ename e) "mass" with
  | Some r => full_checkR (enPe e) 0 (nsample_rowsQ e r)
  | None => false end.

Definition exactR_spec (k : kind) (l : list (string * patch)) (e : elem) : Prop :=
  exists r pa G, lookup (ename e) "rigi" = Some r /\ find_patch l (ename e) = Some pa /\
    patch_rowsQ k e r pa = Some G /\
    let n := patch_ndof k e pa in
    List.length (pinned_ofR n G) = n_rigid k (edim e) /\
    forall x : list R, List.length x = n -> (forall rq, In rq G -> dotRQ rq x = 0%R) ->
      (forall s, In s (pinned_ofR n G) -> nth s x 0%R = 0%R) -> Forall (fun xk => xk = 0%R) x.

Lemma chk_patch_exactR_spec k l e : chk_patch_exactR k l e = true -> exactR_spec k l e.
Proof.
  unfold chk_patch_exactR, exactR_spec. intro H.
  destruct (lookup (ename e) "rigi") as [r|]; [|discriminate].
  destruct (find_patch l (ename e)) as [pa|]; [|discriminate].
  destruct (patch_rowsQ k e r pa) as [G|] eqn:EG; [|discriminate].
  exists r, pa, G. split; [reflexivity|]. split; [reflexivity|]. split; [exact EG|].
  exact (full_checkR_sound _ _ G H).
Qed.

Lemma exactR_el2_checked : forallb (fun e => if planned exactR_el2 deficient_el2 Elastic e then chk_patch_exactR Elastic patches2 e else true) all_elems = true.
Proof. vm_cast_no_check (eq_refl true). Qed.
Lemma exactR_th2_checked : forallb (fun e => if planned exactR_th2 deficient_th2 Thermal e then chk_patch_exactR Thermal patches2 e else true) all_elems = true.
Proof. vm_cast_no_check (eq_refl true). Qed.
Lemma exactR_mass_checked : forallb (fun e => if mem (ename e) exactR_mass && negb (mem (ename e) deficient_mass) then chk_mass_exactR e else true) all_elems = true.
Proof. vm_cast_no_check (eq_refl true). Qed.

Lemma planned_exactR k l pl defi :
  forallb (fun e => if planned pl defi k e then chk_patch_exactR k l e else true) all_elems = true ->
  forall e, In e all_elems -> In (ename e) pl -> applicable k e = true -> ~ In (ename e) defi -> exactR_spec k l e.
Proof.
  intros H e He Hpl Ha Hd. rewrite forallb_forall in H. specialize (H e He).
  unfold planned in H. rewrite (mem_in _ _ Hpl), Ha, (mem_notin _ _ Hd) in H. cbn [negb andb orb] in H.
  now apply chk_patch_exactR_spec.
Qed.

(* real kernel of the two-element reference patch = at most the n_rigid pinned directions *)
Theorem C02_real_kernel_two_element_patch_elastic : forall e, In e all_elems -> In (ename e) exactR_el2 ->
  (2 <= edim e)%nat -> ~ In (ename e) deficient_el2 -> exactR_spec Elastic patches2 e.
Proof.
  intros e He Hp Hd Hn.
  apply (planned_exactR Elastic patches2 exactR_el2 deficient_el2 exactR_el2_checked e He Hp); [|exact Hn].
  unfold applicable. apply Nat.leb_le. exact Hd.
Qed.
Theorem C02_real_kernel_two_element_patch_thermal : forall e, In e all_elems -> In (ename e) exactR_th2 ->
  ~ In (ename e) deficient_th2 -> exactR_spec Thermal patches2 e.
Proof. intros e He Hp Hn. exact (planned_exactR Thermal patches2 exactR_th2 deficient_th2 exactR_th2_checked e He Hp eq_refl Hn). Qed.

(* mass: x'Mx = 0 <=> all N-samples vanish (C02_mass.v) and the exact N-sample matrix has a trivial REAL
   kernel: the consistent mass matrix is positive definite over R *)
Theorem C02_real_mass_rule_full_rank : forall e, In e all_elems -> In (ename e) exactR_mass ->
  ~ In (ename e) deficient_mass ->
  exists r, lookup (ename e) "mass" = Some r /\
    forall x : list R, List.length x = enPe e ->
      (forall rq, In rq (nsample_rowsQ e r) -> dotRQ rq x = 0%R) -> Forall (fun xk => xk = 0%R) x.
Proof.
  intros e He Hp Hd. pose proof exactR_mass_checked as H. rewrite forallb_forall in H. specialize (H e He).
  rewrite (mem_in _ _ Hp), (mem_notin _ _ Hd) in H. cbn [negb andb orb] in H. unfold chk_mass_exactR in H.
  destruct (lookup (ename e) "mass") as [r|]; [|discriminate]. exists r. split; [reflexivity|].
  destruct (full_checkR_sound _ _ _ H) as [Hlen Hk]. intros x Hx HG. apply (Hk x Hx HG).
  destruct (pinned_ofR (enPe e) (nsample_rowsQ e r)); [intros s []|discriminate Hlen].
Qed.

Example exactR_plan_nonvacuous :
  existsb (fun e => planned exactR_el2 deficient_el2 Elastic e) all_elems = true /\
  existsb (fun e => planned exactR_th2 deficient_th2 Thermal e) all_elems = true /\
  existsb (fun e => mem (ename e) exactR_mass && negb (mem (ename e) deficient_mass)) all_elems = true.
Proof. split; [|split]; vm_compute; reflexivity. Qed.

Print Assumptions C02_real_kernel_two_element_patch_elastic.
Print Assumptions C02_real_mass_rule_full_rank.
