(* C02_kernel.v — symmetric / PSD element and assembled matrices with the factory's weights;
   rigid modes (translations, infinitesimal rotations; constants for conduction) have zero strain
   samples at every point of every element for all node coordinates, hence lie in the kernel. *)
From Coq Require Import QArith Qreals Reals Ring_polynom List String Lia Lra Bool Arith.
From EFLib Require Import PolyQ ElemDefs QuadDefs C02_QuadForm C01_Iso ModRank C02_ModPipe.
From EFP Require Import Gen_Elems Gen_Gauss Gen_LinalgR C01_tables.
Import ListNotations.
Open Scope R_scope.

(* ---------- 1. every rule the factory selects has positive weights ---------- *)
Lemma factory_weights_checked : forallb (fun t => weights_pos (snd t)) factory = true.
Proof. vm_compute. reflexivity. Qed.

Theorem C02_factory_weights_positive : forall en mt r, In (en, mt, r) factory ->
  forall w, In w (rw r) -> 0 < Q2R w.
Proof.
  intros en mt r Hin w Hw. pose proof factory_weights_checked as H. rewrite forallb_forall in H.
  specialize (H (en, mt, r) Hin). simpl in H. pose proof (weights_pos_spec r H w Hw) as Hq.
  apply Qlt_Rlt in Hq. replace (Q2R 0) with 0 in Hq by (unfold Q2R; simpl; lra). exact Hq.
Qed.
Example factory_nonempty : exists en mt r, In (en, mt, r) factory /\ rw r <> [].
Proof. exists "SEG2"%string, "rigi"%string, r_Seg_1. split; [left; reflexivity | discriminate]. Qed.

(* ---------- 2. K_e = sum_p (w_p |J_p|) B_p^T C B_p with those weights ---------- *)
(* quadrature points of an element: weight w_p of the rule times |det J_p| (np.abs in
   Get_jacobian_e_pg), arbitrary real operator B_p *)
Fixpoint mk_pts (ws : list Q) (jac : list R) (Bs : list (nat -> nat -> R)) : list gp :=
  match ws, jac, Bs with
  | w :: ws', j :: jac', B :: Bs' => {| gw := Q2R w * Rabs j; gB := B |} :: mk_pts ws' jac' Bs'
  | _, _, _ => []
  end.

Lemma mk_pts_weight ws : (forall w, In w ws -> 0 < Q2R w) ->
  forall jac Bs p, In p (mk_pts ws jac Bs) -> 0 <= gw p.
Proof.
  induction ws as [|w ws IH]; intros Hw jac Bs p Hp; [destruct Hp|].
  destruct jac as [|j jac]; [destruct Hp|]. destruct Bs as [|B Bs]; [destruct Hp|].
  destruct Hp as [<-|Hp].
  - simpl. apply Rmult_le_pos; [left; apply Hw; left; reflexivity | apply Rabs_pos].
  - apply (IH (fun w' H' => Hw w' (or_intror H')) jac Bs p Hp).
Qed.

Theorem C02_Ke_symmetric : forall en mt r, In (en, mt, r) factory ->
  forall (ns : nat) (C : nat -> nat -> R) jac Bs,
  (forall a b, (a < ns)%nat -> (b < ns)%nat -> C a b = C b a) ->
  forall i j, Ke ns C (mk_pts (rw r) jac Bs) i j = Ke ns C (mk_pts (rw r) jac Bs) j i.
Proof. intros en mt r _ ns C jac Bs HC i j. now apply Ke_symmetric. Qed.

Theorem C02_Ke_psd : forall en mt r, In (en, mt, r) factory ->
  forall (ns nd : nat) (C : nat -> nat -> R) jac Bs,
  (forall e, 0 <= bilC ns C e e) ->
  forall x, 0 <= bil nd (Ke ns C (mk_pts (rw r) jac Bs)) x x.
Proof.
  intros en mt r Hin ns nd C jac Bs HC x. apply Ke_psd; [assumption|].
  apply mk_pts_weight. intros w Hw. exact (C02_factory_weights_positive en mt r Hin w Hw).
Qed.

(* assembled: K = sum_e P_e' K_e P_e is symmetric PSD, x'Kx = sum_e (P_e x)' K_e (P_e x) *)
Theorem C02_K_symmetric : forall els,
  (forall e, In e els -> forall i j, (i < e_nd e)%nat -> (j < e_nd e)%nat -> e_K e i j = e_K e j i) ->
  forall I J, assemble els I J = assemble els J I.
Proof. exact assemble_symmetric. Qed.
Theorem C02_K_psd : forall N els,
  (forall e, In e els -> forall i, (i < e_nd e)%nat -> (e_P e i < N)%nat) ->
  (forall e, In e els -> forall z, 0 <= bil (e_nd e) (e_K e) z z) ->
  forall x, 0 <= bil N (assemble els) x x.
Proof. exact assemble_psd. Qed.
(* zero-energy modes of the assembled matrix = common zero-energy modes of the elements, and
   for a symmetric PSD matrix zero energy <=> K x = 0 *)
Theorem C02_K_kernel_is_intersection : forall N els x,
  (forall e, In e els -> forall i, (i < e_nd e)%nat -> (e_P e i < N)%nat) ->
  (forall e, In e els -> forall z, 0 <= bil (e_nd e) (e_K e) z z) ->
  (bil N (assemble els) x x = 0 <->
   forall e, In e els -> bil (e_nd e) (e_K e) (gather e x) (gather e x) = 0).
Proof. exact assemble_zero_energy_iff. Qed.
Theorem C02_zero_energy_is_kernel : forall n K x,
  (forall i j, (i < n)%nat -> (j < n)%nat -> K i j = K j i) -> (forall z, 0 <= bil n K z z) ->
  (bil n K x x = 0 <-> forall i, (i < n)%nat -> mv n K x i = 0).
Proof.
  intros n K x Hs Hp. split; [now apply psd_zero_energy_kernel | apply kernel_zero_energy].
Qed.

(* ---------- 3. rigid modes have zero strain at every point, for all coordinates ---------- *)
Theorem C02_rigid_zero_strain_2D : forall e, In e all_elems -> edim e = 2%nat -> forall dn, edN e = Some dn ->
  forall (l : list R) (X : nat -> nat -> R) cM A c,
  (forall m n, A m n = - A n m) ->             (* infinitesimal rotation (A = 0: translation c) *)
  let dNr := dNr_of dn l in
  let F := Fm (enPe e) dNr X in
  gen_det2R F <> 0 ->
  forall a, (a < 3)%nat ->
  sumn (enPe e * 2) (fun col => B2 cM (gphys 2 dNr (gen_inv2R F)) a col * dofs 2 (lindisp 2 X A c) col) = 0.
Proof.
  intros e He Hd dn Hdn l X cM A c HA dNr F Hdet a Ha.
  transitivity (KM2 cM A a); [exact (C01_strain_linear_2D e He Hd dn Hdn l X cM A c Hdet a Ha) | now apply KM2_skew].
Qed.

Theorem C02_rigid_zero_strain_3D : forall e, In e all_elems -> edim e = 3%nat -> forall dn, edN e = Some dn ->
  forall (l : list R) (X : nat -> nat -> R) cM A c,
  (forall m n, A m n = - A n m) ->
  let dNr := dNr_of dn l in
  let F := Fm (enPe e) dNr X in
  gen_det3R F <> 0 ->
  forall a, (a < 6)%nat ->
  sumn (enPe e * 3) (fun col => B3 cM (gphys 3 dNr (gen_inv3R F)) a col * dofs 3 (lindisp 3 X A c) col) = 0.
Proof.
  intros e He Hd dn Hdn l X cM A c HA dNr F Hdet a Ha.
  transitivity (KM3 cM A a); [exact (C01_strain_linear_3D e He Hd dn Hdn l X cM A c Hdet a Ha) | now apply KM3_skew].
Qed.

(* conduction: a constant temperature has zero gradient sample, whatever matrix plays invF *)
Theorem C02_constant_zero_gradient : forall e, In e all_elems -> forall dn, edN e = Some dn ->
  forall (l : list R) (invF : nat -> nat -> R) (c : R) k, (k < edim e)%nat ->
  sumn (enPe e) (fun i => gphys (edim e) (dNr_of dn l) invF k i * c) = 0.
Proof.
  intros e He dn Hdn l invF c k Hk. apply gphys_const; [|assumption].
  intros d Hd. apply (lin_dsum0 e dn); auto. now apply elem_lin.
Qed.

(* zero strain samples => in the kernel of K_e (no hypothesis on C or the weights) *)
Theorem C02_zero_strain_in_kernel : forall ns nd C pts x,
  (forall p, In p pts -> forall a, (a < ns)%nat -> strain nd p x a = 0) ->
  forall i, mv nd (Ke ns C pts) x i = 0.
Proof.
  intros ns nd C pts x H i. rewrite (mv_Ke_const_strain ns C nd pts x (fun _ => 0) i H).
  apply sumn_zero_ext. intros a _. unfold mv. rewrite sumn_zero_ext; [ring|]. intros; ring.
Qed.

(* homogeneity under a change of the length unit (x -> s x): the weights w_p|J_p| are multiplied by
   a = s^dim and every entry of B (a physical gradient) by b = 1/s, so K_e is multiplied by a*b^2 =
   s^(dim-2); with b = 1 (B = N) the mass matrix is multiplied by s^dim.  Every statement above
   (symmetry, PSD, kernel, totals) is therefore unit-independent. *)
Definition scale_pt (a b : R) (p : gp) : gp := {| gw := a * gw p; gB := fun r c => b * gB p r c |}.
Theorem C02_Ke_homogeneous : forall ns C pts a b i j,
  Ke ns C (map (scale_pt a b) pts) i j = a * b * b * Ke ns C pts i j.
Proof.
  intros ns C pts a b i j. unfold Ke. induction pts as [|p pts IH]; simpl; [ring|].
  rewrite IH. unfold Kpt at 1 3. simpl.
  rewrite (sumn_ext ns _ (fun r => b * b * sumn ns (fun c => gB p r i * C r c * gB p c j))).
  - rewrite sumn_scal. ring.
  - intros r _. rewrite <- sumn_scal. apply sumn_ext. intros c _. ring.
Qed.

(* non-vacuity of the skew hypothesis: the plane rotation generator *)
Example skew_hyp_satisfiable : exists A : nat -> nat -> R, (forall m n, A m n = - A n m) /\ A 0%nat 1%nat = 1.
Proof.
  exists (fun m n => match m, n with 0%nat, 1%nat => 1 | 1%nat, 0%nat => -1 | _, _ => 0 end).
  split; [|reflexivity]. intros [|[|m]] [|[|n]]; lra.
Qed.

Print Assumptions C02_factory_weights_positive.
Print Assumptions C02_Ke_symmetric.
Print Assumptions C02_Ke_psd.
Print Assumptions C02_K_psd.
Print Assumptions C02_zero_energy_is_kernel.
Print Assumptions C02_rigid_zero_strain_2D.
Print Assumptions C02_rigid_zero_strain_3D.
Print Assumptions C02_constant_zero_gradient.
Print Assumptions C02_zero_strain_in_kernel.
Print Assumptions C02_Ke_homogeneous.
