(* C02_beam.v — beams.  (1) The vertical axis stored by the `_Beam.yAxis` setter (regenerated from
   source, every branch) is orthogonal to the fibre direction for all inputs, so the local frame
   (i, j, k = Normalize(i x j)) handed to the beam operators is orthonormal (unit lengths come from
   the Normalize calls; k _|_ i, j is C10's model of _Calc_P).  (2) A global matrix obtained by
   congruence K = T^T K_loc T (T = block-diagonal local frame, the change of basis applied to N and
   B) is symmetric / PSD when K_loc is, x'Kx = (Tx)'K_loc(Tx), and T r in ker K_loc => r in ker K.
   NOT proved here: that T maps the global rigid-body modes onto the local ones (needs T
   orthonormal + the local operator model, property C10); the rigid modes themselves are checked by
   correspondence on inclined beams (K * each rigid translation and rotation = 0). *)
From Coq Require Import QArith Qreals Reals Ring_polynom List Lia Lra Bool.
From EFLib Require Import PolyQ C02_QuadForm C01_Iso.
From EFP Require Import Gen_BeamAxis.
Import ListNotations.
Open Scope R_scope.

Definition dot3 (a b : list (PExpr Q)) : PExpr Q :=
  match a, b with
  | [a1; a2; a3], [b1; b2; b3] => PEadd (PEadd (PEmul a1 b1) (PEmul a2 b2)) (PEmul a3 b3)
  | _, _ => PEI          (* malformed: never equal to zero, fails closed *)
  end.

Lemma yaxis_checked : forallb (fun y => pe_eqb (dot3 y beam_xaxis) PEO) beam_yaxis_branches = true.
Proof. vm_compute. reflexivity. Qed.

(* l = [x1;x2;x3; v1;v2;v3; s1;...]: fibre direction, user value, arbitrary Normalize scales *)
Theorem C02_beam_yaxis_orthogonal_to_fibre : forall y, In y beam_yaxis_branches ->
  forall l : list R, Reval l (dot3 y beam_xaxis) = 0.
Proof.
  intros y Hy l. pose proof yaxis_checked as H. rewrite forallb_forall in H.
  specialize (H y Hy). simpl in H. apply (Qnorm_sound l) in H. exact H.
Qed.
Example yaxis_branches_nonempty : beam_yaxis_branches <> [].
Proof. discriminate. Qed.

(* ---------- congruence K = T^T K_loc T ---------- *)
Definition congr (n : nat) (T K : nat -> nat -> R) : nat -> nat -> R := Ke n K [{| gw := 1; gB := T |}].
Definition apply (n : nat) (T : nat -> nat -> R) (x : nat -> R) (a : nat) : R := sumn n (fun i => T a i * x i).

Lemma congr_entry n T K I J :
  congr n T K I J = sumn n (fun a => sumn n (fun b => T a I * K a b * T b J)).
Proof. unfold congr, Ke, Kpt. simpl. ring. Qed.

Theorem C02_congruence_energy : forall n T K x y,
  bil n (congr n T K) x y = bil n K (apply n T x) (apply n T y).
Proof.
  intros. unfold congr. rewrite Ke_energy. simpl. unfold bilC, strain, apply. simpl. ring.
Qed.
Theorem C02_congruence_symmetric : forall n T K,
  (forall a b, (a < n)%nat -> (b < n)%nat -> K a b = K b a) -> forall I J, congr n T K I J = congr n T K J I.
Proof. intros. unfold congr. now apply Ke_symmetric. Qed.
Theorem C02_congruence_psd : forall n T K, (forall z, 0 <= bil n K z z) -> forall x, 0 <= bil n (congr n T K) x x.
Proof. intros. rewrite C02_congruence_energy. auto. Qed.
Theorem C02_congruence_kernel : forall n T K r,
  (forall a, (a < n)%nat -> mv n K (apply n T r) a = 0) -> forall I, mv n (congr n T K) r I = 0.
Proof.
  intros n T K r H I. unfold congr.
  rewrite (mv_Ke_const_strain n K n [{| gw := 1; gB := T |}] r (apply n T r) I).
  - apply sumn_zero_ext. intros a Ha. rewrite (H a Ha). ring.
  - intros p [<-|[]] a Ha. reflexivity.
Qed.
(* non-vacuity: T = identity, K_loc = [[1,-1],[-1,1]], r = (1,1) *)
Example congruence_kernel_hyp_satisfiable :
  let K := fun a b : nat => if Nat.eqb a b then 1 else -1 in
  let T := fun a i : nat => if Nat.eqb a i then 1 else 0 in
  forall a, (a < 2)%nat -> mv 2 K (apply 2 T (fun _ => 1)) a = 0.
Proof. intros K T a Ha. destruct a as [|[|a]]; try lia; unfold mv, apply, K, T; simpl; ring. Qed.

Print Assumptions C02_beam_yaxis_orthogonal_to_fibre.
Print Assumptions C02_congruence_energy.
Print Assumptions C02_congruence_kernel.
