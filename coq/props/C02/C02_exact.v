(* C02_exact.v — the rank statements of C02_rank.v WITHOUT the unformalised "rank modulo p bounds the
   rational rank" step: for the element types listed in Gen_ExactPlan (tier dependent) the exact
   rational sample matrix G of the code's pipeline (EFLib.C02_RankCert.patch_rowsQ / nsample_rowsQ:
   translated tables, dumped double-precision Gauss points as exact dyadic rationals, rational node
   coordinates) satisfies: the certificate check computes to true, hence (full_check_sound,
   EFLib.C02_RankQ: integer descent modulo 2^31-1 + rational lift, fully proved)
     every RATIONAL dof vector annihilated by ALL sample rows and vanishing on the n_rigid pinned
     dofs is zero   (stiffness: the kernel has dimension <= n_rigid; it contains the rigid modes by
     C02_kernel.v, so restraining them makes the problem uniquely solvable);
     every rational vector annihilated by all N-sample rows is zero (mass positive definite).
   Vectors are rational; the extension of "trivial kernel" from Q^n to R^n for a rational matrix is
   standard linear algebra and is not formalised. *)
From Coq Require Import QArith List String Bool Arith Lia Ring_polynom.
From EFLib Require Import PolyQ ElemDefs QuadDefs ModRank C02_ModPipe C02_RankQ C02_RankCert.
From EFP Require Import Gen_Elems Gen_Gauss Gen_Patches C02_rank Gen_ExactPlan.
Import ListNotations.
Open Scope string_scope.

Definition mem (s : string) (l : list string) : bool := existsb (String.eqb s) l.
Lemma mem_in s l : In s l -> mem s l = true.
Proof. intro H. apply existsb_exists. exists s. split; [assumption | apply String.eqb_refl]. Qed.
Lemma mem_notin s l : ~ In s l -> mem s l = false.
Proof.
  intro H. destruct (mem s l) eqn:E; [|reflexivity]. exfalso. apply H.
  apply existsb_exists in E as [t [Ht Heq]]. apply String.eqb_eq in Heq. now subst.
Qed.

Definition chk_patch_exact (k : kind) (l : list (string * patch)) (e : elem) : bool :=
  match lookup (ename e) "rigi", find_patch l (ename e) with
  | Some r, Some pa =>
      match patch_rowsQ k e r pa with
      | Some G => full_check (patch_ndof k e pa) (n_rigid k (edim e)) G
      | None => false end
  | _, _ => false end.
Definition chk_mass_exact (e : elem) : bool :=
  match lookup (ename e) "mass" with
  | Some r => full_check (enPe e) 0 (nsample_rowsQ e r)
  | None => false end.

Definition exact_spec (k : kind) (l : list (string * patch)) (e : elem) : Prop :=
  exists r pa G, lookup (ename e) "rigi" = Some r /\ find_patch l (ename e) = Some pa /\
    patch_rowsQ k e r pa = Some G /\
    let n := patch_ndof k e pa in
    List.length (pinned_of n G) = n_rigid k (edim e) /\
    forall x : list Q, List.length x = n -> (forall rq, In rq G -> dotQ rq x == 0)%Q ->
      (forall s, In s (pinned_of n G) -> nth s x 0%Q == 0)%Q -> Forall (fun xk => xk == 0)%Q x.

Lemma chk_patch_exact_spec k l e : chk_patch_exact k l e = true -> exact_spec k l e.
Proof.
  unfold chk_patch_exact, exact_spec. intro H.
  destruct (lookup (ename e) "rigi") as [r|]; [|discriminate].
  destruct (find_patch l (ename e)) as [pa|]; [|discriminate].
  destruct (patch_rowsQ k e r pa) as [G|] eqn:EG; [|discriminate].
  exists r, pa, G. split; [reflexivity|]. split; [reflexivity|]. split; [exact EG|].
  exact (full_check_sound _ _ G H).
Qed.

(* NB: `if` (not `||`): the VM is call-by-value, a disjunction would evaluate the check for every type *)
(* planned = in the tier's list, applicable, and not in the (computed) deficient list of C02_rank *)
Definition planned (pl defi : list string) (k : kind) (e : elem) : bool :=
  mem (ename e) pl && applicable k e && negb (mem (ename e) defi).

Lemma exact_el2_checked : forallb (fun e => if planned exact_el2 deficient_el2 Elastic e then chk_patch_exact Elastic patches2 e else true) all_elems = true.
Proof. vm_cast_no_check (eq_refl true). Qed.
Lemma exact_elD_checked : forallb (fun e => if planned exact_elD deficient_elD Elastic e then chk_patch_exact Elastic patchesD e else true) all_elems = true.
Proof. vm_cast_no_check (eq_refl true). Qed.
Lemma exact_th2_checked : forallb (fun e => if planned exact_th2 deficient_th2 Thermal e then chk_patch_exact Thermal patches2 e else true) all_elems = true.
Proof. vm_cast_no_check (eq_refl true). Qed.
Lemma exact_thD_checked : forallb (fun e => if planned exact_thD deficient_thD Thermal e then chk_patch_exact Thermal patchesD e else true) all_elems = true.
Proof. vm_cast_no_check (eq_refl true). Qed.
Lemma exact_mass_checked : forallb (fun e => if mem (ename e) exact_mass && negb (mem (ename e) deficient_mass) then chk_mass_exact e else true) all_elems = true.
Proof. vm_cast_no_check (eq_refl true). Qed.

Lemma planned_exact k l pl defi :
  forallb (fun e => if planned pl defi k e then chk_patch_exact k l e else true) all_elems = true ->
  forall e, In e all_elems -> In (ename e) pl -> applicable k e = true -> ~ In (ename e) defi -> exact_spec k l e.
Proof.
  intros H e He Hpl Ha Hd. rewrite forallb_forall in H. specialize (H e He).
  unfold planned in H. rewrite (mem_in _ _ Hpl), Ha, (mem_notin _ _ Hd) in H. cbn [negb andb orb] in H.
  now apply chk_patch_exact_spec.
Qed.

Theorem C02_exact_two_element_patch_elastic : forall e, In e all_elems -> In (ename e) exact_el2 ->
  (2 <= edim e)%nat -> ~ In (ename e) deficient_el2 -> exact_spec Elastic patches2 e.
Proof.
  intros e He Hp Hd Hn.
  apply (planned_exact Elastic patches2 exact_el2 deficient_el2 exact_el2_checked e He Hp); [|exact Hn].
  unfold applicable. apply Nat.leb_le. exact Hd.
Qed.
Theorem C02_exact_two_element_patch_elastic_distorted : forall e, In e all_elems -> In (ename e) exact_elD ->
  (2 <= edim e)%nat -> ~ In (ename e) deficient_elD -> exact_spec Elastic patchesD e.
Proof.
  intros e He Hp Hd Hn.
  apply (planned_exact Elastic patchesD exact_elD deficient_elD exact_elD_checked e He Hp); [|exact Hn].
  unfold applicable. apply Nat.leb_le. exact Hd.
Qed.
Theorem C02_exact_two_element_patch_thermal : forall e, In e all_elems -> In (ename e) exact_th2 ->
  ~ In (ename e) deficient_th2 -> exact_spec Thermal patches2 e.
Proof. intros e He Hp Hn. exact (planned_exact Thermal patches2 exact_th2 deficient_th2 exact_th2_checked e He Hp eq_refl Hn). Qed.
Theorem C02_exact_two_element_patch_thermal_distorted : forall e, In e all_elems -> In (ename e) exact_thD ->
  ~ In (ename e) deficient_thD -> exact_spec Thermal patchesD e.
Proof. intros e He Hp Hn. exact (planned_exact Thermal patchesD exact_thD deficient_thD exact_thD_checked e He Hp eq_refl Hn). Qed.

(* mass: the exact N-sample matrix of the factory's mass rule has a trivial rational kernel *)
Theorem C02_exact_mass_rule_full_rank : forall e, In e all_elems -> In (ename e) exact_mass ->
  ~ In (ename e) deficient_mass ->
  exists r, lookup (ename e) "mass" = Some r /\
    forall x : list Q, List.length x = enPe e ->
      (forall rq, In rq (nsample_rowsQ e r) -> dotQ rq x == 0)%Q -> Forall (fun xk => xk == 0)%Q x.
Proof.
  intros e He Hp Hd. pose proof exact_mass_checked as H. rewrite forallb_forall in H. specialize (H e He).
  rewrite (mem_in _ _ Hp), (mem_notin _ _ Hd) in H. cbn [negb andb orb] in H. unfold chk_mass_exact in H.
  destruct (lookup (ename e) "mass") as [r|]; [|discriminate]. exists r. split; [reflexivity|].
  destruct (full_check_sound _ _ _ H) as [Hlen Hk]. intros x Hx HG. apply (Hk x Hx HG).
  destruct (pinned_of (enPe e) (nsample_rowsQ e r)); [intros s []|discriminate Hlen].
Qed.

(* non-vacuity: the plans are not empty of applicable, non-deficient types *)
Example exact_plan_nonvacuous :
  existsb (fun e => planned exact_el2 deficient_el2 Elastic e) all_elems = true /\
  existsb (fun e => planned exact_th2 deficient_th2 Thermal e) all_elems = true /\
  existsb (fun e => mem (ename e) exact_mass && negb (mem (ename e) deficient_mass)) all_elems = true.
Proof. split; [|split]; vm_compute; reflexivity. Qed.

Print Assumptions C02_exact_two_element_patch_elastic.
Print Assumptions C02_exact_two_element_patch_thermal.
Print Assumptions C02_exact_mass_rule_full_rank.
