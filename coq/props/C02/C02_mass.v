(* C02_mass.v — consistent mass / capacity matrix  M_e = rho sum_p w_p|J_p| N_p^T N_p  as the
   instance ns = 1, C = [rho], B_p(0, i) = N_i(xi_p) of the element-matrix algebra: entries sum to
   rho * sum_p w_p|J_p| for all node coordinates (partition of unity of the generated tables);
   symmetric; PSD; zero energy iff every N-sample vanishes.  (Vector fields: Get_N_pg_rep places the
   same N_i on each direction's dofs, so each direction carries one copy of this matrix.) *)
From Coq Require Import QArith Qreals Reals Ring_polynom List String Lia Lra Bool Arith.
From EFLib Require Import PolyQ ElemDefs C02_QuadForm C01_Iso.
From EFP Require Import Gen_Elems Gen_LinalgR C01_tables.
Import ListNotations.
Open Scope R_scope.

(* a mass quadrature point: (w_p |J_p|, reference coordinates l_p) *)
Definition mass_pt (e : elem) (wl : R * list R) : gp :=
  {| gw := fst wl; gB := fun (_ i : nat) => Nv_of e (snd wl) i |}.
Definition Me (e : elem) (rho : R) (pts : list (R * list R)) : nat -> nat -> R :=
  Ke 1 (fun _ _ => rho) (map (mass_pt e) pts).
Definition ones (_ : nat) : R := 1.

Theorem C02_mass_total : forall e, In e all_elems -> forall rho pts,
  bil (enPe e) (Me e rho pts) ones ones = rho * sumL pts fst.
Proof.
  intros e He rho pts. unfold Me.
  rewrite (Ke_energy_const_strain 1 (enPe e) (fun _ _ => rho) (map (mass_pt e) pts) ones ones).
  - rewrite sumL_map. rewrite (sumL_ext pts _ fst) by (intros; reflexivity).
    unfold bilC, bil, ones. simpl. ring.
  - intros p Hp a Ha. apply in_map_iff in Hp as [wl [<- _]]. unfold strain, mass_pt, ones. simpl.
    rewrite (sumn_ext (enPe e) _ (Nv_of e (snd wl))) by (intros; ring).
    apply lin_pou. now apply elem_lin.
Qed.

Theorem C02_mass_symmetric : forall e rho pts i j, Me e rho pts i j = Me e rho pts j i.
Proof. intros. unfold Me. apply Ke_symmetric. reflexivity. Qed.

Theorem C02_mass_psd : forall e rho pts, 0 <= rho -> (forall wl, In wl pts -> 0 <= fst wl) ->
  forall x, 0 <= bil (enPe e) (Me e rho pts) x x.
Proof.
  intros e rho pts Hr Hw x. unfold Me. apply Ke_psd.
  - intro s. unfold bilC, bil. simpl. nra.
  - intros p Hp. apply in_map_iff in Hp as [wl [<- Hin]]. simpl. now apply Hw.
Qed.

(* x'Mx = 0  <->  sum_i N_i(xi_p) x_i = 0 at every quadrature point: M is positive definite exactly
   when the N-sample matrix (rows = points, columns = nodes) has full column rank (C02_rank) *)
Theorem C02_mass_zero_energy_iff : forall e rho pts, 0 < rho -> (forall wl, In wl pts -> 0 < fst wl) ->
  forall x, (bil (enPe e) (Me e rho pts) x x = 0 <->
             forall wl, In wl pts -> sumn (enPe e) (fun i => Nv_of e (snd wl) i * x i) = 0).
Proof.
  intros e rho pts Hr Hw x. unfold Me.
  rewrite (Ke_zero_energy_iff 1 (enPe e) (fun _ _ => rho) (map (mass_pt e) pts) x).
  - split.
    + intros H wl Hin. exact (H (mass_pt e wl) (in_map (mass_pt e) pts wl Hin) 0%nat Nat.lt_0_1).
    + intros H p Hp a Ha. apply in_map_iff in Hp as [wl [<- Hin]]. exact (H wl Hin).
  - intro s. unfold bilC, bil. simpl. nra.
  - intros s Hs a Ha. assert (a = 0%nat) by lia. subst. unfold bilC, bil in Hs. simpl in Hs.
    assert (H2 : rho * (s 0%nat * s 0%nat) = 0) by (rewrite <- Hs; ring).
    apply Rmult_integral in H2 as [H2|H2]; [lra|]. apply Rsqr_0_uniq. exact H2.
  - intros p Hp. apply in_map_iff in Hp as [wl [<- Hin]]. simpl. now apply Hw.
Qed.

Example mass_hyp_satisfiable : exists pts : list (R * list R), pts <> [] /\ forall wl, In wl pts -> 0 < fst wl.
Proof. exists [(1, [0])]. split; [discriminate|]. intros wl [<-|[]]. simpl. lra. Qed.

Print Assumptions C02_mass_total.
Print Assumptions C02_mass_psd.
Print Assumptions C02_mass_zero_energy_iff.
