(* C04 -- inexact backends (residual transfer) and existence/uniqueness of the bordered system WITH multi-point
   conditions under a right-inverse rank condition (restated over R from EFModel.C04_Approx / C04_Saddle /
   C04_SaddleTie / C04_Rank) *)
From Coq Require Import ZArith List Bool Lia Reals RealField Lra.
From EFModel Require Import C03_Csr C04_Solve C04_Approx C04_Saddle C04_SaddleTie C04_Rank C04_Spd.
Import ListNotations.
Open Scope Z_scope.

Lemma Rmul_cancel3 : forall a u v : R, a <> 0%R -> (a * u = a * v)%R -> u = v.
Proof. intros a u v Ha E. now apply Rmult_eq_reg_l in E. Qed.

Notation Rfull := (full_residual R 0%R Rplus Rmult Rminus).
Notation Rred := (reduced_residual R 0%R Rplus Rmult Rminus).

(* T11: whatever vector xi a backend returned for the reduced system, the residual of the FULL assembled system on
   a free dof equals the residual of the reduced system at that row (and constrained dofs are exact, T2). *)
Theorem C04_residual_transfer :
  forall n dofs (values : list R) A b xi i,
  (forall d, In d dofs -> 0 <= d) -> In i (unknown n dofs) ->
  Rfull n dofs values A b xi i = Rred n dofs values A b xi i.
Proof. intros. now apply (r1_residual_transfer R 0%R 1%R Rplus Rmult Rminus Ropp RTheory). Qed.

(* iterative backends: a componentwise tolerance met on the reduced system is met on the free equations of the
   assembled system; the squared 2-norms of the two residuals coincide (scipy's criterion ||b - A x|| <= rtol ||b||) *)
Corollary C04_backend_tolerance :
  forall n dofs (values : list R) A b xi (tol : R),
  (forall d, In d dofs -> 0 <= d) ->
  (forall i, In i (unknown n dofs) -> (Rabs (Rred n dofs values A b xi i) <= tol)%R) ->
  (forall d, In d (known n dofs) -> x_r1 R 0%R Rplus n dofs values xi d = entered_sum R 0%R Rplus dofs values d) /\
  (forall i, In i (unknown n dofs) -> (Rabs (Rfull n dofs values A b xi i) <= tol)%R) /\
  sum_over R 0%R Rplus (unknown n dofs) (fun i => Rfull n dofs values A b xi i * Rfull n dofs values A b xi i)%R
  = sum_over R 0%R Rplus (unknown n dofs) (fun i => Rred n dofs values A b xi i * Rred n dofs values A b xi i)%R.
Proof.
  intros n dofs values A b xi tol Hd Htol. split; [|split].
  - intros d Hk. now apply r1_constraints.
  - intros i Hi. rewrite C04_residual_transfer by assumption. now apply Htol.
  - apply sum_over_ext. intros i Hi. now rewrite C04_residual_transfer.
Qed.

(* T12: multi-point conditions.  G = (Dirichlet lines; multi-point rows), h = (values), m = nD + nL.  If the rows have
   a right inverse (G Rm = I) and the constrained problem (constraints + residual orthogonal to ker G) has at most one
   solution, then every solution x of that problem extends to a bordered solution, and any two bordered solutions
   have the same x on range(n) and the same multiplier lists. *)
Theorem C04_bordered_mpc_exists :
  forall n (alpha : R) A b dofsD (valuesD : list R) (lags : list (lagc R)) (Rm : Z -> Z -> R) x,
  alpha <> 0%R -> 0 <= n -> length valuesD = length dofsD ->
  (forall d, In d dofsD -> 0 <= d < n) -> (forall c d, In c lags -> In d (l_dofs R c) -> 0 <= d < n) ->
  let m := Z.of_nat (length dofsD) + Z.of_nat (length lags) in
  let G := Gb R 0%R 1%R Rplus dofsD lags in let h := hb R 0%R dofsD valuesD lags in
  (forall k k', 0 <= k < m -> 0 <= k' < m ->
     sum_over R 0%R Rplus (zrange n) (fun i => G k i * Rm i k')%R = if k =? k' then 1%R else 0%R) ->
  reduced_sol R 0%R Rplus Rmult Rminus n m A b G h x ->
  exists lam mu, bordered_solution R 0%R Rplus Rmult n alpha A b dofsD valuesD lags x lam mu.
Proof.
  intros n alpha A b dofsD valuesD lags Rm x Ha Hn HL HD HLg m G h HG Hx.
  eapply (bordered_mpc_exists R 0%R 1%R Rplus Rmult Rminus Ropp RTheory) with (ainv := (/ alpha)%R) (Rm := Rm); eauto.
  now apply Rinv_r.
Qed.

Theorem C04_bordered_mpc_unique :
  forall n (alpha : R) A b dofsD (valuesD : list R) (lags : list (lagc R)) (Rm : Z -> Z -> R),
  alpha <> 0%R -> 0 <= n -> length valuesD = length dofsD ->
  (forall d, In d dofsD -> 0 <= d < n) -> (forall c d, In c lags -> In d (l_dofs R c) -> 0 <= d < n) ->
  let m := Z.of_nat (length dofsD) + Z.of_nat (length lags) in
  let G := Gb R 0%R 1%R Rplus dofsD lags in let h := hb R 0%R dofsD valuesD lags in
  (forall k k', 0 <= k < m -> 0 <= k' < m ->
     sum_over R 0%R Rplus (zrange n) (fun i => G k i * Rm i k')%R = if k =? k' then 1%R else 0%R) ->
  (forall x x', reduced_sol R 0%R Rplus Rmult Rminus n m A b G h x -> reduced_sol R 0%R Rplus Rmult Rminus n m A b G h x' ->
     forall i, 0 <= i < n -> x i = x' i) ->
  forall x lam mu x' lam' mu',
  bordered_solution R 0%R Rplus Rmult n alpha A b dofsD valuesD lags x lam mu ->
  bordered_solution R 0%R Rplus Rmult n alpha A b dofsD valuesD lags x' lam' mu' ->
  (forall i, 0 <= i < n -> x i = x' i) /\ lam = lam' /\ mu = mu'.
Proof.
  intros n alpha A b dofsD valuesD lags Rm Ha Hn HL HD HLg m G h HG Hu x lam mu x' lam' mu' H1 H2.
  eapply (bordered_mpc_unique R 0%R 1%R Rplus Rmult Rminus Ropp RTheory Rmul_cancel3) with (Rm := Rm); eauto.
Qed.

(* the rank condition as an executable integer check on the instance's rows (used per generated instance) *)
Theorem C04_rank_check_sound :
  forall n dofsD lags tr, rank_check n dofsD lags tr = true ->
  forall k k', 0 <= k < Z.of_nat (length dofsD) + Z.of_nat (length (map lagR lags)) ->
               0 <= k' < Z.of_nat (length dofsD) + Z.of_nat (length (map lagR lags)) ->
  sum_over R 0%R Rplus (zrange n) (fun i => (GbR dofsD lags k i * IZR (Rm_of tr i k'))%R) = if k =? k' then 1%R else 0%R.
Proof. exact rank_check_sound_R. Qed.

(* T13: change of units.  The elimination solve is homogeneous of degree 1 in (right-hand side, prescribed values): the
   reduced system for (s b, s values) at s xi has s times the residual (so s xi solves it iff xi solves the unscaled one,
   for s <> 0), and the returned vector is s times the unscaled one -- however small or large s is. *)
Theorem C04_r1_homogeneous :
  forall (s : R) n dofs (values : list R) A b xi,
  (forall i, Rred n dofs (map (fun v => s * v)%R values) A (fun j => s * b j)%R (fun j => s * xi j)%R i
             = (s * Rred n dofs values A b xi i)%R) /\
  (forall j, x_r1 R 0%R Rplus n dofs (map (fun v => s * v)%R values) (fun k => s * xi k)%R j
             = (s * x_r1 R 0%R Rplus n dofs values xi j)%R).
Proof.
  intros. split; intros.
  - apply (reduced_residual_homogeneous R 0%R 1%R Rplus Rmult Rminus Ropp RTheory).
  - apply (x_r1_homogeneous R 0%R 1%R Rplus Rmult Rminus Ropp RTheory).
Qed.
Print Assumptions C04_r1_homogeneous.

Print Assumptions C04_residual_transfer.
Print Assumptions C04_backend_tolerance.
Print Assumptions C04_bordered_mpc_exists.
Print Assumptions C04_bordered_mpc_unique.
Print Assumptions C04_rank_check_sound.

(* ---- non-vacuity ---------------------------------------------------- *)
(* the rows of a welded 2-d beam connection between nodes 1 and 2 (dofs 3,4,5 / 6,7,8, coefficients 1, -1) plus the
   three Dirichlet lines of a clamp at node 0: the integer right inverse found by the harness passes the check *)
Example C04_beam_connection_rank :
  rank_check 9 [0; 1; 2] [([3; 6], [1; -1], 0); ([4; 7], [1; -1], 0); ([5; 8], [1; -1], 0)]
             [((0, 0), 1); ((1, 1), 1); ((2, 2), 1); ((3, 3), 1); ((4, 4), 1); ((5, 5), 1)] = true.
Proof. vm_compute. reflexivity. Qed.

(* all hypotheses of T12 together: n = 2, A = 2 I, b = (1, 3), one connection row x0 - x1 = 0, no Dirichlet line *)
Definition cA (i j : Z) : R := if i =? j then 2%R else 0%R.
Definition cb (i : Z) : R := if i =? 0 then 1%R else 3%R.
Definition clags : list (lagc R) := [{| l_dofs := [0; 1]; l_coefs := [1%R; (-1)%R]; l_value := 0%R |}].
Definition cRm (i k : Z) : R := if i =? 0 then 1%R else 0%R.

Example C04_mpc_hyps_satisfiable :
  let G := Gb R 0%R 1%R Rplus [] clags in let h := hb R 0%R [] [] clags in
  (forall k k', 0 <= k < 1 -> 0 <= k' < 1 ->
     sum_over R 0%R Rplus (zrange 2) (fun i => G k i * cRm i k')%R = if k =? k' then 1%R else 0%R) /\
  reduced_sol R 0%R Rplus Rmult Rminus 2 1 cA cb G h (fun _ => 1%R) /\
  (forall x x', reduced_sol R 0%R Rplus Rmult Rminus 2 1 cA cb G h x -> reduced_sol R 0%R Rplus Rmult Rminus 2 1 cA cb G h x' ->
     forall i, 0 <= i < 2 -> x i = x' i).
Proof.
  assert (HG : forall (w : Z -> R), sum_over R 0%R Rplus (zrange 2) (fun i => Gb R 0%R 1%R Rplus [] clags 0%Z i * w i)%R = (w 0%Z - w 1%Z)%R).
  { intros w. unfold sum_over, Gb, coef_of, entered_sum, clags. simpl. lra. }
  assert (Hres : forall (w x : Z -> R),
            sum_over R 0%R Rplus (zrange 2) (fun i => w i * (sum_over R 0%R Rplus (zrange 2) (fun j => cA i j * x j) - cb i))%R
            = (w 0%Z * (2 * x 0%Z - 1) + w 1%Z * (2 * x 1%Z - 3))%R).
  { intros w x. unfold sum_over, cA, cb. simpl. lra. }
  assert (Hsol : forall x, reduced_sol R 0%R Rplus Rmult Rminus 2 1 cA cb (Gb R 0%R 1%R Rplus [] clags) (hb R 0%R [] [] clags) x ->
                 x 0%Z = 1%R /\ x 1%Z = 1%R).
  { intros x [Hc Hw]. specialize (Hc 0 ltac:(lia)). rewrite HG in Hc. unfold hb, clags in Hc. simpl in Hc.
    specialize (Hw (fun _ => 1%R)). rewrite Hres in Hw.
    assert (kerG R 0%R Rplus Rmult 2 1 (Gb R 0%R 1%R Rplus [] clags) (fun _ => 1%R)).
    { intros k Hk. assert (k = 0) by lia. subst. rewrite HG. lra. }
    specialize (Hw H). lra. }
  split; [|split].
  - intros k k' Hk Hk'. assert (k = 0) by lia. assert (k' = 0) by lia. subst. rewrite HG. unfold cRm. simpl. lra.
  - split.
    + intros k Hk. assert (k = 0) by lia. subst. rewrite HG. unfold hb, clags. simpl. lra.
    + intros w Hw. rewrite Hres. specialize (Hw 0 ltac:(lia)). rewrite HG in Hw. lra.
  - intros x x' Hx Hx' i Hi. destruct (Hsol x Hx) as [E0 E1]. destruct (Hsol x' Hx') as [E0' E1'].
    assert (i = 0 \/ i = 1) as [->| ->] by lia; congruence.
Qed.

(* T14: the last hypothesis of T12 discharged for definite operators.  If A is positive definite on the constraint
   kernel -- w^T A w = 0 only for w = 0 among the vectors with G w = 0, e.g. an elastic stiffness (symmetric positive
   semidefinite with exactly the rigid-body kernel: property C02) whose rigid modes are removed by the constraints, or a
   conductivity matrix with one prescribed temperature -- the constrained problem has at most one solution, hence
   (T12) the bordered system has exactly one solution.  C02's results are cited, not imported. *)
Theorem C04_constrained_problem_unique_if_definite :
  forall n m A b G h, pos_def_on_ker n m A G ->
  forall x x', reduced_sol R 0%R Rplus Rmult Rminus n m A b G h x -> reduced_sol R 0%R Rplus Rmult Rminus n m A b G h x' ->
  forall i, 0 <= i < n -> x i = x' i.
Proof. exact reduced_unique_from_pos_def. Qed.

(* the usual formulation implies the one used above *)
Lemma C04_strictly_positive_is_definite :
  forall n m A G,
  (forall w, kerG R 0%R Rplus Rmult n m G w -> (exists i, 0 <= i < n /\ w i <> 0%R) -> (0 < quad n A w)%R) ->
  pos_def_on_ker n m A G.
Proof.
  intros n m A G H w Hk Hq i Hi. destruct (Req_dec (w i) 0%R) as [E|E]; [assumption|].
  exfalso. specialize (H w Hk (ex_intro _ i (conj Hi E))). lra.
Qed.

Theorem C04_bordered_mpc_unique_definite :
  forall n (alpha : R) A b dofsD (valuesD : list R) (lags : list (lagc R)) (Rm : Z -> Z -> R),
  alpha <> 0%R -> 0 <= n -> length valuesD = length dofsD ->
  (forall d, In d dofsD -> 0 <= d < n) -> (forall c d, In c lags -> In d (l_dofs R c) -> 0 <= d < n) ->
  let m := Z.of_nat (length dofsD) + Z.of_nat (length lags) in
  let G := Gb R 0%R 1%R Rplus dofsD lags in
  (forall k k', 0 <= k < m -> 0 <= k' < m ->
     sum_over R 0%R Rplus (zrange n) (fun i => G k i * Rm i k')%R = if k =? k' then 1%R else 0%R) ->
  pos_def_on_ker n m A G ->
  forall x lam mu x' lam' mu',
  bordered_solution R 0%R Rplus Rmult n alpha A b dofsD valuesD lags x lam mu ->
  bordered_solution R 0%R Rplus Rmult n alpha A b dofsD valuesD lags x' lam' mu' ->
  (forall i, 0 <= i < n -> x i = x' i) /\ lam = lam' /\ mu = mu'.
Proof.
  intros n alpha A b dofsD valuesD lags Rm Ha Hn HL HD HLg m G HG Hpd.
  apply (C04_bordered_mpc_unique n alpha A b dofsD valuesD lags Rm Ha Hn HL HD HLg HG).
  now apply reduced_unique_from_pos_def.
Qed.
Print Assumptions C04_constrained_problem_unique_if_definite.
Print Assumptions C04_bordered_mpc_unique_definite.

(* non-vacuity: A = 2 I is positive definite on every kernel *)
Example C04_definite_example : forall m G, pos_def_on_ker 2 m cA G.
Proof.
  intros m G w _ Hq i Hi. unfold quad, sum_over, cA in Hq. simpl in Hq.
  assert (i = 0 \/ i = 1) as [->| ->] by lia; nra.
Qed.
