(* C04 -- constraints hold exactly and the returned solution solves the stated system.
   Property theorems over the real numbers (matrices/vectors as functions of dof indices, finite sums
   over index lists), restated from the ring-generic development EFModel.C04_Solve; the same lemmas
   are instantiated at Z for the executable correspondence (EFModel.C04_Exec). *)
From Coq Require Import ZArith List Bool Lia Reals RealField Lra.
From EFModel Require Import C03_Csr C04_Solve C04_Exec.
Import ListNotations.
Open Scope Z_scope.

Notation Rsum_over := (sum_over R 0%R Rplus).
Notation Rentered := (entered_sum R 0%R Rplus).
Notation Rx_r1 := (x_r1 R 0%R Rplus).

Lemma Rmul_cancel : forall a u v : R, a <> 0%R -> (a * u = a * v)%R -> u = v.
Proof. intros a u v Ha E. now apply Rmult_eq_reg_l in E. Qed.

(* T1: Bc_dofs_known_unknown is a partition of range(n), for ANY Dirichlet dof list *)
Theorem C04_split_partition :
  forall n dofs, (forall d, In d dofs -> 0 <= d) ->
  (forall i, 0 <= i < n -> (In i (known n dofs) /\ ~ In i (unknown n dofs)) \/
                           (~ In i (known n dofs) /\ In i (unknown n dofs))) /\
  (forall i, In i (known n dofs) \/ In i (unknown n dofs) -> 0 <= i < n) /\
  ssorted (known n dofs) /\ ssorted (unknown n dofs) /\
  (length (known n dofs) + length (unknown n dofs) = Z.to_nat n)%nat.
Proof. exact split_partition. Qed.

Theorem C04_known_are_the_entered_dofs :
  forall n dofs i, (forall d, In d dofs -> 0 <= d) -> (In i (known n dofs) <-> 0 <= i < n /\ In i dofs).
Proof. intros. now apply known_spec. Qed.

(* T2: constrained dofs hold exactly the SUM of the values entered for them (documented convention) *)
Theorem C04_r1_constraints :
  forall n dofs (values : list R) (xi : Z -> R) d,
  In d (known n dofs) -> Rx_r1 n dofs values xi d = Rentered dofs values d.
Proof. intros. now apply r1_constraints. Qed.

(* T3: whatever backend produced xi, if it solves the reduced system exactly then every free-dof
   equation of the full assembled system holds exactly *)
Theorem C04_r1_residual :
  forall n dofs (values : list R) (A : Z -> Z -> R) (b xi : Z -> R),
  (forall d, In d dofs -> 0 <= d) ->
  (forall i, In i (unknown n dofs) ->
     Rsum_over (unknown n dofs) (fun j => A i j * xi j)%R
     = (b i - Rsum_over (known n dofs) (fun c => A i c * Rentered dofs values c))%R) ->
  forall i, In i (unknown n dofs) ->
    Rsum_over (zrange n) (fun j => A i j * Rx_r1 n dofs values xi j)%R = b i.
Proof. intros. now apply (r1_residual R 0%R 1%R Rplus Rmult Rminus Ropp RTheory n dofs values A b xi). Qed.

(* T4: orphan nodes. A + diag(1 on orphan dofs) x = b  <=>  the non-orphan block solves its own
   equations (unchanged) and every orphan dof equals its right-hand side: the modified system is
   uniquely solvable iff the non-orphan block is, and the non-orphan solution is not perturbed *)
Theorem C04_orphan_regular :
  forall n (orph : Z -> bool) (A : Z -> Z -> R) (b x : Z -> R),
  0 <= n ->
  (forall i j, orph i = true \/ orph j = true -> A i j = 0%R) ->
  ((forall i, 0 <= i < n ->
      Rsum_over (zrange n) (fun j => add_orphan_diag R 0%R 1%R Rplus orph A i j * x j)%R = b i)
   <->
   ((forall i, 0 <= i < n -> orph i = false ->
       Rsum_over (filter (fun j => negb (orph j)) (zrange n)) (fun j => A i j * x j)%R = b i) /\
    (forall o, 0 <= o < n -> orph o = true -> x o = b o))).
Proof. intros. now apply (orphan_regular R 0%R 1%R Rplus Rmult Rminus Ropp RTheory). Qed.

(* T5: ANY solution (x, lam, mu) of the Lagrange bordered system with alpha <> 0 satisfies every
   Dirichlet entry and every multi-point constraint exactly, the assembled equation of every dof that
   carries no constraint, and -- tested against any vector of the constraint kernel -- the reduced
   equations (so x is the r1 solution whenever that one is unique) *)
Theorem C04_lagrange_equiv :
  forall n (alpha : R) A b dofsD (valuesD : list R) (lags : list (lagc R)) x lam mu,
  alpha <> 0%R ->
  bordered_solution R 0%R Rplus Rmult n alpha A b dofsD valuesD lags x lam mu ->
  (forall d v, In (d, v) (combine dofsD valuesD) -> x d = v) /\
  (forall c, In c lags -> lag_lhs R 0%R Rplus Rmult c x = l_value R c) /\
  (forall i, 0 <= i < n -> ~ In i dofsD -> (forall c, In c lags -> ~ In i (l_dofs R c)) ->
     Rsum_over (zrange n) (fun j => A i j * x j)%R = b i).
Proof. intros. now apply (lagrange_equiv R 0%R 1%R Rplus Rmult Rminus Ropp RTheory Rmul_cancel n alpha A b dofsD valuesD lags x lam mu). Qed.

Theorem C04_lagrange_reduced_equations :
  forall n (alpha : R) A b dofsD (valuesD : list R) (lags : list (lagc R)) x lam mu (w : Z -> R),
  bordered_solution R 0%R Rplus Rmult n alpha A b dofsD valuesD lags x lam mu ->
  (forall d, In d dofsD -> 0 <= d < n) ->
  (forall c d, In c lags -> In d (l_dofs R c) -> 0 <= d < n) ->
  (forall d, In d dofsD -> w d = 0%R) ->
  (forall c, In c lags -> lag_lhs R 0%R Rplus Rmult c w = 0%R) ->
  Rsum_over (zrange n) (fun i => w i * (Rsum_over (zrange n) (fun j => A i j * x j) - b i))%R = 0%R.
Proof. intros. now apply (lagrange_reduced_equations R 0%R 1%R Rplus Rmult Rminus Ropp RTheory n alpha A b dofsD valuesD lags x lam mu w). Qed.

(* T5': the defect side. If the SAME dof is listed twice among the Dirichlet entries, the bordered matrix
   built entry-by-entry (one line per entry, as Solvers.__Solver_2 does on the unchanged tree) is
   singular: (x, lam, mu) = (0, e_k - e_k', 0) solves the homogeneous system. *)
Theorem C04_lagrange_duplicate_singular :
  forall n (alpha : R) A dofsD (lags : list (lagc R)) k k',
  (k < k')%nat -> (k' < length dofsD)%nat -> nth k dofsD 0 = nth k' dofsD 0 ->
  bordered_solution R 0%R Rplus Rmult n alpha A (fun _ => 0%R) dofsD (map (fun _ => 0%R) dofsD)
                    (map (fun c => {| l_dofs := l_dofs R c; l_coefs := l_coefs R c; l_value := 0%R |}) lags)
                    (fun _ => 0%R) (lam_dup R 0%R 1%R Ropp (length dofsD) k k') (map (fun _ => 0%R) lags).
Proof. intros. now apply (lagrange_duplicate_singular R 0%R 1%R Rplus Rmult Rminus Ropp RTheory). Qed.

(* T6: Newton. With increments (summed prescribed value) - u on the constrained dofs, u + delta_u holds
   the constraints after the first iteration and keeps them for ANY number of iterations, for any
   initial guess and any free-dof updates *)
Theorem C04_newton_increment :
  forall dofs (values : list R) free kn u0 k d,
  kn d = true ->
  newton_iter R Rplus (incr_spec R 0%R Rplus Rminus dofs values) free kn (S k) u0 d = Rentered dofs values d.
Proof. intros. now apply (newton_increment R 0%R 1%R Rplus Rmult Rminus Ropp RTheory). Qed.

(* the entry-by-entry subtraction of the unchanged tree equals that increment iff no dof is listed twice *)
Theorem C04_incr_code_is_spec_without_duplicates :
  forall dofs (values : list R) u d,
  length values = length dofs -> NoDup dofs -> In d dofs ->
  incr_code R 0%R Rplus Rminus dofs values u d = incr_spec R 0%R Rplus Rminus dofs values u d.
Proof. intros. now apply (incr_code_is_spec_without_duplicates R 0%R 1%R Rplus Rmult Rminus Ropp RTheory). Qed.

(* renumbering (with C03): if the system and the data are permuted by an injective relabelling s of the
   dofs, a vector solves the permuted system iff its pull-back solves the original one *)
Theorem C04_renumber_solution :
  forall (l : list Z) (s : Z -> Z) (A A' : Z -> Z -> R) (b b' x x' : Z -> R),
  (forall i j, In i l -> In j l -> A' (s i) (s j) = A i j) ->
  (forall i, In i l -> b' (s i) = b i) -> (forall i, In i l -> x' (s i) = x i) ->
  forall i, In i l ->
  (Rsum_over (map s l) (fun j' => A' (s i) j' * x' j')%R = b' (s i)
   <-> Rsum_over l (fun j => A i j * x j)%R = b i).
Proof.
  intros l s A A' b b' x x' HA Hb Hx i Hi.
  assert (E : Rsum_over (map s l) (fun j' => A' (s i) j' * x' j')%R = Rsum_over l (fun j => A i j * x j)%R).
  { unfold sum_over. rewrite map_map. f_equal. apply map_ext_in. intros j Hj. now rewrite HA, Hx. }
  rewrite E, Hb by assumption. tauto.
Qed.

Print Assumptions C04_split_partition.
Print Assumptions C04_r1_constraints.
Print Assumptions C04_r1_residual.
Print Assumptions C04_orphan_regular.
Print Assumptions C04_lagrange_equiv.
Print Assumptions C04_lagrange_reduced_equations.
Print Assumptions C04_lagrange_duplicate_singular.
Print Assumptions C04_newton_increment.
Print Assumptions C04_renumber_solution.

(* ---- non-vacuity --------------------------------------------------- *)
(* 3-dof chain K = [[2,-1,0],[-1,2,-1],[0,-1,2]], dof 0 entered twice (1/4 + 1/4), b = 0:
   the exact inner solve is x1 = 1/3, x2 = 1/6 *)
Definition exA (i j : Z) : R :=
  if i =? j then 2%R else if (i - j =? 1) || (j - i =? 1) then (-1)%R else 0%R.
Definition exxi (j : Z) : R := if j =? 1 then (1/3)%R else if j =? 2 then (1/6)%R else 0%R.

Definition exdofs : list Z := [0; 0].
Definition exvals : list R := [(1/4)%R; (1/4)%R].

Example C04_r1_hyps_satisfiable :
  (forall d, In d exdofs -> 0 <= d) /\
  known 3 exdofs = [0] /\ unknown 3 exdofs = [1; 2] /\
  (forall i, In i (unknown 3 exdofs) ->
     Rsum_over (unknown 3 exdofs) (fun j => exA i j * exxi j)%R
     = (0 - Rsum_over (known 3 exdofs) (fun c => exA i c * Rentered exdofs exvals c))%R).
Proof.
  split; [intros d [<-|[<-|[]]]; lia|]. split; [reflexivity|]. split; [reflexivity|].
  intros i [<-|[<-|[]]]; unfold sum_over, entered_sum, exA, exxi; simpl; lra.
Qed.

(* a bordered system that does have a solution: n = 1, A = [2], b = 0, x0 = 3 enforced with alpha = 2 *)
Example C04_bordered_solution_exists :
  bordered_solution R 0%R Rplus Rmult 1 2%R (fun _ _ => 2%R) (fun _ => 0%R) [0] [3%R] []
                    (fun _ => 3%R) [(-3)%R] [].
Proof.
  unfold bordered_solution. repeat split; try reflexivity.
  - intros i Hi. assert (i = 0) by lia. subst. unfold sum_over, entered_sum. simpl. lra.
  - intros d v [E|[]]. inversion E; subst. reflexivity.
  - intros c [].
Qed.

(* the code's entry-by-entry increment on a dof listed twice: after a correct first iteration the second
   iteration moves the dof AWAY from the prescribed value (0 instead of 1/2) *)
Example C04_newton_duplicates_break :
  let it := newton_iter R Rplus (incr_code R 0%R Rplus Rminus exdofs exvals) (fun _ _ => 0%R) (fun _ => true) in
  it 1%nat (fun _ => 0%R) 0 = (1/2)%R /\ it 2%nat (fun _ => 0%R) 0 = 0%R.
Proof. simpl. unfold newton_step, incr_code, entered_sum. simpl. split; lra. Qed.

(* executable instance: the model evaluates (Z) *)
Example C04_exec_example :
  r1_exec 3 [[2;-1;0];[-1;2;-1];[0;-1;2]] [0;0;5] [2] [1] [0;0] [1;1] [] false [] [7;9]
  = ([[2;-1];[-1;2]], [2;6], [2;7;9]).
Proof. vm_compute. reflexivity. Qed.
