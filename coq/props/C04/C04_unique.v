(* C04 -- existence/uniqueness of the bordered (Lagrange) solution for Dirichlet constraints and its identity
   with the elimination solution; multi-solve histories (restated over R from EFModel.C04_Unique / C04_History) *)
From Coq Require Import ZArith List Bool Lia Reals RealField Lra.
From EFModel Require Import C03_Csr C04_Solve C04_Unique C04_History.
Import ListNotations.
Open Scope Z_scope.

Lemma Rmul_cancel2 : forall a u v : R, a <> 0%R -> (a * u = a * v)%R -> u = v.
Proof. intros a u v Ha E. now apply Rmult_eq_reg_l in E. Qed.

Notation Rreduced := (reduced_solution R 0%R Rplus Rmult Rminus).
Notation Rbordered := (bordered_solution R 0%R Rplus Rmult).

(* T7: Dirichlet constraints, one line per constrained dof (no dof listed twice), alpha <> 0.  If the reduced
   system has a solution xi and at most one, the bordered system has a solution, every solution has the same
   x (on range n), lam and mu, and that x is the vector the elimination solver returns. *)
Theorem C04_bordered_exists_unique :
  forall n (alpha : R) A b dofsD (valuesD : list R),
  alpha <> 0%R -> NoDup dofsD -> length valuesD = length dofsD -> (forall d, In d dofsD -> 0 <= d < n) ->
  (forall xi xi', Rreduced n A b dofsD valuesD xi -> Rreduced n A b dofsD valuesD xi' ->
     forall j, In j (unknown n dofsD) -> xi j = xi' j) ->
  forall xi, Rreduced n A b dofsD valuesD xi ->
  (exists x lam, Rbordered n alpha A b dofsD valuesD [] x lam []) /\
  (forall x lam mu, Rbordered n alpha A b dofsD valuesD [] x lam mu ->
     forall j, 0 <= j < n -> x j = x_r1 R 0%R Rplus n dofsD valuesD xi j).
Proof.
  intros n alpha A b dofsD valuesD Ha. intros.
  apply (bordered_exists_unique R 0%R 1%R Rplus Rmult Rminus Ropp RTheory Rmul_cancel2 n alpha (/ alpha)%R); auto.
  now apply Rinv_r.
Qed.

Theorem C04_bordered_unique :
  forall n (alpha : R) A b dofsD (valuesD : list R),
  alpha <> 0%R -> NoDup dofsD -> length valuesD = length dofsD -> (forall d, In d dofsD -> 0 <= d < n) ->
  (forall xi xi', Rreduced n A b dofsD valuesD xi -> Rreduced n A b dofsD valuesD xi' ->
     forall j, In j (unknown n dofsD) -> xi j = xi' j) ->
  forall x lam mu x' lam' mu',
  Rbordered n alpha A b dofsD valuesD [] x lam mu -> Rbordered n alpha A b dofsD valuesD [] x' lam' mu' ->
  (forall j, 0 <= j < n -> x j = x' j) /\ lam = lam' /\ mu = mu'.
Proof.
  intros n alpha A b dofsD valuesD Ha. intros.
  apply (bordered_unique R 0%R 1%R Rplus Rmult Rminus Ropp RTheory Rmul_cancel2 n alpha Ha A b dofsD valuesD); auto.
Qed.

(* T8: ANY entry list (duplicated, unordered).  The collapsed bordered system that the fixed __Solver_2 builds
   (distinct dofs, summed values) is uniquely solvable and its x part is the r1 solution of the ORIGINAL entry
   list: elimination and Lagrange multipliers return the same solution, duplicates counting as their sum. *)
Theorem C04_lagrange_collapsed_equals_r1 :
  forall n (alpha : R) A b dofs (values : list R) xi,
  alpha <> 0%R -> (forall d, In d dofs -> 0 <= d < n) ->
  let ud := usort dofs in
  let uv := map (entered_sum R 0%R Rplus dofs values) ud in
  Rreduced n A b dofs values xi ->
  (forall xa xb, Rreduced n A b dofs values xa -> Rreduced n A b dofs values xb ->
     forall j, In j (unknown n dofs) -> xa j = xb j) ->
  (exists x lam, Rbordered n alpha A b ud uv [] x lam []) /\
  (forall x lam mu, Rbordered n alpha A b ud uv [] x lam mu ->
     forall j, 0 <= j < n -> x j = x_r1 R 0%R Rplus n dofs values xi j).
Proof.
  intros n alpha A b dofs values xi Ha Hr.
  apply (lagrange_collapsed_equals_r1 R 0%R 1%R Rplus Rmult Rminus Ropp RTheory Rmul_cancel2 n alpha (/ alpha)%R); auto.
  now apply Rinv_r.
Qed.

(* T9: histories.  For ANY sequence of Bc_Init / add_dirichlet / solve ops, a solve uses the known/unknown split
   of the CURRENT condition list, for every implementation that memoises the split under a key that determines
   it -- in particular the code (no memo: the key is the list itself); a (#conditions, #entries) key is refuted. *)
Theorem C04_solve_uses_current_split :
  forall (K : Type) (mkey : conds -> K) (K_eqb : K -> K -> bool),
  (forall a b, K_eqb a b = true <-> a = b) ->
  forall n ops, key_determines_split K mkey n ->
  let s := brun K mkey K_eqb n {| s_conds := []; s_memo := [] |} ops in
  fst (bstep K mkey K_eqb n s BSolve) = Some (split_of n (s_conds K s)) /\
  s_conds K s = conds_after [] ops.
Proof.
  intros K mkey K_eqb Hspec n ops Hdet s. split.
  - now apply solve_uses_current_split.
  - unfold s. now rewrite brun_conds.
Qed.

Theorem C04_code_key_determines_split : forall n, key_determines_split conds (fun c => c) n.
Proof. exact identity_key_determines_split. Qed.

Theorem C04_dof_set_determines_split :
  forall n c1 c2,
  (forall d, In d (all_dofs c1) -> 0 <= d) -> (forall d, In d (all_dofs c2) -> 0 <= d) ->
  (forall d, In d (all_dofs c1) <-> In d (all_dofs c2)) -> split_of n c1 = split_of n c2.
Proof. exact dof_set_determines_split. Qed.

Theorem C04_count_key_refuted :
  let ops := [BAdd [0; 1]; BSolve; BInit; BAdd [2; 3]] in
  let s := brun (Z * Z) count_key zz_eqb 4 {| s_conds := []; s_memo := [] |} ops in
  s_conds _ s = [[2; 3]] /\
  fst (bstep (Z * Z) count_key zz_eqb 4 s BSolve) = Some ([0; 1], [2; 3]) /\
  split_of 4 (s_conds _ s) = ([2; 3], [0; 1]).
Proof. exact count_key_refuted. Qed.

Print Assumptions C04_bordered_exists_unique.
Print Assumptions C04_lagrange_collapsed_equals_r1.
Print Assumptions C04_solve_uses_current_split.
Print Assumptions C04_count_key_refuted.

(* non-vacuity of T7/T8: 2-dof system A = [[2,-1],[-1,2]], dof 0 entered twice (1/4 + 1/4), b = 0:
   the reduced system 2 x1 = 1/2 has the unique solution x1 = 1/4 *)
Definition uA (i j : Z) : R := if i =? j then 2%R else (-1)%R.
Definition udofs : list Z := [0; 0].
Definition uvals : list R := [(1/4)%R; (1/4)%R].

Example C04_unique_hyps_satisfiable :
  (forall d, In d udofs -> 0 <= d < 2) /\
  Rreduced 2 uA (fun _ => 0%R) udofs uvals (fun _ => (1/4)%R) /\
  (forall xa xb, Rreduced 2 uA (fun _ => 0%R) udofs uvals xa -> Rreduced 2 uA (fun _ => 0%R) udofs uvals xb ->
     forall j, In j (unknown 2 udofs) -> xa j = xb j).
Proof.
  assert (Ek : known 2 udofs = [0]) by reflexivity.
  assert (Eu : unknown 2 udofs = [1]) by reflexivity.
  unfold reduced_solution. rewrite Ek, Eu.
  split; [intros d [<-|[<-|[]]]; lia|]. split.
  - intros i [<-|[]]. unfold sum_over, entered_sum, uA, udofs, uvals. simpl. lra.
  - intros xa xb Ha Hb j [<-|[]].
    specialize (Ha 1 (or_introl eq_refl)). specialize (Hb 1 (or_introl eq_refl)).
    unfold sum_over, entered_sum, uA, udofs, uvals in Ha, Hb. simpl in Ha, Hb. lra.
Qed.
