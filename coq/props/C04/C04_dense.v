(* C04 -- the executable dense bordered system (compared exactly with the matrix and right-hand side the real
   Solvers.__Solver_2 hands to the linear backend) denotes the bordered row equations of C04_lagrange_equiv *)
From Coq Require Import ZArith List Bool Lia.
From EFModel Require Import C03_Csr C04_Solve C04_Exec C04_Dense.
Import ListNotations.
Open Scope Z_scope.

(* T10: any y with  M y = rhs  for the lists (M, rhs) returned by C04_Exec.r2_exec is a bordered solution
   (x, lam, mu) = (y[:n], y[n:n+nD], y[n+nD:]) of the row equations, for all sizes, BC lists and conditions *)
Theorem C04_exec_dense_system_denotes_bordered_equations :
  forall n A F dofsN valsN dofsD valsD orph lags (y : Z -> Z),
  let ud := usort dofsD in
  let N := n + Z.of_nat (length ud) + Z.of_nat (length lags) in
  let out := r2_exec n A F dofsN valsN dofsD valsD orph lags in
  0 <= n -> (forall d, In d dofsD -> 0 <= d < n) ->
  (forall c d, In c lags -> In d (lag_dofs c) -> 0 <= d < n) ->
  (forall i, 0 <= i < N ->
     sum_over Z 0 Z.add (zrange N) (fun j => getM (fst (fst out)) i j * y j) = getV (snd (fst out)) i) ->
  bordered_solution Z 0 Z.add Z.mul n (snd out) (sysA A orph) (sysb F dofsN valsN) ud
                    (map (esum dofsD valsD) ud) (map to_lagc lags) y
                    (map (fun k => y (n + k)) (zrange (Z.of_nat (length ud))))
                    (map (fun l => y (n + Z.of_nat (length ud) + l)) (zrange (Z.of_nat (length lags)))).
Proof. intros. now apply r2_exec_solution_is_bordered_solution. Qed.

Lemma in_combine_map_self {A B} (g : A -> B) (l : list A) d : In d l -> In (d, g d) (combine l (map g l)).
Proof. induction l as [|a t IH]; simpl; intros H; [contradiction|]. destruct H as [->|H]; [now left|right; now apply IH]. Qed.

Lemma Zmul_cancel : forall a u v : Z, a <> 0 -> a * u = a * v -> u = v.
Proof. intros a u v Ha E. now apply Z.mul_reg_l in E. Qed.

(* ... hence (with lagrange_equiv at Z) such a y satisfies every Dirichlet line with the SUMMED entered value and
   every multi-point condition exactly, whenever alpha <> 0 *)
Corollary C04_exec_dense_solution_satisfies_constraints :
  forall n A F dofsN valsN dofsD valsD orph lags (y : Z -> Z),
  let ud := usort dofsD in
  let N := n + Z.of_nat (length ud) + Z.of_nat (length lags) in
  let out := r2_exec n A F dofsN valsN dofsD valsD orph lags in
  snd out <> 0 -> 0 <= n -> (forall d, In d dofsD -> 0 <= d < n) ->
  (forall c d, In c lags -> In d (lag_dofs c) -> 0 <= d < n) ->
  (forall i, 0 <= i < N ->
     sum_over Z 0 Z.add (zrange N) (fun j => getM (fst (fst out)) i j * y j) = getV (snd (fst out)) i) ->
  (forall d, In d dofsD -> y d = esum dofsD valsD d) /\
  (forall c, In c lags -> lag_lhs Z 0 Z.add Z.mul (to_lagc c) y = lag_val c).
Proof.
  intros n A F dofsN valsN dofsD valsD orph lags y ud N out Ha Hn Hd Hl Hsol.
  pose proof (r2_exec_solution_is_bordered_solution n A F dofsN valsN dofsD valsD orph lags y Hn Hd Hl Hsol) as Hb.
  destruct (lagrange_equiv Z 0 1 Z.add Z.mul Z.sub Z.opp Zth Zmul_cancel _ _ _ _ _ _ _ _ _ _ Ha Hb) as (HD & HL & _).
  split.
  - intros d Hin. apply HD.
    assert (Hu : In d (usort dofsD)) by (now apply usort_In).
    apply in_combine_map_self. exact Hu.
  - intros c Hc. apply (HL (to_lagc c)). now apply in_map.
Qed.

Print Assumptions C04_exec_dense_system_denotes_bordered_equations.
Print Assumptions C04_exec_dense_solution_satisfies_constraints.

(* non-vacuity: the 3-dof chain with dof 0 entered three times and one multi-point condition; y solves the system *)
Example C04_dense_example :
  let out := r2_exec 3 [[2;-1;0];[-1;2;-1];[0;-1;2]] [0;0;0] [] [] [0;0] [1;1] [] [] in
  out = ([[2;-1;0;2];[-1;2;-1;0];[0;-1;2;0];[2;0;0;0]], [0;0;0;4], 2).
Proof. vm_compute. reflexivity. Qed.
