(* C13 -- corollary: a weak-form heat-conduction simulation builds, entry by entry, the same
   global conductivity and capacity matrices as the dedicated Thermal simulation, for every mesh
   (any list of elements, any dof maps, any shape-function values / gradients / weights).

     Thermal   : K_e = tT * GradUGradV(groupElem, k),  C_e = tT * UV(groupElem, rho*c, dof_n=1)
     WeakForms : K_e = tW * Integrate_e(k * grad(u).grad(v)),  C_e = tW * Integrate_e(rho*c * u.v)
     both assembled by the same scatter-add (property C03; here EFLib.C02_QuadForm.assemble)

   The thickness factors are those of the two sources (Gen_Builtins.v); they agree on plane
   2-D meshes and on 3-D meshes.  Identical matrices (and, by form_v = V, identical source
   vectors) handed to the same elimination and solver (property C04) give the same solution:
   that last step is a function applied to equal arguments. *)
From Coq Require Import Reals List Lra Lia Arith Bool.
From EFLib Require C02_QuadForm.
From EFP Require Import C13_forms C13_builtins Gen_Builtins C13_builtins_gen.
Import ListNotations.
Open Scope R_scope.

Theorem thickness_rules_agree : forall t,
  weak_tfac 2 2 t = thermal_tfac 2 2 t /\ weak_tfac 3 3 t = thermal_tfac 3 3 t.
Proof. intro t. split; reflexivity. Qed.

(* they do NOT agree on 1-D meshes (and on surfaces embedded in 3-D): recorded, see docs *)
Example thickness_rules_differ_1d : weak_tfac 1 1 2 <> thermal_tfac 1 1 2.
Proof. unfold weak_tfac, thermal_tfac. simpl. lra. Qed.

(* one element of a scalar-field mesh *)
Record telem := { t_nPe : nat; t_P : nat -> nat; t_nP : nat; t_w : nat -> R;
                  t_N : nat -> nat -> R; t_dN : nat -> nat -> nat -> R }.

Section Thermal.
Variables (n : nat) (tW tT : R) (k rc : nat -> R) (ud : bool).
Hypothesis npos : (0 < n)%nat.
Hypothesis same_thickness : tW = tT.

Definition weakK (e : telem) : C02_QuadForm.el :=
  {| C02_QuadForm.e_nd := t_nPe e; C02_QuadForm.e_P := t_P e;
     C02_QuadForm.e_K := fun a b => tW * entry n (t_nP e) (t_w e) (t_N e) (t_dN e) ud (form_grad_grad k) a 0 b 0 |}.
Definition dedK (e : telem) : C02_QuadForm.el :=
  {| C02_QuadForm.e_nd := t_nPe e; C02_QuadForm.e_P := t_P e;
     C02_QuadForm.e_K := fun a b => tT * gen_GradUGradV (t_nP e) n (t_w e) k (t_dN e) a b |}.
Definition weakC (e : telem) : C02_QuadForm.el :=
  {| C02_QuadForm.e_nd := t_nPe e; C02_QuadForm.e_P := t_P e;
     C02_QuadForm.e_K := fun a b => tW * entry n (t_nP e) (t_w e) (t_N e) (t_dN e) ud (form_uv rc) a 0 b 0 |}.
Definition dedC (e : telem) : C02_QuadForm.el :=
  {| C02_QuadForm.e_nd := t_nPe e; C02_QuadForm.e_P := t_P e;
     C02_QuadForm.e_K := fun a b => tT * gen_UV (t_nP e) 1 (t_w e) rc (gen_Nrep 1 (t_N e)) a b |}.

Lemma assemble_entrywise : forall (f g : telem -> C02_QuadForm.el) (els : list telem),
  (forall e, C02_QuadForm.e_nd (f e) = C02_QuadForm.e_nd (g e)) ->
  (forall e i, C02_QuadForm.e_P (f e) i = C02_QuadForm.e_P (g e) i) ->
  (forall e a b, C02_QuadForm.e_K (f e) a b = C02_QuadForm.e_K (g e) a b) ->
  forall I J, C02_QuadForm.assemble (map f els) I J = C02_QuadForm.assemble (map g els) I J.
Proof.
  intros f g els Hn HP HK I J. unfold C02_QuadForm.assemble.
  induction els as [|e els IH]; simpl; [reflexivity|]. rewrite IH. f_equal.
  unfold C02_QuadForm.scat. rewrite Hn.
  apply C02_QuadForm.sumn_ext; intros i _. apply C02_QuadForm.sumn_ext; intros j _.
  rewrite !HP, HK. reflexivity.
Qed.

Theorem thermal_weakform_same_K : forall els I J,
  C02_QuadForm.assemble (map weakK els) I J = C02_QuadForm.assemble (map dedK els) I J.
Proof.
  intros. apply assemble_entrywise; try reflexivity.
  intros e a b. simpl. rewrite same_thickness. f_equal.
  apply form_grad_grad_eq_source_GradUGradV. exact npos.
Qed.

Theorem thermal_weakform_same_C : forall els I J,
  C02_QuadForm.assemble (map weakC els) I J = C02_QuadForm.assemble (map dedC els) I J.
Proof.
  intros. apply assemble_entrywise; try reflexivity.
  intros e a b. simpl. rewrite same_thickness. f_equal.
  apply form_uv_eq_source_UV_scalar. exact npos.
Qed.

(* the operators of the time scheme are linear combinations of K and C: equal as well *)
Corollary thermal_weakform_same_scheme_matrix : forall els (cK cC : R) I J,
  cK * C02_QuadForm.assemble (map weakK els) I J + cC * C02_QuadForm.assemble (map weakC els) I J =
  cK * C02_QuadForm.assemble (map dedK els) I J + cC * C02_QuadForm.assemble (map dedC els) I J.
Proof. intros. rewrite thermal_weakform_same_K, thermal_weakform_same_C. reflexivity. Qed.

End Thermal.

Print Assumptions thermal_weakform_same_K.
Print Assumptions thermal_weakform_same_C.

Example thermal_instance : exists e : telem, t_nPe e = 2%nat /\ t_nP e = 1%nat.
Proof. exists {| t_nPe := 2; t_P := fun i => i; t_nP := 1; t_w := fun _ => 1; t_N := fun _ _ => 1 / 2; t_dN := fun _ _ a => INR a |}. split; reflexivity. Qed.
