(* C13 -- the built-in operators REGENERATED from their source (Gen_Builtins.v: the einsum
   literals, `@`, `.T`, `.integrate()` of FEM/Operators/Bilinear.py / Linear.py and of the cached
   factors in FEM/_group_elem.py, the B layout of Get_B_e_pg, the block layout of Get_N_pg_rep)
   equal the hand transcriptions of C13_builtins.v, hence the form_* theorems are statements
   about the source's own index expressions. *)
From Coq Require Import Reals List Lra Lia Arith Bool.
From EFP Require Import C13_forms C13_builtins Gen_Builtins.
Open Scope R_scope.

(* ---- GradUGradV: einsum("epij,epjk->eik", coef * (wJ * dN.T), dN) ---- *)
Theorem gen_GradUGradV_eq : forall nP n w coef dN a b,
  gen_GradUGradV nP n w coef dN a b = GradUGradV n nP w dN coef a b.
Proof.
  intros. unfold gen_GradUGradV, GradUGradV. apply sumn_ext; intros p _.
  rewrite <- sumn_scal, <- sumn_scal. apply sumn_ext; intros k _. ring.
Qed.

Theorem form_grad_grad_eq_source_GradUGradV : forall n nP w N dN, (0 < n)%nat ->
  forall ud coef a b,
  entry n nP w N dN ud (form_grad_grad coef) a 0 b 0 = gen_GradUGradV nP n w coef dN a b.
Proof. intros. rewrite gen_GradUGradV_eq. apply form_grad_grad_eq_GradUGradV. assumption. Qed.

(* ---- UV: (coef * (wJ * N_rep.T @ N_rep)).integrate() ---- *)
Theorem gen_UV_scalar_eq : forall nP w coef N a b,
  gen_UV nP 1 w coef (gen_Nrep 1 N) a b = UV nP w N coef a 0 b 0.
Proof.
  intros. unfold gen_UV, UV, gen_Nrep. apply sumn_ext; intros p _. simpl. ring.
Qed.

Theorem form_uv_eq_source_UV_scalar : forall n nP w N dN, (0 < n)%nat -> forall ud coef a b,
  entry n nP w N dN ud (form_uv coef) a 0 b 0 = gen_UV nP 1 w coef (gen_Nrep 1 N) a b.
Proof. intros. rewrite gen_UV_scalar_eq. apply form_uv_eq_UV_scalar. assumption. Qed.

(* vector field with q >= 2 components: block layout of Get_N_pg_rep, local dof a*q + d *)
Theorem gen_UV_vector_eq : forall nP q w coef N a d b e, (2 <= q)%nat -> (d < q)%nat -> (e < q)%nat ->
  gen_UV nP q w coef (gen_Nrep q N) (a * q + d) (b * q + e) = UV nP w N coef a d b e.
Proof.
  intros nP q w coef N a d b e Hq Hd He. unfold gen_UV, UV, gen_Nrep.
  apply sumn_ext; intros p _.
  destruct (Nat.leb_spec q 1) as [Hle|_]; [lia|].
  destruct (decode q a d Hd) as [Da Dd]. destruct (decode q b e He) as [Db De].
  rewrite Da, Dd, Db, De.
  rewrite (sumn_ext q _ (fun m => if Nat.eqb m d then w p * (if Nat.eqb d e then N p a * N p b else 0) else 0)).
  - rewrite (sumn_delta q d (fun _ => w p * (if Nat.eqb d e then N p a * N p b else 0))) by exact Hd. ring.
  - intros m _. rewrite (Nat.eqb_sym d m).
    destruct (Nat.eqb_spec m d) as [->|Hm]; [|ring].
    rewrite (Nat.eqb_sym e d). destruct (Nat.eqb d e); ring.
Qed.

Theorem form_uv_eq_source_UV_vector : forall n nP w N dN, (0 < n)%nat ->
  forall q coef a d b e, (2 <= q)%nat -> (d < q)%nat -> (e < q)%nat -> (d < n)%nat -> (e < n)%nat ->
  entry n nP w N dN true (form_uv coef) a d b e = gen_UV nP q w coef (gen_Nrep q N) (a * q + d) (b * q + e).
Proof. intros. rewrite gen_UV_vector_eq by assumption. apply form_uv_eq_UV_vector; assumption. Qed.

(* ---- Linear.V, scalar field: (f * (wJ * N_rep.T)).integrate() ---- *)
Theorem gen_V_scalar_eq : forall nP w f N a, gen_V nP w f (gen_Nrep 1 N) a 0 = Vop nP w N f a.
Proof. intros. unfold gen_V, Vop, gen_Nrep. apply sumn_ext; intros p _. simpl. ring. Qed.

Theorem form_v_eq_source_V_scalar : forall n nP w N dN ud f a,
  lentry n nP w N dN ud f a 0 = gen_V nP w f (gen_Nrep 1 N) a 0.
Proof. intros. rewrite gen_V_scalar_eq. apply form_v_eq_V_scalar. Qed.

(* ---- B layout of Get_B_e_pg ---- *)
Theorem gen_Bcol2_eq : forall c g d r, gen_Bcol2 c g d r = Bcol2 c g d r.
Proof. intros c g d r. destruct d as [|[|d]]; destruct r as [|[|[|r]]]; reflexivity. Qed.
Theorem gen_Bcol3_eq : forall c g d r, gen_Bcol3 c g d r = Bcol3 c g d r.
Proof. intros c g d r. destruct d as [|[|[|d]]]; destruct r as [|[|[|[|[|[|r]]]]]]; reflexivity. Qed.

(* ---- LinearizedElasticity: einsum("epij,epjk->eik", (wJ * B.T) @ C, B) = sum_p wJ B' C B ---- *)
Theorem gen_LinearizedElasticity_eq : forall nP ns w B C i k,
  gen_LinearizedElasticity nP ns w B C i k =
  sumn nP (fun p => w p * sumn ns (fun a => sumn ns (fun b => B p a i * C a b * B p b k))).
Proof.
  intros. unfold gen_LinearizedElasticity. apply sumn_ext; intros p _.
  transitivity (sumn ns (fun j => sumn ns (fun m => w p * (B p m i * C m j * B p j k)))).
  - apply sumn_ext; intros j _. rewrite Rmult_comm, <- sumn_scal. apply sumn_ext; intros m _. ring.
  - rewrite sumn_comm. rewrite <- sumn_scal. apply sumn_ext; intros a _.
    rewrite <- sumn_scal. reflexivity.
Qed.

(* B assembled from the generated column layout: local dof col = node * dim + component *)
Definition Bgen2 (dN : nat -> nat -> nat -> R) (p r col : nat) : R :=
  gen_Bcol2 (1 / sqrt 2) (fun k => dN p k (col / 2)%nat) (col mod 2)%nat r.
Definition Bgen3 (dN : nat -> nat -> nat -> R) (p r col : nat) : R :=
  gen_Bcol3 (1 / sqrt 2) (fun k => dN p k (col / 3)%nat) (col mod 3)%nat r.

Theorem form_elastic_eq_source_LinearizedElasticity_2d : forall nP w N dN ud lam mu a d b e,
  (d < 2)%nat -> (e < 2)%nat ->
  entry 2 nP w N dN ud (form_elastic lam mu) a d b e =
  gen_LinearizedElasticity nP 3 w (Bgen2 dN) (Ciso 2 lam mu) (a * 2 + d) (b * 2 + e).
Proof.
  intros nP w N dN ud lam mu a d b e Hd He.
  rewrite form_elastic_eq_LinearizedElasticity_2d by assumption.
  rewrite gen_LinearizedElasticity_eq. apply sumn_ext; intros p _. f_equal.
  unfold BtCB2, Bgen2.
  destruct (decode 2 a d Hd) as [Da Dd]. destruct (decode 2 b e He) as [Db De].
  rewrite Da, Dd, Db, De.
  apply sumn_ext; intros r _. apply sumn_ext; intros s _. reflexivity.
Qed.

Theorem form_elastic_eq_source_LinearizedElasticity_3d : forall nP w N dN ud lam mu a d b e,
  (d < 3)%nat -> (e < 3)%nat ->
  entry 3 nP w N dN ud (form_elastic lam mu) a d b e =
  gen_LinearizedElasticity nP 6 w (Bgen3 dN) (Ciso 3 lam mu) (a * 3 + d) (b * 3 + e).
Proof.
  intros nP w N dN ud lam mu a d b e Hd He.
  rewrite form_elastic_eq_LinearizedElasticity_3d by assumption.
  rewrite gen_LinearizedElasticity_eq. apply sumn_ext; intros p _. f_equal.
  unfold BtCB3, Bgen3.
  destruct (decode 3 a d Hd) as [Da Dd]. destruct (decode 3 b e He) as [Db De].
  rewrite Da, Dd, Db, De.
  apply sumn_ext; intros r _. apply sumn_ext; intros s _. reflexivity.
Qed.

Print Assumptions form_grad_grad_eq_source_GradUGradV.
Print Assumptions form_uv_eq_source_UV_vector.
Print Assumptions form_elastic_eq_source_LinearizedElasticity_3d.
