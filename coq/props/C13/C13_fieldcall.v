(* C13 -- form_uv_eq_UV_vector (C13_builtins.v) is about a Field.__call__ that puts N in the
   component of the active dof; this file checks that the source does (Gen_Forms.v). *)
From EFP Require Import Gen_Forms.

(* does Field.__call__ honour the active dof (needed by form_uv_eq_UV_vector)? *)
Theorem field_call_uses_active_dof : call_uses_dof = true.
Proof. reflexivity. Qed.

