(* C13 -- LinearForm.Assemble = scatter_add of Integrate_e, with rows / columns taken from
   where the source takes them (Gen_Forms.v, regenerated every run). *)
From Coq Require Import Reals List Lra Lia Arith.
From EFP Require Import Gen_Forms C13_assemble.
Import ListNotations.
Open Scope R_scope.

(* ---- LinearForm.Assemble: rows / columns as the source builds them ---- *)
Definition lin_rows_of (src : rows_src) (asm : list nat) : list nat :=
  match src with RowsE => rows_e asm (length asm) | AssemblyE => asm end.
Definition lin_col_of (src : cols_src) : option nat :=
  match src with Zeros => Some 0%nat | Ones => Some 1%nat | ColumnsE => None end.

(* what the size assertion and the (Ndof, 1) shape of the result demand *)
Definition linear_assemble_wellformed (asm : list nat) (Fe : list R) : Prop :=
  length (lin_rows_of lin_rows asm) = length Fe /\ lin_col_of lin_cols = Some 0%nat.

Definition lin_form (rows : list nat) (Fe : list R) (y : nat -> R) : R :=
  rsum (map (fun rv => y (fst rv) * snd rv) (combine rows Fe)).

(* the source must take rows from the assembly vector and column 0 *)
Theorem linear_assemble_sources : lin_rows = AssemblyE /\ lin_cols = Zeros.
Proof. split; reflexivity. Qed.

Theorem linear_assemble_is_scatter : forall asm Fe y, length Fe = length asm ->
  linear_assemble_wellformed asm Fe /\
  lin_form (lin_rows_of lin_rows asm) Fe y = dotl (map y asm) Fe.
Proof.
  intros asm Fe y H. destruct linear_assemble_sources as [Hr Hc].
  unfold linear_assemble_wellformed. rewrite Hr, Hc. simpl. split; [split; [lia | reflexivity]|].
  unfold lin_form. revert Fe H. induction asm as [|a asm IH]; intros Fe H; destruct Fe; simpl in *; try lia; [reflexivity|].
  rewrite IH by lia. reflexivity.
Qed.
Print Assumptions linear_assemble_is_scatter.

