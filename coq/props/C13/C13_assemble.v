(* C13 -- Assemble = scatter_add of Integrate_e (FEM/_forms.py: BiLinearForm.Assemble,
   LinearForm.Assemble; FEM/_group_elem.py: Get_rows_e / Get_columns_e / Get_assembly_e).

   One element with assembly vector asm (its global dofs, length m = nPe*dof_n) and element
   matrix Ke (list of rows): rows_e = np.repeat(asm, m), columns_e = np.tile(asm, m),
   values = Ke.ravel().  The csr_matrix constructor sums duplicate (row, col) pairs, so the
   assembled operator is characterised by its bilinear form = sum over the triplets. *)
From Coq Require Import Reals List Lra Lia Arith.
From EFP Require Import Gen_Forms.
Import ListNotations.
Open Scope R_scope.

Fixpoint rsum (l : list R) : R := match l with [] => 0 | x :: r => x + rsum r end.
Lemma rsum_app : forall a b, rsum (a ++ b) = rsum a + rsum b.
Proof. induction a; intros; simpl; [ring | rewrite IHa; ring]. Qed.

Definition rows_e (asm : list nat) (m : nat) : list nat := flat_map (fun a => repeat a m) asm.
Definition cols_e (asm : list nat) (k : nat) : list nat := concat (repeat asm k).

Lemma combine_repeat : forall (a : nat) (l : list nat),
  combine (repeat a (length l)) l = map (fun c => (a, c)) l.
Proof. induction l; simpl; [reflexivity | rewrite IHl; reflexivity]. Qed.

Lemma combine_app_eq : forall (A B : Type) (a1 a2 : list A) (b1 b2 : list B),
  length a1 = length b1 -> combine (a1 ++ a2) (b1 ++ b2) = combine a1 b1 ++ combine a2 b2.
Proof.
  induction a1; intros a2 b1 b2 H; destruct b1; simpl in *; try lia; [reflexivity|].
  rewrite IHa1 by lia. reflexivity.
Qed.

(* (row, col) index pairs produced by repeat/tile = all pairs (asm_i, asm_j), row-major *)
Lemma rows_cols_pairs : forall (l asm : list nat),
  combine (rows_e l (length asm)) (cols_e asm (length l)) =
  flat_map (fun a => map (fun c => (a, c)) asm) l.
Proof.
  induction l as [|a l IH]; intro asm; [reflexivity|].
  unfold rows_e, cols_e in *. simpl.
  rewrite combine_app_eq by (rewrite repeat_length; reflexivity).
  rewrite combine_repeat, IH. reflexivity.
Qed.

Definition triplet := (nat * nat * R)%type.
Definition coo_form (Tl : list triplet) (y x : nat -> R) : R :=
  rsum (map (fun t => y (fst (fst t)) * snd t * x (snd (fst t))) Tl).
Lemma coo_form_app : forall A B y x, coo_form (A ++ B) y x = coo_form A y x + coo_form B y x.
Proof. intros. unfold coo_form. rewrite map_app, rsum_app. reflexivity. Qed.

(* the triplets of csr_matrix((values, (rows, columns))) for one element *)
Definition bil_triplets (asm : list nat) (Ke : list (list R)) : list triplet :=
  map (fun rcv => (fst (fst rcv), snd (fst rcv), snd rcv))
      (combine (combine (rows_e asm (length asm)) (cols_e asm (length asm))) (concat Ke)).

Fixpoint dotl (a b : list R) : R :=
  match a, b with x :: a', y :: b' => x * y + dotl a' b' | _, _ => 0 end.
Fixpoint local_form (ye : list R) (K : list (list R)) (xe : list R) : R :=
  match ye, K with
  | yi :: ye', kr :: K' => yi * dotl kr xe + local_form ye' K' xe
  | _, _ => 0
  end.

Lemma row_form : forall (a : nat) (asm : list nat) (kr : list R) y x, length kr = length asm ->
  coo_form (map (fun rcv : nat * nat * R => (fst (fst rcv), snd (fst rcv), snd rcv))
                (combine (map (fun c => (a, c)) asm) kr)) y x = y a * dotl kr (map x asm).
Proof.
  intros a asm. induction asm as [|c asm IH]; intros kr y x H; destruct kr; simpl in *; try lia.
  - unfold coo_form. simpl. ring.
  - unfold coo_form in *. simpl. rewrite IH by lia. ring.
Qed.

Lemma bil_aux : forall (l asm : list nat) (K : list (list R)) y x,
  length K = length l -> Forall (fun kr => length kr = length asm) K ->
  coo_form (map (fun rcv : nat * nat * R => (fst (fst rcv), snd (fst rcv), snd rcv))
                (combine (flat_map (fun a => map (fun c => (a, c)) asm) l) (concat K))) y x
  = local_form (map y l) K (map x asm).
Proof.
  induction l as [|a l IH]; intros asm K y x HK HF; destruct K as [|kr K]; simpl in *; try lia.
  - reflexivity.
  - inversion HF; subst.
    rewrite combine_app_eq by (rewrite map_length; lia).
    rewrite map_app, coo_form_app, row_form by assumption. rewrite IH by (auto; lia). reflexivity.
Qed.

(* BiLinearForm.Assemble, one element: y' K x = (P y)' Ke (P x), P = gather on asm *)
Theorem bilinear_assemble_is_scatter : forall asm Ke y x,
  bil_rows = RowsE -> bil_cols = ColumnsE ->
  length Ke = length asm -> Forall (fun kr => length kr = length asm) Ke ->
  coo_form (bil_triplets asm Ke) y x = local_form (map y asm) Ke (map x asm).
Proof.
  intros asm Ke y x _ _ HK HF. unfold bil_triplets. rewrite rows_cols_pairs. apply bil_aux; assumption.
Qed.
Print Assumptions bilinear_assemble_is_scatter.

(* several elements: triplet lists are concatenated *)
Theorem bilinear_assemble_all : forall (els : list (list nat * list (list R))) y x,
  (forall e, In e els -> length (snd e) = length (fst e) /\ Forall (fun kr => length kr = length (fst e)) (snd e)) ->
  coo_form (flat_map (fun e => bil_triplets (fst e) (snd e)) els) y x =
  rsum (map (fun e => local_form (map y (fst e)) (snd e) (map x (fst e))) els).
Proof.
  induction els as [|e els IH]; intros y x H; [reflexivity|]. simpl.
  rewrite coo_form_app, IH by (intros; apply H; right; assumption).
  destruct (H e (or_introl eq_refl)) as [H1 H2].
  rewrite (bilinear_assemble_is_scatter (fst e) (snd e) y x); auto; reflexivity.
Qed.
Print Assumptions bilinear_assemble_all.

Example assemble_instance :
  coo_form (bil_triplets [3; 5]%nat [[1; 2]; [3; 4]]) (fun i => INR i) (fun i => INR i)
  = 3 * 1 * 3 + 3 * 2 * 5 + 5 * 3 * 3 + 5 * 4 * 5.
Proof. unfold coo_form, bil_triplets. simpl. ring. Qed.
