(* C13 -- the forms form_grad_grad / form_uv / form_v / form_elastic integrate, entry by entry,
   to the built-in operators GradUGradV / UV / V / LinearizedElasticity
   (FEM/Operators/Bilinear.py, Linear.py), for all shape-function values, gradients, weights. *)
From Coq Require Import Reals List Lra Lia Arith Bool Nsatz.
From EFP Require Import C13_forms.
Open Scope R_scope.

Section Builtins.
Variable n nP : nat.
Variable w : nat -> R.
Variable N : nat -> nat -> R.
Variable dN : nat -> nat -> nat -> R.
Hypothesis npos : (0 < n)%nat.

Definition bnd (ud : bool) (a d p : nat) : fdata := basis_nd N dN ud a d p.

(* entry ((a,d),(b,e)) of Integrate_e *)
Definition entry (ud : bool) (f : form) (a d b e : nat) : R :=
  sumn nP (fun p => w p * dform n f p (bnd ud a d p) (bnd ud b e p)).

(* --- built-ins, transcribed from the einsum / matmul expressions --- *)
(* einsum("epij,epjk->eik", coef * wJ * dN.T, dN) *)
Definition GradUGradV (coef : nat -> R) (a b : nat) : R :=
  sumn nP (fun p => w p * (coef p * sumn n (fun k => dN p k a * dN p k b))).
(* (coef * wJ * N_rep.T @ N_rep).integrate(); N_rep[d, a*dof_n + e] = N_a if d = e *)
Definition UV (coef : nat -> R) (a d b e : nat) : R :=
  sumn nP (fun p => w p * (coef p * (if Nat.eqb d e then N p a * N p b else 0))).
(* (f * wJ * N_rep.T).integrate(), scalar field *)
Definition Vop (f : nat -> R) (a : nat) : R := sumn nP (fun p => w p * (f p * N p a)).

Definition form_grad_grad (coef : nat -> R) : form := FScale coef (FContr LGrad LGrad).
Definition form_uv (coef : nat -> R) : form := FScale coef (FContr LVal LVal).

Lemma contr_col0 : forall (x y : nat -> R),
  sumn n (fun k => sumn n (fun l => (if Nat.eqb l 0 then x k else 0) * (if Nat.eqb l 0 then y k else 0)))
  = sumn n (fun k => x k * y k).
Proof.
  intros. apply sumn_ext; intros k _.
  rewrite (sumn_ext n _ (fun l => if Nat.eqb l 0 then x k * y k else 0)).
  - apply (sumn_delta n 0%nat (fun _ => x k * y k)). exact npos.
  - intros l _. destruct (Nat.eqb l 0); ring.
Qed.

(* u.grad.dot(v.grad) on a scalar field (dof_n = 1: active dof 0) *)
Theorem form_grad_grad_eq_GradUGradV : forall ud coef a b,
  entry ud (form_grad_grad coef) a 0 b 0 = GradUGradV coef a b.
Proof.
  intros. unfold entry, GradUGradV, form_grad_grad. apply sumn_ext; intros p _. simpl.
  rewrite contr_col0. reflexivity.
Qed.

(* u.dot(v): scalar field, whatever Field.__call__ does with the active dof *)
Theorem form_uv_eq_UV_scalar : forall ud coef a b,
  entry ud (form_uv coef) a 0 b 0 = UV coef a 0 b 0.
Proof.
  intros. unfold entry, UV, form_uv. apply sumn_ext; intros p _. simpl.
  rewrite contr_col0.
  assert (H : sumn n (fun k => (if Nat.eqb k (if ud then 0%nat else 0%nat) then N p a else 0) *
                               (if Nat.eqb k (if ud then 0%nat else 0%nat) then N p b else 0)) = N p a * N p b).
  { destruct ud; (rewrite (sumn_ext n _ (fun k => if Nat.eqb k 0 then N p a * N p b else 0));
      [apply (sumn_delta n 0%nat (fun _ => N p a * N p b)); exact npos
      | intros k _; destruct (Nat.eqb k 0); ring]). }
  rewrite H. reflexivity.
Qed.

(* u.dot(v): vector field -- needs Field.__call__ to honour the active dof *)
Theorem form_uv_eq_UV_vector : forall coef a d b e, (d < n)%nat -> (e < n)%nat ->
  entry true (form_uv coef) a d b e = UV coef a d b e.
Proof.
  intros coef a d b e Hd He. unfold entry, UV, form_uv. apply sumn_ext; intros p _. simpl.
  rewrite contr_col0.
  rewrite (sumn_ext n _ (fun k => if Nat.eqb k d then (if Nat.eqb d e then N p a * N p b else 0) else 0)).
  - rewrite (sumn_delta n d (fun _ => if Nat.eqb d e then N p a * N p b else 0)) by exact Hd. reflexivity.
  - intros k _. destruct (Nat.eqb_spec k d) as [->|Hk]; [|ring].
    destruct (Nat.eqb d e); ring.
Qed.

(* the faithful model of a __call__ that ignores the active dof refutes it: the (dof 0, dof 1)
   entry is the full N_a N_b integral instead of 0 *)
Theorem form_uv_ignoring_dof : forall coef a d b e,
  entry false (form_uv coef) a d b e = UV coef a 0 b 0.
Proof.
  intros. unfold entry, UV, form_uv. apply sumn_ext; intros p _. simpl.
  rewrite contr_col0.
  rewrite (sumn_ext n _ (fun k => if Nat.eqb k 0 then N p a * N p b else 0)).
  - rewrite (sumn_delta n 0%nat (fun _ => N p a * N p b)) by exact npos. reflexivity.
  - intros k _. destruct (Nat.eqb k 0); ring.
Qed.

(* --- (A @ u).dot(v): a constant, possibly non-symmetric matrix on the LEFT of the field ---
   entry ((a,d),(b,e)) = A[e][d] * int N_a N_b   (and u @ A gives A[d][e]: LMatL of the transpose) *)
Definition form_Au_v (A : nat -> nat -> R) : form := FContr (LMatL A LVal) LVal.

Theorem form_Au_dot_v : forall A a d b e, (d < n)%nat -> (e < n)%nat ->
  entry true (form_Au_v A) a d b e = sumn nP (fun p => w p * (A e d * (N p a * N p b))).
Proof.
  intros A a d b e Hd He. unfold entry, form_Au_v. apply sumn_ext; intros p _. f_equal. simpl.
  set (x := fun k => sumn n (fun m => A k m * (if Nat.eqb m d then N p a else 0))).
  set (y := fun k => if Nat.eqb k e then N p b else 0).
  transitivity (sumn n (fun k => sumn n (fun l => (if Nat.eqb l 0 then x k else 0) * (if Nat.eqb l 0 then y k else 0)))).
  - apply sumn_ext; intros k _. apply sumn_ext; intros l _. unfold x, y.
    destruct (Nat.eqb l 0).
    + reflexivity.
    + rewrite (sumn_ext n _ (fun _ => 0)) by (intros; ring). rewrite sumn_zero. ring.
  - rewrite contr_col0. unfold y.
    rewrite (sumn_ext n _ (fun k => if Nat.eqb k e then x k * N p b else 0)).
    + rewrite (sumn_delta n e (fun k => x k * N p b)) by exact He. unfold x.
      rewrite (sumn_ext n _ (fun m => if Nat.eqb m d then A e m * N p a else 0)).
      * rewrite (sumn_delta n d (fun m => A e m * N p a)) by exact Hd. ring.
      * intros m _. destruct (Nat.eqb m d); ring.
    + intros k _. destruct (Nat.eqb k e); ring.
Qed.

(* --- linear forms: f * v --- *)
Definition lentry (ud : bool) (f : nat -> R) (a d : nat) : R :=
  sumn nP (fun p => w p * (f p * dlin n LVal p (bnd ud a d p) 0%nat 0%nat)).

Theorem form_v_eq_V_scalar : forall ud f a, lentry ud f a 0 = Vop f a.
Proof.
  intros. unfold lentry, Vop. apply sumn_ext; intros p _. simpl. destruct ud; reflexivity.
Qed.

End Builtins.

(* ---------- linearized elasticity, pointwise, dim 2 and dim 3 ---------- *)
(* Sig = 2 mu Eps + lambda Trace(Eps) I ;  form = Sig.ddot(Sym_Grad(v)) *)
Definition form_elastic (lam mu : R) : form :=
  FContr (LAdd (LScale (fun _ => 2 * mu) LSymGrad) (LScale (fun _ => lam) (LTraceI LSymGrad))) LSymGrad.

(* data of a vector basis function with nodal gradient g and active dof d *)
Definition gdata (g : nat -> R) (d : nat) : fdata :=
  {| fval := fun _ => 0; fgrad := fun k l => if Nat.eqb l d then g k else 0 |}.

(* columns of B (Get_B_e_pg), c = 1/sqrt 2 *)
Definition Bcol2 (c : R) (g : nat -> R) (d r : nat) : R :=
  match d, r with
  | 0%nat, 0%nat => g 0%nat | 0%nat, 2%nat => c * g 1%nat
  | 1%nat, 1%nat => g 1%nat | 1%nat, 2%nat => c * g 0%nat
  | _, _ => 0
  end.
Definition Bcol3 (c : R) (g : nat -> R) (d r : nat) : R :=
  match d, r with
  | 0%nat, 0%nat => g 0%nat | 0%nat, 4%nat => c * g 2%nat | 0%nat, 5%nat => c * g 1%nat
  | 1%nat, 1%nat => g 1%nat | 1%nat, 3%nat => c * g 2%nat | 1%nat, 5%nat => c * g 0%nat
  | 2%nat, 2%nat => g 2%nat | 2%nat, 3%nat => c * g 1%nat | 2%nat, 4%nat => c * g 0%nat
  | _, _ => 0
  end.
(* isotropic Hooke matrix in Kelvin-Mandel notation: lambda on the normal block + 2 mu I *)
Definition Ciso (dim : nat) (lam mu : R) (r s : nat) : R :=
  (if (r <? dim)%nat && (s <? dim)%nat then lam else 0) + (if Nat.eqb r s then 2 * mu else 0).

Definition BtCB2 c lam mu g d h e : R :=
  sumn 3 (fun r => sumn 3 (fun s => Bcol2 c g d r * Ciso 2 lam mu r s * Bcol2 c h e s)).
Definition BtCB3 c lam mu g d h e : R :=
  sumn 6 (fun r => sumn 6 (fun s => Bcol3 c g d r * Ciso 3 lam mu r s * Bcol3 c h e s)).

Theorem form_elastic_pointwise_2d : forall c lam mu g h d e p, c * c = 1 / 2 ->
  (d < 2)%nat -> (e < 2)%nat ->
  dform 2 (form_elastic lam mu) p (gdata g d) (gdata h e) = BtCB2 c lam mu g d h e.
Proof.
  intros c lam mu g h d e p Hc Hd He.
  assert (Hc2 : c ^ 2 = 1 / 2) by (simpl; rewrite Rmult_1_r; exact Hc).
  destruct d as [|[|d]]; [| |lia]; destruct e as [|[|e]]; try lia;
    unfold BtCB2, Bcol2, Ciso, form_elastic; simpl; ring_simplify; rewrite ?Hc2; field.
Qed.

Theorem form_elastic_pointwise_3d : forall c lam mu g h d e p, c * c = 1 / 2 ->
  (d < 3)%nat -> (e < 3)%nat ->
  dform 3 (form_elastic lam mu) p (gdata g d) (gdata h e) = BtCB3 c lam mu g d h e.
Proof.
  intros c lam mu g h d e p Hc Hd He.
  assert (Hc2 : c ^ 2 = 1 / 2) by (simpl; rewrite Rmult_1_r; exact Hc).
  destruct d as [|[|[|d]]]; [| | |lia]; destruct e as [|[|[|e]]]; try lia;
    unfold BtCB3, Bcol3, Ciso, form_elastic; simpl; ring_simplify; rewrite ?Hc2; field.
Qed.

Lemma inv_sqrt2 : (1 / sqrt 2) * (1 / sqrt 2) = 1 / 2.
Proof.
  assert (H : sqrt 2 * sqrt 2 = 2) by (apply sqrt_sqrt; lra).
  assert (Hp : 0 < sqrt 2) by (apply sqrt_lt_R0; lra).
  field_simplify_eq; [|lra]. lra.
Qed.

(* integrated: Integrate_e of form_elastic = LinearizedElasticity = sum_p wJ B^T C B *)
Section Elastic.
Variable nP : nat.
Variable w : nat -> R.
Variable N : nat -> nat -> R.
Variable dN : nat -> nat -> nat -> R.

Lemma bnd_grad : forall ud a d p k l, fgrad (basis_nd N dN ud a d p) k l = fgrad (gdata (fun k => dN p k a) d) k l.
Proof. reflexivity. Qed.

(* dform of forms built from gradients only does not look at fval *)
Lemma elastic_only_grad : forall m lam mu p u u' v v',
  (forall k l, fgrad u k l = fgrad u' k l) -> (forall k l, fgrad v k l = fgrad v' k l) ->
  dform m (form_elastic lam mu) p u v = dform m (form_elastic lam mu) p u' v'.
Proof.
  intros m lam mu p u u' v v' Hu Hv. simpl.
  apply sumn_ext; intros k _. apply sumn_ext; intros l _.
  rewrite !Hu, !Hv. f_equal. f_equal. f_equal.
  destruct (Nat.eqb k l); [|reflexivity]. apply sumn_ext; intros q _. rewrite !Hu. reflexivity.
Qed.

Theorem form_elastic_eq_LinearizedElasticity_2d : forall ud lam mu a d b e, (d < 2)%nat -> (e < 2)%nat ->
  entry 2 nP w N dN ud (form_elastic lam mu) a d b e =
  sumn nP (fun p => w p * BtCB2 (1 / sqrt 2) lam mu (fun k => dN p k a) d (fun k => dN p k b) e).
Proof.
  intros. unfold entry, bnd. apply sumn_ext; intros p _. f_equal.
  rewrite <- (form_elastic_pointwise_2d (1 / sqrt 2) lam mu _ _ d e p inv_sqrt2) by assumption.
  apply elastic_only_grad; intros; apply bnd_grad.
Qed.

Theorem form_elastic_eq_LinearizedElasticity_3d : forall ud lam mu a d b e, (d < 3)%nat -> (e < 3)%nat ->
  entry 3 nP w N dN ud (form_elastic lam mu) a d b e =
  sumn nP (fun p => w p * BtCB3 (1 / sqrt 2) lam mu (fun k => dN p k a) d (fun k => dN p k b) e).
Proof.
  intros. unfold entry, bnd. apply sumn_ext; intros p _. f_equal.
  rewrite <- (form_elastic_pointwise_3d (1 / sqrt 2) lam mu _ _ d e p inv_sqrt2) by assumption.
  apply elastic_only_grad; intros; apply bnd_grad.
Qed.
End Elastic.

Print Assumptions form_grad_grad_eq_GradUGradV.
Print Assumptions form_uv_eq_UV_vector.
Print Assumptions form_Au_dot_v.
Print Assumptions form_elastic_eq_LinearizedElasticity_3d.

(* non-vacuity: a 1-point rule, two nodes *)
Example builtin_instance :
  entry 2 1 (fun _ => 2) (fun _ a => INR a + 1) (fun _ k a => INR (k + a)) true
        (form_uv (fun _ => 1)) 0 1 1 1 = 2 * (1 * (1 * 2)).
Proof. unfold entry, form_uv. simpl. ring. Qed.
