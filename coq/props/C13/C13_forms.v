(* C13 -- a grammar of weak forms, its denotational semantics, and the activation loop of
   BiLinearForm.Integrate_e / LinearForm.Integrate_e (FEM/_forms.py, FEM/_field.py).

   Everything is stated for one element (the loop treats elements independently: all arrays
   carry a leading Ne axis and every operation is elementwise in it); N p a, dN p k a and the
   integration weights w p = weight * |J| are arbitrary real parameters, so the theorems hold
   for all shape-function values, all geometries and all quadrature rules. *)
From Coq Require Import Reals List Lra Lia Arith Bool.
Import ListNotations.
Open Scope R_scope.

(* ---------- finite sums ---------- *)
Fixpoint sumn (n : nat) (f : nat -> R) : R :=
  match n with O => 0 | S k => sumn k f + f k end.

Lemma sumn_ext : forall n f g, (forall k, (k < n)%nat -> f k = g k) -> sumn n f = sumn n g.
Proof.
  induction n; intros f g H; simpl; [reflexivity|].
  rewrite (IHn f g), H; auto.
Qed.

Lemma sumn_plus : forall n f g, sumn n (fun k => f k + g k) = sumn n f + sumn n g.
Proof. induction n; intros; simpl; [ring | rewrite IHn; ring]. Qed.

Lemma sumn_scal : forall n c f, sumn n (fun k => c * f k) = c * sumn n f.
Proof. induction n; intros; simpl; [ring | rewrite IHn; ring]. Qed.

Lemma sumn_zero : forall n, sumn n (fun _ => 0) = 0.
Proof. induction n; simpl; [reflexivity | rewrite IHn; ring]. Qed.

Lemma sumn_comm : forall n m (f : nat -> nat -> R),
  sumn n (fun i => sumn m (fun j => f i j)) = sumn m (fun j => sumn n (fun i => f i j)).
Proof.
  induction n; intros m f; simpl.
  - symmetry. apply sumn_zero.
  - rewrite IHn. rewrite <- sumn_plus. reflexivity.
Qed.

(* sum against a Kronecker delta *)
Lemma sumn_delta : forall n d f, (d < n)%nat ->
  sumn n (fun k => if Nat.eqb k d then f k else 0) = f d.
Proof.
  induction n; intros d f Hd; [lia|]. simpl.
  destruct (Nat.eq_dec d n) as [->|Hne].
  - rewrite Nat.eqb_refl. rewrite (sumn_ext n _ (fun _ => 0)).
    + rewrite sumn_zero. ring.
    + intros k Hk. destruct (Nat.eqb_spec k n); [lia | reflexivity].
  - destruct (Nat.eqb_spec n d); [lia|]. rewrite IHn by lia. ring.
Qed.

(* ---------- tensors and local field data ---------- *)
Definition T := nat -> nat -> R.      (* scalars: entry (0,0); vectors: column 0; matrices *)

Record fdata := { fval : nat -> R; fgrad : T }.   (* value and gradient of a field at a point *)
Definition fadd (a b : fdata) : fdata :=
  {| fval := fun k => fval a k + fval b k; fgrad := fun k l => fgrad a k l + fgrad b k l |}.
Definition fscal (c : R) (a : fdata) : fdata :=
  {| fval := fun k => c * fval a k; fgrad := fun k l => c * fgrad a k l |}.
Definition fzero : fdata := {| fval := fun _ => 0; fgrad := fun _ _ => 0 |}.

Section Forms.
Variable n : nat.            (* tensors live in n x n (n = space dimension >= dof_n) *)

(* expressions linear in ONE field *)
Inductive lin :=
| LVal                        (* u            -> vector (scalar when dof_n = 1) *)
| LGrad                       (* u.grad       -> grad[k][l] = d u_l / d x_k     *)
| LSymGrad                    (* Sym_Grad(u)  = 1/2 (grad.T + grad)             *)
| LTransp (a : lin)           (* a.T                                            *)
| LTrace (a : lin)            (* Trace(a)     -> scalar                         *)
| LTraceI (a : lin)           (* Trace(a) * np.eye(n)                           *)
| LDir (b : nat -> R)         (* u.grad.dot(b): derivative of a scalar field along b -> scalar *)
| LScale (c : nat -> R) (a : lin)   (* coefficient field (value per Gauss point) * a *)
| LAdd (a b : lin)
| LMatL (A : nat -> nat -> R) (a : lin).   (* A @ a : constant matrix applied on the LEFT of a vector
                                              (A @ u, A @ u.grad ...); u @ A is LMatL (transpose A) *)

Fixpoint dlin (e : lin) (p : nat) (d : fdata) : T :=
  match e with
  | LVal => fun k l => if Nat.eqb l 0 then fval d k else 0
  | LGrad => fgrad d
  | LSymGrad => fun k l => 1 / 2 * (fgrad d l k + fgrad d k l)
  | LTransp a => fun k l => dlin a p d l k
  | LTrace a => fun k l => if Nat.eqb k 0 && Nat.eqb l 0 then sumn n (fun m => dlin a p d m m) else 0
  | LTraceI a => fun k l => if Nat.eqb k l then sumn n (fun m => dlin a p d m m) else 0
  | LDir b => fun k l => if Nat.eqb k 0 && Nat.eqb l 0 then sumn n (fun m => b m * fgrad d m 0%nat) else 0
  | LScale c a => fun k l => c p * dlin a p d k l
  | LAdd a b => fun k l => dlin a p d k l + dlin b p d k l
  | LMatL A a => fun k l => sumn n (fun m => A k m * dlin a p d m l)
  end.

(* bilinear forms: full contraction (dot of vectors, ddot of matrices, product of scalars)
   of an expression in u with an expression in v, coefficient, sum *)
Inductive form :=
| FContr (a b : lin)
| FScale (c : nat -> R) (f : form)
| FAdd (f g : form).

Fixpoint dform (f : form) (p : nat) (du dv : fdata) : R :=
  match f with
  | FContr a b => sumn n (fun k => sumn n (fun l => dlin a p du k l * dlin b p dv k l))
  | FScale c g => c p * dform g p du dv
  | FAdd g h => dform g p du dv + dform h p du dv
  end.

(* ---------- linearity of the semantics (induction on the AST) ---------- *)
Lemma dlin_add : forall e p x y k l, dlin e p (fadd x y) k l = dlin e p x k l + dlin e p y k l.
Proof.
  induction e; intros p x y k l; simpl; try ring.
  - destruct (Nat.eqb l 0); ring.
  - apply IHe.
  - destruct (Nat.eqb k 0 && Nat.eqb l 0); [|ring].
    rewrite <- sumn_plus. apply sumn_ext. intros; apply IHe.
  - destruct (Nat.eqb k l); [|ring].
    rewrite <- sumn_plus. apply sumn_ext. intros; apply IHe.
  - destruct (Nat.eqb k 0 && Nat.eqb l 0); [|ring].
    rewrite <- sumn_plus. apply sumn_ext. intros; ring.
  - rewrite IHe. ring.
  - rewrite IHe1, IHe2. ring.
  - rewrite <- sumn_plus. apply sumn_ext. intros; rewrite IHe; ring.
Qed.

Lemma dlin_scal : forall e p s x k l, dlin e p (fscal s x) k l = s * dlin e p x k l.
Proof.
  induction e; intros p s x k l; simpl; try ring.
  - destruct (Nat.eqb l 0); ring.
  - apply IHe.
  - destruct (Nat.eqb k 0 && Nat.eqb l 0); [|ring].
    rewrite <- sumn_scal. apply sumn_ext. intros; apply IHe.
  - destruct (Nat.eqb k l); [|ring].
    rewrite <- sumn_scal. apply sumn_ext. intros; apply IHe.
  - destruct (Nat.eqb k 0 && Nat.eqb l 0); [|ring].
    rewrite <- sumn_scal. apply sumn_ext. intros; ring.
  - rewrite IHe. ring.
  - rewrite IHe1, IHe2. ring.
  - rewrite <- sumn_scal. apply sumn_ext. intros; rewrite IHe; ring.
Qed.

Lemma dlin_zero : forall e p k l, dlin e p fzero k l = 0.
Proof.
  induction e; intros p k l; simpl; try ring.
  - destruct (Nat.eqb l 0); reflexivity.
  - apply IHe.
  - destruct (Nat.eqb k 0 && Nat.eqb l 0); [|reflexivity].
    rewrite (sumn_ext n _ (fun _ => 0)); [apply sumn_zero | intros; apply IHe].
  - destruct (Nat.eqb k l); [|reflexivity].
    rewrite (sumn_ext n _ (fun _ => 0)); [apply sumn_zero | intros; apply IHe].
  - destruct (Nat.eqb k 0 && Nat.eqb l 0); [|reflexivity].
    rewrite (sumn_ext n _ (fun _ => 0)); [apply sumn_zero | intros; ring].
  - rewrite IHe. ring.
  - rewrite IHe1, IHe2. ring.
  - rewrite (sumn_ext n _ (fun _ => 0)); [apply sumn_zero | intros; rewrite IHe; ring].
Qed.

(* every form of the grammar denotes a BILINEAR map of (u-data, v-data) at each point *)
Theorem form_semantics_bilinear : forall f p,
  (forall a b v, dform f p (fadd a b) v = dform f p a v + dform f p b v) /\
  (forall c a v, dform f p (fscal c a) v = c * dform f p a v) /\
  (forall u a b, dform f p u (fadd a b) = dform f p u a + dform f p u b) /\
  (forall c u a, dform f p u (fscal c a) = c * dform f p u a) /\
  (forall v, dform f p fzero v = 0) /\ (forall u, dform f p u fzero = 0).
Proof.
  induction f as [a b | c g IH | g IHg h IHh]; intro p.
  - simpl. repeat split; intros.
    + rewrite <- sumn_plus. apply sumn_ext; intros. rewrite <- sumn_plus. apply sumn_ext; intros.
      rewrite dlin_add. ring.
    + rewrite <- sumn_scal. apply sumn_ext; intros. rewrite <- sumn_scal. apply sumn_ext; intros.
      rewrite dlin_scal. ring.
    + rewrite <- sumn_plus. apply sumn_ext; intros. rewrite <- sumn_plus. apply sumn_ext; intros.
      rewrite dlin_add. ring.
    + rewrite <- sumn_scal. apply sumn_ext; intros. rewrite <- sumn_scal. apply sumn_ext; intros.
      rewrite dlin_scal. ring.
    + rewrite (sumn_ext n _ (fun _ => 0)); [apply sumn_zero|]. intros.
      rewrite (sumn_ext n _ (fun _ => 0)); [apply sumn_zero|]. intros. rewrite dlin_zero. ring.
    + rewrite (sumn_ext n _ (fun _ => 0)); [apply sumn_zero|]. intros.
      rewrite (sumn_ext n _ (fun _ => 0)); [apply sumn_zero|]. intros. rewrite dlin_zero. ring.
  - destruct (IH p) as (A1 & A2 & A3 & A4 & A5 & A6). simpl. repeat split; intros.
    + rewrite A1; ring.
    + rewrite A2; ring.
    + rewrite A3; ring.
    + rewrite A4; ring.
    + rewrite A5; ring.
    + rewrite A6; ring.
  - destruct (IHg p) as (A1 & A2 & A3 & A4 & A5 & A6).
    destruct (IHh p) as (B1 & B2 & B3 & B4 & B5 & B6). simpl. repeat split; intros.
    + rewrite A1, B1; ring.
    + rewrite A2, B2; ring.
    + rewrite A3, B3; ring.
    + rewrite A4, B4; ring.
    + rewrite A5, B5; ring.
    + rewrite A6, B6; ring.
Qed.

(* ---------- the activation loop ---------- *)
Variable nP : nat.                    (* Gauss points *)
Variable w : nat -> R.                (* weight * |J| per Gauss point *)
Variable nd : nat.                    (* nPe * dof_n local dofs *)
Variable basis : nat -> nat -> fdata. (* basis i p : data of the field with local dof i activated *)

(* data[:, i, j] = sum_p form(u_i, v_j) * w|J|   (u index first, as in the code) *)
Definition integrate_e (f : form) (i j : nat) : R :=
  sumn nP (fun p => w p * dform f p (basis i p) (basis j p)).

(* homogeneity under a change of units: scaling every weight (lengths^dim, a thickness, a
   coefficient common to the form) scales every entry by the same factor -- no absolute scale *)
Theorem integrate_e_homogeneous : forall (c : R) f i j,
  sumn nP (fun p => (c * w p) * dform f p (basis i p) (basis j p)) = c * integrate_e f i j.
Proof.
  intros. unfold integrate_e. rewrite <- sumn_scal. apply sumn_ext; intros p _. ring.
Qed.

(* the finite element function with local coefficients x *)
Fixpoint fsum (m : nat) (x : nat -> R) (p : nat) : fdata :=
  match m with O => fzero | S k => fadd (fsum k x p) (fscal (x k) (basis k p)) end.

Lemma dform_fsum_l : forall f p m x v,
  dform f p (fsum m x p) v = sumn m (fun i => x i * dform f p (basis i p) v).
Proof.
  intros f p. destruct (form_semantics_bilinear f p) as (A1 & A2 & _ & _ & A5 & _).
  induction m; intros x v; simpl; [apply A5|]. rewrite A1, A2, IHm. reflexivity.
Qed.

Lemma dform_fsum_r : forall f p m y u,
  dform f p u (fsum m y p) = sumn m (fun j => y j * dform f p u (basis j p)).
Proof.
  intros f p. destruct (form_semantics_bilinear f p) as (_ & _ & A3 & A4 & _ & A6).
  induction m; intros y u; simpl; [apply A6|]. rewrite A3, A4, IHm. reflexivity.
Qed.

(* the loop computes the Gram matrix of the pointwise bilinear map: for all coefficient
   vectors x, y the matrix represents  int a(u_x, v_y)  *)
Theorem loop_is_gram_matrix : forall f x y,
  sumn nd (fun i => sumn nd (fun j => x i * integrate_e f i j * y j)) =
  sumn nP (fun p => w p * dform f p (fsum nd x p) (fsum nd y p)).
Proof.
  intros f x y. unfold integrate_e.
  transitivity (sumn nd (fun i => sumn nd (fun j => sumn nP (fun p => w p * (x i * (y j * dform f p (basis i p) (basis j p))))))).
  { apply sumn_ext; intros i _. apply sumn_ext; intros j _.
    rewrite <- sumn_scal. replace (sumn nP (fun k => x i * (w k * dform f k (basis i k) (basis j k))) * y j)
      with (y j * sumn nP (fun k => x i * (w k * dform f k (basis i k) (basis j k)))) by ring.
    rewrite <- sumn_scal. apply sumn_ext; intros; ring. }
  transitivity (sumn nd (fun i => sumn nP (fun p => sumn nd (fun j => w p * (x i * (y j * dform f p (basis i p) (basis j p))))))).
  { apply sumn_ext; intros i _. apply sumn_comm. }
  rewrite sumn_comm. apply sumn_ext; intros p _.
  rewrite dform_fsum_l. rewrite <- sumn_scal. apply sumn_ext; intros i _.
  rewrite dform_fsum_r. rewrite <- sumn_scal. rewrite <- sumn_scal. apply sumn_ext; intros j _. ring.
Qed.

End Forms.

(* ---------- the basis the code activates (Field.__call__, Field.grad) ---------- *)
Section Basis.
Variable n dof_n : nat.
Variable N : nat -> nat -> R.          (* N p a      *)
Variable dN : nat -> nat -> nat -> R.  (* dN p k a = d N_a / d x_k at point p *)

(* uses_dof = whether Field.__call__ places N in the slot of the active dof (vector field) or
   returns the bare scalar N whatever the active dof (read from the source, Gen_Forms.v) *)
Definition basis_nd (uses_dof : bool) (a d p : nat) : fdata :=
  {| fval := fun k => if Nat.eqb k (if uses_dof then d else 0%nat) then N p a else 0;
     fgrad := fun k l => if Nat.eqb l d then dN p k a else 0 |}.

(* node = i // dof_n, dof = i % dof_n *)
Definition basis_of (uses_dof : bool) (i p : nat) : fdata :=
  basis_nd uses_dof (i / dof_n) (i mod dof_n) p.

Lemma decode : forall a d, (d < dof_n)%nat ->
  ((a * dof_n + d) / dof_n = a /\ (a * dof_n + d) mod dof_n = d)%nat.
Proof.
  intros a d H. split.
  - rewrite Nat.div_add_l by lia. rewrite Nat.div_small by lia. lia.
  - rewrite Nat.add_comm, Nat.mod_add by lia. apply Nat.mod_small. lia.
Qed.
End Basis.
