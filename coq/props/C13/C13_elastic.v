(* C13 -- corollary: a weak-form linear-elasticity simulation written with
     K: (2 mu Sym_Grad(u) + lambda Trace(Sym_Grad(u)) I).ddot(Sym_Grad(v)),   M: rho * u.dot(v)
   builds, entry by entry, the same global stiffness and mass matrices as the dedicated Elastic
   simulation (K_e = tE * LinearizedElasticity(groupElem, C), M_e = tE * UV(groupElem, rho, dof_n=dim))
   with the isotropic C = lambda 1x1 + 2 mu I (Kelvin-Mandel), for every mesh: any list of elements,
   any dof maps, any shape-function values, gradients and weights; dim 2 and dim 3.
   Local dof i = node * dim + component (BiLinearForm.Integrate_e: node = i // dof_n, dof = i % dof_n;
   Get_B_e_pg / Get_N_pg_rep column layout).  Both sides go through the same scatter-add
   (EFLib.C02_QuadForm.assemble, property C03); the thickness factors tW, tE are those of the two
   sources and agree on plane 2-D and on 3-D meshes (thickness_rules_agree, C13_thermal.v; the
   Elastic rule `if self.dim == 2` is re-read by translator/c16_energy.py for C16). *)
From Coq Require Import Reals List Lra Lia Arith Bool.
From EFLib Require C02_QuadForm.
From EFP Require Import C13_forms C13_builtins Gen_Builtins C13_builtins_gen.
Import ListNotations.
Open Scope R_scope.

Record velem := { v_nPe : nat; v_P : nat -> nat; v_nP : nat; v_w : nat -> R;
                  v_N : nat -> nat -> R; v_dN : nat -> nat -> nat -> R }.

Lemma split_dof : forall q i, (0 < q)%nat -> i = ((i / q) * q + i mod q)%nat /\ (i mod q < q)%nat.
Proof.
  intros q i Hq. split.
  - rewrite Nat.mul_comm. apply Nat.div_mod. lia.
  - apply Nat.mod_upper_bound. lia.
Qed.

Lemma assemble_entrywise : forall (f g : velem -> C02_QuadForm.el) (els : list velem),
  (forall e, C02_QuadForm.e_nd (f e) = C02_QuadForm.e_nd (g e)) ->
  (forall e i, C02_QuadForm.e_P (f e) i = C02_QuadForm.e_P (g e) i) ->
  (forall e a b, C02_QuadForm.e_K (f e) a b = C02_QuadForm.e_K (g e) a b) ->
  forall I J, C02_QuadForm.assemble (map f els) I J = C02_QuadForm.assemble (map g els) I J.
Proof.
  intros f g els Hn HP HK I J. unfold C02_QuadForm.assemble.
  induction els as [|e els IH]; simpl; [reflexivity|]. rewrite IH. f_equal.
  unfold C02_QuadForm.scat. rewrite Hn.
  apply C02_QuadForm.sumn_ext; intros i _. apply C02_QuadForm.sumn_ext; intros j _.
  rewrite !HP, HK. reflexivity.
Qed.

Section Elastic.
Variables (tW tE lam mu : R) (rho : nat -> R) (ud : bool).
Hypothesis same_thickness : tW = tE.

Definition mk (q : nat) (e : velem) (K : nat -> nat -> R) : C02_QuadForm.el :=
  {| C02_QuadForm.e_nd := v_nPe e * q; C02_QuadForm.e_P := v_P e; C02_QuadForm.e_K := K |}.

(* ---- stiffness, dim 2 ---- *)
Definition weakK2 (e : velem) := mk 2 e (fun i j =>
  tW * entry 2 (v_nP e) (v_w e) (v_N e) (v_dN e) ud (form_elastic lam mu) (i / 2) (i mod 2) (j / 2) (j mod 2)).
Definition dedK2 (e : velem) := mk 2 e (fun i j =>
  tE * gen_LinearizedElasticity (v_nP e) 3 (v_w e) (Bgen2 (v_dN e)) (Ciso 2 lam mu) i j).

Theorem elastic_weakform_same_K_2d : forall els I J,
  C02_QuadForm.assemble (map weakK2 els) I J = C02_QuadForm.assemble (map dedK2 els) I J.
Proof.
  intros. apply assemble_entrywise; try reflexivity.
  intros e i j. simpl. rewrite same_thickness. f_equal.
  destruct (split_dof 2 i) as [Hi Hdi]; [lia|]. destruct (split_dof 2 j) as [Hj Hdj]; [lia|].
  transitivity (gen_LinearizedElasticity (v_nP e) 3 (v_w e) (Bgen2 (v_dN e)) (Ciso 2 lam mu) (i / 2 * 2 + i mod 2) (j / 2 * 2 + j mod 2)).
  - apply form_elastic_eq_source_LinearizedElasticity_2d; assumption.
  - rewrite <- Hi, <- Hj. reflexivity.
Qed.

(* ---- stiffness, dim 3 ---- *)
Definition weakK3 (e : velem) := mk 3 e (fun i j =>
  tW * entry 3 (v_nP e) (v_w e) (v_N e) (v_dN e) ud (form_elastic lam mu) (i / 3) (i mod 3) (j / 3) (j mod 3)).
Definition dedK3 (e : velem) := mk 3 e (fun i j =>
  tE * gen_LinearizedElasticity (v_nP e) 6 (v_w e) (Bgen3 (v_dN e)) (Ciso 3 lam mu) i j).

Theorem elastic_weakform_same_K_3d : forall els I J,
  C02_QuadForm.assemble (map weakK3 els) I J = C02_QuadForm.assemble (map dedK3 els) I J.
Proof.
  intros. apply assemble_entrywise; try reflexivity.
  intros e i j. simpl. rewrite same_thickness. f_equal.
  destruct (split_dof 3 i) as [Hi Hdi]; [lia|]. destruct (split_dof 3 j) as [Hj Hdj]; [lia|].
  transitivity (gen_LinearizedElasticity (v_nP e) 6 (v_w e) (Bgen3 (v_dN e)) (Ciso 3 lam mu) (i / 3 * 3 + i mod 3) (j / 3 * 3 + j mod 3)).
  - apply form_elastic_eq_source_LinearizedElasticity_3d; assumption.
  - rewrite <- Hi, <- Hj. reflexivity.
Qed.

(* ---- mass, dim q = 2 or 3 (needs a Field.__call__ that honours the active dof) ---- *)
Definition weakM (q : nat) (e : velem) := mk q e (fun i j =>
  tW * entry q (v_nP e) (v_w e) (v_N e) (v_dN e) true (form_uv rho) (i / q) (i mod q) (j / q) (j mod q)).
Definition dedM (q : nat) (e : velem) := mk q e (fun i j =>
  tE * gen_UV (v_nP e) q (v_w e) rho (gen_Nrep q (v_N e)) i j).

Theorem elastic_weakform_same_M : forall q els I J, (2 <= q)%nat ->
  C02_QuadForm.assemble (map (weakM q) els) I J = C02_QuadForm.assemble (map (dedM q) els) I J.
Proof.
  intros q els I J Hq. apply assemble_entrywise; try reflexivity.
  intros e i j. simpl. rewrite same_thickness. f_equal.
  destruct (split_dof q i) as [Hi Hdi]; [lia|]. destruct (split_dof q j) as [Hj Hdj]; [lia|].
  transitivity (gen_UV (v_nP e) q (v_w e) rho (gen_Nrep q (v_N e)) (i / q * q + i mod q) (j / q * q + j mod q)).
  - apply form_uv_eq_source_UV_vector; try assumption; lia.
  - rewrite <- Hi, <- Hj. reflexivity.
Qed.

(* Rayleigh damping C = cK K + cM M and every time-scheme operator are linear combinations *)
Corollary elastic_weakform_same_scheme_matrix_2d : forall els (cK cM : R) I J,
  cK * C02_QuadForm.assemble (map weakK2 els) I J + cM * C02_QuadForm.assemble (map (weakM 2) els) I J =
  cK * C02_QuadForm.assemble (map dedK2 els) I J + cM * C02_QuadForm.assemble (map (dedM 2) els) I J.
Proof. intros. rewrite elastic_weakform_same_K_2d, elastic_weakform_same_M by lia. reflexivity. Qed.

End Elastic.

Print Assumptions elastic_weakform_same_K_3d.
Print Assumptions elastic_weakform_same_M.

Example elastic_instance : exists e : velem, v_nPe e = 3%nat /\ v_nP e = 1%nat.
Proof. exists {| v_nPe := 3; v_P := fun i => i; v_nP := 1; v_w := fun _ => 1 / 2; v_N := fun _ _ => 1 / 3; v_dN := fun _ k a => INR (k + a) |}. split; reflexivity. Qed.
