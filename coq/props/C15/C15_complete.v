(* every live field and every internal variable committed by Save_Iter is stored in the entry
   (otherwise restore_exact, which speaks about the stored fields, does not cover it) *)
From Coq Require Import List Bool Arith NArith.
Import ListNotations.
From EFModel Require Import C15_IterStore.
From EFP Require Import Gen_C15.

Lemma C15_all_fields_stored : forallb (fun c => forallb (fun b : bool => b) (stored c)) all_cfgs = true.
Proof. vm_compute. reflexivity. Qed.
