(* compiled only when the source's Get_results returns a deep copy: then writing into anything
   the user was handed never changes a stored iteration, for ALL op lists (writes included) *)
From Coq Require Import List Bool Arith NArith.
Import ListNotations.
From EFModel Require Import C15_IterStore C15_MemDisk C15_MemDiskW.
From EFP Require Import Gen_C15 C15_store.

Lemma all_deep : forallb deep_read all_cfgs = true.
Proof. vm_compute. reflexivity. Qed.

Theorem C15_no_alias_backward : forall c, In c all_cfgs -> forall ops k v,
  store_vals c (step c (WriteRet k v) (reach c ops)) = store_vals c (reach c ops).
Proof.
  intros c H ops k v. apply no_alias_backward; [apply all_cfgs_ok; auto|].
  pose proof all_deep as A. rewrite forallb_forall in A. auto.
Qed.

(* and restoration is exact whatever the user wrote into the arrays he was handed *)
Theorem C15_restore_exact_with_writes : forall c, In c all_cfgs -> forall ops i,
  i < length (store (run c ops (init c))) ->
  exists g, nth_error (ghost (run c ops (init c))) i = Some g /\
    mesh (set_iter c i (run c ops (init c))) = fst g /\
    mask (stored c) (vals (set_iter c i (run c ops (init c)))) = mask (stored c) (snd g).
Proof.
  intros c H ops i Hi. apply C15_restore_exact; auto. left.
  pose proof all_deep as A. rewrite forallb_forall in A. auto.
Qed.
(* ... and for index-wise writes (arr[i] = x) *)
Theorem C15_no_alias_backward_at : forall c, In c all_cfgs -> forall ops k i x,
  store_vals c (step c (WriteRetAt k i x) (reach c ops)) = store_vals c (reach c ops).
Proof.
  intros c H ops k i x. apply no_alias_backward_at; [apply all_cfgs_ok; auto|].
  pose proof all_deep as A. rewrite forallb_forall in A. auto.
Qed.
(* memory store = disk store for ALL op lists, user writes included (the source deep-copies on read) *)
Theorem C15_mem_disk_equiv_writes : forall c, In c all_cfgs -> forall ops1 ops2, map strip ops1 = map strip ops2 ->
  absw (reach c ops1) = absw (reach c ops2) /\ store_vals c (reach c ops1) = store_vals c (reach c ops2).
Proof.
  intros c H ops1 ops2 E. apply mem_disk_equiv_writes; auto; [apply all_cfgs_ok; auto|].
  pose proof all_deep as A. rewrite forallb_forall in A. auto.
Qed.
(* Load_Simu (Save s) behaves like s for EVERY continuation, from every reachable state *)
Theorem C15_save_load_every_continuation : forall c, In c all_cfgs -> forall ops f ops',
  let sL := run c ops' (step c (SaveLoad f) (reach c ops)) in
  let sO := run c ops' (drop_handed (step c (SetFolder f) (reach c ops))) in
  absw sL = absw sO /\ store_vals c sL = store_vals c sO /\ folder sL = folder sO /\ length (store sL) = length (store sO).
Proof.
  intros c H ops f ops'. apply save_load_every_continuation_reachable; [apply all_cfgs_ok; auto|].
  pose proof all_deep as A. rewrite forallb_forall in A. auto.
Qed.
Print Assumptions C15_save_load_every_continuation.
(* Print Assumptions C15_mem_disk_equiv_writes: printed for the general theorem in the EFModel file (static build) *)
(* Print Assumptions C15_no_alias_backward_at: printed for the general theorem in the EFModel file (static build) *)
Print Assumptions C15_no_alias_backward.
(* Print Assumptions C15_restore_exact_with_writes: printed for the general theorem in the EFModel file (static build) *)
