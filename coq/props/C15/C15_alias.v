(* compiled when the source's Get_results returns the shallow `entry.copy()`: the model, with the
   flags derived from the source, exhibits the aliasing trace for every configuration:
   [solve; save_iter; get_results 0; write into the returned array; get_results 0] — the stored
   iteration reads differently the second time (here the write is a PARTIAL one: a single cell). *)
From Coq Require Import List Bool Arith NArith.
Import ListNotations.
From EFModel Require Import C15_IterStore.
From EFP Require Import Gen_C15 C15_store.

Definition N_eqb_list (a b : list N) : bool :=
  (length a =? length b) && forallb (fun p => N.eqb (fst p) (snd p)) (combine a b).
Definition dict_eqb (a b : option dictv) : bool :=
  match a, b with
  | Some (m, x), Some (n, y) => (m =? n) && (length x =? length y) && forallb (fun p => N_eqb_list (fst p) (snd p)) (combine x y)
  | None, None => true
  | _, _ => false
  end.
Definition aliases (c : config) : bool :=
  let vs := map (fun n => A (N.of_nat n)) (seq 5 (nf c)) in
  let s1 := reach c [Solve vs; SaveIter; GetResults 0] in
  let s2 := reach c [Solve vs; SaveIter; GetResults 0; WriteRetAt 0 1 99%N; GetResults 0] in
  negb (dict_eqb (hd None (store_vals c s1)) (hd None (store_vals c s2))).

Example C15_alias_trace_current_source : forallb aliases all_cfgs = true.
Proof. vm_compute. reflexivity. Qed.
Print Assumptions C15_alias_trace_current_source.
