(* C03 -- node-renumbering equivariance and canonical pattern (restated from EFModel.C03_Renumber) *)
From Coq Require Import ZArith List Bool Lia.
From EFModel Require Import C03_Csr C03_Assembly C03_Renumber C03_Exec.
Import ListNotations.
Open Scope Z_scope.

Section AnyMonoid.
Variable V : Type.
Variable vadd : V -> V -> V.
Variable vzero : V.
Hypothesis vadd_comm : forall a b, vadd a b = vadd b a.
Hypothesis vadd_assoc : forall a b c, vadd a (vadd b c) = vadd (vadd a b) c.
Hypothesis vadd_0_l : forall a, vadd vzero a = a.

(* T5: for ANY injective relabelling pi of the nodes [0,Nn) the assembly of the renumbered mesh is
   the permuted assembly  A'[phat r, phat c] = A[r, c]  (P A P^T ; P b for vectors), where
   phat (n*dof_n + d) = pi(n)*dof_n + d.  All connectivities, groups, dof_n, values, Ndof >= Nn*dof_n. *)
Theorem C03_renumber_equivariant :
  forall Nn dof_n Ndof (isMatrix : bool) (gs : list group) (data : list V) (pi : Z -> Z),
  0 < dof_n -> Nn * dof_n <= Ndof ->
  (forall g, In g gs -> nodes_ok Nn g) ->
  (forall n, 0 <= n < Nn -> 0 <= pi n < Nn) ->
  (forall a b, 0 <= a < Nn -> 0 <= b < Nn -> pi a = pi b -> a = b) ->
  let rc := rows_cols dof_n isMatrix gs in
  let rc' := rows_cols dof_n isMatrix (renumber pi gs) in
  let A := assemble_with V vadd vzero (get_csr_map isMatrix Ndof (fst rc) (snd rc)) data in
  let A' := assemble_with V vadd vzero (get_csr_map isMatrix Ndof (fst rc') (snd rc')) data in
  forall r c, 0 <= r < Nn * dof_n -> (if isMatrix then 0 <= c < Nn * dof_n else c = 0) ->
  csr_get V vadd vzero A' (phat dof_n pi r) (if isMatrix then phat dof_n pi c else 0)
  = csr_get V vadd vzero A r c.
Proof. intros. now apply (renumber_equivariant V vadd vzero vadd_comm vadd_assoc vadd_0_l Nn). Qed.

(* T6: the assembled CSR is in canonical form: per row, column indices strictly increasing (sorted and
   duplicate-free) and inside [0, ncol); indices/data have equal length; indptr has Ndof+1 entries *)
Theorem C03_csr_canonical :
  forall (isMatrix : bool) Ndof rows cols (data : list V),
  let ncol := if isMatrix then Ndof else 1 in
  (forall rc, In rc (combine rows cols) -> in_range Ndof ncol rc) ->
  let M := assemble_with V vadd vzero (get_csr_map isMatrix Ndof rows cols) data in
  length (c_indices V M) = length (c_data V M) /\
  length (c_indptr V M) = Z.to_nat (Ndof + 1) /\
  forall r, 0 <= r < Ndof ->
    let lo := nth (Z.to_nat r) (c_indptr V M) O in
    let hi := nth (S (Z.to_nat r)) (c_indptr V M) O in
    ssorted (slice lo hi (c_indices V M)) /\
    forall j, In j (slice lo hi (c_indices V M)) -> 0 <= j < ncol.
Proof. intros. now apply csr_canonical. Qed.
End AnyMonoid.

Print Assumptions C03_renumber_equivariant.
Print Assumptions C03_csr_canonical.

(* non-vacuity of T5: a cyclic shift of 4 nodes on a two-triangle mesh *)
Definition ex_pi (n : Z) : Z := (n + 1) mod 4.
Example C03_renumber_hyps_satisfiable :
  (forall g, In g [[[0;1;2];[2;1;3]]] -> nodes_ok 4 g) /\
  (forall n, 0 <= n < 4 -> 0 <= ex_pi n < 4) /\
  (forall a b, 0 <= a < 4 -> 0 <= b < 4 -> ex_pi a = ex_pi b -> a = b).
Proof.
  split; [|split].
  - intros g [<-|[]] conn n Hc Hn. simpl in Hc. destruct Hc as [<-|[<-|[]]]; simpl in Hn; intuition lia.
  - intros n Hn. unfold ex_pi. apply Z.mod_pos_bound. lia.
  - intros a b Ha Hb. unfold ex_pi.
    assert (a = 0 \/ a = 1 \/ a = 2 \/ a = 3) as Ea by lia.
    assert (b = 0 \/ b = 1 \/ b = 2 \/ b = 3) as Eb by lia.
    destruct Ea as [Ea|[Ea|[Ea|Ea]]]; destruct Eb as [Eb|[Eb|[Eb|Eb]]]; subst a b; vm_compute; intros E; congruence.
Qed.

Example C03_renumber_eval :
  let gs := [[[0;1;2];[2;1;3]]] in
  let data := map Z.of_nat (seq 1 18) in
  let rc := rows_cols 1 true gs in let rc' := rows_cols 1 true (renumber ex_pi gs) in
  let A := assemble_with Z Z.add 0 (get_csr_map true 4 (fst rc) (snd rc)) data in
  let A' := assemble_with Z Z.add 0 (get_csr_map true 4 (fst rc') (snd rc')) data in
  forallb (fun r => forallb (fun c => csr_get Z Z.add 0 A' (ex_pi r) (ex_pi c) =? csr_get Z Z.add 0 A r c) [0;1;2;3]) [0;1;2;3] = true.
Proof. vm_compute. reflexivity. Qed.
