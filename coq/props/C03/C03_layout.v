(* C03 -- layout independence of the element-array -> flat data step (restated from EFModel.C03_Layout) *)
From Coq Require Import ZArith List Bool Lia.
From EFModel Require Import C03_Layout.
Import ListNotations.
Open Scope Z_scope.

(* T9: a 3-d numpy array modelled as (shape, strides, offset, buffer); `get a e i j` is the logical read.
   ravel(order='C') -- what X_e.ravel() must be for __Assemble_csr -- puts the LOGICAL entry (e, i, j) of the element
   array at flat position (e*n1 + i)*n2 + j for ANY strides and offset: exactly the position the model's
   rows/cols layouts (C03_layout_is_cartesian_product) pair with the key (asm_e[i], asm_e[j]). *)
Theorem C03_ravelC_position :
  forall (V : Type) (a : sarr V) e i j d,
  (e < n0 V a)%nat -> (i < n1 V a)%nat -> (j < n2 V a)%nat ->
  nth ((e * n1 V a + i) * n2 V a + j) (ravelC V a) d = get V a e i j.
Proof. exact ravelC_nth. Qed.

Theorem C03_ravelC_layout_independent :
  forall (V : Type) (a b : sarr V),
  n0 V a = n0 V b -> n1 V a = n1 V b -> n2 V a = n2 V b ->
  (forall e i j, (e < n0 V a)%nat -> (i < n1 V a)%nat -> (j < n2 V a)%nat -> get V a e i j = get V b e i j) ->
  ravelC V a = ravelC V b.
Proof. exact ravelC_layout_independent. Qed.

(* a memory-order ravel (order='K', the seeded C03-7 change) is refuted: the transposed view of the buffer 0,1,2,3 and
   the contiguous array with the same logical content [[0,2],[1,3]] have the same C-ravel but different K-ravels *)
Theorem C03_ravelK_refuted :
  (forall e i j, (e < 1)%nat -> (i < 2)%nat -> (j < 2)%nat -> get Z wit e i j = get Z wit_contig e i j) /\
  ravelC Z wit = [0; 2; 1; 3] /\ ravelC Z wit_contig = [0; 2; 1; 3] /\
  ravelK Z wit = [0; 1; 2; 3] /\ ravelK Z wit_contig = [0; 2; 1; 3].
Proof. exact ravelK_refuted. Qed.

Print Assumptions C03_ravelC_position.
Print Assumptions C03_ravelC_layout_independent.
Print Assumptions C03_ravelK_refuted.

(* T10: the property in its literal form, for one element group, any memory layout of its element array, any
   connectivity / dof_n / values / Ndof:  the matrix denoted by the assembled CSR has, at (r, c), the sum over elements e
   and local indices i, j with asm_e[i] = r and asm_e[j] = c of the LOGICAL entry Ke[e, i, j] -- the element matrices
   placed at the rows and columns given by the connectivity, nothing dropped, duplicated or misplaced. *)
From EFModel Require Import C03_Csr C03_Assembly C03_Element.

Theorem C03_assembly_is_sum_of_element_matrices :
  forall (V : Type) (vadd : V -> V -> V) (vzero : V),
  (forall a b, vadd a b = vadd b a) -> (forall a b c, vadd a (vadd b c) = vadd (vadd a b) c) -> (forall a, vadd vzero a = a) ->
  forall Nn dof_n Ndof (g : group) (n : nat) (K : sarr V) r c,
  0 < dof_n -> Nn * dof_n <= Ndof -> nodes_ok Nn g ->
  (forall conn, In conn g -> length (assembly_e dof_n conn) = n) ->
  n0 V K = length g -> n1 V K = n -> n2 V K = n ->
  0 <= r < Ndof -> 0 <= c < Ndof ->
  let rc := rows_cols dof_n true [g] in
  csr_get V vadd vzero (assemble_with V vadd vzero (get_csr_map true Ndof (fst rc) (snd rc)) (ravelC V K)) r c
  = element_sum V vadd vzero dof_n g n K r c.
Proof.
  intros V vadd vzero Hc Ha H0 Nn dof_n Ndof g n K r c Hd HN Hok Hlen E0 E1 E2 Hr Hcc rc.
  unfold rc. rewrite (csr_refines_dense V vadd vzero Hc Ha H0 true Ndof); try assumption.
  - now apply dense_sum_is_sum_of_element_matrices.
  - apply (rows_cols_range Nn dof_n true Ndof [g]); try assumption. intros g' [<-|[]]. assumption.
Qed.
Print Assumptions C03_assembly_is_sum_of_element_matrices.

(* non-vacuity / evaluation: two SEG2 elements sharing node 1, dof_n = 1, element arrays [[1,2],[3,4]] and [[10,20],[30,40]]
   stored TRANSPOSED in memory (strides of the last two axes swapped) *)
Definition exK : sarr Z :=
  {| n0 := 2; n1 := 2; n2 := 2; s0 := 4; s1 := 1; s2 := 2; off := 0;
     buf := fun k => nth (Z.to_nat k) [1; 3; 2; 4; 10; 30; 20; 40] 0 |}.
Example C03_element_sum_example :
  ravelC Z exK = [1; 2; 3; 4; 10; 20; 30; 40] /\
  map (fun rc => element_sum Z Z.add 0 1 [[0; 1]; [1; 2]] 2 exK (fst rc) (snd rc)) [(0,0); (0,1); (1,0); (1,1); (1,2); (2,1); (2,2); (0,2)]
  = [1; 2; 3; 14; 20; 30; 40; 0].
Proof. split; vm_compute; reflexivity. Qed.

(* T10': several groups.  `ts` lists, in dict order, the groups that CONTRIBUTE to a slot (those whose entry is not None:
   what `dict_groups` / `dict_data` of C03_assemble_csr_correct keep) with their block size and logical element array:
   the assembled matrix is the sum over the contributing groups of their element sums -- a group that is absent for this
   slot contributes nothing, a group present in K but absent in M changes K only. *)
Theorem C03_assembly_is_sum_over_groups_of_element_matrices :
  forall (V : Type) (vadd : V -> V -> V) (vzero : V),
  (forall a b, vadd a b = vadd b a) -> (forall a b c, vadd a (vadd b c) = vadd (vadd a b) c) -> (forall a, vadd vzero a = a) ->
  forall Nn dof_n Ndof (ts : list (gspec V)) r c,
  0 < dof_n -> Nn * dof_n <= Ndof ->
  (forall t, In t ts -> nodes_ok Nn (fst (fst t)) /\ gs_ok V dof_n t) ->
  0 <= r < Ndof -> 0 <= c < Ndof ->
  let rc := rows_cols dof_n true (map (fun t => fst (fst t)) ts) in
  csr_get V vadd vzero (assemble_with V vadd vzero (get_csr_map true Ndof (fst rc) (snd rc)) (flat_map (fun t => ravelC V (snd t)) ts)) r c
  = vsum V vadd vzero (map (fun t => element_sum V vadd vzero dof_n (fst (fst t)) (snd (fst t)) (snd t) r c) ts).
Proof.
  intros V vadd vzero Hc Ha H0 Nn dof_n Ndof ts r c Hd HN Hok Hr Hcc rc.
  unfold rc. rewrite (csr_refines_dense V vadd vzero Hc Ha H0 true Ndof); try assumption.
  - apply (dense_sum_is_sum_over_groups V vadd vzero Ha H0). intros t Ht. now apply Hok.
  - apply (rows_cols_range Nn dof_n true Ndof); try assumption.
    intros g Hg. apply in_map_iff in Hg. destruct Hg as (t & <- & Ht). now apply Hok.
Qed.
Print Assumptions C03_assembly_is_sum_over_groups_of_element_matrices.

(* non-vacuity: a SEG2 group (2 elements) and a POINT group (1 element) contributing to the same slot *)
Definition exP : sarr Z := {| n0 := 1; n1 := 1; n2 := 1; s0 := 1; s1 := 1; s2 := 1; off := 0; buf := fun _ => 100 |}.
Example C03_groups_example :
  let ts : list (gspec Z) := [([[0; 1]; [1; 2]], 2%nat, exK); ([[1]], 1%nat, exP)] in
  (forall t, In t ts -> nodes_ok 3 (fst (fst t)) /\ gs_ok Z 1 t) /\
  vsum Z Z.add 0 (map (fun t => element_sum Z Z.add 0 1 (fst (fst t)) (snd (fst t)) (snd t) 1 1) ts) = 114.
Proof.
  split; [|vm_compute; reflexivity].
  intros t [<-|[<-|[]]]; (split; [intros conn n Hc Hn; simpl in Hc; repeat (destruct Hc as [<-|Hc]; [simpl in Hn; intuition lia|]); contradiction|]);
  (split; [intros conn Hc; simpl in Hc; repeat (destruct Hc as [<-|Hc]; [reflexivity|]); contradiction|repeat split]).
Qed.
