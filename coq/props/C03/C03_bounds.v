(* C03 -- fixed-width index arithmetic and cache keys as abstract identities
   (restated from EFModel.C03_Bounds) *)
From Coq Require Import ZArith List Bool Lia.
From EFModel Require Import C03_Csr C03_Assembly C03_Bounds.
Import ListNotations.
Open Scope Z_scope.

(* T7: no overflow.  The code computes the element keys as  rows.astype(int64) * ncol + cols  in two's-complement
   64-bit arithmetic (every operation wrapping: `wrap 64`).  If Ndof^2 < 2^63 the map computed with the wrapped
   keys IS the model's map over unbounded integers, so T1..T6 apply to the code's arithmetic. *)
Theorem C03_int64_keys_exact :
  forall (isMatrix : bool) Ndof rows cols,
  0 < Ndof -> Ndof * Ndof < 2 ^ 63 ->
  (forall rc, In rc (combine rows cols) -> in_range Ndof (if isMatrix then Ndof else 1) rc) ->
  get_csr_map_w 64 isMatrix Ndof rows cols = get_csr_map isMatrix Ndof rows cols.
Proof. exact get_csr_map_int64_exact. Qed.

Theorem C03_keys_exact_for_any_width :
  forall w (isMatrix : bool) Ndof rows cols,
  0 < w -> 0 < Ndof -> Ndof * Ndof < 2 ^ (w - 1) ->
  (forall rc, In rc (combine rows cols) -> in_range Ndof (if isMatrix then Ndof else 1) rc) ->
  get_csr_map_w w isMatrix Ndof rows cols = get_csr_map isMatrix Ndof rows cols.
Proof. exact get_csr_map_no_overflow. Qed.

(* ... and a 32-bit key is wrong from Ndof = 46341 on (witness: entries (0,0) and (46340,46340)) *)
Theorem C03_int32_keys_refuted :
  let Ndof := 46341 in let rows := [0; 46340] in let cols := [0; 46340] in
  (forall rc, In rc (combine rows cols) -> in_range Ndof Ndof rc) /\
  m_inv (get_csr_map_w 32 true Ndof rows cols) = [O; O] /\
  m_inv (get_csr_map true Ndof rows cols) = [O; 1%nat].
Proof. exact get_csr_map_int32_refuted. Qed.

(* T8: cache keys as abstract identities.  Whatever the implementation uses as dictionary key (`abs k`), the
   cache returns the fresh map after ANY history of requests and clears iff `abs` determines the map on the
   requested keys (`determining`).  Object identity (the key itself) does; a key that replaces the group
   objects by an (element type, element count) signature does not: two distinct one-element SEG2 groups. *)
Theorem C03_abs_cache_sound :
  forall (K : Type) (abs : key -> K) (K_eqb : K -> K -> bool),
  (forall a b, K_eqb a b = true <-> a = b) ->
  forall env used ops k,
  determining K abs env used -> all_used used ops -> used k ->
  fst (aget K abs K_eqb env (crun K abs K_eqb env [] ops) k) = fresh_map env k.
Proof. intros. now apply (abs_cache_sound K abs K_eqb H env used). Qed.

Theorem C03_abs_cache_unsound :
  forall (K : Type) (abs : key -> K) (K_eqb : K -> K -> bool),
  (forall a b, K_eqb a b = true <-> a = b) ->
  forall env k1 k2, abs k1 = abs k2 -> fresh_map env k1 <> fresh_map env k2 ->
  fst (aget K abs K_eqb env (crun K abs K_eqb env [] [CGet k1]) k2) <> fresh_map env k2.
Proof. intros. now apply abs_cache_unsound. Qed.

Theorem C03_identity_key_determining : forall env used, determining key (fun k => k) env used.
Proof. exact identity_key_determining. Qed.

Theorem C03_signature_key_refuted :
  let k1 : key := (1, true, 4, [1]) in let k2 : key := (1, true, 4, [2]) in
  sig_key (fun _ => 1) sig_env k1 = sig_key (fun _ => 1) sig_env k2 /\
  fresh_map sig_env k1 <> fresh_map sig_env k2.
Proof. exact signature_key_not_determining. Qed.

Print Assumptions C03_int64_keys_exact.
Print Assumptions C03_int32_keys_refuted.
Print Assumptions C03_abs_cache_sound.
Print Assumptions C03_abs_cache_unsound.
Print Assumptions C03_signature_key_refuted.

(* non-vacuity of T7: the largest system of the large-index correspondence cases satisfies the bound *)
Example C03_bound_satisfiable : 0 < 120000 /\ 120000 * 120000 < 2 ^ 63 /\ in_range 120000 120000 (119999, 119999).
Proof. unfold in_range. simpl. lia. Qed.

(* T11: homogeneity of the assembly in the element values.  For every additive map phi of the values (a change of units
   x |-> s*x, conjugation, real part, ...), assembling phi(values) with the same map gives phi of every assembled
   coefficient and the same pattern: the assembly cannot depend on the magnitude of the values. *)
From EFModel Require Import C03_Homog.
Theorem C03_assembly_homogeneous :
  forall (V : Type) (vadd : V -> V -> V) (vzero : V) (phi : V -> V),
  (forall a b, phi (vadd a b) = vadd (phi a) (phi b)) -> phi vzero = vzero ->
  forall (m : csrmap) data,
  c_data V (assemble_with V vadd vzero m (map phi data)) = map phi (c_data V (assemble_with V vadd vzero m data)) /\
  c_indices V (assemble_with V vadd vzero m (map phi data)) = c_indices V (assemble_with V vadd vzero m data) /\
  c_indptr V (assemble_with V vadd vzero m (map phi data)) = c_indptr V (assemble_with V vadd vzero m data).
Proof. intros. now apply assemble_homogeneous. Qed.
Print Assumptions C03_assembly_homogeneous.

Example C03_homogeneous_example :   (* scaling integers by 2^60 *)
  (forall a b, 2 ^ 60 * (a + b) = 2 ^ 60 * a + 2 ^ 60 * b) /\ 2 ^ 60 * 0 = 0.
Proof. split; intros; lia. Qed.
