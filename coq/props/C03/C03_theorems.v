(* C03 -- assembly is the exact scatter-add of element contributions, for any numbering.
   Property theorems (restated from EFModel.C03_Csr / C03_Assembly) + non-vacuity examples. *)
From Coq Require Import ZArith List Bool Lia.
From EFModel Require Import C03_Csr C03_Assembly C03_Exec.
Import ListNotations.
Open Scope Z_scope.

Section AnyMonoid.
Variable V : Type.
Variable vadd : V -> V -> V.
Variable vzero : V.
Hypothesis vadd_comm : forall a b, vadd a b = vadd b a.
Hypothesis vadd_assoc : forall a b c, vadd a (vadd b c) = vadd (vadd a b) c.
Hypothesis vadd_0_l : forall a, vadd vzero a = a.

(* T1: the CSR produced from the reduction map (sorted unique keys, searchsorted positions, bincount)
   denotes exactly the dense scatter-add of the (row, col, value) triplets: nothing is dropped,
   duplicated or misplaced -- for ALL row/col/value lists (any connectivity, any dof_n, any values). *)
Theorem C03_csr_refines_dense :
  forall (isMatrix : bool) (Ndof : Z) (rows cols : list Z) (data : list V),
  let ncol := if isMatrix then Ndof else 1 in
  (forall rc, In rc (combine rows cols) -> in_range Ndof ncol rc) ->
  forall r c, 0 <= r < Ndof -> 0 <= c < ncol ->
  csr_get V vadd vzero (assemble_with V vadd vzero (get_csr_map isMatrix Ndof rows cols) data) r c
  = dense_sum V vadd vzero rows cols data r c.
Proof. intros. now apply csr_refines_dense. Qed.

(* T2: one __Assemble_csr call (None-filtering, the three empty shortcuts, cached map) *)
Theorem C03_assemble_csr_correct :
  forall env c Nn dof_n Ndof isMatrix (d : dict V),
  cache_inv env c -> 0 < dof_n -> Nn * dof_n <= Ndof ->
  (forall g, In g (dict_groups V d) -> nodes_ok Nn (env g)) ->
  let res := assemble_csr V vadd vzero env c dof_n Ndof isMatrix d in
  cache_inv env (snd res) /\
  forall r cc, 0 <= r < Ndof -> 0 <= cc < (if isMatrix then Ndof else 1) ->
    csr_get V vadd vzero (fst res) r cc = slot_spec V vadd vzero env dof_n isMatrix d r cc.
Proof. intros. now apply (assemble_csr_correct V vadd vzero vadd_comm vadd_assoc vadd_0_l env c Nn). Qed.

(* T3: histories.  After ANY sequence of Assembly / cache clear / mesh replacement / mesh switch /
   boundary-condition additions (which change Ndof and therefore the pattern key) / Bc_Init /
   Need_Update, the next Assembly() returns in each of the slots K, C, M, F (in this order) the dense
   scatter-add of the contributing groups for the CURRENT mesh and Ndof. *)
Theorem C03_assembly_after_any_history :
  forall env0 Nn0 (ops : list (op V)) pt dof_n (t : table V),
  let s0 := {| s_env := env0; s_Nn := Nn0; s_bcs := []; s_cache := [] |} in
  ops_ok V vadd vzero s0 ops ->
  let s := run V vadd vzero s0 ops in
  0 < dof_n -> table_ok V s t ->
  let N := ndof s pt dof_n in
  let res := fst (assembly V vadd vzero s pt dof_n t) in
  slot_ok V vadd vzero s dof_n N true (tK V t) (oK V res) /\
  slot_ok V vadd vzero s dof_n N true (tC V t) (oC V res) /\
  slot_ok V vadd vzero s dof_n N true (tM V t) (oM V res) /\
  slot_ok V vadd vzero s dof_n N false (tF V t) (oF V res).
Proof. intros. now apply (assembly_after_any_history V vadd vzero vadd_comm vadd_assoc vadd_0_l). Qed.

(* T4: a map served from the cache is the fresh map of the requested key, after any history *)
Theorem C03_cache_sound :
  forall env0 Nn0 (ops : list (op V)) k,
  let s0 := {| s_env := env0; s_Nn := Nn0; s_bcs := []; s_cache := [] |} in
  ops_ok V vadd vzero s0 ops ->
  let s := run V vadd vzero s0 ops in
  fst (get_map_cached (s_env s) (s_cache s) k) = fresh_map (s_env s) k.
Proof. intros. now apply (cache_sound V vadd vzero vadd_comm vadd_assoc vadd_0_l). Qed.
End AnyMonoid.

Print Assumptions C03_csr_refines_dense.
Print Assumptions C03_assemble_csr_correct.
Print Assumptions C03_assembly_after_any_history.
Print Assumptions C03_cache_sound.

(* layout: entry k = i*ndof + j of a flattened element matrix goes to (asm[i], asm[j]) *)
Theorem C03_layout_is_cartesian_product :
  forall dof_n gs,
  let rc := rows_cols dof_n true gs in
  combine (fst rc) (snd rc)
  = flat_map (fun g => flat_map (fun conn => list_prod (assembly_e dof_n conn) (assembly_e dof_n conn)) g) gs.
Proof. exact mat_keys_prod. Qed.
Print Assumptions C03_layout_is_cartesian_product.

(* dof numbering: exactly the numbers node*dof_n + d, d < dof_n *)
Theorem C03_dof_numbering :
  forall dof_n conn x,
  In x (assembly_e dof_n conn) <-> exists n d, In n conn /\ 0 <= d < dof_n /\ x = n * dof_n + d.
Proof. exact in_assembly_e. Qed.
Print Assumptions C03_dof_numbering.

(* ---- instances: integers, and pairs (the complex stream) ---------- *)
Theorem C03_refines_dense_Z :
  forall (isMatrix : bool) Ndof rows cols (data : list Z),
  (forall rc, In rc (combine rows cols) -> in_range Ndof (if isMatrix then Ndof else 1) rc) ->
  forall r c, 0 <= r < Ndof -> 0 <= c < (if isMatrix then Ndof else 1) ->
  csr_get Z Z.add 0 (assemble_with Z Z.add 0 (get_csr_map isMatrix Ndof rows cols) data) r c
  = dense_sum Z Z.add 0 rows cols data r c.
Proof. intros. now apply (csr_refines_dense Z Z.add 0 Z.add_comm Z.add_assoc Z.add_0_l). Qed.

Theorem C03_refines_dense_complex :
  forall (isMatrix : bool) Ndof rows cols (data : list (Z * Z)),
  (forall rc, In rc (combine rows cols) -> in_range Ndof (if isMatrix then Ndof else 1) rc) ->
  forall r c, 0 <= r < Ndof -> 0 <= c < (if isMatrix then Ndof else 1) ->
  csr_get _ cadd czero (assemble_with _ cadd czero (get_csr_map isMatrix Ndof rows cols) data) r c
  = dense_sum _ cadd czero rows cols data r c.
Proof. intros. now apply (csr_refines_dense _ cadd czero cadd_comm cadd_assoc cadd_0_l). Qed.
Print Assumptions C03_refines_dense_complex.

(* ---- non-vacuity: the hypotheses are satisfiable on a concrete two-group mesh and history ---- *)
Definition ex_env := env_of [(1, [[0;1;2];[2;1;3]]); (2, [[0;1];[3;2]])].
Definition ex_ops : list (op Z) :=
  [OAssembly Z 0 2 [(1, (Some (map Z.of_nat (seq 0 72)), None, None, Some [1;2;3;4;5;6;7;8;9;10;11;12]))];
   OAddBc Z (BLag 0); OAddBc Z (BDir 0 [1;1;3]); OClear Z; OSetMesh Z ex_env 4; ONeedUpdate Z].
Definition ex_s0 := {| s_env := ex_env; s_Nn := 4; s_bcs := []; s_cache := [] |}.

Lemma nodes_ok_b Nn g :
  forallb (forallb (fun n => (0 <=? n) && (n <? Nn))) g = true -> nodes_ok Nn g.
Proof.
  intros H conn n Hc Hn. rewrite forallb_forall in H. specialize (H conn Hc).
  rewrite forallb_forall in H. specialize (H n Hn). lia.
Qed.

Example C03_hyps_satisfiable :
  ops_ok Z Z.add 0 ex_s0 ex_ops /\
  table_ok Z (run Z Z.add 0 ex_s0 ex_ops) [(2, (Some [1;2;3;4;5;6;7;8], None, None, None))] /\
  (forall rc, In rc (combine [0;1;1] [1;1;0]) -> in_range 2 2 rc).
Proof.
  split; [|split].
  - split; [split; [lia|]|simpl; tauto].
    intros x [<-|[]]. apply nodes_ok_b. reflexivity.
  - intros x [<-|[]]. apply nodes_ok_b. reflexivity.
  - intros rc H. simpl in H. unfold in_range. intuition (subst; simpl; lia).
Qed.

(* a concrete evaluation: two elements sharing an edge, dof_n = 1 *)
Example C03_eval_example :
  out_flat Z (fun l => l)
    (assemble_with Z Z.add 0 (fresh_map ex_env (1, true, 4, [2])) [1;2;3;4;10;20;30;40])
  = [[1;2;3;4;40;30;20;10]; [0;1;0;1;2;3;2;3]; [0;2;4;6;8]].
Proof. vm_compute. reflexivity. Qed.
