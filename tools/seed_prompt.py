#!/usr/bin/env python3
"""Print the prompt for an independent mutation-seeding sub-agent for property Cxx."""
import json, sys
pid = sys.argv[1]
tests = sys.argv[2] if len(sys.argv) > 2 else "tests"
p = [json.loads(l) for l in open('/verif/properties.jsonl') if json.loads(l)['id'] == pid][0]
wt = "/tmp/seed_%s" % pid
mech = "; ".join("%s (%s)" % (m.get('name'), m.get('where', '')) for m in p['anchors']['mechanism'])
print(f"""You are a software engineer testing the robustness of a test suite. You work ONLY inside the git worktree {wt} (a checkout of the Python finite-element library EasyFEA; run python with `/venv/bin/python` and `PYTHONPATH={wt}`). Do not read or write anything under /verif or /repo, and do not look for other tooling on the machine.

Here is a semantic property the library is supposed to satisfy:

"{p['title']}. {p['statement']}" (Quantified over: {p['quantifier']['text']}. Relevant code: {', '.join(p['anchors']['files'])}. Mechanisms: {mech}.)

Task: produce THREE different, independent, realistic source changes (as a developer slip or a plausible "optimisation"/refactoring gone wrong would produce), each of which BREAKS this property while the package still imports and the existing test-suite still passes. Prefer changes that need something specific to manifest rather than ones ordinary use would expose at once — a particular multi-step sequence of operations, an unusual input (duplicates, collisions of sizes, degenerate or mixed cases, a rarely used option or element type), a stale cache after a specific interleaving, or two cooperating sites that each look fine alone. Avoid trivial breakage (syntax errors, exceptions at import, changes that make many tests fail).

For each change i = 1, 2, 3: (a) apply it in the worktree, (b) write a small demonstration program {wt}/demo_i.py that exits non-zero (and prints what it observed) with the change and exits zero on the original code, (c) run the existing tests to confirm they still pass with the change: `cd {wt} && /venv/bin/python -m pytest -q -p no:cacheprovider {tests} -n 6 --timeout=900` (the same tests must pass as on the original; tests under tests/Utilities/MeshIO_test.py and tests/Utilities/USD_test.py fail on the original too because optional packages are missing — ignore those), (d) save the change as a patch: `git -C {wt} diff -- EasyFEA > {wt}/patch_i.diff`, (e) revert the source (`git -C {wt} checkout -- EasyFEA`) and confirm demo_i.py exits zero on the original. Keep patch_i.diff and demo_i.py files in {wt} (untracked). Final answer: for each change, the file and line touched, what it breaks, what is needed for it to manifest, and the test results you observed.""")
