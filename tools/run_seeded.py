#!/usr/bin/env python3
"""tools/run_seeded.py [ids...]  — re-run seeded changes from /verif/seeded/<id>/ against the
current checks: scratch worktree of /repo HEAD, apply patch.diff, demo must fail, check must
report a VIOLATION; records the outcome in seeded/<id>/meta.json ('result_latest')."""
import json, os, subprocess, sys, glob, re, time
V = "/verif"
ids = sys.argv[1:] or sorted(os.path.basename(d) for d in glob.glob(V + "/seeded/C*-*"))
wt = "/tmp/seedrun_%d" % os.getpid()
subprocess.run(["git", "-C", "/repo", "worktree", "add", "--detach", wt, "HEAD"], capture_output=True)
os.makedirs(V + "/build/logs", exist_ok=True)
try:
    for sid in ids:
        d = os.path.join(V, "seeded", sid)
        meta = json.load(open(d + "/meta.json"))
        pid = meta["property"]
        subprocess.run(["git", "-C", wt, "checkout", "-q", "--", "EasyFEA"])
        env = dict(os.environ, PYTHONPATH=wt, PYTHONHASHSEED="0", MPLBACKEND="Agg")
        r0 = subprocess.run(["/venv/bin/python", d + "/demo.py"], cwd=wt, env=env, capture_output=True, timeout=1800).returncode
        if subprocess.run(["git", "-C", wt, "apply", "--check", d + "/patch.diff"], capture_output=True).returncode != 0:
            print(sid, "patch does not apply on HEAD"); meta["result_latest"] = "patch no longer applies on /repo HEAD"; json.dump(meta, open(d + "/meta.json", "w"), indent=1); continue
        subprocess.run(["git", "-C", wt, "apply", d + "/patch.diff"])
        r1 = subprocess.run(["/venv/bin/python", d + "/demo.py"], cwd=wt, env=env, capture_output=True, timeout=1800).returncode
        checks = [pid] + [c for c in meta.get("also_run", [])]
        out_all = []
        for c in checks:
            t = time.time()
            p = subprocess.run([V + "/check", c], cwd=V, env=dict(os.environ, VERIF_REPO=wt), capture_output=True, text=True, timeout=3600)
            viol = [l for l in p.stdout.splitlines() if l.startswith("VIOLATION")]
            withinput = [l for l in viol if "no-failing-input-found" not in l]
            keys = []
            for l in viol[:4]:
                m = re.search(r"replay=(\S+)", l)
                try:
                    keys.append(json.load(open(m.group(1)))["key"])
                except Exception:
                    pass
            out_all.append((c, p.returncode, len(viol), len(withinput), keys, round(time.time() - t)))
        subprocess.run(["git", "-C", wt, "checkout", "-q", "--", "EasyFEA"])
        caught = any(rc == 1 and nv > 0 for _, rc, nv, _, _, _ in out_all)
        winput = any(ni > 0 for _, _, _, ni, _, _ in out_all)
        res = ("caught" + ("" if winput else " (no failing input)")) if caught else "MISSED"
        meta["result_latest"] = {"verdict": res, "demo_rc_original": r0, "demo_rc_patched": r1,
                                 "checks": [{"check": c, "rc": rc, "violations": nv, "with_failing_input": ni, "keys": k, "secs": s} for c, rc, nv, ni, k, s in out_all]}
        json.dump(meta, open(d + "/meta.json", "w"), indent=1)
        print(sid, res, "demo", r0, r1, out_all, flush=True)
finally:
    subprocess.run(["git", "-C", "/repo", "worktree", "remove", "--force", wt], capture_output=True)
