#!/bin/bash
# tools/multi_seed.sh "1 2 3" [P] : run every quick check on /repo with each VERIF_SEED (evidence/ is restored afterwards by a default-seed run)
cd /verif
SEEDS=${1:-"1 2 3"}; P=${2:-5}
ids=$(python3 -c "import json;print(' '.join(c['property_id'] for c in json.load(open('MANIFEST.json'))['checks']))")
mkdir -p build/logs
for s in $SEEDS; do
  echo $ids | tr ' ' '\n' | xargs -P $P -I{} sh -c "VERIF_SEED=$s ./check {} > build/logs/{}.seed$s.log 2>&1; echo seed=$s {} rc=\$? \$(tail -n 1 build/logs/{}.seed$s.log | cut -c1-110)"
done
