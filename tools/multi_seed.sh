#!/bin/bash
# tools/multi_seed.sh "<seeds>" "<ids>" [P]: run quick checks for several VERIF_SEED values; prints non-zero exits
SEEDS=${1:-"2 3 4 5"}; IDS=${2:-"C01 C02 C03 C04 C05 C06 C07 C09 C10 C11 C12 C13 C14 C15 C16 C17 C18 C19 C20"}; P=${3:-5}
cd /verif; mkdir -p build/logs
for s in $SEEDS; do
  echo $IDS | tr ' ' '\n' | VERIF_SEED=$s xargs -P $P -I{} sh -c "./check {} > build/logs/{}.seed$s.log 2>&1; rc=\$?; if [ \$rc -ne 0 ]; then echo seed=$s {} rc=\$rc \$(grep -c '^VIOLATION' build/logs/{}.seed$s.log) violations; grep '^VIOLATION' build/logs/{}.seed$s.log | head -3; fi"
  echo "seed $s done"
done
