#!/venv/bin/python
"""setup_cmd: build the static Coq libraries (coq/lib, coq/model) from files on disk."""
import os, sys
sys.path.insert(0, os.path.dirname(os.path.dirname(os.path.abspath(__file__))))
from vlib import common
ok, log = common.build_static()
print(log[-3000:])
sys.exit(0 if ok else 1)
