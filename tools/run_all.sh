#!/bin/bash
# run every claimed check (quick tier by default) with P in parallel; summary on stdout
TIER=${1:-quick}; P=${2:-4}
cd /verif
ids=$(python3 -c "import json;print(' '.join(c['property_id'] for c in json.load(open('MANIFEST.json'))['checks']))")
mkdir -p build/logs
echo $ids | tr ' ' '\n' | xargs -P $P -I{} sh -c "./check {} --tier $TIER > build/logs/{}.$TIER.log 2>&1; echo {} rc=\$? \$(tail -1 build/logs/{}.$TIER.log)"
