#!/usr/bin/env python3
"""Assemble /verif/MANIFEST.json from props/meta/Cxx.json (one file per claimed property).
Properties without a meta file are listed under not_applicable with the reason in
props/meta/not_claimed.json (or a default)."""
import json, os, glob
HERE = os.path.dirname(os.path.dirname(os.path.abspath(__file__)))
props = [json.loads(l) for l in open(os.path.join(HERE, "properties.jsonl"))]
ids = [p["id"] for p in props]
nc_path = os.path.join(HERE, "props/meta/not_claimed.json")
not_claimed = json.load(open(nc_path)) if os.path.exists(nc_path) else {}
checks, na = [], []
for pid in ids:
    mp = os.path.join(HERE, "props/meta", pid + ".json")
    if os.path.exists(mp) and os.path.exists(os.path.join(HERE, "props", pid + ".py")):
        m = json.load(open(mp))
        checks.append({
            "property_id": pid,
            "quick_cmd": "./check %s --tier quick" % pid,
            "thorough_cmd": "./check %s --tier thorough" % pid,
            "evidence_file": "/verif/evidence/%s.json" % pid,
            "replay_cmd_template": "./check %s --replay {path}" % pid,
            "engine": m.get("engine", "translate+coq"),
            "level_claimed": {"category": m.get("category", "proof"), "text": m["level_text"], "design_ref": m.get("design_ref", "DESIGN.md section 3, " + pid)},
            "level_note": m["level_note"],
            "technique": m["technique"],
        })
    else:
        na.append({"property_id": pid, "reason": not_claimed.get(pid, "check not built yet in this round: no theorem + correspondence delivered for this property; see DESIGN.md section 3 for the planned model")})
man = {
    "version": 1,
    "setup_cmd": "cd /verif && /venv/bin/python tools/setup.py",
    "hooks": {"guard": "EASYFEA_VERIF", "enable": "no instrumentation needed: checks import EasyFEA from /repo (PYTHONPATH) and reach private state through name mangling", 
              "baseline_off_cmd": "cd /repo && /venv/bin/python -m pytest -ra -q -p no:cacheprovider --timeout=900 --continue-on-collection-errors",
              "source_commits": [], "add_only": True},
    "engines": [
        {"name": "translate+coq", "path": "/verif/translator + /verif/coq", "serves_properties": [c["property_id"] for c in checks], "kind_free_text": "python ast translators regenerate Coq tables from /repo on every run; theorems in coq/props re-checked by coqc (full .vo)"},
        {"name": "corr", "path": "/verif/corr", "serves_properties": [c["property_id"] for c in checks], "kind_free_text": "correspondence harness: implementation (/venv python, EasyFEA from /repo) vs model values"},
    ],
    "checks": checks,
    "not_applicable": na,
    "notes": "Technique family: machine-checked proof in Coq 8.16.1. See DESIGN.md (trusted base in section 5). known_findings.txt lists genuine defects (fixed / recorded).",
}
json.dump(man, open(os.path.join(HERE, "MANIFEST.json"), "w"), indent=1)
print("checks:", [c["property_id"] for c in checks], "not_applicable:", [n["property_id"] for n in na])
