#!/usr/bin/env python3
"""tools/import_one.py Cxx n round srcdir tag — copy srcdir/{patch,demo,note}_<tag> into /verif/seeded/Cxx-n/
with a minimal meta.json (single-seed rounds)."""
import json, os, re, shutil, sys
pid, n, rnd, src, tag = sys.argv[1], sys.argv[2], int(sys.argv[3]), sys.argv[4], sys.argv[5]
sid = "%s-%s" % (pid, n); d = "/verif/seeded/" + sid
os.makedirs(d, exist_ok=True)
shutil.copy(src + "/patch_%s.diff" % tag, d + "/patch.diff"); shutil.copy(src + "/demo_%s.py" % tag, d + "/demo.py")
files = sorted(set(re.findall(r'^\+\+\+ b/(\S+)', open(d + "/patch.diff").read(), re.M)))
note = open(src + "/note_%s.txt" % tag).read().strip() if os.path.exists(src + "/note_%s.txt" % tag) else ""
json.dump({"property": pid, "round": rnd, "files_touched": files, "needs_to_manifest": note,
           "confirmed": "tools/run_seeded.py %s: demo.py exits 0 on /repo HEAD and non-zero with patch.diff applied in a scratch worktree; the authoring sub-agent ran the full existing suite with the patch: 511 passed / 11 failed = the baseline" % sid,
           "ran": "tools/run_seeded.py %s (scratch worktree of /repo HEAD, git apply, VERIF_REPO=<worktree> ./check %s)" % (sid, pid),
           "author": "independent sub-agent (round %d) given only the property text and a scratch worktree" % rnd},
          open(d + "/meta.json", "w"), indent=1)
print("imported", sid, files)
