#!/usr/bin/env python3
"""tools/first_run.py log... — record the verdict of the FIRST run of a seeded change (before any
strengthening) in seeded/<id>/meta.json as 'result_first_run' (never overwritten)."""
import json, re, sys
for f in sys.argv[1:]:
    for l in open(f):
        m = re.match(r"(C\d\d-\d+) (caught \(no failing input\)|caught|MISSED) demo", l)
        if not m:
            continue
        p = "/verif/seeded/%s/meta.json" % m.group(1)
        meta = json.load(open(p))
        if "result_first_run" not in meta:
            meta["result_first_run"] = m.group(2)
            json.dump(meta, open(p, "w"), indent=1)
            print(m.group(1), m.group(2))
