#!/usr/bin/env python3
"""tools/run_refac.py G checks... : apply each behaviour-preserving patch /tmp/refac_G/patch_i.diff to a
scratch worktree of /repo HEAD and run the given checks; a check must exit 0 (no alarm)."""
import subprocess, sys, os, re, json, glob, shutil
g = sys.argv[1]; checks = sys.argv[2:]
# checks == ["auto"]: choose the checks from the files a patch touches (property anchors + users)
AUTO = {
 "Simulations/_simu.py": "C01 C03 C04 C05 C09 C13 C14 C15 C16 C18 C20",
 "Simulations/Solvers.py": "C01 C04 C05 C17 C18",
 "Simulations/_elastic.py": "C01 C02 C05 C14 C15 C16",
 "Simulations/_thermal.py": "C01 C02 C05 C09 C13 C15 C16",
 "Simulations/_weakforms.py": "C13 C14 C15 C16",
 "FEM/_linalg.py": "C01 C02 C03 C12 C13 C16",
 "FEM/_field.py": "C12 C13",
 "FEM/_forms.py": "C13 C03",
 "FEM/Operators": "C02 C09 C10 C13",
 "FEM/_group_elem.py": "C01 C02 C06 C07 C08 C09 C13 C16",
 "FEM/_gauss.py": "C01 C02 C07 C08 C09",
 "Utilities/_cache.py": "C02 C03 C08 C14",
 "Models/InElastic": "C14 C15 C19",
 "Simulations/_inelastic.py": "C14 C15 C19",
 "Models/_phasefield.py": "C17",
 "Simulations/_phasefield.py": "C14 C15 C16 C17",
 "Models/HyperElastic": "C10 C18",
 "Simulations/_hyperelastic.py": "C14 C15 C16 C18",
 "Models/_utils.py": "C10 C11 C13 C16 C17",
 "FEM/_boundary_conditions.py": "C01 C04 C09 C14",
 "Utilities/_params.py": "C11 C14",
 "Models/Elastic/_laws.py": "C01 C10 C11",
 "FEM/_mesh.py": "C01 C08 C10 C14 C15 C20",
 "FEM/Elems/_beam.py": "C01 C02 C06 C09 C10",
 "Models/Beam": "C02 C10", "Simulations/_beam.py": "C10 C14 C15 C16", "FEM/_mesher.py": "C20",
}
def auto_checks(patch):
    out = set()
    for f in re.findall(r"^\+\+\+ b/EasyFEA/(\S+)", open(patch).read(), re.M):
        for k, v in AUTO.items():
            if f.startswith(k):
                out |= set(v.split())
    return sorted(out) or ["C14"]
src = "/tmp/refac_%s" % g
if not os.path.isdir(src):
    src = "/verif/harmless/%s" % g  # regression run on the stored patches
wt = "/tmp/refacrun_%s" % g
subprocess.run(["git", "-C", "/repo", "worktree", "add", "--detach", wt, "HEAD"], capture_output=True)
os.makedirs("/verif/harmless/%s" % g, exist_ok=True)
res = []
try:
    for i in range(1, 7):
        p = "%s/patch_%d.diff" % (src, i)
        if not os.path.exists(p):
            continue
        if not p.startswith("/verif/harmless/"):
            shutil.copy(p, "/verif/harmless/%s/patch_%d.diff" % (g, i))
        subprocess.run(["git", "-C", wt, "checkout", "-q", "--", "EasyFEA"])
        if subprocess.run(["git", "-C", wt, "apply", p], capture_output=True).returncode != 0:
            print(g, i, "patch does not apply"); continue
        row = {}
        cl = auto_checks(p) if checks == ["auto"] else checks
        k0 = (i * 3 + sum(map(ord, g))) % len(cl)
        for c in cl[k0:] + cl[:k0]:
            q = subprocess.run(["/verif/check", c], cwd="/verif", env=dict(os.environ, VERIF_REPO=wt), capture_output=True, text=True, timeout=3600)
            viol = [l for l in q.stdout.splitlines() if l.startswith("VIOLATION")]
            open("/verif/build/logs/refac_%s_%d_%s.out" % (g, i, c), "w").write(q.stdout[-6000:])
            keys = []
            for l in viol[:3]:
                m = re.search(r"replay=(\S+)", l)
                try:
                    keys.append(json.load(open(m.group(1)))["key"] + (" [no input]" if "no-failing-input-found" in l else " [INPUT]"))
                except Exception:
                    pass
            row[c] = {"rc": q.returncode, "violations": len(viol), "keys": keys}
            if q.returncode != 0:
                print(g, i, c, "ALARM", keys, flush=True)
        res.append({"patch": "%s/patch_%d.diff" % (g, i), "checks": row})
        print(g, i, "done", {c: r["rc"] for c, r in row.items()}, flush=True)
    json.dump(res, open("/verif/harmless/%s/%s" % (g, os.environ.get("REFAC_RESULTS", "results.json")), "w"), indent=1)
finally:
    subprocess.run(["git", "-C", "/repo", "worktree", "remove", "--force", wt], capture_output=True)
