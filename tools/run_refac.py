#!/usr/bin/env python3
"""tools/run_refac.py G checks... : apply each behaviour-preserving patch /tmp/refac_G/patch_i.diff to a
scratch worktree of /repo HEAD and run the given checks; a check must exit 0 (no alarm)."""
import subprocess, sys, os, re, json, glob, shutil
g = sys.argv[1]; checks = sys.argv[2:]
src = "/tmp/refac_%s" % g
wt = "/tmp/refacrun_%s" % g
subprocess.run(["git", "-C", "/repo", "worktree", "add", "--detach", wt, "HEAD"], capture_output=True)
os.makedirs("/verif/harmless/%s" % g, exist_ok=True)
res = []
try:
    for i in range(1, 7):
        p = "%s/patch_%d.diff" % (src, i)
        if not os.path.exists(p):
            continue
        shutil.copy(p, "/verif/harmless/%s/patch_%d.diff" % (g, i))
        subprocess.run(["git", "-C", wt, "checkout", "-q", "--", "EasyFEA"])
        if subprocess.run(["git", "-C", wt, "apply", p], capture_output=True).returncode != 0:
            print(g, i, "patch does not apply"); continue
        row = {}
        for c in checks:
            q = subprocess.run(["/verif/check", c], cwd="/verif", env=dict(os.environ, VERIF_REPO=wt), capture_output=True, text=True, timeout=3600)
            viol = [l for l in q.stdout.splitlines() if l.startswith("VIOLATION")]
            keys = []
            for l in viol[:3]:
                m = re.search(r"replay=(\S+)", l)
                try:
                    keys.append(json.load(open(m.group(1)))["key"] + (" [no input]" if "no-failing-input-found" in l else " [INPUT]"))
                except Exception:
                    pass
            row[c] = {"rc": q.returncode, "violations": len(viol), "keys": keys}
            if q.returncode != 0:
                print(g, i, c, "ALARM", keys, flush=True)
        res.append({"patch": "%s/patch_%d.diff" % (g, i), "checks": row})
        print(g, i, "done", {c: r["rc"] for c, r in row.items()}, flush=True)
    json.dump(res, open("/verif/harmless/%s/results.json" % g, "w"), indent=1)
finally:
    subprocess.run(["git", "-C", "/repo", "worktree", "remove", "--force", wt], capture_output=True)
