#!/usr/bin/env python3
"""tools/import_seeds.py Cxx offset [note...] — copy /tmp/seed_Cxx/{patch,demo}_{1,2,3} into
/verif/seeded/Cxx-(offset+i)/ with a minimal meta.json (round 2 of independent seeding)."""
import json, os, re, shutil, sys
pid, off = sys.argv[1], int(sys.argv[2])
ROUND = off // 3 + 1
for i in (1, 2, 3):
    src = "/tmp/seed_%s" % pid
    if not os.path.exists(src + "/patch_%d.diff" % i):
        continue
    sid = "%s-%d" % (pid, off + i)
    d = "/verif/seeded/" + sid
    os.makedirs(d, exist_ok=True)
    shutil.copy(src + "/patch_%d.diff" % i, d + "/patch.diff")
    shutil.copy(src + "/demo_%d.py" % i, d + "/demo.py")
    files = sorted(set(re.findall(r'^\+\+\+ b/(\S+)', open(d + "/patch.diff").read(), re.M)))
    json.dump({"property": pid, "round": ROUND, "files_touched": files,
               "confirmed": "tools/run_seeded.py %s: demo.py exits 0 on /repo HEAD and non-zero with patch.diff applied; the authoring sub-agent ran the full existing suite with the patch: 511 passed / 11 failed = the baseline" % sid,
               "ran": "tools/run_seeded.py %s (scratch worktree of /repo HEAD, git apply, VERIF_REPO=<worktree> ./check %s)" % (sid, pid),
               "author": "independent sub-agent (round %d)" % ROUND + " given only the property text and a scratch worktree"},
              open(d + "/meta.json", "w"), indent=1)
    print("imported", sid, files)
