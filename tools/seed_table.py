#!/usr/bin/env python3
"""Markdown table of the seeded changes from seeded/*/meta.json (first-run and latest result)."""
import json, glob, os, re
rows = []
for d in sorted(glob.glob('/verif/seeded/C*-*'), key=lambda p: (p.split('/')[-1].split('-')[0], int(p.split('-')[-1]))):
    m = json.load(open(d + '/meta.json'))
    sid = os.path.basename(d)
    first = m.get('result_first_run', '')
    lat = m.get('result_latest')
    if isinstance(lat, dict):
        keys = []
        for c in lat['checks']:
            if c['violations']:
                keys.append('%s: %s' % (c['check'], ', '.join('`%s`' % k for k in c['keys'][:2])))
        latest = lat['verdict'] + (' — ' + '; '.join(keys) if keys else '')
    else:
        latest = str(lat or '')
    what = m.get('change') or m.get('needs_to_manifest') or ', '.join(m.get('files_touched', []))
    rows.append('| %s | %s | %s | %s |' % (sid, what.replace('|', '/')[:170], (first or '(round 2: see latest)').replace('|', '/')[:60], latest.replace('|', '/')[:200]))
print('| seed | change / what it needs | first run | latest run |\n|---|---|---|---|')
print('\n'.join(rows))
