#!/bin/bash
# tools/run_seed.sh Cxx i [srcdir] : verify a seeded change and run the check against it.
# srcdir (default /tmp/seed_Cxx) holds patch_i.diff and demo_i.py; the worktree /tmp/seed_Cxx is
# moved to /repo's HEAD first so that earlier fix commits are in.
P=$1; I=$2; SRC=${3:-/tmp/seed_$P}; WT=/tmp/seed_$P
HEAD=$(git -C /repo rev-parse HEAD)
git -C $WT checkout -q --detach $HEAD -- 2>/dev/null || git -C $WT checkout -q --detach $HEAD
git -C $WT checkout -q -- EasyFEA
cd $WT
PYTHONPATH=$WT timeout 900 /venv/bin/python $SRC/demo_$I.py >/dev/null 2>&1; R0=$?
if ! git apply --check $SRC/patch_$I.diff 2>/dev/null; then echo "$P-$I: patch does not apply on HEAD"; exit 2; fi
git apply $SRC/patch_$I.diff
PYTHONPATH=$WT timeout 900 /venv/bin/python $SRC/demo_$I.py >/dev/null 2>&1; R1=$?
cd /verif
VERIF_REPO=$WT ./check $P > build/logs/seed_$P-$I.log 2>&1; RC=$?
git -C $WT checkout -q -- EasyFEA
echo "$P-$I: demo rc original=$R0 patched=$R1 ; check rc=$RC ; $(grep -c '^VIOLATION' build/logs/seed_$P-$I.log) violation line(s), $(grep -c 'no-failing-input-found' build/logs/seed_$P-$I.log) without input"
grep '^VIOLATION' build/logs/seed_$P-$I.log | head -3 | while read a b c rest; do f=${c#replay=}; python3 -c "import json;d=json.load(open('$f'));print('    ',d['key'],'|',d['what'][:150])"; done
